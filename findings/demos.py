#!/venv/bin/python
"""Triage demonstrations for the defects listed in DESIGN.md section 7.

NOT part of any check (checks never import or run /repo).  Each demo drives the
real code with the failing input that shows the defect is genuine; it prints
DEFECT (behaviour contradicts the property) or OK.  Run with /venv/bin/python.
"""
import io
import os
import subprocess
import sys
import tempfile
import traceback

from atsim.potentials.config import ConfigParser, Configuration, FilteredConfigParser
from atsim.potentials.config._common import ConfigurationException


def _cfg(text):
    return ConfigParser(io.StringIO(text))


def _tab(text):
    return Configuration().read(io.StringIO(text))


def _outcome(fn):
    try:
        r = fn()
        return ("returned", r)
    except ConfigurationException as e:
        return ("config-error", str(e)[:80])
    except SystemExit as e:
        return ("exit", e.code)
    except BaseException as e:
        return ("internal", type(e).__name__ + ": " + str(e)[:80])


DEMOS = []


def demo(f):
    DEMOS.append(f)
    return f


@demo
def c13_filtered_views_share_state():
    cp = _cfg("[Pair]\nA-B : as.zero\nC-D : as.zero\n")
    v1 = FilteredConfigParser(cp, include=["A", "B"])
    before = [p.species for p in v1.pair]
    FilteredConfigParser(cp, include=["C", "D"])
    after = [p.species for p in v1.pair]
    return before == after, "first view before %s after creating second view %s" % (before, after)


@demo
def c12_zero_filled_elements_in_hash_order():
    src = ("import io\nfrom atsim.potentials.config import Configuration\n"
           "t=Configuration().read(io.StringIO('''[Tabulation]\\ntarget: setfl\\nnr: 3\\nnrho: 3\\n"
           "[EAM-Embed]\\nAl : as.zero\\n[EAM-Density]\\nAl : as.zero\\nCu : as.zero\\nFe : as.zero\\nNi : as.zero\\nAg : as.zero\\nAu : as.zero\\n"
           "[Pair]\\nAl-Al : as.zero\\n'''))\nprint([p.species for p in t.eam_potentials])\n")
    outs = set()
    for seed in ("0", "1", "2", "3", "4", "5"):
        env = dict(os.environ, PYTHONHASHSEED=seed)
        outs.add(subprocess.run([sys.executable, "-c", src], env=env, capture_output=True, text=True).stdout.strip())
    return len(outs) == 1, "element orders over 6 hash seeds: %s" % sorted(outs)


@demo
def c18_datreader_last_line_without_newline():
    from atsim.potentials import TableReader
    t = TableReader(io.StringIO("0 1\n1 22\n2 33"))
    v = t(2.0)
    return v == 33.0, "value at x=2 is %r (expected 33.0)" % v


@demo
def c11_commensurate_cutoff_dr_loses_row():
    bad = []
    for cutoff, dr, k in ((0.7, 0.1, 7), (4.35, 0.05, 87), (10.0, 0.01, 1000)):
        cp = _cfg("[Tabulation]\ncutoff: %r\ndr: %r\n" % (cutoff, dr))
        if cp.tabulation.nr != k + 1:
            bad.append((cutoff, dr, cp.tabulation.nr, k + 1))
    return not bad, "(cutoff, dr, nr, expected) %s" % bad


_SPLINE = "[Tabulation]\ntarget: LAMMPS\nnr: 5\ncutoff: 3.0\n[Pair]\nA-B : spline(as.buck 1000.0 0.3 32.0 >0.8 %s >1.4 as.zero)\n"


@demo
def c16_exp_spline_with_parameter():
    o = _outcome(lambda: _tab(_SPLINE % "exp_spline 1.0"))
    return o[0] == "config-error", o


@demo
def c16_buck4_spline_without_rmin():
    o = _outcome(lambda: _tab(_SPLINE % "buck4_spline"))
    return o[0] == "config-error", o


@demo
def c16_buck4_spline_rmin_out_of_range():
    o = _outcome(lambda: _tab(_SPLINE % "buck4_spline 5.0"))
    return o[0] == "config-error", o


@demo
def c20_table_form_named_like_builtin():
    o = _outcome(lambda: _tab("[Tabulation]\ntarget: LAMMPS\nnr: 5\n[Table-Form:as.buck]\nx: 0 1 2 3\ny: 0 1 2 3\n[Pair]\nA-B : as.zero\n"))
    return o[0] == "config-error", o


@demo
def c20_table_form_and_formula_same_name():
    o = _outcome(lambda: _tab("[Tabulation]\ntarget: LAMMPS\nnr: 5\n[Table-Form:foo]\nx: 0 1 2 3\ny: 0 1 2 3\n[Potential-Form]\nfoo(r) = r\n[Pair]\nA-B : foo\n"))
    return o[0] == "config-error", o


@demo
def c20_whitespace_variant_duplicates():
    res = []
    for body in ("[Pair]\nA-B : as.zero\nA -B : as.constant 1\n",
                 "[EAM-Density]\nA->B : as.zero\nA -> B : as.constant 1\n",
                 "[Potential-Form]\nf(r,A) = r\nf(r, A) = 2*r\n"):
        res.append(_outcome(lambda: _cfg(body))[0])
    return all(r == "config-error" for r in res), res


@demo
def c14_override_key_with_whitespace():
    from atsim.potentials.config import ConfigParserOverrideTuple as T
    txt = "[Potential-Form]\nf(r, A) = r*A\n[Pair]\nA-B : as.zero\n"
    o = _outcome(lambda: ConfigParser(io.StringIO(txt), overrides=[T("Potential-Form", "f(r, A)", "r")]).potential_form[0].expression)
    a = _outcome(lambda: ConfigParser(io.StringIO(txt), additional=[T("Pair", "A - B", "as.constant 1")]))
    return o == ("returned", "r") and a[0] == "config-error", (o, a)


@demo
def c15_variables_leak_into_sections():
    txt = "[Variables]\nA_val : 1000.0\n[Tabulation]\ntarget: LAMMPS\nnr: 5\ncutoff: 2.0\n[Pair]\nA-B : as.buck ${A_val} 0.3 0.0\n"
    o = _outcome(lambda: [p.species for p in _cfg(txt).pair])
    return o[0] == "returned" and len(o[1]) == 1, o


@demo
def c16_pair_key_without_hyphen():
    o = _outcome(lambda: _cfg("[Pair]\nAB : as.zero\n").pair)
    return o[0] == "config-error", o


@demo
def c16_fs_density_key_with_two_arrows():
    o = _outcome(lambda: _cfg("[EAM-Density]\nA->B->C : as.zero\n").eam_density_fs)
    return o[0] == "config-error", o


@demo
def c16_species_non_numeric():
    o = _outcome(lambda: _cfg("[Species]\nAl.atomic_mass : abc\n").species)
    return o[0] == "config-error", o


@demo
def c16_table_form_only_x():
    o = _outcome(lambda: _cfg("[Table-Form:t]\nx : 1 2 3\n").table_form)
    return o[0] == "config-error", o


@demo
def c16_not_an_ini_file():
    o = _outcome(lambda: _cfg("hello world\n"))
    return o[0] == "config-error", o


@demo
def c16_unresolvable_placeholder():
    o = _outcome(lambda: _cfg("[Pair]\nA-B : as.buck ${nope} 0.3 0.0\n").pair)
    return o[0] == "config-error", o


@demo
def c16_nr_one():
    def f():
        t = _tab("[Tabulation]\ntarget: GULP\nnr: 1\ncutoff: 2.0\n[Pair]\nA-B : as.zero\n")
        t.write(io.StringIO())
    o = _outcome(f)
    return o[0] == "config-error", o


@demo
def c16_dlpoly_nr_four():
    def f():
        t = _tab("[Tabulation]\ntarget: DL_POLY\nnr: 4\ncutoff: 2.0\n[Pair]\nA-B : as.zero\n")
        t.write(io.StringIO())
    o = _outcome(f)
    return o[0] == "config-error", o


@demo
def c16_lammps_nr_two():
    def f():
        t = _tab("[Tabulation]\ntarget: LAMMPS\nnr: 2\ncutoff: 2.0\n[Pair]\nA-B : as.zero\n")
        t.write(io.StringIO())
    o = _outcome(f)
    return o[0] in ("config-error", "returned"), o


@demo
def c16_documented_target_LAMMPS_eam_alloy():
    o = _outcome(lambda: _tab("[Tabulation]\ntarget: LAMMPS_eam_alloy\nnr: 3\nnrho: 3\n[EAM-Embed]\nAl : as.zero\n[EAM-Density]\nAl : as.zero\n[Pair]\nAl-Al : as.zero\n").target)
    return o[0] == "returned", o


def _partial(target, extra=""):
    txt = ("[Tabulation]\ntarget: %s\nnr: 8\nnrho: 4\ncutoff: 2.0\n[Potential-Form]\nboom(r) = if(r > 1.0, pymath.sqrt(0-1), r)\n"
           "[Pair]\nAl-Al : boom\n%s" % (target, extra))
    t = _tab(txt)
    buf = io.StringIO()
    try:
        t.write(buf)
        return "no-failure", buf.getvalue()
    except Exception as e:
        return type(e).__name__, buf.getvalue()


@demo
def c17_gulp_partial_table():
    kind, out = _partial("GULP")
    return out == "", "write raised %s leaving %d bytes in fp" % (kind, len(out))


@demo
def c17_adp_partial_table():
    extra = ("[EAM-Embed]\nAl : as.zero\n[EAM-Density]\nAl : as.zero\n[EAM-ADP-Dipole]\nAl-Al : boom\n[EAM-ADP-Quadrupole]\nAl-Al : as.zero\n")
    txt = ("[Tabulation]\ntarget: eam_adp\nnr: 8\nnrho: 4\ncutoff: 2.0\n[Potential-Form]\nboom(r) = if(r > 1.0, pymath.sqrt(0-1), r)\n"
           "[Pair]\nAl-Al : as.zero\n" + extra)
    t = _tab(txt)
    buf = io.StringIO()
    try:
        t.write(buf)
        kind = "no-failure"
    except Exception as e:
        kind = type(e).__name__
    return buf.getvalue() == "", "write raised %s leaving %d bytes in fp" % (kind, len(buf.getvalue()))


@demo
def c14_list_items_omits_table_forms():
    from atsim.potentials.tools.potable._query_actions import _list_items
    cp = _cfg("[Table-Form:t]\nx : 1 2 3\ny : 1 2 3\n[Pair]\nA-B : t\n")
    items = [k for k, v in _list_items(cp)]
    return any(k.startswith("Table-Form:t") for k in items), items


@demo
def c14_list_items_omits_variables():
    from atsim.potentials.tools.potable._query_actions import _list_items
    cp = _cfg("[Variables]\nq : 1.0\n[Pair]\nA-B : as.constant ${q}\n")
    items = [k for k, v in _list_items(cp)]
    return "Variables:q" in items and items.count("Pair:A-B") == 1 and "Pair:q" not in items, items


@demo
def c13_empty_include_set_ignored():
    from atsim.potentials.tools.potable import _parse_command_line, _do_tabulation
    d = tempfile.mkdtemp()
    inp = os.path.join(d, "in.ini")
    outp = os.path.join(d, "out.txt")
    with open(inp, "w") as f:
        f.write("[Tabulation]\ntarget: GULP\nnr: 3\ncutoff: 1.0\n[Pair]\nA-B : as.zero\n")
    try:
        p, args = _parse_command_line([inp, outp, "--include-species"])
        try:
            _do_tabulation(p, args)
        except SystemExit:
            pass
        n = open(outp).read().count("spline")
    finally:
        import shutil
        shutil.rmtree(d)
    return n == 0, "--include-species with an empty set tabulates %d pair block(s) (hand-edited file would have 0)" % n


@demo
def c14_malformed_override_option():
    from atsim.potentials.tools.potable import _create_override_tuple
    o = _outcome(lambda: _create_override_tuple("Pair-A-B"))
    return o[0] == "config-error", o


@demo
def c11_zero_value_with_the_other_two_accepted():
    res = []
    for body in ("nr: 0\ndr: 0.1\ncutoff: 5.0\n", "nr: 11\ndr: 0.1\ncutoff: 0\n", "nrho: 0\ndrho: 0.1\ncutoff_rho: 5.0\n"):
        res.append(_outcome(lambda: (_cfg("[Tabulation]\n" + body).tabulation.nr, _cfg("[Tabulation]\n" + body).tabulation.nrho))[0])
    return all(r == "config-error" for r in res), res


_BASE = "[Tabulation]\ntarget: GULP\nnr: 5\ncutoff: 3.0\n"


def _write(txt):
    t = _tab(txt)
    t.write(io.StringIO())
    return "written"


@demo
def c16_spline_with_modifier_as_first_part():
    o = _outcome(lambda: _write(_BASE + "[Pair]\nA-B : spline(sum(as.buck 1000 0.3 0, as.zero) >0.8 exp_spline >1.4 as.zero)\n"))
    return o[0] == "returned", o


@demo
def c16_spline_with_modifier_as_middle_part():
    o = _outcome(lambda: _write(_BASE + "[Pair]\nA-B : spline(as.buck 1000 0.3 0 >0.8 sum(as.zero,as.zero) >1.4 as.zero)\n"))
    return o[0] == "config-error", o


@demo
def c16_table_form_given_parameters():
    o = _outcome(lambda: _write(_BASE + "[Table-Form:t]\nx: 0 1 2 3 4\ny: 0 1 2 3 4\n[Pair]\nA-B : t 1.0\n"))
    return o[0] == "config-error", o


@demo
def c16_table_form_unusable_data():
    a = _outcome(lambda: _write(_BASE + "[Table-Form:t]\nx: 0 1 2\ny: 0 1 2\n[Pair]\nA-B : t\n"))
    b = _outcome(lambda: _write(_BASE + "[Table-Form:t]\nx: 0 2 1 3 4\ny: 0 1 2 3 4\n[Pair]\nA-B : t\n"))
    return a[0] == "config-error" and b[0] == "config-error", (a, b)


@demo
def c20_table_form_named_like_buck4():
    o = _outcome(lambda: _write(_BASE + "[Table-Form:as.buck4]\nx: 0 1 2 3 4\ny: 0 1 2 3 4\n[Pair]\nA-B : as.buck4\n"))
    return o[0] == "config-error", o


@demo
def c15_variable_named_like_an_option():
    a = _cfg("[Variables]\ncutoff: 7.0\n[Tabulation]\nnr: 5\n[Pair]\nA-B: as.zero\n").tabulation.cutoff
    b = _outcome(lambda: _write("[Variables]\ninterpolation: foo\n" + _BASE + "[Table-Form:t]\nx: 0 1 2 3 4\ny: 0 1 2 3 4\n[Pair]\nA-B : t\n"))
    return a is None and b[0] == "returned", ("unused variable 'cutoff' changes [Tabulation].cutoff to %r" % a, b)


@demo
def c14_add_item_to_variables():
    from atsim.potentials.config import ConfigParserOverrideTuple as T
    o = _outcome(lambda: ConfigParser(io.StringIO("[Variables]\nq:1\n[Pair]\nA-B: as.constant ${q}\n"),
                                      additional=[T("Variables", "z", "2")]).raw_config_parser["Variables"]["z"])
    return o == ("returned", "2"), o


@demo
def c16_trans_with_modifier_as_second_argument():
    o = _outcome(lambda: _write(_BASE + "[Pair]\nA-B : trans(as.zero, sum(as.constant 1, as.zero))\n"))
    return o[0] == "config-error", o


@demo
def c16_nested_custom_form_called_with_wrong_arity():
    o = _outcome(lambda: _write(_BASE + "[Pair]\nA-B : f 1.0\n[Potential-Form]\ng(r, a) = a*r\nf(r, a) = g(r, a, 2.0)\n"))
    return o[0] == "config-error", o


@demo
def c16_formula_parameter_named_like_another_form():
    o = _outcome(lambda: _write(_BASE + "[Pair]\nA-B : f 1.0\n[Potential-Form]\ng(r, a) = a*r\nf(r, g) = g*r\n"))
    return o[0] == "config-error", o


@demo
def c16_formula_names_clashing_with_exprtk_constants():
    a = _outcome(lambda: _write(_BASE + "[Pair]\nA-B : f 1.0\n[Potential-Form]\nf(r, pi) = pi*r\n"))
    b = _outcome(lambda: _write(_BASE + "[Pair]\nA-B : f 1.0\n[Potential-Form]\npi(r, a) = a*r\nf(r, a) = a*r\n"))
    return a[0] == "config-error" and b[0] == "config-error", (a, b)


@demo
def c17_excel_eam_second_write_after_failure():
    import io
    from atsim.potentials import Potential, EAMPotential
    from atsim.potentials.eam_tabulation import Excel_EAMTabulation

    def dens(r):
        if r > 2.0:
            raise ValueError("domain")
        return 1.0 / (1 + r)
    t = Excel_EAMTabulation([Potential("A", "A", lambda r: 1.0 / (r + 1))], [EAMPotential("A", 1, 1.0, lambda rho: rho, dens)], 5.0, 11, 10.0, 11)
    res = []
    for i in (1, 2):
        fp = io.BytesIO()
        try:
            t.write(fp)
            res.append(("returned", len(fp.getvalue())))
        except ValueError:
            res.append(("raised", len(fp.getvalue())))
    return all(n == 0 for _, n in res), res


@demo
def c07_polynomial_derivatives_at_zero():
    from atsim.potentials import potentialfunctions as pf
    out = []
    for f in (pf.polynomial.deriv, pf.polynomial.deriv2):
        try:
            out.append(f(0.0, 1.0, 2.0, 3.0))
        except ZeroDivisionError as e:
            out.append("ZeroDivisionError: %s" % e)
    return out == [2.0, 6.0], out


if __name__ == "__main__":
    want = sys.argv[1:]
    nbad = 0
    for d in DEMOS:
        if want and d.__name__ not in want:
            continue
        try:
            ok, info = d()
        except BaseException as e:
            ok, info = False, "demo raised %s: %s" % (type(e).__name__, str(e)[:100])
        print("%-45s %s  %s" % (d.__name__, "OK    " if ok else "DEFECT", info))
        nbad += (not ok)
    print("%d defect(s) shown" % nbad)

#!/bin/sh
# usage: tools_try_twin.sh <patch.diff> [checks...]
# Applies a behaviour-preserving patch to a scratch worktree and runs every check (16 parallel);
# every check is expected to stay silent (exit 0).
P=$(readlink -f "$1"); shift
CHECKS="$@"
[ -z "$CHECKS" ] && CHECKS="C01 C02 C03 C04 C05 C06 C07 C08 C09 C10 C11 C12 C13 C14 C15 C16 C17 C18 C19 C20"
WT=/tmp/repo_twin_$$
git -C /repo worktree add -q --detach $WT HEAD || exit 2
git -C $WT apply "$P" || { echo "apply failed: $P"; git -C /repo worktree remove --force $WT; exit 2; }
OUT=/tmp/twin_out_$$; mkdir -p $OUT
for p in $CHECKS; do
  echo $p
done | xargs -P 16 -I{} sh -c "VERIF_EVIDENCE_DIR=$OUT/ev_{} VERIF_REPO=$WT /verif/check {} > $OUT/{}.out 2>&1; echo \$? > $OUT/{}.rc"
bad=0
for p in $CHECKS; do
  rc=$(cat $OUT/$p.rc)
  if [ "$rc" != "0" ]; then
    bad=1
    echo "== twin $P check $p exit=$rc"
    grep -E "^VIOLATION|^ANALYSIS-ERROR|^KNOWN|^  " $OUT/$p.out | head -${MAXL:-8}
  fi
done
[ $bad = 0 ] && echo "== twin $P: all silent"
[ -n "$KEEP" ] || { git -C /repo worktree remove --force $WT; rm -rf $OUT; }
exit $bad

#!/bin/sh
# For every fix: commit in /repo: revert it in a scratch worktree, run all checks, list violated obligation keys.
WT=/tmp/repo_clean
OUT=/verif/findings/fix_revert_matrix.txt
: > $OUT
for c in $(git -C /repo log --format=%h --grep='^fix:' --reverse); do
  subj=$(git -C /repo log -1 --format=%s $c)
  git -C $WT reset -q --hard; git -C $WT checkout -q --detach $(git -C /repo rev-parse HEAD)
  if git -C /repo show $c | git -C $WT apply -R 2>/dev/null; then
    echo "## $c $subj" >> $OUT
    for p in 01 02 03 04 05 06 07 08 09 10 11 12 13 14 15 16 17 18 19 20; do
      VERIF_EVIDENCE_DIR=/tmp/ev_scratch VERIF_REPO=$WT /verif/check C$p > /tmp/_m.out 2>&1; rc=$?
      if [ $rc -ne 0 ]; then
        echo "  C$p exit=$rc" >> $OUT
        grep -E "^  key |^ANALYSIS-ERROR" /tmp/_m.out | head -4 | sed 's/^/    /' >> $OUT
      fi
    done
  else
    echo "## $c $subj  (revert does not apply mechanically)" >> $OUT
  fi
done
git -C $WT reset -q --hard

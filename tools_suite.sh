#!/bin/sh
# Runs the pinned baseline suite on /repo and compares with BASELINE.json (162 stable passes).
cd /repo && /venv/bin/python -W ignore -m pytest -q -p no:cacheprovider --timeout=900 --continue-on-collection-errors --junitxml=/tmp/_suite.xml >/tmp/_suite.log 2>&1
/venv/bin/python - <<'PY'
import json, xml.etree.ElementTree as ET
b=json.load(open('/root/.vp/BASELINE.json'))
t=ET.parse('/tmp/_suite.xml')
passed=set()
for tc in t.iter('testcase'):
    bad=[c.tag for c in tc if c.tag in('failure','error','skipped')]
    name=tc.get('classname')+'::'+tc.get('name')
    if not bad: passed.add(name)
missing=[n for n in b['stable_pass'] if n not in passed]
print("suite: %d passed, baseline stable=%d, baseline tests now failing=%d"%(len(passed),len(b['stable_pass']),len(missing)))
for m in missing: print("  MISSING", m)
import sys; sys.exit(1 if missing else 0)
PY
rc=$?; rm -f /tmp/_suite.xml /tmp/_suite.log; exit $rc

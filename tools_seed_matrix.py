#!/venv/bin/python
"""Runs every seeded change against every check (16 scratch worktrees in parallel).
Writes seeded/MATRIX.txt: for each seed, the checks that report VIOLATION (exit 1) / ANALYSIS-ERROR (exit 2)."""
import json, os, subprocess, sys, shutil
from concurrent.futures import ThreadPoolExecutor
import re
FILTER = os.environ.get('SEED_FILTER')     # optional regex: only these seeds, result to /tmp/seed_matrix_partial.txt
SEEDS = sorted(d for d in os.listdir('/verif/seeded') if os.path.isdir('/verif/seeded/' + d) and (not FILTER or re.search(FILTER, d)))
OUTFILE = '/tmp/seed_matrix_partial.txt' if FILTER else '/verif/seeded/MATRIX.txt'
CHECKS = ["C%02d" % i for i in range(1, 21)]
HEAD = subprocess.check_output(['git', '-C', '/repo', 'rev-parse', 'HEAD'], text=True).strip()

def run_seed(args):
    idx, seed = args
    wt = '/tmp/wt_matrix_%d' % (idx % 16)
    return seed, wt

def worker(slot, seeds):
    wt = '/tmp/wt_matrix_%d' % slot
    ev = '/tmp/ev_matrix_%d' % slot
    if not os.path.isdir(wt):
        subprocess.check_call(['git', '-C', '/repo', 'worktree', 'add', '-q', '--detach', wt, HEAD])
    out = {}
    for seed in seeds:
        subprocess.check_call(['git', '-C', wt, 'reset', '-q', '--hard'])
        subprocess.check_call(['git', '-C', wt, 'checkout', '-q', '--detach', HEAD])
        r = subprocess.run(['git', '-C', wt, 'apply', '/verif/seeded/%s/patch.diff' % seed])
        if r.returncode:
            out[seed] = {'apply': 'FAILED'}
            continue
        res = {}
        for c in CHECKS:
            env = dict(os.environ, VERIF_REPO=wt, VERIF_EVIDENCE_DIR=ev)
            p = subprocess.run(['/verif/check', c], env=env, capture_output=True, text=True)
            if p.returncode:
                keys = [l.strip()[4:] for l in p.stdout.splitlines() if l.startswith('  key ')]
                errs = [l[:160] for l in p.stdout.splitlines() if l.startswith('ANALYSIS-ERROR')]
                res[c] = {'exit': p.returncode, 'keys': keys[:5], 'errors': errs[:2]}
        out[seed] = res
    subprocess.run(['git', '-C', '/repo', 'worktree', 'remove', '--force', wt])
    shutil.rmtree(ev, ignore_errors=True)
    return out

slots = 16
parts = [SEEDS[i::slots] for i in range(slots)]
allres = {}
with ThreadPoolExecutor(slots) as ex:
    for r in ex.map(lambda a: worker(*a), [(i, p) for i, p in enumerate(parts) if p]):
        allres.update(r)
subprocess.run(['git', '-C', '/repo', 'worktree', 'prune'])
with open(OUTFILE, 'w') as f:
    f.write("# seed -> checks that exit non-zero on /repo HEAD %s + seed (1 = VIOLATION, 2 = ANALYSIS-ERROR only)\n" % HEAD[:7])
    for seed in SEEDS:
        res = allres.get(seed, {})
        own = seed[:3]
        if 'apply' in res:
            f.write("%s APPLY-FAILED\n" % seed); continue
        caught = own in res and res[own]['exit'] == 1
        f.write("%s own-check %s: %s | all: %s\n" % (seed, own, 'VIOLATION' if caught else ('exit %s' % res.get(own, {}).get('exit', 0)),
                ", ".join("%s=%d" % (c, r['exit']) for c, r in sorted(res.items()))))
        for c, r in sorted(res.items()):
            for k in r['keys'][:3]:
                f.write("      %s %s\n" % (c, k))
            for e in r['errors'][:1]:
                f.write("      %s %s\n" % (c, e))
print(open('/verif/seeded/MATRIX.txt').read())

#!/bin/sh
# usage: tools_import_seeds6.sh <PID>
# Imports /tmp/seed6_<PID>/_seed/{patchK,patchL}.diff (+ demo, notes) into /verif/seeded/<PID>{K,L}, then confirms each in the
# sub-agent's own scratch worktree /tmp/seed6_<PID> (never /repo): patch applies, pinned suite still has its 162 stable passes,
# demo fails with the patch and passes without it; finally runs the property's own check against the patched worktree.
P=$1
WT=/tmp/seed6_$P
S=$WT/_seed
PY="/venv/bin/python -W ignore /verif/tools_wtpy.py $WT"
for L in K L; do
  [ -s $S/patch$L.diff ] || { echo "$P$L: no patch"; continue; }
  d=/verif/seeded/$P$L
  mkdir -p $d
  cp $S/patch$L.diff $d/patch.diff
  cp $S/demo$L.py $d/demo.py 2>/dev/null
  cp $S/notes.md $d/agent_notes.md 2>/dev/null
  git -C $WT checkout -q -- . ; git -C $WT apply $d/patch.diff || { echo "$P$L APPLY-FAILED"; continue; }
  (cd $WT && $PY -m pytest -q -p no:cacheprovider --timeout=900 --continue-on-collection-errors --junitxml=/tmp/_suite6_$P.xml >/dev/null 2>&1)
  suite=$(/venv/bin/python - /tmp/_suite6_$P.xml <<'PYE'
import json, sys, xml.etree.ElementTree as ET
b=json.load(open('/root/.vp/BASELINE.json')); t=ET.parse(sys.argv[1]); passed=set()
for tc in t.iter('testcase'):
    if not [c.tag for c in tc if c.tag in('failure','error','skipped')]: passed.add(tc.get('classname')+'::'+tc.get('name'))
missing=[n for n in b['stable_pass'] if n not in passed]
print("suite %d passed, baseline tests now failing=%d %s"%(len(passed),len(missing),missing[:3] if missing else ''))
PYE
)
  rm -f /tmp/_suite6_$P.xml
  $PY $d/demo.py >/tmp/_demo6_$P.out 2>&1; rc_mut=$?
  tailmut=$(tail -1 /tmp/_demo6_$P.out | cut -c1-150)
  VERIF_EVIDENCE_DIR=/tmp/ev_seed6_$P VERIF_REPO=$WT /verif/check $P > /tmp/_chk6_$P$L.out 2>&1; rc_chk=$?
  git -C $WT checkout -q -- .
  $PY $d/demo.py >/tmp/_demo6_$P.out 2>&1; rc_clean=$?
  echo "$P$L | $suite | demo mutated rc=$rc_mut ($tailmut) clean rc=$rc_clean | own check exit=$rc_chk"
  grep -E "^VIOLATION|^ANALYSIS-ERROR" /tmp/_chk6_$P$L.out | head -3 | cut -c1-300
  /venv/bin/python - "$P" "$L" "$d" "$suite" "$rc_mut" "$rc_clean" <<'PYE'
import json, sys
pid, L, d, suite, rm, rc = sys.argv[1:]
title = ""
for l in open('/verif/properties.jsonl'):
    r = json.loads(l)
    if r['id'] == pid:
        title = r['title']
theme = {"K": "two cooperating sites that each look fine alone", "L": "unusual input or multi-step sequence"}[L]
json.dump({"id": pid + L, "breaks_property": pid, "property_title": title,
           "source": "independent sub-agent (round 6: %s) given only the property record and a scratch worktree (see agent_notes.md, change %s)" % (theme, L),
           "needs_to_manifest": "see agent_notes.md section for change %s" % L,
           "confirmed": {"how": "tools_import_seeds6.sh: patch applied in a scratch worktree, pinned suite compared with BASELINE.json, demo.py run with and without the patch (tools_wtpy.py)",
                         "suite_with_patch": suite, "demo_exit_with_patch": int(rm), "demo_exit_without_patch": int(rc)}},
          open(d + '/meta.json', 'w'), indent=1)
PYE
done
rm -rf /tmp/ev_seed6_$P /tmp/_demo6_$P.out

# Run with:
#   /venv/bin/python -W ignore /tmp/wtpy.py /tmp/wt_r10_1 _twins/diffX.py
#
# Part (a) prints "EXISTING-BEHAVIOUR DIGEST <sha256>"; it must be identical on the
# clean and on the edited tree.  Part (b) demonstrates the new interpolation type
# (it reports "feature absent" on a clean tree).
import glob, hashlib, io, math, os, subprocess, sys, warnings

warnings.simplefilter("ignore")
WT = os.path.dirname(os.path.dirname(os.path.abspath(__file__)))
WTPY = ["/venv/bin/python", "-W", "ignore", "/tmp/wtpy.py", WT]

from atsim.potentials.config import Configuration, ConfigParser, ConfigParserOverrideTuple
from atsim.potentials.config._common import ConfigurationException


def tabulate(text, overrides=None):
  cp = ConfigParser(io.StringIO(text), overrides=overrides or [])
  tab = Configuration().read_from_parser(cp)
  try:
    out = io.StringIO()
    tab.write(out)
    return out.getvalue().encode("utf-8")
  except TypeError:
    out = io.BytesIO()
    tab.write(out)
    return out.getvalue()


def outcome(text, overrides=None):
  try:
    b = tabulate(text, overrides)
    return "OK %d %s" % (len(b), hashlib.sha256(b).hexdigest())
  except ConfigurationException as e:
    return "CFGERR %s: %s" % (type(e).__name__, e)
  except Exception as e:
    return "OTHER %s: %s" % (type(e).__name__, e)


TABLE_MODEL = u"""[Tabulation]
target : %(target)s
cutoff : 6.0
nr : %(nr)d

[Pair]
A-B : tab
A-A : sum(as.buck 1000.0 0.3 32.0, tab)
B-B : >0 as.zbl 8 8 >=1.0 tab >3.0 as.constant 0.0
C-A : product(tab, scaled 2.0)

[Potential-Form]
scaled(r, k) = k*tab(r)

[Table-Form:tab]
%(interp)s%(data)s
"""

EAM_TABLE_MODEL = u"""[Tabulation]
target : %(target)s
cutoff : 6.0
nr : 50
cutoff_rho : 5.5
nrho : 40

[EAM-Embed]
Al : tab
Cu : as.sqrt -1.0

[EAM-Density]
Al : tab
Cu : as.exponential 2.0 -1.5

[Pair]
Al-Cu : tab
Al-Al : as.buck 1000.0 0.3 32.0

[Table-Form:tab]
%(interp)s%(data)s
"""

XY = "x : 0.5 1.0 1.7 2.5 3.0 4.2 5.5\ny : 9.0 4.0 1.0 -0.5 -0.8 -0.2 0.0\n"
XY2 = "xy : 0.5 9.0 1.0 4.0 1.7 1.0 2.5 -0.5 3.0 -0.8\n  4.2 -0.2 5.5 0.0\n"

BAD_TABLE_DATA = [
  ("one point", "x : 1.0\ny : 2.0\n"),
  ("two points", "x : 1.0 2.0\ny : 2.0 1.0\n"),
  ("three points", "x : 1.0 2.0 3.0\ny : 2.0 1.0 0.5\n"),
  ("repeated x", "x : 1.0 2.0 2.0 3.0 4.0\ny : 2.0 1.0 0.5 0.2 0.1\n"),
  ("decreasing x", "x : 4.0 3.0 2.0 1.0 0.5\ny : 2.0 1.0 0.5 0.2 0.1\n"),
  ("unsorted x", "x : 1.0 3.0 2.0 4.0 5.0\ny : 2.0 1.0 0.5 0.2 0.1\n"),
  ("nan y", "x : 1.0 2.0 3.0 4.0 5.0\ny : 2.0 nan 0.5 0.2 0.1\n"),
  ("inf x", "x : 1.0 2.0 3.0 4.0 inf\ny : 2.0 1.0 0.5 0.2 0.1\n"),
  ("length mismatch", "x : 1.0 2.0 3.0 4.0\ny : 2.0 1.0 0.5\n"),
  ("odd xy", "xy : 1.0 2.0 3.0\n"),
  ("not a number", "x : 1.0 2.0 three 4.0\ny : 2.0 1.0 0.5 0.1\n"),
  ("x only", "x : 1.0 2.0 3.0 4.0\n"),
  ("no data", ""),
  ("x y and xy", "x : 1 2 3 4\ny : 1 2 3 4\nxy : 1 1 2 2 3 3 4 4\n"),
]


def existing_behaviour_lines():
  lines = []
  # 1. every example / test model shipped with the project, as written
  files = sorted(glob.glob(os.path.join(WT, "docs", "user_guide", "example_files", "*.aspot")))
  files += sorted(glob.glob(os.path.join(WT, "tests", "config", "config_resources", "*.aspot")))
  for fn in files:
    with open(fn) as infile:
      text = infile.read()
    lines.append("FILE %s -> %s" % (os.path.relpath(fn, WT), outcome(text)))

  # 2. the table-form example through every pair target
  with open(os.path.join(WT, "docs", "user_guide", "example_files", "basak_table_form.aspot")) as infile:
    basak = infile.read()
  for target, nr in [("LAMMPS", 652), ("DL_POLY", 652), ("DLPOLY", 650), ("GULP", 101), ("excel", 60)]:
    ov = [ConfigParserOverrideTuple("Tabulation", "target", target),
          ConfigParserOverrideTuple("Tabulation", "nr", str(nr))]
    o = outcome(basak, ov)
    if target == "excel":
      # xlsx is a zip with timestamps: report only success and the cell values
      o = excel_cells(basak, ov)
    lines.append("BASAK %s %d -> %s" % (target, nr, o))

  # 3. cubic_spline table forms (explicit and defaulted) used in pair and EAM models
  for interp in ["interpolation : cubic_spline\n", ""]:
    for data in [XY, XY2]:
      for target, nr in [("LAMMPS", 61), ("DL_POLY", 64), ("GULP", 31)]:
        lines.append("TABLE %r %s %s -> %s" % (interp, data[:2], target,
                     outcome(TABLE_MODEL % dict(target=target, nr=nr, interp=interp, data=data))))
      for target in ["setfl", "DL_POLY_EAM"]:
        lines.append("EAMTABLE %r %s %s -> %s" % (interp, data[:2], target,
                     outcome(EAM_TABLE_MODEL % dict(target=target, interp=interp, data=data))))

  # 4. error paths of table forms (cubic_spline and unknown interpolation types)
  for interp in ["interpolation : cubic_spline\n", "", "interpolation : no_such_type\n",
                 "interpolation : Cubic_Spline\n", "interpolation :\n"]:
    for label, data in BAD_TABLE_DATA + [("good", XY)]:
      lines.append("BADTABLE %r %s -> %s" % (interp, label,
                   outcome(TABLE_MODEL % dict(target="LAMMPS", nr=21, interp=interp, data=data))))
  dup = TABLE_MODEL % dict(target="LAMMPS", nr=21, interp="", data=XY)
  lines.append("DUP table/table -> %s" % outcome(dup + "\n[Table-Form: tab ]\n" + XY))
  lines.append("DUP table/form -> %s" % outcome(dup.replace("scaled(r, k) = k*tab(r)", "scaled(r, k) = k*tab(r)\ntab(r, k) = k*r")))
  lines.append("DUP table/builtin -> %s" % outcome(dup.replace("tab", "buck")))

  # 5. the Python objects: values and derivatives of the existing table form and of
  #    the registry/introspection that finds it
  from atsim.potentials import tableforms
  from atsim.potentials.config._table_form_builder import Table_Form_Builder
  xs = [0.5, 1.0, 1.7, 2.5, 3.0, 4.2, 5.5]
  ys = [9.0, 4.0, 1.0, -0.5, -0.8, -0.2, 0.0]
  tf = tableforms.Cubic_Spline_Table_Form(xs, ys)
  for i in range(0, 61):
    x = 0.1 * i
    lines.append("CUBIC %.1f %r %r %r" % (x, tf(x), tf.deriv(x), tf.deriv2(x)))
  lines.append("CUBIC interpolant %s" % type(tf.interpolant).__name__)
  lines.append("BUILDER cubic_spline -> %s" % Table_Form_Builder()._table_forms["cubic_spline"].__name__)

  # 6. a non-table sample of the library through the Python API
  import atsim.potentials as ap
  from atsim.potentials import potentialforms as pf
  pots = [ap.Potential("A", "B", pf.buck(1000.0, 0.3, 32.0)),
          ap.Potential("B", "B", ap.plus(pf.bornmayer(800.0, 0.25), pf.lj(0.01, 2.5))),
          ap.Potential("A", "A", pf.buck4(11272.6, 0.1363, 134.0, 1.2, 2.1, 2.6))]
  for fmt, nr in [("LAMMPS", 41), ("DL_POLY", 44)]:
    out = io.StringIO()
    ap.writePotentials(fmt, pots, 8.0, nr, out=out)
    lines.append("PYAPI %s -> %s" % (fmt, hashlib.sha256(out.getvalue().encode()).hexdigest()))
  return lines


def excel_cells(text, overrides):
  try:
    cp = ConfigParser(io.StringIO(text), overrides=overrides)
    tab = Configuration().read_from_parser(cp)
    out = io.BytesIO()
    tab.write(out)
    import openpyxl
    out.seek(0)
    wb = openpyxl.load_workbook(out)
    h = hashlib.sha256()
    for ws in wb.worksheets:
      h.update(ws.title.encode())
      for row in ws.iter_rows(values_only=True):
        h.update(repr(row).encode())
    return "OK cells " + h.hexdigest()
  except ConfigurationException as e:
    return "CFGERR %s: %s" % (type(e).__name__, e)
  except Exception as e:
    return "OTHER %s: %s" % (type(e).__name__, e)


def print_existing_digest(verbose):
  lines = existing_behaviour_lines()
  if verbose:
    for l in lines:
      print(l)
  print("EXISTING-BEHAVIOUR lines: %d" % len(lines))
  print("EXISTING-BEHAVIOUR DIGEST %s" % hashlib.sha256("\n".join(lines).encode()).hexdigest())


def fd1(f, x, h=1e-6):
  return (f(x + h) - f(x - h)) / (2.0 * h)


def hash_seed_runs(script, arg="--feature-bytes"):
  """Run this script's --feature-bytes mode under several hash seeds and return the set of outputs"""
  outs = set()
  for seed in ["0", "1", "42", "12345"]:
    env = dict(os.environ)
    env["PYTHONHASHSEED"] = seed
    p = subprocess.run(WTPY + [script, arg], env=env, stdout=subprocess.PIPE, stderr=subprocess.PIPE, universal_newlines=True)
    outs.add(p.stdout.strip())
  return outs


# ---------------------------------------------------------------------------
# Part (b): generic demonstration of a new interpolation type
# ---------------------------------------------------------------------------
import random, tempfile


def datasets(min_points):
  rng = random.Random(20261005)
  sets = [([0.5, 1.0, 1.7, 2.5, 3.0, 4.2, 5.5], [9.0, 4.0, 1.0, -0.5, -0.8, -0.2, 0.0])]
  sets.append(([float(i) for i in range(min_points)], [(-1.0) ** i * (i + 1.5) for i in range(min_points)]))
  for n in [4, 9, 50, 200]:
    x = []
    v = rng.uniform(-2.0, 2.0)
    for i in range(n):
      v += rng.choice([1e-3, 0.05, 0.3, 1.1]) * rng.uniform(0.5, 1.5)
      x.append(v)
    y = [rng.uniform(-50.0, 50.0) for i in range(n)]
    sets.append((x, y))
  return sets


def potable_cli(model_text, extra_args=()):
  d = tempfile.mkdtemp()
  inp = os.path.join(d, "in.aspot")
  outp = os.path.join(d, "out.table")
  with open(inp, "w") as f:
    f.write(model_text)
  code = "import sys; from atsim.potentials.tools.potable import main; main()"
  p = subprocess.run(WTPY + ["-c", code] + list(extra_args) + [inp, outp], stdout=subprocess.PIPE, stderr=subprocess.PIPE, universal_newlines=True)
  data = None
  if os.path.exists(outp):
    with open(outp, "rb") as f:
      data = f.read()
  return p.returncode, p.stderr.strip().splitlines()[-1:] , data


def feature_demo(script, label, cls_name, min_points, piecewise_linear, accepts_unsorted, has_interpolant, no_overshoot=True):
  from atsim.potentials import tableforms
  from atsim.potentials.config._table_form_builder import Table_Form_Builder
  interp = "interpolation : %s\n" % label
  model = TABLE_MODEL % dict(target="LAMMPS", nr=61, interp=interp, data=XY)

  if "--feature-bytes" in sys.argv:
    print(outcome(model), outcome(EAM_TABLE_MODEL % dict(target="setfl", interp=interp, data=XY)))
    return

  registry = Table_Form_Builder()._table_forms
  if label not in registry or not hasattr(tableforms, cls_name):
    print("NEW FEATURE: feature absent (interpolation type %r is not registered) -> %s" % (label, outcome(model)))
    return
  cls = getattr(tableforms, cls_name)
  assert registry[label] is cls
  assert registry["cubic_spline"] is tableforms.Cubic_Spline_Table_Form
  print("NEW FEATURE %r registered by introspection as %s; registry labels: %s" % (label, cls.__name__, sorted(registry)))
  ok = True

  # --- C18 / C07 on the class itself
  worst_pt = worst_d1 = worst_d2 = 0.0
  for x, y in datasets(min_points):
    tf = cls(x, y)
    for xi, yi in zip(x, y):
      v = tf(xi)
      assert type(v) is float and type(tf.deriv(xi)) is float and type(tf.deriv2(xi)) is float
      worst_pt = max(worst_pt, abs(v - yi) / max(1.0, abs(yi)))
    span = x[-1] - x[0]
    for xo in [x[0] - 1e-9 * max(1.0, abs(x[0])), x[0] - 1.0, x[0] - 100 * span, x[-1] + 1e-9 * max(1.0, abs(x[-1])), x[-1] + 1.0, x[-1] + 100 * span]:
      if not (tf(xo) == 0.0 and tf.deriv(xo) == 0.0 and tf.deriv2(xo) == 0.0):
        ok = False
        print("  NOT ZERO OUTSIDE at", xo, tf(xo), tf.deriv(xo), tf.deriv2(xo))
    for a, b, ya, yb in zip(x[:-1], x[1:], y[:-1], y[1:]):
      w = b - a
      h = w * 1e-4
      for frac in [0.15, 0.5, 0.85]:
        xm = a + frac * w
        scale = max(1.0, abs(ya), abs(yb)) / w
        if piecewise_linear:
          slope = (yb - ya) / w
          if not (abs(tf.deriv(xm) - slope) <= 1e-12 * scale and tf.deriv2(xm) == 0.0):
            ok = False
            print("  LINEAR DERIV WRONG", xm, tf.deriv(xm), slope, tf.deriv2(xm))
          if abs(tf(xm) - (ya + slope * (xm - a))) > 1e-12 * scale * w:
            ok = False
            print("  NOT ON THE CHORD", xm, tf(xm))
        lo, hi = min(ya, yb), max(ya, yb)
        if no_overshoot and not (lo - 1e-12 * scale * w <= tf(xm) <= hi + 1e-12 * scale * w):
          ok = False
          print("  NOT BETWEEN NEIGHBOURS", xm, tf(xm), ya, yb)
        worst_d1 = max(worst_d1, abs(tf.deriv(xm) - fd1(tf, xm, h)) / scale)
        worst_d2 = max(worst_d2, abs(tf.deriv2(xm) - fd1(tf.deriv, xm, h)) / (scale / w))
  print("  value between the neighbouring y values inside every interval: %s" % ("checked" if no_overshoot else "not applicable"))
  print("  pass-through: worst relative error at data points = %.3e" % worst_pt)
  print("  deriv  vs central difference of value: worst scaled error = %.3e" % worst_d1)
  print("  deriv2 vs central difference of deriv: worst scaled error = %.3e" % worst_d2)
  ok = ok and worst_pt < 1e-12 and worst_d1 < 1e-5 and worst_d2 < 1e-5
  if has_interpolant:
    tf = cls(*datasets(min_points)[0])
    print("  interpolant property ->", type(tf.interpolant).__module__, type(tf.interpolant).__name__)

  if accepts_unsorted:
    same = True
    rng = random.Random(7)
    for x, y in datasets(min_points):
      pts = list(zip(x, y))
      rng.shuffle(pts)
      a, b = cls(x, y), cls([p[0] for p in pts], [p[1] for p in pts])
      for q in [x[0] + (x[-1] - x[0]) * k / 97.0 for k in range(-3, 101)] + x:
        same = same and (a(q), a.deriv(q), a.deriv2(q)) == (b(q), b.deriv(q), b.deriv2(q))
    shuffled = "xy : 3.0 -0.8 0.5 9.0 5.5 0.0 1.7 1.0 1.0 4.0 4.2 -0.2 2.5 -0.5\n"
    same_bytes = outcome(model) == outcome(TABLE_MODEL % dict(target="LAMMPS", nr=61, interp=interp, data=shuffled))
    print("  points given in shuffled order define the same function: %s, same table bytes: %s" % (same, same_bytes))
    ok = ok and same and same_bytes

  # --- purity / history independence (C12)
  x, y = datasets(min_points)[0]
  tf1, tf2 = cls(x, y), cls(list(x), list(y))
  pts = [0.1 * i for i in range(0, 70)]
  fwd = [(tf1(p), tf1.deriv(p), tf1.deriv2(p)) for p in pts]
  other = cls([0.0, 1.0, 2.0, 3.0, 4.0][:max(min_points, 2)] + [9.0], [5.0, -1.0, 2.0, 0.0, 1.0][:max(min_points, 2)] + [3.0])
  [other(p) for p in pts]
  rev = [(tf2(p), tf2.deriv(p), tf2.deriv2(p)) for p in reversed(pts)]
  rev.reverse()
  print("  evaluation order / instance independence:", fwd == rev)
  ok = ok and fwd == rev
  print("  input lists not modified:", x == datasets(min_points)[0][0] and y == datasets(min_points)[0][1])

  # --- through the configuration layer (C01, C15, C18)
  o_xy = [outcome(TABLE_MODEL % dict(target=t, nr=n, interp=interp, data=d)) for d in (XY, XY2) for t, n in [("LAMMPS", 61), ("DL_POLY", 64), ("GULP", 31)]]
  print("  x/y and xy give the same tables:", o_xy[:3] == o_xy[3:], [o[:12] for o in o_xy[:3]])
  ok = ok and o_xy[:3] == o_xy[3:] and all(o.startswith("OK") for o in o_xy)
  print("  built twice gives same bytes:", outcome(model) == outcome(model))
  var_model = (TABLE_MODEL % dict(target="LAMMPS", nr=61, interp="interpolation : ${kind}\n", data=XY.replace("1.7", "${knot}"))) + "\n[Variables]\nkind : %s\nknot : 1.7\nunused : 3\n" % label
  print("  [Variables] substitution equals literal text:", outcome(var_model) == outcome(model))
  ok = ok and outcome(var_model) == outcome(model)
  eam = [outcome(EAM_TABLE_MODEL % dict(target=t, interp=interp, data=XY)) for t in ["setfl", "DL_POLY_EAM"]]
  print("  EAM embed/density/pair from the table form:", [o[:12] for o in eam])
  ok = ok and all(o.startswith("OK") for o in eam)

  # read the LAMMPS table back: energy = f(r), force = -f'(r) for block A-B
  xs = [0.5, 1.0, 1.7, 2.5, 3.0, 4.2, 5.5]
  ys = [9.0, 4.0, 1.0, -0.5, -0.8, -0.2, 0.0]
  tf = cls(xs, ys)
  text = tabulate(model).decode()
  lines = text.splitlines()
  i = lines.index("A-B")
  n = int(lines[i + 1].split()[1])
  worst = 0.0
  for row in lines[i + 3:i + 3 + n]:
    k, r, e, f = row.split()
    r, e, f = float(r), float(e), float(f)
    worst = max(worst, abs(e - tf(r)), abs(f + tf.deriv(r)))
  print("  LAMMPS block A-B: N=%d, worst |E-f(r)|,|F+f'(r)| = %.3e" % (n, worst))
  ok = ok and n == 60 and worst < 1e-7

  # --- error paths (C16): nothing but configuration errors
  for lab, data in BAD_TABLE_DATA:
    o = outcome(TABLE_MODEL % dict(target="LAMMPS", nr=21, interp=interp, data=data))
    print("  BAD DATA %-16s -> %s" % (lab, o[:150]))
    if o.startswith("OTHER"):
      ok = False
    if lab in ("one point", "repeated x", "nan y", "inf x", "length mismatch", "odd xy", "not a number", "x only", "no data", "x y and xy") and not o.startswith("CFGERR"):
      ok = False
    if lab in ("decreasing x", "unsorted x") and o.startswith("OK") != accepts_unsorted:
      ok = False
    if lab == "two points" and o.startswith("OK") != (min_points <= 2):
      ok = False
    if lab == "three points" and o.startswith("OK") != (min_points <= 3):
      ok = False
  rc, err, data = potable_cli(TABLE_MODEL % dict(target="LAMMPS", nr=21, interp=interp, data="x : 1.0 2.0 2.0 3.0 4.0\ny : 2.0 1.0 0.5 0.2 0.1\n"))
  print("  potable CLI, repeated x: exit status %d, %s, output file %s" % (rc, err, "absent" if data is None else "%d bytes" % len(data)))
  ok = ok and rc == 2 and "configuration error" in err[0] and not data
  rc, err, data = potable_cli(model)
  print("  potable CLI, good model: exit status %d, same bytes as API: %s" % (rc, data == tabulate(model)))
  ok = ok and rc == 0 and data == tabulate(model)
  dup = model + "\n[Table-Form: tab ]\n" + interp + XY
  print("  duplicate table form (C20) ->", outcome(dup)[:90])
  ok = ok and outcome(dup).startswith("CFGERR ConfigParserDuplicateEntryException")

  # --- hash seed independence (C12)
  outs = hash_seed_runs(script)
  print("  PYTHONHASHSEED 0/1/42/12345 distinct outputs: %d -> %s" % (len(outs), sorted(outs)[0][:100]))
  ok = ok and len(outs) == 1 and sorted(outs)[0].startswith("OK")
  print("NEW FEATURE CHECKS %s" % ("ALL PASSED" if ok else "FAILED"))


if __name__ == "__main__":
  if "--feature-bytes" not in sys.argv:
    print_existing_digest("-v" in sys.argv)
  feature_demo(os.path.join("_twins", "diffA.py"), label="linear", cls_name="Linear_Table_Form", min_points=2,
               piecewise_linear=True, accepts_unsorted=False, has_interpolant=False)

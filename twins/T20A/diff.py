"""diffA.py - checks for twin A (debug logging on the tabulation path).

Usage (from the worktree root, through the wrapper):
  /venv/bin/python -W ignore /tmp/wtpy.py /tmp/twin_20 _twins/diffA.py [-v]

(a) prints COMMON DIGEST: must be identical on the clean and the edited tree.  It is taken
    with the root logger at INFO (potable's own level) and *includes* every INFO+ log line
    and potable's stderr, so the edit must not add anything at INFO or above.
(b) demonstrates the new feature: with the root logger at DEBUG
      - all outputs, error messages and the order in which user potential callables are
        evaluated are unchanged (digest of all non-log items equals the INFO one),
      - the new messages appear (none on the clean tree),
      - the DEBUG log text itself is independent of PYTHONHASHSEED (3 fresh processes).
"""
import logging
import os
import sys

sys.path.insert(0, os.path.dirname(os.path.abspath(__file__)))
import common_digest as cd

NEW_LOGGERS = [
  "atsim.potentials._lammps_writeTABLE.writePotentials",
  "atsim.potentials._dlpoly_writeTABLE.writePotentials",
  "atsim.potentials.config._eam_potential_builder.EAM_Potential_Builder._init_eampotentials",
  "atsim.potentials.config._eam_potential_builder.EAM_Potential_Builder_FS._density_to_potential_form_dict",
  "atsim.potentials.config._config_parser._TabulationCutoff._init_cutoff",
  "atsim.potentials.config._config_parser.ConfigParser._init_config_parser",
  "atsim.potentials.config._config_parser.ConfigParser._parse_params_section",
]

def is_log_item(k):
  return k.startswith("goodlog:") or k.endswith(":log")

def nonlog_digest(items):
  return cd.sha("\n".join("{}={}".format(k, v) for k, v in items if not is_log_item(k)))


def debug_run():
  """Child process: everything at DEBUG.  Prints digest of non-log items, digest of the whole debug log and counts of new messages"""
  import io
  import atsim.potentials as ap
  from atsim.potentials import potentialforms as pf
  cd.setup_logging(logging.DEBUG)
  # Keep a full copy of everything logged (common_digest() truncates LOGCAPTURE between cases)
  full = io.StringIO()
  h = logging.StreamHandler(full)
  h.setFormatter(logging.Formatter("%(levelname)s %(name)s %(message)s"))
  logging.getLogger().addHandler(h)
  items, overall = cd.common_digest(logging.DEBUG)
  text = full.getvalue()
  # temp dir names of run_potable() are random: mask them
  import re
  text = re.sub(r"/tmp/twin_potable_\w+", "TMP", text)
  print("NONLOG " + nonlog_digest(items))
  print("DEBUGLOG " + cd.sha(text))
  for name in NEW_LOGGERS:
    n = len([l for l in text.splitlines() if l.startswith("DEBUG " + name + " ")])
    print("COUNT {} {}".format(name, n))
  shown = set()
  for l in text.splitlines():
    for name in NEW_LOGGERS:
      if l.startswith("DEBUG " + name + " ") and name not in shown:
        shown.add(name)
        print("SAMPLE " + l[:200])


def main():
  if "--debug-run" in sys.argv:
    debug_run()
    return

  items, overall = cd.common_digest(logging.INFO)
  cd.print_digest(items, overall, verbose = "-v" in sys.argv)
  info_nonlog = nonlog_digest(items)

  print("")
  print("FEATURE CHECKS (twin A)")
  outs = cd.hashseed_runs(os.path.join("_twins", "diffA.py"), ["--debug-run"])
  for o in outs:
    if o.startswith("FAILED"):
      print(o)
  nonlog = set([l for o in outs for l in o.splitlines() if l.startswith("NONLOG")])
  dbg = set([l for o in outs for l in o.splitlines() if l.startswith("DEBUGLOG")])
  print("  non-log items at INFO              : " + info_nonlog)
  print("  non-log items at DEBUG, 3 seeds    : " + ",".join(sorted(nonlog)))
  print("  -> outputs/errors/evaluation order unaffected by enabling DEBUG: {}".format(nonlog == set(["NONLOG " + info_nonlog])))
  print("  DEBUG log text digest, 3 seeds     : " + ",".join(sorted(dbg)))
  print("  -> DEBUG log text independent of PYTHONHASHSEED: {}".format(len(dbg) == 1))
  total = 0
  for l in outs[0].splitlines():
    if l.startswith("COUNT"):
      print("  " + l)
      total += int(l.split()[-1])
  print("  new debug messages seen: {}  (0 expected on the clean tree, > 0 on the edited tree)".format(total))
  for l in outs[0].splitlines():
    if l.startswith("SAMPLE"):
      print("  " + l)

main()

"""Differential script for twin A (potable command line front end).

Run with:
  /venv/bin/python -W ignore /tmp/wtpy.py /tmp/wt_r9_4 _twins/diffA.py

Only uses entry points which exist in the clean tree.  Prints one line per case and
a final sha256 digest over everything observed (stdout bytes, stderr text with
tracebacks reduced to their final line, exit statuses, bytes of tabulated files,
exception type names and messages)."""
import contextlib
import hashlib
import io
import os
import shutil
import subprocess
import sys

WT = os.path.dirname(os.path.dirname(os.path.abspath(__file__)))
OUTDIR_REL = os.path.join("_twins", "_outA")
OUTDIR = os.path.join(WT, OUTDIR_REL)

MODELS = [
  "tests/lammps_resources/CRG_U_Th.aspot",
  "tests/lammps_resources/AlFe_setfl_fs.aspot",
  "tests/lammps_resources/Al_Cu_adp.aspot",
  "tests/lammps_resources/zbl_spline.aspot",
  "tests/dl_poly_resources/CRG_Ce.aspot",
  "tests/config/config_resources/spinel.aspot",
  "docs/quick_start/basak.aspot",
  "docs/user_guide/example_files/basak_table_form.aspot",
  "docs/user_guide/example_files/standard_eam.aspot",
  "docs/user_guide/example_files/finnis_sinclair_eam.aspot",
  "docs/user_guide/example_files/morelon_buck4_spline.aspot",
]

digest = hashlib.sha256()

def record(label, *parts):
  h = hashlib.sha256()
  for p in parts:
    if isinstance(p, str):
      p = p.encode("utf-8")
    h.update(b"\x00" + p)
  line = "{} {}".format(h.hexdigest()[:16], label)
  print(line)
  digest.update(line.encode("utf-8") + b"\n")

def norm_stderr(txt):
  # Tracebacks contain line numbers of the (edited) sources: keep the final line only.
  if "Traceback (most recent call last)" in txt:
    lines = [l for l in txt.splitlines() if l.strip()]
    return "TRACEBACK:" + lines[-1]
  return txt

def run_cli(label, args, outfile = None):
  cmd = [sys.executable, "-W", "ignore", "/tmp/wtpy.py", WT, "-c",
         "from atsim.potentials.tools.potable import main; main()"] + list(args)
  if outfile is not None:
    cmd.append(outfile)
  proc = subprocess.run(cmd, cwd = WT, stdout = subprocess.PIPE, stderr = subprocess.PIPE)
  filebytes = b"<nofile>"
  if outfile is not None:
    fullpath = os.path.join(WT, outfile)
    if os.path.exists(fullpath):
      with open(fullpath, "rb") as infile:
        filebytes = infile.read()
      os.remove(fullpath)
  record(label, str(proc.returncode), proc.stdout, norm_stderr(proc.stderr.decode("utf-8")), filebytes)

def subprocess_cases():
  for i, model in enumerate(MODELS):
    name = os.path.basename(model)
    out = os.path.join(OUTDIR_REL, "case{}.out".format(i))
    run_cli("cli list-items {}".format(name), [model, "--list-items"])
    run_cli("cli -l {}".format(name), [model, "-l"])
    run_cli("cli list-item-labels {}".format(name), [model, "--list-item-labels"])
    run_cli("cli item-value target {}".format(name), [model, "--item-value", "Tabulation:target"])
    run_cli("cli tabulate {}".format(name), [model], out)

  crg = MODELS[0]
  basak = "docs/quick_start/basak.aspot"
  tform = "docs/user_guide/example_files/basak_table_form.aspot"
  out = os.path.join(OUTDIR_REL, "extra.out")

  run_cli("cli item-value no colon", [crg, "--item-value", "nocolon"])
  run_cli("cli item-value missing", [crg, "--item-value", "Pair:Zz-Zz"])
  run_cli("cli item-value missing section", [crg, "--item-value", "Nope:Zz-Zz"])
  run_cli("cli item-value pair", [crg, "--item-value", "Pair:U-O"])
  run_cli("cli item-value table form", [tform, "--item-value", "Table-Form:tabulated:x"])
  run_cli("cli no output file", [crg])
  run_cli("cli no arguments", [])
  run_cli("cli missing config", ["_twins/does_not_exist.aspot", "-l"])
  run_cli("cli mutex query", [crg, "--list-items", "--list-item-labels"])
  run_cli("cli mutex filter", [crg, "-l", "--include-species", "U", "--exclude-species", "O"])
  run_cli("cli help", ["--help"])
  run_cli("cli list with outfile", [crg, "-l"], out)

  for target in ["GULP", "DL_POLY", "LAMMPS", "FOO", ""]:
    run_cli("cli basak target {!r}".format(target), [basak, "-e", "Tabulation:target={}".format(target)], out)
    run_cli("cli basak target {!r} list".format(target), [basak, "-l", "-e", "Tabulation:target={}".format(target)])
  run_cli("cli basak remove target", [basak, "-r", "Tabulation:target"], out)
  run_cli("cli basak remove target list", [basak, "-r", "Tabulation:target", "--list-items"])
  run_cli("cli basak include O", [basak, "--include-species", "O"], out)
  run_cli("cli basak include O U list", [basak, "--include-species", "O", "U", "--list-item-labels"])
  run_cli("cli basak exclude O", [basak, "--exclude-species", "O"], out)
  run_cli("cli basak exclude O list", [basak, "--exclude-species", "O", "-l"])
  run_cli("cli crg include U O", [crg, "--include-species", "U", "O"], out)
  run_cli("cli crg exclude Th list", [crg, "--exclude-species", "Th", "-l"])
  run_cli("cli basak add pair", [basak, "-a", "Pair:Xe-Xe=as.buck 1000.0 0.3 1.0"], out)
  run_cli("cli basak add pair list", [basak, "-a", "Pair:Xe-Xe=as.buck 1000.0 0.3 1.0", "-l"])
  run_cli("cli basak add existing", [basak, "-a", "Pair:O-O=as.buck 1000.0 0.3 1.0", "-l"])
  run_cli("cli basak override missing", [basak, "-e", "Pair:Xe-Xe=as.buck 1000.0 0.3 1.0", "-l"])
  run_cli("cli basak override nr", [basak, "-e", "Tabulation:nr=12", "Tabulation:cutoff=6.5"], out)
  run_cli("cli basak two override options", [basak, "-e", "Tabulation:nr=12", "-e", "Tabulation:nr=16"], out)
  run_cli("cli basak malformed override no equals", [basak, "-e", "Tabulation:target"], out)
  run_cli("cli basak malformed override no colon", [basak, "-e", "nocolon=1"], out)
  run_cli("cli basak malformed add", [basak, "-a", "nocolon"], out)
  run_cli("cli basak malformed remove", [basak, "-r", "nocolon", "-l"])
  run_cli("cli basak bad potential form", [basak, "-e", "Pair:O-O=as.nothere 1.0"], out)
  run_cli("cli basak bad nr", [basak, "-e", "Tabulation:nr=abc"], out)
  run_cli("cli basak unwriteable", [basak], os.path.join(OUTDIR_REL, "no_such_dir", "out.lmptab"))

def inprocess_cases():
  from atsim.potentials.tools import potable
  from atsim.potentials.tools.potable import _query_actions
  from atsim.potentials.config import ConfigParser, FilteredConfigParser

  errcapture = io.StringIO()
  with contextlib.redirect_stderr(errcapture):
    for model in MODELS:
      name = os.path.basename(model)
      for action in ["action_list_items", "action_list_item_labels"]:
        with open(os.path.join(WT, model)) as infile:
          cp = ConfigParser(infile)
          capture = io.StringIO()
          # sys.stdout is swapped after import: output must follow the swap
          with contextlib.redirect_stdout(capture):
            retval = getattr(_query_actions, action)(cp)
          record("inproc {} {}".format(action, name), repr(retval), capture.getvalue())

      for key in ["Tabulation:target", "Pair:O-O", "nocolon", "Pair:Qq-Qq", "EAM-Embed:U", "A:B:C"]:
        with open(os.path.join(WT, model)) as infile:
          cp = ConfigParser(infile)
          capture = io.StringIO()
          try:
            with contextlib.redirect_stdout(capture):
              retval = _query_actions.action_item_value(cp, key)
            outcome = repr(retval)
          except Exception as e:
            outcome = "{}:{}".format(type(e).__name__, e)
          record("inproc action_item_value {} {}".format(name, key), outcome, capture.getvalue())

    # Filtered parser through the listing actions
    with open(os.path.join(WT, MODELS[0])) as infile:
      cp = FilteredConfigParser(ConfigParser(infile), exclude = ["Th"])
      capture = io.StringIO()
      with contextlib.redirect_stdout(capture):
        _query_actions.action_list_items(cp)
        _query_actions.action_list_item_labels(cp)
      record("inproc filtered listing", capture.getvalue())

    # main() in-process, arguments taken from sys.argv, stdout swapped at call time
    argvs = [
      [MODELS[0], "-l"],
      [MODELS[1], "--list-item-labels"],
      [MODELS[2], "--item-value", "Tabulation:nr"],
      [MODELS[0], "--item-value", "bad"],
      [MODELS[0]],
      [MODELS[6], "-e", "Tabulation:target=WRONG", "-l"],
      [MODELS[6], os.path.join(OUTDIR_REL, "inproc.out")],
      [MODELS[6], "-e", "Tabulation:target=GULP", os.path.join(OUTDIR_REL, "inproc.out")],
    ]
    for argv in argvs:
      capture = io.StringIO()
      errbefore = len(errcapture.getvalue())
      saved = sys.argv
      sys.argv = ["potable"] + argv
      try:
        with contextlib.redirect_stdout(capture):
          retval = potable.main()
        outcome = "returned {!r}".format(retval)
      except SystemExit as e:
        outcome = "SystemExit:{!r}".format(e.code)
      except Exception as e:
        outcome = "{}:{}".format(type(e).__name__, e)
      finally:
        sys.argv = saved
      filebytes = b"<nofile>"
      outpath = os.path.join(WT, OUTDIR_REL, "inproc.out")
      if os.path.exists(outpath):
        with open(outpath, "rb") as infile:
          filebytes = infile.read()
        os.remove(outpath)
      record("inproc main {}".format(" ".join(argv)), outcome, capture.getvalue(), errcapture.getvalue()[errbefore:], filebytes)

    # helpers used by main
    for cli_args in [[__file__, "OUT"], [__file__, "-l"], [__file__, "OUT", "-e", "A:b=1", "-e", "C:d=2", "E:f=3"],
                     [__file__, "--item-value", "A:b"], [__file__, "--include-species"], [__file__, "--exclude-species", "A", "B"]]:
      p, args = potable._parse_command_line(cli_args)
      d = dict(vars(args))
      d["config_file"] = os.path.basename(d["config_file"].name)
      args.config_file.close()
      record("inproc _parse_command_line {}".format(cli_args[1:]), repr(sorted(d.items())), p.prog, type(p).__name__)

    for key, has_value in [("A:b=1", True), ("A:b", False), ("A:b", True), ("nocolon=3", True), ("nocolon", False),
                           ("Table-Form:x:y=1=2", True), ("A:b=", True), (":=", True), ("Table-Form:x:y", False)]:
      try:
        outcome = repr(potable._create_override_tuple(key, has_value))
      except Exception as e:
        outcome = "{}:{}".format(type(e).__name__, e)
      record("inproc _create_override_tuple {!r} {}".format(key, has_value), outcome)

  record("inproc stderr", errcapture.getvalue())

def main():
  os.chdir(WT)
  if os.path.exists(OUTDIR):
    shutil.rmtree(OUTDIR)
  os.makedirs(OUTDIR)
  try:
    subprocess_cases()
    inprocess_cases()
  finally:
    shutil.rmtree(OUTDIR)
  print("DIGEST", digest.hexdigest())

if __name__ == "__main__":
  main()

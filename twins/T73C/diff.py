"""diffC.py - edit C: new potential modifier diff(f, g) = f(r) - g(r).

Usage (always through the worktree wrapper):

  /venv/bin/python -W ignore /tmp/wtpy.py /tmp/wt_r7_3 _twins/diffC.py            # digest + feature demo
  /venv/bin/python -W ignore /tmp/wtpy.py /tmp/wt_r7_3 _twins/diffC.py digest     # digest of EXISTING behaviour only
  /venv/bin/python -W ignore /tmp/wtpy.py /tmp/wt_r7_3 _twins/diffC.py feature    # demo of the new modifier only
  /venv/bin/python -W ignore /tmp/wtpy.py /tmp/wt_r7_3 _twins/diffC.py featuredigest  # (internal) table digest for hash-seed runs

The "EXISTING DIGEST" line must be identical on the clean tree and on the tree with the edit applied.
"""
from __future__ import print_function

import glob
import hashlib
import io
import math
import os
import subprocess
import sys

WT = os.path.dirname(os.path.dirname(os.path.abspath(__file__)))

from atsim.potentials import Potential, plus, product, pow as ppow
from atsim.potentials import potentialforms as pf
from atsim.potentials.pair_tabulation import LAMMPS_PairTabulation, DLPoly_PairTabulation
from atsim.potentials.config import Configuration, ConfigParser, ConfigParserOverrideTuple
from atsim.potentials.config._common import ConfigurationException
from atsim.potentials.config._modifier_registry import Modifier_Registry

# ---------------------------------------------------------------------------
# (a) digest of existing behaviour
# ---------------------------------------------------------------------------

def _tabulate(text, overrides=(), additional=()):
  cp = ConfigParser(io.StringIO(text), overrides=list(overrides), additional=list(additional))
  tab = Configuration().read_from_parser(cp)
  out = io.StringIO()
  tab.write(out)
  return tab, out.getvalue()

def _outcome(text, overrides=(), additional=()):
  """Return the table text or a description of the exception raised."""
  try:
    return _tabulate(text, overrides, additional)[1]
  except Exception as e:
    kind = "ConfigurationException" if isinstance(e, ConfigurationException) else "OTHER"
    return "%s|%s|%s" % (kind, type(e).__name__, e)

EXISTING_MODELS = [
u"""[Tabulation]
target : {target}
cutoff : 6.0
nr : {nr}

[Pair]
O-O : as.buck 1633.00510 0.327022 3.948790
U-U : as.buck 294.640000 0.327022 0.0
O-U : sum(as.buck 693.648700 0.327022 0.0, as.morse 1.6500 2.36900 0.577190)
A-A : product(as.constant 2.5, as.bornmayer 1000.0 0.3, truncate 2.5)
A-B : pow(as.polynomial 3.0 2.0, as.constant 2)
A-C : trans(pow(as.polynomial 3.0 2.0, as.constant 2), as.constant -2.0)
B-B : sum(as.buck 1000.0 0.1 0, trans(as.buck 1000.0 0.1 0, as.constant 1.0))
B-C : >=0 as.constant 3.0 >1.5 as.lj 0.1 2.0 >=4 as.zero
C-C : spline(>0 as.zbl 14 8 >=0.8 exp_spline >=1.4 as.buck 18003.7572 0.205204 133.5381)
C-D : spline(>0 as.bornmayer 11272.6 0.1363 >1.2 buck4_spline 2.1 >2.6 as.buck 0 1 134.0)
D-D : as.buck4 11272.6 0.1363 134.0 1.2 2.1 2.6
D-E : sum(trans(truncate 3.0, as.constant 0.5), pow(soft 1.0 2.0, as.constant 2), product(tab, as.constant 0.5))
E-E : sum(>0 truncate 1.0 >=2 as.zbl 8 8, as.exponential 2.0 1.5)

[Potential-Form]
truncate(rij, cutoff) = erfc(4*(rij-cutoff))/2.0
soft(r, a, b) = a/(b + r^2)

[Table-Form:tab]
interpolation : cubic_spline
x : 0.0 1.0 2.0 3.0 4.0 5.0 6.0 7.0
y : 9.0 4.0 1.0 0.5 0.2 0.1 0.05 0.0
""",
]

MALFORMED = [
  u"A-B : nosuchmodifier(as.buck 1000.0 0.1 1.0)",
  u"A-B : trans(as.buck 1000.0 0.1 1.0)",
  u"A-B : trans(as.buck 1000.0 0.1 1.0, as.buck 1000.0 0.1 1.0)",
  u"A-B : trans(as.buck 1000.0 0.1 1.0, as.constant 1.0 2.0)",
  u"A-B : trans(as.buck 1000.0 0.1 1.0, sum(as.constant 1.0))",
  u"A-B : trans(as.buck 1000.0 0.1 1.0, as.constant 1.0, as.constant 1.0)",
  u"A-B : spline(as.buck 1000.0 0.1 1.0)",
  u"A-B : spline(as.buck 1000.0 0.1 1.0, as.constant 1)",
  u"A-B : spline(>0 as.zbl 14 8 >=0.8 exp_spline 1.0 >=1.4 as.buck 18003.7572 0.205204 133.5381)",
  u"A-B : spline(>0 as.zbl 14 8 >=0.8 buck4_spline 3.0 >=1.4 as.buck 18003.7572 0.205204 133.5381)",
  u"A-B : sum(as.nosuchform 1.0)",
  u"A-B : sum(as.buck 1000.0 0.1)",
  u"A-B : pow(as.buck 1000.0 0.1 1.0, nosuch 2)",
  u"A-B : product(as.buck 1000.0 0.1 1.0,)",
  u"A-B : sum(as.buck 1000.0 0.1 1.0",
]

def _malformed_text(pair_line, target=u"LAMMPS", nr=11):
  return u"[Tabulation]\ntarget : %s\ncutoff : 5.0\nnr : %d\n\n[Pair]\n%s\n" % (target, nr, pair_line)

def existing_digest(verbose=False):
  h = hashlib.sha256()
  def feed(label, text):
    if not isinstance(text, bytes):
      text = text.encode("utf-8")
    h.update(label.encode("utf-8") + b"\0" + text + b"\0")
    if verbose:
      print("   %-58s %s" % (label, hashlib.sha256(text).hexdigest()[:16]))

  # 1. every example model shipped with the project, with its own target
  files = sorted(glob.glob(os.path.join(WT, "docs", "user_guide", "example_files", "*.aspot")))
  files += sorted(glob.glob(os.path.join(WT, "docs", "quick_start", "*.aspot")))
  files += sorted(glob.glob(os.path.join(WT, "tests", "config", "config_resources", "*.aspot")))
  for fname in files:
    with io.open(fname, encoding="utf-8") as infile:
      text = infile.read()
    rel = os.path.relpath(fname, WT)
    feed("example:" + rel, _outcome(text))

  # 2. a pair model using every existing modifier, nesting, multi-range, custom and table forms, for each pair target
  for model in EXISTING_MODELS:
    for target, nr in [(u"LAMMPS", 61), (u"DL_POLY", 64), (u"GULP", 31), (u"DLPOLY", 13)]:
      feed("model:%s:%d" % (target, nr), _outcome(model.format(target=target, nr=nr)))

  # 3. value / deriv / deriv2 of each potential of that model, at many separations
  tab, _ = _tabulate(EXISTING_MODELS[0].format(target=u"LAMMPS", nr=11))
  for pot in tab.potentials:
    func = pot.potentialFunction
    rows = []
    for i in range(1, 60):
      r = 0.1 * i
      row = [repr(pot.energy(r)), repr(pot.force(r))]
      for attr in ("deriv", "deriv2"):
        row.append(repr(getattr(func, attr)(r)) if hasattr(func, attr) else "n/a")
      rows.append(" ".join(row))
    feed("values:%s-%s" % (pot.speciesA, pot.speciesB), "\n".join(rows))

  # 4. error behaviour for malformed modifier use
  for line in MALFORMED:
    feed("malformed:" + line, _outcome(_malformed_text(line)))

  # 5. python API combinators
  class NoDeriv(object):
    def __call__(self, r):
      return math.exp(-r) + 0.5*r
  combos = [
    ("plus", plus(pf.buck(1000.0, 0.3, 32.0), pf.morse(1.65, 2.369, 0.57719))),
    ("plus_nd", plus(pf.buck(1000.0, 0.3, 32.0), NoDeriv())),
    ("product", product(pf.bornmayer(1000.0, 0.3), pf.polynomial(1.0, 0.5, 0.25))),
    ("product_nd", product(NoDeriv(), pf.polynomial(1.0, 0.5, 0.25))),
    ("pow", ppow(pf.polynomial(3.0, 2.0), pf.constant(2.0))),
    ("nested", plus(product(pf.lj(0.1, 2.0), pf.constant(2.0)), ppow(pf.polynomial(1.0, 1.0), pf.constant(3.0)))),
  ]
  for name, func in combos:
    rows = []
    for i in range(1, 40):
      r = 0.15 * i
      rows.append(" ".join([repr(func(r)), repr(func.deriv(r)), repr(func.deriv2(r))]))
    feed("api:" + name, "\n".join(rows))
    out = io.StringIO()
    LAMMPS_PairTabulation([Potential("A", "B", func)], 5.0, 21).write(out)
    feed("api-lammps:" + name, out.getvalue())
    out = io.StringIO()
    DLPoly_PairTabulation([Potential("A", "B", func)], 5.0, 24).write(out)
    feed("api-dlpoly:" + name, out.getvalue())

  # 6. the pre-existing modifiers are still registered and are the same kind of object
  reg = Modifier_Registry()
  for name in ["pow", "product", "spline", "sum", "trans"]:
    feed("registry:" + name, "%s %s" % (reg[name].__name__, callable(reg[name])))

  return h.hexdigest()

# ---------------------------------------------------------------------------
# helpers for (b)
# ---------------------------------------------------------------------------

CHECKS = []

def check(label, ok, detail=""):
  CHECKS.append(bool(ok))
  print("   [%s] %s %s" % ("ok" if ok else "FAIL", label, detail))

def fd1(func, r, h=1e-5):
  # 4th order central difference
  return (-func(r+2*h) + 8*func(r+h) - 8*func(r-h) + func(r-2*h)) / (12*h)

def close(a, b, rtol=1e-6, atol=1e-7):
  return abs(a-b) <= atol + rtol*max(abs(a), abs(b))

def potentials_of(text):
  tab = Configuration().read(io.StringIO(text))
  return tab, dict(((p.speciesA, p.speciesB), p) for p in tab.potentials)

def expect_config_error(label, pair_line):
  try:
    _tabulate(_malformed_text(pair_line))
  except ConfigurationException as e:
    check("configuration error for: " + label, True, "-> %s: %s" % (type(e).__name__, str(e)[:90]))
  except Exception as e:
    check("configuration error for: " + label, False, "-> escaped as %s: %s" % (type(e).__name__, e))
  else:
    check("configuration error for: " + label, False, "-> accepted")

def potable_stderr(pair_line):
  """Run the potable command line tool on a malformed file, return (exit status, stderr)."""
  import tempfile
  d = tempfile.mkdtemp()
  infile = os.path.join(d, "in.aspot")
  outfile = os.path.join(d, "out.table")
  with io.open(infile, "w", encoding="utf-8") as f:
    f.write(_malformed_text(pair_line))
  code = "import sys; from atsim.potentials.tools.potable import main; sys.argv=['potable', %r, %r]; main()" % (infile, outfile)
  p = subprocess.Popen([sys.executable, "-W", "ignore", "/tmp/wtpy.py", WT, "-c", code], stdout=subprocess.PIPE, stderr=subprocess.PIPE)
  _, err = p.communicate()
  size = os.path.getsize(outfile) if os.path.exists(outfile) else -1
  return p.returncode, err.decode("utf-8", "replace").strip().splitlines()[-1:] , size

def hash_seed_runs(script):
  digests = set()
  for seed in ["0", "1", "2", "31337", "random"]:
    env = dict(os.environ)
    env["PYTHONHASHSEED"] = seed
    out = subprocess.check_output([sys.executable, "-W", "ignore", "/tmp/wtpy.py", WT, script, "featuredigest"], env=env)
    digests.add(out.decode("utf-8").strip())
  return digests

def feature_present(name):
  try:
    Modifier_Registry()[name]
    return True
  except KeyError:
    return False

# ---------------------------------------------------------------------------
# (b) the new diff() modifier
# ---------------------------------------------------------------------------

_FORMS = u"""
[Potential-Form]
soft(r, a, b) = a/(b + r^2)

[Table-Form:tab]
interpolation : cubic_spline
x : 0.0 1.0 2.0 3.0 4.0 5.0 6.0 7.0
y : 9.0 4.0 1.0 0.5 0.2 0.1 0.05 0.0
"""

# (pair, first argument, second argument)
DIFFS = [
  (u"A-A", u"as.buck 1000.0 0.3 32.0", u"as.morse 1.65 2.369 0.57719"),
  (u"A-B", u"as.buck 1000.0 0.3 32.0", u"soft 1.0 2.0"),
  (u"A-C", u"soft 1.0 2.0", u"as.buck 1000.0 0.3 32.0"),
  (u"A-D", u"soft 1.0 2.0", u"soft 2.0 3.0"),
  (u"B-B", u">=0 as.constant 3.0 >1.5 as.lj 0.1 2.0 >=4 as.zero", u">0 as.bornmayer 1000.0 0.3 >=2 as.zero"),
  (u"B-C", u"sum(as.buck 1000.0 0.3 32.0, as.coul 2 -2)", u"as.coul 2 -2"),
  (u"B-D", u"as.buck 1000.0 0.3 32.0", u"as.buck 1000.0 0.3 32.0"),
  (u"D-D", u"spline(>0 as.zbl 14 8 >=0.8 exp_spline >=1.4 as.buck 18003.7572 0.205204 133.5381)", u"trans(as.buck 1000.0 0.3 32.0, as.constant 1.0)"),
  (u"D-E", u"diff(as.buck 1000.0 0.3 32.0, as.lj 0.1 2.0)", u"as.constant 2"),
  (u"E-E", u"as.constant 1.0", u"as.constant 2.0"),
  (u"E-F", u"tab", u"pow(as.polynomial 3.0 2.0, as.constant 2)"),
]
EXTRA = u"""C-C : sum(as.lj 0.1 2.0, diff(pow(as.polynomial 3.0 2.0, as.constant 2), tab))
C-D : >0 diff(as.lj 0.1 2.0, as.constant 1) >=3 diff(tab, as.constant 0.5)
"""
_HEAD = u"[Tabulation]\ntarget : {target}\ncutoff : 6.0\nnr : {nr}\n\n[Pair]\n"

FEATURE_MODEL = _HEAD + u"".join(u"%s : diff(%s, %s)\n" % d for d in DIFFS) + EXTRA + _FORMS
# the same through existing modifiers: f - g == f + (-1)*g exactly in floating point
EQUIVALENT_MODEL = _HEAD + u"".join(u"%s : sum(%s, product(%s, as.constant -1))\n" % d for d in DIFFS if d[0] != u"A-D") + _FORMS
FEATURE_MODEL_NO_AD = _HEAD + u"".join(u"%s : diff(%s, %s)\n" % d for d in DIFFS if d[0] != u"A-D") + _FORMS
# the arguments on their own: P-n / Q-n are the first / second argument of DIFFS[n]
REFERENCE_MODEL = _HEAD.format(target=u"LAMMPS", nr=11) + u"".join(u"P-%d : %s\nQ-%d : %s\n" % (i, d[1], i, d[2]) for i, d in enumerate(DIFFS)) \
  + u"X-Y : as.lj 0.1 2.0\nX-Z : tab\nX-X : pow(as.polynomial 3.0 2.0, as.constant 2)\n" + _FORMS

EAM_MODEL = u"""[Tabulation]
target : setfl
cutoff : 5.0
nr : 21
cutoff_rho : 10.0
nrho : 21

[Pair]
Ag-Ag : diff(as.lj 0.1 2.0, as.bornmayer 10.0 0.5)

[EAM-Embed]
Ag : diff(as.polynomial 0 0.1, as.sqrt 2.5)

[EAM-Density]
Ag : diff(as.exponential 2.0 1.5, >0 as.constant 0.5 >=3 as.zero)
"""
EAM_REFERENCE = EAM_MODEL.replace(u"diff(as.lj 0.1 2.0, as.bornmayer 10.0 0.5)", u"sum(as.lj 0.1 2.0, as.bornmayer -10.0 0.5)") \
  .replace(u"diff(as.polynomial 0 0.1, as.sqrt 2.5)", u"sum(as.polynomial 0 0.1, as.sqrt -2.5)") \
  .replace(u"diff(as.exponential 2.0 1.5, >0 as.constant 0.5 >=3 as.zero)", u"sum(as.exponential 2.0 1.5, >0 as.constant -0.5 >=3 as.zero)")

RS = [0.05 + 0.173*i for i in range(40)] + [0.8, 1.4, 1.5, 2.0, 3.0, 4.0]
BOUNDARIES = [0.8, 1.4, 1.5, 2.0, 3.0, 4.0]

def feature_digest():
  h = hashlib.sha256()
  for target, nr in [(u"LAMMPS", 61), (u"DL_POLY", 64), (u"GULP", 31)]:
    h.update(_outcome(FEATURE_MODEL.format(target=target, nr=nr)).encode("utf-8"))
  h.update(_outcome(EAM_MODEL).encode("utf-8"))
  return h.hexdigest()

def feature_demo():
  from atsim.potentials import gradient
  print("(b) diff() modifier")
  if not feature_present("diff"):
    print("   diff() is not registered in this tree (clean tree) - nothing to demonstrate")
    return
  tab, pots = potentials_of(FEATURE_MODEL.format(target=u"LAMMPS", nr=61))
  _, ref = potentials_of(REFERENCE_MODEL)

  # value == a(r) - b(r); deriv == a'(r) - b'(r) with the numerical fallback for whichever argument lacks an analytic derivative
  for i, d in enumerate(DIFFS):
    key = tuple(d[0].split("-"))
    f = pots[key].potentialFunction
    a = ref[("P", str(i))].potentialFunction
    b = ref[("Q", str(i))].potentialFunction
    check("%s value == f(r) - g(r) at %d separations" % (d[0], len(RS)), all(f(r) == a(r) - b(r) for r in RS))
    any_deriv = hasattr(a, "deriv") or hasattr(b, "deriv")
    any_deriv2 = hasattr(a, "deriv2") or hasattr(b, "deriv2")
    check("%s offers deriv/deriv2 when either argument does (as sum() does)" % d[0],
      hasattr(f, "deriv") == any_deriv and hasattr(f, "deriv2") == any_deriv2,
      "(args deriv %s/%s -> %s, deriv2 %s/%s -> %s)" % (hasattr(a, "deriv"), hasattr(b, "deriv"), hasattr(f, "deriv"), hasattr(a, "deriv2"), hasattr(b, "deriv2"), hasattr(f, "deriv2")))
    if hasattr(f, "deriv"):
      da, db = gradient(a), gradient(b)
      check("%s deriv == f'(r) - g'(r) (numerical for the argument without .deriv only)" % d[0], all(f.deriv(r) == da(r) - db(r) for r in RS))
      if hasattr(f, "deriv2"):
        d2a, d2b = gradient(da), gradient(db)
        check("%s deriv2 == f''(r) - g''(r)" % d[0], all(f.deriv2(r) == d2a(r) - d2b(r) for r in RS))

  # analytic derivatives against finite differences (away from range boundaries / spline knots)
  smooth_r = [r for r in RS if min(abs(r-b) for b in BOUNDARIES) > 1e-3 and r > 0.3]
  numeric_component = [("A","B"), ("A","C")]
  for key in sorted(pots):
    f = pots[key].potentialFunction
    if hasattr(f, "deriv"):
      bad = [(r, f.deriv(r), fd1(f, r)) for r in smooth_r if not close(f.deriv(r), fd1(f, r), 1e-5, 1e-6)]
      check("%s-%s deriv matches finite difference of the energy" % key, not bad, str(bad[:2]) if bad else "")
    if hasattr(f, "deriv2"):
      # with a component lacking analytic derivatives the second derivative is a nested central difference (noise ~1e-4)
      tol = 1e-3 if key in numeric_component else 1e-5
      bad = [(r, f.deriv2(r), fd1(f.deriv, r)) for r in smooth_r if not close(f.deriv2(r), fd1(f.deriv, r), tol, tol/10)]
      check("%s-%s deriv2 matches finite difference of deriv" % key, not bad, str(bad[:2]) if bad else "")
    bad = [r for r in smooth_r if not close(pots[key].force(r), -fd1(pots[key].energy, r), 1e-4, 1e-5)]
    check("%s-%s force == -dE/dr (%s)" % (key[0], key[1], "analytic" if hasattr(f, "deriv") else "numerical fallback"), not bad, str(bad[:3]))

  # special cases and nesting
  f = pots[("B","D")].potentialFunction
  check("B-D diff(f, f) is identically zero with zero derivatives", all(f(r) == 0 and f.deriv(r) == 0 and f.deriv2(r) == 0 for r in RS))
  f = pots[("E","E")].potentialFunction
  check("E-E diff(as.constant 1.0, as.constant 2.0) evaluates to -1 (documented example)", all(f(r) == -1.0 for r in RS))
  f = pots[("B","C")].potentialFunction; buck = ref[("P","1")].potentialFunction
  check("B-C diff(sum(buck, coul), coul) ~ buck", all(close(f(r), buck(r), 1e-9, 1e-9) and close(f.deriv(r), buck.deriv(r), 1e-9, 1e-9) for r in RS))
  f = pots[("B","B")].potentialFunction; a = ref[("P","4")].potentialFunction; b = ref[("Q","4")].potentialFunction
  check("B-B multi-range arguments passed through unchanged (boundaries 1.5, 2, 4)", all(f(r) == a(r) - b(r) and f.deriv(r) == a.deriv(r) - b.deriv(r) for r in [1e-9, 1.5, 1.5+1e-9, 2.0-1e-9, 2.0, 3.999, 4.0, 4.5]) and f(2.0) == a(2.0) and f(1.0) == 3.0 - b(1.0))
  lj = ref[("X","Y")].potentialFunction; t = ref[("X","Z")].potentialFunction; x = ref[("X","X")].potentialFunction
  f = pots[("C","C")].potentialFunction
  check("C-C sum(lj, diff(pow, tab)) == lj + (pow - tab): value, deriv, deriv2", all(f(r) == lj(r) + (x(r) - t(r)) and f.deriv(r) == lj.deriv(r) + (x.deriv(r) - t.deriv(r)) and f.deriv2(r) == lj.deriv2(r) + (x.deriv2(r) - t.deriv2(r)) for r in RS))
  f = pots[("C","D")].potentialFunction
  check("C-D diff() as ranges of a multi-range entry", all(f(r) == (lj(r) - 1 if r < 3 else t(r) - 0.5) and f.deriv(r) == (lj.deriv(r) if r < 3 else t.deriv(r)) for r in RS))
  f = pots[("D","E")].potentialFunction
  check("D-E diff(diff(buck, lj), 2) == (buck - lj) - 2", all(f(r) == (buck(r) - lj(r)) - 2 and f.deriv(r) == (buck.deriv(r) - lj.deriv(r)) - 0.0 for r in RS))
  check("argument order matters: A-B == -(A-C)", all(pots[("A","B")].energy(r) == -pots[("A","C")].energy(r) and pots[("A","B")].force(r) == -pots[("A","C")].force(r) for r in RS))

  # whole tables equal those of the same model written with sum() and product(..., as.constant -1)
  for target, nr in [(u"LAMMPS", 61), (u"DL_POLY", 64), (u"GULP", 31)]:
    t1 = _outcome(FEATURE_MODEL_NO_AD.format(target=target, nr=nr)); t2 = _outcome(EQUIVALENT_MODEL.format(target=target, nr=nr))
    check("%s table of diff(f, g) entries is byte-identical to that of sum(f, product(g, as.constant -1))" % target, t1 == t2 and not t1.startswith(("ConfigurationException|", "OTHER|")))

  # table rows: energy and force columns of the LAMMPS table agree with the model
  _, text = _tabulate(FEATURE_MODEL.format(target=u"LAMMPS", nr=61))
  lines = text.splitlines()
  ok = True; nrows = 0; i = 0
  while i < len(lines):
    if lines[i].startswith("N "):
      a, b = lines[i-1].split("-")
      p = pots[(a, b)]
      n = int(lines[i].split()[1])
      for row in lines[i+2:i+2+n]:
        k, rtxt, e, frc = row.split()
        # the separation the writer evaluated (the printed one is rounded to 8 places, which matters on a range boundary)
        r = 0.1 + float(int(k)-1) * (6.0 - 0.1) / (float(n) - 1)
        ok = ok and rtxt == "%.8f" % r
        ok = ok and close(float(e), p.energy(r), 1e-7, 1e-8) and close(float(frc), p.force(r), 1e-7, 1e-8)
        if min(abs(r-bnd) for bnd in BOUNDARIES) > 1e-6:
          ok = ok and close(float(frc), -fd1(p.energy, r), 1e-4, 1e-5)
        nrows += 1
      i += n
    i += 1
  check("LAMMPS table: %d rows, energy and force columns agree with model and -dE/dr" % nrows, ok and nrows == 13*60)

  # usable in EAM sections; equals the same model written with existing means
  check("setfl file using diff() in [Pair], [EAM-Embed], [EAM-Density] == file using sum() of negated forms",
    _outcome(EAM_MODEL) == _outcome(EAM_REFERENCE) and not _outcome(EAM_MODEL).startswith(("ConfigurationException|", "OTHER|")))

  # purity / determinism
  t1 = _outcome(FEATURE_MODEL.format(target=u"LAMMPS", nr=61))
  f = pots[("A","D")].potentialFunction
  vals = [f(r) for r in RS]; [p.energy(1.0) for p in tab.potentials]; vals2 = [f(r) for r in reversed(RS)][::-1]
  out = io.StringIO(); tab.write(out); out2 = io.StringIO(); tab.write(out2)
  check("rebuilding / rewriting / re-evaluating in another order gives identical results", t1 == out.getvalue() == out2.getvalue() and vals == vals2)
  digests = hash_seed_runs(os.path.join("_twins", os.path.basename(__file__)))
  check("tables identical under PYTHONHASHSEED=0,1,2,31337,random", len(digests) == 1 and feature_digest() in digests, str(sorted(digests)))

  # error paths
  expect_config_error("one argument", u"A-B : diff(as.buck 1000.0 0.1 1.0)")
  expect_config_error("three arguments", u"A-B : diff(as.buck 1000.0 0.1 1.0, as.constant 1.0, as.constant 1.0)")
  expect_config_error("four arguments", u"A-B : diff(as.constant 1.0, as.constant 1.0, as.constant 1.0, as.constant 1.0)")
  expect_config_error("no arguments", u"A-B : diff()")
  expect_config_error("unknown form in first argument", u"A-B : diff(as.nosuch 1000.0 0.1 1.0, as.constant 1.0)")
  expect_config_error("unknown form in second argument", u"A-B : diff(as.constant 1.0, nosuch 1.0)")
  expect_config_error("wrong parameter count in second argument", u"A-B : diff(as.constant 1.0, as.buck 1000.0 0.1)")
  expect_config_error("unknown modifier in an argument", u"A-B : diff(nosuch(as.buck 1000.0 0.1 1.0), as.constant 1.0)")
  expect_config_error("malformed nested diff", u"A-B : diff(as.constant 1.0, diff(as.constant 1.0))")
  status, err, size = potable_stderr(u"A-B : diff(as.buck 1000.0 0.1 1.0)")
  check("potable reports a configuration error, exit status != 0, no table", status != 0 and err and "configuration error" in err[0].lower() and size <= 0, "status=%s size=%s %s" % (status, size, err))

if __name__ == "__main__":
  mode = sys.argv[1] if len(sys.argv) > 1 else "all"
  if mode == "featuredigest":
    print(feature_digest())
    sys.exit(0)
  if mode in ("all", "digest"):
    print("(a) EXISTING DIGEST %s" % existing_digest(verbose="-v" in sys.argv))
  if mode in ("all", "feature"):
    feature_demo()
    if CHECKS:
      print("   %d/%d checks passed; FEATURE DIGEST %s" % (sum(CHECKS), len(CHECKS), feature_digest()))
      sys.exit(0 if all(CHECKS) else 1)

"""Differential script for twin A: drives the potable CLI (main()) in-process
with many option combinations and digests stdout, stderr, exit codes, logging
records and the bytes of produced files."""
import hashlib, io, os, sys, tempfile, logging, contextlib, shutil

WT = os.getcwd()
EX = os.path.join(WT, "docs", "user_guide", "example_files")
RES = os.path.join(WT, "tests", "config", "config_resources")
QS = os.path.join(WT, "docs", "quick_start")

from atsim.potentials.tools import potable
from atsim.potentials.config._common import ConfigurationException

h = hashlib.sha256()
lines = []
def rec(*a):
  s = " | ".join(str(x) for x in a)
  lines.append(s)
  h.update(s.encode("utf8") + b"\n")

class ListHandler(logging.Handler):
  def __init__(self):
    logging.Handler.__init__(self)
    self.levels = []
  def emit(self, record):
    self.levels.append((record.levelname))

def run_cli(tag, argv, outname = None):
  tmpd = tempfile.mkdtemp()
  out = io.StringIO(); err = io.StringIO()
  handler = ListHandler()
  root = logging.getLogger()
  root.addHandler(handler); root.setLevel(logging.INFO)
  old_argv = sys.argv
  old_cwd = os.getcwd()
  os.chdir(tmpd)
  code = "noexit"
  try:
    argv = list(argv)
    if outname:
      # positional OUTPUT_FILE goes straight after the definition file (the nargs='*' options would swallow it)
      argv.insert(1, outname)
    sys.argv = ["potable"] + argv
    with contextlib.redirect_stdout(out), contextlib.redirect_stderr(err):
      try:
        potable.main()
      except SystemExit as e:
        code = "exit:%r" % (e.code,)
      except BaseException as e:
        code = "exc:%s:%s" % (type(e).__name__, e)
  finally:
    sys.argv = old_argv
    os.chdir(old_cwd)
    root.removeHandler(handler)
  files = []
  for dp, dn, fn in os.walk(tmpd):
    dn.sort()
    for f in sorted(fn):
      with open(os.path.join(dp, f), "rb") as fh:
        files.append((os.path.relpath(os.path.join(dp,f), tmpd), hashlib.sha256(fh.read()).hexdigest()))
  shutil.rmtree(tmpd)
  errtxt = err.getvalue().replace(tmpd, "<TMP>")
  rec(tag, code, hashlib.sha256(out.getvalue().encode()).hexdigest()[:16], len(out.getvalue()),
      hashlib.sha256(errtxt.encode()).hexdigest()[:16], errtxt.strip().splitlines()[-1:] , files, handler.levels)

spinel = os.path.join(RES, "spinel.aspot")
setfl = os.path.join(RES, "setfl.aspot")
basak = os.path.join(QS, "basak.aspot")
morelon = os.path.join(EX, "morelon.aspot")
tableform = os.path.join(EX, "basak_table_form.aspot")
sutton = os.path.join(EX, "Ag_sutton.aspot")
std_eam = os.path.join(EX, "standard_eam.aspot")
fs_eam = os.path.join(EX, "finnis_sinclair_eam.aspot")

SMALL = ["-e", "Tabulation:nr=40", "Tabulation:cutoff=4.0"]

for name, f in [("spinel", spinel), ("setfl", setfl), ("basak", basak), ("morelon", morelon),
                ("tableform", tableform), ("sutton", sutton), ("std_eam", std_eam), ("fs_eam", fs_eam)]:
  run_cli(name+":list", [f, "-l"])
  run_cli(name+":labels", [f, "--list-item-labels"])
  run_cli(name+":list+out", [f, "--list-items"], "ignored.out")
  run_cli(name+":noout", [f])
  run_cli(name+":item", [f, "--item-value", "Tabulation:target"])
  run_cli(name+":item-missing", [f, "--item-value", "Tabulation:nothere"])
  run_cli(name+":item-malformed", [f, "--item-value", "Tabulation"])
  run_cli(name+":item-empty", [f, "--item-value", ""])

# Tabulations with filters and overrides
for name, f in [("basak", basak), ("morelon", morelon)]:
  for tgt in ["LAMMPS", "DL_POLY", "GULP", "DLPOLY", "bogus"]:
    run_cli("%s:tab:%s" % (name, tgt), [f, "-e", "Tabulation:target="+tgt, "Tabulation:nr=48"], "out.tab")
  run_cli(name+":include-O", [f, "--include-species", "O", "-l"])
  run_cli(name+":include-O-U-tab", [f, "-e", "Tabulation:nr=30", "--include-species", "O", "U"], "o.tab")
  run_cli(name+":include-U-O-tab", [f, "-e", "Tabulation:nr=30", "--include-species", "U", "O"], "o.tab")
  run_cli(name+":exclude-O", [f, "--exclude-species", "O", "-l"])
  run_cli(name+":exclude-O-tab", [f, "-e", "Tabulation:nr=30", "--exclude-species", "O"], "x.tab")
  # Empty species lists are values: include nothing vs exclude nothing
  run_cli(name+":include-empty-list", [f, "-l", "--include-species"])
  run_cli(name+":exclude-empty-list", [f, "-l", "--exclude-species"])
  run_cli(name+":include-empty-tab", [f, "x.tab", "-e", "Tabulation:nr=30", "--include-species"])
  run_cli(name+":exclude-empty-tab", [f, "x.tab", "-e", "Tabulation:nr=30", "--exclude-species"])
  run_cli(name+":both-filters", [f, "-l", "--include-species", "O", "--exclude-species", "U"])
  # query precedence / mutual exclusion
  run_cli(name+":l+labels", [f, "-l", "--list-item-labels"])
  run_cli(name+":l+item", [f, "-l", "--item-value", "Pair:O-O"])
  # overrides / additions / removals
  run_cli(name+":override-list", [f, "-l", "-e", "Tabulation:cutoff=3.5", "-e", "Tabulation:cutoff=4.5", "Tabulation:nr=7"])
  run_cli(name+":override-then-remove", [f, "-l", "-e", "Tabulation:cutoff=3.5", "-r", "Tabulation:cutoff"])
  run_cli(name+":remove", [f, "-l", "-r", "Pair:O-O", "Tabulation:nr"])
  run_cli(name+":remove-missing", [f, "-l", "-r", "Pair:Zz-Zz"])
  run_cli(name+":add", [f, "-l", "-a", "Pair:Xe-Xe=as.buck 1.0 0.3 0.0", "-a", "Tabulation:foo=bar"])
  run_cli(name+":add-existing", [f, "-l", "-a", "Tabulation:target=GULP"])
  run_cli(name+":override-missing", [f, "-l", "-e", "Tabulation:nothere=1"])
  run_cli(name+":empty-e", [f, "-l", "-e"])
  run_cli(name+":empty-a-r", [f, "-l", "-a", "-r"])
  # malformed: precedence of error messages (override first, then remove, then add)
  run_cli(name+":bad-e-noeq", [f, "-l", "-e", "Tabulation:cutoff"])
  run_cli(name+":bad-e-nocolon", [f, "-l", "-e", "cutoff=3"])
  run_cli(name+":bad-a-noeq", [f, "-l", "-a", "Tabulation:cutoff"])
  run_cli(name+":bad-a-nocolon", [f, "-l", "-a", "cutoff=3"])
  run_cli(name+":bad-r-nocolon", [f, "-l", "-r", "cutoff"])
  run_cli(name+":bad-r-with-eq", [f, "-l", "-r", "Tabulation:cutoff=3"])
  run_cli(name+":bad-e-and-a", [f, "-l", "-e", "nocolon=1", "-a", "noequals"])
  run_cli(name+":bad-a-and-r", [f, "-l", "-a", "noequals", "-r", "nocolon"])
  run_cli(name+":bad-e-and-r", [f, "-l", "-r", "nocolon", "-e", "Tabulation:noequals"])
  run_cli(name+":eq-in-value", [f, "-l", "-e", "Tabulation:cutoff=a=b:c"])
  run_cli(name+":bad-with-out", [f, "-e", "zzz"], "never.tab")
  run_cli(name+":item-after-override", [f, "-e", "Tabulation:cutoff=3.25", "--item-value", "Tabulation:cutoff"])
  run_cli(name+":item-value-tab", [f, "--item-value", "Pair:O-O"], "no.tab")

# Table-Form sections: section names with ':'
run_cli("tableform:item", [tableform, "--item-value", "Table-Form:pomf(r):x"])
run_cli("tableform:labels", [tableform, "--list-item-labels"])
run_cli("tableform:override", [tableform, "-l", "-e", "Table-Form:zzz:interpolation=cubic"])

# EAM tabulation through the CLI
for name, f in [("spinel", spinel), ("setfl", setfl), ("std_eam", std_eam), ("fs_eam", fs_eam), ("sutton", sutton)]:
  ov = ["-e", "Tabulation:nrho=60"] if name in ("spinel", "setfl") else []
  run_cli(name+":eam-tab", [f] + ov, "eam.tab")
  run_cli(name+":eam-tab-dlpoly", [f] + ov + ["-e", "Tabulation:target=DL_POLY_EAM"], "TABEAM")
  run_cli(name+":eam-exclude", [f, "-l", "--exclude-species", "O", "Ga"])
  run_cli(name+":eam-include-empty", [f, "-l", "--include-species"])

# argparse level errors
run_cli("nofile", ["/nonexistent/file.aspot", "-l"])
run_cli("noargs", [])
run_cli("badopt", [basak, "--frobnicate"])
run_cli("outdir-missing", [basak, "-e", "Tabulation:nr=20"], "nodir/sub/out.tab")

if "-v" in sys.argv:
  print("\n".join(lines))
print("records:", len(lines))
print("DIGEST", h.hexdigest())

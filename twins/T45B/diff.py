"""Differential script for twin B (atsim/potentials/pair_tabulation.py).

Exercises the pair tabulation classes (LAMMPS, DL_POLY, GULP, Excel) and the
Excel EAM classes that borrow Excel_PairTabulation._populate_worksheet, both
by direct construction and through atsim.potentials.config.Configuration and
the `potable` command line entry point.  Prints a sha256 digest over all
written text, spreadsheet cells (including exactly which cells exist in the
in-memory workbook), property values, file modes and exception types.

Run:  /venv/bin/python -W ignore /tmp/wtpy.py /tmp/wt_r4_5 _twins/diffB.py
"""
import hashlib
import io
import os
import re
import sys
import tempfile

from atsim.potentials import EAMPotential, Potential
from atsim.potentials import pair_tabulation as pt
from atsim.potentials import eam_tabulation as et
from atsim.potentials.config import Configuration

VERBOSE = "-v" in sys.argv
TOTAL = hashlib.sha256()
TMPROOT = tempfile.gettempdir()


def rec(label, value):
  if isinstance(value, bytes):
    value = value.decode("latin-1")
  s = "{}={!r}\n".format(label, value)
  TOTAL.update(s.encode("utf-8"))
  if VERBOSE:
    print("{} :: {} :: {}".format(label, hashlib.sha256(s.encode("utf-8")).hexdigest()[:16], repr(value)[:70]))


def clean(msg):
  return re.sub(re.escape(TMPROOT) + r"/[A-Za-z0-9_]+", "<TMP>", msg)


def attempt(label, func):
  try:
    v = func()
  except BaseException as e:  # noqa
    rec(label, "EXC:" + type(e).__name__ + ":" + clean(str(e)))
    return None
  if isinstance(v, (str, bytes, int, float, bool, type(None), list, tuple, dict)):
    rec(label, v)
  else:
    rec(label, "OBJ:" + type(v).__name__)
  return v


def dump_workbook(wb):
  out = []
  for ws in wb.worksheets:
    # cells that really exist in memory, in creation order, before we touch anything
    out.append(("SHEET", ws.title, ws.dimensions, ws.max_row, ws.max_column, ws._current_row))
    out.append(("CELLS", list(ws._cells.keys())))
    for key in list(ws._cells.keys()):
      c = ws._cells[key]
      out.append((c.coordinate, c.data_type, repr(c.value)))
  return out


def dump_xlsx_bytes(b):
  from openpyxl import load_workbook
  wb = load_workbook(io.BytesIO(b))
  out = []
  for ws in wb.worksheets:
    out.append(("SHEET", ws.title, ws.dimensions))
    for row in ws.iter_rows():
      for c in row:
        out.append((c.coordinate, c.data_type, repr(c.value)))
  return out


# ---------------------------------------------------------------------------

def pair_AA(r):
  return 1.5 * r * r - 0.25 * r + 0.125

def pair_AB(r):
  return 2.0 / (r + 1.0)

def pair_BB(r):
  return 0.75 * r

def pair_third(r):
  return r / 3.0

def dens_A(r):
  return 3.0 * r + 0.5

def dens_B(r):
  return 0.1 * r * r

def embed_A(rho):
  return -(rho ** 0.5)

def embed_B(rho):
  return -0.3 * rho

def returns_none(r):
  return None

def returns_str(r):
  return "v%g" % r

def returns_int(r):
  return int(r)


class Boom(Exception):
  pass

def exploding(r):
  if r > 1.0:
    raise Boom("bang at %r" % r)
  return r


def std_pairs(order):
  pots = {
    "AA": Potential("A", "A", pair_AA),
    "AB": Potential("A", "B", pair_AB),
    "BA": Potential("B", "A", pair_third),
    "BB": Potential("B", "B", pair_BB),
    "Zz": Potential("Zz", "C", pair_third)}
  return [pots[k] for k in order]


PAIR_CLASSES = [
  ("lammps", pt.LAMMPS_PairTabulation),
  ("dlpoly", pt.DLPoly_PairTabulation),
  ("gulp", pt.GULP_PairTabulation),
  ("excel", pt.Excel_PairTabulation),
]

GRIDS = [(6.0, 7), (2.5, 2), (10.0, 12), (3, 4), (7.5, 16), (1e-3, 5)]
ORDERS = [["AA", "AB", "BB"], ["BB", "BA", "AA", "Zz"], ["AB", "BA"], ["Zz"], []]


def props(label, tab):
  for name in ["type", "target", "nr", "cutoff", "dr"]:
    attempt(label + ".prop." + name, lambda: getattr(tab, name))
  attempt(label + ".prop.potentials", lambda: [(p.speciesA, p.speciesB) for p in tab.potentials])
  for name in ["nr", "cutoff", "dr", "type", "target", "potentials"] + (["workbook"] if hasattr(type(tab), "workbook") else []):
    def setter(name=name):
      setattr(tab, name, 3)
      return "set-ok"
    attempt(label + ".setprop." + name, setter)
  rec(label + ".public", sorted(n for n in dir(tab) if not n.startswith("_")))
  rec(label + ".mro", [c.__name__ for c in type(tab).__mro__ if not c.__name__.startswith("_")])
  rec(label + ".abstract", isinstance(tab, pt.PairTabulation_AbstractBase))


def open_fp_check(label, cls_or_obj):
  d = tempfile.mkdtemp()
  path = os.path.join(d, "out.dat")
  def doit():
    with cls_or_obj.open_fp(path) as f:
      return (type(f).__name__, f.mode)
  attempt(label + ".open_fp", doit)
  attempt(label + ".open_fp.kw", lambda: cls_or_obj.open_fp(filename=path).close())
  attempt(label + ".open_fp.baddir", lambda: cls_or_obj.open_fp(os.path.join(d, "nodir", "x")))
  attempt(label + ".open_fp.badtype", lambda: cls_or_obj.open_fp(None))
  try:
    os.remove(path)
    os.rmdir(d)
  except OSError:
    pass


def do_write(label, tab):
  is_excel = hasattr(type(tab), "workbook")
  fp = io.BytesIO() if is_excel else io.StringIO()
  attempt(label + ".write.ret", lambda: tab.write(fp))
  if is_excel:
    b = fp.getvalue()
    if b:
      attempt(label + ".write.cells", lambda: dump_xlsx_bytes(b))
    else:
      rec(label + ".write.cells", "EMPTY")
    attempt(label + ".workbook.cells", lambda: dump_workbook(tab.workbook))
    attempt(label + ".workbook.same", lambda: tab.workbook is tab.workbook)
  else:
    rec(label + ".write.out", fp.getvalue())
    attempt(label + ".write2.ret", lambda: tab.write(fp))
    rec(label + ".write2.len", len(fp.getvalue()))
  # wrong kind of file object
  wrong = io.StringIO() if is_excel else io.BytesIO()
  attempt(label + ".wrongfp.ret", lambda: tab.write(wrong))
  rec(label + ".wrongfp.out", wrong.getvalue())


def through_file(label, tab):
  d = tempfile.mkdtemp()
  path = os.path.join(d, "table")
  def doit():
    with tab.open_fp(path) as f:
      tab.write(f)
    with open(path, "rb") as f:
      b = f.read()
    if hasattr(type(tab), "workbook"):
      return dump_xlsx_bytes(b)
    return b
  attempt(label + ".file", doit)
  try:
    os.remove(path)
    os.rmdir(d)
  except OSError:
    pass


def direct_cases():
  attempt("abstract.write", lambda: pt.PairTabulation_AbstractBase([], 1.0, 3, "x").write(io.StringIO()))
  base = pt.PairTabulation_AbstractBase(std_pairs(["AA"]), 4.0, 5, "label")
  props("abstract", base)
  open_fp_check("abstract", pt.PairTabulation_AbstractBase)
  attempt("abstract.arity", lambda: pt.PairTabulation_AbstractBase([], 1.0, 3))
  attempt("abstract.kw", lambda: pt.PairTabulation_AbstractBase(potentials=[], cutoff=1.0, nr=3, target="t").target)

  for cname, cls in PAIR_CLASSES:
    open_fp_check("direct." + cname, cls)
    for gi, (cutoff, nr) in enumerate(GRIDS):
      for oi, order in enumerate(ORDERS):
        label = "direct.{}.g{}.o{}".format(cname, gi, oi)
        tab = attempt(label + ".ctor", lambda: cls(std_pairs(order), cutoff, nr))
        if tab is None:
          continue
        if oi == 0:
          props(label, tab)
          open_fp_check(label + ".inst", tab)
          tab = cls(std_pairs(order), cutoff, nr)
        do_write(label, tab)
        if oi < 2:
          through_file(label, cls(std_pairs(order), cutoff, nr))

    for gi, (cutoff, nr) in enumerate([(5.0, 1), (5.0, 0), (5.0, -2), (5.0, "x"), (None, 3), ("5", 3), (5.0, 4.0)]):
      label = "direct.{}.bad{}".format(cname, gi)
      tab = attempt(label + ".ctor", lambda: cls(std_pairs(["AA", "AB"]), cutoff, nr))
      if tab is None:
        continue
      props(label, tab)
      tab = cls(std_pairs(["AA", "AB"]), cutoff, nr)
      do_write(label, tab)
      do_write(label + ".again", tab)

    # potential failing part way through
    label = "direct.{}.boom".format(cname)
    tab = cls([Potential("A", "A", pair_AA), Potential("A", "B", exploding)], 6.0, 7)
    do_write(label, tab)
    do_write(label + ".again", tab)

    # unusual return values and labels
    for fi, func in enumerate([returns_none, returns_str, returns_int]):
      label = "direct.{}.odd{}".format(cname, fi)
      tab = cls([Potential("A", "A", func), Potential("B", "A", pair_BB)], 6.0, 4)
      do_write(label, tab)
    label = "direct.{}.oddlabel".format(cname)
    tab = attempt(label + ".ctor", lambda: cls([Potential(1, "A", pair_AA)], 6.0, 4))
    if tab is not None:
      do_write(label, tab)
    label = "direct.{}.notpots".format(cname)
    tab = attempt(label + ".ctor", lambda: cls([object()], 6.0, 4))
    if tab is not None:
      do_write(label, tab)
    label = "direct.{}.kw".format(cname)
    tab = attempt(label + ".ctor", lambda: cls(nr=5, cutoff=2.0, potentials=std_pairs(["AB", "AA"])))
    if tab is not None:
      do_write(label, tab)
    attempt("direct.{}.arity".format(cname), lambda: cls(std_pairs(["AA"]), 6.0))
    attempt("direct.{}.arity2".format(cname), lambda: cls(std_pairs(["AA"]), 6.0, 4, "T"))

  # the private worksheet filler is also used by the EAM Excel classes
  from openpyxl import Workbook
  tab = pt.Excel_PairTabulation(std_pairs(["AA"]), 6.0, 4)
  for ci, (keys, values) in enumerate([
      (["x", "y"], [0.0, 0.5, 1.0]),
      ([], [1.0, 2.0]),
      (["y"], []),
      (["y", "x", "y"], iter([3.0])),
      (("x",), (2.0, 4.0)),
      (["x", "missing"], [1.0])]):
    label = "populate.{}".format(ci)
    wb = Workbook()
    ws = wb.active
    attempt(label + ".ret", lambda: tab._populate_worksheet(ws, "first", values, keys, {"x": pair_AA, "y": pair_BB}))
    rec(label + ".cells", dump_workbook(wb))


def eam_excel_cases():
  for cname, cls, dens in [("excel_eam", et.Excel_EAMTabulation, [dens_A, dens_B]),
                           ("excel_eam_fs", et.Excel_FinnisSinclair_EAMTabulation, [{"A": dens_A, "B": dens_B}, {"B": dens_B}])]:
    for gi, (cutoff, nr, cutoff_rho, nrho) in enumerate([(6.0, 7, 20.0, 5), (2.5, 2, 1.0, 2), (3, 4, 7, 3)]):
      for oi, order in enumerate(ORDERS[:3]):
        label = "direct.{}.g{}.o{}".format(cname, gi, oi)
        eam = [EAMPotential("A", 13, 26.98, embed_A, dens[0]), EAMPotential("B", 29, 63.55, embed_B, dens[1])]
        if oi == 1:
          eam.reverse()
        tab = cls(std_pairs(order), eam, cutoff, nr, cutoff_rho, nrho)
        if oi == 0:
          open_fp_check(label, tab)
        do_write(label, tab)
        through_file(label, cls(std_pairs(order), eam, cutoff, nr, cutoff_rho, nrho))


CFG = u"""[Tabulation]
target : {target}
{grid}

[Pair]
{pair}
"""

CFG_GRIDS = ["dr : 0.5\ncutoff : 6", "nr : 8\ncutoff : 3.5", "nr : 12\ndr : 0.1", "cutoff : 2.0\nnr : 4", "nr : 3\ncutoff : 1", "nr : 2\ncutoff : 1", ""]
CFG_PAIRS = [
  "O-O : as.buck 1000.0 0.3 10.0\nAl-O : as.polynomial 0 2\nAl-Al : as.zero",
  "U-O : as.buck 1761.775 0.35643 0.0\nU-U : as.polynomial 1 2\nO-O : as.lj 0.01 2.5",
  "Si-O : >0 as.constant 1.0 >1.5 as.polynomial 0 1 >=3 as.zero",
  "",
]


def config_cases():
  for target in ["LAMMPS", "DLPOLY", "DL_POLY", "GULP", "excel", None, "nonsense"]:
    for gi, grid in enumerate(CFG_GRIDS):
      if gi == len(CFG_GRIDS) - 1 and target in ("excel", "GULP", "DLPOLY", "DL_POLY"):
        pairs = CFG_PAIRS[:1]   # default 1001 point grid: keep the run short
      else:
        pairs = CFG_PAIRS
      for mi, pair in enumerate(pairs):
        label = "cfg.{}.g{}.m{}".format(target, gi, mi)
        cfg = CFG.format(target=target, grid=grid, pair=pair)
        if target is None:
          cfg = cfg.replace("target : None\n", "")
        tab = attempt(label + ".read", lambda: Configuration().read(io.StringIO(cfg)))
        if tab is None:
          continue
        rec(label + ".class", type(tab).__name__)
        for name in ["type", "target", "nr", "cutoff", "dr"]:
          attempt(label + ".prop." + name, lambda: getattr(tab, name))
        do_write(label, tab)
        through_file(label, Configuration().read(io.StringIO(cfg)))

  for path in ["docs/quick_start/basak.aspot",
               "docs/user_guide/example_files/morelon.aspot",
               "docs/user_guide/example_files/morelon_buck4_spline.aspot",
               "docs/user_guide/example_files/soft_a.aspot",
               "docs/user_guide/example_files/exp_spline.aspot",
               "tests/lammps_resources/zbl_spline.aspot",
               "tests/dl_poly_resources/CRG_Ce.aspot"]:
    label = "file." + os.path.basename(path)
    def run(path=path):
      with open(path) as f:
        tab = Configuration().read(f)
      out = io.StringIO()
      tab.write(out)
      return (type(tab).__name__, tab.target, tab.type, tab.nr, tab.dr, tab.cutoff, hashlib.sha256(out.getvalue().encode("utf-8")).hexdigest())
    attempt(label, run)


def cli_cases():
  """potable command line: config file in, table file out"""
  import subprocess
  d = tempfile.mkdtemp()
  for ti, target in enumerate(["LAMMPS", "DLPOLY", "GULP", "excel"]):
    cfgpath = os.path.join(d, "in{}.aspot".format(ti))
    outpath = os.path.join(d, "out{}.tab".format(ti))
    with open(cfgpath, "w") as f:
      f.write(CFG.format(target=target, grid=CFG_GRIDS[1], pair=CFG_PAIRS[1]))
    code = ("import sys; sys.argv = ['potable', %r, %r];"
            "from atsim.potentials.tools.potable import main; main()" % (cfgpath, outpath))
    p = subprocess.run([sys.executable, "-W", "ignore", "/tmp/wtpy.py", os.getcwd(), "-c", code],
                       stdout=subprocess.PIPE, stderr=subprocess.PIPE)
    rec("cli.{}.rc".format(target), p.returncode)
    rec("cli.{}.stdout".format(target), clean(p.stdout.decode()))
    rec("cli.{}.stderr".format(target), clean(p.stderr.decode()))
    if os.path.exists(outpath):
      with open(outpath, "rb") as f:
        b = f.read()
      rec("cli.{}.out".format(target), dump_xlsx_bytes(b) if target == "excel" else b)
      os.remove(outpath)
    else:
      rec("cli.{}.out".format(target), "MISSING")
    os.remove(cfgpath)
  os.rmdir(d)


def main():
  rec("module.names", sorted(n for n in dir(pt) if not n.startswith("_")))
  rec("r_values", [list(pt._r_value_iterator(pt.LAMMPS_PairTabulation([], c, n))) for c, n in GRIDS])
  direct_cases()
  eam_excel_cases()
  config_cases()
  cli_cases()
  print("DIGEST", TOTAL.hexdigest())


main()

"""Differential script for twin B.

Exercises Potential_Form_Builder, Pair_Potentials_From_Tuples_Builder and
Pair_Potential_Builder: directly (as tests/config do) and through
Configuration.read() for [Pair] / [EAM-ADP-*] sections that contain
multi-range definitions, modifiers, unknown forms / modifiers and bad parameter
lists.  Prints a sha256 digest of all results, exception details and log records.
"""
import hashlib
import io
import logging
import re

from atsim.potentials.config import Configuration, ConfigParser
from atsim.potentials.config._potential_form_builder import Potential_Form_Builder
from atsim.potentials.config._potential_form_registry import Potential_Form_Registry
from atsim.potentials.config._modifier_registry import Modifier_Registry
from atsim.potentials.config._pair_potential_builder import Pair_Potential_Builder, Pair_Potentials_From_Tuples_Builder
from atsim.potentials.config._common import PotentialFormInstanceTuple, PotentialModifierTuple, MultiRangeDefinitionTuple

OUT = []
RVALS = [0.0, 0.25, 0.5, 0.999, 1.0, 1.0000001, 1.5, 1.6, 2.0, 2.1, 2.6, 3.0, 3.1, 4.75, 5.0, 5.1, 7.5, 10.0, 12.0]


def emit(*args):
  # memory addresses in reprs / messages differ from run to run
  OUT.append(re.sub(r"0x[0-9a-fA-F]+", "0xADDR", " | ".join(repr(a) for a in args)))


class _ListHandler(logging.Handler):
  def __init__(self):
    logging.Handler.__init__(self, logging.DEBUG)
    self.records = []

  def emit(self, record):
    self.records.append((record.name, record.levelname, record.getMessage()))


def exc_chain(e):
  chain = []
  while e is not None and len(chain) < 6:
    chain.append((type(e).__module__, type(e).__name__, str(e), repr(e.args)))
    e = e.__context__
  return chain


def attempt(label, func):
  handler = _ListHandler()
  root = logging.getLogger()
  root.addHandler(handler)
  oldlevel = root.level
  root.setLevel(logging.DEBUG)
  try:
    try:
      emit(label, "OK", func())
    except Exception as e:
      emit(label, "EXC", exc_chain(e))
  finally:
    root.removeHandler(handler)
    root.setLevel(oldlevel)
  for rec in handler.records:
    emit(label, "LOG", rec)


def sample(func):
  values = []
  for r in RVALS:
    try:
      values.append(repr(func(r)))
    except Exception as e:
      values.append((type(e).__name__, str(e)))
  extras = []
  for attr in ("deriv", "deriv2"):
    if hasattr(func, attr):
      row = []
      for r in RVALS[1:]:
        try:
          row.append(repr(getattr(func, attr)(r)))
        except Exception as e:
          row.append((type(e).__name__, str(e)))
      extras.append((attr, row))
  return type(func).__name__, values, extras


def sample_potential(pot):
  energies = []
  forces = []
  for r in RVALS[1:]:
    try:
      energies.append(repr(pot.energy(r)))
    except Exception as e:
      energies.append((type(e).__name__, str(e)))
    try:
      forces.append(repr(pot.force(r)))
    except Exception as e:
      forces.append((type(e).__name__, str(e)))
  return pot.speciesA, pot.speciesB, type(pot.potentialFunction).__name__, energies, forces


POTFORMS = u"""[Potential-Form]
cos_form(r, A, rc) = A * (1+cos((pi*r)/rc))
soft(r, A, rc) = if(r>rc, 0, cos_form(r, A, rc))
buck_morse(r, A, rho, C, D, gamma, r0) = as.buck(r,A,rho,C) + as.morse(r, gamma, r0, D)
noparams(r) = 1.5*r
"""


# ------------------------------------------------------------------ Potential_Form_Builder used directly
def builder_direct():
  PF = PotentialFormInstanceTuple
  MR = MultiRangeDefinitionTuple
  PM = PotentialModifierTuple

  cp = ConfigParser(io.StringIO(POTFORMS))
  pfr = Potential_Form_Registry(cp, register_standard=True)
  mr = Modifier_Registry()
  pfb = Potential_Form_Builder(pfr, mr)
  emit("builder-attrs", pfb.potential_form_registry is pfr, pfb.modifier_registry is mr)

  inner = [PF("as.constant", [1.0], None, PF("as.constant", [2.0], MR(">=", 1.0), None)),
           PF("as.constant", [3.0], MR(">", 1.5), None)]

  tuples = [
    ("single", PF("as.buck", [1000.0, 0.3, 32.0], None, None)),
    ("varargs", PF("as.polynomial", [-1.2, 1.3, 32.0], None, None)),
    ("custom", PF("soft", [10.0, 1.6], None, None)),
    ("custom-noparam", PF("noparams", [], None, None)),
    ("start-only", PF("as.buck", [1000.0, 0.3, 32.0], MR(">", 1.0), None)),
    ("start-zero", PF("as.constant", [4.0], MR(">=", 0), None)),
    ("start-zero-float", PF("as.constant", [4.0], MR(">", 0.0), None)),
    ("three", PF("as.zero", [], MR(">=", 0),
                 PF("as.buck", [1000.0, 0.3, 32.0], MR(">", 1),
                    PF("as.constant", [3], MR(">", 5), None)))),
    ("three-nostart", PF("as.zero", [], None,
                         PF("as.buck", [1000.0, 0.3, 32.0], MR(">=", 1),
                            PF("as.constant", [3], MR(">=", 5), None)))),
    ("unordered", PF("as.constant", [1.0], MR(">", 5.0),
                     PF("as.constant", [2.0], MR(">", 1.0), None))),
    ("same-start", PF("as.constant", [1.0], MR(">", 2.0),
                      PF("as.constant", [2.0], MR(">=", 2.0), None))),
    ("sum", PM("sum", inner, None, None)),
    ("sum-ranged", PF("as.constant", [2.0], MR(">=", 0),
                      PM("sum", inner, MR(">=", 1.0), PF("as.zero", [], MR(">=", 3.0), None)))),
    ("product", PM("product", inner, MR(">", 0.5), None)),
    ("nested", PM("sum", [PM("product", inner, None, None), PF("as.bornmayer", [100.0, 0.3], None, None)], None, None)),
    # failures
    ("unknown-form", PF("as.nothere", [1.0], None, None)),
    ("unknown-form-later", PF("as.zero", [], None, PF("missing", [1.0], MR(">", 2.0), None))),
    ("unknown-form-second-of-two-bad", PF("first_bad", [], None, PF("second_bad", [1.0], MR(">", 2.0), None))),
    ("unknown-modifier", PM("nomod", inner, None, None)),
    ("unknown-modifier-later", PF("as.zero", [], None, PM("nomod", inner, MR(">", 1.0), None))),
    ("unknown-form-in-modifier", PM("sum", [PF("as.constant", [1.0], None, None), PF("inner_missing", [], None, None)], None, None)),
    ("unknown-modifier-in-modifier", PM("sum", [PM("deepmod", inner, None, None)], None, None)),
    ("too-few", PF("as.buck", [1000.0], None, None)),
    ("too-many", PF("as.buck", [1.0, 2.0, 3.0, 4.0, 5.0], None, None)),
    ("too-many-custom", PF("soft", [1.0, 2.0, 3.0], None, None)),
    ("none-params", PF("as.buck", None, None, None)),
    ("none-name", PF(None, [], None, None)),
    ("unhashable-name", PF(["as.buck"], [1.0, 0.1, 0.0], None, None)),
    ("none-instance", None),
    ("not-a-tuple", "as.buck 1 2 3"),
    ("bad-start", PF("as.zero", [], (">", 1.0), None)),
    ("bad-next", PF("as.zero", [], None, "next")),
  ]
  for label, t in tuples:
    attempt("direct:" + label, lambda: sample(pfb.create_potential_function(t)))

  # Expressions parsed by the ConfigParser, as the tests do
  expressions = [
    "sum(as.constant 1.0 >=1.0 as.constant 2.0, >1.5 as.constant 3.0)",
    ">=0 as.constant 2.0 >=1.0 sum(as.constant 1.0 >= 2.0 as.constant 0.5, >=1.5 as.constant 10.0) >= 3.0 as.zero",
    "as.buck 1000.0 0.3 32.0 >2.0 as.zero",
    ">1.0 soft 10.0 1.6 >=3 as.polynomial 1 2 3",
    "spline(as.bornmayer 11272.6 0.1363 >1.2 exp_spline >2.6 as.buck 0.0 1.0 134.0)",
    "spline(as.bornmayer 11272.6 0.1363 >1.2 buck4_spline 2.1 >2.6 as.buck 0.0 1.0 134.0)",
    "spline(as.bornmayer 11272.6 0.1363 >1.2 as.nospline >2.6 as.buck 0.0 1.0 134.0)",
    "spline(as.bornmayer 11272.6 0.1363)",
    "product(as.constant 2.0, as.polynomial 0 1)",
    "pow(as.polynomial 0 1, as.constant 2)",
    "trans(as.polynomial 0 1 1, 0.5)",
    "nomod(as.constant 1.0)",
    "sum(as.constant 1.0, nothere 2)",
  ]
  for i, expr in enumerate(expressions):
    def run():
      potdef = cp._parse_multi_range("A", expr).potential_form_instance
      return sample(pfb.create_potential_function(potdef))
    attempt("direct-expr{}".format(i), run)


# ------------------------------------------------------------------ pair builders
PAIR_SECTIONS = [
  u"O-O : as.buck 1000.0 0.3 32.0\nU-O : as.bornmayer 1200 0.35\nU-U : as.zero\n",
  u"U-U : as.zero\nU-O : as.bornmayer 1200 0.35\nO-O : as.buck 1000.0 0.3 32.0\n",
  u"Si-O : soft 10.0 1.6\nO-O : >=0 soft 5.0 2.4 >2.4 as.constant 0.125\n",
  u"Th-O : buck_morse 315.544 0.395903 0.0 0.62614 1.85960 2.49788\nO-O : sum(as.buck 830.283 0.352856 3.884372, >=2 as.constant 0.5)\n",
  u"O-O : spline(as.bornmayer 11272.6 0.1363 >1.2 exp_spline >2.6 as.buck 0.0 1.0 134.0)\nO-U : as.bornmayer 566.498 0.42056\n",
  u"O-O : as.buck 1000.0 0.3 32.0\nU-O : as.nothere 1200 0.35\nU-U : alsomissing\n",
  u"O-O : as.buck 1000.0 0.3 32.0\nU-O : nomod(as.bornmayer 1200 0.35)\nU-U : alsomissing\n",
  u"O-O : sum(as.buck 1000.0 0.3 32.0, product(as.constant 1, nested_missing 3))\n",
  u"O-O : sum(as.buck 1000.0 0.3 32.0, innermod(as.constant 1))\n",
  u"O-O : as.buck 1000.0 0.3\n",
  u"O-O : as.buck 1000.0 0.3 32.0 12.0\nU-O : as.nothere\n",
  u"O-O : soft 1.0\n",
  u"O-O : spline(as.bornmayer 11272.6 0.1363)\n",
  u"O-O : spline(as.bornmayer 11272.6 0.1363 >1.2 as.nospline >2.6 as.buck 0.0 1.0 134.0)\n",
  u"O-O : spline(as.bornmayer 11272.6 0.1363 >2.6 exp_spline >1.2 as.buck 0.0 1.0 134.0)\n",
  u"O-O : trans(as.buck 1000.0 0.3 32.0)\n",
  u"",
]


def pair_builders():
  for i, pair in enumerate(PAIR_SECTIONS):
    txt = POTFORMS + u"[Pair]\n" + pair

    def via_pair_builder():
      cp = ConfigParser(io.StringIO(txt))
      pfr = Potential_Form_Registry(cp, register_standard=True, register_pymath_functions=True)
      builder = Pair_Potential_Builder(cp, pfr, Modifier_Registry())
      first = builder.potentials
      second = builder.potentials
      return [sample_potential(p) for p in first], first is second
    attempt("pair-builder{}".format(i), via_pair_builder)

    for section in (u"Pair", u"EAM-ADP-Dipole", u"My Section"):
      def via_tuple_builder():
        cp = ConfigParser(io.StringIO(txt))
        pfr = Potential_Form_Registry(cp, register_standard=True, register_pymath_functions=True)
        mr = Modifier_Registry()
        rows = cp.pair
        if section == u"Pair":
          builder = Pair_Potentials_From_Tuples_Builder(rows, pfr, mr)
        else:
          builder = Pair_Potentials_From_Tuples_Builder(rows, pfr, mr, section)
        attrs = (builder.potential_tuples is rows, builder.potential_form_registry is pfr,
                 builder.modifier_registry is mr, builder.log_section_name)
        # A failed build must be retried (and fail identically) on the next access
        outcomes = []
        for dummy in range(2):
          try:
            outcomes.append([sample_potential(p)[:3] for p in builder.potentials])
          except Exception as e:
            outcomes.append(exc_chain(e))
        return attrs, outcomes
      attempt("tuple-builder{}:{}".format(i, section), via_tuple_builder)

  # keyword construction and generators / odd inputs for the tuples
  def keyword_construction():
    cp = ConfigParser(io.StringIO(POTFORMS + u"[Pair]\n" + PAIR_SECTIONS[0]))
    pfr = Potential_Form_Registry(cp, register_standard=True)
    mr = Modifier_Registry()
    b1 = Pair_Potentials_From_Tuples_Builder(modifier_registry=mr, potential_form_registry=pfr,
                                             potential_tuples=tuple(cp.pair), log_section_name="KW")
    b2 = Pair_Potentials_From_Tuples_Builder(iter(cp.pair), pfr, mr)
    b3 = Pair_Potentials_From_Tuples_Builder([], pfr, mr)
    b4 = Pair_Potential_Builder(modifier_registry=mr, cp=cp, potential_form_registry=pfr)
    res = []
    for b in (b1, b2, b3, b4):
      p = b.potentials
      res.append(([sample_potential(x)[:3] for x in p], type(p).__name__, p is b.potentials))
    return res
  attempt("keyword-construction", keyword_construction)

  def bad_rows():
    cp = ConfigParser(io.StringIO(POTFORMS))
    pfr = Potential_Form_Registry(cp, register_standard=True)
    return Pair_Potentials_From_Tuples_Builder([("O", "O", "as.zero")], pfr, Modifier_Registry()).potentials
  attempt("bad-rows", bad_rows)

  def none_rows():
    cp = ConfigParser(io.StringIO(POTFORMS))
    pfr = Potential_Form_Registry(cp, register_standard=True)
    return Pair_Potentials_From_Tuples_Builder(None, pfr, Modifier_Registry()).potentials
  attempt("none-rows", none_rows)


# ------------------------------------------------------------------ whole tabulations
def tabulate(txt):
  tabulation = Configuration().read(io.StringIO(txt))
  out = io.StringIO()
  tabulation.write(out)
  return type(tabulation).__name__, [(p.speciesA, p.speciesB) for p in tabulation.potentials], \
    hashlib.sha256(out.getvalue().encode("utf8")).hexdigest()


ADP = u"""[Tabulation]
target : eam_adp
nr : 24
dr : 0.25
nrho : 20
drho : 0.1

[EAM-Embed]
Al : as.sqrt -1.0
Cu : as.sqrt -2.0

[EAM-Density]
Al : as.bornmayer 10.0 0.5
Cu : as.bornmayer 12.0 0.4

[Pair]
Al-Al : as.buck 1000.0 0.3 1.0
Cu-Al : as.buck 1200.0 0.3 2.0
Cu-Cu : as.buck 1300.0 0.3 3.0

[EAM-ADP-Dipole]
{dipole}

[EAM-ADP-Quadrupole]
{quadrupole}
"""


def tabulations():
  targets = [(u"LAMMPS", 16), (u"DLPOLY", 16), (u"GULP", 16)]
  for i, pair in enumerate(PAIR_SECTIONS):
    for target, nr in targets:
      if (i + len(target)) % 2:
        continue
      txt = u"[Tabulation]\ntarget : {}\nnr : {}\ncutoff : 6.0\n".format(target, nr) + POTFORMS + u"[Pair]\n" + pair
      attempt("tabulate{}:{}".format(i, target), lambda: tabulate(txt))

  adp_sections = [
    (u"Al-Al : as.constant 0.5\nAl-Cu : as.bornmayer 1.0 0.5\nCu-Cu : as.zero", u"Al-Al : as.zero\nAl-Cu : sum(as.constant 1.0, as.constant 0.25)\nCu-Cu : as.zero"),
    (u"Al-Cu : as.missing 1.0", u"Al-Cu : as.zero"),
    (u"Al-Cu : as.zero", u"Al-Cu : nomod(as.zero)"),
    (u"Al-Cu : as.buck 1.0", u"Al-Cu : as.nothere"),
    (u"Al-Cu : as.zero", u"Al-Cu : as.buck 1.0 2.0 3.0 4.0"),
  ]
  for i, (dip, quad) in enumerate(adp_sections):
    txt = ADP.format(dipole=dip, quadrupole=quad)
    attempt("adp{}".format(i), lambda: tabulate(txt))


builder_direct()
pair_builders()
tabulations()

blob = "\n".join(OUT).encode("utf8")
print("lines", len(OUT))
print("ok", sum(1 for l in OUT if "| 'OK' |" in l), "exc", sum(1 for l in OUT if "| 'EXC' |" in l))
print("sha256", hashlib.sha256(blob).hexdigest())

"""Differential script for twin A (record types of atsim.potentials.config._common).

Prints a deterministic digest of:
  * the tuple API of every record type (names, fields, defaults, repr, equality, hashing,
    _replace/_asdict, error types and messages for bad construction, pickling),
  * what ConfigParser produces (repr of all parsed records) for every .aspot file shipped with the project,
  * the bytes tabulated through Configuration for those files (with DEBUG log text, which embeds record reprs),
  * exception types/messages for a set of malformed inline configurations.
"""
import glob
import hashlib
import io
import logging
import os
import pickle
import sys
import tempfile

from atsim.potentials.config import _common
from atsim.potentials.config import ConfigParser, Configuration, ConfigParserOverrideTuple

OUT = []


def emit(*args):
  OUT.append(" ".join(str(a) for a in args))


def attempt(label, f):
  try:
    v = f()
    emit(label, "OK", repr(v))
    return v
  except BaseException as e:  # noqa
    emit(label, "EXC", type(e).__name__, str(e))


# ---------------------------------------------------------------- 1. tuple API
NAMES = ["SpeciesTuple", "EAMFSDensitySpeciesTuple", "EAMEmbedTuple", "EAMDensityTuple", "PairPotentialTuple",
         "PotentialFormInstanceTuple", "PotentialFormSignatureTuple", "PotentialFormTuple",
         "MultiRangeDefinitionTuple", "PotentialModifierTuple", "TableFormTuple"]

for name in NAMES:
  cls = getattr(_common, name)
  emit("CLS", name, cls.__name__, cls.__qualname__, cls.__module__, cls._fields, cls._field_defaults,
       cls.__doc__, cls.__mro__[1:], cls.__slots__, cls.__match_args__)
  n = len(cls._fields)
  vals = [("v%d" % i) for i in range(n)]
  inst = attempt(name + ".pos", lambda: cls(*vals))
  kw = attempt(name + ".kw", lambda: cls(**dict(zip(cls._fields, vals))))
  emit(name, "eq", inst == kw, inst == tuple(vals), hash(inst) == hash(tuple(vals)), isinstance(inst, tuple), len(inst))
  emit(name, "str", str(inst), "%s" % (inst,), "{}".format(inst))
  attempt(name + ".asdict", lambda: inst._asdict())
  attempt(name + ".replace", lambda: inst._replace(**{cls._fields[-1]: None}))
  attempt(name + ".replace_bad", lambda: inst._replace(nonsuch=1))
  attempt(name + ".make", lambda: cls._make(reversed(vals)))
  attempt(name + ".make_short", lambda: cls._make(vals[:-1]))
  attempt(name + ".too_few", lambda: cls(*vals[:-1]))
  attempt(name + ".too_many", lambda: cls(*(vals + ["extra"])))
  attempt(name + ".bad_kw", lambda: cls(*vals[:-1], nonsuch=3))
  attempt(name + ".dup_kw", lambda: cls(*vals, **{cls._fields[0]: 3}))
  attempt(name + ".setattr", lambda: setattr(inst, cls._fields[0], 1))
  attempt(name + ".newattr", lambda: setattr(inst, "brand_new", 1))
  attempt(name + ".getnewargs", lambda: inst.__getnewargs__())
  attempt(name + ".unpack", lambda: [x for x in inst])
  attempt(name + ".index", lambda: (inst.index("v0"), inst.count("v0"), inst[0], inst[-1], inst[0:2]))
  for f in cls._fields:
    attempt(name + ".field." + f, lambda: getattr(inst, f))
    emit(name, "fielddoc", f, getattr(cls, f).__doc__)
  attempt(name + ".pickle", lambda: pickle.loads(pickle.dumps(inst)) == inst)
  attempt(name + ".sort", lambda: sorted([cls(*reversed(vals)), cls(*vals)]))

emit("MODULE_PUBLIC", sorted(n for n in dir(_common) if not n.startswith("_")
                             and n not in ("collections", "NamedTuple", "Optional", "Sequence", "TYPE_CHECKING")))

attempt("mkpf.1", lambda: _common.make_potential_form_tuple_from_function("f", lambda r, a, b: 0))
attempt("mkpf.2", lambda: _common.make_potential_form_tuple_from_function("g", lambda *args: 0))
attempt("mkpf.3", lambda: _common.make_potential_form_tuple_from_function("h", lambda: 0))
attempt("mkpf.4", lambda: _common.make_potential_form_tuple_from_function("h", 3))

# ---------------------------------------------------------------- 2 & 3. shipped configuration files
log_stream = io.StringIO()
handler = logging.StreamHandler(log_stream)
handler.setFormatter(logging.Formatter("%(name)s %(levelname)s %(message)s"))
root = logging.getLogger()
root.addHandler(handler)
root.setLevel(logging.DEBUG)

FILES = sorted(glob.glob("tests/**/*.aspot", recursive=True) + glob.glob("docs/**/*.aspot", recursive=True))
PARSED = ["pair", "potential_form", "table_form", "eam_embed", "eam_density", "eam_density_fs",
          "parsed_sections", "orphan_sections", "species"]

SMALL = [ConfigParserOverrideTuple("Tabulation", "nr", "23"), ]


def tabulate(cp):
  tab = Configuration().read_from_parser(cp)
  if "Excel" in type(tab).__name__:
    wb = tab.workbook
    rows = []
    for ws in wb.worksheets:
      rows.append(ws.title)
      for row in ws.iter_rows(values_only=True):
        rows.append(repr(row))
    data = "\n".join(rows)
  else:
    sio = io.StringIO()
    tab.write(sio)
    data = sio.getvalue()
  return (type(tab).__name__, len(data), hashlib.sha256(data.encode("utf-8")).hexdigest())


for fn in FILES:
  cwd = os.getcwd()
  os.chdir(os.path.dirname(fn))
  try:
    base = os.path.basename(fn)
    for prop in PARSED:
      def get():
        with open(base) as fp:
          return getattr(ConfigParser(fp), prop)
      attempt(fn + ":" + prop, get)

    def full():
      with open(base) as fp:
        return tabulate(ConfigParser(fp))
    attempt(fn + ":tabulate", full)

    for species in (["O"], ["Al"], ["U", "O"]):
      def filt():
        from atsim.potentials.config import FilteredConfigParser
        with open(base) as fp:
          cp = FilteredConfigParser(ConfigParser(fp), include=species)
          return (cp.pair, tabulate(cp))
      attempt(fn + ":include:" + ",".join(species), filt)
  finally:
    os.chdir(cwd)

# ---------------------------------------------------------------- 4. inline configurations (good and malformed)
INLINE = {
  "ok_multirange": """[Tabulation]
target : LAMMPS
cutoff : 6.0
nr : 31
[Pair]
O-U : as.buck 1000.0 0.3 12.0 >=2.0 as.constant 1.5 >3.0 sum(as.morse 1.2 2.0 0.5, as.zero)
U-U : >0.5 as.bornmayer 200.0 0.25
O-O : sum(as.buck 22000.0 0.15 27.0, as.constant 0.1)
""",
  "ok_spline": """[Tabulation]
target : DLPOLY
cutoff : 5.0
nr : 40
[Pair]
A-B : spline(>0 as.zbl 14 8 >=0.8 exp_spline >=1.4 as.buck 180003 0.3 32.0)
B-B : spline(>0 as.bornmayer 1000 0.3 >=1.0 buck4_spline 1.8 >=2.5 as.buck 0 1 30.0)
""",
  "ok_gulp_forms": """[Tabulation]
target : GULP
cutoff : 4.0
nr : 12
[Potential-Form]
mine(r, A, n) = A/r^n
two(r) = mine(r, 2.0, 3) + 1
[Pair]
Si-O : mine 3.0 6
O-O : two
""",
  "ok_table": """[Tabulation]
target : LAMMPS
cutoff : 3.0
nr : 10
[Table-Form:tf]
interpolation : cubic_spline
x : 0.0 1.0 2.0 3.0 4.0
y : 5.0 3.0 2.0 1.5 1.0
[Pair]
A-A : tf
""",
  "ok_eam": """[Tabulation]
target : setfl
nr : 20
dr : 0.25
nrho : 15
drho : 0.5
[EAM-Embed]
Ag : as.sqrt -2.5
[EAM-Density]
Ag : as.polynomial 0 0.1 0.2
[Pair]
Ag-Ag : as.lj 0.1 2.5
[Species]
Ag.atomic_mass : 107.8
Ag.atomic_number : 47
""",
  "ok_eam_fs": """[Tabulation]
target : setfl_fs
nr : 20
dr : 0.25
nrho : 15
drho : 0.5
[EAM-Embed]
Al : as.sqrt -2.5
Fe : as.sqrt -1.5
[EAM-Density]
Al->Al : as.polynomial 0 0.1 0.2
Al->Fe : as.constant 0.3
Fe->Al : as.constant 0.4
Fe->Fe : as.bornmayer 2.0 0.9
[Pair]
Al-Al : as.lj 0.1 2.5
Al-Fe : as.zero
Fe-Fe : as.buck 100.0 0.3 1.0
[Species]
Al.atomic_mass : 26.98
Al.atomic_number : 13
Fe.atomic_mass : 55.8
Fe.atomic_number : 26
""",
  "bad_form": "[Tabulation]\ntarget : LAMMPS\ncutoff : 6.0\nnr : 31\n[Pair]\nO-U : as.nonsuch 1 2\n",
  "bad_args": "[Tabulation]\ntarget : LAMMPS\ncutoff : 6.0\nnr : 31\n[Pair]\nO-U : as.buck 1 2\n",
  "bad_modifier": "[Tabulation]\ntarget : LAMMPS\ncutoff : 6.0\nnr : 31\n[Pair]\nO-U : nonsuch(as.buck 1 2 3)\n",
  "bad_species": "[Tabulation]\ntarget : LAMMPS\ncutoff : 6.0\nnr : 31\n[Pair]\nOU : as.buck 1 2 3\n",
  "bad_number": "[Tabulation]\ntarget : LAMMPS\ncutoff : 6.0\nnr : 31\n[Pair]\nO-U : as.buck 1 2 x3\n",
  "bad_range": "[Tabulation]\ntarget : LAMMPS\ncutoff : 6.0\nnr : 31\n[Pair]\nO-U : >= as.buck 1 2 3\n",
  "bad_spline": "[Tabulation]\ntarget : LAMMPS\ncutoff : 6.0\nnr : 31\n[Pair]\nO-U : spline(>0 as.zbl 14 8 >=0.8 as.zero >=1.4 as.buck 180003 0.3 32.0)\n",
  "bad_spline2": "[Tabulation]\ntarget : LAMMPS\ncutoff : 6.0\nnr : 31\n[Pair]\nO-U : spline(>0 as.zbl 14 8 >=0.8 exp_spline)\n",
  "bad_target": "[Tabulation]\ntarget : nowhere\ncutoff : 6.0\nnr : 31\n[Pair]\nO-U : as.buck 1 2 3\n",
  "dup_pair": "[Tabulation]\ntarget : LAMMPS\ncutoff : 6.0\nnr : 31\n[Pair]\nO-U : as.buck 1 2 3\nU-O : as.buck 1 2 3\n",
  "bad_potform": "[Tabulation]\ntarget : LAMMPS\ncutoff : 6.0\nnr : 31\n[Potential-Form]\nmine(r, A = A/r\n[Pair]\nO-U : mine 1\n",
  "bad_table": "[Tabulation]\ntarget : LAMMPS\ncutoff : 3.0\nnr : 10\n[Table-Form:tf]\ninterpolation : cubic_spline\nx : 0.0 1.0\ny : 5.0\n[Pair]\nA-A : tf\n",
}

for label in sorted(INLINE):
  txt = INLINE[label]
  for prop in PARSED:
    attempt("inline:" + label + ":" + prop, lambda: getattr(ConfigParser(io.StringIO(txt)), prop))
  attempt("inline:" + label + ":tabulate", lambda: tabulate(ConfigParser(io.StringIO(txt))))

root.removeHandler(handler)
logtxt = log_stream.getvalue()
emit("LOG", len(logtxt.splitlines()), hashlib.sha256(logtxt.encode("utf-8")).hexdigest())

blob = "\n".join(OUT)
if len(sys.argv) > 1:
  with open(sys.argv[1], "w") as fp:
    fp.write(blob + "\n----LOG----\n" + logtxt)
print("lines", len(OUT), "exceptions", sum(1 for l in OUT if " EXC " in l))
print("DIGEST", hashlib.sha256(blob.encode("utf-8")).hexdigest())

"""Differential script for twin B.

Exercises the potential building stage of atsim.potentials.config
(Pair_Potentials_From_Tuples_Builder._init_potentials,
Potential_Form_Builder._make_multi_range_tuple, Table_Form_Builder.create_potential_form)
through Configuration.read() for pair, EAM, Finnis-Sinclair and ADP models containing
good definitions, unknown modifiers, unknown potential forms, modifier configuration
errors and bad [Table-Form] definitions.

Prints number of cases and a sha256 digest of outputs / exception types+messages.
"""
import hashlib
import io
import logging

from atsim.potentials.config import ConfigParser, Configuration, Potential_Form_Registry, Modifier_Registry
from atsim.potentials.config._potential_form_builder import Potential_Form_Builder
from atsim.potentials.config._pair_potential_builder import Pair_Potential_Builder, Pair_Potentials_From_Tuples_Builder
from atsim.potentials.config._table_form_builder import Table_Form_Builder
from atsim.potentials.config._common import TableFormTuple

logging.disable(logging.CRITICAL)

LINES = []

def record(label, func):
  try:
    out = repr(func())
  except Exception as e:
    mro = ",".join(c.__name__ for c in type(e).__mro__)
    out = "EXC {}.{} mro={} args={!r} str={!r}".format(type(e).__module__, type(e).__name__, mro, e.args, str(e))
  LINES.append("{} -> {}".format(label, out))

def tabulate(cfg):
  tabulation = Configuration().read(io.StringIO(cfg))
  sio = io.StringIO()
  tabulation.write(sio)
  return hashlib.sha256(sio.getvalue().encode("utf-8")).hexdigest()

def build_pairs(cfg):
  cp = ConfigParser(io.StringIO(cfg))
  pfr = Potential_Form_Registry(cp, True)
  mr = Modifier_Registry()
  builder = Pair_Potential_Builder(cp, pfr, mr)
  pots = builder.potentials
  assert builder.potentials is pots
  out = []
  for p in pots:
    out.append((p.speciesA, p.speciesB, [repr(p.energy(r)) for r in (0.5, 1.0, 1.7, 2.5, 4.0)]))
  return out

pair_tmpl = """[Tabulation]
target : {target}
nr : 16
cutoff : 6.0

[Pair]
{pairs}

[Potential-Form]
mybuck(r, A, rho) : A*exp(-r/rho)
twice(r, A, rho) : 2*mybuck(r, A, rho)

[Table-Form:tf]
interpolation : {interp}
{data}
"""

good_data = "xy : 0 10 1 5 2 2.5 4 1 7 0"
pairs_cases = {
  "plain" : "O-O : as.buck 1633.0 0.327 3.95\nU-O : mybuck 1000.0 0.3\nU-U : twice 10.0 0.4",
  "reversed order" : "U-U : twice 10.0 0.4\nU-O : mybuck 1000.0 0.3\nO-O : as.buck 1633.0 0.327 3.95",
  "table" : "O-O : tf\nU-O : sum(tf, as.constant 1.0)",
  "multi range" : "O-O : >0 as.buck 1633.0 0.327 3.95 >=2.0 as.zero\nU-O : >=1 mybuck 10 0.3 >3 as.constant 2.0",
  "modifiers" : "O-O : sum(as.buck 1633.0 0.327 3.95, as.constant 1.0, mybuck 1.0 1.0)\nU-O : product(as.constant 2.0, as.polynomial 1 2 3)\nU-U : pow(as.constant 2.0, as.constant 3.0)",
  "nested modifiers" : "O-O : sum(product(as.constant 2.0, as.constant 4.0), as.constant 1.0)\nU-O : trans(as.buck 1000.0 0.2 32.0, as.constant 0.5)",
  "spline" : "O-O : spline(>0 as.zbl 14 8 >=0.8 exp_spline >=1.4 as.buck 180003 0.3 32.0)",
  "unknown modifier" : "O-O : as.buck 1633.0 0.327 3.95\nU-O : summ(as.constant 1.0, as.constant 2.0)",
  "unknown modifier first" : "Zr-O : blah(as.constant 1.0)\nU-O : summ(as.constant 1.0, as.constant 2.0)",
  "unknown modifier nested" : "O-O : sum(as.constant 1.0, nope(as.constant 2.0))",
  "unknown modifier in range" : "O-O : >0 as.constant 1.0 >=2.0 nope(as.constant 2.0)",
  "unknown potential form" : "O-O : as.buck 1633.0 0.327 3.95\nU-O : as.bucky 1000.0 0.3 0.0",
  "unknown potential form no ns" : "U-O : buck 1000.0 0.3 0.0",
  "unknown potential form nested" : "U-O : sum(as.constant 1.0, as.bucky 1000.0 0.3 0.0)",
  "unknown potential form in range" : "U-O : >0 as.constant 1.0 >2 missing 1 2 3 >3 as.zero",
  "unknown both" : "U-O : sum(nope(as.constant 1.0), as.bucky 1000.0 0.3 0.0)",
  "unknown both 2" : "U-O : sum(as.bucky 1000.0 0.3 0.0, nope(as.constant 1.0))",
  "spline problem 1" : "O-O : spline(>0 as.zbl 14 8 >=0.8 exp_spline)",
  "spline problem 2" : "O-O : spline(>0 as.zbl 14 8 >=0.8 cubic >=1.4 as.buck 180003 0.3 32.0)",
  "spline problem 3" : "O-O : spline(>0 as.zbl 14 8 >=0.8 exp_spline 1.0 >=1.4 as.buck 180003 0.3 32.0)",
  "spline unknown inside" : "O-O : spline(>0 as.zbll 14 8 >=0.8 exp_spline >=1.4 as.buck 180003 0.3 32.0)",
  "trans problem" : "U-O : trans(as.buck 1000.0 0.2 32.0, as.constant 0.5, as.constant 2.0)",
  "trans problem 2" : "U-O : trans(as.buck 1000.0 0.2 32.0, as.zero)",
  "wrong arg count" : "U-O : mybuck 1000.0",
  "wrong arg count std" : "U-O : as.buck 1000.0",
  "quoted key error" : "U-O : 'quoted' 1.0",
}

for label, pairs in pairs_cases.items():
  for target in ["LAMMPS", "GULP"]:
    cfg = pair_tmpl.format(target = target, pairs = pairs, interp = "cubic_spline", data = good_data)
    record("pair {} {}".format(label, target), lambda cfg=cfg: tabulate(cfg))
  cfg = pair_tmpl.format(target = "LAMMPS", pairs = pairs, interp = "cubic_spline", data = good_data)
  record("build {}".format(label), lambda cfg=cfg: build_pairs(cfg))

# Table-Form problems
table_cases = {
  "unknown interp" : ("linear", good_data),
  "empty interp" : ("", good_data),
  "case interp" : ("Cubic_Spline", good_data),
  "too few points" : ("cubic_spline", "xy : 0 10 1 5"),
  "three points" : ("cubic_spline", "xy : 0 10 1 5 2 3"),
  "four points" : ("cubic_spline", "xy : 0 10 1 5 2 3 3 1"),
  "non increasing" : ("cubic_spline", "xy : 0 10 1 5 1 2.5 0.5 1 7 0"),
  "decreasing x y" : ("cubic_spline", "x : 5 4 3 2 1\ny : 1 2 3 4 5"),
  "nan" : ("cubic_spline", "x : 0 1 2 nan 5\ny : 1 2 3 4 5"),
  "no data" : ("cubic_spline", "xy : "),
  "unknown interp and bad data" : ("quadratic", "xy : 0 10 1 5"),
}
for label, (interp, data) in table_cases.items():
  cfg = pair_tmpl.format(target = "LAMMPS", pairs = "O-O : tf\nU-O : as.buck 1000.0 0.3 0.0", interp = interp, data = data)
  record("table {}".format(label), lambda cfg=cfg: tabulate(cfg))
  cfg = pair_tmpl.format(target = "LAMMPS", pairs = "U-O : as.buck 1000.0 0.3 0.0", interp = interp, data = data)
  record("table unused {}".format(label), lambda cfg=cfg: tabulate(cfg))

# Table_Form_Builder used directly
def direct_table(tt):
  pf = Table_Form_Builder().create_potential_form(tt)
  f = pf()
  return (type(pf).__name__, pf.signature if hasattr(pf, "signature") else None, [repr(f(x)) for x in (0.0, 0.5, 1.5, 3.3, 8.0)])

direct_cases = [
  TableFormTuple("a", "cubic_spline", [0.0, 1.0, 2.0, 3.0, 4.0], [5.0, 3.0, 2.0, 1.5, 1.0]),
  TableFormTuple("b", u"cubic_spline", [0.0, 1.0, 2.0, 3.0], [5.0, 3.0, 2.0, 1.5]),
  TableFormTuple("c", "spline", [0.0, 1.0, 2.0, 3.0], [5.0, 3.0, 2.0, 1.5]),
  TableFormTuple("d", None, [0.0, 1.0, 2.0, 3.0], [5.0, 3.0, 2.0, 1.5]),
  TableFormTuple("e", "cubic_spline", [0.0, 1.0], [5.0, 3.0]),
  TableFormTuple("f", "cubic_spline", [0.0, 1.0, 2.0, 3.0], [5.0, 3.0, 2.0]),
  TableFormTuple("g", "cubic_spline", [], []),
  TableFormTuple("h", ["cubic_spline"], [0.0, 1.0, 2.0, 3.0], [5.0, 3.0, 2.0, 1.5]),
  TableFormTuple("{}", "{0}", [0.0, 1.0, 2.0, 3.0], [5.0, 3.0, 2.0, 1.5]),
]
for tt in direct_cases:
  record("direct table {}".format(tt.name), lambda tt=tt: direct_table(tt))

# EAM models: Potential_Form_Builder is used for embed/density functions and pair potentials.
eam_tmpl = """[Tabulation]
target : {target}
nr : 20
dr : 0.25
nrho : 20
drho : 0.5

[Pair]
{pairs}

[EAM-Embed]
{embed}

[EAM-Density]
{density}
{extra}
"""
std_pairs = "Al-Al : as.buck 1000.0 0.3 10.0\nAl-Cu : as.buck 2000.0 0.25 12.0\nCu-Cu : as.buck 3000.0 0.2 14.0"
std_embed = "Al : as.sqrt -1.5\nCu : as.sqrt -2.5"
std_density = "Al : as.exponential 10.0 -1.0\nCu : sum(as.exponential 5.0 -1.0, as.constant 0.1)"
fs_density = "Al->Al : as.exponential 10.0 -1.0\nCu->Al : as.exponential 8.0 -1.0\nAl->Cu : as.exponential 7.0 -1.0\nCu->Cu : as.exponential 5.0 -1.0"
adp_extra = "[EAM-ADP-Dipole]\nAl-Al : as.constant 0.1\nAl-Cu : as.constant 0.2\nCu-Cu : {dip}\n\n[EAM-ADP-Quadrupole]\nAl-Al : as.constant 0.3\nAl-Cu : {quad}\nCu-Cu : as.constant 0.5\n"

eam_cases = [
  ("setfl ok", "setfl", std_pairs, std_embed, std_density, ""),
  ("setfl_fs ok", "setfl_fs", std_pairs, std_embed, fs_density, ""),
  ("DL_POLY_EAM ok", "DL_POLY_EAM", std_pairs, std_embed, std_density, ""),
  ("setfl pair unknown form", "setfl", std_pairs.replace("as.buck 2000.0", "as.buk 2000.0"), std_embed, std_density, ""),
  ("setfl pair unknown modifier", "setfl", std_pairs.replace("as.buck 2000.0 0.25 12.0", "add(as.buck 2000.0 0.25 12.0)"), std_embed, std_density, ""),
  ("setfl embed unknown form", "setfl", std_pairs, std_embed.replace("as.sqrt -2.5", "as.sqroot -2.5"), std_density, ""),
  ("setfl embed unknown modifier", "setfl", std_pairs, std_embed.replace("as.sqrt -2.5", "neg(as.sqrt -2.5)"), std_density, ""),
  ("setfl density unknown form", "setfl", std_pairs, std_embed, std_density.replace("as.constant 0.1", "constant 0.1"), ""),
  ("setfl density unknown modifier", "setfl", std_pairs, std_embed, std_density.replace("sum(", "total("), ""),
  ("setfl_fs density unknown form", "setfl_fs", std_pairs, std_embed, fs_density.replace("as.exponential 7.0", "as.exp 7.0"), ""),
  ("setfl_fs density unknown modifier", "setfl_fs", std_pairs, std_embed, fs_density.replace("as.exponential 7.0 -1.0", "x(as.exponential 7.0 -1.0)"), ""),
  ("setfl density trans problem", "setfl", std_pairs, std_embed, std_density.replace("sum(", "trans("). replace("as.constant 0.1", "as.zero"), ""),
  ("adp ok", "eam_adp", std_pairs, std_embed, std_density, adp_extra.format(dip = "as.constant 0.25", quad = "as.constant 0.4")),
  ("adp dipole unknown form", "eam_adp", std_pairs, std_embed, std_density, adp_extra.format(dip = "as.konstant 0.25", quad = "as.constant 0.4")),
  ("adp dipole unknown modifier", "eam_adp", std_pairs, std_embed, std_density, adp_extra.format(dip = "mod(as.constant 0.25)", quad = "as.constant 0.4")),
  ("adp quadrupole unknown form", "eam_adp", std_pairs, std_embed, std_density, adp_extra.format(dip = "as.constant 0.25", quad = "as.konstant 0.4")),
  ("adp quadrupole unknown modifier", "eam_adp", std_pairs, std_embed, std_density, adp_extra.format(dip = "as.constant 0.25", quad = "sum(as.constant 0.4, mod(as.zero))")),
  ("adp quadrupole spline problem", "eam_adp", std_pairs, std_embed, std_density, adp_extra.format(dip = "as.constant 0.25", quad = "spline(as.constant 0.4)")),
  ("adp both unknown", "eam_adp", std_pairs, std_embed, std_density, adp_extra.format(dip = "nah 0.25", quad = "neither 0.4")),
]
for label, target, pairs, embed, density, extra in eam_cases:
  cfg = eam_tmpl.format(target = target, pairs = pairs, embed = embed, density = density, extra = extra)
  record("eam {}".format(label), lambda cfg=cfg: tabulate(cfg))

# Potential_Form_Builder used directly with parser tuples
def direct_builder(cfg):
  cp = ConfigParser(io.StringIO(cfg))
  pfr = Potential_Form_Registry(cp, True)
  mr = Modifier_Registry()
  pfb = Potential_Form_Builder(pfr, mr)
  out = []
  for row in cp.pair:
    try:
      f = pfb.create_potential_function(row.potential_form_instance)
      out.append((row.species, [repr(f(r)) for r in (0.3, 1.1, 2.9)]))
    except Exception as e:
      out.append((row.species, type(e).__name__, e.args, str(e)))
  tuples = cp.pair
  for name in ("Pair", "Other-Section", ""):
    b = Pair_Potentials_From_Tuples_Builder(tuples, pfr, mr, name)
    try:
      out.append(len(b.potentials))
    except Exception as e:
      out.append((name, type(e).__name__, e.args, str(e)))
  return out

for label, pairs in pairs_cases.items():
  cfg = pair_tmpl.format(target = "LAMMPS", pairs = pairs, interp = "cubic_spline", data = good_data)
  record("direct {}".format(label), lambda cfg=cfg: direct_builder(cfg))

text = "\n".join(LINES)
n_exc = sum(1 for l in LINES if "-> EXC" in l)
print("cases: {} (exceptions: {})".format(len(LINES), n_exc))
print("sha256:", hashlib.sha256(text.encode("utf-8")).hexdigest())

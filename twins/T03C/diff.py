"""Differential script for twin C (Excel_* tabulation classes).

Twin C rewrites Excel_PairTabulation._populate_worksheet (hoisted column
limit, local cell-pairing helper, enumerate(..., 2)), introduces
_populate_worksheet_sorted() and replaces the dictionary building loops of
Excel_PairTabulation._add_pair_worksheet and
Excel_EAMTabulation._add_eam_density/_add_eam_embed by comprehensions.

The script builds spreadsheets through the object API and through .aspot
configuration files, for well formed and malformed models, and digests
  * every cell (coordinate, type, repr(value)) of every sheet of the in-memory
    workbook, sheet order and sheet dimensions,
  * the deterministic members of the .xlsx produced by write() (everything
    except docProps/core.xml which carries a timestamp) and the content
    obtained by loading those bytes again,
  * the order in which the model's callables were invoked and with what,
  * exception type/message for failures and the state of the partially built
    workbook that stays behind after a failure.
"""
import hashlib
import io
import math
import zipfile

from openpyxl import Workbook, load_workbook

from atsim.potentials import EAMPotential, Potential
from atsim.potentials.pair_tabulation import Excel_PairTabulation
from atsim.potentials.eam_tabulation import Excel_EAMTabulation, Excel_FinnisSinclair_EAMTabulation
from atsim.potentials.config import Configuration

LOG = []


def log(*args):
  LOG.append(repr(args))


class Traced(object):

  def __init__(self, name, func, trace):
    self.name = name
    self.func = func
    self.trace = trace

  def __call__(self, x):
    self.trace.append((self.name, repr(x)))
    return self.func(x)


def dump_workbook(wb):
  out = [("sheets", list(wb.sheetnames))]
  for ws in wb.worksheets:
    cells = []
    for row in ws.iter_rows():
      for c in row:
        cells.append((c.coordinate, c.data_type, repr(c.value)))
    out.append((ws.title, ws.dimensions, ws.max_row, ws.max_column, sorted(k for k in ws._cells.keys()), cells))
  return out


def dump_bytes(data):
  out = []
  with zipfile.ZipFile(io.BytesIO(data)) as zf:
    names = zf.namelist()
    out.append(names)
    for n in names:
      if n == "docProps/core.xml":
        continue
      out.append((n, hashlib.sha256(zf.read(n)).hexdigest()))
  out.append(dump_workbook(load_workbook(io.BytesIO(data))))
  return out


def exercise(label, tabulation, trace=None):
  """Obtain workbook (twice), write to binary stream (twice)"""
  for attempt in (1, 2):
    try:
      wb = tabulation.workbook
      log(label, "workbook", attempt, "OK", dump_workbook(wb))
    except BaseException as e:
      log(label, "workbook", attempt, "EXC", type(e).__name__, str(e))
    inner = getattr(tabulation, "_inner_tabulation", None)
    if inner is not None and inner._workbook is not None:
      log(label, "inner", attempt, dump_workbook(inner._workbook))
    if trace is not None:
      log(label, "trace", attempt, list(trace))
  for attempt in (1, 2):
    bio = io.BytesIO()
    try:
      rv = tabulation.write(bio)
      log(label, "write", attempt, "OK", repr(rv), dump_bytes(bio.getvalue()))
    except BaseException as e:
      log(label, "write", attempt, "EXC", type(e).__name__, str(e), len(bio.getvalue()))
  log(label, "attrs", tabulation.type, tabulation.target, repr(tabulation.nr), repr(tabulation.cutoff))


def make_pairs(pair_list, trace):
  pots = []
  for n, (a, b) in enumerate(pair_list):
    f = Traced("pair_%s_%s_%d" % (a, b, n), lambda r, n=n: (n + 1) * 1000.0 * math.exp(-r / 0.3) - 1.0 / (r + 0.5) ** 6, trace)
    pots.append(Potential(a, b, f))
  return pots


def make_eam(species_list, trace, fs=False):
  pots = []
  for n, s in enumerate(species_list):
    embed = Traced("embed_%s" % (s,), lambda rho, n=n: -math.sqrt(rho) * (n + 1.5), trace)
    if fs:
      dens = dict(
        (t, Traced("dens_%s_%s" % (s, t), lambda r, n=n, m=m: math.exp(-r * (1 + 0.1 * n)) * (m + 1) / 3.0, trace))
        for m, t in enumerate(species_list))
    else:
      dens = Traced("dens_%s" % (s,), lambda r, n=n: (n + 1) * math.exp(-0.7 * r), trace)
    pots.append(EAMPotential(s, 10 + n, 20.5 + n, embed, dens))
  return pots


def object_api():
  pair_systems = [
    [("O", "O"), ("Al", "O")],
    [("Zr", "Al"), ("Al", "Zr"), ("Cu", "Cu"), ("B", "A")],  # Al-Zr duplicated, later one wins
    [("Xe", "Xe")],
    [],
  ]
  grids = [(5.0, 6), (1.0, 2), (2.5, 11), (3, 4)]
  for pi, pairs in enumerate(pair_systems):
    for gi, (cutoff, nr) in enumerate(grids):
      trace = []
      exercise("pair/%d/%d" % (pi, gi), Excel_PairTabulation(make_pairs(pairs, trace), cutoff, nr), trace)

  eam_systems = [
    (["Ag"], [("Ag", "Ag")]),
    (["Cu", "Al"], [("Al", "Cu"), ("Cu", "Cu")]),
    (["Zr", "Al", "Cu"], [("Cu", "Al"), ("Zr", "Zr")]),
    (["Fe", "Fe"], []),     # duplicated species, later one wins
    ([], []),
  ]
  eam_grids = [(5.0, 6, 2.0, 3), (1.0, 2, 10.0, 5), (4, 5, 3, 7)]
  for si, (species, pairs) in enumerate(eam_systems):
    for gi, (cutoff, nr, cutoff_rho, nrho) in enumerate(eam_grids):
      for fs, cls in ((False, Excel_EAMTabulation), (True, Excel_FinnisSinclair_EAMTabulation)):
        trace = []
        tabulation = cls(make_pairs(pairs, trace), make_eam(species, trace, fs), cutoff, nr, cutoff_rho, nrho)
        exercise("eam/%d/%d/%s" % (si, gi, cls.__name__), tabulation, trace)
        log("eam-attrs", repr(tabulation.nrho), repr(tabulation.cutoff_rho), tabulation._excel_tab_name)

  # open_fp class methods
  for cls in (Excel_PairTabulation, Excel_EAMTabulation, Excel_FinnisSinclair_EAMTabulation):
    log("surface", cls.__name__, sorted(n for n in dir(cls) if not n.startswith("_")), [b.__name__ for b in cls.__mro__])


def malformed():
  ident = lambda x: x

  def boom_at(limit, exc):
    def f(x):
      if x > limit:
        raise exc("boom %r" % (x,))
      return x
    return f

  class HalfPair(object):
    speciesA = "Q"

  class NoFunc(object):
    speciesA = "Q"
    speciesB = "Q"

  class NoSpecies(object):
    embeddingFunction = staticmethod(ident)
    electronDensityFunction = staticmethod(ident)

  class NoEmbed(object):
    species = "Q"
    electronDensityFunction = staticmethod(ident)

  class NoDens(object):
    species = "Q"
    embeddingFunction = staticmethod(ident)

  class Nothing(object):
    pass

  # Pair tabulations
  for name, pots, cutoff, nr in [
      ("raise_mid", [Potential("A", "A", ident), Potential("A", "B", boom_at(1.0, ValueError)), Potential("B", "B", ident)], 4.0, 5),
      ("raise_first", [Potential("A", "A", boom_at(-1.0, KeyError))], 4.0, 5),
      ("badvalue", [Potential("A", "A", lambda r: [r]), Potential("B", "B", ident)], 4.0, 5),
      ("complexvalue", [Potential("A", "A", lambda r: 1j * r)], 4.0, 5),
      ("strvalue", [Potential("A", "A", lambda r: "v%s" % r)], 4.0, 3),
      ("nonevalue", [Potential("A", "A", lambda r: None)], 4.0, 3),
      ("nanvalue", [Potential("A", "A", lambda r: float("nan") if r > 1 else float("inf"))], 4.0, 3),
      ("notcallable", [Potential("A", "A", 3.0)], 4.0, 3),
      ("halfpair", [Potential("A", "A", ident), HalfPair()], 4.0, 3),
      ("nofunc", [NoFunc()], 4.0, 3),
      ("nothing", [Nothing()], 4.0, 3),
      ("mixedspecies", [Potential("A", 1, ident)], 4.0, 3),
      ("intspecies", [Potential(2, 1, ident), Potential(1, 1, ident)], 4.0, 3),
      ("nonespecies", [Potential(None, None, ident)], 4.0, 3),
      ("longname", [Potential("A" * 40, "B" * 40, ident)], 4.0, 3),
      ("nr1", [Potential("A", "A", ident)], 4.0, 1),
      ("nr0", [Potential("A", "A", ident)], 4.0, 0),
      ("nrfloat", [Potential("A", "A", ident)], 4.0, 3.0),
      ("nrneg", [Potential("A", "A", ident)], 4.0, -3),
      ("cutoffstr", [Potential("A", "A", ident)], "4.0", 3),
      ("cutoffnone", [Potential("A", "A", ident)], None, 3),
      ("potsnone", None, 4.0, 3),
      ("potsgen", (p for p in [Potential("A", "A", ident)]), 4.0, 3),
  ]:
    exercise("badpair/" + name, Excel_PairTabulation(pots, cutoff, nr))

  # EAM tabulations
  good_pairs = [Potential("Q", "Q", ident)]
  for name, cls, pairs, eampots, args in [
      ("dens_raise", Excel_EAMTabulation, good_pairs, [EAMPotential("Q", 1, 1.0, ident, boom_at(1.0, ValueError)), EAMPotential("R", 1, 1.0, ident, ident)], (4.0, 5, 4.0, 5)),
      ("embed_raise", Excel_EAMTabulation, good_pairs, [EAMPotential("Q", 1, 1.0, boom_at(1.0, ZeroDivisionError), ident), EAMPotential("R", 1, 1.0, ident, ident)], (4.0, 5, 4.0, 5)),
      ("pair_raise", Excel_EAMTabulation, [Potential("Q", "Q", boom_at(1.0, ValueError))], [EAMPotential("Q", 1, 1.0, ident, ident)], (4.0, 5, 4.0, 5)),
      ("nospecies", Excel_EAMTabulation, good_pairs, [NoSpecies()], (4.0, 3, 4.0, 3)),
      ("noembed", Excel_EAMTabulation, good_pairs, [NoEmbed()], (4.0, 3, 4.0, 3)),
      ("nodens", Excel_EAMTabulation, good_pairs, [NoDens()], (4.0, 3, 4.0, 3)),
      ("nothing", Excel_EAMTabulation, good_pairs, [Nothing()], (4.0, 3, 4.0, 3)),
      ("good_then_nothing", Excel_EAMTabulation, good_pairs, [EAMPotential("Q", 1, 1.0, ident, ident), Nothing()], (4.0, 3, 4.0, 3)),
      ("mixedspecies", Excel_EAMTabulation, good_pairs, [EAMPotential("Q", 1, 1.0, ident, ident), EAMPotential(2, 1, 1.0, ident, ident)], (4.0, 3, 4.0, 3)),
      ("unhashable", Excel_EAMTabulation, good_pairs, [EAMPotential(["Q"], 1, 1.0, ident, ident)], (4.0, 3, 4.0, 3)),
      ("nonespecies", Excel_EAMTabulation, good_pairs, [EAMPotential(None, 1, 1.0, ident, ident)], (4.0, 3, 4.0, 3)),
      ("fsdens_for_std", Excel_EAMTabulation, good_pairs, [EAMPotential("Q", 1, 1.0, ident, {"Q": ident})], (4.0, 3, 4.0, 3)),
      ("nrho1", Excel_EAMTabulation, good_pairs, [EAMPotential("Q", 1, 1.0, ident, ident)], (4.0, 3, 4.0, 1)),
      ("nrhofloat", Excel_EAMTabulation, good_pairs, [EAMPotential("Q", 1, 1.0, ident, ident)], (4.0, 3, 4.0, 2.0)),
      ("rhostr", Excel_EAMTabulation, good_pairs, [EAMPotential("Q", 1, 1.0, ident, ident)], (4.0, 3, "4.0", 2)),
      ("eamnone", Excel_EAMTabulation, good_pairs, None, (4.0, 3, 4.0, 3)),
      ("pairsnone", Excel_EAMTabulation, None, [EAMPotential("Q", 1, 1.0, ident, ident)], (4.0, 3, 4.0, 3)),
      ("fs/stddens", Excel_FinnisSinclair_EAMTabulation, good_pairs, [EAMPotential("Q", 1, 1.0, ident, ident)], (4.0, 3, 4.0, 3)),
      ("fs/partial", Excel_FinnisSinclair_EAMTabulation, good_pairs, [EAMPotential("Q", 1, 1.0, ident, {"R": ident}), EAMPotential("R", 1, 1.0, ident, {})], (4.0, 3, 4.0, 3)),
      ("fs/dens_raise", Excel_FinnisSinclair_EAMTabulation, good_pairs, [EAMPotential("Q", 1, 1.0, ident, {"Q": ident, "R": boom_at(1.0, ValueError)}), EAMPotential("R", 1, 1.0, ident, {"Q": ident, "R": ident})], (4.0, 5, 4.0, 5)),
      ("fs/embed_raise", Excel_FinnisSinclair_EAMTabulation, good_pairs, [EAMPotential("Q", 1, 1.0, boom_at(1.0, ValueError), {"Q": ident})], (4.0, 5, 4.0, 5)),
      ("fs/nothing", Excel_FinnisSinclair_EAMTabulation, good_pairs, [Nothing()], (4.0, 3, 4.0, 3)),
      ("fs/nodens", Excel_FinnisSinclair_EAMTabulation, good_pairs, [NoDens()], (4.0, 3, 4.0, 3)),
      ("fs/nospecies", Excel_FinnisSinclair_EAMTabulation, good_pairs, [NoSpecies()], (4.0, 3, 4.0, 3)),
  ]:
    exercise("badeam/" + name, cls(pairs, eampots, *args))


def populate_directly():
  """_populate_worksheet is called across classes (Excel_EAMTabulation uses the
  method of its inner Excel_PairTabulation) so exercise its contract directly."""
  tab = Excel_PairTabulation([], 1.0, 2)
  sq = lambda x: x * x
  neg = lambda x: -x
  cases = [
    ("basic", "r", [0.0, 0.5, 1.0], ["a", "b"], {"a": sq, "b": neg}),
    ("generator", "rho", (float(i) for i in range(4)), ["b", "a"], {"a": sq, "b": neg}),
    ("nokeys", "r", [0.0, 1.0], [], {"a": sq}),
    ("novalues", "r", [], ["a"], {"a": sq}),
    ("subset", "r", [1.0, 2.0], ["b"], {"a": sq, "b": neg}),
    ("missingkey", "r", [1.0, 2.0], ["a", "zz", "b"], {"a": sq, "b": neg}),
    ("tuplekeys", "r", [1.0, 2.0], ("a", "b"), {"a": sq, "b": neg}),
    ("dupkeys", "r", [1.0, 2.0], ["a", "a"], {"a": sq}),
    ("intkeys", 5, [1, 2], [2, 1], {1: sq, 2: neg}),
    ("genkeys", "r", [1.0], (k for k in ["a"]), {"a": sq}),
    ("nonekeys", "r", [1.0], None, {"a": sq}),
    ("nonevalues", "r", None, ["a"], {"a": sq}),
    ("nonedict", "r", [1.0], ["a"], None),
    ("badheading", ["list"], [1.0], ["a"], {"a": sq}),
    ("badlabel", "r", [1.0], [["a"]], {}),
    ("raises", "r", [1.0, 2.0, 3.0], ["a", "b"], {"a": sq, "b": lambda x: 1.0 / (2.0 - x)}),
    ("many", "x", [0.1 * i for i in range(30)], ["c%02d" % i for i in range(40)], dict(("c%02d" % i, (lambda x, i=i: x + i)) for i in range(40))),
  ]
  for name, first_name, first_values, keys, cdict in cases:
    wb = Workbook()
    ws = wb.active
    try:
      rv = tab._populate_worksheet(ws, first_name, first_values, keys, cdict)
      log("populate/" + name, "OK", repr(rv), dump_workbook(wb))
    except BaseException as e:
      log("populate/" + name, "EXC", type(e).__name__, str(e), dump_workbook(wb))

  # A sub-class that overrides _populate_worksheet still sees every sheet
  seen = []

  class Spy(Excel_PairTabulation):
    def _populate_worksheet(self, ws, first_col_name, first_col_values, column_keys, column_dict):
      seen.append((ws.title, first_col_name, list(column_keys), sorted(column_dict.keys()), type(column_keys).__name__))
      return super(Spy, self)._populate_worksheet(ws, first_col_name, list(first_col_values), column_keys, column_dict)

  trace = []
  exercise("spy", Spy(make_pairs([("B", "A"), ("C", "C")], trace), 2.0, 3), trace)
  log("spy-seen", seen)


CFG = u"""[Tabulation]
target : {target}
dr : {dr}
cutoff : {cutoff}
{extra}

[Pair]
{pair}
{sections}
"""


def configurations():
  cases = [
    ("excel", "dr=0.5", dict(target="excel", dr=0.5, cutoff=5, extra="",
                             pair="O-O : as.polynomial 0 1\nAl-O : as.polynomial 0 2", sections="")),
    ("excel", "reordered", dict(target="excel", dr=0.25, cutoff=2, extra="",
                                pair="Al-O : as.buck 1000 0.3 10\nO-Al : as.polynomial 0 2\nMg-O : as.bornmayer 800 0.29\nAl-Al : as.zero", sections="")),
    ("excel_eam", "std", dict(target="excel_eam", dr=0.5, cutoff=5, extra="drho : 0.25\ncutoff_rho : 2",
                              pair="O-O : as.polynomial 0 1\nAl-O : as.polynomial 0 2",
                              sections="[EAM-Density]\nO : as.polynomial 0 3\nAl : as.polynomial 0 4\n\n[EAM-Embed]\nO : as.polynomial 0 5\nAl : as.polynomial 0 6\n")),
    ("excel_eam", "reordered", dict(target="excel_eam", dr=1.0, cutoff=3, extra="drho : 0.5\ncutoff_rho : 4",
                                    pair="Zr-Zr : as.bornmayer 1000 0.3",
                                    sections="[EAM-Embed]\nZr : as.sqrt -1.5\nAl : as.sqrt -0.5\nCu : as.polynomial 1 2 3\n\n[EAM-Density]\nCu : as.exponential 2 -1\nAl : as.exponential 3 -2\nZr : as.exponential 4 -3\n")),
    ("excel_eam_fs", "std", dict(target="excel_eam_fs", dr=0.5, cutoff=5, extra="drho : 0.25\ncutoff_rho : 2",
                                 pair="O-O : as.polynomial 0 1\nAl-O : as.polynomial 0 2",
                                 sections="[EAM-Density]\nO->O : as.polynomial 0 3\nAl->Al : as.polynomial 0 4\nAl->O : as.polynomial 0 5\nO->Al : as.polynomial 0 6\n\n[EAM-Embed]\nO : as.polynomial 0 7\nAl : as.polynomial 0 8\n")),
    ("excel_eam_fs", "partial", dict(target="excel_eam_fs", dr=0.5, cutoff=2, extra="drho : 0.25\ncutoff_rho : 1",
                                     pair="Fe-Fe : as.zero",
                                     sections="[EAM-Density]\nFe->Fe : as.polynomial 0 3\nAl->Fe : as.polynomial 0 5\n\n[EAM-Embed]\nFe : as.polynomial 0 7\nAl : as.polynomial 0 8\n")),
    ("excel_eam", "fsdens", dict(target="excel_eam", dr=0.5, cutoff=2, extra="drho : 0.25\ncutoff_rho : 1",
                                 pair="Fe-Fe : as.zero",
                                 sections="[EAM-Density]\nFe->Fe : as.polynomial 0 3\n\n[EAM-Embed]\nFe : as.polynomial 0 7\n")),
  ]
  for target, name, kwargs in cases:
    label = "cfg/%s/%s" % (target, name)
    try:
      tabulation = Configuration().read(io.StringIO(CFG.format(**kwargs)))
    except BaseException as e:
      log(label, "READ-EXC", type(e).__name__, str(e))
      continue
    log(label, type(tabulation).__name__)
    exercise(label, tabulation)


def main():
  object_api()
  malformed()
  populate_directly()
  configurations()
  blob = "\n".join(LOG).encode("utf-8")
  print("records:", len(LOG))
  print("bytes:", len(blob))
  print("sha256:", hashlib.sha256(blob).hexdigest())


if __name__ == "__main__":
  main()

"""Differential script for twin A (static metadata and console_scripts moved
from setup.py to setup.cfg; setup.py reduced to `setup()`).

Part 1 (packaging): runs `setup.py egg_info --egg-base <tmp>` for this tree
and digests the generated metadata: PKG-INFO (name, version, summary, urls,
author, license, keywords, classifiers, content type, Requires-Dist, long
description), entry_points.txt, requires.txt, top_level.txt,
namespace_packages.txt, dependency_links.txt and SOURCES.txt; plus the
answers of `setup.py --name --version --fullname --description --author
--author-email --url --license --keywords --classifiers`.
The `Dynamic:` marker lines of PKG-INFO (core metadata 2.2+) are left out of
the digest: they record HOW a field was supplied (setup() keyword vs.
declarative config), not its value, and are reported on a separate line.

Part 2 (entry point): the console_scripts target read back from
entry_points.txt is resolved with importlib (it must be
atsim.potentials.tools.potable:main) and THAT callable is driven in-process
with patched sys.argv over a varied set of command lines (tabulation to all
targets, EAM models, queries, filters, overrides, malformed input); exit
status, stdout, stderr/log text and bytes written are digested.

Usage: /venv/bin/python -W ignore /tmp/wtpy.py /tmp/wt_r8_3 _twins/diffA.py
"""
import contextlib
import hashlib
import importlib
import io
import logging
import os
import shutil
import subprocess
import sys
import tempfile

WT = os.path.dirname(os.path.dirname(os.path.abspath(__file__)))
os.environ["COLUMNS"] = "80"
os.environ["LINES"] = "24"

EX = os.path.join(WT, "docs", "user_guide", "example_files")
BASAK = os.path.join(WT, "docs", "quick_start", "basak.aspot")
STD_EAM = os.path.join(EX, "standard_eam.aspot")
FS_EAM = os.path.join(EX, "finnis_sinclair_eam.aspot")
TABLE_FORM = os.path.join(EX, "basak_table_form.aspot")
SPLINE = os.path.join(EX, "morelon_buck4_spline.aspot")
CUSTOM = os.path.join(EX, "basak_custom_potential_form_a.aspot")
SPINEL = os.path.join(WT, "tests", "config", "config_resources", "spinel.aspot")
CRG = os.path.join(WT, "tests", "lammps_resources", "CRG_U_Th.aspot")

BROKEN = """[Tabulation]
target : NOT_A_TARGET
cutoff : 2.0
nr : 10

[Pair]
O-O = as.buck 1.0 0.3 0.0
"""

BROKEN2 = """[Tabulation]
target : LAMMPS
cutoff : 2.0
nr : 10

[Pair]
O-O = no_such_form 1.0 0.3 0.0
"""

SMALL = ["-e", "Tabulation:nr=40"]

CASES = [
  # plain tabulation, the three pair targets
  [BASAK, "TABLE"] + SMALL,
  [BASAK, "out.lmptab", "-e", "Tabulation:target=LAMMPS", "Tabulation:nr=25"],
  [BASAK, "out.gulp", "--override-item", "Tabulation:target=GULP", "--override-item", "Tabulation:nr=30"],
  [BASAK, "TABLE", "-e", "Tabulation:nr=36", "-e", "Tabulation:cutoff=4.25"],
  [TABLE_FORM, "tf.lmptab", "-e", "Tabulation:nr=50"],
  [SPLINE, "spl.lmptab", "-e", "Tabulation:dr=0.25"],
  [CUSTOM, "custom.out"] + SMALL,
  # EAM
  [STD_EAM, "std.eam"],
  [STD_EAM, "std_dl.eam", "-e", "Tabulation:target=DL_POLY_EAM"],
  [STD_EAM, "std_excl.eam", "--exclude-species", "B"],
  [FS_EAM, "fs.eam"],
  [FS_EAM, "fs_incl.eam", "--include-species", "B"],
  [SPINEL, "spinel.eam", "-e", "Tabulation:nrho=20", "-a", "Tabulation:nr=20"],
  [CRG, "crg.eam", "-e", "Tabulation:nr=20", "Tabulation:nrho=20", "--include-species", "U", "O"],
  [CRG, "crg2.eam", "-e", "Tabulation:nr=20", "Tabulation:nrho=20", "--include-species", "O", "U"],
  # filters, add, remove
  [BASAK, "TABLE", "--include-species", "O"] + SMALL,
  [BASAK, "TABLE", "--exclude-species", "O"] + SMALL,
  [BASAK, "TABLE", "--include-species", "U", "O", "-e", "Tabulation:nr=24"],
  [BASAK, "TABLE", "-r", "Pair:O-U"] + SMALL,
  [BASAK, "TABLE", "-r", "Tabulation:nr", "-a", "Tabulation:dr=0.5"],
  [BASAK, "TABLE", "-a", "Pair:U-Xe=as.buck 10.0 0.3 1.0"] + SMALL,
  [BASAK, "TABLE", "-a", "Pair:O-O=as.buck 10.0 0.3 1.0"] + SMALL,
  [BASAK, "TABLE", "-e", "Pair:Xe-Xe=as.buck 10.0 0.3 1.0"] + SMALL,
  [BASAK, "TABLE", "-r", "Pair:Xe-Xe"] + SMALL,
  [BASAK, "TABLE", "-e", "Tabulation:nr=40", "-r", "Tabulation:nr"],
  # queries
  [BASAK, "--list-items"],
  [BASAK, "-l", "-e", "Tabulation:nr=99", "-a", "Pair:Xe-Xe=as.zero"],
  [BASAK, "--list-item-labels"],
  [CRG, "-l"],
  [CRG, "--list-item-labels", "--exclude-species", "Th"],
  [TABLE_FORM, "-l"],
  [TABLE_FORM, "--item-value", "Table-Form:tabulated:interpolation"],
  [BASAK, "--item-value", "Pair:O-O"],
  [BASAK, "--item-value", "Tabulation:cutoff", "-e", "Tabulation:cutoff=9.5"],
  [BASAK, "ignored.out", "--item-value", "Tabulation:target"],
  [FS_EAM, "--item-value", "EAM-Density:A->B"],
  # malformed input
  [BASAK, "--item-value", "Pair"],
  [BASAK, "--item-value", "Pair:Zz-Zz"],
  [BASAK, "--item-value", "Nope:O-O"],
  [BASAK, "TABLE", "-e", "Tabulation:nr"],
  [BASAK, "TABLE", "-e", "nr=10"],
  [BASAK, "TABLE", "-a", "Tabulation"],
  [BASAK, "TABLE", "-r", "Tabulation"],
  [BASAK, "TABLE", "-r", "Tabulation:nr=10"],
  [BASAK, "TABLE", "-e", "Tabulation:target=WRONG"],
  [BASAK, "TABLE", "-e", "Tabulation:nr=abc"],
  [BASAK],
  [BASAK, "--list-items", "--list-item-labels"],
  [BASAK, "TABLE", "--include-species", "O", "--exclude-species", "U"],
  [BASAK, "TABLE", "extra_positional"],
  [BASAK, "TABLE", "--no-such-option"],
  ["/nonexistent/dir/missing.aspot", "TABLE"],
  ["@BROKEN@", "TABLE"],
  ["@BROKEN2@", "TABLE"],
  ["@BROKEN@", "-l"],
  ["@EMPTY@", "TABLE"],
  ["@EMPTY@", "-l"],
  [],
  ["--help"],
  ["-h", BASAK],
]


def _prepare(workdir):
  with open(os.path.join(workdir, "broken.aspot"), "w") as f:
    f.write(BROKEN)
  with open(os.path.join(workdir, "broken2.aspot"), "w") as f:
    f.write(BROKEN2)
  with open(os.path.join(workdir, "empty.aspot"), "w") as f:
    pass


def _subst(argv, workdir):
  m = {"@BROKEN@": os.path.join(workdir, "broken.aspot"),
       "@BROKEN2@": os.path.join(workdir, "broken2.aspot"),
       "@EMPTY@": os.path.join(workdir, "empty.aspot")}
  return [m.get(a, a) for a in argv]


def _collect_files(workdir):
  out = []
  for name in sorted(os.listdir(workdir)):
    if name.endswith(".aspot"):
      continue
    with open(os.path.join(workdir, name), "rb") as f:
      out.append((name, hashlib.sha256(f.read()).hexdigest()))
  return out


def _normalise(text, workdir):
  return text.replace(workdir, "<TMP>").replace(WT, "<WT>")


def _reset_logging():
  root = logging.getLogger()
  for h in list(root.handlers):
    root.removeHandler(h)


def in_process(argv, prog, call):
  """call(potable_module, argv) is run with sys.argv patched; returns record"""
  workdir = tempfile.mkdtemp(prefix="twin_")
  oldcwd = os.getcwd()
  old_argv = sys.argv
  try:
    _prepare(workdir)
    os.chdir(workdir)
    argv = _subst(argv, workdir)
    import atsim.potentials.tools.potable as potable
    _reset_logging()
    out, err = io.StringIO(), io.StringIO()
    status = None
    with contextlib.redirect_stdout(out), contextlib.redirect_stderr(err):
      try:
        status = ("returned", repr(call(potable, prog, argv)))
      except SystemExit as e:
        status = ("SystemExit", repr(e.code))
      except BaseException as e:  # noqa
        status = ("raised", type(e).__name__, _normalise(str(e), workdir))
    _reset_logging()
    return (status, _normalise(out.getvalue(), workdir), _normalise(err.getvalue(), workdir), _collect_files(workdir))
  finally:
    sys.argv = old_argv
    os.chdir(oldcwd)
    shutil.rmtree(workdir, ignore_errors=True)


def egg_info():
  base = tempfile.mkdtemp(prefix="twin_egg_")
  try:
    env = dict(os.environ, PYTHONWARNINGS="ignore", SOURCE_DATE_EPOCH="0")
    p = subprocess.run([sys.executable, "-W", "ignore", "setup.py", "-q", "egg_info", "--egg-base", base],
                       cwd=WT, env=env, stdout=subprocess.PIPE, stderr=subprocess.PIPE, universal_newlines=True)
    files = {}
    dynamic = []
    eggdirs = sorted(os.listdir(base))
    for d in eggdirs:
      for name in sorted(os.listdir(os.path.join(base, d))):
        with open(os.path.join(base, d, name), encoding="utf-8") as f:
          text = f.read().replace(base, "<EGGBASE>")
        if name == "PKG-INFO":
          lines = text.split("\n")
          dynamic = [l for l in lines if l.startswith("Dynamic:")]
          text = "\n".join(l for l in lines if not l.startswith("Dynamic:"))
        if name == "SOURCES.txt":
          # the _twins scratch directory is not part of the project
          text = "\n".join(l for l in text.split("\n") if not l.startswith("_twins"))
        files[d + "/" + name] = text
    q = subprocess.run([sys.executable, "-W", "ignore", "setup.py", "--name", "--version", "--fullname",
                        "--description", "--author", "--author-email", "--url", "--license",
                        "--keywords", "--classifiers", "--long-description"],
                       cwd=WT, env=env, stdout=subprocess.PIPE, stderr=subprocess.PIPE, universal_newlines=True)
    return p.returncode, files, dynamic, (q.returncode, q.stdout)
  finally:
    shutil.rmtree(base, ignore_errors=True)


def resolve_entry_point(entry_points_txt):
  import configparser
  cp = configparser.ConfigParser()
  cp.optionxform = str
  cp.read_string(entry_points_txt)
  scripts = dict(cp["console_scripts"])
  target = scripts["potable"]
  modname, attr = [t.strip() for t in target.split(":")]
  mod = importlib.import_module(modname)
  return scripts, modname, attr, getattr(mod, attr)


def main():
  verbose = "-v" in sys.argv[1:]
  rc, files, dynamic, query = egg_info()
  h = hashlib.sha256()
  h.update(repr((rc, sorted(files.items()), query)).encode("utf-8"))
  if verbose:
    for k in sorted(files):
      print("----", k)
      print(files[k])
    print("---- setup.py --name ...", query)
  print("egg_info exit status: %d; files: %s" % (rc, ", ".join(sorted(files))))
  print("DIGEST packaging metadata:", h.hexdigest())
  print("(not digested) PKG-INFO Dynamic markers:", ", ".join(d.split(":", 1)[1].strip() for d in dynamic))

  egg = [k for k in files if k.endswith("/entry_points.txt")][0]
  scripts, modname, attr, func = resolve_entry_point(files[egg])
  print("console_scripts:", scripts, "->", func.__module__ + "." + func.__name__)

  def call_entry_point(potable, prog, argv):
    sys.argv = [prog] + list(argv)
    return func()

  h = hashlib.sha256()
  h.update(repr((scripts, modname, attr, func.__module__, func.__name__)).encode("utf-8"))
  records = []
  for argv in CASES:
    rec = in_process(argv, "potable", call_entry_point)
    records.append(rec)
    h.update(repr((argv, rec)).replace(WT, "<WT>").encode("utf-8"))
    if verbose:
      print(argv, rec[0], len(rec[1]), len(rec[2]), rec[3])
  n_ok = sum(1 for r in records if r[0] == ("SystemExit", "0"))
  print("cases: %d  (exit 0: %d, other: %d)" % (len(records), n_ok, len(records) - n_ok))
  print("DIGEST console script entry point in-process:", h.hexdigest())


if __name__ == "__main__":
  main()

"""Shared helpers for the diffA/diffB/diffC differential scripts.

run_cli(argv) drives atsim.potentials.tools.potable.main() exactly as the
console script does (sys.argv, stdout, stderr, SystemExit) and returns a
deterministic record of everything observable: exit code, stdout, stderr,
every log record (logger name, level, message) and the bytes written to the
output file.
"""
import contextlib
import hashlib
import io
import logging
import os
import shutil
import sys
import tempfile

WT = os.path.dirname(os.path.dirname(os.path.abspath(__file__)))


def res(*parts):
  return os.path.join(WT, *parts)


class _ListHandler(logging.Handler):
  def __init__(self):
    logging.Handler.__init__(self, level=logging.DEBUG)
    self.records = []

  def emit(self, record):
    self.records.append((record.name, record.levelname, record.getMessage()))


_HANDLER = _ListHandler()
_root = logging.getLogger()
_root.addHandler(_HANDLER)   # also makes potable's logging.basicConfig() a no-op
_root.setLevel(logging.INFO)


@contextlib.contextmanager
def captured_logs():
  start = len(_HANDLER.records)
  out = []
  try:
    yield out
  finally:
    out.extend(_HANDLER.records[start:])


def _excel_dump(path):
  import openpyxl
  wb = openpyxl.load_workbook(path)
  rows = []
  for ws in wb.worksheets:
    rows.append(("sheet", ws.title))
    for row in ws.iter_rows(values_only=True):
      rows.append(tuple(repr(c) for c in row))
  return repr(rows).encode("utf-8")


def run_cli(argv, out_name="out.tab", want_out=True, tmp_files=None):
  """argv: potable arguments, excluding the output filename (appended here when want_out)."""
  from atsim.potentials.tools import potable
  tmpdir = tempfile.mkdtemp(prefix="twin8_")
  try:
    extra = {}
    for name, content in (tmp_files or {}).items():
      p = os.path.join(tmpdir, name)
      with open(p, "w") as f:
        f.write(content)
      extra[name] = p
    argv = [extra.get(a, a) for a in argv]
    out_path = os.path.join(tmpdir, out_name)
    full = ["potable"] + list(argv[:1]) + ([out_path] if want_out else []) + list(argv[1:])
    stdout, stderr = io.StringIO(), io.StringIO()
    old_argv = sys.argv
    sys.argv = full
    code = None
    exc = None
    with captured_logs() as logs:
      try:
        with contextlib.redirect_stdout(stdout), contextlib.redirect_stderr(stderr):
          potable.main()
      except SystemExit as e:
        code = e.code
      except BaseException as e:   # anything else escaping main()
        exc = (type(e).__name__, str(e))
      finally:
        sys.argv = old_argv
    outdigest = None
    if os.path.exists(out_path):
      if out_name.endswith(".xlsx"):
        data = _excel_dump(out_path)
      else:
        with open(out_path, "rb") as f:
          data = f.read()
      outdigest = (len(data), hashlib.sha256(data).hexdigest())
    fix = lambda s: s.replace(tmpdir, "<TMP>")
    return {
      "argv": [fix(a) for a in full[1:]],
      "exit": code,
      "exc": exc and (exc[0], fix(exc[1])),
      "stdout": fix(stdout.getvalue()),
      "stderr": fix(stderr.getvalue()),
      "logs": [(n, l, fix(m)) for (n, l, m) in logs],
      "out": outdigest,
    }
  finally:
    shutil.rmtree(tmpdir, ignore_errors=True)


def guarded(fn, *args, **kwargs):
  """Call fn and return ('ok', repr(result)) or ('exc', type name, message)."""
  try:
    return ("ok", repr(fn(*args, **kwargs)))
  except BaseException as e:
    return ("exc", type(e).__name__, str(e))


class Digest(object):
  def __init__(self, verbose=False):
    self.h = hashlib.sha256()
    self.n = 0
    self.verbose = verbose or bool(os.environ.get("TWIN_VERBOSE"))

  def add(self, label, value):
    text = "{}: {!r}\n".format(label, value)
    self.h.update(text.encode("utf-8"))
    self.n += 1
    if self.verbose:
      sys.stdout.write(text)

  def finish(self):
    print("records={} sha256={}".format(self.n, self.h.hexdigest()))

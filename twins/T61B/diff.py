"""Differential script for twin B (atsim/potentials/config/_config_parser.py).

Feeds a range of well formed and malformed .aspot documents through the public
ConfigParser API (tabulation, pair, potential_form, table_form, eam_*,
parsed_sections, orphan_sections, species, overrides/additional) and through
Configuration.read(), then prints a sha256 digest over repr()s of every result
/ exception type and message."""
import hashlib
import io
import itertools
import os

from atsim.potentials.config import ConfigParser, Configuration
from atsim.potentials.config._config_parser import ConfigParserOverrideTuple as OT
from atsim.potentials.config._config_parser import _RawConfigParser, _TableFormSection, _ConfigParserDict

H = hashlib.sha256()
RECORDS = []


def record(label, value):
  s = "%s => %r" % (label, value)
  RECORDS.append(s)
  H.update(s.encode("utf-8"))
  H.update(b"\0")


def attempt(label, func):
  try:
    v = func()
  except BaseException as e:  # noqa
    ctx = e.__context__
    record(label, ("EXC", type(e).__mro__[:-2], str(e), type(ctx).__name__ if ctx is not None else None, e.__suppress_context__))
  else:
    record(label, v)


PROPERTIES = ["tabulation", "pair", "potential_form", "table_form", "eam_embed", "eam_density", "eam_density_fs",
              "parsed_sections", "orphan_sections", "species"]


def probe(label, text, **kwargs):
  """Build a ConfigParser and record every public property"""
  holder = []

  def build():
    holder.append(ConfigParser(io.StringIO(text), **kwargs))
    return "built"
  attempt(label + " <init>", build)
  if not holder:
    return
  cp = holder[0]
  for prop in PROPERTIES:
    attempt("%s .%s" % (label, prop), lambda: getattr(cp, prop))
  # twice: lazily cached properties must give the same answer
  attempt("%s .tabulation(2)" % label, lambda: (cp.tabulation.target, cp.tabulation.nr, cp.tabulation.cutoff, cp.tabulation.nrho, cp.tabulation.cutoff_rho))
  attempt("%s .table_form(2)" % label, lambda: cp.table_form)
  attempt("%s raw sections" % label, lambda: [(s, cp.raw_config_parser.options(s), [cp.raw_config_parser.get(s, o, raw=True) for o in cp.raw_config_parser.options(s)]) for s in cp.raw_config_parser.sections()])


# ---------------------------------------------------------------- [Tabulation]
TAB_VALUES = {
  "nr": [None, "100", "1", "0", "-4", "2", "abc", "10.5", " 7 "],
  "dr": [None, "0.1", "0", "-0.5", "1e-3", "x"],
  "cutoff": [None, "10.0", "0.7", "0", "-1", "6.5", "1e400", "nan"],
}
n = 0
for nr, dr, cutoff in itertools.product(TAB_VALUES["nr"], TAB_VALUES["dr"], TAB_VALUES["cutoff"]):
  lines = ["[Tabulation]", "target : DL_POLY"]
  for k, v in (("nr", nr), ("dr", dr), ("cutoff", cutoff)):
    if v is not None:
      lines.append("%s : %s" % (k, v))
  text = "\n".join(lines) + "\n"
  attempt("tab %s/%s/%s" % (nr, dr, cutoff), lambda: repr(ConfigParser(io.StringIO(text)).tabulation))
  # density flavour of the same thing
  text_rho = text.replace("nr :", "nrho :").replace("dr :", "drho :").replace("cutoff :", "cutoff_rho :")
  attempt("tabrho %s/%s/%s" % (nr, dr, cutoff), lambda: repr(ConfigParser(io.StringIO(text_rho)).tabulation))
  n += 1

for target in ["LAMMPS", "lammps_eam_alloy", "LAMMPS_eam_alloy", "DL_POLY", "DLPOLY", "setfl", "GULP", "", "weird one"]:
  attempt("target %r" % target, lambda: repr(ConfigParser(io.StringIO("[Tabulation]\ntarget : %s\nnr : 5\ndr: 0.5\n" % target)).tabulation))
attempt("no tabulation", lambda: repr(ConfigParser(io.StringIO("[Pair]\nA-B : as.buck 1 2 3\n")).tabulation))
attempt("empty tabulation", lambda: repr(ConfigParser(io.StringIO("[Tabulation]\n")).tabulation))
attempt("empty file", lambda: repr(ConfigParser(io.StringIO("")).tabulation))

# ---------------------------------------------------------------- whole documents
DOC_PAIR = u"""[Variables]
A_OO = 830.283
rho_oo : 0.352856

[Tabulation]
target : LAMMPS
nr : 1001
dr : 0.01

[Potential-Form]
buck_morse(r_ij, A,rho,C,D,gamma,r0) : as.buck(r_ij,A,rho,C) + as.morse(r_ij, gamma,r0,D)
density(r_ij, n) : (n/r_ij^8) * 0.5 * (1+erf(20*(r_ij-1.5)))
nothing( x ) : 0

[Pair]
O-O = buck_morse ${A_OO} ${rho_oo} 3.884372 0.0 0.0 0.0
U - O = >0 as.buck 1000.0 0.1 32.0 >=2.5 as.zero
Th-O : sum(as.buck 1000 0.3 0, >1.0 as.constant 2.0)

[Species]
O.charge = -1.1
O.atomic_mass = 15.999
U.atomic_number : 92
U.lattice_type = fcc
U.lattice_constant = 5.47
U.something.else = what ever
Th . covalent_radius = 2.06

[Orphan]
x = 1

[Table-Form:tabulated]
interpolation : cubic_spline
x : 1.0 2.0 3.0 4.0
y : 0.5 0.25 0.125 0.0

[Table-Form: second ]
xy : 0 1.0
     1 0.5
     2 0.25
     3 0.1

[Another-Orphan]
"""

DOC_EAM = u"""[Tabulation]
target : setfl
nr : 20
dr : 0.05
nrho : 10
drho : 0.5

[EAM-Embed]
Th = as.sqrt -1.185
U : as.sqrt -1.806

[EAM-Density]
Th = as.exponential 1742.622 -1
U  = >0 as.zero >=1.5 as.exponential 3450.995 -2

[Pair]
Th-Th = as.buck 18600 0.2884 0.0
U-Th = as.buck 18600 0.2747 0.0
"""

DOC_EAM_FS = DOC_EAM.replace("target : setfl", "target : setfl_fs").replace(
  "Th = as.exponential 1742.622 -1", "Th->Th = as.exponential 1742.622 -1\nTh -> U = as.exponential 17.0 -1").replace(
  "U  = >0 as.zero >=1.5 as.exponential 3450.995 -2", "U->U = >0 as.zero >=1.5 as.exponential 3450.995 -2\nU->Th : as.zero")

probe("doc_pair", DOC_PAIR)
probe("doc_eam", DOC_EAM)
probe("doc_eam_fs", DOC_EAM_FS)

# Malformed variations
MUTATIONS = [
  ("dup pair rev", DOC_PAIR.replace("Th-O : sum(", "O-U = as.zero\nTh-O : sum(")),
  ("dup pair same", DOC_PAIR.replace("Th-O : sum(", "U-O = as.zero\nTh-O : sum(")),
  ("dup pair ws", DOC_PAIR.replace("Th-O : sum(", "O -O = as.zero\nTh-O : sum(")),
  ("pair 3 tokens", DOC_PAIR.replace("Th-O : sum(", "Th-O-U = as.zero\nTh-O : sum(")),
  ("pair 1 token", DOC_PAIR.replace("Th-O : sum(", "Th = as.zero\nTh-O : sum(")),
  ("pair bad value", DOC_PAIR.replace("32.0 >=2.5 as.zero", "32.0 >=2.5")),
  ("pair bad value 2", DOC_PAIR.replace(">0 as.buck 1000.0 0.1 32.0", ">0 as.buck 1000.0 0.1 32.0 )")),
  ("pair empty value", DOC_PAIR.replace("Th-O : sum(as.buck 1000 0.3 0, >1.0 as.constant 2.0)", "Th-O :")),
  ("bad signature", DOC_PAIR.replace("nothing( x ) : 0", "9nothing( x ) : 0")),
  ("bad signature 2", DOC_PAIR.replace("nothing( x ) : 0", "nothing : 0")),
  ("missing variable", DOC_PAIR.replace("${rho_oo}", "${rho_missing}")),
  ("species no dot", DOC_PAIR.replace("O.charge = -1.1", "Ocharge = -1.1")),
  ("species bad float", DOC_PAIR.replace("O.charge = -1.1", "O.charge = minus")),
  ("species bad int", DOC_PAIR.replace("U.atomic_number : 92", "U.atomic_number : 92.5")),
  ("species leading dot", DOC_PAIR.replace("O.charge = -1.1", ".charge = -1.1")),
  ("species trailing dot", DOC_PAIR.replace("O.charge = -1.1", "O. = -1.1")),
  ("dup table form", DOC_PAIR.replace("[Table-Form: second ]", "[Table-Form: tabulated ]")),
  ("dup table form x3", DOC_PAIR.replace("[Another-Orphan]", "[Table-Form:second]\nxy : 1 2\n[Table-Form:  second]\nxy: 3 4\n")),
  ("table x only", DOC_PAIR.replace("y : 0.5 0.25 0.125 0.0", "")),
  ("table y only", DOC_PAIR.replace("x : 1.0 2.0 3.0 4.0", "")),
  ("table x y xy", DOC_PAIR.replace("y : 0.5 0.25 0.125 0.0", "y : 0.5 0.25 0.125 0.0\nxy : 1 2")),
  ("table xy and x", DOC_PAIR.replace("xy : 0 1.0", "x : 3\nxy : 0 1.0")),
  ("table no data", DOC_PAIR.replace("x : 1.0 2.0 3.0 4.0", "").replace("y : 0.5 0.25 0.125 0.0", "")),
  ("table x bad float", DOC_PAIR.replace("x : 1.0 2.0 3.0 4.0", "x : 1.0 2.0 three 4.0")),
  ("table y bad float", DOC_PAIR.replace("y : 0.5 0.25 0.125 0.0", "y : 0.5 0.25 0..125 0.0")),
  ("table len mismatch", DOC_PAIR.replace("y : 0.5 0.25 0.125 0.0", "y : 0.5 0.25 0.125")),
  ("table xy odd", DOC_PAIR.replace("     2 0.25", "     2 0.25 3")),
  ("table xy bad float", DOC_PAIR.replace("     2 0.25", "     2 0.25 3 a")),
  ("table xy empty", DOC_PAIR.replace("xy : 0 1.0\n     1 0.5\n     2 0.25\n     3 0.1", "xy :")),
  ("table xy single pair", DOC_PAIR.replace("xy : 0 1.0\n     1 0.5\n     2 0.25\n     3 0.1", "xy : 7 8")),
  ("table empty name", DOC_PAIR.replace("[Table-Form: second ]", "[Table-Form:]")),
  ("dup section", DOC_PAIR.replace("[Another-Orphan]", "[Orphan]")),
  ("dup option", DOC_PAIR.replace("[Another-Orphan]", "[Another-Orphan]\na b = 1\nab = 2")),
  ("no header", "x = 1\n" + DOC_PAIR),
  ("eam embed bad", DOC_EAM.replace("U : as.sqrt -1.806", "U : >")),
  ("eam density bad", DOC_EAM.replace("Th = as.exponential 1742.622 -1", "Th = sum(")),
  ("eam mixed fs", DOC_EAM.replace("Th = as.exponential 1742.622 -1", "Th->U = as.exponential 1742.622 -1")),
  ("eam fs 3 tokens", DOC_EAM_FS.replace("U->Th : as.zero", "U->Th->U : as.zero")),
  ("eam fs bad value", DOC_EAM_FS.replace("U->Th : as.zero", "U->Th : >=")),
  ("eam no density", DOC_EAM.replace("[EAM-Density]", "[EAM-Densities]")),
  ("eam empty density", DOC_EAM.replace("Th = as.exponential 1742.622 -1\nU  = >0 as.zero >=1.5 as.exponential 3450.995 -2", "")),
  ("eam no embed", DOC_EAM.replace("[EAM-Embed]", "[Embed]")),
  ("no potential form", DOC_EAM),
]
for label, text in MUTATIONS:
  probe(label, text)

# ---------------------------------------------------------------- overrides / additional
OVERRIDES = [
  ("ov target", dict(overrides=[OT(u"Tabulation", u"target", u"DLPOLY"), OT(u"Potential-Form", u"nothing(x)", u"1")])),
  ("ov normalised key", dict(overrides=[OT(u"Pair", u"U-O", u"as.zero")])),
  ("ov missing key", dict(overrides=[OT(u"Tabulation", u"targe", u"DLPOLY")])),
  ("ov missing section", dict(overrides=[OT(u"Tabulations", u"target", u"DLPOLY")])),
  ("ov remove", dict(overrides=[OT(u"Tabulation", u"nr", None)])),
  ("ov remove all", dict(overrides=[OT(u"Orphan", u"x", None)])),
  ("ov remove twice", dict(overrides=[OT(u"Orphan", u"x", None), OT(u"Orphan", u"x", None)])),
  ("ov variable", dict(overrides=[OT(u"Variables", u"A_OO", u"1.5")])),
  ("ov bad value", dict(overrides=[OT(u"Tabulation", u"nr", u"blah")])),
  ("ov non str value", dict(overrides=[OT(u"Tabulation", u"nr", 5)])),
  ("add pair", dict(additional=[OT(u"Pair", u"Pu-O", u"as.buck 1000.0 0.1 32.0")])),
  ("add dup pair", dict(additional=[OT(u"Pair", u"O-U", u"as.buck 1000.0 0.1 32.0")])),
  ("add existing", dict(additional=[OT(u"Pair", u"U-O", u"as.buck 1000.0 0.1 32.0")])),
  ("add new section", dict(additional=[OT(u"EAM-Embed", u"U", u"as.zero"), OT(u"Brand-New", u"k", u"v")])),
  ("add variable", dict(additional=[OT(u"Variables", u"NEW", u"1.5")])),
  ("add table form", dict(additional=[OT(u"Table-Form:third", u"xy", u"1 2 3 4")])),
  ("add dup table form", dict(additional=[OT(u"Table-Form:  tabulated", u"xy", u"1 2 3 4")])),
  ("both", dict(overrides=[OT(u"Tabulation", u"dr", u"0.5")], additional=[OT(u"Tabulation", u"cutoff", u"10")])),
]
for label, kwargs in OVERRIDES:
  probe(label, DOC_PAIR, **kwargs)

# ---------------------------------------------------------------- _RawConfigParser / helpers used by potable
def raw():
  rp = _RawConfigParser()
  rp.read_file(io.StringIO(DOC_PAIR))
  out = []
  for sect, opt in [("Pair", "O-O"), ("Pair", "U-O"), ("Pair", "U - O"), ("Pair", "A_OO"), ("Variables", "A_OO"), ("Nope", "x"), ("Species", "Th.covalent_radius")]:
    for kw in ({}, {"fallback": "FB"}, {"fallback": None}, {"raw": True}):
      try:
        out.append((sect, opt, sorted(kw.items(), key=repr), rp.get(sect, opt, **kw), rp.has_option(sect, opt)))
      except Exception as e:
        out.append((sect, opt, sorted(kw.items(), key=repr), type(e).__name__, str(e)))
  for sect in ["Pair", "Variables", "Nope", "Orphan", "Another-Orphan"]:
    try:
      out.append((sect, rp.options(sect)))
    except Exception as e:
      out.append((sect, type(e).__name__, str(e)))
  out.append(rp.has_option("", "A_OO"))
  out.append(rp.has_option(None, "rho_oo"))
  return out


attempt("raw parser", raw)


def cpdict():
  d = _ConfigParserDict()
  d["f(x, y)"] = 1
  d[" f(x,\ty) "] = 2
  d["g"] = 3
  del d["g "]
  out = [list(d.items()), d["f( x , y )"], "f(x,y)" in d]
  try:
    d["missing key"]
  except KeyError as e:
    out.append(("KeyError", e.args))
  try:
    del d["missing key"]
  except KeyError as e:
    out.append(("KeyError", e.args))
  return out


attempt("cpdict", cpdict)
attempt("relevant sections", lambda: [(s, _TableFormSection.is_relevant_section(s)) for s in ["Table-Form:a", "Table-Form", "Table-Form:", "xTable-Form:a", "Table-Form: a b ", "table-form:a"]])

# ---------------------------------------------------------------- end to end
for label, text in [("doc_pair", DOC_PAIR), ("doc_eam", DOC_EAM), ("doc_eam_fs", DOC_EAM_FS),
                    ("doc_pair dlpoly", DOC_PAIR.replace("target : LAMMPS", "target : DL_POLY").replace("nr : 1001", "nr : 1000")),
                    ("doc_pair gulp", DOC_PAIR.replace("target : LAMMPS", "target : GULP").replace("nr : 1001", "nr : 11"))]:
  def f(text=text):
    tab = Configuration().read(io.StringIO(text))
    sio = io.StringIO()
    tab.write(sio)
    return hashlib.sha256(sio.getvalue().encode("utf-8")).hexdigest(), len(sio.getvalue())
  attempt("e2e " + label, f)

if os.environ.get("TWIN_VERBOSE"):
  for r in RECORDS:
    print(r[:400])
print("records: %d" % len(RECORDS))
print("digest: %s" % H.hexdigest())

"""Differential script for twin B.

Exercises [Table-Form:NAME] parsing (x/y, xy, malformed data, duplicates), and
the section-level properties of ConfigParser (pair, potential_form, eam_*,
parsed_sections, orphan_sections, species) on valid and malformed input, plus
full tabulation of the models shipped with the project.
Prints a deterministic sha256 digest of everything observed.
"""
import glob
import hashlib
import io
import os
import sys

from atsim.potentials.config import ConfigParser, Configuration
from atsim.potentials.config._config_parser import _TableFormSection
from atsim.potentials.config._config_parser import ConfigParserOverrideTuple as OT

ROOT = os.path.dirname(os.path.dirname(os.path.abspath(__file__)))

LOG = []

PROPERTIES = ["parsed_sections", "orphan_sections", "table_form", "pair", "potential_form",
              "eam_embed", "eam_density", "eam_density_fs", "species", "tabulation"]


def rec(label, thunk):
  try:
    v = thunk()
    LOG.append("{} => OK {!r}".format(label, v))
  except Exception as e:  # noqa
    LOG.append("{} => EXC {} {} | {}".format(
      label, type(e).__name__,
      [c.__name__ for c in type(e).__mro__], str(e)))


def dump_parser(label, text, overrides=(), additional=()):
  holder = []

  def construct():
    holder.append(ConfigParser(io.StringIO(text), overrides=list(overrides), additional=list(additional)))
    return "constructed"
  rec(label + " ctor", construct)
  if not holder:
    return
  cp = holder[0]
  for prop in PROPERTIES:
    rec("{} .{}".format(label, prop), lambda: getattr(cp, prop))
    # second access, some are cached
    rec("{} .{} again".format(label, prop), lambda: getattr(cp, prop))
  rec(label + " parse_pair_like", lambda: cp.parse_pair_like("Pair-Extra"))
  rec(label + " types", lambda: [
    (type(t).__name__, type(t.x).__name__, type(t.y).__name__, [type(v).__name__ for v in t.x + t.y])
    for t in cp.table_form])


def tabulate(label, text):
  def run():
    tabulation = Configuration().read(io.StringIO(text))
    out = io.StringIO()
    tabulation.write(out)
    return (tabulation.target, tabulation.nr, tabulation.dr, tabulation.cutoff,
            hashlib.sha256(out.getvalue().encode("utf8")).hexdigest())
  rec(label + " tabulate", run)


HEAD = u"""[Tabulation]
target : LAMMPS
nr : 21
dr : 0.25

[Pair]
A-B : tab1
B-B : as.buck 1000.0 0.3 32.0
"""

table_cases = {
  "xy ok": "[Table-Form:tab1]\nxy : 0 10.0 1 8.0 2 5.0 3 2.5 4 1.0 5.1 0.0\n",
  "xy multi line": "[Table-Form:tab1]\nxy : 0 10.0\n  1 8.0\n  2 5.0\n  3 2.5\n\t4 1.0 5.1 0.0\n",
  "x y ok": "[Table-Form:tab1]\nx : 0 1 2 3 4 5.1\ny : 10.0 8.0 5.0 2.5 1.0 0.0\n",
  "x y ok linear": "[Table-Form:tab1]\ninterpolation : linear\nx : 0 1 2 3 4 5.1\ny : 10.0 8.0 5.0 2.5 1.0 0.0\n",
  "xy unknown interpolation": "[Table-Form:tab1]\ninterpolation : wobbly\nxy : 0 10.0 1 8.0 2 5.0 3 2.5 4 1.0 5.1 0.0\n",
  "xy exponent forms": "[Table-Form:tab1]\nxy : 0e0 1E1 1. 8 +2 5.0 3 .25e1 4 1.0 inf -0.0\n",
  "xy odd": "[Table-Form:tab1]\nxy : 0 10.0 1 8.0 2\n",
  "xy bad float": "[Table-Form:tab1]\nxy : 0 10.0 one 8.0\n",
  "xy empty": "[Table-Form:tab1]\nxy : \n",
  "xy single pair": "[Table-Form:tab1]\nxy : 1.0 2.0\n",
  "x only": "[Table-Form:tab1]\nx : 0 1 2\n",
  "y only": "[Table-Form:tab1]\ny : 0 1 2\n",
  "x and xy": "[Table-Form:tab1]\nx : 0 1 2\nxy : 0 1 2 3\n",
  "y and xy": "[Table-Form:tab1]\ny : 0 1 2\nxy : 0 1 2 3\n",
  "x y and xy": "[Table-Form:tab1]\nx : 0 1 2\ny : 0 1 2\nxy : 0 1 2 3\n",
  "x y length mismatch": "[Table-Form:tab1]\nx : 0 1 2\ny : 0 1\n",
  "x bad float": "[Table-Form:tab1]\nx : 0 a 2\ny : 0 1 b\n",
  "y bad float": "[Table-Form:tab1]\nx : 0 1 2\ny : 0 1 b\n",
  "x bad float y bad variable": "[Table-Form:tab1]\nx : 0 a 2\ny : 0 1 ${NOPE}\n",
  "x bad variable y bad float": "[Table-Form:tab1]\nx : 0 ${NOPE} 2\ny : 0 1 q\n",
  "xy bad variable": "[Table-Form:tab1]\nxy : 0 ${NOPE} 2 3\n",
  "no data": "[Table-Form:tab1]\ninterpolation : cubic_spline\n",
  "variables in data": "[Variables]\nV : 3.5\n[Table-Form:tab1]\nx : 0 1 2 ${V}\ny : ${V} 3 2 1\n",
  "variable named x": "[Variables]\nx : 0 1 2 3\n[Table-Form:tab1]\ny : 3 2 1 0\n",
  "name with spaces": "[Table-Form: tab1 ]\nxy : 0 10.0 1 8.0 2 5.0 3 2.5 4 1.0 5.1 0.0\n",
  "empty name": "[Table-Form:]\nxy : 0 10.0 1 8.0 2 5.0 3 2.5\n[Table-Form:tab1]\nxy : 0 1 2 3 4 5 6 7\n",
  "two tables": "[Table-Form:tab2]\nxy : 0 10.0 1 8.0 2 5.0 3 2.5\n[Table-Form:tab1]\nx : 0 1 2 3\ny: 7 6 5 4\n[Pair-Extra]\nA-A : tab2\n",
  "duplicate tables by whitespace": "[Table-Form:tab1]\nxy : 0 10.0 1 8.0\n[Table-Form: tab1]\nxy : 0 1 2 3\n",
  "two duplicate groups": "[Table-Form:q]\nxy : 0 1\n[Table-Form:tab1]\nxy : 0 10.0 1 8.0\n[Table-Form: tab1]\nxy : 0 1 2 3\n[Table-Form: q ]\nxy : 0 1 2 3\n[Table-Form:  tab1]\nxy : 0 1 2 3\n",
  "exact duplicate section": "[Table-Form:tab1]\nxy : 0 10.0 1 8.0\n[Table-Form:tab1]\nxy : 0 1 2 3\n",
  "lower case prefix": "[table-form:tab1]\nxy : 0 10.0 1 8.0\n",
  "prefix without colon": "[Table-Form]\nxy : 0 10.0 1 8.0\n[Table-Formula:tab1]\nxy: 1 2\n",
  "as namespace": "[Table-Form:as.buck]\nxy : 0 10.0 1 8.0 2 5.0 3 2.5\n",
  "spaced option keys": "[Table-Form:tab1]\n x y : 0 10.0 1 8.0 2 5.0 3 2.5 4 1.0\n",
}

for label, text in table_cases.items():
  full = HEAD + text
  dump_parser("table[{}]".format(label), full)
  tabulate("table[{}]".format(label), full)

for name in ["Table-Form:a", "Table-Form: a b ", "Table-Form:", "Table-Form", "table-form:a", " Table-Form:a",
             "Table-Form:a\nb", "XTable-Form:a", "Table-Form::a:b"]:
  rec("is_relevant_section {!r}".format(name), lambda: _TableFormSection.is_relevant_section(name))
  rec("_parse_name {!r}".format(name), lambda: _TableFormSection._parse_name(name))

# Section level properties -------------------------------------------------------
section_cases = {
  "pair only": u"[Pair]\nO-O = as.buck 1000.0 0.3 32.0\nU-O : as.buck 2000.0 0.2 0.0\n",
  "pair multi range": u"[Pair]\nO-O = as.buck 1000.0 0.3 32.0 >=2.0 as.zero >3 sum(as.constant 1.0, >1 as.polynomial 0 1 2)\n",
  "pair bad key": u"[Pair]\nO-O-U = as.buck 1000.0 0.3 32.0\n",
  "pair bad key 2": u"[Pair]\nOO = as.buck 1000.0 0.3 32.0\n",
  "pair bad value": u"[Pair]\nO-O = as.buck 1000.0 0.3 >\n",
  "pair duplicate reversed": u"[Pair]\nO-U = as.buck 1000.0 0.3 32.0\nU - O = as.zero\n",
  "pair duplicate spaced": u"[Pair]\nO-U = as.buck 1000.0 0.3 32.0\nO - U = as.zero\n",
  "pair empty": u"[Pair]\n",
  "potential forms": u"[Pair]\nA-B : f 1.0\n[Potential-Form]\nf(r, a) = a*r\n g( r , a,b ) = a + b*r \nh() = 2\n",
  "potential form bad signature": u"[Potential-Form]\nf r a = a*r\n",
  "potential form bad signature 2": u"[Potential-Form]\n1f(r) = r\n",
  "potential form variables": u"[Variables]\nK : 4.0\n[Potential-Form]\nf(r, a) = ${K}*a*r\ng(r) = ${MISSING}\n",
  "eam": u"[Tabulation]\ntarget : setfl\n[EAM-Embed]\nAl : as.sqrt -1.0\nCu = as.polynomial 0 1 2\n[EAM-Density]\nAl : as.exp_decay 1.0 2.0\nCu : as.zero\n[Pair]\nAl-Cu : as.zero\n[Species]\nAl.atomic_number : 13\nAl.lattice_type : fcc\nCu.atomic_mass : 63.5\nCu.custom : 1.5\n",
  "eam fs": u"[Tabulation]\ntarget : setfl_fs\n[EAM-Embed]\nAl : as.sqrt -1.0\nCu = as.polynomial 0 1 2\n[EAM-Density]\nAl->Al : as.exp_decay 1.0 2.0\nCu -> Al : as.zero\nAl->Cu : as.zero\nCu->Cu : as.constant 2.0\n[Pair]\nAl-Cu : as.zero\n",
  "eam fs mixed": u"[EAM-Embed]\nAl : as.sqrt -1.0\n[EAM-Density]\nAl : as.exp_decay 1.0 2.0\nCu->Al : as.zero\n",
  "eam fs late arrow": u"[EAM-Density]\nAl : as.exp_decay 1.0 2.0\nZr : as.zero\nCu->Al->Zr : as.zero\n",
  "eam bad value": u"[EAM-Embed]\nAl : as.sqrt -1.0 >=\n[EAM-Density]\nAl : \n",
  "orphans": u"[Pair]\nO-O = as.zero\n[Junk]\na : 1\n[Table-Form:t]\nxy : 1 2 3 4\n[tabulation]\nnr : 2\n[EAM-Density-Extra]\n[Species]\nO.charge : -2\n[Variables]\nA : 2\n",
  "species ok": u"[Species]\nAl.atomic_mass : 26.98\nAl.atomic_number : 13\nAl.covalent_radius : 1.2\nAl.lattice_constant : 4.05\nAl.charge : 3\nAl.lattice_type : fcc\nO.custom.thing : hello\n O . charge  : -2.0\nAl.other : ${Species:Al.charge}\n",
  "species bad key": u"[Species]\nAl_atomic_mass : 26.98\n",
  "species bad int": u"[Species]\nAl.atomic_number : 13.0\n",
  "species bad float": u"[Species]\nAl.charge : three\nAl.atomic_mass : x\n",
  "species empty tokens": u"[Species]\n.charge : 1.0\nAl. : 2.0\n.. : 3\n",
  "species order": u"[Species]\nB.z : 1\nA.z : 2\nB.a : 3\nA.atomic_number : 7\n",
  "nothing": u"",
  "variables only": u"[Variables]\nA : 1\n",
}

for label, text in section_cases.items():
  dump_parser("section[{}]".format(label), text)

dump_parser("section[overrides]", section_cases["eam"],
            overrides=[OT("EAM-Density", "Cu", None), OT("Species", "Al.atomic_number", "14")],
            additional=[OT("EAM-Density", "Cu->Al", "as.zero"), OT("Table-Form:extra", "xy", "1 2 3 4"), OT("Other", "k", "v")])

# Real model files ---------------------------------------------------------------------
files = sorted(glob.glob(os.path.join(ROOT, "tests", "**", "*.aspot"), recursive=True) +
               glob.glob(os.path.join(ROOT, "docs", "**", "*.aspot"), recursive=True))
for fn in files:
  rel = os.path.relpath(fn, ROOT)
  with open(fn) as infile:
    text = infile.read()
  dump_parser("file " + rel, text)
  tabulate("file " + rel, text)

digest = hashlib.sha256("\n".join(LOG).encode("utf8")).hexdigest()
if "-v" in sys.argv:
  print("\n".join(LOG))
print("records:", len(LOG))
print("DIGEST", digest)

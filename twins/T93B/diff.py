"""Differential script for twin B (spline classes of atsim.potentials.spline).

Exercises Spline_Point, Exp_Spline, Buck4_Spline, Custom_SplinePotential, SplinePotential, Buck4_SplinePotential
directly, through the as.buck4 potential-form, through the spline() modifier of the configuration files and
through writePotentials(); prints a sha256 over every value / repr / exception produced.
"""
import hashlib
import io
import sys

import atsim.potentials as ap
from atsim.potentials import potentialforms as pf
from atsim.potentials import spline as sp
from atsim.potentials.config import ConfigParser, Configuration

OUT = []


def emit(*args):
  OUT.append(" ".join(str(a) for a in args))


def safe(v):
  """repr() for plain data, the type name for anything else (default reprs contain addresses)"""
  if v is None or isinstance(v, (bool, int, float, str)):
    return repr(v)
  if isinstance(v, (tuple, list)):
    return type(v).__name__ + "(" + ",".join(safe(x) for x in v) + ")"
  return "<" + type(v).__name__ + ">"


def attempt(label, f):
  try:
    v = f()
    emit(label, "OK", safe(v))
    return v
  except BaseException as e:  # noqa
    emit(label, "EXC", type(e).__name__, str(e))


def plain_a(r):
  return 3.0 / (r + 0.5) ** 2


def plain_b(r):
  return -2.0 / (r + 1.0) ** 3


class Duck(object):
  """A spline that does not derive from anything in the library"""
  def __init__(self, dp, apt):
    self.detach_point = dp
    self.attach_point = apt
    self.spline_coefficients = (1.0, 2.0)

  def __call__(self, r):
    return 1.0 + 2.0 * r


POTS = {
  "zbl": pf.zbl(92, 8),
  "buck": pf.buck(1761.775, 0.35642, 0.0),
  "buckC": pf.buck(9547.96, 0.2192, 32.0),
  "bm": pf.bornmayer(1000.0, 0.3),
  "disp": pf.buck(0.0, 1.0, 30.0),
  "lj": pf.lj(0.05, 2.8),
  "neg": pf.constant(-3.0),
  "morse": pf.morse(1.5, 2.1, 0.4),
  "plain_a": plain_a,
  "plain_b": plain_b,
  "plus": ap.plus(pf.bornmayer(800.0, 0.31), pf.constant(0.25)),
}

GRID = [0.0, 0.05, 0.3, 0.6, 0.8, 0.99, 1.0, 1.2, 1.4, 1.41, 1.7, 1.8, 2.0, 2.4999, 2.5, 2.6, 3.1, 5.0, 9.75]

CASES = [
  ("zbl", "buck", 0.6, 1.2, None),
  ("zbl", "buck", 0.8, 1.4, None),
  ("bm", "disp", 1.0, 2.5, 1.8),
  ("bm", "disp", 1.2, 2.6, 2.0),
  ("plain_a", "plain_b", 0.8, 1.7, None),
  ("plain_a", "plain_b", 0.8, 1.7, 1.2),
  ("plain_a", "buckC", 0.3, 1.41, None),
  ("lj", "neg", 3.1, 5.0, None),
  ("neg", "morse", 1.0, 2.0, 1.4),
  ("plus", "lj", 0.99, 2.4999, None),
  ("plus", "lj", 0.99, 2.4999, 1.7),
  ("zbl", "buck", 1.2, 1.2, None),     # degenerate: singular matrix
  ("zbl", "buck", 1.4, 0.8, None),     # reversed
  ("bm", "disp", 1.0, 2.5, 3.0),       # r_min outside
]


def describe_point(label, pt):
  attempt(label + ".r", lambda: pt.r)
  attempt(label + ".v", lambda: pt.v)
  attempt(label + ".deriv", lambda: pt.deriv)
  attempt(label + ".deriv2", lambda: pt.deriv2)
  attempt(label + ".callables", lambda: (pt.deriv_callable(1.3), pt.deriv2_callable(1.3), pt.potential_function(1.3)))
  attempt(label + ".set_r", lambda: setattr(pt, "r", 1.0))


def describe_spline(label, s):
  emit(label, "type", type(s).__name__, isinstance(s, (sp.Exp_Spline, sp.Buck4_Spline)))
  attempt(label + ".coeff", lambda: s.spline_coefficients)
  attempt(label + ".points", lambda: (s.detach_point.r, s.attach_point.r, s.detach_point.v, s.attach_point.v))
  attempt(label + ".r_min", lambda: s.r_min)
  attempt(label + ".set_detach", lambda: setattr(s, "detach_point", None))
  attempt(label + ".set_attach", lambda: setattr(s, "attach_point", None))
  attempt(label + ".set_coeff", lambda: setattr(s, "spline_coefficients", None))
  attempt(label + ".del_detach", lambda: delattr(s, "detach_point"))
  for r in GRID:
    attempt(label + ".at %r" % r, lambda: (s(r), s.deriv(r), s.deriv2(r)))
  emit(label, "attrs", sorted(k for k in vars(s)))
  emit(label, "public", sorted(n for n in dir(s) if not n.startswith("_")))


def describe_potential(label, p):
  emit(label, "type", type(p).__name__, isinstance(p, sp.Custom_SplinePotential), hasattr(p, "deriv"), hasattr(p, "deriv2"))
  attempt(label + ".props", lambda: (p.detachmentX, p.attachmentX, p.splineCoefficients))
  attempt(label + ".funcs", lambda: (p.startPotential(1.1), p.endPotential(1.1), p.interpolationFunction(1.1)))
  for r in GRID:
    attempt(label + ".call %r" % r, lambda: p(r))
    attempt(label + ".deriv %r" % r, lambda: p.deriv(r))
    attempt(label + ".deriv2 %r" % r, lambda: p.deriv2(r))
    attempt(label + ".grad %r" % r, lambda: (ap.gradient(p)(r), ap.Potential("A", "B", p).force(r)))
  emit(label, "public", sorted(n for n in dir(p) if not n.startswith("_")))


for (a, b, dx, ax, rmin) in CASES:
  label = "%s>%s[%s,%s,%s]" % (a, b, dx, ax, rmin)
  fa, fb = POTS[a], POTS[b]
  dpt = attempt(label + ".dpt", lambda: sp.Spline_Point(fa, dx))
  apt = sp.Spline_Point(fb, ax)
  describe_point(label + ".detach", dpt)
  describe_point(label + ".attach", apt)
  if rmin is None:
    s = attempt(label + ".spline", lambda: sp.Exp_Spline(dpt, apt))
    mk = lambda: sp.SplinePotential(fa, fb, dx, ax)
  else:
    s = attempt(label + ".spline", lambda: sp.Buck4_Spline(dpt, apt, rmin))
    mk = lambda: sp.Buck4_SplinePotential(fa, fb, dx, ax, rmin)
  if s is not None:
    describe_spline(label + ".S", s)
    attempt(label + ".spline5/3", lambda: (s.spline5.args, s.spline3.args))
    describe_potential(label + ".C", sp.Custom_SplinePotential(s))
  try:
    p = mk()
  except BaseException as e:  # noqa
    emit(label, "P EXC", type(e).__name__, str(e))
  else:
    describe_potential(label + ".P", p)

# a spline object which does not come from the library
duck = Duck(sp.Spline_Point(plain_a, 1.0), sp.Spline_Point(POTS["buck"], 2.0))
describe_potential("duck", sp.Custom_SplinePotential(duck))

# bad construction
attempt("bad.exp.noargs", lambda: sp.Exp_Spline())
attempt("bad.exp.one", lambda: sp.Exp_Spline(duck.detach_point))
attempt("bad.exp.three", lambda: sp.Exp_Spline(duck.detach_point, duck.attach_point, 1.5))
attempt("bad.exp.kw", lambda: sp.Exp_Spline(detach_point=duck.detach_point, attach_point=duck.attach_point).spline_coefficients)
attempt("bad.b4.two", lambda: sp.Buck4_Spline(duck.detach_point, duck.attach_point))
attempt("bad.b4.kw", lambda: sp.Buck4_Spline(r_min=1.5, attach_point=duck.attach_point, detach_point=duck.detach_point).spline_coefficients)
attempt("bad.exp.none", lambda: sp.Exp_Spline(None, None))
attempt("bad.b4.none", lambda: sp.Buck4_Spline(None, duck.attach_point, 1.0))
attempt("bad.sp.four", lambda: sp.SplinePotential(plain_a, plain_b, 1.0))
attempt("bad.b4p.four", lambda: sp.Buck4_SplinePotential(plain_a, plain_b, 1.0, 2.0))
attempt("bad.custom.none", lambda: sp.Custom_SplinePotential(None))
attempt("bad.point.str", lambda: sp.Spline_Point(plain_a, "x").v)

# the as.buck4 potential form
for args in [(11272.6, 0.1363, 134.0, 1.2, 2.1, 2.6), (1000.0, 0.3, 30.0, 1.0, 1.8, 2.5), (1000.0, 0.3, 30.0, 1.0, 2.8, 2.5), (1.0, 2.0)]:
  def b4():
    f = pf.buck4(*args)
    return (f.splineCoefficients, [f(r) for r in GRID[1:]], [f.deriv(r) for r in GRID[1:]], [f.deriv2(r) for r in GRID[1:]])
  attempt("buck4 %r" % (args,), b4)

# writePotentials in the three formats
for fmt in ("LAMMPS", "DL_POLY", "GULP", "nonsuch"):
  def wp():
    pots = [ap.Potential("U", "O", sp.SplinePotential(POTS["zbl"] if fmt == "LAMMPS" else POTS["plus"], POTS["buck"], 0.6, 1.2)),
            ap.Potential("O", "O", sp.Buck4_SplinePotential(POTS["bm"], POTS["disp"], 1.0, 2.5, 1.8)),
            ap.Potential("Gd", "O", sp.Custom_SplinePotential(sp.Exp_Spline(sp.Spline_Point(plain_a, 0.8), sp.Spline_Point(plain_b, 1.7))))]
    sio = io.StringIO()
    ap.writePotentials(fmt, pots, 6.5, 160, sio)
    return (len(sio.getvalue()), hashlib.sha256(sio.getvalue().encode()).hexdigest())
  attempt("writePotentials " + fmt, wp)

# configuration files
CFG = """[Tabulation]
target : {target}
cutoff : 5.0
nr : {nr}
[Pair]
A-B : spline(>0 as.zbl 14 8 >=0.8 exp_spline >=1.4 as.buck 180003 0.3 32.0)
B-B : spline(>0 as.bornmayer 1000 0.3 >=1.0 buck4_spline 1.8 >=2.5 as.buck 0 1 30.0)
A-A : as.buck4 11272.6 0.1363 134.0 1.2 2.1 2.6
C-A : spline(>0 sum(as.bornmayer 500 0.3, as.constant 1.0) >=1.1 exp_spline >=2.2 as.lj 0.1 2.0)
{extra}
"""
BAD = [
  "D-D : spline(>0 as.bornmayer 1000 0.3 >=1.0 buck4_spline 3.8 >=2.5 as.buck 0 1 30.0)",
  "D-D : spline(>0 as.bornmayer 1000 0.3 >=1.0 buck4_spline >=2.5 as.buck 0 1 30.0)",
  "D-D : spline(>0 as.bornmayer 1000 0.3 >=1.0 exp_spline 1.0 >=2.5 as.buck 0 1 30.0)",
  "D-D : spline(>0 as.bornmayer 1000 0.3 >=2.0 exp_spline >=1.5 as.buck 0 1 30.0)",
  "D-D : spline(>0 as.bornmayer 1000 0.3 >=1.0 exp_spline >=1.0 as.buck 0 1 30.0)",
  "D-D : spline(as.bornmayer 1000 0.3, as.zero)",
]
for target in ("LAMMPS", "DLPOLY", "GULP"):
  for nr in (11, 64):
    for extra in [""] + BAD:
      def cfg():
        tab = Configuration().read_from_parser(ConfigParser(io.StringIO(CFG.format(target=target, nr=nr, extra=extra))))
        sio = io.StringIO()
        tab.write(sio)
        return (len(sio.getvalue()), hashlib.sha256(sio.getvalue().encode()).hexdigest())
      attempt("cfg %s %s %r" % (target, nr, extra), cfg)

for fn in ("docs/user_guide/example_files/exp_spline.aspot", "docs/user_guide/example_files/morelon_buck4_spline.aspot",
           "docs/user_guide/example_files/morelon_buck4.aspot", "tests/lammps_resources/zbl_spline.aspot"):
  def shipped():
    with open(fn) as fp:
      tab = Configuration().read(fp)
    sio = io.StringIO()
    tab.write(sio)
    return (len(sio.getvalue()), hashlib.sha256(sio.getvalue().encode()).hexdigest())
  attempt("file " + fn, shipped)

blob = "\n".join(OUT)
if len(sys.argv) > 1:
  with open(sys.argv[1], "w") as fp:
    fp.write(blob + "\n")
print("lines", len(OUT), "exceptions", sum(1 for l in OUT if " EXC " in l))
print("DIGEST", hashlib.sha256(blob.encode("utf-8")).hexdigest())

# ---------------------------------------------------------------------------
# Shared fixture code (copied verbatim into every diffX.py so that each script
# is self contained).
# ---------------------------------------------------------------------------
import hashlib
import io
import math
import sys

from atsim.potentials import EAMPotential, Potential
from atsim.potentials import writeFuncFL, writeSetFL, writeSetFLFinnisSinclair
from atsim.potentials import writeTABEAM, writeTABEAMFinnisSinclair
from atsim.potentials import eam_tabulation
from atsim.potentials.config import Configuration


class RecordingFile(object):
  """File like object remembering every chunk passed to write()."""

  def __init__(self):
    self.chunks = []

  def write(self, s):
    if not isinstance(s, str):
      raise TypeError("string argument expected, got %r" % type(s).__name__)
    self.chunks.append(s)
    return len(s)

  def getvalue(self):
    return "".join(self.chunks)


RESULTS = []


def record(label, thunk):
  """Run thunk(out), store (label, outcome) where outcome is made of plain data only"""
  out = RecordingFile()
  try:
    retval = thunk(out)
    outcome = ("ok", repr(retval), len(out.chunks), hashlib.sha256(out.getvalue().encode("utf-8")).hexdigest(),
               hashlib.sha256(repr(out.chunks).encode("utf-8")).hexdigest())
  except Exception as e:  # noqa
    outcome = ("exc", type(e).__name__, str(e), len(out.chunks), hashlib.sha256(repr(out.chunks).encode("utf-8")).hexdigest())
  RESULTS.append((label, outcome))
  print("%-58s %s" % (label, hashlib.sha256(repr(outcome).encode("utf-8")).hexdigest()[:16]), outcome[0], outcome[1] if outcome[0] == "exc" else "")


def finish():
  print("TOTAL_CASES", len(RESULTS))
  print("DIGEST", hashlib.sha256(repr(RESULTS).encode("utf-8")).hexdigest())


# -- python level models ------------------------------------------------------
def embed_sqrt(a):
  def f(rho):
    return -a * math.sqrt(rho)
  return f

def embed_poly(a, b):
  def f(rho):
    return a * rho - b * rho ** 2 + 1e-7 * rho ** 3
  return f

def dens_exp(a, b):
  def f(r):
    return a * math.exp(-b * r)
  return f

def dens_pow(a, n):
  def f(r):
    if r == 0.0:
      return 0.0
    return (a / r) ** n
  return f

def pair_buck(A, rho, C):
  def f(r):
    if r == 0.0:
      return 0.0
    return A * math.exp(-r / rho) - C / r ** 6
  return f

def pair_morse(D, g, r0):
  def f(r):
    return D * (math.exp(-2.0 * g * (r - r0)) - 2.0 * math.exp(-g * (r - r0)))
  return f

def bad_log(r):
  # raises ValueError (math domain error) at r == 0.0
  return math.log(r)

def bad_after(limit):
  def f(r):
    if r > limit:
      raise RuntimeError("function evaluated beyond %r" % limit)
    return 1.0 / (1.0 + r)
  return f


def model_single():
  eam = [EAMPotential("Ag", 47, 107.8682, embed_sqrt(2.5415e-3 * 144.41), dens_pow(4.09, 6), 4.09, "fcc")]
  pair = [Potential("Ag", "Ag", pair_morse(0.3, 1.4, 2.9))]
  return eam, pair

def model_binary(order=("Al", "Cu"), drop=None, pairorder=0):
  table = {
    "Al": EAMPotential("Al", 13, 26.98, embed_poly(0.7, 0.003), dens_exp(1.3, 1.1), 4.05, "fcc"),
    "Cu": EAMPotential("Cu", 29, 63.55, embed_sqrt(1.9), dens_exp(2.1, 0.9), 3.61, "fcc")}
  pairs = [
    Potential("Al", "Al", pair_morse(0.27, 1.16, 3.25)),
    Potential("Cu", "Al", pair_buck(1200.0, 0.31, 11.0)),
    Potential("Cu", "Cu", pair_morse(0.34, 1.36, 2.87))]
  if pairorder:
    pairs = pairs[pairorder:] + pairs[:pairorder]
  if drop is not None:
    pairs = [p for p in pairs if sorted([p.speciesA, p.speciesB]) != sorted(drop)]
  return [table[s] for s in order], pairs

def model_ternary(order=("Zr", "Al", "Cu")):
  table = {
    "Al": EAMPotential("Al", 13, 26.98, embed_poly(0.7, 0.003), dens_exp(1.3, 1.1), 4.05, "fcc"),
    "Cu": EAMPotential("Cu", 29, 63.55, embed_sqrt(1.9), dens_exp(2.1, 0.9), 3.61, "fcc"),
    "Zr": EAMPotential("Zr", 40, 91.224, embed_poly(1.1, 0.0007), dens_pow(3.2, 4), 3.23, "hcp")}
  pairs = [
    Potential("Zr", "Cu", pair_buck(900.0, 0.33, 3.0)),
    Potential("Al", "Al", pair_morse(0.27, 1.16, 3.25)),
    Potential("Zr", "Zr", pair_morse(0.7, 1.2, 3.1)),
    Potential("Al", "Cu", pair_buck(1200.0, 0.31, 11.0)),
    # duplicate definition: last one wins
    Potential("Cu", "Zr", pair_buck(950.0, 0.30, 2.0))]
  return [table[s] for s in order], pairs

def model_fs(order=("Al", "Fe"), missing=None, extra=False):
  dens = {
    ("Al", "Al"): dens_exp(1.3, 1.1), ("Al", "Fe"): dens_exp(0.4, 1.7),
    ("Fe", "Al"): dens_pow(2.2, 4), ("Fe", "Fe"): dens_exp(2.9, 1.3),
    ("Al", "Ni"): dens_exp(0.1, 0.2), ("Fe", "Ni"): dens_exp(0.2, 0.3),
    ("Ni", "Al"): dens_exp(0.3, 0.4), ("Ni", "Fe"): dens_exp(0.4, 0.5), ("Ni", "Ni"): dens_pow(2.0, 5)}
  embeds = {"Al": embed_poly(0.7, 0.003), "Fe": embed_sqrt(1.0), "Ni": embed_sqrt(1.7)}
  numbers = {"Al": (13, 26.98, 4.05, "fcc"), "Fe": (26, 55.845, 2.87, "bcc"), "Ni": (28, 58.69, 3.52, "fcc")}
  species = list(order)
  eam = []
  for a in species:
    # insertion order of the density dictionary deliberately reversed
    others = list(reversed(species))
    if extra:
      others = others + [s for s in ("Ni",) if s not in others]
    d = {}
    for b in others:
      if missing == (a, b):
        continue
      d[b] = dens[(a, b)]
    z, m, lc, lt = numbers[a]
    eam.append(EAMPotential(a, z, m, embeds[a], d, lc, lt))
  pairs = [
    Potential("Fe", "Al", pair_buck(1000.0, 0.3, 5.0)),
    Potential("Fe", "Fe", pair_morse(0.41, 1.39, 2.85)),
    Potential("Al", "Al", pair_morse(0.27, 1.16, 3.25)),
    Potential("Ni", "Ni", pair_morse(0.42, 1.42, 2.78))]
  return eam, pairs


# -- .ini level models ----------------------------------------------------------
INI_BODY_EAM = u"""
[Pair]
Al-Al = as.morse 1.16 3.25 0.27
Cu-Al = as.buck 1200.0 0.31 11.0
Cu-Cu = as.morse 1.36 2.87 0.34

[EAM-Embed]
Cu = as.sqrt -1.9
Al = as.polynomial 0.0 0.7 -0.003

[EAM-Density]
Cu = dens 2.1 0.9
Al = dens 1.3 1.1

[Potential-Form]
dens(r, A, B) = A*exp(-B*r)
"""

INI_BODY_FS = u"""
[Pair]
Fe-Al = as.buck 1000.0 0.3 5.0
Fe-Fe = as.morse 1.39 2.85 0.41
Al-Al = as.morse 1.16 3.25 0.27

[EAM-Embed]
Fe = as.sqrt -1.0
Al = as.polynomial 0.0 0.7 -0.003

[EAM-Density]
Fe->Fe = dens 2.9 1.3
Al->Fe = dens 0.4 1.7
Fe->Al = dens 2.2 0.8
Al->Al = dens 1.3 1.1

[Potential-Form]
dens(r, A, B) = A*exp(-B*r)
"""

INI_BODY_ADP = INI_BODY_EAM + u"""
[EAM-ADP-Dipole]
Al-Cu = dens 0.1 0.5
Cu-Cu = as.zero

[EAM-ADP-Quadrupole]
Al-Al = dens 0.2 0.7
Cu-Al = dens 0.3 0.4
"""

def ini(target, body, nr=17, nrho=13, cutoff=6.0, cutoff_rho=40.0):
  return u"[Tabulation]\ntarget : %s\nnr : %d\nnrho : %d\ncutoff : %s\ncutoff_rho : %s\n%s" % (target, nr, nrho, cutoff, cutoff_rho, body)

def read_ini(text):
  return Configuration().read(io.StringIO(text))

def workbook_dump(wb):
  dump = []
  for ws in wb.worksheets:
    rows = [tuple(repr(c) for c in row) for row in ws.iter_rows(values_only=True)]
    dump.append((ws.title, rows))
  return dump
# ---------------------------------------------------------------------------
# Twin C: atsim/potentials/_dlpoly_writeTABEAM.py
#         (writeTABEAM, writeTABEAMFinnisSinclair, _tabulateFunction and helpers)
# ---------------------------------------------------------------------------
ET = eam_tabulation
from atsim.potentials._dlpoly_writeTABEAM import _tabulateFunction

GRIDS = [(13, 3.0, 17, 0.375), (4, 1.0, 6, 1.1), (2, 10.0, 2, 7.25), (31, 3.3, 23, 0.18), (8, 0.5, 12, 0.25),
         (1, 1.0, 1, 1.0), (0, 1.0, 0, 1.0), (3, 0.5, 0, 1.0), (0, 0.5, 3, 1.0), (5, 2, 9, 1)]

TITLES = [None, "", "TABEAM for Al/Cu", "x" * 99, "y" * 100, "z" * 101, "w" * 250, "two\nlines", 12, None.__class__, u"Å units"]

plain_models = [
  ("single", model_single()),
  ("binary", model_binary()),
  ("binary-rev-drop", model_binary(order=("Cu", "Al"), drop=("Al", "Cu"), pairorder=1)),
  ("binary-nopairs", (model_binary()[0], [])),
  ("binary-tuple", tuple(tuple(x) for x in model_binary())),
  ("ternary", model_ternary()),
  ("ternary-sorted", model_ternary(order=("Al", "Cu", "Zr"))),
  ("ternary-otherorder", model_ternary(order=("Cu", "Zr", "Al"))),
  ("dict-density", model_fs()),
  ("empty", ([], []))]

fs_models = [
  ("fs", model_fs()),
  ("fs-rev", model_fs(order=("Fe", "Al"))),
  ("fs-3", model_fs(order=("Ni", "Al", "Fe"))),
  ("fs-3b", model_fs(order=("Fe", "Ni", "Al"))),
  ("fs-extra", model_fs(extra=True)),
  ("fs-missing", model_fs(missing=("Fe", "Al"))),
  ("fs-missing-self", model_fs(order=("Fe", "Al"), missing=("Al", "Al"))),
  ("fs-missing-first", model_fs(order=("Fe", "Al"), missing=("Fe", "Al"))),
  ("fs-notdict", model_binary()),
  ("fs-empty", ([], []))]

def tabeam_case(label, func, model, grid, **kwargs):
  eam, pair = model
  nrho, drho, nr, dr = grid
  record(label, lambda out: func(nrho, drho, nr, dr, eam, pair, out=out, **kwargs))

for fname, func, models in [("writeTABEAM", writeTABEAM, plain_models), ("writeTABEAMFinnisSinclair", writeTABEAMFinnisSinclair, fs_models)]:
  for mname, model in models:
    for g in GRIDS:
      tabeam_case("C/%s/%s/%r" % (fname, mname, g), func, model, g)
  model = models[1][1]
  for t in TITLES:
    kw = {} if t is None else {"title": t}
    tabeam_case("C/%s/title=%r" % (fname, t if not isinstance(t, str) else t[:12] + "(%d)" % len(t)), func, model, GRIDS[1], **kw)
  # odd grid arguments
  tabeam_case("C/%s/float-n" % fname, func, model, (4.7, 1.0, 6.2, 1.1))
  tabeam_case("C/%s/str-drho" % fname, func, model, (4, "1.0", 6, 1.1))
  tabeam_case("C/%s/str-dr" % fname, func, model, (4, 1.0, 6, "1.1"))
  tabeam_case("C/%s/None-nr" % fname, func, model, (4, 1.0, None, 1.1))
  tabeam_case("C/%s/None-nrho" % fname, func, model, (None, 1.0, 6, 1.1))
  tabeam_case("C/%s/None-eam" % fname, func, (None, model[1]), GRIDS[1])
  tabeam_case("C/%s/None-pair" % fname, func, (model[0], None), GRIDS[1])
  tabeam_case("C/%s/iter-eam" % fname, func, (iter(model[0]), model[1]), GRIDS[1])
  tabeam_case("C/%s/iter-pair" % fname, func, (model[0], iter(model[1])), GRIDS[1])
  tabeam_case("C/%s/gen-pair" % fname, func, (model[0], (p for p in model[1])), GRIDS[1])

def failing_binary(where):
  eam, pair = model_binary()
  if where == "embed":
    eam[1].embeddingFunction = bad_after(20.0)
  elif where == "embed0":
    eam[0].embeddingFunction = bad_log
  elif where == "density":
    eam[0].electronDensityFunction = bad_after(3.0)
  elif where == "pair":
    pair[2] = Potential("Cu", "Cu", bad_after(4.0))
  elif where == "notcallable":
    eam[1].electronDensityFunction = 3.0
  elif where == "nospecies":
    del eam[1].species
  elif where == "noembed":
    del eam[1].embeddingFunction
  elif where == "nodensity":
    del eam[0].electronDensityFunction
  elif where == "intspecies":
    eam[0].species = 13
  elif where == "mixedspecies":
    eam[0].species = 13
    pair[:] = []
  elif where == "pair-noenergy":
    class P(object):
      speciesA = "Al"
      speciesB = "Al"
    pair[0] = P()
  elif where == "pair-nospecies":
    pair[0] = object()
  elif where == "pair-none-result":
    pair[0] = Potential("Al", "Al", lambda r: None)
  elif where == "embed-str-result":
    eam[0].embeddingFunction = lambda rho: "1.0"
  elif where == "embed-stopiteration":
    eam[0].embeddingFunction = lambda rho: next(iter(()))
  elif where == "density-stopiteration":
    eam[1].electronDensityFunction = lambda r: next(iter(()))
  elif where == "pair-stopiteration":
    pair[0] = Potential("Al", "Al", lambda r: next(iter(())))
  elif where == "pair-keyerror":
    def f(r):
      raise KeyError("from potential function")
    pair[0] = Potential("Al", "Al", f)
  return eam, pair

FAILS = ("embed", "embed0", "density", "pair", "notcallable", "nospecies", "noembed", "nodensity", "intspecies", "mixedspecies",
         "pair-noenergy", "pair-nospecies", "pair-none-result", "embed-str-result",
         "embed-stopiteration", "density-stopiteration", "pair-stopiteration", "pair-keyerror")
for where in FAILS:
  for g in (GRIDS[0], GRIDS[6]):
    tabeam_case("C/writeTABEAM/fail-%s/%r" % (where, g), writeTABEAM, failing_binary(where), g)

def failing_fs(where):
  eam, pair = model_fs()
  if where == "density":
    eam[1].electronDensityFunction["Al"] = bad_after(3.0)
  elif where == "nospecies":
    del eam[1].species
  elif where == "nodensity":
    del eam[1].electronDensityFunction
  elif where == "embed":
    eam[1].embeddingFunction = bad_after(20.0)
  elif where == "pair":
    pair[1] = Potential("Fe", "Fe", bad_after(4.0))
  elif where == "density-stopiteration":
    eam[1].electronDensityFunction["Al"] = lambda r: next(iter(()))
  elif where == "density-keyerror":
    def f(r):
      raise KeyError("from density function")
    eam[1].electronDensityFunction["Al"] = f
  elif where == "density-list":
    eam[0].electronDensityFunction = [dens_exp(1.0, 1.0)]
  elif where == "density-defaultdict":
    import collections
    d = collections.defaultdict(lambda: dens_exp(0.5, 0.5))
    d["Al"] = dens_exp(1.0, 1.0)
    eam[0].electronDensityFunction = d
  elif where == "density-indexerror":
    class D(object):
      def __getitem__(self, k):
        raise IndexError(k)
    eam[0].electronDensityFunction = D()
  elif where == "density-keyerror-subclass":
    class MyKeyError(KeyError):
      pass
    class D(object):
      def __getitem__(self, k):
        raise MyKeyError(k)
    eam[0].electronDensityFunction = D()
  return eam, pair
for where in ("density", "nospecies", "nodensity", "embed", "pair", "density-stopiteration", "density-keyerror", "density-list",
              "density-defaultdict", "density-indexerror", "density-keyerror-subclass"):
  for g in (GRIDS[0], GRIDS[6]):
    tabeam_case("C/writeTABEAMFinnisSinclair/fail-%s/%r" % (where, g), writeTABEAMFinnisSinclair, failing_fs(where), g)

# _tabulateFunction is used directly by the project's own test-suite
def tabfunc_case(label, func, n, step):
  record(label, lambda out: _tabulateFunction(out, func, n, step))
for n in (0, 1, 2, 3, 4, 5, 7, 8, 9, 12, 13):
  for step in (1.0, 0.1, 3):
    tabfunc_case("C/_tabulateFunction/%d/%r" % (n, step), lambda x: x * x - 2.5, n, step)
tabfunc_case("C/_tabulateFunction/int-values", lambda x: int(x), 6, 1.0)
tabfunc_case("C/_tabulateFunction/str-values", lambda x: "1.0", 6, 1.0)
tabfunc_case("C/_tabulateFunction/raises", bad_after(2.0), 9, 0.5)
tabfunc_case("C/_tabulateFunction/raises-at-0", bad_log, 9, 0.5)
tabfunc_case("C/_tabulateFunction/stopiteration", lambda x: next(iter(())), 9, 0.5)
tabfunc_case("C/_tabulateFunction/float-n", lambda x: x, 4.0, 0.5)
tabfunc_case("C/_tabulateFunction/str-step", lambda x: x, 4, "0.5")
tabfunc_case("C/_tabulateFunction/not-callable", 4.0, 4, 0.5)
tabfunc_case("C/_tabulateFunction/not-callable-n0", 4.0, 0, 0.5)
def to_bytesio(out):
  return _tabulateFunction(io.BytesIO(), lambda x: x, 4, 0.5)
record("C/_tabulateFunction/bytesio", to_bytesio)
def to_stringio(out):
  s = io.StringIO()
  _tabulateFunction(s, lambda x: x, 6, 0.5)
  _tabulateFunction(s, lambda x: -x, 3, 0.5)
  return s.getvalue()
record("C/_tabulateFunction/stringio", to_stringio)

# Tabulation classes and .ini level (potable code path)
for cls, models in [(ET.TABEAM_EAMTabulation, plain_models), (ET.TABEAM_FinnisSinclair_EAMTabulation, fs_models)]:
  for mname, model in models:
    for g in [(6.0, 17, 40.0, 13), (5.5, 6, 3.0, 4)]:
      eam, pair = model
      record("C/%s/%s/%r" % (cls.__name__, mname, g), lambda out: cls(pair, eam, *g).write(out))

for tgt, body in [("DL_POLY_EAM", INI_BODY_EAM), ("DL_POLY_EAM_fs", INI_BODY_FS)]:
  for kw in (dict(), dict(nr=8, nrho=5, cutoff=4.5, cutoff_rho=7.0), dict(nr=100, nrho=51, cutoff=9.0, cutoff_rho=300.0)):
    def thunk(out, tgt=tgt, body=body, kw=kw):
      tab = read_ini(ini(tgt, body, **kw))
      return tab.write(out)
    record("C/ini/%s/%r" % (tgt, sorted(kw.items())), thunk)

finish()

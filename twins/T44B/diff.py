"""Differential script for twin B.

Exercises the atsim.potentials.plus / product / pow combinators (directly and via the
sum() / product() / pow() configuration-file modifiers) for callables with every
combination of analytic-derivative capability, and prints a sha256 digest of
everything that was observed.
"""
from __future__ import print_function

import hashlib
import io
import itertools
import math
import os

import atsim.potentials as ap
from atsim.potentials import potentialforms as pforms
from atsim.potentials import gradient, Potential
from atsim.potentials.config import Configuration

LOG = []


def rec(*items):
  LOG.append(" | ".join(str(i) for i in items))


def attempt(label, f, *args, **kwargs):
  try:
    v = f(*args, **kwargs)
    rec(label, "OK", repr(v))
    return v
  except Exception as e:  # noqa
    rec(label, "EXC", type(e).__name__, str(e))
    return None


RS = [0.4, 0.9, 1.0, 1.6, 2.75, 4.2, 9.5]

# Order in which capability probes (attribute look-ups) hit the operands is recorded too.
PROBES = []


class Probe(object):
  """Callable which records every look-up of deriv/deriv2 that is made on it."""

  def __init__(self, label, f, d=None, d2=None):
    self._label = label
    self._f = f
    self._d = d
    self._d2 = d2

  def __call__(self, r):
    return self._f(r)

  def __getattr__(self, name):
    if name in ("deriv", "deriv2"):
      PROBES.append((self._label, name))
      v = self.__dict__.get("_d" if name == "deriv" else "_d2")
      if v is None:
        raise AttributeError(name)
      return v
    raise AttributeError(name)


def no_deriv(r):
  return 1.5 + 0.25 * r**2


def make_operands():
  ops = []
  ops.append(("plainfunc", no_deriv))
  ops.append(("lambda", lambda r: 2.0 + math.sin(r)))
  ops.append(("probe-none", Probe("pn", lambda r: 1.0 + r)))
  ops.append(("probe-d", Probe("pd", lambda r: 1.0 + r**2, lambda r: 2.0 * r)))
  ops.append(("probe-d-d2", Probe("pdd", lambda r: 2.0 + r**3, lambda r: 3.0 * r**2, lambda r: 6.0 * r)))
  ops.append(("probe-d2only", Probe("pd2", lambda r: 3.0 + r**2, None, lambda r: 2.0 + 100.0)))
  ops.append(("buck", pforms.buck(1000.0, 0.3, 32.0)))
  ops.append(("bornmayer", pforms.bornmayer(1761.775, 0.35642)))
  ops.append(("constant", pforms.constant(2.0)))
  ops.append(("poly", pforms.polynomial(1.0, -3.0, 0.5)))
  ops.append(("morse", pforms.morse(1.2, 1.8, 0.6)))
  ops.append(("zero", pforms.zero()))
  ops.append(("exponential", pforms.exponential(3.0, 2.5)))
  ops.append(("grad-of-buck", gradient(pforms.buck(1000.0, 0.3, 32.0))))
  ops.append(("grad-of-plain", gradient(no_deriv)))
  return ops


COMBINATORS = [("plus", ap.plus), ("product", ap.product), ("pow", ap.pow)]


def observe(label, f):
  rec("caps", label, hasattr(f, "deriv"), hasattr(f, "deriv2"), callable(f), type(f).__name__)
  g = gradient(f)
  gg = gradient(g)
  rec("grad-caps", label, hasattr(g, "deriv"), hasattr(gg, "deriv"))
  pot = Potential("X", "Y", f)
  for r in RS:
    attempt("%s (r=%r)" % (label, r), f, r)
    if hasattr(f, "deriv"):
      attempt("%s .deriv(r=%r)" % (label, r), f.deriv, r)
    if hasattr(f, "deriv2"):
      attempt("%s .deriv2(r=%r)" % (label, r), f.deriv2, r)
    attempt("%s grad(r=%r)" % (label, r), g, r)
    attempt("%s gradgrad(r=%r)" % (label, r), gg, r)
    attempt("%s force(r=%r)" % (label, r), pot.force, r)


# every ordered pair of operands, through every combinator
for cname, comb in COMBINATORS:
  ops = make_operands()
  for (na, a), (nb, b) in itertools.product(ops, ops):
    del PROBES[:]
    label = "%s(%s,%s)" % (cname, na, nb)
    try:
      f = comb(a, b)
    except Exception as e:  # noqa
      rec(label, "construct-EXC", type(e).__name__, str(e))
      continue
    rec("probes-at-construction", label, list(PROBES))
    del PROBES[:]
    observe(label, f)
    rec("probes-during-use", label, len(PROBES), list(PROBES)[:12])

# nesting: combinators of combinators (as functools.reduce does for the modifiers)
ops = dict(make_operands())
nested = [
    ("plus(plus(buck,plain),constant)", lambda: ap.plus(ap.plus(ops["buck"], ops["plainfunc"]), ops["constant"])),
    ("plus(plain,plus(plain,lambda))", lambda: ap.plus(ops["plainfunc"], ap.plus(ops["plainfunc"], ops["lambda"]))),
    ("product(plus(buck,morse),poly)", lambda: ap.product(ap.plus(ops["buck"], ops["morse"]), ops["poly"])),
    ("product(product(constant,plain),probe-d)", lambda: ap.product(ap.product(ops["constant"], ops["plainfunc"]), ops["probe-d"])),
    ("pow(plus(buck,constant),constant)", lambda: ap.pow(ap.plus(ops["buck"], ops["constant"]), ops["constant"])),
    ("pow(pow(plain,constant),poly)", lambda: ap.pow(ap.pow(ops["plainfunc"], ops["constant"]), ops["poly"])),
    ("plus(pow(probe-d-d2,constant),product(probe-d,probe-none))",
     lambda: ap.plus(ap.pow(ops["probe-d-d2"], ops["constant"]), ap.product(ops["probe-d"], ops["probe-none"]))),
    ("plus(probe-d2only,probe-d2only)", lambda: ap.plus(ops["probe-d2only"], ops["probe-d2only"])),
    ("pow(zero,zero)", lambda: ap.pow(ops["zero"], ops["zero"])),
    ("pow(buck,morse) [log of negative]", lambda: ap.pow(ops["morse"], ops["buck"])),
]
for label, mk in nested:
  del PROBES[:]
  try:
    f = mk()
  except Exception as e:  # noqa
    rec(label, "construct-EXC", type(e).__name__, str(e))
    continue
  rec("probes-at-construction", label, list(PROBES))
  observe(label, f)

# bad operands
for cname, comb in COMBINATORS:
  for label, a, b in [("None,None", None, None), ("float,buck", 1.0, ops["buck"]), ("buck,str", ops["buck"], "abc"), ("plain,int", no_deriv, 3)]:
    try:
      f = comb(a, b)
      rec("bad", cname, label, "constructed", hasattr(f, "deriv"), hasattr(f, "deriv2"))
    except Exception as e:  # noqa
      rec("bad", cname, label, "construct-EXC", type(e).__name__, str(e))
      continue
    attempt("bad %s %s call" % (cname, label), f, 1.0)
    if hasattr(f, "deriv"):
      attempt("bad %s %s deriv" % (cname, label), f.deriv, 1.0)
    if hasattr(f, "deriv2"):
      attempt("bad %s %s deriv2" % (cname, label), f.deriv2, 1.0)
  attempt("bad %s one-arg" % cname, lambda: comb(no_deriv))
  attempt("bad %s three-arg" % cname, lambda: comb(no_deriv, no_deriv, no_deriv))

# operand whose 'deriv' property raises something other than AttributeError


class Exploding(object):
  def __call__(self, r):
    return r

  @property
  def deriv(self):
    raise RuntimeError("boom")


for cname, comb in COMBINATORS:
  attempt("exploding-first %s" % cname, lambda: comb(Exploding(), no_deriv) and None)
  attempt("exploding-second %s" % cname, lambda: comb(no_deriv, Exploding()) and None)
  attempt("exploding-second-after-analytic %s" % cname, lambda: hasattr(comb(pforms.constant(1.0), Exploding()), "deriv"))

# ---------------------------------------------------------------- tabulation of combined potentials
pots = [
    Potential("O", "O", ap.plus(pforms.buck(1633.0, 0.327, 3.95), pforms.coul(-1.1, -1.1))),
    Potential("U", "O", ap.plus(pforms.bornmayer(1761.775, 0.35642), no_deriv)),
    Potential("Gd", "O", ap.product(pforms.constant(0.5), ap.plus(no_deriv, no_deriv))),
    Potential("Ce", "O", ap.pow(ap.plus(pforms.morse(1.2, 1.8, 0.6), pforms.constant(3.0)), pforms.constant(2.0)), 1e-4),
    Potential("Zr", "O", ap.product(pforms.polynomial(0.0, 1.0), gradient(pforms.lj(0.25, 2.5)))),
]
for target in ["LAMMPS", "DL_POLY", "GULP"]:
  for cutoff, npts in [(6.5, 20), (10.0, 100), (3.0, 8)]:
    out = io.StringIO()
    try:
      ap.writePotentials(target, pots, cutoff, npts, out)
      rec("writePotentials", target, cutoff, npts, hashlib.sha256(out.getvalue().encode("utf-8")).hexdigest())
    except Exception as e:  # noqa
      rec("writePotentials-exc", target, cutoff, npts, type(e).__name__, str(e))

# ---------------------------------------------------------------- modifiers in configuration files
PAIRS = u"""
[Pair]
A-B = sum(born_mayer 1000.0 0.1, dispersion 32.0)
B-C = sum(as.bornmayer 1000.0 0.1,  as.buck 0 1.0 32.0)
C-D = sum(as.bornmayer 1000.0 0.1, dispersion 32.0)
D-E = product(as.buck 1000.0 0.2 32.0, as.polynomial 0.0 2.0, as.polynomial 1.0 -3.0 0.5)
E-F = sum(product(as.constant 2.0, as.buck 1000.0 0.2 32.0), pow(born_mayer 2.0 0.5, as.constant 2.0), as.constant 0.5)
K-L = pow(dispersion 2.0, as.constant 2.0)
F-G = pow(sum(as.morse 1.2 1.8 0.6, as.constant 3.0), as.polynomial 1.0 0.1)
G-H = product(born_mayer 10.0 0.5, dispersion 3.0)
H-I = pow(born_mayer 10.0 0.5, offset_form 2.0)
I-J = sum(>0 as.zbl 8 8 >=1.0 as.buck 1000.0 0.3 32.0, dispersion 5.0)
J-K = sum(as.buck 1000.0 0.3 32.0)

[Potential-Form]
born_mayer(r, A, rho) = A * exp(-r/rho)
dispersion(r, C) = - C/r^6
offset_form(r, x) = x + 0.01*r
"""
TABS = [
    u"[Tabulation]\ntarget : LAMMPS\ncutoff : 6.0\nnr : 30\n",
    u"[Tabulation]\ntarget : DL_POLY\ncutoff : 8.0\nnr : 40\n",
    u"[Tabulation]\ntarget : GULP\ncutoff : 4.0\ndr : 0.2\n",
]
BAD_CONFIGS = [
    u"[Tabulation]\ntarget : LAMMPS\ncutoff : 6.0\nnr : 30\n[Pair]\nA-A = pow(as.buck 1000.0 0.3 32.0)\n",
    u"[Tabulation]\ntarget : LAMMPS\ncutoff : 6.0\nnr : 30\n[Pair]\nA-A = sum()\n",
    u"[Tabulation]\ntarget : LAMMPS\ncutoff : 6.0\nnr : 30\n[Pair]\nA-A = product(as.buck 1000.0 0.3)\n",
    u"[Tabulation]\ntarget : LAMMPS\ncutoff : 6.0\nnr : 30\n[Pair]\nA-A = nosuch(as.buck 1000.0 0.3 32.0, as.constant 1.0)\n",
    u"[Tabulation]\ntarget : LAMMPS\ncutoff : 6.0\nnr : 30\n[Pair]\nA-A = pow(as.constant -1.0, as.constant 0.5)\n",
]

GOOD_PAIRS = PAIRS.replace(u"K-L = pow(dispersion 2.0, as.constant 2.0)\n", u"")
for i, cfg in enumerate([t + GOOD_PAIRS for t in TABS] + [t + PAIRS for t in TABS] + BAD_CONFIGS):
  try:
    tab = Configuration().read(io.StringIO(cfg))
    for p in tab.potentials:
      pf_ = p.potentialFunction
      rec("cfg", i, p.speciesA, p.speciesB, hasattr(pf_, "deriv"), hasattr(pf_, "deriv2"))
      for r in RS:
        attempt("cfg %d %s-%s energy r=%r" % (i, p.speciesA, p.speciesB, r), p.energy, r)
        attempt("cfg %d %s-%s force r=%r" % (i, p.speciesA, p.speciesB, r), p.force, r)
        attempt("cfg %d %s-%s d2 r=%r" % (i, p.speciesA, p.speciesB, r), gradient(gradient(pf_)), r)
    out = io.StringIO()
    tab.write(out)
    rec("cfg-out", i, hashlib.sha256(out.getvalue().encode("utf-8")).hexdigest(), len(out.getvalue()))
  except Exception as e:  # noqa
    rec("cfg-exc", i, type(e).__name__, str(e))

blob = "\n".join(LOG).encode("utf-8")
print("records:", len(LOG))
print("digest:", hashlib.sha256(blob).hexdigest())
if os.environ.get("TWIN_DUMP"):
  with open(os.environ["TWIN_DUMP"], "wb") as fh:
    fh.write(blob)

# -*- coding: utf-8 -*-
"""Differential script for twin C (setfl header / _writeSetFL driver / cutoff defaulting /
tabulation classes' write() methods).

usage: wtpy.py <worktree> _twins/diffC.py [-v] [--small]
"""
import os, sys
sys.path.insert(0, os.path.dirname(os.path.abspath(__file__)))
import _harness as H
from atsim.potentials import writeSetFL, writeSetFLFinnisSinclair

rec = H.Recorder()
H.cases_tabulation_classes(rec)
H.cases_setfl(rec, writeSetFL, "setfl")
H.cases_setfl(rec, writeSetFLFinnisSinclair, "setfl_fs", fs=True)
H.cases_setfl_malformed(rec, writeSetFL, "setfl")
H.cases_setfl_malformed(rec, writeSetFLFinnisSinclair, "setfl_fs", fs=True)
H.cases_config(rec, big="--small" not in sys.argv)
H.report(rec, "twinC", "-v" in sys.argv)

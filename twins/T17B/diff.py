"""Edit B: new analytic potential form `gauss` (as.gauss A B r_0).

Run with:  /venv/bin/python -W ignore /tmp/wtpy.py /tmp/twin_17 _twins/diffB.py
Part (a) prints a digest of EXISTING behaviour (identical on clean and edited tree).
Part (b) exercises the new form (skipped with a message on a clean tree).
"""
import hashlib, io, logging, math, os, subprocess, sys
logging.disable(logging.CRITICAL)
sys.path.insert(0, os.path.join(os.getcwd(), "_twins"))
from _common_digest import existing_behaviour_digest, ConfigurationException

from atsim.potentials import potentialfunctions as pf, potentialforms as pforms
from atsim.potentials.config import Configuration

NAME = "gauss"

def reference(r, A, B, r_0):
  return A*math.exp(-B*(r-r_0)**2)

def central(f, r, h=1e-5):
  return (f(r+h) - f(r-h))/(2.0*h)

def close(a, b, rel=1e-6, abs_=1e-9):
  return abs(a-b) <= max(abs_, rel*max(abs(a), abs(b)))

CFG = """[Tabulation]
target : %s
cutoff : 6.0
nr : %d

[Pair]
Ar-Ar : as.gauss -0.8 1.5 3.0
Ar-Kr : sum(as.gauss 2.0 0.5 0.0, as.lj 0.01 3.4)
Kr-Kr : well 0.8 0.57735026918962573 3.0

[Potential-Form]
well(r, depth, w, r0) = as.gauss(r, -depth, 1/(2*w^2), r0)
"""

EAM_CFG = """[Tabulation]
target : setfl
nr : 9
dr : 0.5
nrho : 6
drho : 0.5

[Pair]
Al-Al : as.gauss 1.0 2.0 0.0

[EAM-Embed]
Al : as.gauss -2.0 0.01 20.0

[EAM-Density]
Al : as.gauss 3.0 0.4 0.5
"""

def tabulate(target, nr):
  tab = Configuration().read(io.StringIO(CFG % (target, nr)))
  sio = io.StringIO()
  tab.write(sio)
  return tab, sio.getvalue()

def new_feature():
  func = getattr(pf, NAME)
  fact = getattr(pforms, NAME)
  params = [(-0.8, 1.5, 3.0), (2.0, 0.5, 0.0), (1.0, 0.0, 2.0), (0.0, 1.3, 1.0), (5.5, -0.01, 2.0), (1, 2, 3), (3.0, 0.25, -1.5)]
  rs = [0.0, 0.3, 0.7, 1.0, 1.9, 3.0, 3.3, 7.5, 12.0]
  n = 0
  for args in params:
    inst = fact(*args)
    for r in rs:
      # C06: documented formula, identical through function and factory routes
      assert close(func(r, *args), reference(r, *args), 1e-14, 0.0)
      assert func(r, *args) == inst(r)
      assert func.deriv(r, *args) == inst.deriv(r)
      assert func.deriv2(r, *args) == inst.deriv2(r)
      # C07: analytic derivatives against central differences
      assert close(func.deriv(r, *args), central(lambda x: func(x, *args), r)), (args, r)
      assert close(func.deriv2(r, *args), central(lambda x: func.deriv(x, *args), r)), (args, r)
      n += 1
  print("new: %d (params, r) points: value == formula, deriv/deriv2 == finite differences" % n)
  # well depth A at r_0, stationary there, curvature -2AB
  assert func(3.0, -0.8, 1.5, 3.0) == -0.8 and func.deriv(3.0, -0.8, 1.5, 3.0) == 0.0
  assert close(func.deriv2(3.0, -0.8, 1.5, 3.0), 2*0.8*1.5, 1e-15)

  # potable routes: as.NAME params ; as.NAME(r, params) inside a formula ; inside a modifier
  tab, lammps = tabulate("LAMMPS", 13)
  pots = dict(((p.speciesA, p.speciesB), p) for p in tab.potentials)
  for r in [0.5, 1.5, 3.0, 4.0]:
    assert close(pots[("Ar", "Ar")].energy(r), reference(r, -0.8, 1.5, 3.0), 1e-13)
    assert close(pots[("Kr", "Kr")].energy(r), reference(r, -0.8, 1.5, 3.0), 1e-12)
    assert close(pots[("Ar", "Kr")].energy(r), reference(r, 2.0, 0.5, 0.0) + pf.lj(r, 0.01, 3.4), 1e-13)
    # C01: force is minus the derivative of the same function
    assert close(pots[("Ar", "Ar")].force(r), -func.deriv(r, -0.8, 1.5, 3.0), 1e-12, 1e-15)
    assert close(pots[("Ar", "Kr")].force(r), -(func.deriv(r, 2.0, 0.5, 0.0) + pf.lj.deriv(r, 0.01, 3.4)), 1e-12)
  # C01: read the LAMMPS table back
  block = lammps.split("Ar-Ar")[1].split("\n\n")[1].strip().splitlines()
  assert len(block) == 12
  for line in block:
    i, r, e, f = line.split()
    r = float(r)
    assert close(float(e), reference(r, -0.8, 1.5, 3.0), 1e-6, 1e-7) and close(float(f), -func.deriv(r, -0.8, 1.5, 3.0), 1e-6, 1e-7)
  print("new: potable routes (as.%s A B r_0 / as.%s(r,..) in formula / inside sum()) agree; LAMMPS table read back OK" % (NAME, NAME))
  for target, nr in [("LAMMPS", 13), ("DL_POLY", 16), ("GULP", 13)]:
    _t, s1 = tabulate(target, nr)
    _t, s2 = tabulate(target, nr)
    assert s1 == s2
    print("new: %-8s sha256 %s" % (target, hashlib.sha256(s1.encode()).hexdigest()))
  # EAM sections (C03): density / embedding / pair values in the setfl file
  tab = Configuration().read(io.StringIO(EAM_CFG))
  sio = io.StringIO(); tab.write(sio)
  toks = sio.getvalue().split("fcc")[1].split()
  vals = [float(t) for t in toks]
  assert len(vals) == 6 + 9 + 9
  embed, dens, rphi = vals[0:6], vals[6:15], vals[15:24]
  # (potable potentials without a leading range marker act for r > 0 only, hence 0 in the first row)
  for i, v in enumerate(embed):
    assert close(v, reference(i*0.5, -2.0, 0.01, 20.0) if i > 0 else 0.0, 1e-9, 1e-12)
  for i, v in enumerate(dens):
    assert close(v, reference(i*0.5, 3.0, 0.4, 0.5) if i > 0 else 0.0, 1e-9, 1e-12)
  for i, v in enumerate(rphi):
    r = i*0.5
    assert close(v, r*reference(r, 1.0, 2.0, 0.0) if i > 0 else 0.0, 1e-9, 1e-16)
  print("new: setfl sha256 %s (embed, density, r*phi values read back OK)" % hashlib.sha256(sio.getvalue().encode()).hexdigest())

  # C16: wrong parameter counts / non numeric -> configuration errors
  for bad in ["as.gauss 1.0 2.0", "as.gauss 1.0 2.0 3.0 4.0", "as.gauss 1.0 B 2.0", "as.gauss", "product(as.gauss 1.0, as.zero)"]:
    cfg = "[Tabulation]\ntarget : LAMMPS\nnr : 5\n\n[Pair]\nA-B : %s\n" % bad
    try:
      Configuration().read(io.StringIO(cfg)).write(io.StringIO())
      raise AssertionError("accepted: " + bad)
    except ConfigurationException as e:
      print("new: '%s' -> %s" % (bad, type(e).__name__))
  cfg = "[Tabulation]\ntarget : LAMMPS\nnr : 5\n\n[Pair]\nA-B : f 1\n\n[Potential-Form]\nf(r, a) = as.gauss(r, a, 1)\n"
  try:
    Configuration().read(io.StringIO(cfg)).write(io.StringIO())
    raise AssertionError("accepted")
  except ConfigurationException as e:
    print("new: as.gauss(r, a, 1) in formula -> %s" % type(e).__name__)
  # C20: a table form may not take the built-in's name
  cfg = "[Tabulation]\ntarget : LAMMPS\nnr : 5\n\n[Pair]\nA-B : as.gauss 1 1 1\n\n[Table-Form:as.gauss]\nxy : 0 1 1 2 2 3 3 4 4 5\n"
  try:
    Configuration().read(io.StringIO(cfg)).write(io.StringIO())
    raise AssertionError("accepted")
  except ConfigurationException as e:
    print("new: [Table-Form:as.gauss] -> %s" % type(e).__name__)
  # C17: failed evaluation (overflow for a negative width parameter) leaves nothing behind
  cfg = "[Tabulation]\ntarget : GULP\nnr : 5\ncutoff : 40.0\n\n[Pair]\nA-B : as.gauss 1 -1 0\n"
  sio = io.StringIO()
  try:
    Configuration().read(io.StringIO(cfg)).write(sio)
    print("new: overflow evaluation did not fail")
  except Exception as e:
    print("new: overflow in GULP table -> %s, bytes written: %d" % (type(e).__name__, len(sio.getvalue())))
    assert sio.getvalue() == ""


def main():
  digest, n = existing_behaviour_digest(new_names=[NAME])
  print("EXISTING-BEHAVIOUR DIGEST %s (%d records)" % (digest, n))
  if not hasattr(pf, NAME):
    print("new: form '%s' absent (clean tree)" % NAME)
    return
  new_feature()
  if "--child" not in sys.argv:
    outs = set()
    for seed in ["0", "1", "4242"]:
      env = dict(os.environ, PYTHONHASHSEED=seed)
      o = subprocess.check_output([sys.executable, "-W", "ignore", "/tmp/wtpy.py", os.getcwd(), "_twins/diffB.py", "--child"], env=env)
      outs.add(hashlib.sha256(o).hexdigest())
    assert len(outs) == 1, outs
    print("new: output of this script identical for PYTHONHASHSEED=0,1,4242 (sha256 %s)" % outs.pop()[:16])

main()

"""Differential script for twin C (EAM writers and EAM tabulation objects).

Run with:
  /venv/bin/python -W ignore /tmp/wtpy.py /tmp/wt_r9_4 _twins/diffC.py

Exercises writeFuncFL / writeSetFL / writeSetFLFinnisSinclair / writeTABEAM /
writeTABEAMFinnisSinclair, the eam_tabulation classes' write() and tabulation of EAM
models through Configuration. Only uses names present in the clean tree."""
import hashlib
import io
import math
import os
import subprocess
import sys

import atsim.potentials
from atsim.potentials import Potential, EAMPotential, potentialforms
from atsim.potentials import writeFuncFL, writeSetFL, writeSetFLFinnisSinclair, writeTABEAM, writeTABEAMFinnisSinclair
from atsim.potentials import eam_tabulation
from atsim.potentials.config import Configuration, ConfigParser, ConfigParserOverrideTuple

WT = os.path.dirname(os.path.dirname(os.path.abspath(__file__)))

digest = hashlib.sha256()

def record(label, *parts):
  h = hashlib.sha256()
  for p in parts:
    if isinstance(p, str):
      p = p.encode("utf-8")
    h.update(b"\x00" + p)
  line = "{} {}".format(h.hexdigest()[:16], label)
  print(line)
  if os.environ.get("DIFF_VERBOSE") and parts:
    print("      -> {!r}".format(parts[0][:100]))
  digest.update(line.encode("utf-8") + b"\n")

def outcome_of(_callee, *args, **kwargs):
  try:
    return "returned {!r}".format(_callee(*args, **kwargs))
  except BaseException as e:
    ctx = type(e.__context__).__name__ if e.__context__ is not None else "-"
    msg = str(e)
    if "object at 0x" in msg:
      msg = msg.split("object at 0x")[0]
    return "{}:{}:ctx={}".format(type(e).__name__, msg, ctx)

class EventLog(object):
  def __init__(self, failafter = None):
    self.events = []
    self.failafter = failafter
  def write(self, s):
    if self.failafter is not None and len(self.events) >= self.failafter:
      self.events.append("write-fail")
      raise IOError("disk full")
    self.events.append("w:%d:%s" % (len(s), hashlib.sha256(s.encode("utf-8")).hexdigest()[:12]))

class CountedAttributes(object):
  """Stand in for an EAM tabulation's collaborators: records order in which things are asked for"""
  def __init__(self, log, name, inner):
    self._log = log
    self._name = name
    self._inner = inner
  def __call__(self, x):
    self._log.append("{}({!r})".format(self._name, x))
    return self._inner(x)

# -- Model building -------------------------------------------------------------------------------

def embed(a):
  def f(rho):
    return -a * math.sqrt(rho)
  return f

def density(n, r0 = 1.2):
  def f(r):
    return n * math.exp(-2.0 * (r - r0)) / (1.0 + r)
  return f

def screened_buck(A, rho, C):
  # finite at r = 0, which is tabulated by all the EAM formats
  def f(r):
    return A * math.exp(-r/rho) - C/(0.75 + r)**6
  return f

def standard_model(species):
  data = {
    "Ag" : (47, 107.8682, 2.5415e-3, 144.41, 4.09),
    "Cu" : (29, 63.546, 1.2382e-2, 33.232, 3.61),
    "Al" : (13, 26.98, 3.3147e-2, 16.399, 4.05),
    "U"  : (92, 238.03, 1.806, 3450.995, 0.0),
    "O"  : (8, 15.999, 0.690, 106.856, 0.0),
  }
  eampots = []
  for s in species:
    z, mass, a, n, lat = data[s]
    if lat:
      eampots.append(EAMPotential(s, z, mass, embed(a), density(n * 1e-3), lat, "fcc"))
    else:
      eampots.append(EAMPotential(s, z, mass, embed(a), density(n * 1e-3)))
  pairpots = []
  for i, a in enumerate(species):
    for b in species[i:]:
      A = 1000.0 + 37.0 * (data[a][0] + data[b][0])
      pairpots.append(Potential(a, b, screened_buck(A, 0.3 + 0.001*data[a][0], 1.0 + 0.01 * data[b][0])))
  return eampots, pairpots

def fs_model(species, missing = None):
  eampots, pairpots = standard_model(species)
  fspots = []
  for ep in eampots:
    densdict = {}
    for j, other in enumerate(species):
      if missing == (ep.species, other):
        continue
      densdict[other] = density(0.01 * (j + 1) * ep.atomicNumber, 1.0 + 0.1 * j)
    fspots.append(EAMPotential(ep.species, ep.atomicNumber, ep.mass, ep.embeddingFunction, densdict, ep.latticeConstant, ep.latticeType))
  return fspots, pairpots

GRIDS = [
  (50, 0.02, 40, 0.1),
  (12, 0.5, 13, 0.37),
  (5, 1.0, 4, 1.5),
  (1, 0.1, 1, 0.1),
  (7, 0.3, 0, 0.1),
  (0, 0.3, 6, 0.25),
  (9, 1e-3, 11, 0.5),
]

SPECIES_ORDERS = [["Ag"], ["Al", "Cu"], ["Cu", "Al"], ["U", "O", "Ag"], ["O", "Ag", "U"], []]

# -- Procedural writers -----------------------------------------------------------------------------

def setfl_cases():
  cutoffs = ["<omit>", None, 0, 0.0, 5.5, 1, -2.0, "7.5", "", [], [4.0], float("nan"), float("inf"), True, False]
  comments_list = ["<omit>", ["a", "b", "c"], ["only one"], [], ["1", "2", "3", "4"], ("t", "u", "v"), "xyz", None, [1, 2, 3]]

  for fname, writer, builder in [("writeSetFL", writeSetFL, standard_model), ("writeSetFLFinnisSinclair", writeSetFLFinnisSinclair, fs_model)]:
    for species in SPECIES_ORDERS:
      eampots, pairpots = builder(species)
      for nrho, drho, nr, dr in GRIDS:
        out = io.StringIO()
        oc = outcome_of(writer, nrho, drho, nr, dr, eampots, pairpots, out)
        record("{} {} {}".format(fname, "-".join(species), (nrho, drho, nr, dr)), oc, out.getvalue())

      nrho, drho, nr, dr = GRIDS[1]
      for cutoff in cutoffs:
        kwargs = {} if cutoff == "<omit>" else {"cutoff" : cutoff}
        out = io.StringIO()
        oc = outcome_of(writer, nrho, drho, nr, dr, eampots, pairpots, out = out, **kwargs)
        record("{} {} cutoff {!r}".format(fname, "-".join(species), cutoff), oc, out.getvalue())
        if cutoff != "<omit>":
          out = io.StringIO()
          oc = outcome_of(writer, nrho, drho, nr, dr, eampots, pairpots, out, ["x", "y", "z"], cutoff)
          record("{} {} positional cutoff {!r}".format(fname, "-".join(species), cutoff), oc, out.getvalue())
      # nr and dr for which the default cutoff is something other than a float
      for nr2, dr2 in [(3, 2), (4, 0.0), (0, 1.5), (2, float("inf"))]:
        for cutoff in ["<omit>", None, 0]:
          kwargs = {} if cutoff == "<omit>" else {"cutoff" : cutoff}
          out = io.StringIO()
          oc = outcome_of(writer, nrho, drho, nr2, dr2, eampots, pairpots, out = out, **kwargs)
          record("{} {} nr {} dr {} cutoff {!r}".format(fname, "-".join(species), nr2, dr2, cutoff), oc, out.getvalue())
      for nr2, dr2 in [("3", 2), (3, "2"), (None, 1.0), (3, None), ([1], 2)]:
        for cutoff in [None, 4.5]:
          out = io.StringIO()
          oc = outcome_of(writer, nrho, drho, nr2, dr2, eampots, pairpots, out = out, cutoff = cutoff)
          record("{} {} bad nr {!r} dr {!r} cutoff {!r}".format(fname, "-".join(species), nr2, dr2, cutoff), oc, out.getvalue())

      for comments in comments_list:
        kwargs = {} if comments == "<omit>" else {"comments" : comments}
        out = io.StringIO()
        oc = outcome_of(writer, nrho, drho, nr, dr, eampots, pairpots, out = out, **kwargs)
        record("{} {} comments {!r}".format(fname, "-".join(species), comments), oc, out.getvalue())

    # pair potentials missing, reversed, superfluous
    eampots, pairpots = builder(["Al", "Cu"])
    for label, pp in [("none", []), ("reversed", list(reversed(pairpots))), ("first only", pairpots[:1]),
                      ("swapped species", [Potential(p.speciesB, p.speciesA, p.potentialFunction) for p in pairpots]),
                      ("extra", pairpots + standard_model(["Ag"])[1]), ("None", None), ("not potentials", [1, 2])]:
      out = io.StringIO()
      oc = outcome_of(writer, 6, 0.5, 7, 0.4, eampots, pp, out)
      record("{} pairpots {}".format(fname, label), oc, out.getvalue())
    for label, ep in [("None", None), ("not eampots", [1]), ("pair potentials", pairpots)]:
      out = io.StringIO()
      oc = outcome_of(writer, 6, 0.5, 7, 0.4, ep, pairpots, out)
      record("{} eampots {}".format(fname, label), oc, out.getvalue())
    for failafter in [None, 0]:
      log = EventLog(failafter)
      oc = outcome_of(writer, 6, 0.5, 7, 0.4, eampots, pairpots, log)
      record("{} event log {}".format(fname, failafter), oc, repr(log.events))
    oc = outcome_of(writer, 6, 0.5, 7, 0.4, eampots, pairpots, None)
    record("{} out None".format(fname), oc)
    oc = outcome_of(writer)
    record("{} no arguments".format(fname), oc)
    oc = outcome_of(writer, 6, 0.5, 7, 0.4, eampots, pairpots, io.StringIO(), [], None, None)
    record("{} too many arguments".format(fname), oc)
    oc = outcome_of(writer, 6, 0.5, 7, 0.4, eampots, pairpots, io.StringIO(), rcut = 3.0)
    record("{} wrong keyword".format(fname), oc)

  # wrong kind of density for each writer
  std, pairpots = standard_model(["Al", "Cu"])
  fs, pairpots = fs_model(["Al", "Cu"])
  for fname, writer, eampots in [("writeSetFL", writeSetFL, fs), ("writeSetFLFinnisSinclair", writeSetFLFinnisSinclair, std)]:
    out = io.StringIO()
    oc = outcome_of(writer, 6, 0.5, 7, 0.4, eampots, pairpots, out)
    record("{} wrong kind of density".format(fname), oc, out.getvalue())
  for missing in [("Al", "Cu"), ("Cu", "Cu"), ("Al", "Al")]:
    fs, pairpots = fs_model(["Al", "Cu"], missing)
    out = io.StringIO()
    oc = outcome_of(writeSetFLFinnisSinclair, 6, 0.5, 7, 0.4, fs, pairpots, out)
    record("writeSetFLFinnisSinclair missing density {}".format(missing), oc, out.getvalue())

def funcfl_cases():
  for species in [["Ag"], ["Cu"], ["U"], ["Al", "Cu"], []]:
    eampots, pairpots = standard_model(species)
    for nrho, drho, nr, dr in GRIDS:
      for kwargs in [{}, {"title" : "Title for {}".format(species)}, {"title" : None}, {"title" : 12}]:
        out = io.StringIO()
        oc = outcome_of(writeFuncFL, nrho, drho, nr, dr, eampots, pairpots, out = out, **kwargs)
        record("writeFuncFL {} {} {}".format("-".join(species), (nrho, drho, nr, dr), sorted(kwargs.items())), oc, out.getvalue())
    out = io.StringIO()
    oc = outcome_of(writeFuncFL, 12, 0.5, 13, 0.37, eampots, pairpots, out, "positional title")
    record("writeFuncFL {} positional title".format("-".join(species)), oc, out.getvalue())
    out = io.StringIO()
    oc = outcome_of(writeFuncFL, 12, 0.5, 13, 0.37, eampots, [], out)
    record("writeFuncFL {} no pair".format("-".join(species)), oc, out.getvalue())
  eampots, pairpots = standard_model(["Ag"])
  attractive = [Potential("Ag", "Ag", lambda r: -1.0)]
  out = io.StringIO()
  record("writeFuncFL attractive pair", outcome_of(writeFuncFL, 5, 0.1, 5, 0.5, eampots, attractive, out), out.getvalue())
  log = EventLog()
  record("writeFuncFL event log", outcome_of(writeFuncFL, 5, 0.1, 5, 0.5, eampots, pairpots, log), repr(log.events))
  record("writeFuncFL no arguments", outcome_of(writeFuncFL))
  singular = [Potential("Ag", "Ag", potentialforms.buck(1000.0, 0.3, 10.0))]
  for fname, writer in [("writeFuncFL", writeFuncFL), ("writeSetFL", writeSetFL), ("writeTABEAM", writeTABEAM)]:
    out = io.StringIO()
    record("{} singular pair potential".format(fname), outcome_of(writer, 5, 0.1, 5, 0.5, eampots, singular, out), out.getvalue())

def tabeam_cases():
  for fname, writer, builder in [("writeTABEAM", writeTABEAM, standard_model), ("writeTABEAMFinnisSinclair", writeTABEAMFinnisSinclair, fs_model)]:
    for species in SPECIES_ORDERS:
      eampots, pairpots = builder(species)
      for nrho, drho, nr, dr in GRIDS:
        out = io.StringIO()
        oc = outcome_of(writer, nrho, drho, nr, dr, eampots, pairpots, out)
        record("{} {} {}".format(fname, "-".join(species), (nrho, drho, nr, dr)), oc, out.getvalue())
      for title in ["A title", "", "x" * 150, None, 3.5]:
        out = io.StringIO()
        oc = outcome_of(writer, 12, 0.5, 13, 0.37, eampots, pairpots, out = out, title = title)
        record("{} {} title {!r}".format(fname, "-".join(species), title if not isinstance(title, str) else title[:10]), oc, out.getvalue())
        out = io.StringIO()
        oc = outcome_of(writer, 12, 0.5, 13, 0.37, eampots, pairpots, out, title)
        record("{} {} positional title {!r}".format(fname, "-".join(species), title if not isinstance(title, str) else title[:10]), oc, out.getvalue())

    eampots, pairpots = builder(["Al", "Cu"])
    for label, pp in [("none", []), ("reversed", list(reversed(pairpots))), ("first only", pairpots[:1]),
                      ("swapped species", [Potential(p.speciesB, p.speciesA, p.potentialFunction) for p in pairpots]),
                      ("extra", pairpots + standard_model(["Ag"])[1]), ("None", None), ("not potentials", [1, 2])]:
      out = io.StringIO()
      oc = outcome_of(writer, 6, 0.5, 7, 0.4, eampots, pp, out)
      record("{} pairpots {}".format(fname, label), oc, out.getvalue())
    for label, ep in [("None", None), ("not eampots", [1]), ("pair potentials", pairpots), ("duplicated", eampots + eampots)]:
      out = io.StringIO()
      oc = outcome_of(writer, 6, 0.5, 7, 0.4, ep, pairpots, out)
      record("{} eampots {}".format(fname, label), oc, out.getvalue())
    for failafter in [None, 0]:
      log = EventLog(failafter)
      oc = outcome_of(writer, 6, 0.5, 7, 0.4, eampots, pairpots, log)
      record("{} event log {}".format(fname, failafter), oc, repr(log.events))
    record("{} out None".format(fname), outcome_of(writer, 6, 0.5, 7, 0.4, eampots, pairpots, None))
    record("{} no arguments".format(fname), outcome_of(writer))
    record("{} wrong keyword".format(fname), outcome_of(writer, 6, 0.5, 7, 0.4, eampots, pairpots, io.StringIO(), comments = []))

  std, pairpots = standard_model(["Al", "Cu"])
  fs, pairpots = fs_model(["Al", "Cu"])
  for fname, writer, eampots in [("writeTABEAM", writeTABEAM, fs), ("writeTABEAMFinnisSinclair", writeTABEAMFinnisSinclair, std)]:
    out = io.StringIO()
    oc = outcome_of(writer, 6, 0.5, 7, 0.4, eampots, pairpots, out)
    record("{} wrong kind of density".format(fname), oc, out.getvalue())

  # Missing entries in density dictionaries: which one is reported, nothing written
  for species in [["Al", "Cu"], ["Cu", "Al"], ["U", "O", "Ag"]]:
    for a in species:
      for b in species:
        fs, pairpots = fs_model(species, (a, b))
        log = EventLog()
        oc = outcome_of(writeTABEAMFinnisSinclair, 6, 0.5, 7, 0.4, fs, pairpots, log)
        record("writeTABEAMFinnisSinclair {} missing {}->{}".format("-".join(species), a, b), oc, repr(log.events))

  # Density dictionaries which raise something other than KeyError, or a KeyError subclass
  class OddDict(dict):
    def __init__(self, exc, *args):
      dict.__init__(self, *args)
      self.exc = exc
    def __getitem__(self, k):
      if k == "Cu":
        raise self.exc
      return dict.__getitem__(self, k)
  class MyKeyError(KeyError):
    pass
  for exc in [ValueError("odd"), MyKeyError("mine"), LookupError("lookup"), IndexError(3), KeyboardInterrupt()]:
    fs, pairpots = fs_model(["Al", "Cu"])
    fs[0].electronDensityFunction = OddDict(exc, fs[0].electronDensityFunction)
    out = io.StringIO()
    oc = outcome_of(writeTABEAMFinnisSinclair, 6, 0.5, 7, 0.4, fs, pairpots, out)
    record("writeTABEAMFinnisSinclair density lookup raises {}".format(type(exc).__name__), oc, out.getvalue())
  # species labels that are not strings
  fs, pairpots = fs_model(["Al", "Cu"])
  fs[1].species = 29
  out = io.StringIO()
  oc = outcome_of(writeTABEAMFinnisSinclair, 6, 0.5, 7, 0.4, fs, pairpots, out)
  record("writeTABEAMFinnisSinclair integer species", oc, out.getvalue())
  fs, pairpots = fs_model(["Al", "Cu"])
  fs[1].species = ("Cu", "x")
  out = io.StringIO()
  oc = outcome_of(writeTABEAMFinnisSinclair, 6, 0.5, 7, 0.4, fs, pairpots, out)
  record("writeTABEAMFinnisSinclair tuple species", oc, out.getvalue())

def default_out_cases():
  code = ("import sys, io\n"
          "sys.path.insert(0, '_twins')\n"
          "import atsim.potentials as ap\n"
          "import diffC\n"
          "real = sys.stdout\n"
          "sys.stdout = io.StringIO()\n"
          "eampots, pairpots = diffC.{builder}(['Al', 'Cu'])\n"
          "ap.{writer}(5, 0.5, 6, 0.4, eampots, pairpots)\n"
          "captured = sys.stdout.getvalue()\n"
          "sys.stdout = real\n"
          "sys.stdout.write('captured=%r\\n' % captured)\n")
  for writer, builder in [("writeFuncFL", "standard_model"), ("writeSetFL", "standard_model"), ("writeSetFLFinnisSinclair", "fs_model"),
                          ("writeTABEAM", "standard_model"), ("writeTABEAMFinnisSinclair", "fs_model")]:
    proc = subprocess.run([sys.executable, "-W", "ignore", "/tmp/wtpy.py", WT, "-c", code.format(writer = writer, builder = builder)],
      cwd = WT, stdout = subprocess.PIPE, stderr = subprocess.PIPE)
    err = proc.stderr.decode("utf-8")
    if "Traceback" in err:
      err = [l for l in err.splitlines() if l.strip()][-1]
    record("{} default out".format(writer), str(proc.returncode), proc.stdout, err)

# -- Tabulation objects -------------------------------------------------------------------------------

def tabulation_object_cases():
  classes = [
    ("SetFL_EAMTabulation", eam_tabulation.SetFL_EAMTabulation, standard_model),
    ("SetFL_FS_EAMTabulation", eam_tabulation.SetFL_FS_EAMTabulation, fs_model),
    ("TABEAM_EAMTabulation", eam_tabulation.TABEAM_EAMTabulation, standard_model),
    ("TABEAM_FinnisSinclair_EAMTabulation", eam_tabulation.TABEAM_FinnisSinclair_EAMTabulation, fs_model),
  ]
  grids = [(6.0, 61, 50.0, 51), (4.5, 10, 3.0, 7), (10.0, 2, 1.0, 2), (5.0, 1, 5.0, 1), (5.0, 3, 2.0, 0), (2.5, 0, 2.0, 5), ("5.0", 4, 1.0, 4), (5.0, None, 1.0, 4)]
  for cname, cls, builder in classes:
    for species in SPECIES_ORDERS:
      eampots, pairpots = builder(species)
      for cutoff, nr, cutoff_rho, nrho in grids:
        out = io.StringIO()
        def build_and_write():
          tab = cls(pairpots, eampots, cutoff, nr, cutoff_rho, nrho)
          return tab.write(out)
        oc = outcome_of(build_and_write)
        record("{} {} {}".format(cname, "-".join(species), (cutoff, nr, cutoff_rho, nrho)), oc, out.getvalue())
    eampots, pairpots = builder(["Al", "Cu"])
    tab = cls(pairpots, eampots, 6.5, 14, 10.0, 11)
    record("{} attributes".format(cname), repr((tab.type, tab.target, tab.nr, tab.dr, tab.nrho, tab.drho, tab.cutoff, tab.cutoff_rho)))
    out = io.StringIO()
    record("{} write keyword".format(cname), outcome_of(tab.write, fp = out), out.getvalue())
    for failafter in [None, 0]:
      log = EventLog(failafter)
      record("{} event log {}".format(cname, failafter), outcome_of(tab.write, log), repr(log.events))
    record("{} write None".format(cname), outcome_of(tab.write, None))
    record("{} write no args".format(cname), outcome_of(tab.write))
    # write twice to the same file object
    out = io.StringIO()
    record("{} write twice".format(cname), outcome_of(tab.write, out), outcome_of(tab.write, out), out.getvalue())

    # order in which functions are evaluated while writing
    evlog = []
    eampots2, pairpots2 = builder(["Cu", "Al"])
    for ep in eampots2:
      ep.embeddingFunction = CountedAttributes(evlog, "embed_" + ep.species, ep.embeddingFunction)
      if isinstance(ep.electronDensityFunction, dict):
        ep.electronDensityFunction = dict((k, CountedAttributes(evlog, "dens_{}_{}".format(ep.species, k), v)) for (k, v) in ep.electronDensityFunction.items())
      else:
        ep.electronDensityFunction = CountedAttributes(evlog, "dens_" + ep.species, ep.electronDensityFunction)
    pairpots2 = [Potential(p.speciesA, p.speciesB, CountedAttributes(evlog, "pair_{}_{}".format(p.speciesA, p.speciesB), p.potentialFunction)) for p in pairpots2]
    tab = cls(pairpots2, eampots2, 3.0, 4, 2.0, 3)
    out = io.StringIO()
    record("{} evaluation order".format(cname), outcome_of(tab.write, out), out.getvalue(), repr(evlog))

    # sub-class overriding properties used when writing
    class Doubled(cls):
      @property
      def nr(self):
        return 2 * super(Doubled, self).nr
      @property
      def potentials(self):
        return list(reversed(super(Doubled, self).potentials))
    tab = Doubled(pairpots, eampots, 6.5, 14, 10.0, 11)
    out = io.StringIO()
    record("{} subclass".format(cname), outcome_of(tab.write, out), out.getvalue())

  # ADP
  for species in [["Al", "Cu"], ["Cu", "Al"], ["Ag"], []]:
    eampots, pairpots = standard_model(species)
    dipole = [Potential(p.speciesA, p.speciesB, lambda r: 0.1 * math.exp(-r)) for p in pairpots]
    quadrupole = [Potential(p.speciesA, p.speciesB, lambda r: -0.05 * math.exp(-0.5 * r)) for p in pairpots[:1]]
    for cutoff, nr, cutoff_rho, nrho in grids:
      out = io.StringIO()
      def build_and_write():
        tab = eam_tabulation.ADP_EAMTabulation(pairpots, eampots, dipole, quadrupole, cutoff, nr, cutoff_rho, nrho)
        return tab.write(out)
      oc = outcome_of(build_and_write)
      record("ADP_EAMTabulation {} {}".format("-".join(species), (cutoff, nr, cutoff_rho, nrho)), oc, out.getvalue())
    tab = eam_tabulation.ADP_EAMTabulation(pairpots, eampots, dipole, quadrupole, 6.5, 14, 10.0, 11)
    for failafter in [None, 0]:
      log = EventLog(failafter)
      record("ADP_EAMTabulation {} event log {}".format("-".join(species), failafter), outcome_of(tab.write, log), repr(log.events))
    def bad(r):
      raise ArithmeticError("bad dipole")
    tab = eam_tabulation.ADP_EAMTabulation(pairpots, eampots, [Potential(p.speciesA, p.speciesB, bad) for p in pairpots], quadrupole, 6.5, 14, 10.0, 11)
    log = EventLog()
    record("ADP_EAMTabulation {} failing dipole".format("-".join(species)), outcome_of(tab.write, log), repr(log.events))

def configuration_cases():
  models = [
    ("tests/lammps_resources/CRG_U_Th.aspot", ["setfl", "DL_POLY_EAM", "eam_adp"]),
    ("tests/lammps_resources/AlFe_setfl_fs.aspot", ["setfl_fs", "DL_POLY_EAM_fs"]),
    ("tests/lammps_resources/Al_Cu_adp.aspot", ["eam_adp", "setfl", "DL_POLY_EAM"]),
    ("tests/config/config_resources/setfl.aspot", ["setfl", "DL_POLY_EAM"]),
    ("docs/user_guide/example_files/standard_eam.aspot", ["setfl", "DL_POLY_EAM", "setfl_fs"]),
    ("docs/user_guide/example_files/finnis_sinclair_eam.aspot", ["setfl_fs", "DL_POLY_EAM_fs", "setfl"]),
    ("docs/user_guide/example_files/Ag_sutton.aspot", ["setfl", "DL_POLY_EAM"]),
  ]
  small = [
    ConfigParserOverrideTuple(section = "Tabulation", key = "nr", value = "60"),
    ConfigParserOverrideTuple(section = "Tabulation", key = "nrho", value = "40"),
  ]
  for path, targets in models:
    for target in targets:
      for shrink in [True, False]:
        if not shrink and target != targets[0]:
          continue
        def tabulate():
          overrides = [ConfigParserOverrideTuple(section = "Tabulation", key = "target", value = target)]
          if shrink:
            overrides.extend(small)
          with open(os.path.join(WT, path)) as infile:
            cp = ConfigParser(infile, overrides = overrides)
            tabulation = Configuration().read_from_parser(cp)
          out = io.StringIO()
          tabulation.write(out)
          return type(tabulation).__name__, tabulation.target, hashlib.sha256(out.getvalue().encode("utf-8")).hexdigest(), len(out.getvalue())
        record("Configuration {} {} shrink={}".format(os.path.basename(path), target, shrink), outcome_of(tabulate))

def main():
  setfl_cases()
  funcfl_cases()
  tabeam_cases()
  default_out_cases()
  tabulation_object_cases()
  configuration_cases()
  print("DIGEST", digest.hexdigest())

if __name__ == "__main__":
  main()

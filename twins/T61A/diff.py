"""Differential script for twin A (atsim/potentials/_dlpoly_writeTABEAM.py).

Exercises writeTABEAM / writeTABEAMFinnisSinclair (directly, through the
tabulation classes and through Configuration/.aspot files) plus the
_tabulateFunction helper used by the test-suite, and prints a sha256 digest of
everything produced (outputs, exception type names and messages)."""
import hashlib
import io
import math
import os

from atsim.potentials import EAMPotential, Potential, writeTABEAM, writeTABEAMFinnisSinclair
from atsim.potentials import _dlpoly_writeTABEAM as mod
from atsim.potentials.eam_tabulation import TABEAM_EAMTabulation, TABEAM_FinnisSinclair_EAMTabulation
from atsim.potentials.config import Configuration

H = hashlib.sha256()
RECORDS = []


def record(label, value):
  s = "%s => %r" % (label, value)
  RECORDS.append(s)
  H.update(s.encode("utf-8"))
  H.update(b"\0")


def attempt(label, func):
  try:
    v = func()
  except BaseException as e:  # noqa
    record(label, ("EXC", type(e).__name__, str(e)))
  else:
    record(label, v)


class Recorder(object):
  """File like object remembering each write call"""

  def __init__(self):
    self.calls = []

  def write(self, s):
    self.calls.append(s)


def embed_a(rho):
  return -math.sqrt(rho) + 0.01 * rho * rho


def embed_b(rho):
  return 0.5 * rho - 1.0 / (1.0 + rho)


def embed_int(rho):
  return 3


def dens_a(r):
  return 1.3 * math.exp(-0.7 * r)


def dens_b(r):
  return 2.0 / (1.0 + r) ** 3


def dens_c(r):
  return r * 1e-7 - 1e-9


def pp_aa(r):
  return 1000.0 * math.exp(-r / 0.3) - 5.0 / (r + 0.1) ** 6


def pp_ab(r):
  return 1e5 * math.exp(-3.1 * r)


def pp_bb(r):
  return -12345.678901234 + r


def pp_fail(r):
  if r > 0.35:
    raise ZeroDivisionError("pp_fail at %r" % (r,))
  return 1.0


def eam_species(order):
  table = {
    "Al": EAMPotential("Al", 13, 26.98, embed_a, dens_a),
    "Cu": EAMPotential("Cu", 29, 63.55, embed_b, dens_b),
    "Ag": EAMPotential("Ag", 47, 107.87, embed_int, dens_c, latticeConstant=4.09, latticeType="fcc"),
  }
  return [table[k] for k in order]


def eam_species_fs(order, drop=None):
  dens = {"Al": dens_a, "Cu": dens_b, "Ag": dens_c}
  embed = {"Al": embed_a, "Cu": embed_b, "Ag": embed_int}
  out = []
  for k in order:
    d = dict((o, dens[o] if o == k else dens[k]) for o in order)
    if drop and drop[0] == k:
      del d[drop[1]]
    out.append(EAMPotential(k, 1, 1.0, embed[k], d))
  return out


def pairpots(spec):
  funcs = {"aa": pp_aa, "ab": pp_ab, "bb": pp_bb, "fail": pp_fail}
  return [Potential(a, b, funcs[f]) for (a, b, f) in spec]


def run_writer(writer, nrho, drho, nr, dr, eampots, pots, **kwargs):
  def f():
    rec = Recorder()
    try:
      writer(nrho, drho, nr, dr, eampots, pots, out=rec, **kwargs)
    finally:
      record("   writes-so-far", rec.calls)
    return rec.calls
  return f


# 1. Standard TABEAM, various element orders, grids and pair sets
PAIRSETS = [
  [],
  [("Al", "Al", "aa")],
  [("Cu", "Al", "ab"), ("Al", "Al", "aa"), ("Cu", "Cu", "bb")],
  [("Al", "Cu", "ab"), ("Cu", "Al", "bb")],          # same pair twice: last wins
  [("Ag", "Al", "ab"), ("Zr", "Zr", "aa")],          # a pair with no matching species
]
GRIDS = [(5, 0.5, 5, 0.1), (9, 0.25, 6, 0.3), (4, 1.0, 8, 0.05), (1, 1.0, 1, 1.0), (0, 0.1, 0, 0.1), (13, 1e-3, 3, 2.5)]
ORDERS = [["Al"], ["Al", "Cu"], ["Cu", "Al"], ["Ag", "Cu", "Al"], ["Cu", "Ag", "Al"], []]

for oi, order in enumerate(ORDERS):
  for pi, ps in enumerate(PAIRSETS):
    for gi, (nrho, drho, nr, dr) in enumerate(GRIDS):
      attempt("tabeam o%d p%d g%d" % (oi, pi, gi),
              run_writer(writeTABEAM, nrho, drho, nr, dr, eam_species(order), pairpots(ps)))
      attempt("tabeam_fs o%d p%d g%d" % (oi, pi, gi),
              run_writer(writeTABEAMFinnisSinclair, nrho, drho, nr, dr, eam_species_fs(order), pairpots(ps)))

# 2. Titles
for ti, title in enumerate(["", "short", "x" * 99, "y" * 100, "z" * 101, "w" * 250, "tab\there", u"caf\xe9 →", None, 12.5, ("a", "b")]):
  attempt("title %d" % ti, run_writer(writeTABEAM, 3, 0.1, 3, 0.1, eam_species(["Al", "Cu"]), pairpots(PAIRSETS[2]), title=title))
  attempt("title_fs %d" % ti, run_writer(writeTABEAMFinnisSinclair, 3, 0.1, 3, 0.1, eam_species_fs(["Cu", "Al"]), pairpots(PAIRSETS[1]), title=title))

# 3. Malformed input
attempt("fs missing density", run_writer(writeTABEAMFinnisSinclair, 4, 0.1, 4, 0.1, eam_species_fs(["Al", "Cu"], drop=("Cu", "Al")), []))
attempt("fs missing density 2", run_writer(writeTABEAMFinnisSinclair, 4, 0.1, 4, 0.1, eam_species_fs(["Cu", "Ag", "Al"], drop=("Ag", "Ag")), pairpots(PAIRSETS[2])))
attempt("fs non dict density", run_writer(writeTABEAMFinnisSinclair, 4, 0.1, 4, 0.1, eam_species(["Al", "Cu"]), []))
attempt("failing pair func", run_writer(writeTABEAM, 4, 0.1, 7, 0.1, eam_species(["Al"]), pairpots([("Al", "Al", "fail")])))
attempt("failing pair func fs", run_writer(writeTABEAMFinnisSinclair, 4, 0.1, 7, 0.1, eam_species_fs(["Al"]), pairpots([("Al", "Al", "fail")])))
attempt("float nr", run_writer(writeTABEAM, 4, 0.1, 4.0, 0.1, eam_species(["Al"]), []))
attempt("float nrho", run_writer(writeTABEAM, 4.5, 0.1, 4, 0.1, eam_species(["Al"]), []))
attempt("str nr", run_writer(writeTABEAM, 4, 0.1, "4", 0.1, eam_species(["Al"]), []))
attempt("None nr", run_writer(writeTABEAM, 4, 0.1, None, 0.1, eam_species(["Al"]), []))
attempt("str dr", run_writer(writeTABEAM, 4, 0.1, 4, "0.1", eam_species(["Al"]), []))
attempt("str drho", run_writer(writeTABEAMFinnisSinclair, 4, "x", 4, 0.1, eam_species_fs(["Al"]), []))
attempt("None eampots", run_writer(writeTABEAM, 4, 0.1, 4, 0.1, None, []))
attempt("None pairpots", run_writer(writeTABEAM, 4, 0.1, 4, 0.1, eam_species(["Al"]), None))
attempt("bad pairpot", run_writer(writeTABEAM, 4, 0.1, 4, 0.1, eam_species(["Al"]), [object()]))
attempt("mixed species types", run_writer(writeTABEAM, 2, 0.1, 2, 0.1,
        [EAMPotential(1, 1, 1.0, embed_a, dens_a), EAMPotential("Al", 1, 1.0, embed_a, dens_a)], []))
attempt("tuple valued func", run_writer(writeTABEAM, 2, 0.1, 2, 0.1, [EAMPotential("Al", 1, 1.0, lambda rho: (rho,), dens_a)], []))
attempt("str valued func", run_writer(writeTABEAM, 2, 0.1, 2, 0.1, [EAMPotential("Al", 1, 1.0, lambda rho: "1.0", dens_a)], []))
attempt("nan/inf func", run_writer(writeTABEAM, 3, 0.1, 3, 0.1,
        [EAMPotential("Al", 1, 1.0, lambda rho: float("nan"), lambda r: float("inf"))], pairpots([("Al", "Al", "bb")])))

# 4. _tabulateFunction helper (called directly by the test-suite)
for n in range(0, 11):
  def f(n=n):
    sio = io.StringIO()
    mod._tabulateFunction(sio, lambda x: x * x - 1.5, n, 0.75)
    return sio.getvalue()
  attempt("_tabulateFunction %d" % n, f)


def tab_fail():
  rec = Recorder()
  try:
    mod._tabulateFunction(rec, pp_fail, 9, 0.1)
  finally:
    record("   tab_fail writes", rec.calls)


attempt("_tabulateFunction failing", tab_fail)

# 5. Through the tabulation classes
for order in (["Al", "Cu"], ["Cu", "Ag", "Al"]):
  for cls, eams in ((TABEAM_EAMTabulation, eam_species(order)), (TABEAM_FinnisSinclair_EAMTabulation, eam_species_fs(order))):
    def f(cls=cls, eams=eams):
      tab = cls(pairpots(PAIRSETS[2]), eams, 6.5, 14, 30.0, 11)
      sio = io.StringIO()
      tab.write(sio)
      return sio.getvalue()
    attempt("class %s %s" % (cls.__name__, order), f)

# 6. Through Configuration / .aspot input
CFG = u"""[Tabulation]
target : %(target)s
nr : %(nr)s
dr : 0.05
nrho : %(nrho)s
drho : 0.5

[Potential-Form]
buck_morse(r_ij, A,rho,C,D,gamma,r0) : as.buck(r_ij,A,rho,C) + as.morse(r_ij, gamma,r0,D)
density(r_ij, n) : (n/r_ij^8) * 0.5 * (1+erf(20*(r_ij-1.5)))

[EAM-Embed]
%(embed)s

[EAM-Density]
%(density)s

[Pair]
%(pair)s
"""

EMBED = {"Th": "Th = as.sqrt -1.185", "U": "U = as.sqrt -1.806", "O": "O = as.sqrt -0.690"}
DENS = {"Th": "Th = density 1742.622", "U": "U = density 3450.995", "O": "O = density 106.856"}
PAIR = {
  "Th-Th": "Th-Th = buck_morse 18600 0.2884 0.0 0.0 0.0 0.0",
  "U-U": "U-U = as.buck 18600 0.2747 0.0",
  "O-O": "O-O = buck_morse 830.283 0.352856 3.884372 0.0 0.0 0.0",
  "Th-O": "Th-O = buck_morse 315.544 0.395903 0.0 0.62614 1.85960 2.49788",
  "O-U": "O-U = buck_morse 448.779 0.387758 0.0 0.66080 2.05815 2.38051",
}


def fs_density(species):
  lines = []
  for a in species:
    for b in species:
      lines.append("%s->%s = density %s" % (a, b, 1000.0 + 3 * len(lines)))
  return "\n".join(lines)


CASES = [
  ("DL_POLY_EAM", ["Th", "U", "O"], ["Th-Th", "U-U", "O-O", "Th-O", "O-U"], 12, 9),
  ("DL_POLY_EAM", ["O", "U"], ["O-U", "O-O"], 7, 5),
  ("DL_POLY_EAM", ["U"], [], 4, 4),
  ("DL_POLY_EAM_fs", ["Th", "U", "O"], ["Th-Th", "U-U", "O-O", "Th-O", "O-U"], 10, 6),
  ("DL_POLY_EAM_fs", ["O", "Th"], ["Th-O"], 5, 13),
]

for ci, (target, species, pairs, nr, nrho) in enumerate(CASES):
  def f(target=target, species=species, pairs=pairs, nr=nr, nrho=nrho):
    dens = fs_density(species) if target.endswith("_fs") else "\n".join(DENS[s] for s in species)
    cfg = CFG % dict(target=target, nr=nr, nrho=nrho,
                     embed="\n".join(EMBED[s] for s in species),
                     density=dens,
                     pair="\n".join(PAIR[p] for p in pairs))
    tab = Configuration().read(io.StringIO(cfg))
    sio = io.StringIO()
    tab.write(sio)
    return sio.getvalue()
  attempt("config %d" % ci, f)

if os.environ.get("TWIN_VERBOSE"):
  for r in RECORDS:
    print(r[:300])
print("records: %d" % len(RECORDS))
print("digest: %s" % H.hexdigest())

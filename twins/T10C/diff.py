"""Differential script for twin C (shared `float(i)*step` grid helper used by
the LAMMPS funcfl/setfl writers and the DL_POLY TABEAM writers).

Runs writeFuncFL, writeSetFL, writeSetFLFinnisSinclair, writeTABEAM,
writeTABEAMFinnisSinclair, the ADP tabulation and the private
_tabulateFunction over many grids (including degenerate and malformed ones),
records every abscissa each user function is called with (and in which order)
and everything written.  Prints a sha256 digest.
"""
import decimal
import fractions
import hashlib
import io
import math

from atsim.potentials import (EAMPotential, Potential, writeFuncFL, writeSetFL,
                              writeSetFLFinnisSinclair, writeTABEAM,
                              writeTABEAMFinnisSinclair)
from atsim.potentials._dlpoly_writeTABEAM import _tabulateFunction
from atsim.potentials.eam_tabulation import (ADP_EAMTabulation,
                                             SetFL_EAMTabulation,
                                             SetFL_FS_EAMTabulation,
                                             TABEAM_EAMTabulation,
                                             TABEAM_FinnisSinclair_EAMTabulation)

try:
  import numpy
except ImportError:
  numpy = None

LOG = []


def log(*items):
  LOG.append(repr(items))


class Traced(object):
  def __init__(self, name, func, fail_after=None):
    self.name = name
    self.func = func
    self.fail_after = fail_after
    self.ncalls = 0

  def __call__(self, x):
    LOG.append("call %s %r %s" % (self.name, x, type(x).__name__))
    self.ncalls += 1
    if self.fail_after is not None and self.ncalls > self.fail_after:
      raise RuntimeError("%s failed at call %d" % (self.name, self.ncalls))
    return self.func(x)


def make(species, fs, fail=None):
  """fail = (kind, n) makes functions of that kind raise after n calls"""
  def fa(kind):
    if fail and fail[0] == kind:
      return fail[1]
    return None
  eam = []
  for n, sp in enumerate(species):
    if fs:
      d = dict((o, Traced("dens %s>%s" % (sp, o), lambda r, k=n + 2 * m: (k + 1.0) / (1.0 + r * r), fa("dens"))) for m, o in enumerate(species))
    else:
      d = Traced("dens %s" % sp, lambda r, k=n: (k + 1.0) / (1.0 + r * r), fa("dens"))
    e = Traced("embed %s" % sp, lambda rho, k=n: -(k + 1.0) * math.sqrt(rho) + 0.01 * rho, fa("embed"))
    eam.append(EAMPotential(sp, 13 + n, 26.98 + n, e, d, 4.05 + n, "fcc"))
  pairs = []
  i = 0
  for a in species:
    for b in species:
      if a <= b:
        i += 1
        pairs.append(Potential(a, b, Traced("pair %s-%s" % (a, b), lambda r, k=i: k * 10.0 * math.exp(-r / 0.3) + 0.001 * k, fa("pair"))))
  return eam, pairs


def run(label, thunk):
  out = io.StringIO()
  try:
    thunk(out)
    log(label, "ok", out.getvalue())
  except Exception as e:
    log(label, "exc", type(e).__name__, str(e), out.getvalue())


GRIDS = [
    # nrho, drho, nr, dr
    (5, 0.1, 5, 0.1),
    (6, 0.3, 7, 0.7),           # values with non-trivial rounding
    (11, 1e-3, 13, 1.0 / 3.0),
    (4, 2, 8, 1),               # integer steps
    (1, 0.5, 1, 0.5),
    (0, 0.5, 0, 0.5),           # empty grids
    (3, 0.0, 3, 0.0),
    (3, -0.25, 3, 0.5),         # negative rho => sqrt domain error in embed
    (-2, 0.5, -2, 0.5),
    (9, 1e-300, 9, 1e300),      # denormal-ish / overflow to inf
    (3, True, 3, True),
    # malformed
    (3.0, 0.1, 4, 0.1),         # float nrho
    (3, 0.1, 4.0, 0.1),         # float nr
    (3, "a", 4, 0.1),           # str drho
    (3, 0.1, 4, "b"),           # str dr
    (3, None, 4, 0.1),
    (3, 0.1, 4, None),
    ("3", 0.1, 4, 0.1),
    (3, 0.1, None, 0.1),
    (3, decimal.Decimal("0.1"), 4, 0.1),
    (3, 0.1, 4, decimal.Decimal("0.1")),
    (3, fractions.Fraction(1, 3), 4, fractions.Fraction(1, 7)),
    (3, 1 + 2j, 4, 0.5),
    (3, [0.1], 4, 0.5),         # list * float
]
if numpy is not None:
  GRIDS.append((4, numpy.float64(0.3), 5, numpy.float32(0.7)))
  GRIDS.append((numpy.int64(4), 0.3, numpy.int32(5), 0.7))

WRITERS = [
    ("setfl", False, lambda a, eam, pp, out: writeSetFL(a[0], a[1], a[2], a[3], eam, pp, out, ["c"])),
    ("setfl_cut", False, lambda a, eam, pp, out: writeSetFL(a[0], a[1], a[2], a[3], eam, pp, out, ["c"] * 5, cutoff=1.75)),
    ("setfl_fs", True, lambda a, eam, pp, out: writeSetFLFinnisSinclair(a[0], a[1], a[2], a[3], eam, pp, out)),
    ("tabeam", False, lambda a, eam, pp, out: writeTABEAM(a[0], a[1], a[2], a[3], eam, pp, out, "t")),
    ("tabeam_fs", True, lambda a, eam, pp, out: writeTABEAMFinnisSinclair(a[0], a[1], a[2], a[3], eam, pp, out, "t" * 120)),
    ("funcfl", False, lambda a, eam, pp, out: writeFuncFL(a[0], a[1], a[2], a[3], eam, pp, out, "title")),
]

for species in (["Al"], ["Cu", "Al"], ["Al", "Cu", "Zr"]):
  for grid in GRIDS:
    for name, fs, writer in WRITERS:
      eam, pp = make(species, fs)
      run("%s|%s|%r" % (name, ",".join(species), grid), lambda out: writer(grid, eam, pp, out))

# User functions failing part-way through: nothing must reach `out`
for species in (["Al"], ["Cu", "Al"]):
  for kind in ("embed", "dens", "pair"):
    for n in (0, 1, 3, 7):
      for name, fs, writer in WRITERS:
        eam, pp = make(species, fs, (kind, n))
        run("fail %s|%s|%s>%d" % (name, ",".join(species), kind, n), lambda out: writer((4, 0.25, 6, 0.5), eam, pp, out))

# funcfl: negative pair energy => sqrt domain error after all evaluations
eam, pp = make(["Al"], False)
pp = [Potential("Al", "Al", Traced("negpair", lambda r: -1.0 - r))]
run("funcfl neg", lambda out: writeFuncFL(3, 0.1, 4, 0.2, eam, pp, out, "neg"))
# funcfl: empty lists
run("funcfl empty", lambda out: writeFuncFL(3, 0.1, 4, 0.2, [], [], out, "neg"))

# Tabulation objects (public object API) incl. ADP dipole / quadrupole blocks
for species in (["Al"], ["Cu", "Al"]):
  for cutoff, nr, cutoff_rho, nrho in [(6.0, 7, 10.0, 5), (2.1, 4, 0.7, 8), (5, 6, 3, 4), (1.0, 1, 1.0, 1), (1.0, 2, 1.0, 0), (1.0, 3.0, 1.0, 3)]:
    tag = "%s|%r" % (",".join(species), (cutoff, nr, cutoff_rho, nrho))
    for cls, fs in ((SetFL_EAMTabulation, False), (SetFL_FS_EAMTabulation, True), (TABEAM_EAMTabulation, False), (TABEAM_FinnisSinclair_EAMTabulation, True)):
      def go(out):
        eam, pp = make(species, fs)
        cls(pp, eam, cutoff, nr, cutoff_rho, nrho).write(out)
      run(cls.__name__ + " " + tag, go)

    def go(out):
      eam, pp = make(species, False)
      _, dip = make(species, False)
      _, quad = make(list(reversed(species)), False)
      ADP_EAMTabulation(pp, eam, dip[:1], quad, cutoff, nr, cutoff_rho, nrho).write(out)
    run("adp " + tag, go)

    def go(out):
      eam, pp = make(species, False)
      _, dip = make(species, False, ("pair", 5))
      ADP_EAMTabulation(pp, eam, dip, [], cutoff, nr, cutoff_rho, nrho).write(out)
    run("adp fail " + tag, go)

# The private tabulation helper which is imported by the test-suite
for numpoints, step in [(5, 1.0), (4, 0.1), (8, 0.3), (9, 0.3), (0, 1.0), (1, 2), (3, "x"), (2.0, 1.0), (6, None)]:
  run("_tabulateFunction %r" % ((numpoints, step),), lambda out: _tabulateFunction(out, Traced("f", lambda x: 3.0 * x - 0.5), numpoints, step))
run("_tabulateFunction fail", lambda out: _tabulateFunction(out, Traced("f", lambda x: x, 5), 7, 0.5))
run("_tabulateFunction str", lambda out: _tabulateFunction(out, Traced("f", lambda x: "notnumber"), 7, 0.5))

blob = "\n".join(LOG).encode("utf-8")
print("records", len(LOG), "bytes", len(blob))
print("sha256", hashlib.sha256(blob).hexdigest())

"""Differential script for twin C (TableReaderBase.getValue/_findIndex, Cubic_Spline_Table_Form,
EAMPotential, TableReader)."""
import hashlib, inspect, io, math, os, sys
import numpy
import atsim.potentials as P
from atsim.potentials import _tablereaders, TableReader, Potential, EAMPotential, tableforms
from atsim.potentials import potentialforms as pf
from atsim.potentials.config import Configuration, ConfigParser, ConfigParserOverrideTuple as CPT

out = []
def rec(tag, thunk):
  try:
    out.append("%s => %r" % (tag, thunk()))
  except BaseException as e:
    out.append("%s !! %s" % (tag, type(e).__name__))

def safe(f, *a):
  try:
    return repr(f(*a))
  except Exception as e:
    return "!" + type(e).__name__

def sha(s):
  return hashlib.sha256(s.encode()).hexdigest()

RES = os.path.join("tests", "lammps_resources")

# ---------------------------------------------------------------- getValue / _findIndex
class ListReader(_tablereaders.TableReaderBase):
  def _populate(self, rows):
    self.extend(rows)

TABLES = {
 "simple": [(0.0, 1.0), (1.0, 2.0), (2.0, 4.0)],
 "neg": [(-3.0, 9.0), (-1.5, 2.0), (0.0, 0.0), (0.25, 1.0), (7.0, -3.0)],
 "dups": [(0.0, 0.0), (1.0, 2.0), (1.0, 3.0), (1.0, 5.0), (2.0, 1.0)],
 "dupend": [(0.0, 0.0), (2.0, 1.0), (2.0, 7.0)],
 "dupstart": [(0.0, 4.0), (0.0, 5.0), (2.0, 1.0)],
 "single": [(1.0, 2.0)],
 "two": [(1.0, 2.0), (1.5, -2.0)],
 "empty": [],
 "ints": [(0, 1), (1, 3), (3, 4)],
 "unsorted": [(2.0, 1.0), (0.0, 5.0), (1.0, 3.0)],
 "nanx": [(0.0, 1.0), (float("nan"), 5.0), (2.0, 3.0)],
 "infx": [(float("-inf"), 3.0), (0.0, 1.0), (float("inf"), 5.0)],
 "tiny": [(1e-300, 1e300), (2e-300, -1e300), (1.0, 0.0)],
 "triples": [(0.0, 1.0, 9), (1.0, 2.0, 9)],
 "strs": [("a", 1.0), ("c", 2.0)],
}
XS = [-5.0, -3.0, -2.0, -1.5, -1e-9, -0.0, 0.0, 1e-300, 1.5e-300, 1e-9, 0.125, 0.25, 0.5, 1.0, 1.0000000001, 1.25, 1.5, 2.0,
      2.5, 3, 3.0, 6.999, 7.0, 7.001, 1e9, float("inf"), float("-inf"), float("nan"), 1, True, numpy.float64(0.75),
      numpy.float32(0.5), "b", None, (1.0,)]
for k in sorted(TABLES):
  rows = TABLES[k]
  rec("gv:" + k, lambda: (lambda r: [safe(r.getValue, x) for x in XS])(ListReader(list(rows))))
  rec("fi:" + k, lambda: (lambda r: [safe(r._findIndex, x) for x in XS])(ListReader(list(rows))))
  rec("gvconv:" + k, lambda: (lambda r: (list(r), [safe(r.getValue, x) for x in XS]))(
        ListReader(list(rows), lambda x: x * 0.5, lambda y: y + 1)))

rec("gv:nparray", lambda: repr(ListReader(list(TABLES["simple"])).getValue(numpy.array([0.5]))))
rec("gv:nparray2", lambda: repr(ListReader(list(TABLES["simple"])).getValue(numpy.array([0.5, 1.5]))))

class Probe(float):
  """float subclass logging comparisons"""
  log = []
  def __lt__(self, o): Probe.log.append("lt"); return float.__lt__(self, o)
  def __gt__(self, o): Probe.log.append("gt"); return float.__gt__(self, o)
  def __eq__(self, o): Probe.log.append("eq"); return float.__eq__(self, o)
  __hash__ = float.__hash__
def cmpseq(x):
  del Probe.log[:]
  r = ListReader(list(TABLES["neg"]))
  v = r.getValue(Probe(x))
  return v, list(Probe.log)
for x in (-4.0, -3.0, -2.0, 0.0, 0.1, 7.0, 8.0):
  rec("cmpseq:%r" % x, lambda: cmpseq(x))

DAT = "# c\n3 9\n1 1\n\n2 4\n0 0\n 2.5\t6.25 junk\n"
rec("dat", lambda: (lambda r: (list(r), [safe(r.getValue, x) for x in XS]))(_tablereaders.DatReader(io.StringIO(DAT))))
rec("tr", lambda: (lambda t: (type(t.datReader).__name__, list(t.datReader), t.datReader is t.datReader, [safe(t, x) for x in XS]))(TableReader(io.StringIO(DAT))))
rec("tr:kw", lambda: TableReader(fileobject=io.StringIO(DAT))(separation=1.5))
rec("tr:empty", lambda: TableReader(io.StringIO(""))(1.0))
rec("tr:bad", lambda: TableReader(io.StringIO("a b\n")))
rec("tr:none", lambda: TableReader(None))

for name in sorted(os.listdir(RES)):
  if name.endswith(".table"):
    def real():
      with open(os.path.join(RES, name)) as f:
        tr = TableReader(f)
      d = tr.datReader
      lo, hi = d[0][0], d[-1][0]
      n = 211
      vals = [tr(lo + (hi - lo) * i / n) for i in range(-3, n + 4)] + [tr(x) for x, y in d[::97]]
      return len(d), sha(repr(vals))
    rec("real:" + name, real)

# ---------------------------------------------------------------- Cubic_Spline_Table_Form
C = tableforms.Cubic_Spline_Table_Form
DATA = {
 "foiles": ([0.0, 0.00728, 0.01455, 0.02910, 0.03347], [0.0, -3.2170, -4.6278, -2.7699, 0.0]),
 "line": ([0, 1, 2, 3], [2, 4, 6, 8]),
 "sin": ([0.1 * i for i in range(40)], [math.sin(0.1 * i) for i in range(40)]),
 "np": (numpy.linspace(1.0, 6.0, 23), numpy.exp(-numpy.linspace(1.0, 6.0, 23))),
 "four": ([1.0, 2.0, 4.0, 8.0], [1.0, -1.0, 1.0, -1.0]),
 "tuple": ((0.0, 0.5, 1.5, 3.0, 3.5), (5.0, 4.0, 3.5, 1.0, 0.0)),
 "three": ([1.0, 2.0, 3.0], [1.0, 2.0, 3.0]),
 "two": ([1.0, 2.0], [1.0, 2.0]),
 "empty": ([], []),
 "unsorted": ([0.0, 2.0, 1.0, 3.0, 4.0], [0.0, 1.0, 2.0, 3.0, 4.0]),
 "dupx": ([0.0, 1.0, 1.0, 3.0, 4.0], [0.0, 1.0, 2.0, 3.0, 4.0]),
 "mismatch": ([0.0, 1.0, 2.0, 3.0], [0.0, 1.0, 2.0]),
 "strs": (["a", "b", "c", "d"], [0.0, 1.0, 2.0, 3.0]),
 "numstrs": (["0", "1", "2", "3"], ["0", "1", "4", "9"]),
 "nan": ([0.0, 1.0, 2.0, 3.0, 4.0], [0.0, float("nan"), 2.0, 3.0, 4.0]),
 "none": (None, None),
 "scalar": (1.0, 2.0),
}
CX = [-1.0, 0.0, 0.001, 0.00728, 0.01, 0.03347, 0.05, 0.5, 1, 1.0, 1.7, 2.5, 3.0, 3.9, 4.0, 6.0, 7.99, 8.0, 9.0, 1e6,
      float("inf"), float("nan"), numpy.float64(2.25), numpy.array(2.25), numpy.array([2.25]), numpy.array([1.0, 2.0]), "x", None, [1.5]]
for k in sorted(DATA):
  xd, yd = DATA[k]
  def run():
    c = C(xd, yd)
    return (type(c.interpolant).__name__, c.interpolant is c.interpolant,
            [safe(c, x) for x in CX], [safe(c.deriv, x) for x in CX], [safe(c.deriv2, x) for x in CX],
            [type(c(1.5)).__name__, type(c.deriv(1.5)).__name__, type(c.deriv2(1.5)).__name__],
            repr(c.interpolant.get_knots().tolist()), repr(c.interpolant.get_coeffs().tolist()))
  rec("spline:" + k, run)
rec("spline:kw", lambda: C(x_data=[0, 1, 2, 3], y_data=[0, 1, 8, 27])(x=1.5))
rec("spline:cls", lambda: (C.config_label, C.is_potential, str(inspect.signature(C.__init__)), str(inspect.signature(C.__call__)),
                           str(inspect.signature(C.deriv)), str(inspect.signature(C.deriv2)), isinstance(C.interpolant, property),
                           sorted(n for n, o in inspect.getmembers(tableforms, pf.is_potential))))
rec("spline:gradient", lambda: (lambda c: (P.gradient(c)(1.3), P.gradient(P.gradient(c))(1.3), P.plus(c, pf.buck(1000.0, 0.3, 0.0)).deriv(1.3),
                                           P.plus(c, pf.buck(1000.0, 0.3, 0.0)).deriv2(1.3)))(C(*DATA["sin"])))

CFG = u"""
[Tabulation]
target : %(target)s
cutoff : 5.0
nr : %(nr)d

[Pair]
O-U : tabbed
O-O : as.buck 11272.6 0.1363 134.0
U-U : sum(tabbed, as.buck 1000.0 0.3 0.0)

[Table-Form:tabbed]
%(interp)s
xy : 0.0 0.0
     0.5 100.0
     1.0 20.0
     1.5 5.0
     2.5 -1.5
     3.5 -0.25
     5.0 0.0
"""
for target in ("LAMMPS", "DL_POLY", "GULP"):
  for nr in (11, 64):
    for interp in ("interpolation : cubic_spline", ""):
      def run():
        tab = Configuration().read(io.StringIO(CFG % dict(target=target, nr=nr, interp=interp)))
        sio = io.StringIO()
        tab.write(sio)
        return sha(sio.getvalue())
      rec("cfg:%s:%d:%s" % (target, nr, bool(interp)), run)
rec("cfg:badinterp", lambda: Configuration().read(io.StringIO(CFG % dict(target="LAMMPS", nr=11, interp="interpolation : linear"))))
rec("cfg:baddata", lambda: Configuration().read(io.StringIO((CFG % dict(target="LAMMPS", nr=11, interp="")).replace("0.5 100.0", "0.0 100.0"))))

def adp():
  ov = [CPT("Tabulation", "nr", "150"), CPT("Tabulation", "dr", "0.04"), CPT("Tabulation", "nrho", "120"), CPT("Tabulation", "drho", "0.15")]
  with open(os.path.join(RES, "Al_Cu_adp.aspot")) as f:
    tab = Configuration().read_from_parser(ConfigParser(f, overrides=ov))
  eam = dict((ep.species, ep) for ep in tab.eam_potentials)
  vals = [eam[s].embeddingValue(r) for s in ("Al", "Cu") for r in (0.0, 1.0019, 3.3, 50.0)]
  vals += [eam[s].electronDensity(r) for s in ("Al", "Cu") for r in (0.5, 1.6097, 3.3, 9.0)]
  attrs = [(ep.species, ep.atomicNumber, ep.mass, ep.latticeConstant, ep.latticeType) for ep in tab.eam_potentials]
  sio = io.StringIO()
  tab.write(sio)
  return vals, attrs, sha(sio.getvalue())
rec("cfg:adp", adp)

# ---------------------------------------------------------------- EAMPotential
def embed(rho): return -math.sqrt(rho)
def dens_a(r): return math.exp(-r) * 3.0
def dens_b(r): return (1.0 / r) ** 6 if r else 0.0
with open(os.path.join(RES, "setfl_AlEmbed.table")) as f: alE = TableReader(f)
with open(os.path.join(RES, "setfl_AlDensity.table")) as f: alD = TableReader(f)
with open(os.path.join(RES, "setfl_CuEmbed.table")) as f: cuE = TableReader(f)
with open(os.path.join(RES, "setfl_CuDensity.table")) as f: cuD = TableReader(f)
with open(os.path.join(RES, "setfl_AlAlPair.table")) as f: alal = TableReader(f)
with open(os.path.join(RES, "setfl_CuAlPair.table")) as f: cual = TableReader(f)
with open(os.path.join(RES, "setfl_CuCuPair.table")) as f: cucu = TableReader(f)

def describe(e):
  return (sorted((k, getattr(v, "__name__", v if not callable(v) else type(v).__name__)) for k, v in vars(e).items()
                 if not isinstance(v, dict)), list(vars(e).keys()))
rec("eam:pos", lambda: describe(EAMPotential("Ag", 47, 107.8682, embed, dens_a)))
rec("eam:full", lambda: describe(EAMPotential("Ag", 47, 107.8682, embed, dens_a, 4.09, "bcc")))
rec("eam:kw", lambda: describe(EAMPotential(latticeType="hcp", latticeConstant=3, electronDensityFunction=dens_b, embeddingFunction=embed,
                                            mass=1.0, atomicNumber=1, species="H")))
rec("eam:sig", lambda: (str(inspect.signature(EAMPotential.__init__)), str(inspect.signature(EAMPotential.embeddingValue)),
                        str(inspect.signature(EAMPotential.electronDensity))))
rec("eam:missing", lambda: EAMPotential("Ag", 47, 107.8682, embed))
rec("eam:extra", lambda: EAMPotential("Ag", 47, 107.8682, embed, dens_a, 1.0, "fcc", 3))
def usage():
  e = EAMPotential("Ag", 47, 107.8682, embed, dens_a)
  r = [safe(e.embeddingValue, v) for v in (0.0, 2.0, -1.0, "x", None)]
  r += [safe(e.electronDensity, v) for v in (0.0, 2.0, -1.0, "x", None)]
  e.embeddingFunction = lambda rho: rho * 2      # attributes are looked up at call time
  e.electronDensityFunction = {"Ag": dens_b}
  r += [safe(e.embeddingValue, 4.0), safe(e.electronDensity, 1.0)]
  e.embeddingFunction = None
  r += [safe(e.embeddingValue, 4.0)]
  r += [safe(e.embeddingValue), safe(e.electronDensity, 1, 2), safe(lambda: e.embeddingValue(density=3.0)), safe(lambda: e.electronDensity(separation=3.0))]
  return r
rec("eam:usage", usage)

def eams(order):
  d = {"Al": EAMPotential("Al", 13, 26.98, alE, alD, 4.05, "fcc"), "Cu": EAMPotential("Cu", 29, 63.55, cuE, cuD, 3.61, "fcc")}
  return [d[s] for s in order]
def fs_eams(order):
  d = {"Al": EAMPotential("Al", 13, 26.98, alE, {"Al": alD, "Cu": dens_a}, 4.05, "fcc"),
       "Cu": EAMPotential("Cu", 29, 63.55, embed, {"Cu": cuD, "Al": dens_b}, 3.61)}
  return [d[s] for s in order]
def pairs(order):
  l = [Potential("Al", "Al", alal), Potential("Cu", "Al", cual), Potential("Cu", "Cu", cucu)]
  return l if order[0] == "Al" else l[::-1]
for order in (("Al", "Cu"), ("Cu", "Al")):
  for nrho, drho, nr, dr in ((20, 5.0, 30, 0.2), (57, 1.25, 43, 0.11)):
    tag = "%s:%d:%d" % ("".join(order), nrho, nr)
    def w(fn, es, **kw):
      sio = io.StringIO()
      fn(nrho, drho, nr, dr, es, pairs(order), out=sio, **kw)
      return sha(sio.getvalue())
    rec("setfl:" + tag, lambda: w(P.writeSetFL, eams(order), comments=["a", "b", "c"]))
    rec("setflfs:" + tag, lambda: w(P.writeSetFLFinnisSinclair, fs_eams(order), comments=["a", "b", "c"], cutoff=4.5))
    rec("tabeam:" + tag, lambda: w(P.writeTABEAM, eams(order), title="t"))
    rec("tabeamfs:" + tag, lambda: w(P.writeTABEAMFinnisSinclair, fs_eams(order), title="t"))
    rec("setfl_baddens:" + tag, lambda: w(P.writeSetFL, fs_eams(order)))
    rec("setflfs_baddens:" + tag, lambda: w(P.writeSetFLFinnisSinclair, eams(order)))
def funcfl():
  with open(os.path.join(RES, "AgU3embedding.table")) as f: e = TableReader(f)
  with open(os.path.join(RES, "AgU3effectivecharge.table")) as f: z = TableReader(f)
  with open(os.path.join(RES, "AgU3density.table")) as f: d = TableReader(f)
  sio = io.StringIO()
  P.writeFuncFL(50, 0.005, 50, 0.1, [EAMPotential("Ag", 47, 107.8682, e, d, 4.09, "FCC")], [Potential("Ag", "Ag", z)], out=sio, title="x")
  return sha(sio.getvalue())
rec("funcfl", funcfl)

blob = "\n".join(out)
if "-v" in sys.argv: print(blob)
print(len(out), "records; errors:", sum(1 for l in out if " !! " in l))
print("DIGEST", hashlib.sha256(blob.encode()).hexdigest())

#!/venv/bin/python
"""Differential check script (see _twins/notes.md).

Run through the worktree wrapper, from the worktree root:

  /venv/bin/python -W ignore /tmp/wtpy.py /tmp/wt_r7_4 _twins/diffB.py digest    # existing behaviour digest (clean == edited)
  /venv/bin/python -W ignore /tmp/wtpy.py /tmp/wt_r7_4 _twins/diffB.py feature   # new feature demonstration (edited tree only)
  /venv/bin/python -W ignore /tmp/wtpy.py /tmp/wt_r7_4 _twins/diffB.py hashseed  # new feature table under several PYTHONHASHSEED values
"""
from __future__ import print_function

import glob
import hashlib
import inspect
import io
import logging
import math
import os
import subprocess
import sys

logging.disable(logging.CRITICAL)

import atsim.potentials
from atsim.potentials import potentialfunctions, potentialforms, plus, product, pow as potpow
from atsim.potentials import Potential, writePotentials
from atsim.potentials._util import gradient
from atsim.potentials.config import Configuration, ConfigParser
from atsim.potentials.config._common import ConfigurationException
from atsim.potentials.config._potential_form_registry import Potential_Form_Registry
from atsim.potentials.tools.potable import main as potable_main

WT = os.path.dirname(os.path.dirname(os.path.abspath(__file__)))

# The forms that exist in the unmodified tree, with parameter sets inside their domain
BASELINE = dict(
  bornmayer = [(1000.0, 0.2), (-3.5, 1.7), (0.0, 0.3)],
  buck = [(2000.0, 0.2, 32.0), (1388.773, 0.3623, 175.0), (0.0, 1.0, -4.0)],
  constant = [(1.0,), (-2.5,), (0.0,)],
  coul = [(-1.0, 2.0), (4.0, -2.0), (0.0, 1.0)],
  exponential = [(1.0, 2), (-5.8, 4), (3.0, 0.5), (1.2, -1), (1.2, -2.5)],
  exp_spline = [(1.0, -0.5, 0.1, -0.01, 0.001, -0.0001, 0.0), (0.2, 0.1, -0.3, 0.02, 0.0, 0.0, -3.0)],
  hbnd = [(1000.0, 2000.0), (0.0, -3.0)],
  lj = [(1.2, 0.9), (0.01, 3.4), (-1.0, 2.0)],
  morse = [(0.1, 2.1, 1000.0), (1.65, 2.369, 0.5), (-0.4, 1.0, -2.0)],
  polynomial = [(), (1.0,), (1.0, 2.5), (1.0, 2.5, -3.0), (479.9553, -1372.5304, 1562.2233, -881.9685, 246.4347, -27.2447), (0, 0, 0, 0, 0, 0, 0, 0, 1.5)],
  sqrt = [(3.0,), (-0.5,)],
  tang_toennies = [(832.4, 1.865, 129.6, 4187.0, 155500.0), (41.96, 2.523, 1.461, 14.11, 183.6)],
  zbl = [(92, 8), (14, 8), (1, 1)],
  zero = [()])

RVALS = [0.3, 0.75, 1.0, 1.6, 2.5, 4.0, 7.5, 12.0, 30.0]

def fmt(v):
  return "%.15e" % v

def sv(f, *args):
  """Safely evaluate f(*args) giving a formatted value or the name of the exception raised"""
  try:
    return fmt(f(*args))
  except Exception as e:
    return "EXC:" + type(e).__name__

class Digest(object):
  def __init__(self):
    self._h = hashlib.sha256()
    self.nlines = 0

  def add(self, *items):
    line = " ".join([str(i) for i in items])
    self._h.update(line.encode("utf-8"))
    self._h.update(b"\n")
    self.nlines += 1

  def hexdigest(self):
    return self._h.hexdigest()

def make_registry(text = u""):
  cp = ConfigParser(io.StringIO(text))
  return Potential_Form_Registry(cp, register_standard = True, register_pymath_functions = True)

def tabulate_text(text):
  tab = Configuration().read(io.StringIO(text))
  out = io.StringIO()
  tab.write(out)
  return out.getvalue()

def outcome(callable_, *args):
  """Return ('ok', value) or ('exc', type name, is-configuration-error, message)"""
  try:
    return ("ok", callable_(*args))
  except Exception as e:
    return ("exc", type(e).__name__, isinstance(e, ConfigurationException), str(e))

def run_potable(argv):
  """Run the potable command line in-process, returns exit status"""
  old_argv = sys.argv
  old_err = sys.stderr
  sys.stderr = io.StringIO()
  try:
    sys.argv = ["potable"] + list(argv)
    try:
      potable_main()
    except SystemExit as e:
      return e.code, sys.stderr.getvalue()
    return 0, sys.stderr.getvalue()
  finally:
    sys.argv = old_argv
    sys.stderr = old_err

PAIR_MODEL = u"""[Tabulation]
target : {target}
cutoff : 6.0
nr : {nr}

[Pair]
O-O : as.buck 1633.01 0.327022 3.94879
U-O : sum(as.buck 693.65 0.327022 0.0, as.morse 1.65 2.369 0.57719)
U-U : >0 as.zbl 92 92 >=0.9 as.bornmayer 294.64 0.327022 > 4.5 as.zero
Si-O : spline(>0 as.zbl 14 8 >=0.8 exp_spline >=1.4 as.buck 18003.7572 0.205204 133.5381)
Si-Si : product(as.lj 0.1 2.0, pow(as.constant 2.0, as.polynomial 0.0 0.5))
Gd-O : trans(as.hbnd 100.0 20.0, as.constant 0.5)
Gd-Gd : my_form 3.0 1.5
Gd-U : as.buck4 11272.6 0.1363 134.0 1.2 2.1 2.6
Gd-Si : sum(as.coul 1.5 -2.0, as.exponential 2.0 -3.5, as.sqrt 0.2, as.tang_toennies 41.96 2.523 1.461 14.11 183.6, tabby)

[Potential-Form]
my_form(r, A, B) = other(r, A) + as.morse(r, 1.1, B, 0.3) + if(r < 2, pymath.floor(r), 0.5)
other(r_ij, X) = X * exp(-r_ij) + as.polynomial(r_ij, 1, 2, 3)

[Table-Form:tabby]
interpolation : cubic_spline
x : 0.0 1.0 2.0 3.0 4.0 5.0 6.0
y : 5.0 2.0 0.5 0.1 -0.2 -0.05 0.0
"""

EAM_MODEL = u"""[Tabulation]
target : {target}
cutoff : 6.0
nr : 40
cutoff_rho : 30.0
nrho : 30

[Species]
Al.lattice_constant : 4.05

[EAM-Embed]
Al : as.polynomial 0 -1.5 0.02
Cu : product(as.constant -1.2, as.sqrt 1.0)

[EAM-Density]
{density}

[Pair]
Al-Al : as.morse 1.2 2.8 0.3
Cu-Al : as.buck 1500.0 0.3 10.0
"""

def digest_existing():
  d = Digest()

  # 1. Potential functions, function factories, registry 'as.NAME' forms and custom formula calls
  registry = make_registry()
  for name in sorted(BASELINE):
    func = getattr(potentialfunctions, name)
    factory = getattr(potentialforms, name)
    regform = registry["as." + name]
    d.add("sig", name, registry["as." + name].signature)
    for params in BASELINE[name]:
      inst = factory(*params)
      reginst = regform(*params)
      for r in RVALS:
        d.add("func", name, params, r, sv(func, r, *params), sv(func.deriv, r, *params), sv(func.deriv2, r, *params))
        d.add("form", name, params, r, sv(inst, r), sv(inst.deriv, r), sv(inst.deriv2, r))
        d.add("reg", name, params, r, sv(reginst, r), sv(reginst.deriv, r), sv(reginst.deriv2, r))
  d.add("buck4", [fmt(potentialforms.buck4(11272.6, 0.1363, 134.0, 1.2, 2.1, 2.6)(r)) for r in RVALS])
  baseline_names = set(["as." + n for n in BASELINE] + ["as.buck4"])
  d.add("registered", [n for n in registry.registered if n in baseline_names])
  d.add("members", [n for (n, _o) in inspect.getmembers(potentialfunctions, potentialforms._iscallable) if n in BASELINE])

  # Combinators
  comb = plus(potentialforms.buck(1000.0, 0.3, 12.0), product(potentialforms.lj(0.2, 2.5), potpow(potentialforms.constant(2.0), potentialforms.polynomial(0.0, 0.25))))
  for r in RVALS:
    d.add("comb", r, fmt(comb(r)), fmt(comb.deriv(r)), fmt(comb.deriv2(r)))

  # 2. potable models to all pair targets
  for target, nr in [("LAMMPS", 61), ("DL_POLY", 64), ("DLPOLY", 24), ("GULP", 31)]:
    txt = tabulate_text(PAIR_MODEL.format(target = target, nr = nr))
    d.add("pair", target, nr, len(txt), hashlib.sha256(txt.encode("utf-8")).hexdigest())

  # 3. EAM targets
  dens = u"Al : as.bornmayer 3.0 0.8\nCu : as.exponential 2.0 -2.0"
  dens_fs = u"Al->Al : as.bornmayer 3.0 0.8\nAl->Cu : as.exponential 2.0 -2.0\nCu->Al : as.bornmayer 1.0 1.1\nCu->Cu : as.hbnd 3.0 1.0"
  for target, density in [("setfl", dens), ("DL_POLY_EAM", dens), ("setfl_fs", dens_fs), ("DL_POLY_EAM_fs", dens_fs)]:
    txt = tabulate_text(EAM_MODEL.format(target = target, density = density))
    d.add("eam", target, len(txt), hashlib.sha256(txt.encode("utf-8")).hexdigest())

  # 4. Shipped example and test resource files
  files = sorted(glob.glob(os.path.join(WT, "docs", "user_guide", "example_files", "*.aspot")))
  files += sorted(glob.glob(os.path.join(WT, "tests", "config", "config_resources", "*.aspot")))
  for fname in files:
    def dofile():
      with io.open(fname, encoding = "utf-8") as infile:
        cp = ConfigParser(infile, overrides = [], additional = [])
      tab = Configuration().read_from_parser(cp)
      vals = []
      for pot in tab.potentials:
        vals.append((pot.speciesA, pot.speciesB, [(sv(pot.energy, r), sv(pot.force, r)) for r in RVALS]))
      for epot in getattr(tab, "eam_potentials", []):
        dens = epot.electronDensityFunction
        if isinstance(dens, dict):
          densvals = [(k, [sv(dens[k], r) for r in RVALS]) for k in sorted(dens)]
        else:
          densvals = [sv(dens, r) for r in RVALS]
        vals.append((epot.species, [sv(epot.embeddingFunction, r) for r in RVALS], densvals))
      return vals
    d.add("file", os.path.basename(fname), outcome(dofile))

  # 5. Python API writePotentials
  pots = [Potential("A", "B", potentialforms.buck(1000.0, 0.3, 12.0)), Potential("B", "B", comb), Potential("A", "A", lambda r: 3.0 / r**2)]
  for target, nr in [("LAMMPS", 33), ("DL_POLY", 32)]:
    out = io.StringIO()
    writePotentials(target, pots, 5.0, nr, out = out)
    d.add("writePotentials", target, hashlib.sha256(out.getvalue().encode("utf-8")).hexdigest())

  # 6. Error paths (exception type, whether a configuration error, message)
  bad = [
    u"[Pair]\nA-B : as.nothere 1.0 2.0\n",
    u"[Pair]\nA-B : as.buck 1.0 2.0\n",
    u"[Pair]\nA-B : as.buck 1.0 2.0 3.0 4.0\n",
    u"[Pair]\nA-B : as.morse\n",
    u"[Pair]\nA-B : blah(as.buck 1.0 2.0 3.0)\n",
    u"[Pair]\nA-B : as.buck 1.0 2.0 3.0\nB-A : as.zero\n",
    u"[Pair]\nA-B : f 1.0\n[Potential-Form]\nf(r, A) = as.buck(r, A)\n",
    u"[Pair]\nA-B : f 1.0\n[Potential-Form]\nf(r, A) = as.nothere(r, A)\n",
    u"[Tabulation]\ntarget : DL_POLY\nnr : 62\n[Pair]\nA-B : as.zero\n",
    u"[Tabulation]\ntarget : nothing\n[Pair]\nA-B : as.zero\n",
    u"[Pair]\nA-B : as.zero\n[Table-Form:as.buck]\ninterpolation : cubic_spline\nxy : 0 1 1 2 2 3 3 4 4 5\n",
  ]
  for i, txt in enumerate(bad):
    def doit():
      t = tabulate_text(txt)
      return hashlib.sha256(t.encode("utf-8")).hexdigest()
    d.add("bad", i, outcome(doit))

  # 7. potable command line: item listing and a tabulation
  import tempfile
  tmpdir = tempfile.mkdtemp()
  try:
    cfgname = os.path.join(tmpdir, "in.aspot")
    outname = os.path.join(tmpdir, "out.table")
    with io.open(cfgname, "w", encoding = "utf-8") as o:
      o.write(PAIR_MODEL.format(target = "LAMMPS", nr = 41))
    status, err = run_potable([cfgname, outname, "--override-item", "Tabulation:nr=21", "--exclude-species", "Gd"])
    with io.open(outname, encoding = "utf-8") as i:
      d.add("potable", status, hashlib.sha256(i.read().encode("utf-8")).hexdigest())
    with io.open(cfgname, "w", encoding = "utf-8") as o:
      o.write(u"[Pair]\nA-B : as.nothere 1.0\n")
    status, err = run_potable([cfgname, outname])
    d.add("potable-bad", status, [l for l in err.splitlines() if "error" in l])
  finally:
    import shutil
    shutil.rmtree(tmpdir)

  print("existing-behaviour digest: %s (%d records)" % (d.hexdigest(), d.nlines))

# ---- helpers for the new-feature part ----

def fd1(f, r, h = 1e-5):
  """Fourth order central difference"""
  return (-f(r + 2*h) + 8*f(r + h) - 8*f(r - h) + f(r - 2*h)) / (12.0 * h)

def relerr(a, b):
  scale = max(abs(a), abs(b), 1e-300)
  return abs(a - b) / scale

def check_derivatives(name, paramsets, rvals, tol = 1e-6):
  """Compare .deriv and .deriv2 of the potential function with finite differences of
  the energy and of .deriv respectively, through function, factory and registry routes."""
  func = getattr(potentialfunctions, name)
  factory = getattr(potentialforms, name)
  regform = make_registry()["as." + name]
  worst1 = worst2 = 0.0
  for params in paramsets:
    inst = factory(*params)
    reginst = regform(*params)
    for r in rvals:
      h = 1e-4 * r
      d1 = func.deriv(r, *params)
      d2 = func.deriv2(r, *params)
      n1 = fd1(lambda x: func(x, *params), r, h)
      n2 = fd1(lambda x: func.deriv(x, *params), r, h)
      # absolute floor guards against comparing two numbers that are both ~0
      floor = 1e-9 * max(abs(func(r, *params)) / r, 1e-300)
      e1 = 0.0 if abs(d1 - n1) < floor else relerr(d1, n1)
      e2 = 0.0 if abs(d2 - n2) < floor / r else relerr(d2, n2)
      worst1 = max(worst1, e1)
      worst2 = max(worst2, e2)
      assert e1 < tol, (name, params, r, d1, n1)
      assert e2 < tol, (name, params, r, d2, n2)
      # the three routes are the same function
      assert inst(r) == func(r, *params) == reginst(r)
      assert inst.deriv(r) == d1 == reginst.deriv(r)
      assert inst.deriv2(r) == d2 == reginst.deriv2(r)
      # gradient() picks up the analytic derivative
      assert gradient(inst)(r) == d1
  print("%s: analytic derivatives agree with finite differences (worst rel. err. deriv %.2e, deriv2 %.2e) over %d parameter sets x %d separations" % (name, worst1, worst2, len(paramsets), len(rvals)))

def read_lammps_table(text):
  """Returns {(a,b) : [(n, r, E, F), ...]} plus header dict"""
  blocks = {}
  lines = text.splitlines()
  i = 0
  while i < len(lines):
    line = lines[i].strip()
    if line and not line.startswith("#") and "-" in line and len(line.split()) == 1:
      key = line
      hdr = lines[i+1].split()
      N = int(hdr[1])
      rows = []
      j = i + 2
      while len(rows) < N:
        if lines[j].strip():
          n, r, e, f = lines[j].split()
          rows.append((int(n), float(r), float(e), float(f)))
        j += 1
      blocks[key] = (hdr, rows)
      i = j
    else:
      i += 1
  return blocks

def check_config_errors(name, nparams):
  """Wrong parameter counts for the new form are configuration errors, in [Pair] and in formulas"""
  good = " ".join(["1.5"] * nparams)
  few = " ".join(["1.5"] * (nparams - 1))
  many = " ".join(["1.5"] * (nparams + 1))
  cases = [
    u"[Pair]\nA-B : as.%s %s\n" % (name, few),
    u"[Pair]\nA-B : as.%s %s\n" % (name, many),
    u"[Pair]\nA-B : as.%s\n" % (name,),
    u"[Pair]\nA-B : as.%s %s x\n" % (name, few),
    u"[Pair]\nA-B : f 1.0\n[Potential-Form]\nf(r, A) = as.%s(r, %s)\n" % (name, ",".join(["A"] * (nparams - 1))),
    u"[Pair]\nA-B : as.zero\n[Table-Form:as.%s]\ninterpolation : cubic_spline\nxy : 0 1 1 2 2 3 3 4 4 5\n" % (name,),
    u"[Pair]\nA-B : as.%s %s\nB-A : as.%s %s\n" % (name, good, name, good),
  ]
  for txt in cases:
    res = outcome(tabulate_text, txt)
    assert res[0] == "exc" and res[2] is True, (txt, res)
    print("  configuration error (%s): %s" % (res[1], res[3][:110]))
  # ... and the right count is accepted
  res = outcome(tabulate_text, u"[Tabulation]\nnr : 5\ncutoff : 4.0\n[Pair]\nA-B : as.%s %s\n" % (name, good))
  assert res[0] == "ok", res

def hashseed_runs(script, mode = "table"):
  outs = set()
  for seed in ["0", "1", "42", "12345", "random"]:
    env = dict(os.environ)
    env["PYTHONHASHSEED"] = seed
    out = subprocess.check_output([sys.executable, "-W", "ignore", "/tmp/wtpy.py", WT, os.path.join("_twins", script), mode], env = env, cwd = WT)
    outs.add(hashlib.sha256(out).hexdigest())
  assert len(outs) == 1, outs
  print("hash-seed independence: 5 fresh processes (PYTHONHASHSEED 0, 1, 42, 12345, random) gave identical table bytes, sha256 %s" % outs.pop())


# ---- new feature: as.gaussian ----

NAME = "gaussian"
SCRIPT = "diffB.py"
# Documented: V(r) = A exp(-B (r - r_0)^2)        potable signature: as.gaussian A B r_0
PARAM_NAMES = ["A", "B", "r_0"]
DOC_PARAMS = [":math:`A`", ":math:`B`", ":math:`r_0`"]
PARAMSETS = [(-0.75, 1.2, 2.0), (3.5, 0.25, 0.0), (12.0, 4.0, 1.55), (1.0, -0.01, 3.0), (0.0, 1.0, 1.0)]
FEATURE_RVALS = [0.1, 0.5, 1.0, 1.6, 2.0, 2.5, 4.0, 6.0]

def reference(r, A, B, r_0):
  return A * math.exp(-B * (r - r_0)**2)

def equivalent(A, B, r_0):
  # A * exp(-B r_0^2 + 2 B r_0 r - B r^2) through the existing exponential spline form
  return product(potentialforms.constant(A), potentialforms.exp_spline(-B * r_0**2, 2.0 * B * r_0, -B, 0.0, 0.0, 0.0, 0.0))

def feature_model(target = "LAMMPS", nr = 41):
  p0 = " ".join([repr(float(p)) for p in PARAMSETS[0]])
  p1 = ", ".join([repr(float(p)) for p in PARAMSETS[1]])
  return u"""[Tabulation]
target : {target}
cutoff : 8.0
nr : {nr}

[Pair]
A-A : as.{name} {p0}
B-A : viaformula 1.0
B-B : sum(as.{name} {p0}, >1.5 as.buck 1000.0 0.3 10.0, trans(as.{name} {p0}, as.constant 0.25))

[Potential-Form]
viaformula(r, s) = s * as.{name}(r, {p1})
""".format(target = target, nr = nr, name = NAME, p0 = p0, p1 = p1)

def table():
  sys.stdout.write(tabulate_text(feature_model()))
  sys.stdout.write(tabulate_text(feature_model("DL_POLY", 44)))
  sys.stdout.write(tabulate_text(feature_model("GULP", 21)))

def feature():
  func = getattr(potentialfunctions, NAME)
  factory = getattr(potentialforms, NAME)
  registry = make_registry()
  regform = registry["as." + NAME]

  # Registration: found by the same discovery the registry and test_check_derivs use, has all methods
  members = dict(inspect.getmembers(potentialfunctions, potentialforms._iscallable))
  assert NAME in members and members[NAME] is func
  assert NAME in dict(inspect.getmembers(potentialforms, potentialforms._iscallable))
  assert isinstance(factory, potentialforms._FunctionFactory)
  for attr in ["deriv", "deriv2", "_as_sympy"]:
    assert hasattr(func, attr), attr
  assert "as." + NAME in registry.registered

  # Signature: registry, __call__, deriv and deriv2 all take the documented parameters in the documented order
  assert regform.signature.parameter_names == ["r"] + PARAM_NAMES, regform.signature
  for meth in [func.__call__, func.deriv, func.deriv2]:
    assert list(inspect.signature(meth).parameters) == ["r"] + PARAM_NAMES
  docs = io.open(os.path.join(WT, "docs", "reference", "potential_forms.rst"), encoding = "utf-8").read().splitlines()
  siglines = [l for l in docs if l.startswith(":potable signature:") and "``as.%s``" % NAME in l]
  assert len(siglines) == 1, siglines
  assert siglines[0].count(":math:") == len(PARAM_NAMES), siglines[0]
  assert siglines[0].split("``as.%s``" % NAME)[1].split() == DOC_PARAMS, siglines[0]
  idx = docs.index(siglines[0])
  assert docs[idx + 1] == ":Features: potential-form, potential-function, deriv, deriv2"
  assert ".. _potform-%s:" % NAME in docs
  print("as.%s: registered; signature %s matches ':potable signature:' in docs/reference/potential_forms.rst" % (NAME, regform.signature.parameter_names))

  # Values: documented closed form (independent re-statement) and composition of pre-existing forms
  worst = 0.0
  for params in PARAMSETS:
    equiv = equivalent(*params)
    for r in FEATURE_RVALS:
      v = func(r, *params)
      ref = reference(r, *params)
      assert relerr(v, ref) < 1e-13 or abs(v - ref) < 1e-300, (params, r, v, ref)
      if equiv is not None:
        e = relerr(v, equiv(r))
        worst = max(worst, e)
        assert e < 1e-10, (params, r, v, equiv(r))
  print("as.%s: values equal the documented formula; agree with composition of existing forms to rel. err. %.1e" % (NAME, worst))

  # Parameter order is significant and bound positionally (permuting distinct parameters changes the value)
  p = PARAMSETS[0]
  assert func(1.3, *p) != func(1.3, *(tuple(p[1:]) + (p[0],)))

  # Derivatives
  check_derivatives(NAME, PARAMSETS, FEATURE_RVALS)

  # potable: the [Pair] route and the custom-formula route, read back from the LAMMPS table (C01/C06/C07/C09)
  text = tabulate_text(feature_model())
  assert text == tabulate_text(feature_model()), "not deterministic"
  blocks = read_lammps_table(text)
  assert sorted(blocks) == ["A-A", "B-A", "B-B"], sorted(blocks)
  p0, p1 = PARAMSETS[0], PARAMSETS[1]
  buck = potentialforms.buck(1000.0, 0.3, 10.0)
  def bb(r):
    # range '>1.5' of the sum's second argument
    v = func(r, *p0) + func(r + 0.25, *p0)
    if r > 1.5:
      v += buck(r)
    return v
  def bb_deriv(r):
    v = func.deriv(r, *p0) + func.deriv(r + 0.25, *p0)
    if r > 1.5:
      v += buck.deriv(r)
    return v
  expect = {
    "A-A" : (lambda r: func(r, *p0), lambda r: func.deriv(r, *p0)),
    "B-A" : (lambda r: func(r, *p1), None),  # custom formulas have no analytic derivative -> numerical
    "B-B" : (bb, bb_deriv)}
  for key, (hdr, rows) in sorted(blocks.items()):
    assert hdr[:2] == ["N", "40"] and len(rows) == 40, hdr
    energy, deriv = expect[key]
    for (n, r, e, f) in rows:
      assert abs(r - n * 8.0 / 40) < 1e-9
      # table is printed with 8 decimal places
      assert abs(e - energy(r)) <= 1e-8 + 1e-12 * abs(e), (key, r, e, energy(r))
      if deriv is not None:
        assert abs(f + deriv(r)) <= 1e-8 + 1e-12 * abs(f), (key, r, f, -deriv(r))
      else:
        assert abs(f + fd1(energy, r, 1e-4)) <= 1e-7 + 1e-6 * abs(f), (key, r, f, -fd1(energy, r, 1e-4))
  print("as.%s: LAMMPS table rows (3 blocks x 40 rows) reproduce energy and -dV/dr through [Pair], sum(), trans() and custom-formula routes" % NAME)

  # DL_POLY: k-th force entry is -r dV/dr
  dl = tabulate_text(feature_model("DL_POLY", 44)).splitlines()
  delpot, cutpot, ngrid = dl[1].split()
  assert int(ngrid) == 44 and abs(float(cutpot) - 8.0) < 1e-12 and abs(float(delpot) - 8.0 / 40.0) < 1e-9
  assert dl[2].split()[:2] == ["A", "A"]
  nums = [float(x) for l in dl[3:3 + 22] for x in l.split()]
  assert len(nums) == 88
  for k in range(1, 45):
    r = k * float(delpot)
    # values are printed to 8 significant figures; the writer accumulates r so stationary points are only hit to rounding
    v = func(r, *p0)
    assert abs(nums[k - 1] - v) <= 1e-6 * abs(v), (k, nums[k - 1], v)
    assert abs(nums[44 + k - 1] + r * func.deriv(r, *p0)) <= 1e-6 * abs(r * func.deriv(r, *p0)) + 1e-9 * abs(v), (k,)
  print("as.%s: DL_POLY TABLE block holds V(k*delpot) then -r dV/dr" % NAME)

  # EAM sections accept it too (density function in a setfl file)
  eam = tabulate_text(u"[Tabulation]\ntarget : setfl\nnr : 6\nnrho : 6\ncutoff : 5.0\ncutoff_rho : 5.0\n[EAM-Embed]\nAl : as.sqrt -1.0\n[EAM-Density]\nAl : as.%s %s\n[Pair]\nAl-Al : as.zero\n" % (NAME, " ".join([repr(float(x)) for x in p0])))
  assert eam.splitlines()[3].split() == ["1", "Al"]

  # Error paths are configuration errors (C16), duplicates still rejected (C20)
  print("as.%s: error paths:" % NAME)
  check_config_errors(NAME, len(PARAM_NAMES))

  # Pure: evaluation order and history do not matter (C12)
  a = [func(r, *PARAMSETS[0]) for r in FEATURE_RVALS]
  [func(r, *PARAMSETS[-1]) for r in FEATURE_RVALS]
  b = [func(r, *PARAMSETS[0]) for r in reversed(FEATURE_RVALS)]
  assert a == list(reversed(b))
  print("feature checks passed for as.%s" % NAME)

if __name__ == "__main__":
  mode = sys.argv[1] if len(sys.argv) > 1 else "digest"
  if mode == "digest":
    digest_existing()
  elif mode == "feature":
    feature()
  elif mode == "table":
    table()
  elif mode == "hashseed":
    hashseed_runs(SCRIPT)
  else:
    sys.exit("unknown mode " + mode)

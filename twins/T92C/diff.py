"""Differential script for twin C: configuration parsing of (long) sections and reference-data look-up.

Prints one digest line per case plus an overall sha256. Run on clean and on refactored tree: output must be identical."""
import glob
import hashlib
import io
import os
import logging
import random
import re

logging.disable(logging.CRITICAL)

from atsim.potentials.config import ConfigParser, Configuration
from atsim.potentials.config._config_parser import ConfigParserOverrideTuple
from atsim.potentials.referencedata import Reference_Data
from atsim.potentials.referencedata._data import reference_data

overall = hashlib.sha256()

def record(label, payload):
  payload = payload.encode("utf-8")
  h = hashlib.sha256(payload).hexdigest()
  print("%-84s %8d %s" % (label, len(payload), h[:20]))
  overall.update(label.encode("utf-8"))
  overall.update(h.encode("ascii"))

def safe(func):
  try:
    return "OK:" + repr(func())
  except BaseException as e:
    return "EXC:%s:%s" % (type(e).__name__, e)

ATTRIBUTES = ["parsed_sections", "orphan_sections", "tabulation", "potential_form", "pair", "eam_embed", "eam_density", "eam_density_fs",
              "table_form", "species"]

def dump_parser(label, text, overrides=[], additional=[]):
  out = io.StringIO()
  try:
    cp = ConfigParser(io.StringIO(text), overrides=overrides, additional=additional)
  except BaseException as e:
    record(label, "CONSTRUCT:EXC:%s:%s" % (type(e).__name__, e))
    return
  # twice: some of the properties are cached, none of them should be changed by having been read
  for _i in range(2):
    for attr in ATTRIBUTES:
      out.write("%s=%s\n" % (attr, safe(lambda: getattr(cp, attr))))
    for section in ["Pair", "EAM-ADP-Dipole", "EAM-Embed", "Missing", "Species", "Variables", "Potential-Form"]:
      out.write("parse_pair_like(%s)=%s\n" % (section, safe(lambda: cp.parse_pair_like(section))))
  record(label, out.getvalue())

def tabulate(label, text):
  out = io.StringIO()
  try:
    tab = Configuration().read(io.StringIO(text))
    tab.write(out)
    record(label, "OK|" + out.getvalue())
  except BaseException as e:
    record(label, "EXC|%s|%s|written=%r" % (type(e).__name__, e, out.getvalue()))

def long_config(seed, npairs, nforms, nspecies, ntable, allow_duplicates = False):
  rng = random.Random(seed)
  elements = sorted(reference_data.keys())
  rng.shuffle(elements)
  lines = ["[Variables]", "scale = 1.5", "rho = 0.3", "",
           "[Tabulation]", "target : LAMMPS", "cutoff : 4.0", "nr : 9", ""]
  lines.append("[Potential-Form]")
  for i in range(nforms):
    rng.randint(1, 4)
    args = ", ".join("p%d" % j for j in range(4))
    spaces = rng.choice(["", " ", "  ", "\t"])
    lines.append("form%d(r,%s%s) = %s * exp(-r/p0) + %d" % (i, spaces, args, rng.choice(["1.0", "${scale}", "${Variables:scale}"]), i))
  lines.append("")
  lines.append("[Pair]")
  pairs = []
  for i in range(npairs):
    a = elements[i % len(elements)]
    b = elements[(i * 7 + 3) % len(elements)]
    if not allow_duplicates and (frozenset([a, b]) in pairs):
      continue
    pairs.append(frozenset([a, b]))
    sep = rng.choice(["-", " - ", "- ", " -"])
    choice = rng.randint(0, 4)
    if choice == 0:
      v = "as.buck %r %r %r" % (rng.uniform(100, 2000), rng.uniform(0.1, 0.5), rng.uniform(0, 30))
    elif choice == 1:
      v = "as.bornmayer %r ${rho} >=%r as.zero" % (rng.uniform(100, 2000), rng.uniform(1.0, 3.0))
    elif choice == 2:
      v = "sum(as.morse 1.65 2.369 %r, >1.0 as.constant %d)" % (rng.uniform(0.1, 0.9), i)
    elif choice == 3 and nforms:
      v = "form%d %s" % (rng.randrange(nforms), " ".join("%r" % rng.uniform(0.2, 2.0) for _ in range(4)))
    else:
      v = "as.polynomial %s" % " ".join("%r" % rng.uniform(-1, 1) for _ in range(rng.randint(1, 6)))
    lines.append("%s%s%s : %s" % (a, sep, b, v))
  lines.append("")
  if nspecies:
    lines.append("[Species]")
    props = ["atomic_mass", "atomic_number", "covalent_radius", "lattice_constant", "charge", "lattice_type", "colour", "note"]
    for i in range(nspecies):
      prop = props[i % len(props)]
      val = {"atomic_number": "%d" % rng.randint(1, 90), "lattice_type": rng.choice(["fcc", "bcc", "12"]), "colour": "blue", "note": "1.50"}.get(prop, "%r" % rng.uniform(0.5, 200))
      lines.append("%s%s.%s%s= %s" % (rng.choice(["", " "]), elements[(i // len(props)) % len(elements)], prop, rng.choice(["", " "]), val))
    lines.append("")
  for i in range(ntable):
    lines.append("[Table-Form:tab%d]" % i)
    n = rng.randint(2, 40)
    if i % 2:
      lines.append("xy : " + "\n    ".join("%r %r" % (0.1 * j, rng.uniform(-1, 1)) for j in range(n)))
    else:
      lines.append("x : " + " ".join("%r" % (0.1 * j) for j in range(n)))
      lines.append("y : " + " ".join("%r" % rng.uniform(-1, 1) for j in range(n)))
      lines.append("interpolation : cubic_spline")
    lines.append("")
  lines.extend(["[Custom-Section]", "a : 1", "", "[Another]", "b = 2", ""])
  return "\n".join(lines)

MALFORMED = {
  "dup_pair_rev": "[Pair]\nA-B : as.zero\nC-D : as.zero\nB-A : as.zero\n",
  "dup_pair_rev_spaces": "[Pair]\nA - B : as.zero\nB-A : as.zero\n",
  "dup_pair_same_ws": "[Pair]\nA-B : as.zero\nA - B : as.zero\n",
  "self_pair_twice": "[Pair]\nA-A : as.zero\nB-B : as.zero\nA-A  : as.buck 1 2 3\n",
  "pair_no_dash": "[Pair]\nA-B : as.zero\nAB : as.zero\n",
  "pair_three": "[Pair]\nA-B-C : as.zero\n",
  "pair_empty_species": "[Pair]\n-B : as.zero\nA- : as.zero\n",
  "pair_bad_value": "[Pair]\nA-B : as.buck 1.0 2.0 3.0\nC-D : as.buck 1.0 >> 2.0\nE-F : as.zero\n",
  "pair_empty_value": "[Pair]\nA-B :\n",
  "pair_unknown_var": "[Pair]\nA-B : as.buck ${nothing} 1 2\n",
  "pair_var": "[Variables]\nA_val : 1000.0\n\n[Pair]\nA-B : as.buck ${A_val} 1 2\nC-D : as.buck ${Variables:A_val} 1 ${A_val}\n",
  "species_no_dot": "[Species]\nAl.atomic_mass : 26.9\nAl : 3\n",
  "species_bad_float": "[Species]\nAl.atomic_mass : heavy\n",
  "species_bad_int": "[Species]\nAl.atomic_number : 13.0\nAl.atomic_mass : 2\n",
  "species_multi_dot": "[Species]\nAl.x.y : 1\n Cu . lattice_type  : fcc\nCu.charge : 2\nCu.charge2 : 2\n",
  "species_order": "[Species]\nB.atomic_mass : 1\nA.atomic_mass : 2\nB.charge : -1\nA.lattice_type : 5.00\nB.anything : ${A.atomic_mass}\n",
  "xy_odd": "[Table-Form:t]\nxy : 1 2 3\n",
  "xy_bad": "[Table-Form:t]\nxy : 1 2 3 four\n",
  "xy_ok": "[Table-Form:t]\nxy : 1 2 3 4 5 6 7 8 9 10\n[Table-Form: u ]\nxy : 1 2\n[Table-Form:v]\nxy :\n",
  "x_y_mismatch": "[Table-Form:t]\nx : 1 2 3\ny : 1 2\n",
  "x_only": "[Table-Form:t]\nx : 1 2 3\n",
  "x_y_xy": "[Table-Form:t]\nx : 1 2 3\ny : 1 2 3\nxy : 1 2\n",
  "no_data": "[Table-Form:t]\ninterpolation : cubic_spline\n",
  "dup_table_form": "[Table-Form:t]\nxy : 1 2\n[Table-Form: t]\nxy : 3 4\n",
  "potform_bad_sig": "[Potential-Form]\ngood(r, a) = r*a\n1bad(r) = r\n",
  "potform_no_paren": "[Potential-Form]\nnothing = r\n",
  "potform_ws": "[Potential-Form]\nf( r , a,b ) =   r*a*b   \ng(r)=r\nh() = 1\n",
  "density_fs": "[EAM-Density]\nA->B : as.zero\nB->A : as.constant 1\nA->A : as.zero\n",
  "density_mixed": "[EAM-Density]\nA : as.zero\nB->A : as.constant 1\n",
  "density_plain": "[EAM-Density]\nA : as.zero\nB : as.constant 1\n[EAM-Embed]\nB : as.zero\nA : >=1 as.zero\n",
  "density_fs_bad": "[EAM-Density]\nA->B->C : as.zero\n",
  "density_bad_value": "[EAM-Density]\nA : as.zero >\n",
  "embed_bad_value": "[EAM-Embed]\nA : sum(as.zero\n",
  "empty": "",
  "only_orphans": "[Foo]\na:1\n[Bar]\nb:2\n[Table-Form:z]\nxy : 1 2\n[Tabulation]\ntarget : GULP\n",
  "dup_option": "[Pair]\nA-B : as.zero\nA-B : as.zero\n",
  "dup_section": "[Pair]\nA-B : as.zero\n[Pair]\nC-D : as.zero\n",
  "no_header": "A-B : as.zero\n",
  "tabulation_all": "[Tabulation]\ntarget : DL_POLY\nnr : 10\ndr : 0.1\ncutoff : 1.0\n",
  "tabulation_bad": "[Tabulation]\ntarget : lammps_eam_alloy\nnr : ten\n",
}

def main():
  here = os.path.dirname(os.path.abspath(__file__))
  root = os.path.dirname(here)
  files = sorted(glob.glob(os.path.join(root, "docs", "user_guide", "example_files", "*.aspot")))
  files += sorted(glob.glob(os.path.join(root, "docs", "quick_start", "*.aspot")))
  files += sorted(glob.glob(os.path.join(root, "tests", "*_resources", "*.aspot")))
  files += sorted(glob.glob(os.path.join(root, "tests", "config", "config_resources", "*.aspot")))

  # 1. Every configuration file of the project through every property of the parser
  for fname in files:
    text = open(fname).read()
    dump_parser("parse %s" % os.path.relpath(fname, root), text)

  # 2. ... and tabulated (reference data is looked up for the EAM models), on a coarse grid
  for fname in files:
    text = open(fname).read()
    small = re.sub(r"(?m)^nr\s*[:=].*$", "nr : 16", text)
    small = re.sub(r"(?m)^dr\s*[:=].*$", "dr : 0.4", small)
    small = re.sub(r"(?m)^nrho\s*[:=].*$", "nrho : 16", small)
    small = re.sub(r"(?m)^drho\s*[:=].*$", "drho : 2.0", small)
    tabulate("tabulate %s" % os.path.relpath(fname, root), small)

  # 3. Long generated configurations
  for seed, npairs, nforms, nspecies, ntable in [(1, 5, 2, 4, 1), (2, 60, 10, 40, 6), (3, 200, 0, 0, 0), (4, 90, 30, 100, 12), (5, 0, 0, 8, 3), (6, 93, 5, 17, 2)]:
    text = long_config(seed, npairs, nforms, nspecies, ntable)
    label = "long seed=%d pairs=%d forms=%d species=%d tables=%d" % (seed, npairs, nforms, nspecies, ntable)
    dump_parser(label, text)
    tabulate("tabulate " + label, text)
  dump_parser("long with duplicates", long_config(3, 200, 0, 0, 0, True))

  # 4. Malformed / corner case inputs
  for name in sorted(MALFORMED):
    dump_parser("malformed %s" % name, MALFORMED[name])
    tabulate("tabulate malformed %s" % name, MALFORMED[name])

  # 5. Overrides and additions
  base = long_config(7, 12, 3, 9, 2)
  O = ConfigParserOverrideTuple
  for label, overrides, additional in [
      ("override value", [O("Pair", "Li-Li", "as.zero")], []),
      ("remove", [O("Custom-Section", "a", None)], []),
      ("override missing", [O("Pair", "Zz-Zz", "as.zero")], []),
      ("add pair", [], [O("Pair", "Q-R", "as.constant 1"), O("Pair", "R - Q2", "as.constant 2")]),
      ("add reversed duplicate", [], [O("Pair", "Q-R", "as.constant 1"), O("Pair", "R-Q", "as.constant 2")]),
      ("add species", [], [O("Species", "Q.atomic_mass", "12.5"), O("Species", "Q.lattice_type", "fcc"), O("Species", "Q.atomic_number", "x")]),
      ("add density fs", [], [O("EAM-Density", "A->B", "as.zero"), O("EAM-Embed", "A", "as.zero")]),
      ("add density", [], [O("EAM-Density", "A", "as.zero")]),
      ("add variable", [O("Variables", "scale", "3.0")], [O("Variables", "extra", "1.0")]),
      ]:
    first_pair = re.search(r"(?m)^(\w+)\s*-\s*(\w+) : ", base.split("[Pair]")[1])
    overrides = [O(o.section, first_pair.group(0)[:-3] if o.key == "Li-Li" else o.key, o.value) for o in overrides]
    dump_parser("overrides %s" % label, base, overrides, additional)

  # 6. Reference data look-up
  extras = {
    "none": {},
    "override": {"Al": {"atomic_mass": 1.5, "charge": 3.0}, "Zz": {"atomic_number": 200}, "O": {}},
    "pairs": {"Yy": [("atomic_mass", 2.0), ("note", "text")], "Cu": [("atomic_number", 0)]},
    "none_value": {"Al": {"atomic_mass": None}, "Xx": {"lattice_type": None}},
  }
  for ename in sorted(extras):
    out = io.StringIO()
    for make in [lambda: Reference_Data(extras[ename]), lambda: Reference_Data(extra_data=dict(extras[ename]))]:
      rd = make()
      for species in ["Al", "Cu", "O", "U", "Zz", "Yy", "Xx", "al", "", None, 13, ("Al",), ["Al"]]:
        for prop in ["atomic_mass", "atomic_number", "covalent_radius", "charge", "lattice_type", "note", "", None, 5, ["x"]]:
          out.write("%r.%r=%s\n" % (species, prop, safe(lambda: rd.get(species, prop))))
    if ename == "none":
      rd = Reference_Data()
      for species in sorted(reference_data):
        for prop in ["atomic_mass", "atomic_number", "covalent_radius", "charge"]:
          out.write("%r.%r=%s\n" % (species, prop, safe(lambda: rd.get(species, prop))))
      out.write(repr(Reference_Data().extra_data) + repr(Reference_Data().extra_data is Reference_Data().extra_data))
    record("reference data %s" % ename, out.getvalue())

  print("OVERALL", overall.hexdigest())

main()

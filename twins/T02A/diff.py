# -*- coding: utf-8 -*-
"""Differential script for twin A (_writeSetFLPairPots restructuring).

Exercises every public route that reaches _writeSetFLPairPots: writeSetFL,
writeSetFLFinnisSinclair, the SetFL/SetFL_FS/ADP tabulation classes (the ADP class
calls it another two times with scale_r=False) and config driven tabulations.

usage: wtpy.py <worktree> _twins/diffA.py [-v] [--small]
"""
import os, sys
sys.path.insert(0, os.path.dirname(os.path.abspath(__file__)))
import _harness as H
from atsim.potentials import writeSetFL, writeSetFLFinnisSinclair

rec = H.Recorder()
H.cases_setfl(rec, writeSetFL, "setfl")
H.cases_setfl(rec, writeSetFLFinnisSinclair, "setfl_fs", fs=True)
H.cases_setfl_malformed(rec, writeSetFL, "setfl")
H.cases_setfl_malformed(rec, writeSetFLFinnisSinclair, "setfl_fs", fs=True)
H.cases_tabulation_classes(rec)
H.cases_config(rec, big="--small" not in sys.argv)
H.report(rec, "twinA", "-v" in sys.argv)

"""Differential script for twin C (ConfigParser: overrides/additional handling,
duplicate pair checking, parse tree descent, parsed_sections, orphan_sections, species).

Records results or raised exceptions (type + message) of the public ConfigParser
API for many well formed and malformed inputs, tabulates several full models (with
and without overrides) and prints a sha256 digest of everything observed.
"""
import hashlib, io, itertools, glob, random

from atsim.potentials.config import ConfigParser, Configuration, ConfigParserOverrideTuple as OT

out = []
def rec(*a):
  out.append(repr(a))

PROPS = ["tabulation", "pair", "potential_form", "table_form", "eam_embed", "eam_density", "eam_density_fs",
         "parsed_sections", "orphan_sections", "species"]

def attempt(f):
  try:
    return ("ok", f())
  except Exception as e:
    return ("exc", type(e).__name__, type(e).__mro__[1].__name__, str(e))

def dump_raw(cp):
  rcp = cp.raw_config_parser
  return [(s, [(k, rcp[s].get(k, raw=True)) for k in rcp.options(s)]) for s in [rcp.default_section] + rcp.sections()]

def probe(text, overrides=None, additional=None):
  kw = {}
  if overrides is not None: kw["overrides"] = overrides
  if additional is not None: kw["additional"] = additional
  try:
    cp = ConfigParser(io.StringIO(text), **kw)
  except Exception as e:
    return ("ctor-exc", type(e).__name__, type(e).__mro__[1].__name__, str(e))
  res = [("raw", attempt(lambda: dump_raw(cp)))]
  for p in PROPS:
    res.append((p, attempt(lambda: getattr(cp, p))))
  res.append(("pair_like", attempt(lambda: cp.parse_pair_like("Pair-Extra"))))
  return res

files = sorted(glob.glob("docs/user_guide/example_files/*.aspot") + glob.glob("tests/*/*.aspot")
               + glob.glob("tests/config/config_resources/*.aspot") + glob.glob("docs/quick_start/*.aspot"))
texts = {}
for f in files:
  with open(f) as fp:
    texts[f] = fp.read()
  rec("file", f, probe(texts[f]))

BASE = """[Variables]
A_OO : 1633.0

[Tabulation]
target : LAMMPS
nr : 30
dr : 0.2

[Species]
O.charge : -2.0
O.atomic_mass : 15.999
U.charge : 4
U.atomic_number : 92
U.lattice_type : fcc
U . lattice_constant : 5.47
U.anything.else : 1.5e3

[Pair]
O-O : as.buck ${A_OO} 0.327022 3.948
U-O : >0 as.zero >=0.5 sum(as.buck 1761.775 0.356421 0.0, >1.0 as.constant 0.1 >=2 my_form 1.0 2.0) >4.0 as.zero
U-U : product(as.constant 2.0, sum(as.buck 294.640 0.327022 0.0, as.constant -1.0))

[Pair-Extra]
Gd - O : as.bornmayer 1.0 2.0

[Potential-Form]
my_form(r, a, b) : a*r + b
other( r,x ) = x/r

[Unrelated]
foo : bar

[Table-Form:tf]
xy : 0 1 1 0.5 2 0.25 3 0.1
"""
rec("base", probe(BASE))

# --- overrides / additional ---
ov_cases = [
  ([], []),
  ([OT("Tabulation", "nr", "15")], []),
  ([OT("Tabulation", "nr", None)], []),
  ([OT("Tabulation", "nr", None), OT("Tabulation", "dr", None), OT("Tabulation", "target", None)], []),
  ([OT("Unrelated", "foo", None)], []),
  ([OT("Unrelated", "foo", None), OT("Unrelated", "foo", "x")], []),
  ([OT("Unrelated", "foo", "baz"), OT("Unrelated", "foo", None)], []),
  ([OT("Pair", "O-O", "as.zero")], []),
  ([OT("Pair", " O - O ", "as.zero")], []),
  ([OT("Pair", "O-X", "as.zero")], []),
  ([OT("Nope", "a", "b")], []),
  ([OT("Nope", "a", None)], []),
  ([OT("Variables", "A_OO", "12.5")], []),
  ([OT("Variables", "A_OO", None)], []),
  ([OT("Variables", "missing", "1")], []),
  ([OT("Pair", "A_OO", "1")], []),
  ([OT("Potential-Form", "my_form(r,a,b)", "a+b+r")], []),
  ([OT("Potential-Form", "my_form(r, a,  b)", None), OT("Potential-Form", "other(r,x)", None)], []),
  ([OT("Species", "U.charge", "3.5")], []),
  ([OT("Species", "U.charge", "three")], []),
  ([], [OT("Tabulation", "cutoff_rho", "10")]),
  ([], [OT("Tabulation", "nr", "10")]),
  ([], [OT("Tabulation", "n r", "10")]),
  ([], [OT("Pair", "Gd-O", "as.zero")]),
  ([], [OT("Pair", "O-U", "as.zero")]),
  ([], [OT("New-Section", "k", "v"), OT("New-Section", "k2", "v2")]),
  ([], [OT("New-Section", "k", "v"), OT("New-Section", "k", "v2")]),
  ([], [OT("Variables", "NEWVAR", "3")]),
  ([], [OT("Variables", "A_OO", "3")]),
  ([], [OT("Pair", "A_OO", "as.zero")]),
  ([], [OT("Species", "Gd.charge", "3"), OT("Species", "nodot", "3")]),
  ([], [OT("EAM-Embed", "U", "as.sqrt 1.0"), OT("EAM-Density", "U", "as.zero")]),
  ([], [OT("EAM-Embed", "U", "as.sqrt 1.0"), OT("EAM-Density", "U->O", "as.zero"), OT("EAM-Density", "O", "as.zero")]),
  ([], [OT("Table-Form:tf ", "xy", "0 1")]),
  ([], [OT("Table-Form:tf2", "x", "0 1"), OT("Table-Form:tf2", "y", "0 1")]),
  ([OT("Tabulation", "nr", None)], [OT("Tabulation", "nr", "99")]),
  ([OT("Unrelated", "foo", None)], [OT("Unrelated", "foo", "again")]),
  ([OT("Tabulation", "target", "GULP")], [OT("Tabulation", "cutoff", "3.0")]),
]
for ov, ad in ov_cases:
  rec("ov", ov, ad, probe(BASE, ov, ad))
  rec("ov-none-sec", ov, ad, probe("", ov, ad))

# --- duplicate pairs / malformed pair keys ---
pair_sections = [
  "A-B : as.zero\nB-A : as.zero",
  "A-B : as.zero\nA - B : as.zero",
  "A-B : as.zero\nB -A : as.constant 1",
  "A-A : as.zero\nA-A  : as.zero",
  "A-B : as.zero\na-b : as.zero",
  "A-B : as.zero\nA-C : as.zero\nC-A : as.zero",
  "A-B : as.zero\nB-C : as.zero\nC-A : as.zero",
  "A-B-C : as.zero",
  "AB : as.zero",
  "A-B : as.zero\nAB : as.zero\nB-A : as.zero",
  "A-B : as.zero\nB-A : as.zero\nAB : as.zero",
  "-B : as.zero\nB- : as.zero",
  "A-B :",
  "A-B : nonsense(",
  "A-B : >=1 as.zero >0",
  "A-B : > as.zero",
  "A-B : sum()",
  "A-B : sum(as.zero)",
  "A-B : sum(sum(as.zero, >1 as.constant 1), product(as.zero, >2 as.buck 1 2 3 >=3 as.zero)) >=7 as.zero",
  "A-B : >=0 sum(as.zero, >1 as.constant 1) >5 product(as.zero, as.zero)",
  "A-B : as.buck 1.0 -2e-3 +3",
  "A-B : as.buck 1.0 abc",
  "A-B : 1.0",
  "",
]
for ps in pair_sections:
  rec("pairs", ps, probe("[Pair]\n" + ps + "\n"))
  rec("pairs+var", ps, probe("[Variables]\nA-B : as.zero\n[Pair]\n" + ps + "\n"))

# --- EAM sections ---
eam_cases = [
  "[EAM-Embed]\nA : as.sqrt 1.0\n[EAM-Density]\nA : as.zero\n",
  "[EAM-Embed]\nA : as.sqrt 1.0\n[EAM-Density]\nA->A : as.zero\n",
  "[EAM-Embed]\nA : as.sqrt 1.0\n[EAM-Density]\nA : as.zero\nB->A : as.zero\nB : as.zero\n",
  "[EAM-Embed]\nA : as.sqrt 1.0\n[EAM-Density]\nA->B->C : as.zero\n",
  "[EAM-Density]\n",
  "[EAM-Density]\nA - > B : as.zero\n",
  "[EAM-Density]\nA ->B : as.zero x\nB-> A : >1 sum(as.zero, as.zero)\n",
  "[EAM-Embed]\nA : \n",
  "[EAM-Embed]\n A : product(as.sqrt 1.0, >2 as.zero) >3 as.zero\n",
]
for e in eam_cases:
  rec("eam", e, probe(e))

# --- species ---
species_cases = [
  "[Species]\n",
  "[Species]\nA.charge : 1\nB.charge : 2\nA.atomic_mass : 3\n",
  "[Species]\nA.charge : x\n",
  "[Species]\nA.atomic_number : 1.5\n",
  "[Species]\nA.atomic_number : 7\nA . atomic_number2 : 7\n",
  "[Species]\nnodot : 1\n",
  "[Species]\nA.charge : 1\nnodot : 1\n",
  "[Species]\n.charge : 1\nA. : 2\n",
  "[Species]\nA.b.c : 1\nA.b.d : text\n",
  "[Species]\nA.covalent_radius : 1e-1\nA.lattice_constant : nan\nA.lattice_type : 12\n",
  "[Variables]\nV.charge : 9\n[Species]\nA.charge : ${V.charge}\n",
  "[Species]\nA.charge : ${NOPE}\n",
]
for sc in species_cases:
  rec("species", sc, probe(sc))

# --- random section mixes for parsed_sections / orphan_sections ---
rnd = random.Random(2024)
pool = {
  "Tabulation": "target : LAMMPS\n",
  "Pair": "A-B : as.zero\n",
  "EAM-Embed": "A : as.zero\n",
  "Potential-Form": "f(r) : r\n",
  "EAM-Density": "A : as.zero\n",
  "EAM-Density#fs": "A->A : as.zero\nA : as.zero\n",
  "Table-Form": "a : b\n",
  "Table-Form:x": "xy : 0 1\n",
  "Species": "A.charge : 1\n",
  "Variables": "v : 1\n",
  "Orphan1": "a : b\n",
  "pair": "A-B : as.zero\n",
  "Orphan Two": "",
  "EAM-Density ": "a : b\n",
}
for i in range(120):
  ks = rnd.sample(sorted(pool), rnd.randint(0, 8))
  if "EAM-Density" in ks and "EAM-Density#fs" in ks:
    ks.remove("EAM-Density")
  text = "".join("[%s]\n%s\n" % (k.split("#")[0], pool[k]) for k in ks)
  rec("mix", i, ks, probe(text))

# --- full tabulations with and without overrides ---
def tabulate(text, ov=(), ad=()):
  try:
    cp = ConfigParser(io.StringIO(text), overrides=list(ov), additional=list(ad))
    tab = Configuration().read_from_parser(cp)
    s = io.StringIO()
    tab.write(s)
    return hashlib.sha256(s.getvalue().encode()).hexdigest()
  except Exception as e:
    return ("exc", type(e).__name__, str(e))

for target in ["LAMMPS", "DL_POLY", "GULP", "setfl"]:
  rec("tab-base", target, tabulate(BASE, [OT("Tabulation", "target", target)]))
  rec("tab-base2", target, tabulate(BASE, [OT("Tabulation", "target", target), OT("Tabulation", "dr", None), OT("Pair", "U-U", None)],
                                    [OT("Tabulation", "cutoff", "5.0"), OT("Pair", "Gd-O", "as.buck 1.0 0.3 0.0")]))
for f in files:
  rec("tab-file", f, tabulate(texts[f]))
  rec("tab-file-ov", f, tabulate(texts[f], [OT("Tabulation", "target", "LAMMPS")], [OT("Species", "Zz.charge", "1.0")]))

n_exc = sum(1 for o in out if "exc'" in o)
print("records", len(out), "with-exceptions", n_exc)
print("digest", hashlib.sha256("\n".join(out).encode()).hexdigest())

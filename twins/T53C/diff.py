"""Differential script for twin C (memoised [Species] key splitting / property converter lookup in
atsim/potentials/config/_config_parser.py and memoised namespaced labels in
atsim/potentials/config/_potential_form_registry.py).

Run with:
  /venv/bin/python -W ignore /tmp/wtpy.py /tmp/wt_r5_3 _twins/diffC.py

Everything is run twice (second time in reversed order) so that both cache misses and hits are covered."""

import glob
import hashlib
import io
import logging
import os
import sys

logging.disable(logging.CRITICAL)

from atsim.potentials.config import Configuration, ConfigParser, Potential_Form_Registry
from atsim.potentials.config._config_parser import ConfigParserOverrideTuple as OT

ROOT = os.path.dirname(os.path.dirname(os.path.abspath(__file__)))
OUT = []

def emit(label, value):
  OUT.append("{} :: {}".format(label, value))

def sha(s):
  if not isinstance(s, bytes):
    s = s.encode("utf-8")
  return hashlib.sha256(s).hexdigest()

def typed_repr(v):
  """repr that also records the types of leaves (1 vs 1.0 vs '1')"""
  if isinstance(v, dict):
    return "{" + ", ".join(["{}: {}".format(typed_repr(k), typed_repr(x)) for k, x in v.items()]) + "}"
  if isinstance(v, (list, tuple)):
    return type(v).__name__ + "(" + ", ".join([typed_repr(x) for x in v]) + ")"
  return "{}:{!r}".format(type(v).__name__, v)

def guarded(label, func):
  try:
    v = func()
    r = typed_repr(v)
    emit(label, "OK {} {}".format(sha(r), r[:200]))
  except Exception as e:
    emit(label, "EXC {} {} {}".format(type(e).__name__, sha(str(e)), str(e)[:160]))

# ---------------------------------------------------------------------------
# [Species] section
# ---------------------------------------------------------------------------

SPECIES_SECTIONS = [
  "",
  "[Species]",
  "[Species]\nAl.atomic_mass = 26.98\nAl.atomic_number = 13\nAl.covalent_radius = 1.21\nAl.lattice_constant = 4.05\nAl.charge = 3\nAl.lattice_type = fcc",
  "[Species]\nAl . atomic_mass = 26.98\nAl .atomic_number=13\nFe. lattice_type =  bcc \nFe.atomic_mass = 1e2",
  "[Species]\nU4+.charge = 4.0\nO2-.charge = -2\nU4+.custom_property = some text\nO2-.other.dotted = 1.5",
  "[Species]\nAl.atomic_number = 13.0",
  "[Species]\nAl.atomic_number = thirteen",
  "[Species]\nAl.atomic_mass = heavy",
  "[Species]\nAl.charge =",
  "[Species]\nAl.lattice_type =",
  "[Species]\nAlatomic_mass = 26.98",
  "[Species]\nAl.atomic_mass = 26.98\nnodot = 1",
  "[Species]\n.atomic_mass = 26.98\nAl. = 3\n. = 4",
  "[Species]\nAl.Atomic_Mass = 26.98\nAl.ATOMIC_NUMBER = x",
  "[Species]\nAl.atomic_mass = ${m}\n[Variables]\nm = 30.5",
  "[Species]\nAl.atomic_mass = 1\nAl.atomic_mass  = 2",
  "[Species]\nAl.atomic_mass = 1\nAl .atomic_mass = 2",
  "[Species]\nAl.atomic_mass = inf\nFe.atomic_mass = nan\nCu.atomic_number = -0\nCu.charge = -0.0",
]

BASE = """
[Tabulation]
target : setfl
nr : 20
dr : 0.25
nrho : 20
drho : 0.5

[Pair]
Al-Al = as.buck 100.0 0.3 1.0
Al-Fe = as.buck 200.0 0.3 2.0
Fe-Fe = as.buck 300.0 0.3 3.0

[EAM-Embed]
Al = as.sqrt -1.0
Fe = as.sqrt -2.0

[EAM-Density]
Al = as.exponential 1.0 -2.0
Fe = as.exponential 2.0 -3.0

"""

def tabulate(label, text, overrides = [], additional = []):
  def run():
    cp = ConfigParser(io.StringIO(text), overrides = overrides, additional = additional)
    tab = Configuration().read_from_parser(cp)
    sio = io.StringIO()
    tab.write(sio)
    return sha(sio.getvalue())
  guarded(label, run)

def species_cases(rep):
  sections = list(enumerate(SPECIES_SECTIONS))
  if rep:
    sections.reverse()
  for i, section in sections:
    text = BASE + section
    def species():
      return ConfigParser(io.StringIO(text)).species
    guarded("species[{}]".format(i), species)
    # called twice on the same parser: results must be equal but independent dictionaries
    def twice():
      cp = ConfigParser(io.StringIO(text))
      a = cp.species
      b = cp.species
      for d in a.values():
        d["poked"] = 1
      a["poked"] = {}
      return (b, cp.species, a is b)
    guarded("species_twice[{}]".format(i), twice)
    for target in ["setfl", "DL_POLY_EAM"]:
      tabulate("species_tab[{}][{}]".format(i, target), text, [OT("Tabulation", "target", target)])
  # additional / overrides going through the same key handling
  extra = [
    [OT("Species", "Al.atomic_mass", "1.5")],
    [OT("Species", "Al . atomic_mass", "2.5"), OT("Species", "Fe.lattice_type", "hcp")],
    [OT("Species", "Al", "2.5")],
    [OT("Species", "Al.atomic_number", "x")],
  ]
  for i, add in enumerate(extra):
    guarded("species_add[{}]".format(i), lambda : ConfigParser(io.StringIO(BASE), additional = add).species)
    tabulate("species_add_tab[{}]".format(i), BASE, [], add)
  # _convert_species_type directly, including keys that are not known properties
  cp = ConfigParser(io.StringIO(BASE))
  for name in ["atomic_mass", "atomic_number", "covalent_radius", "lattice_constant", "charge", "lattice_type", "other", "", "Charge", " charge"]:
    for value in ["1", "1.5", " 2 ", "x", "", "1e3", "0x10", "١٢", None, 3, 2.5, True]:
      guarded("convert[{!r}][{!r}]".format(name, value), lambda : cp._convert_species_type(name, value))
  for name in [None, 1, ("charge",), ["charge"]]:
    guarded("convert_odd[{!r}]".format(name), lambda : cp._convert_species_type(name, "1"))

# ---------------------------------------------------------------------------
# Potential_Form_Registry labels
# ---------------------------------------------------------------------------

PFORM_MODELS = [
  "",
  "[Potential-Form]\nmine(r, A) = A*r\nother(r, A, B) = mine(r, A) + as.buck(r, A, B, 0.0) + pymath.floor(r)",
  "[Potential-Form]\nbuck(r, A) = A*as.buck(r, 1.0, 0.3, 0.0)\n[Table-Form:tab]\nx = 0 1 2 3\ny = 3 2 1 0",
  "[Table-Form:as.buck]\nx = 0 1 2 3\ny = 3 2 1 0",
  "[Table-Form:as.buck4]\nx = 0 1 2 3\ny = 3 2 1 0",
  "[Table-Form:pymath.floor]\nx = 0 1 2 3\ny = 3 2 1 0\n[Potential-Form]\nf(r) = pymath.floor(r)",
  "[Potential-Form]\nas.buck(r, A) = A*r",
  "[Potential-Form]\nf(r, A) = pymath.nosuch(r) + A",
  "[Potential-Form]\nf(r, A) = as.nosuch(r) + A",
]

EXPRESSIONS = ["pymath.ceil(4.2)", "pymath.copysign(3, -10)", "pymath.factorial(4)", "pymath.fsum(1,2,3,4)", "pymath.gcd(100,10)",
  "pymath.log(10, 10)", "pymath.log2(r)", "pymath.hypot(3,r)", "pymath.atanh(0.9) + as.buck(r, 1000.0, 0.3, 32.0)",
  "as.bornmayer(r, 1000.0, 0.3) + as.coul(r, 1, -1)", "as.zbl(r, 92, 8)", "as.polynomial(r, 1, 2, 3)", "as.zero(r)",
  "as.buck4(r, 1, 2, 3, 4, 5, 6)", "pymath._nope(r)", "pymath.factorial(r, 2)", "as.lj(r)", "pymath.sqrt(r)+as.sqrt(r, 2.0)"]

def registry_cases(rep):
  models = list(enumerate(PFORM_MODELS))
  if rep:
    models.reverse()
  for i, model in models:
    for std in [False, True]:
      for pym in [False, True]:
        label = "registry[{}][{}][{}]".format(i, std, pym)
        def build():
          return Potential_Form_Registry(ConfigParser(io.StringIO(model)), std, pym)
        guarded(label + ".registered", lambda : build().registered)
        def signatures():
          pfr = build()
          out = []
          for k in pfr.registered:
            pf = pfr[k]
            out.append((k, pf.signature.label, list(pf.signature.parameter_names), pf.signature.is_varargs))
          return out
        guarded(label + ".signatures", signatures)
        for k in ["as.buck", "as.buck4", "as.polynomial", "buck", "mine", "other", "tab", "f", "pymath.floor", "as.", "as.as.buck"]:
          def evaluate():
            pfr = build()
            pf = pfr[k]
            nargs = len(pf.signature.parameter_names) - 1
            if pf.signature.is_varargs:
              nargs = 3
            func = pf(*[1.0 + 0.25*j for j in range(nargs)])
            return [func(r) for r in [0.5, 1.0, 1.7, 2.9]]
          guarded("{}.eval[{}]".format(label, k), evaluate)
  exprs = list(EXPRESSIONS)
  if rep:
    exprs.reverse()
  for e in exprs:
    text = "[Tabulation]\ntarget : LAMMPS\nnr : 12\ncutoff : 5.5\n[Pair]\nO-O : test_form\nO-U : as.buck 1000.0 0.3 1.0\n[Potential-Form]\ntest_form(r) = {}\n".format(e)
    tabulate("expr[{}]".format(e), text)
    for target in ["DLPOLY", "GULP"]:
      tabulate("expr[{}][{}]".format(e, target), text, [OT("Tabulation", "target", target)])

def file_cases():
  files = sorted(glob.glob(os.path.join(ROOT, "tests", "**", "*.aspot"), recursive = True))
  files += sorted(glob.glob(os.path.join(ROOT, "docs", "**", "*.aspot"), recursive = True))
  for f in files:
    label = os.path.relpath(f, ROOT)
    with open(f) as infile:
      text = infile.read()
    cp = ConfigParser(io.StringIO(text))
    guarded("file_species[{}]".format(label), lambda : cp.species)
    guarded("file_registered[{}]".format(label), lambda : Potential_Form_Registry(cp, True, True).registered)
    if cp.tabulation.target in ("excel", "excel_eam", "excel_eam_fs"):
      continue
    ovr = []
    add = []
    for k, v in [("nr", "24"), ("cutoff", "4.6")]:
      (ovr if cp.raw_config_parser.has_option("Tabulation", k) else add).append(OT("Tabulation", k, v))
    if cp.raw_config_parser.has_option("Tabulation", "dr"):
      ovr.append(OT("Tabulation", "dr", None))
    if "eam_embed" in cp.parsed_sections:
      for k, v in [("nrho", "24"), ("cutoff_rho", "11.5")]:
        (ovr if cp.raw_config_parser.has_option("Tabulation", k) else add).append(OT("Tabulation", k, v))
      if cp.raw_config_parser.has_option("Tabulation", "drho"):
        ovr.append(OT("Tabulation", "drho", None))
    tabulate("file_tab[{}]".format(label), text, ovr, add)

def main():
  for rep in range(2):
    species_cases(rep)
    registry_cases(rep)
    file_cases()
  blob = "\n".join(OUT)
  if "-v" in sys.argv:
    print(blob)
  ok = len([l for l in OUT if ":: OK" in l])
  exc = len([l for l in OUT if ":: EXC" in l])
  print("lines={} ok={} exc={}".format(len(OUT), ok, exc))
  print("DIGEST", sha(blob))

main()

"""Differential script for twin A.

Exercises Reference_Data.get(), ConfigParser.species and the EAM tabulation
path that feeds [Species] into Reference_Data, through the public API only.
Prints a sha256 digest of everything observed (values, exception types and
messages, log records, tabulated file contents).
"""
import hashlib
import io
import logging

from atsim.potentials.config import Configuration, ConfigParser
from atsim.potentials.config._config_parser import ConfigParserOverrideTuple
from atsim.potentials.referencedata import Reference_Data

OUT = []


def emit(*args):
  OUT.append(" | ".join(repr(a) for a in args))


class _ListHandler(logging.Handler):
  def __init__(self):
    logging.Handler.__init__(self, logging.DEBUG)
    self.records = []

  def emit(self, record):
    self.records.append((record.name, record.levelname, record.getMessage()))


def attempt(label, func):
  handler = _ListHandler()
  root = logging.getLogger()
  root.addHandler(handler)
  oldlevel = root.level
  root.setLevel(logging.DEBUG)
  try:
    try:
      result = func()
      emit(label, "OK", result)
    except Exception as e:
      ctx = e.__context__
      emit(label, "EXC", type(e).__module__, type(e).__name__, str(e), e.args,
           type(ctx).__name__ if ctx is not None else None)
  finally:
    root.removeHandler(handler)
    root.setLevel(oldlevel)
  for rec in handler.records:
    emit(label, "LOG", rec)


# ---------------------------------------------------------------- Reference_Data
def reference_data_checks():
  extra_sets = [
    None,
    {},
    {"Gd": {"atomic_mass": 924.0}},
    {"Gd": {"lattice_type": "fcc", "charge": 3.0}, "Xx": {"atomic_mass": 1.5}},
    {"Xx": {}},
    {"U": {"atomic_number": 1, "atomic_mass": 2.0, "covalent_radius": 3.0, "extra": "yes"}},
  ]
  species = ["Gd", "U", "H", "Pt", "Xx", "Bl", "", "gd", "O", None, 12, ("a",), ["unhashable"]]
  properties = ["atomic_mass", "atomic_number", "covalent_radius", "lattice_type", "charge",
                "extra", "atomic_massive", "", None, 0]
  for i, extra in enumerate(extra_sets):
    if extra is None:
      rd = Reference_Data()
    else:
      rd = Reference_Data(extra)
    for s in species:
      for p in properties:
        attempt("rd{}:{!r}:{!r}".format(i, s, p), lambda: rd.get(s, p))
    # extra_data must not have been mutated by the look-ups and results are copies
    emit("rd-extra-after", i, rd.extra_data)
    emit("rd-extra-identity", i, extra is None or rd.extra_data is extra)
  # Repeated look-ups must not leak overrides into the shared table
  rd_a = Reference_Data({"Pt": {"atomic_mass": 1.0}})
  rd_b = Reference_Data()
  emit("isolation", rd_a.get("Pt", "atomic_mass"), rd_b.get("Pt", "atomic_mass"),
       rd_a.get("Pt", "atomic_mass"))
  emit("types", type(rd_b.get("Pt", "atomic_number")).__name__, type(rd_b.get("Pt", "atomic_mass")).__name__)


# ---------------------------------------------------------------- ConfigParser.species
SPECIES_INPUTS = [
  u"",
  u"[Pair]\nO-O : as.buck 1.0 0.2 0.0\n",
  u"[Species]\n",
  u"[Species]\nU.atomic_mass : 235\nU.lattice_constant = 5.678\nTh.lattice_type : bcc\n",
  u"[Species]\nTh.lattice_type : bcc\nU.atomic_mass : 235\nAl.charge : 3\nU.atomic_number : 92\nAl.covalent_radius=1.21\n",
  u"[Species]\n  U . atomic_mass  :  2.35e2 \nU.colour : green\nU.version : 1.10\nU.a.b.c : dotted\n",
  u"[Species]\nU.atomic_number : 92.0\n",
  u"[Species]\nU.atomic_number : ninety\n",
  u"[Species]\nU.atomic_mass : heavy\n",
  u"[Species]\nU.charge : \n",
  u"[Species]\nU.lattice_constant : 1,5\n",
  u"[Species]\nU.covalent_radius : nan\nU.charge : -inf\nU.atomic_number :  0092 \n",
  u"[Species]\nU : 235\n",
  u"[Species]\nUatomic_mass : 235\nU.atomic_mass : 1.0\n",
  u"[Species]\nU.atomic_mass : 1.0\nbadkey : 235\n",
  u"[Species]\n.atomic_mass : 235\nU. : 12\n. : x\n",
  u"[Species]\nU.atomic_mass : 235\nu.atomic_mass : 236\nU.Atomic_Mass : 237\n",
  u"[Species]\nU.atomic_mass : 235\nU.atomic_mass : 236\n",
  u"[Variables]\nmass : 12.5\n[Species]\nU.atomic_mass : 235\n",
  u"[Variables]\nmass : 12.5\n[Species]\nU.atomic_mass : ${mass}\nU.lattice_type : ${Variables:mass}\n",
  u"[Species]\nU.atomic_mass : ${nothere}\n",
  u"[Species]\nU.lattice_type : fcc bcc\nU.lattice_type2 : ångström\nÖ.atomic_mass : 3\n",
  u"[Species]\nU.atomic_mass : 1_0\nU.atomic_number : 1_0\n",
]


def species_checks():
  for i, txt in enumerate(SPECIES_INPUTS):
    def run():
      cp = ConfigParser(io.StringIO(txt))
      first = cp.species
      second = cp.species
      # order of insertion is observable for callers iterating the dictionaries
      listing = [(k, list(v.items()), [type(x).__name__ for x in v.values()]) for k, v in first.items()]
      return listing, first == second, first is second, type(first).__name__
    attempt("species{}".format(i), run)

  # overrides / additional entries routed through the constructor
  base = u"[Species]\nU.atomic_mass : 235\nTh.lattice_type : bcc\n"
  variants = [
    dict(overrides=[ConfigParserOverrideTuple(u"Species", u"U.atomic_mass", u"12")]),
    dict(overrides=[ConfigParserOverrideTuple(u"Species", u"U.atomic_mass", None)]),
    dict(overrides=[ConfigParserOverrideTuple(u"Species", u"U.atomic_mass", None),
                    ConfigParserOverrideTuple(u"Species", u"Th.lattice_type", None)]),
    dict(additional=[ConfigParserOverrideTuple(u"Species", u"O.charge", u"-2")]),
    dict(additional=[ConfigParserOverrideTuple(u"Species", u"O.charge", u"minus two")]),
    dict(additional=[ConfigParserOverrideTuple(u"Species", u"Ocharge", u"-2")]),
  ]
  for i, kw in enumerate(variants):
    attempt("species-override{}".format(i),
            lambda: [(k, list(v.items())) for k, v in ConfigParser(io.StringIO(base), **kw).species.items()])


# ---------------------------------------------------------------- EAM tabulations using [Species]
EAM_TEMPLATE = u"""[Tabulation]
target : {target}
nr : {nr}
dr : 0.02
nrho : {nrho}
drho : 0.05

[Potential-Form]
density(r, n) = (n/r^8) * 0.5 * (1+erf(20*(r-1.5)))

[EAM-Embed]
{embed}

[EAM-Density]
{density}

[Pair]
{pair}
{species}
"""

EMBED = {u"Th": u"Th = as.sqrt -1.185", u"U": u"U = as.sqrt -1.806", u"O": u"O = as.sqrt -0.690", u"Xx": u"Xx = as.sqrt -0.5"}
DENS = {u"Th": u"Th = density 1742.622", u"U": u"U = density 3450.995", u"O": u"O = density 106.856", u"Xx": u"Xx = density 10.0"}
DENS_FS = {
  u"Th": u"Th->Th = density 1742.622\nTh->U = density 17.0\nTh->O = density 14.1\nTh->Xx = density 1.5",
  u"U": u"U->U = density 3450.995\nU->Th = density 13.0\nU->O = density 11.0\nU->Xx = density 1.25",
  u"O": u"O->O = density 106.856\nO->U = density 10.0\nO->Th = density 9.5\nO->Xx = density 1.125",
  u"Xx": u"Xx->Xx = density 10.0\nXx->O = density 2.0\nXx->U = density 3.0\nXx->Th = density 4.0",
}

SPECIES_SECTIONS = [
  u"",
  u"[Species]\nU.atomic_mass : 235\nU.lattice_constant : 5.678\nTh.lattice_type : bcc\n",
  u"[Species]\nO.atomic_number : 88\nO.lattice_type : sc\nTh.atomic_mass : 1.5\nTh.lattice_constant : 3.25\n",
  u"[Species]\nXx.atomic_mass : 12.5\nXx.atomic_number : 120\nXx.lattice_constant : 4.5\nXx.lattice_type : hcp\n",
  u"[Species]\nXx.atomic_mass : 12.5\n",
  u"[Species]\nXx.atomic_number : 120\n",
  u"[Species]\nU.atomic_mass : heavy\n",
  u"[Species]\nU.atomic_number : 92.5\n",
  u"[Species]\nUatomic_mass : 235\n",
  u"[Species]\nU.colour : green\n",
]


def make_eam(target, order, species_section, nr=40, nrho=30):
  fs = target.endswith("fs")
  dens = DENS_FS if fs else DENS
  density = []
  for s in order:
    for line in dens[s].split("\n"):
      if fs:
        other = line.split("->")[1].split("=")[0].strip()
        if other not in order:
          continue
      density.append(line)
  pair = [u"{}-{} = as.buck {} 0.3 0.0".format(a, b, 100.0 + 10 * i + j)
          for i, a in enumerate(order) for j, b in enumerate(order) if j >= i]
  return EAM_TEMPLATE.format(target=target, nr=nr, nrho=nrho,
                             embed=u"\n".join(EMBED[s] for s in order),
                             density=u"\n".join(density),
                             pair=u"\n".join(pair),
                             species=species_section)


def tabulate(txt):
  tabulation = Configuration().read(io.StringIO(txt))
  out = io.StringIO()
  try:
    tabulation.write(out)
    written = out.getvalue()
  except TypeError:
    outb = io.BytesIO()
    tabulation.write(outb)
    written = outb.getvalue()
  eam = [(p.species, p.mass, p.atomicNumber, p.latticeConstant, p.latticeType)
         for p in getattr(tabulation, "eam_potentials", [])]
  return type(tabulation).__name__, eam, hashlib.sha256(
    written if isinstance(written, bytes) else written.encode("utf8")).hexdigest()


def eam_checks():
  orders = [[u"Th", u"U", u"O"], [u"O", u"Th"], [u"U"], [u"Xx", u"O"], [u"O", u"Xx", u"U"]]
  targets = [u"setfl", u"setfl_fs", u"DL_POLY_EAM", u"DL_POLY_EAM_fs"]
  for ti, target in enumerate(targets):
    for oi, order in enumerate(orders):
      for si, sp in enumerate(SPECIES_SECTIONS):
        if (ti + oi + si) % 2 and si not in (3, 4, 5):
          continue
        txt = make_eam(target, order, sp)
        attempt("eam:{}:{}:{}".format(target, "".join(order), si), lambda: tabulate(txt))
  # A pair tabulation ignores the [Species] section altogether, even a malformed one
  for si, sp in enumerate(SPECIES_SECTIONS):
    txt = u"[Tabulation]\ntarget : LAMMPS\nnr : 12\ncutoff : 5.0\n[Pair]\nO-O : as.buck 1000.0 0.3 32.0\nU-O : as.bornmayer 1200 0.35\n" + sp
    attempt("pair-with-species:{}".format(si), lambda: tabulate(txt))


reference_data_checks()
species_checks()
eam_checks()

blob = "\n".join(OUT).encode("utf8")
print("lines", len(OUT))
print("ok", sum(1 for l in OUT if "| 'OK' |" in l), "exc", sum(1 for l in OUT if "| 'EXC' |" in l))
print("sha256", hashlib.sha256(blob).hexdigest())

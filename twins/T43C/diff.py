"""Differential script for twin C (atsim/potentials/config/_table_form_builder.py and
atsim/potentials/tableforms.py).

Exercises Cubic_Spline_Table_Form directly, Table_Form_Builder (as used by the
test-suite), Potential_Form_Registry and full tabulations (pair and EAM) through
Configuration, including unknown interpolation types and data that the
spline class rejects. Prints a sha256 digest of everything observed."""
import hashlib
import io
import os
import struct
import sys

from atsim.potentials import tableforms
from atsim.potentials.tableforms import Cubic_Spline_Table_Form
from atsim.potentials.config import ConfigParser, Configuration
from atsim.potentials.config._common import TableFormTuple
from atsim.potentials.config._table_form_builder import Table_Form_Builder, Table_Form, Table_Form_Factory
from atsim.potentials.config._potential_form_registry import Potential_Form_Registry

OUT = []

def rec(*items):
  OUT.append(repr(items))

def fl(v):
  if isinstance(v, float):
    return struct.pack(">d", v).hex()
  if isinstance(v, (list, tuple)):
    return [fl(i) for i in v]
  return repr(v)

def attempt(label, f):
  try:
    rec(label, "ok", f())
  except Exception as e:
    rec(label, "exc", type(e).__name__, [c.__name__ for c in type(e).__mro__[1:3]], str(e))

DATASETS = {
  "foiles" : ([0.0, 0.00728, 0.01455, 0.02910, 0.03347], [0.0, -3.2170, -4.6278, -2.7699, 0.0]),
  "line" : ([0, 1, 2, 3], [2, 4, 6, 8]),
  "decay" : ([0.25 + 0.5 * i for i in range(9)], [3.0, 2.0, 1.5, 0.75, 0.2, 0.05, 0.0, -0.01, 0.0]),
  "tuples" : ((1.0, 2.0, 4.0, 8.0, 16.0), (1.0, 0.5, 0.25, 0.125, 0.0625)),
  "negative_x" : ([-3.0, -1.5, 0.0, 0.1, 2.0, 7.5], [9.0, 2.25, 0.0, 0.01, 4.0, 56.25]),
  "nan_y" : ([1, 2, 3, 4], [1, float("nan"), 3, 4]),
}
BAD_DATASETS = {
  "empty" : ([], []),
  "one" : ([1], [1]),
  "three" : ([1, 2, 3], [1, 2, 3]),
  "length_mismatch" : ([1, 2, 3, 4], [1, 2, 3]),
  "repeated_x" : ([1, 1, 2, 3], [1, 2, 3, 4]),
  "descending" : ([4, 3, 2, 1], [1, 2, 3, 4]),
  "nan_x" : ([1, float("nan"), 3, 4], [1, 2, 3, 4]),
  "inf_x" : ([1, 2, 3, float("inf")], [1, 2, 3, 4]),
  "strings" : (["a", 2, 3, 4], [1, 2, 3, 4]),
  "none" : (None, None),
}

def probes(x):
  lo, hi = min(x), max(x)
  pts = [lo - 1.0, lo, hi, hi + 1.0, 0.0]
  n = 23
  pts.extend(lo + (hi - lo) * i / n for i in range(n + 1))
  pts.extend(x)
  return pts

def evaluate(callable_, x):
  res = []
  for p in probes(x):
    row = [fl(float(p)), fl(callable_(p))]
    for attr in ("deriv", "deriv2"):
      row.append(fl(getattr(callable_, attr)(p)) if hasattr(callable_, attr) else None)
    res.append(row)
  return res

# 1. Cubic_Spline_Table_Form directly
rec("class attrs", Cubic_Spline_Table_Form.config_label, Cubic_Spline_Table_Form.is_potential,
  sorted(n for n in dir(Cubic_Spline_Table_Form) if not n.startswith("_")),
  sorted(n for n in dir(tableforms) if not n.startswith("_")))
for name in sorted(DATASETS):
  x, y = DATASETS[name]
  def direct():
    ctf = Cubic_Spline_Table_Form(x, y)
    interp = ctf.interpolant
    return (type(ctf(1.0)).__name__, type(interp).__name__, interp is ctf.interpolant,
      fl([float(v) for v in interp.get_knots()]), fl([float(v) for v in interp.get_coeffs()]), evaluate(ctf, x))
  attempt(("direct", name), direct)
for name in sorted(BAD_DATASETS):
  x, y = BAD_DATASETS[name]
  attempt(("direct_bad", name), lambda: Cubic_Spline_Table_Form(x, y)(1.5))
attempt(("direct_call_bad",), lambda: Cubic_Spline_Table_Form([0, 1, 2, 3], [2, 4, 6, 8])("a"))
attempt(("direct_array",), lambda: Cubic_Spline_Table_Form([0, 1, 2, 3], [2, 4, 6, 8])([1.0, 2.0]))

# 2. Table_Form_Builder
tfb = Table_Form_Builder()
rec("lookup", tfb._config_name_to_class("cubic_spline") is Cubic_Spline_Table_Form)
attempt("lookup_bad", lambda: tfb._config_name_to_class("linear"))
for name in sorted(DATASETS):
  x, y = DATASETS[name]
  def build():
    tup = TableFormTuple(name, "cubic_spline", x, y)
    pf = tfb.create_potential_form(tup)
    func = pf()
    sig = pf.signature
    pd = pf.potential_definition
    return (type(pf).__name__, [c.__name__ for c in type(pf).__mro__], sig.label, list(sig.parameter_names), sig.is_varargs,
      repr(pd.expression), type(pf.potential_function).__name__, type(func).__name__, pf() is func, hasattr(func, "deriv"), hasattr(func, "deriv2"),
      evaluate(func, x))
  attempt(("build", name), build)
  attempt(("build_args", name), lambda: tfb.create_potential_form(TableFormTuple(name, "cubic_spline", x, y))(1.0))
for name in sorted(BAD_DATASETS):
  x, y = BAD_DATASETS[name]
  attempt(("build_bad", name), lambda: fl(tfb.create_potential_form(TableFormTuple("bad_" + name, "cubic_spline", x, y))()(1.5)))
for interp in ("linear", "", "Cubic_Spline", "cubic_spline ", None, 3):
  attempt(("build_unknown", interp), lambda: tfb.create_potential_form(TableFormTuple("unk", interp, [0, 1, 2, 3], [0, 1, 2, 3])))
attempt(("build_unhashable",), lambda: tfb.create_potential_form(TableFormTuple("unk", ["cubic_spline"], [0, 1, 2, 3], [0, 1, 2, 3])))
attempt(("build_not_tuple",), lambda: tfb.create_potential_form(("n", "cubic_spline", [0, 1, 2, 3], [0, 1, 2, 3])))
# unknown interpolation AND bad data: which error wins
attempt(("build_unknown_bad",), lambda: tfb.create_potential_form(TableFormTuple("unk", "akima", [1], [1, 2])))

def factory_and_form():
  tup = TableFormTuple("ff", "cubic_spline", *DATASETS["decay"])
  fac = Table_Form_Factory(tup, Cubic_Spline_Table_Form)
  tf = Table_Form(tup, Cubic_Spline_Table_Form)
  return (fac() is fac(), fac() is fac.potential_function, type(fac()).__name__, fl(fac()(1.1)),
    tf.signature.label, list(tf.signature.parameter_names), fl(tf()(1.1)), fl(tf().deriv(1.1)), fl(tf().deriv2(1.1)),
    tf.potential_function is tf.potential_function)
attempt("factory_and_form", factory_and_form)

# 3. Potential_Form_Registry
REG_1 = u"""
[Table-Form:tabulated_1]
interpolation : cubic_spline
x : 0.0 0.00728 0.01455 0.02910 0.03347
y : 0.0 -3.2170 -4.6278 -2.7699 0.0

[Table-Form:tabulated_2]
interpolation : cubic_spline
x : 0 1 2 3
y : 0 1 2 3

[Table-Form:a_table]
xy : 0 5 1 4 2 2 3 1 4 0.5
"""
REG_2 = u"""
[Potential-Form]
test(r) = tabulated(r) + 5
twice(r, s) = s * tabulated(r) + other(r)

[Table-Form:tabulated]
interpolation : cubic_spline
x : 0 1 2 3
y : 0 1 2 3

[Table-Form:other]
xy : 0 5 1 4 2 2 3 1 4 0.5
"""
def registry(cfg_string, evals, standard):
  cfg = ConfigParser(io.StringIO(cfg_string))
  pfr = Potential_Form_Registry(cfg, register_standard=standard)
  out = [list(pfr.registered) if not standard else [n for n in pfr.registered if not n.startswith("as.")]]
  for label, args in evals:
    f = pfr[label](*args)
    out.append((label, args, [fl(f(r)) for r in (0.0, 0.5, 1.0, 1.75, 2.999, 3.0, 3.5)]))
  return out
for standard in (False, True):
  attempt(("registry1", standard), lambda: registry(REG_1, [("tabulated_1", ()), ("tabulated_2", ()), ("a_table", ())], standard))
  attempt(("registry2", standard), lambda: registry(REG_2, [("tabulated", ()), ("other", ()), ("test", ()), ("twice", (2.5,))], standard))
attempt("registry_args", lambda: registry(REG_1, [("tabulated_1", (1.0,))], False))
attempt("registry_clash_form", lambda: registry(u"[Potential-Form]\nt(r) = r\n[Table-Form:t]\nxy: 0 1 1 2 2 3 3 4\n", [], False))
attempt("registry_clash_std", lambda: registry(u"[Table-Form:as.buck]\nxy: 0 1 1 2 2 3 3 4\n", [], True))
attempt("registry_unknown", lambda: registry(u"[Table-Form:t]\ninterpolation : quintic\nxy: 0 1 1 2 2 3 3 4\n", [], False))
attempt("registry_short", lambda: registry(u"[Table-Form:ok]\nxy: 0 1 1 2 2 3 3 4\n[Table-Form:t]\nxy: 0 1 1 2\n", [], False))
attempt("registry_unsorted", lambda: registry(u"[Table-Form:t]\nx: 0 2 1 3\ny: 0 1 2 3\n", [], False))

# 4. Full tabulations
PAIR_TEMPLATE = u"""
[Tabulation]
target : {target}
cutoff : {cutoff}
nr : {nr}

[Pair]
{pairs}

[Potential-Form]
shifted(r, s) = tf_xy(r) + s

[Table-Form:tf_xy]
interpolation : {interp}
xy : 0.5 10.0
     1.0 4.0
     1.5 1.0
     2.0 0.25
     2.5 0.0625
     3.5 0.0

[Table-Form:tf_x_y]
y : 3.0 2.0 1.5 0.75 0.2 0.05 0.0
x : 0.25 0.75 1.25 1.75 2.25 2.75 3.25
"""
def tabulate(cfg):
  tabulation = Configuration().read(io.StringIO(cfg))
  sio = io.StringIO()
  tabulation.write(sio)
  return hashlib.sha256(sio.getvalue().encode()).hexdigest(), len(sio.getvalue())

for target in ("LAMMPS", "DL_POLY", "GULP"):
  for pairs in ("A-B : tf_xy\nB-B : tf_x_y\nA-A : shifted 0.5",
                "B-B : tf_x_y\nA-B : sum(tf_xy, as.buck 1000.0 0.3 5.0)",
                "A-A : as.zero >1.0 tf_xy >2.0 tf_x_y\nB-A : spline(tf_x_y >1.0 exp_spline >=1.5 tf_xy)"):
    for cutoff, nr in ((4.0, 40), (3.3, 16)):
      cfg = PAIR_TEMPLATE.format(target=target, cutoff=cutoff, nr=nr, pairs=pairs, interp="cubic_spline")
      attempt(("tabulate", target, pairs, cutoff, nr), lambda: tabulate(cfg))
attempt(("tabulate_unknown",), lambda: tabulate(PAIR_TEMPLATE.format(target="LAMMPS", cutoff=3.0, nr=12, pairs="A-B : tf_xy", interp="linear")))

EAM = u"""
[Tabulation]
target : {target}
nr : {nr}
dr : 0.05
nrho : {nrho}
drho : 0.001

[EAM-Embed]
{embed}

[EAM-Density]
{density}

[Pair]
{pair}

[Table-Form:F]
x : 0.0 0.00728 0.01455 0.02910 0.03347
y : 0.0 -3.2170 -4.6278 -2.7699 0.0

[Table-Form:rho]
xy : 0.5 0.030 1.0 0.020 1.5 0.012 2.0 0.006 2.5 0.002 3.0 0.0005 3.5 0.0
"""
for target in ("setfl", "DL_POLY_EAM"):
  for embed, density, pair in [
      ("Au : F\nAg : as.sqrt -1.0", "Au : rho\nAg : as.exponential 0.02 1.0", "Au-Au : as.buck 1000.0 0.3 0.0\nAg-Au : rho\nAg-Ag : as.zero"),
      ("Ag : as.sqrt -1.0\nAu : F", "Ag : rho\nAu : rho", "Ag-Ag : as.zero\nAu-Ag : product(rho, as.constant 10.0)\nAu-Au : as.buck 1000.0 0.3 0.0")]:
    for nr, nrho in ((60, 36), (24, 20)):
      cfg = EAM.format(target=target, embed=embed, density=density, pair=pair, nr=nr, nrho=nrho)
      attempt(("eam", target, embed, nr, nrho), lambda: tabulate(cfg))

def adp():
  with open(os.path.join("tests", "lammps_resources", "Al_Cu_adp.aspot")) as infile:
    cfg = infile.read()
  cfg = cfg.replace("nrho : 10000", "nrho : 50").replace("nr : 10000", "nr : 50")
  cfg = cfg.replace("drho : 2.2770502180000001e-03", "drho : 4.5e-01").replace("dr : 6.2872099999999995e-04", "dr : 1.2e-01")
  return tabulate(cfg)
attempt("Al_Cu_adp", adp)

blob = "\n".join(OUT).encode("utf-8")
print("records", len(OUT))
print("sha256", hashlib.sha256(blob).hexdigest())
if "--dump" in sys.argv:
  print("\n".join(o[:260] for o in OUT))

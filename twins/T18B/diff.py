"""Ext B: potable --list-targets query action.

(a) prints the existing-behaviour digest (must be identical on clean and edited trees)
(b) demonstrates --list-targets: output, consistency with what Configuration accepts and with the
    reference manual, interplay with sibling options, error paths and hash-seed independence."""
import hashlib
import io
import os
import re
import subprocess
import sys
import tempfile

sys.path.insert(0, os.path.dirname(os.path.abspath(__file__)))
import common_digest as cd

d, _lines = cd.digest()
print("EXISTING-BEHAVIOUR DIGEST:", d)

from atsim.potentials.tools.potable import _query_actions, _parse_command_line
from atsim.potentials.config import ConfigParser

if not hasattr(_query_actions, "action_list_targets"):
  print("NEW FEATURE: --list-targets absent (clean tree)")
  sys.exit(0)

basak = os.path.join(cd.WT, "docs", "quick_start", "basak.aspot")
fs = os.path.join(cd.WT, "docs", "user_guide", "example_files", "finnis_sinclair_eam.aspot")

res = cd.potable_cli([basak, "--list-targets"])
status, out, err = res.split("|")
print(out, end = "")
assert status == "exit:0" and err == ""
listing = out.splitlines()
spellings = [l.partition("=")[0] for l in listing]
assert spellings == sorted(spellings) and len(set(spellings)) == len(spellings)
print("NEW FEATURE: listing sha256", hashlib.sha256(out.encode()).hexdigest())

# The same listing whatever the file, filters and overrides (it is a property of potable not of the model)
for cli in [[fs, "--list-targets"], [basak, "--list-targets", "--include-species", "O"],
            [basak, "--list-targets", "--override-item", "Tabulation:target=GULP"],
            [basak, "--list-targets", "--remove-item", "Tabulation:target"], [basak, "out.table", "--list-targets"]]:
  assert cd.potable_cli(cli) == res, cli
assert not os.path.exists("out.table")

# Every listed spelling is accepted by Configuration (never 'unknown tabulation target') and a synonym gives the
# same bytes as the target it stands for; spellings not listed are refused.
PAIR = u"[Pair]\nAl-Al : as.buck 1000 0.3 32\n"
EAM = PAIR + u"[EAM-Embed]\nAl : as.sqrt -1.0\n[EAM-Density]\nAl : as.exponential 2.0 -1.0\n"
FS = PAIR + u"[EAM-Embed]\nAl : as.sqrt -1.0\n[EAM-Density]\nAl->Al : as.exponential 2.0 -1.0\n"
ADP = EAM + u"[EAM-ADP-Dipole]\nAl-Al : as.constant 0.1\n[EAM-ADP-Quadrupole]\nAl-Al : as.constant 0.2\n"
def write(target):
  for body in (PAIR, EAM, FS, ADP):
    text = u"[Tabulation]\ntarget : {}\nnr : 8\ncutoff : 3.5\nnrho : 5\ncutoff_rho : 4.0\n".format(target) + body
    if target.startswith("excel"):
      # xlsx is binary: just build the tabulation
      try:
        from atsim.potentials.config import Configuration
        Configuration().read(io.StringIO(text))
        return "OK:built"
      except Exception as e:
        r = "CFGERR:" + str(e)
    else:
      r = cd.outcome(cd.tabulate_text, text)
    if r.startswith("OK:"):
      return r
  return r
for line in listing:
  spelling, _, canonical = line.partition("=")
  r = write(spelling)
  assert r.startswith("OK:"), (spelling, r)
  if canonical:
    assert canonical in listing, canonical
    assert write(canonical) == r, (spelling, canonical)
for spelling in ["lammps", "dlpoly", "SETFL", "nosuch", "DL_POLY_EAM_FS", ""]:
  assert spelling not in [l.partition("=")[0] for l in listing]
  r = write(spelling) if spelling else None
  assert r is None or (r.startswith("CFGERR:") and "unknown tabulation target" in r), (spelling, r)
print("NEW FEATURE: all {} listed spellings tabulate, synonyms give identical bytes, unlisted spellings refused".format(len(listing)))

# Agrees with the reference manual's list of valid options for [Tabulation] target
with open(os.path.join(cd.WT, "docs", "reference", "potable_input.rst")) as infile:
  rst = infile.read()
block = rst[rst.index(":Valid Options:", rst.index(".. _ref-potable-input-tabulation-target:")):]
block = block[:block.index(":Description:")]
documented = set()
for group in re.findall(r"``([^`]+)``", block):
  documented.update(group.split("|"))
listed = set(l.partition("=")[0] for l in listing)
print("  documented but not listed:", sorted(documented - listed), " listed but not documented:", sorted(listed - documented))
assert documented <= listed
# (lammps_eam_alloy is accepted and tested upstream but only its LAMMPS_eam_alloy spelling is in the manual)
assert listed - documented == set(["lammps_eam_alloy"])

# Mutually exclusive with its sibling queries; still needs a readable configuration; configuration errors from
# the edit options are reported in the same way as for the sibling queries
for cli, expect in [
  ([basak, "--list-targets", "--list-items"], "not allowed with argument"),
  ([basak, "--list-targets", "--override-item", "Tabulation:nosuch=1"], "configuration error - Entry [Tabulation]: 'nosuch' not found"),
  ([basak, "--list-targets", "--add-item", "Tabulation:target=GULP"], "configuration error - Entry [Tabulation]: 'target' already exists"),
  ([basak, "--list-targets", "--remove-item", "nocolon"], "configuration error - malformed option"),
]:
  r = cd.potable_cli(cli)
  print("  {} -> {}".format(" ".join(cli[1:]), r.replace("\n", " ")[:110]))
  assert r.startswith("exit:2|") and expect in r, r
  sib = cd.potable_cli([c if c != "--list-targets" else "--list-item-labels" for c in cli])
  if "--list-items" not in cli:
    assert sib.split("|")[2] == r.split("|")[2]
with tempfile.TemporaryDirectory() as tmpdir:
  bad = os.path.join(tmpdir, "bad.aspot")
  with open(bad, "w") as f:
    f.write("not an ini file\n")
  r = cd.potable_cli([bad, "--list-targets"])
  assert r.startswith("exit:2|") and "configuration error - Error reading configuration file" in r, r

# Flag absent: parsed arguments default to False and tabulation is what it was (the digest above covers this)
p, args = _parse_command_line([basak, "out"])
assert args.list_targets is False

if os.environ.get("DIFFB_CHILD") != "1":
  seen = set()
  for seed in ["0", "1", "12345"]:
    env = dict(os.environ, PYTHONHASHSEED = seed, DIFFB_CHILD = "1")
    o = subprocess.check_output([sys.executable, "-W", "ignore", "/tmp/wtpy.py", cd.WT, os.path.abspath(__file__)], env = env).decode()
    seen.add([l for l in o.splitlines() if l.startswith("NEW FEATURE: listing sha256")][0])
  assert len(seen) == 1, seen
  print("NEW FEATURE: identical listing for PYTHONHASHSEED 0, 1, 12345:", seen.pop().split()[-1])

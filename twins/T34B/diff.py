"""Differential script for twin B (registries built by explicit sorted(vars(module)) loops and
comprehensions: config/_potential_form_registry.py, config/_modifier_registry.py).

Prints a sha256 digest of everything observed; run on clean and refactored trees."""
import hashlib
import io
import logging
import sys

from atsim.potentials.config import Configuration, ConfigParser
from atsim.potentials.config._potential_form_registry import Potential_Form_Registry
from atsim.potentials.config._modifier_registry import Modifier_Registry

out = []

def rec(*items):
  out.append(" | ".join(str(i) for i in items))

def attempt(label, f):
  try:
    v = f()
    rec(label, "OK", repr(v), type(v).__name__)
  except Exception as e:
    rec(label, "EXC", type(e).__name__, str(e))

class ListHandler(logging.Handler):
  def __init__(self):
    logging.Handler.__init__(self)
    self.records = []
  def emit(self, record):
    self.records.append((record.name, record.levelname, record.getMessage()))

# 1. Modifier registry: names, order, objects, log messages ---------------------------------
handler = ListHandler()
root = logging.getLogger("atsim.potentials.config._modifier_registry")
root.addHandler(handler)
root.setLevel(logging.DEBUG)
mr = Modifier_Registry()
root.removeHandler(handler)
root.setLevel(logging.NOTSET)
rec("modifier log", handler.records)
rec("modifier keys (insertion order)", list(mr._modifiers.keys()))
for k in list(mr._modifiers.keys()):
  rec("modifier", k, mr[k].__module__, mr[k].__name__, type(mr[k]).__name__)
for k in ["sum", "product", "pow", "spline", "trans", "modifier", "is_modifier", "_sum", "logging", "nothing"]:
  attempt("modifier lookup " + k, lambda: mr[k].__name__)

# 2. Potential form registry: contents for all flag combinations -----------------------------
def describe_registry(label, pfr):
  rec(label, "registered", pfr.registered)
  rec(label, "insertion order", list(pfr._potential_forms.keys()))
  rec(label, "reserved", sorted(pfr._reserved_names))
  for k in pfr._potential_forms.keys():
    pf = pfr[k]
    rec(label, "form", k, type(pf).__name__, pf.signature, repr(pf.potential_definition))
    pfunc = getattr(pf, "potential_function", None)
    if pfunc is not None:
      rec(label, "func", k, type(pfunc).__name__, pfunc._potential_form_tuple, hasattr(pfunc, "deriv"), hasattr(pfunc, "deriv2"))
      st = getattr(pfunc, "_local_symbol_table", None)
      if st is not None:
        rec(label, "symbols", k, sorted(n for n, _f in st.functions.items()))

cfg_strings = {
  "empty" : u"",
  "forms" : u"""[Potential-Form]
buck(r, A, rho, C) : A*exp(-r/rho) - C/r^6
morse(r, gamma, r_star, D) : D*(exp(-2.0*gamma*(r-r_star)) - 2.0*exp(-gamma*(r-r_star)))
buck_morse(r, A, rho, C, gamma, r_star, D) : buck(r,A,rho,C) + morse(r, gamma, r_star, D)
""",
  "forms_std" : u"""[Potential-Form]
zz(r, A) : as.buck(r, A, 0.3, 0.0) + pymath.floor(r)
aa(r, A, B) : zz(r, A) + as.constant(r, B)

[Table-Form:tabulated]
interpolation: cubic_spline
x : 0.0 1.0 2.0 3.0
y : 0.0 2.0 3.0 4.0
""",
  "tables" : u"""[Table-Form:t2]
interpolation: cubic_spline
xy : 0.0 0.0 1.0 2.0 2.0 3.0 3.0 4.0

[Table-Form:t1]
interpolation: cubic_spline
x : 0.0 1.0 2.0 3.0
y : 0.0 2.0 3.0 4.0
""",
  "dup_forms" : u"""[Potential-Form]
buck(r, A, rho, C) : A*exp(-r/rho) - C/r^6
buck(r, A, rho, C,D) : A*exp(-r/rho) - C/r^6
""",
  "form_clash_std" : u"""[Potential-Form]
as.buck(r, A) : A*r
""",
  "form_clash_std_only_forms" : u"""[Potential-Form]
as.buck4(r, A) : A*r
""",
  "table_clash_std" : u"""[Table-Form:as.morse]
interpolation: cubic_spline
x : 0.0 1.0 2.0 3.0
y : 0.0 2.0 3.0 4.0
""",
  "table_clash_reserved" : u"""[Table-Form:as.buck4]
interpolation: cubic_spline
x : 0.0 1.0 2.0 3.0
y : 0.0 2.0 3.0 4.0
""",
  "table_clash_form" : u"""[Potential-Form]
same(r, A) : A*r

[Table-Form:same]
interpolation: cubic_spline
x : 0.0 1.0 2.0 3.0
y : 0.0 2.0 3.0 4.0
""",
  "form_named_like_pymath" : u"""[Potential-Form]
pymath.ceil(r, A) : A*r
other(r, A) : pymath.ceil(r, A)
""",
}

for cname in sorted(cfg_strings):
  for std in (False, True):
    for pym in (False, True):
      label = "pfr {} std={} pymath={}".format(cname, std, pym)
      def run():
        cfg = ConfigParser(io.StringIO(cfg_strings[cname]))
        pfr = Potential_Form_Registry(cfg, register_standard = std, register_pymath_functions = pym)
        describe_registry(label, pfr)
        return len(pfr.registered)
      attempt(label, run)

# 3. Use of every registered standard form -------------------------------------------------------
cfg = ConfigParser(io.StringIO(cfg_strings["forms_std"]))
pfr = Potential_Form_Registry(cfg, register_standard = True, register_pymath_functions = True)
argsets = [(), (1.5,), (1000.0, 0.3), (1000.0, 0.3, 32.0), (1.0, 2.0, 3.0, 4.0), (0.5, 1.0, 1.5, 2.0, 2.5),
           (1000.0, 0.3, 32.0, 1.0, 1.5, 2.0), (1.0, 2.0, 3.0, 4.0, 5.0, 6.0, 7.0), (8.0, 0.5, 8.0, 0.4, 1.0, 2.0, 3.0, 4.0)]
for k in pfr.registered:
  for args in argsets:
    def run():
      f = pfr[k](*args)
      vals = [f(r) for r in (0.7, 1.3, 2.9)]
      d = [f.deriv(r) for r in (0.7, 1.3)] if hasattr(f, "deriv") else None
      d2 = [f.deriv2(r) for r in (0.7, 1.3)] if hasattr(f, "deriv2") else None
      return vals, d, d2
    attempt("use {} {}".format(k, args), run)
for k in ["as.nothing", "buck", "as.", "as.potential", "as.is_potential", "as._iscallable", "as._FunctionFactory",
          "as.Callable", "as.inspect", "pymath.ceil", "as.Spline_Point", "as.num_deriv"]:
  attempt("lookup " + k, lambda: pfr[k].signature)

# 4. Whole tabulations via Configuration (uses both registries) ------------------------------
table_template = u"""
[Tabulation]
target : {target}
cutoff : {cutoff}
nr : {nr}

[Pair]
{pairs}

[Potential-Form]
zz(r, A) : as.buck(r, A, 0.3, 0.0) + pymath.floor(r)
mine(r, A, B) : zz(r, A) + as.constant(r, B) + tabulated(r)

[Table-Form:tabulated]
interpolation: cubic_spline
x : 0.0 1.0 2.0 3.0 12.0
y : 0.0 2.0 3.0 4.0 0.0
"""
pairsets = [
  "O-O : as.buck 1000.0 0.3 32.0\nMg-O : mine 100.0 0.2",
  "Mg-O : mine 100.0 0.2\nO-O : as.buck4 11272.6 0.1363 134.0 1.2 2.1 2.6\nAl-O : tabulated",
  "B-A : sum(as.morse 1.2 1.5 0.8, as.constant 1.0, zz 3.0)\nA-A : product(as.lj 0.1 2.0, as.exponential 2.0 0.5)",
  "A-B : spline(as.zbl 8 8 >=1.0 exp_spline >1.5 as.buck 1000.0 0.3 32.0)\nB-B : pow(as.bornmayer 100.0 0.3, as.constant 2.0)",
  "A-B : nothing(as.zero)",
  "A-B : as.nothing 1.0",
  "A-B : as.buck 1.0",
  "A-B : as.polynomial 1.0 2.0 3.0\nC-C : as.hbnd 10.0 5.0\nD-D : as.coul 1.0 -2.0\nE-E: as.sqrt 2.0\nF-F : as.tang_toennies 1.0 0.5 2.0 3.0 4.0",
]
for target, cutoff, nr in [("LAMMPS", 6.0, 40), ("DL_POLY", 4.5, 32), ("GULP", 8.0, 21)]:
  for pairs in pairsets:
    def run():
      cfgobj = Configuration()
      tabulation = cfgobj.read(io.StringIO(table_template.format(target = target, cutoff = cutoff, nr = nr, pairs = pairs)))
      sio = io.StringIO()
      tabulation.write(sio)
      return hashlib.sha256(sio.getvalue().encode("utf-8")).hexdigest(), len(sio.getvalue())
    attempt("table {} {} {} {!r}".format(target, cutoff, nr, pairs), run)

blob = "\n".join(out)
if "-v" in sys.argv:
  print(blob)
print("records:", len(out))
print("sha256:", hashlib.sha256(blob.encode("utf-8")).hexdigest())

"""Differential script for twin A (memoised key normalisation and species key parsing in
atsim/potentials/config/_config_parser.py).

Run with:
  /venv/bin/python -W ignore /tmp/wtpy.py /tmp/wt_r5_3 _twins/diffA.py

Prints one line per case and a final sha256 digest over everything. Every case is run
TWICE (and in two different orders) so that both cache misses and cache hits are exercised."""

import glob
import hashlib
import io
import logging
import os
import sys

logging.disable(logging.CRITICAL)

from atsim.potentials.config import Configuration, ConfigParser
from atsim.potentials.config._config_parser import ConfigParserOverrideTuple as OT

ROOT = os.path.dirname(os.path.dirname(os.path.abspath(__file__)))

OUT = []

def emit(label, value):
  line = "{} :: {}".format(label, value)
  OUT.append(line)

def sha(s):
  if not isinstance(s, bytes):
    s = s.encode("utf-8")
  return hashlib.sha256(s).hexdigest()

def guarded(label, func):
  try:
    v = func()
    emit(label, "OK " + sha(repr(v)) + " " + repr(v)[:160])
  except Exception as e:
    emit(label, "EXC {} {}".format(type(e).__name__, sha(str(e))) + " " + str(e)[:160])

def parser_dump(label, text, overrides = [], additional = []):
  def make():
    return ConfigParser(io.StringIO(text), overrides = overrides, additional = additional)
  try:
    cp = make()
  except Exception as e:
    emit(label + ".construct", "EXC {} {} {}".format(type(e).__name__, sha(str(e)), str(e)[:160]))
    return None
  for attr in ["parsed_sections", "orphan_sections", "pair", "eam_embed", "eam_density", "eam_density_fs",
               "potential_form", "table_form", "species", "tabulation"]:
    guarded("{}.{}".format(label, attr), lambda : getattr(cp, attr))
  rcp = cp.raw_config_parser
  sections = rcp.sections()
  emit(label + ".sections", repr(sections))
  for s in sections + ["Variables"]:
    guarded("{}.options[{}]".format(label, s), lambda : rcp.options(s))
    guarded("{}.items[{}]".format(label, s), lambda : sorted(rcp.items(s)))
  return cp

def tabulate(label, text, overrides = [], additional = []):
  def run():
    cp = ConfigParser(io.StringIO(text), overrides = overrides, additional = additional)
    tab = Configuration().read_from_parser(cp)
    sio = io.StringIO()
    tab.write(sio)
    return sha(sio.getvalue())
  guarded(label + ".tabulate", run)

# ---------------------------------------------------------------------------
# Inline models concentrating on key handling
# ---------------------------------------------------------------------------

PAIR_WS = """
[Tabulation]
target : LAMMPS
cutoff : 6.0
nr : 25

[Pair]
O-O = as.buck 1633.00510 0.327022 3.948790
U - O = as.buck 294.640000 0.327022 0.0
U\t-\tU   = as.buck 1000.0 0.2 1.0 >=3.0 as.zero
Gd -O : mybuck 1000.0  0.3
O- Th : sum(as.buck 100.0 0.3 0.0, >1.0 as.constant 1.0)

[Potential-Form]
mybuck( r , A,   rho ) = A*exp(-r/rho)
other(r,A)=A*r
"""

PAIR_DUP_A = """
[Pair]
O-U = as.buck 1.0 0.2 0.0
U - O = as.buck 2.0 0.2 0.0
"""

PAIR_DUP_B = """
[Pair]
O-U = as.buck 1.0 0.2 0.0
O -U = as.buck 2.0 0.2 0.0
"""

PAIR_DUP_C = """
[Pair]
O-O = as.buck 1.0 0.2 0.0
O- O = as.buck 2.0 0.2 0.0
"""

PAIR_BAD_KEYS = """
[Pair]
O-U-Th = as.buck 1.0 0.2 0.0
"""

PAIR_BAD_KEYS2 = """
[Pair]
OU = as.buck 1.0 0.2 0.0
"""

PAIR_BAD_KEYS3 = """
[Pair]
O-U = as.buck 1.0 0.2 0.0
- = as.buck 1.0 0.2 0.0
-Th = as.zero
"""

PAIR_BAD_VALUE = """
[Pair]
O-U = as.buck 1.0 0.2 0.0 >
"""

EAM_FS = """
[Tabulation]
target : setfl_fs
nr : 20
dr : 0.25
nrho : 20
drho : 0.5

[Pair]
Al-Al = as.buck 100.0 0.3 1.0
Al-Fe = as.buck 200.0 0.3 2.0
Fe - Fe = as.buck 300.0 0.3 3.0

[EAM-Embed]
Al = as.sqrt -1.0
Fe = as.sqrt -2.0

[EAM-Density]
Al->Al = as.exponential 1.0 -2.0
Al -> Fe = as.exponential 2.0 -2.0
Fe\t->Al = as.exponential 3.0 -2.0
Fe->   Fe = as.exponential 4.0 -2.0

[Species]
Al.lattice_type = fcc
Fe . lattice_constant = 2.8
Fe.atomic_mass = 55.0
"""

EAM_FS_BAD = """
[Tabulation]
target : setfl_fs

[EAM-Embed]
Al = as.sqrt -1.0

[EAM-Density]
Al->Al->Fe = as.exponential 1.0 -2.0
"""

EAM_FS_BAD2 = """
[Tabulation]
target : setfl_fs

[EAM-Embed]
Al = as.sqrt -1.0

[EAM-Density]
Al->Al = as.exponential 1.0 -2.0
Al = as.exponential 1.0 -2.0
"""

EAM_FS_DUP = """
[Tabulation]
target : setfl_fs
nr : 10
dr : 0.5
nrho : 10
drho : 0.5

[Pair]
Al-Al = as.zero

[EAM-Embed]
Al = as.sqrt -1.0

[EAM-Density]
Al->Al = as.exponential 1.0 -2.0
Al ->Al = as.exponential 1.0 -2.0
"""

EAM_STD = """
[Tabulation]
target : setfl
nr : 20
dr : 0.25
nrho : 20
drho : 0.5

[Pair]
Ag - Ag = as.buck 100.0 0.3 1.0
Cu-Ag = as.buck 100.0 0.3 1.0

[EAM-Embed]
Ag  = as.sqrt -1.0
Cu	= as.sqrt -1.5

[EAM-Density]
Ag = as.exponential 1.0 -2.0
Cu = as.exponential 1.0 -3.0
"""

VARIABLES = """
[Variables]
my A = 1000.0
rho = 0.3

[Tabulation]
target : GULP
cutoff : 5.0
nr : 21

[Pair]
O-O = as.buck ${my A} ${rho} 0.0
Si-O = as.bornmayer ${myA} ${Variables:rho}
"""

DUP_OPTION = """
[Pair]
O-O = as.zero
O-O = as.zero
"""

DUP_OPTION_WS = """
[Potential-Form]
f(r, A) = A*r
f(r,A) = A*r*2
"""

INLINE = [
  ("pair_ws", PAIR_WS), ("pair_dup_a", PAIR_DUP_A), ("pair_dup_b", PAIR_DUP_B), ("pair_dup_c", PAIR_DUP_C),
  ("pair_bad_keys", PAIR_BAD_KEYS), ("pair_bad_keys2", PAIR_BAD_KEYS2), ("pair_bad_keys3", PAIR_BAD_KEYS3),
  ("pair_bad_value", PAIR_BAD_VALUE),
  ("eam_fs", EAM_FS), ("eam_fs_bad", EAM_FS_BAD), ("eam_fs_bad2", EAM_FS_BAD2), ("eam_fs_dup", EAM_FS_DUP),
  ("eam_std", EAM_STD), ("variables", VARIABLES), ("dup_option", DUP_OPTION), ("dup_option_ws", DUP_OPTION_WS)]

OVERRIDE_CASES = [
  ("ovr_ws_key", PAIR_WS, [OT("Pair", "U-O", "as.buck 1.0 0.5 0.0")], []),
  ("ovr_ws_key2", PAIR_WS, [OT("Pair", " U - O ", "as.buck 2.0 0.5 0.0")], []),
  ("ovr_tab_key", PAIR_WS, [OT("Pair", "U-U", None)], []),
  ("ovr_pform", PAIR_WS, [OT("Potential-Form", "mybuck(r,A,rho)", "A*exp(-r/rho)+1")], []),
  ("ovr_missing", PAIR_WS, [OT("Pair", "Zr-O", "as.zero")], []),
  ("add_new", PAIR_WS, [], [OT("Pair", "Zr - O", "as.zero")]),
  ("add_dup", PAIR_WS, [], [OT("Pair", "O -O", "as.zero")]),
  ("add_rev_dup", PAIR_WS, [], [OT("Pair", "O-U", "as.zero")]),
  ("add_section", PAIR_WS, [], [OT("Species", "U . charge", "4.0"), OT("Variables", "x y", "1.0")]),
  ("ovr_nr", PAIR_WS, [OT("Tabulation", "nr", "13"), OT("Tabulation", "target", "DLPOLY")], []),
  ("ovr_nr12", PAIR_WS, [OT("Tabulation", "nr", "12"), OT("Tabulation", "target", "DL_POLY")], []),
  ("fs_ovr", EAM_FS, [OT("EAM-Density", "Al->Fe", "as.exponential 5.0 -1.0")], [OT("EAM-Density", "Fe -> Ni", "as.zero")]),
  ("fs_as_dlpoly", EAM_FS, [OT("Tabulation", "target", "DL_POLY_EAM_fs")], []),
  ("std_as_dlpoly", EAM_STD, [OT("Tabulation", "target", "DL_POLY_EAM")], []),
]

def normalise_key_cases():
  # Through the public raw_config_parser object
  cp = ConfigParser(io.StringIO(PAIR_WS))
  rcp = cp.raw_config_parser
  keys = ["O-O", " O - O ", "U-O", "U\t-\tO", "U -\tU", "mybuck(r,A,rho)", "mybuck( r, A ,rho )", "other( r , A )",
          "", " ", "\t", "\n O-O \n", "O -O", "nothere", "Gd-O", "gd-o"]
  for k in keys + list(reversed(keys)):
    for section in ["Pair", "Potential-Form", "Variables", "Missing"]:
      guarded("has_option[{!r},{!r}]".format(section, k), lambda : rcp.has_option(section, k))
      guarded("optionxform[{!r}]".format(k), lambda : rcp.optionxform(k))
      guarded("get[{!r},{!r}]".format(section, k), lambda : rcp.get(section, k, fallback = "FALLBACK"))
  # Non-string keys must be reported in the same way as before
  for k in [None, 1, 1.5, b"O-O", ("O", "O"), ["O-O"], {"a" : 1}]:
    guarded("optionxform_odd[{!r}]".format(k), lambda : rcp.optionxform(k))
    guarded("has_option_odd[{!r}]".format(k), lambda : rcp.has_option("Pair", k))
    guarded("pair_species_func_odd[{!r}]".format(k), lambda : cp._pair_species_func(k))
  class S(str):
    def strip(self):
      return "stripped"
    def split(self, sep):
      return ["x ", " y"]
  guarded("optionxform_subclass", lambda : rcp.optionxform(S("O - O")))
  guarded("pair_species_func_subclass", lambda : cp._pair_species_func(S("O - O")))
  for k in ["O-O", "O - O", " A-B ", "A-B-C", "AB", "-", "A->B", "", "O-O"]:
    guarded("pair_species_func[{!r}]".format(k), lambda : (cp._pair_species_func(k), type(cp._pair_species_func(k)).__name__))
    guarded("parse_pair_line[{!r}]".format(k), lambda : cp._parse_pair_line(k, "as.buck 1.0 2.0 3.0"))
    guarded("parse_fs_line[{!r}]".format(k), lambda : cp._parse_eam_fs_density_line(k, "as.buck 1.0 2.0 3.0"))

def file_cases():
  files = sorted(glob.glob(os.path.join(ROOT, "tests", "**", "*.aspot"), recursive = True))
  files += sorted(glob.glob(os.path.join(ROOT, "docs", "**", "*.aspot"), recursive = True))
  for f in files:
    label = os.path.relpath(f, ROOT)
    with open(f) as infile:
      text = infile.read()
    parser_dump(label, text)
    # Small grids so that the whole thing stays quick
    cp = ConfigParser(io.StringIO(text))
    ovr = []
    add = []
    for k, v in [("nr", "24"), ("cutoff", "4.6")]:
      (ovr if cp.raw_config_parser.has_option("Tabulation", k) else add).append(OT("Tabulation", k, v))
    for k in ["dr"]:
      if cp.raw_config_parser.has_option("Tabulation", k):
        ovr.append(OT("Tabulation", k, None))
    if "eam_embed" in cp.parsed_sections:
      for k, v in [("nrho", "24"), ("cutoff_rho", "11.5")]:
        (ovr if cp.raw_config_parser.has_option("Tabulation", k) else add).append(OT("Tabulation", k, v))
      if cp.raw_config_parser.has_option("Tabulation", "drho"):
        ovr.append(OT("Tabulation", "drho", None))
    if cp.tabulation.target in ("excel", "excel_eam", "excel_eam_fs"):
      continue
    tabulate(label, text, ovr, add)

def main():
  for rep in range(2):
    order = INLINE if rep == 0 else list(reversed(INLINE))
    for label, text in order:
      parser_dump("{}#{}".format(label, rep), text)
      tabulate("{}#{}".format(label, rep), text)
    for label, text, ovr, add in OVERRIDE_CASES:
      parser_dump("{}#{}".format(label, rep), text, ovr, add)
      tabulate("{}#{}".format(label, rep), text, ovr, add)
    normalise_key_cases()
    file_cases()

  blob = "\n".join(OUT)
  if "-v" in sys.argv:
    print(blob)
  ok = len([l for l in OUT if ":: OK" in l])
  exc = len([l for l in OUT if ":: EXC" in l])
  print("lines={} ok={} exc={}".format(len(OUT), ok, exc))
  print("DIGEST", sha(blob))

main()

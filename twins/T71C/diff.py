"""Edit C: `markdown` pair tabulation target (Markdown_PairTabulation).

Run on the clean tree:   prints the existing-behaviour digest only (feature absent).
Run on the edited tree:  same digest + demonstration of the new target.

  /venv/bin/python -W ignore /tmp/wtpy.py /tmp/wt_r7_1 _twins/diffC.py
"""
import io
import os
import re
import sys
sys.path.insert(0, os.path.dirname(os.path.abspath(__file__)))

from _common_digest import existing_behaviour_digest

TARGET = "markdown"
CLS_NAME = "Markdown_PairTabulation"

def _cells(line):
  assert line.startswith(u"| ") and line.endswith(u" |"), line
  # split on unescaped pipes
  return [c.strip().replace(u"\\|", u"|") for c in re.split(r"(?<!\\)\|", line[1:-1])]

def parse(text):
  """Markdown pipe table -> [(speciesA, speciesB, r[], energy[], None)] with structural checks"""
  assert text.endswith(u"\n")
  lines = text[:-1].split(u"\n")
  head = _cells(lines[0])
  assert head[0] == u"r"
  assert _cells(lines[1]) == [u"---:"] * len(head), lines[1]
  rows = [[float(c) for c in _cells(l)] for l in lines[2:]]
  assert all(len(r) == len(head) for r in rows)
  out = []
  for col, label in enumerate(head[1:], 1):
    a, b = label.split(u"-")
    out.append((a, b, [r[0] for r in rows], [r[col] for r in rows], None))
  if not out:
    out.append((None, None, [r[0] for r in rows], [], None))
  return out

if __name__ == "__main__":
  digest, n = existing_behaviour_digest()
  print("EXISTING-BEHAVIOUR DIGEST %s (%d items)" % (digest, n))
  from atsim.potentials import pair_tabulation, Potential
  if not hasattr(pair_tabulation, CLS_NAME):
    print("feature not present in this tree")
    sys.exit(0)
  from _feature_checks import run_feature_checks, build, text_of, check
  # values are printed with 10 decimals in fixed format: agree to the printed precision
  failures = run_feature_checks(TARGET, CLS_NAME, parse, 1e-10, False)
  tab = build(TARGET, 5, 2.0)
  order = [(p.speciesA, p.speciesB) for p in tab.potentials]
  print("column order follows [Pair] section:", order)
  assert order == [("O", "O"), ("U", "O"), ("U", "U"), ("Gd", "O"), ("Gd", "U"), ("Gd", "Gd")]
  print(text_of(build(TARGET, 3, 1.0, model=u"[Pair]\nA-B : as.lj 1.0 2.0\nC-D : as.constant 2.0\n")))
  # a '|' in a species label cannot add a column
  sio = io.StringIO()
  pair_tabulation.Markdown_PairTabulation([Potential("A|x", "B", lambda r: r)], 1.0, 3).write(sio)
  print(sio.getvalue())
  assert [len(_cells(l)) for l in sio.getvalue()[:-1].split(u"\n")] == [2, 2, 2, 2, 2]
  assert _cells(sio.getvalue().split(u"\n")[0]) == [u"r", u"A|x-B"]
  sys.exit(1 if failures else 0)

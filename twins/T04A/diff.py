"""Differential script for twin A (potentialfunctions.py: _morse, _polynomial, _zbl).

Prints a sha256 digest over: repr() of every value returned (or the exception
type name) by the potential-function callables and their deriv/deriv2 methods on
a varied grid of inputs (incl. malformed), the same via potentialforms wrappers,
and the bytes of full tabulations made through the potable Configuration API.
"""
import hashlib
import io
import itertools
import sys

import atsim.potentials
from atsim.potentials import potentialfunctions as pf
from atsim.potentials import potentialforms as pforms
from atsim.potentials.config import Configuration

H = hashlib.sha256()
NREC = [0]


def rec(*items):
  NREC[0] += 1
  H.update(("|".join(repr(i) for i in items) + "\n").encode("utf-8"))


def attempt(label, f, *args):
  try:
    v = f(*args)
    rec(label, args, "OK", type(v).__name__, v)
  except Exception as e:  # noqa
    rec(label, args, "EXC", type(e).__name__)


RS = [0.0, -0.0, 1e-9, 0.05, 0.3, 0.75, 1.0, 1, 2, 1.6180339887, 2.5, 3.3333333333333335,
      7.25, 12.0, 55.5, 400.0, 1e6, -0.7, -3, float("inf"), float("-inf"), float("nan")]
BAD_RS = [None, "1.0", [1.0], 1 + 2j]

PARAMS = {
  "morse": [(1.65, 2.369, 0.577189831995), (1.86874578949, 2.35603812582, 0.719250701502),
            (0.0, 1.0, 1.0), (-1.2, 0.5, 3.0), (2, 1, 5), (250.0, 0.0, 1.0), (1.0, float("inf"), 1.0),
            (1.5, 2.0, None), ("a", 1.0, 2.0)],
  "polynomial": [(), (3.5,), (1.0, 2.0), (0.0, 2.0), (1.0, -3.0, 0.5), (1, 2, 3, 4, 5),
                 (0.25, -0.5, 0.125, 1e-3, -7.5e-5, 3e-7), (-0.0, -0.0, -0.0), (0.0, 0.0),
                 (float("nan"), 1.0), (1.0, float("inf"), 2.0), ("a", 1.0), (None,), (1.0, None, 2.0)],
  "zbl": [(14, 8), (92, 8), (8, 8), (1, 1), (92.0, 92.0), (13.5, 7.25), (0, 8), (0, 0), (-2, 8),
          (14, -8.0), (1e3, 1e3), ("14", 8), (None, 8), (14, [8])],
  # untouched forms act as a control group
  "buck": [(1388.773, 0.3, 175.0), (1000.0, 0.2, 32.0), (1.0, 0.0, 1.0)],
  "bornmayer": [(566.498, 0.42056)],
  "lj": [(0.0104, 3.4), (1, 1)],
  "hbnd": [(300.0, 20.0)],
  "exp_spline": [(1.0, -0.5, 0.25, -0.125, 0.01, -0.001, 3.0)],
}

# 1) the raw potential functions
for name in sorted(PARAMS):
  func = getattr(pf, name)
  for params in PARAMS[name]:
    for r in RS + BAD_RS:
      attempt(name, func, r, *params)
      attempt(name + ".deriv", func.deriv, r, *params)
      attempt(name + ".deriv2", func.deriv2, r, *params)

# no-argument / wrong arity calls
for name in sorted(PARAMS):
  func = getattr(pf, name)
  attempt(name + "()", func)
  attempt(name + ".deriv()", func.deriv)
  attempt(name + ".deriv2()", func.deriv2)
  attempt(name + "(1.0)", func, 1.0)
  attempt(name + "(8 args)", func, 1.0, 2.0, 3.0, 4.0, 5.0, 6.0, 7.0, 8.0, 9.0)

# class level attributes that are part of the object's surface
rec("zbl consts", [(k, getattr(pf.zbl, k)) for k in ("Ck1", "Ck2", "Ck3", "Ck4", "Bk1", "Bk2", "Bk3", "Bk4")])
rec("is_potential", [(n, getattr(getattr(pf, n), "is_potential", None)) for n in sorted(PARAMS)])
import inspect
rec("members", [n for n, _o in inspect.getmembers(pf, pforms._iscallable)])
rec("sigs", [(n, str(inspect.signature(getattr(pf, n))), str(inspect.signature(getattr(pf, n).deriv)),
              str(inspect.signature(getattr(pf, n).deriv2))) for n in sorted(PARAMS)])

# instance attribute override of the ZBL coefficients (they are looked up through self)
z = pf._zbl()
z.Ck1 = 0.2
z.Bk3 = 0.5
for r in RS:
  attempt("zbl-inst", z, r, 14, 8)
  attempt("zbl-inst.deriv", z.deriv, r, 14, 8)
  attempt("zbl-inst.deriv2", z.deriv2, r, 14, 8)

# 2) through the potentialforms factories and the combinators
for name in ("morse", "polynomial", "zbl"):
  fact = getattr(pforms, name)
  for params in PARAMS[name]:
    try:
      w = fact(*params)
    except Exception as e:  # noqa
      rec("factory", name, params, type(e).__name__)
      continue
    for r in RS[:17]:
      attempt("form-" + name, w, r)
      attempt("form-" + name + ".deriv", w.deriv, r)
      attempt("form-" + name + ".deriv2", w.deriv2, r)

combos = [
  atsim.potentials.plus(pforms.zbl(14, 8), pforms.morse(1.65, 2.369, 0.577)),
  atsim.potentials.product(pforms.polynomial(1.0, -3.0, 0.5), pforms.zbl(92, 8)),
  atsim.potentials.pow(pforms.morse(1.2, 2.0, 0.5), pforms.polynomial(2.0)),
]
for i, c in enumerate(combos):
  for r in RS[:17]:
    attempt("combo%d" % i, c, r)
    attempt("combo%d.deriv" % i, c.deriv, r)
    attempt("combo%d.deriv2" % i, c.deriv2, r)

# 3) whole tabulations through the potable API
CONFIGS = {
  "lammps_zbl_morse": u"""[Tabulation]
target : LAMMPS
cutoff : 6.0
dr : 0.02

[Pair]
Si-O : as.zbl 14 8
O-O : as.morse 1.65 2.369 0.577189831995
Si-Si : as.polynomial 1.0 -3.0 0.5 0.01
""",
  "dlpoly_sum": u"""[Tabulation]
target : DL_POLY
cutoff : 6.5
nr : 652

[Pair]
O-O = as.buck 1633.010242995040 0.327022 3.948787
U-U = as.zbl 92 92
O-U = sum(as.buck 693.650933805978 0.327022 0.0,
      as.morse 1.65 2.369 0.577189831995)
""",
  "gulp_spline": u"""[Tabulation]
target : GULP
cutoff : 10.0
dr : 0.01

[Pair]
Si-O : spline(
                    as.zbl 14 8
              >=0.8
                    exp_spline
              >=1.4
                    as.buck 18003.7572 0.205204 133.5381 )
O-O : >0 as.zbl 8 8 >1.5 as.polynomial 0.5 -0.25 0.125 >=3.0 as.morse 1.1 2.2 0.3
""",
  "lammps_product_pow": u"""[Tabulation]
target : LAMMPS
cutoff : 5.0
nr : 250

[Pair]
B-A : product(as.zbl 13 26, as.polynomial 0.0 2.0, as.polynomial 1.0 -3.0 0.5)
A-A : pow(as.morse 1.2 2.0 0.5, as.constant 2.0)
B-B : trans(as.morse 1.2 2.0 0.5, as.constant 0.5)
""",
  "lammps_product_pow_ok": u"""[Tabulation]
target : LAMMPS
cutoff : 5.0
nr : 250

[Pair]
B-A : product(as.zbl 13 26, as.polynomial 0.0 2.0, as.polynomial 1.0 -3.0 0.5)
A-A : pow(as.zbl 8 8, as.polynomial 2.0 0.1)
B-B : trans(as.morse 1.2 2.0 0.5, as.constant 0.5)
""",
  "custom_form": u"""[Tabulation]
target : DL_POLY
cutoff : 8.0
nr : 400

[Potential-Form]
zm(r, z1, z2, g, rs, D) = as.zbl(r, z1, z2) + as.morse(r, g, rs, D) + as.polynomial(r, 1.0, 2.0, 3.0)
dz(r, z1, z2) = as.zbl(r, z1, z2) * as.morse(r, 1.2, 2.0, 0.5) - as.polynomial(r, 0.5)

[Pair]
U-O : zm 92 8 1.65 2.369 0.577189831995
O-O : dz 8 8
""",
  "bad_arity": u"""[Tabulation]
target : LAMMPS
cutoff : 5.0
nr : 250

[Pair]
A-A : as.morse 1.2 2.0
""",
  "bad_zbl": u"""[Tabulation]
target : LAMMPS
cutoff : 5.0
nr : 250

[Pair]
A-A : as.zbl -14 8
""",
}

for name in sorted(CONFIGS):
  try:
    tab = Configuration().read(io.StringIO(CONFIGS[name]))
    out = io.StringIO()
    tab.write(out)
    txt = out.getvalue()
    rec("cfg", name, "OK", len(txt), hashlib.sha256(txt.encode("utf-8")).hexdigest())
  except Exception as e:  # noqa
    rec("cfg", name, "EXC", type(e).__name__)

print("records:", NREC[0])
print("digest:", H.hexdigest())

"""Differential script for twin A: pair table writers (LAMMPS TABLE, DL_POLY TABLE, GULP spline, Excel r column).

Prints one digest line per case plus an overall sha256. Run on clean and on refactored tree: output must be identical."""
import glob
import hashlib
import io
import math
import os
import re
import sys
import decimal
import fractions

import atsim.potentials as ap
from atsim.potentials import Potential, potentialforms as pf, plus, writePotentials
from atsim.potentials import _lammps_writeTABLE, _dlpoly_writeTABLE
from atsim.potentials import pair_tabulation
from atsim.potentials.config import Configuration

overall = hashlib.sha256()

def record(label, payload):
  if not isinstance(payload, bytes):
    payload = payload.encode("utf-8")
  h = hashlib.sha256(payload).hexdigest()
  line = "%-70s %6d %s" % (label, len(payload), h[:20])
  print(line)
  overall.update(label.encode("utf-8"))
  overall.update(h.encode("ascii"))

def attempt(label, func):
  out = io.StringIO()
  try:
    ret = func(out)
    record(label, "OK|ret=%r|" % (ret,) + out.getvalue())
  except BaseException as e:
    record(label, "EXC|%s|%s|written=%r" % (type(e).__name__, e, out.getvalue()))

class Failing(object):
  """Energy function that fails for separations past a threshold"""
  def __init__(self, limit, exc):
    self.limit = limit
    self.exc = exc
    self.calls = []
  def __call__(self, r):
    self.calls.append(r)
    if r > self.limit:
      raise self.exc("boom at %r" % r)
    return 1.0/(1.0+r)

def make_multi():
  return ap.create_Multi_Range_Potential_Form(
    ap.Multi_Range_Defn(">", 0.0, pf.bornmayer(1000.0, 0.3)),
    ap.Multi_Range_Defn(">=", 1.5, pf.buck(1633.0, 0.327, 3.9)),
    ap.Multi_Range_Defn(">", 4.0, pf.zero()))

def potlists():
  buck_oo = pf.buck(1633.010242995040, 0.327022, 3.948787)
  buck_uu = pf.buck(294.640906285709, 0.327022, 0.0)
  ou = plus(pf.buck(693.650933805978, 0.327022, 0.0), pf.morse(1.65, 2.369, 0.577189831995))
  numeric = lambda r: math.exp(-r) * math.cos(3.0*r) - 0.01 * r
  spline = ap.SplinePotential(pf.zbl(92, 8), pf.buck(1000.0, 0.3, 10.0), 0.8, 1.6)
  lists = {}
  lists["basak"] = [Potential("O", "O", buck_oo), Potential("U", "U", buck_uu), Potential("O", "U", ou)]
  lists["basak_rev"] = [Potential("U", "O", ou), Potential("U", "U", buck_uu), Potential("O", "O", buck_oo)]
  lists["mixed"] = [Potential("Gd", "O", numeric), Potential("A", "B", make_multi()), Potential("Zr", "O", spline),
                    Potential("Xe", "Xe", pf.lj(0.02, 3.9)), Potential("long_species_label", "B", pf.constant(2.5))]
  lists["finite"] = [Potential("Gd", "O", numeric), Potential("B", "A", make_multi()), Potential("Mg", "O", lambda r: 1200.5*math.exp(-r/0.31)),
                     Potential("H", "H", pf.morse(1.65, 2.369, 0.577)), Potential("P", "Q", pf.polynomial(1.0, -2.0, 0.5, 0.01)),
                     Potential("long_species_label", "B", pf.constant(2.5)), Potential("E", "S", pf.exp_spline(0.1, -0.2, 0.03, -0.004, 0.0005, -0.00006, 0.7))]
  lists["single"] = [Potential("Si", "O", pf.coul(4, -2))]
  lists["empty"] = []
  return lists

def main():
  lists = potlists()

  # 1. Public entry point writePotentials
  for lname in sorted(lists):
    for otype in ["LAMMPS", "DL_POLY", "GULP"]:
      for cutoff, grid in [(6.5, 652), (10.0, 100), (3, 8), (12.5, 13), (2.0, 4), (7.25, 1000), (5.0, 2), (5.0, 1), (5.0, 0), (1.0, 7)]:
        attempt("writePotentials %s %s %r %r" % (lname, otype, cutoff, grid),
                lambda out: writePotentials(otype, lists[lname], cutoff, grid, out))

  # 2. Tabulation classes
  for lname in sorted(lists):
    for cls in [pair_tabulation.LAMMPS_PairTabulation, pair_tabulation.DLPoly_PairTabulation, pair_tabulation.GULP_PairTabulation]:
      for cutoff, nr in [(10.0, 1001), (6.5, 652), (4, 5), (3.3, 12), (1.0, 1), (1.0, 2), (1.0, 0), (9.99, 4), (8.0, 16.0), (8.0, "8")]:
        attempt("%s %s %r %r" % (cls.__name__, lname, cutoff, nr), lambda out: cls(lists[lname], cutoff, nr).write(out))

  # 3. Module level writers with unusual arguments
  odd_numbers = [(0.1, 5.1, 6), (1, 10, 10), (0.0, 0.0, 3), (2.0, 1.0, 4), (0.5, 5, 1), (0.5, 5, 0), (0.5, 5, -3), (0.5, 5, 2.0),
                 (fractions.Fraction(1, 3), 5, 4), (decimal.Decimal("0.5"), decimal.Decimal("2.5"), 3), (0.5, decimal.Decimal("2.5"), 3),
                 (True, 4.0, 5), ("a", 4.0, 5), (None, 4.0, 5), (0.5, 4.0, None), (0.5, 4.0, "5"), (float("nan"), 4.0, 3), (0.0, float("inf"), 3)]
  for lname in ["basak", "mixed", "finite", "empty"]:
    for minr, maxr, grid in odd_numbers:
      attempt("lammps.writePotentials %s %r %r %r" % (lname, minr, maxr, grid),
              lambda out: _lammps_writeTABLE.writePotentials(lists[lname], minr, maxr, grid, out))
  for minr, maxr, grid in odd_numbers:
    attempt("lammps._writeSinglePotential %r %r %r" % (minr, maxr, grid),
            lambda out: _lammps_writeTABLE._writeSinglePotential(lists["basak"][2], minr, maxr, grid, out))

  for lname in ["basak_rev", "mixed", "finite", "empty"]:
    for cutoff, grid in [(6.5, 652), (10, 8), (3.0, 4), (3.0, 0), (3.0, -4), (3.0, 6), (3.0, 8.0), (3.0, "8"), (None, 8), ("x", 8), (3.0, None),
                         (decimal.Decimal("3.5"), 8), (fractions.Fraction(7, 2), 12), (float("inf"), 8), (float("nan"), 8), (1e-300, 8), (1e300, 8)]:
      attempt("dlpoly.writePotentials %s %r %r" % (lname, cutoff, grid),
              lambda out: _dlpoly_writeTABLE.writePotentials(lists[lname], cutoff, grid, out))

  # 4. Failing potential functions: exception identity, nothing written, number of evaluations
  for exc in [ValueError, ZeroDivisionError, KeyError]:
    for limit in [-1.0, 0.5, 2.0, 100.0]:
      for otype in ["LAMMPS", "DL_POLY", "GULP"]:
        f = Failing(limit, exc)
        pots = [Potential("O", "O", pf.buck(1633.0, 0.327, 3.9)), Potential("A", "B", f), Potential("C", "D", pf.zero())]
        if otype == "GULP":
          pots[0] = Potential("O", "O", pf.morse(1.65, 2.369, 0.577))
        def run(out):
          try:
            writePotentials(otype, pots, 4.0, 16, out)
          finally:
            out.write("|calls=%r" % (f.calls,))
        attempt("failing %s %s %r" % (exc.__name__, otype, limit), run)

  # 5. Functions returning things that are not floats
  for label, func in [("int", lambda r: 3), ("none", lambda r: None), ("str", lambda r: "1.0"), ("nan", lambda r: float("nan")),
                      ("inf", lambda r: float("-inf")), ("bool", lambda r: True), ("complex", lambda r: 1j),
                      ("fraction", lambda r: fractions.Fraction(1, 3)), ("decimal", lambda r: decimal.Decimal("1.25"))]:
    for otype in ["LAMMPS", "DL_POLY", "GULP"]:
      attempt("nonfloat %s %s" % (label, otype), lambda out: writePotentials(otype, [Potential("A", "B", func)], 4.0, 8, out))

  # 6. Objects with missing attributes
  class NoForce(object):
    speciesA = "A"
    speciesB = "B"
    def energy(self, r):
      return r
  class NoEnergy(object):
    speciesA = "A"
    speciesB = "B"
    def force(self, r):
      return r
  class NoSpecies(object):
    def energy(self, r):
      return r
    def force(self, r):
      return r
  for obj in [NoForce(), NoEnergy(), NoSpecies()]:
    for otype in ["LAMMPS", "DL_POLY", "GULP"]:
      for grid in [8, 4]:
        attempt("duck %s %s %d" % (type(obj).__name__, otype, grid), lambda out: writePotentials(otype, [obj], 4.0, grid, out))

  # 7. _r_value_iterator through the spreadsheet writers (cell values, not bytes of the zip container)
  for lname in ["basak", "mixed", "finite"]:
    for cutoff, nr in [(6.5, 14), (10.0, 101), (2, 3), (1.0, 1)]:
      def run(out):
        tab = pair_tabulation.Excel_PairTabulation(lists[lname], cutoff, nr)
        wb = tab.workbook
        for ws in wb.worksheets:
          out.write("[%s]" % ws.title)
          for row in ws.iter_rows():
            out.write(repr([c.value for c in row]))
      attempt("excel %s %r %r" % (lname, cutoff, nr), run)
  for nr in [5, 2, 1, 0, 11]:
    for cutoff in [1.0, 3, 7.7]:
      attempt("r_values %r %r" % (cutoff, nr), lambda out: out.write(repr(list(pair_tabulation._r_value_iterator(pair_tabulation.GULP_PairTabulation([], cutoff, nr))))))

  # 8. Configuration files from the documentation, tabulated for each of the pair targets
  here = os.path.dirname(os.path.abspath(__file__))
  root = os.path.dirname(here)
  files = sorted(glob.glob(os.path.join(root, "docs", "user_guide", "example_files", "*.aspot")))
  files += sorted(glob.glob(os.path.join(root, "docs", "quick_start", "*.aspot")))
  files += sorted(glob.glob(os.path.join(root, "tests", "*_resources", "*.aspot")))
  for fname in files:
    text = open(fname).read()
    for target in ["LAMMPS", "DL_POLY", "GULP"]:
      for shrink in [False, True]:
        newtext = re.sub(r"(?m)^target\s*[:=].*$", "target : %s" % target, text)
        if shrink:
          newtext = re.sub(r"(?m)^nr\s*[:=].*$", "nr : 24", newtext)
          newtext = re.sub(r"(?m)^dr\s*[:=].*$", "dr : 0.25", newtext)
        def run(out):
          tab = Configuration().read(io.StringIO(newtext))
          tab.write(out)
        attempt("config %s %s shrink=%s" % (os.path.relpath(fname, root), target, shrink), run)

  print("OVERALL", overall.hexdigest())

main()

"""Differential script for twin C (import tidying, `__all__`, module docstrings).

Digest covers: what `from PKG import *` provides for the public packages, the non-module public
attributes of every touched module, fresh-interpreter imports that start from each touched module
(import-order / circular import check), the registry contents (as.* and pymath.* names, which are
discovered with inspect.getmembers() on modules edited here), evaluation of pymath functions and
multi-range potential forms, EAM builders, potable query actions and full tabulations.
"""
import glob
import hashlib
import importlib
import io
import logging
import os
import subprocess
import sys
import types
import warnings

warnings.simplefilter("ignore")

H = hashlib.sha256()
LINES = []
def emit(*items):
  line = " ".join(str(i) for i in items)
  LINES.append(line)
  H.update(line.encode("utf-8") + b"\n")

HERE = os.path.dirname(os.path.abspath(__file__))
TOP = os.path.dirname(HERE)

TOUCHED = [
  "atsim.potentials.config",
  "atsim.potentials.referencedata",
  "atsim.potentials._multi_range_potential_form",
  "atsim.potentials.config._eam_potential_builder",
  "atsim.potentials.config._potential_form_registry",
  "atsim.potentials.config._pymath",
  "atsim.potentials.config._common",
  "atsim.potentials.tools.potable._query_actions",
]
OTHERS = ["atsim.potentials", "atsim.potentials._modifiers", "atsim.potentials.tools.potable",
          "atsim.potentials.config._tabulation_factories", "atsim.potentials.potentialforms"]

# -- 1. fresh interpreter per module: import it FIRST, report star-import names
if len(sys.argv) > 2 and sys.argv[1] == "--child":
  modname = sys.argv[2]
  try:
    mod = importlib.import_module(modname)
    ns = {}
    exec("from %s import *" % modname, ns)
    ns.pop("__builtins__", None)
    print("OK", modname, sorted(k for k, v in ns.items() if not isinstance(v, types.ModuleType)))
  except Exception as e:
    print("EXC", modname, type(e).__name__, e)
  sys.exit(0)

for modname in TOUCHED + OTHERS:
  out = subprocess.check_output([sys.executable, "-W", "ignore", "/tmp/wtpy.py", TOP, os.path.abspath(__file__), "--child", modname], stderr=subprocess.STDOUT)
  emit("fresh", out.decode("utf-8").strip())

# -- 2. namespaces in this interpreter
for modname in ["atsim.potentials.config", "atsim.potentials.referencedata", "atsim.potentials"]:
  ns = {}
  exec("from %s import *" % modname, ns)
  ns.pop("__builtins__", None)
  emit("star", modname, sorted(ns), [type(ns[k]).__name__ for k in sorted(ns)])
for modname in TOUCHED:
  mod = importlib.import_module(modname)
  names = sorted(k for k, v in vars(mod).items() if not k.startswith("__") and not isinstance(v, types.ModuleType))
  emit("attrs", modname, names)

import atsim.potentials
from atsim.potentials import Multi_Range_Defn, create_Multi_Range_Potential_Form, potentialforms
from atsim.potentials.config import (Configuration, ConfigParser, ConfigParserOverrideTuple, Potential_Form_Registry,
                                     Modifier_Registry, FilteredConfigParser)
from atsim.potentials.config._eam_potential_builder import EAM_Potential_Builder, EAM_Potential_Builder_FS
from atsim.potentials.referencedata import Reference_Data, Reference_Data_Exception, Unknown_Species_Exception, Unknown_Property_Exception
from atsim.potentials.tools.potable import _query_actions

def call(f, *args, **kwargs):
  try:
    return repr(f(*args, **kwargs))
  except Exception as e:
    return "EXC:" + type(e).__name__ + ":" + str(e)

# -- 3. registry: names found by inspect.getmembers on potentialfunctions / potentialforms / _pymath
CFG = u"""[Pair]
A-B : as.lj 1.0 2.0
[Potential-Form]
one(r, a) = a*pymath.factorial(3) + pymath.gcd(12, 18) + pymath.fsum(r, a, 1) + pymath.log(r+1) + pymath.log2(8) + pymath.ldexp(a, 2)
two(r) = one(r, 2.0) + pymath.atan2(r, 2) + pymath.hypot(r, 1) - as.buck(r+1, 1000.0, 0.3, 32.0)
[Table-Form:tab]
interpolation : cubic_spline
x : 0 1 2 3 4
y : 0 1 4 9 16
"""
for std in (False, True):
  for pym in (False, True):
    cp = ConfigParser(io.StringIO(CFG))
    try:
      reg = Potential_Form_Registry(cp, register_standard=std, register_pymath_functions=pym)
      emit("registry", std, pym, reg.registered)
      for label in reg.registered:
        pf = reg[label]
        emit("  sig", label, pf.signature)
      for label in ("one", "two", "tab"):
        for r in (0.0, 0.5, 1.0, 2.25):
          args = (2.0,) if label == "one" else ()
          emit("  eval", label, r, call(lambda: reg[label](*args)(r)))
    except Exception as e:
      emit("registry", std, pym, "EXC:" + type(e).__name__ + ":" + str(e))

cp = ConfigParser(io.StringIO(CFG))
reg = Potential_Form_Registry(cp, register_standard=True, register_pymath_functions=True)
func = reg["one"].potential_function
from atsim.potentials.config import _pymath
import inspect
pm = [n for n, _f in inspect.getmembers(_pymath, inspect.isfunction) if not n.startswith("_")]
emit("pymath", pm)
for n in pm:
  f = getattr(_pymath, n)
  for args in ((0.5,), (2.0,), (9.0, 2.0), (-1.5,), (3.7, 2), ()):
    emit("  pymath", n, args, call(f, *args))
# duplicate labels
for bad in (u"[Pair]\nA-A: as.zero\n[Potential-Form]\nf(r)=r\nf(r)=2*r\n",
            u"[Pair]\nA-A: as.zero\n[Potential-Form]\ntab(r)=r\n[Table-Form:tab]\ninterpolation: cubic_spline\nx: 0 1 2\ny: 0 1 2\n",
            u"[Pair]\nA-A: as.zero\n[Table-Form:as.buck]\ninterpolation: cubic_spline\nx: 0 1 2\ny: 0 1 2\n",
            u"[Pair]\nA-A: as.zero\n[Potential-Form]\nas.buck(r)=r\n"):
  emit("badreg", call(lambda: Potential_Form_Registry(ConfigParser(io.StringIO(bad)), register_standard=True).registered))

# -- 4. multi range potential forms
defs = [Multi_Range_Defn(">", 0.0, potentialforms.buck(1000.0, 0.3, 32.0)),
        Multi_Range_Defn(">=", 2.0, potentialforms.lj(0.25, 2.5)),
        Multi_Range_Defn(">", 2.0, potentialforms.zero()),
        Multi_Range_Defn(">=", 3.5, potentialforms.polynomial(1.0, 2.0, 3.0))]
for sel in ([0], [0, 1], [1, 0, 3], [0, 1, 2, 3], [3, 2, 1, 0], []):
  try:
    mr = create_Multi_Range_Potential_Form(*[defs[i] for i in sel])
    for r in (-1.0, 0.0, 0.1, 1.0, 2.0, 2.0000001, 3.0, 3.5, 4.0):
      emit("mr", sel, r, call(mr, r), call(mr.deriv, r), call(mr.deriv2, r))
    emit("mr-defs", sel, [(d.range_type, d.start) for d in mr.range_defns])
  except Exception as e:
    emit("mr", sel, "EXC:" + type(e).__name__ + ":" + str(e))

# -- 5. reference data
rd = Reference_Data({"Zz": {"atomic_number": 200}, "Al": {"atomic_mass": 1.0}})
for sp in ("Al", "Fe", "Zz", "Qq", "U"):
  for prop in ("atomic_mass", "atomic_number", "lattice_constant", "lattice_type", "nothing"):
    emit("rd", sp, prop, call(rd.get, sp, prop))
emit("rd-mro", [c.__name__ for c in Unknown_Species_Exception.__mro__], [c.__name__ for c in Unknown_Property_Exception.__mro__])

# -- 6. tabulations / EAM builders / query actions
class Capture(logging.Handler):
  def __init__(self):
    logging.Handler.__init__(self)
    self.records = []
  def emit(self, record):
    self.records.append((record.levelname, record.getMessage()))
capture = Capture()
root = logging.getLogger()
root.addHandler(capture)
root.setLevel(logging.INFO)

files = sorted(glob.glob(os.path.join(TOP, "tests", "*", "*.aspot")) +
               glob.glob(os.path.join(TOP, "tests", "config", "config_resources", "*.aspot")) +
               glob.glob(os.path.join(TOP, "docs", "user_guide", "example_files", "*.aspot")) +
               glob.glob(os.path.join(TOP, "docs", "quick_start", "*.aspot")))
O = ConfigParserOverrideTuple
for f in files:
  text = open(f).read()
  rel = os.path.relpath(f, TOP)
  if "excel" in text:
    continue
  is_eam = "[EAM-Embed]" in text
  variants = [("asis", [])]
  if is_eam:
    variants.append(("small", [O("Tabulation", "nr", "24"), O("Tabulation", "dr", None), O("Tabulation", "nrho", "20"), O("Tabulation", "drho", None)]))
  for vname, ov in variants:
    del capture.records[:]
    try:
      cp = ConfigParser(io.StringIO(text), overrides=ov)
      tab = Configuration().read_from_parser(cp)
      out = io.StringIO()
      tab.write(out)
      data = out.getvalue()
      emit("tab", rel, vname, type(tab).__name__, len(data), hashlib.sha256(data.encode("utf-8")).hexdigest())
    except Exception as e:
      emit("tab", rel, vname, "EXC:" + type(e).__name__ + ":" + str(e))
    emit("log", rel, vname, hashlib.sha256(repr(capture.records).encode("utf-8")).hexdigest())
  # query actions
  cp = ConfigParser(io.StringIO(text))
  emit("q-labels", rel, call(_query_actions._list_item_labels, cp))
  emit("q-items", rel, hashlib.sha256(call(_query_actions._list_items, cp).encode("utf-8")).hexdigest())
  emit("q-plot", rel, call(_query_actions._list_plot_item_labels, cp) if hasattr(_query_actions, "_list_plot_item_labels") else "-")
  for key in ("Tabulation:target", "Tabulation:nosuch", "Nosuch:key", "Pair:O-O", "malformed"):
    emit("q-value", rel, key, call(_query_actions._item_value, cp, key))
  if is_eam:
    for cls in (EAM_Potential_Builder, EAM_Potential_Builder_FS):
      for species in (None, ["O"], ["Al", "Fe", "U", "Ag"]):
        try:
          cp2 = ConfigParser(io.StringIO(text))
          if species is not None:
            cp2 = FilteredConfigParser(cp2, include=species)
          pfr = Potential_Form_Registry(cp2, register_standard=True, register_pymath_functions=True)
          b = cls(cp2, pfr, Modifier_Registry(), Reference_Data(cp2.species))
          pots = b.eam_potentials
          emit("eam", rel, cls.__name__, species, [(p.species, p.atomicNumber, p.mass, p.latticeConstant, p.latticeType,
               call(p.embeddingFunction, 0.5),
               call(p.electronDensityFunction, 1.5) if callable(p.electronDensityFunction) else sorted((k, call(v, 1.5)) for k, v in p.electronDensityFunction.items()))
               for p in pots])
        except Exception as e:
          emit("eam", rel, cls.__name__, species, "EXC:" + type(e).__name__ + ":" + str(e))

if "-v" in sys.argv:
  print("\n".join(LINES))
print("lines", len(LINES))
print("DIGEST", H.hexdigest())

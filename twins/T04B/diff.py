"""Differential script for twin B (potentialforms.py: is_potential, _iscallable,
_FunctionFactory.__call__, buck4; _util.py: _rpartial).

Prints a sha256 digest over repr() of results / exception type names obtained
through the public potential-form factories, the registry helpers and whole
tabulations made through the potable Configuration API.
"""
import hashlib
import inspect
import io
import re

import atsim.potentials
from atsim.potentials import potentialfunctions as pf
from atsim.potentials import potentialforms as pforms
from atsim.potentials import tableforms
from atsim.potentials._util import _rpartial
from atsim.potentials.config import Configuration, ConfigParser
from atsim.potentials.config._potential_form_registry import Potential_Form_Registry

H = hashlib.sha256()
NREC = [0]


def rec(*items):
  NREC[0] += 1
  line = "|".join(repr(i) for i in items)
  line = re.sub(r" at 0x[0-9a-fA-F]+", " at 0xADDR", line)  # object addresses are not deterministic
  H.update((line + "\n").encode("utf-8"))


def attempt(label, f, *args, **kwargs):
  try:
    v = f(*args, **kwargs)
    rec(label, args, sorted(kwargs.items()), "OK", type(v).__name__, v)
  except Exception as e:  # noqa
    rec(label, args, sorted(kwargs.items()), "EXC", type(e).__name__)


RS = [0.0, 1e-9, 0.05, 0.3, 0.75, 1.0, 1, 2, 1.2, 1.6180339887, 2.1, 2.5, 2.6, 3.3333333333333335,
      7.25, 12.0, 55.5, -0.7, float("inf"), float("nan"), None, "1.0"]

PARAMS = {
  "buck": [(1388.773, 0.3, 175.0), (1000.0, 0.2, 32.0), (1.0, 0.0, 1.0), (1.0, 2.0), (1, 2, 3, 4)],
  "bornmayer": [(566.498, 0.42056), ()],
  "coul": [(2.0, -1.0), (1.0,)],
  "constant": [(3.25,), (None,)],
  "exponential": [(2.0, 3), (2.0, -1.5)],
  "hbnd": [(300.0, 20.0)],
  "lj": [(0.0104, 3.4)],
  "morse": [(1.65, 2.369, 0.577189831995)],
  "polynomial": [(), (1.0, -3.0, 0.5), (1, 2, 3, 4, 5)],
  "sqrt": [(-1.185,)],
  "tang_toennies": [(41.96, 2.523, 1.461, 14.11, 183.6)],
  "zbl": [(14, 8), (92, 92)],
  "zero": [(), (1.0,)],
  "exp_spline": [(1.0, -0.5, 0.25, -0.125, 0.01, -0.001, 3.0)],
}

# 1) factories
for name in sorted(PARAMS):
  fact = getattr(pforms, name)
  rec("fact", name, type(fact).__name__, fact.is_potential, pforms.is_potential(fact), pforms._iscallable(fact),
      fact._func is getattr(pf, name))
  for params in PARAMS[name]:
    try:
      w = fact(*params)
    except Exception as e:  # noqa
      rec("factory-exc", name, params, type(e).__name__)
      continue
    rec("wrapper", name, params, type(w).__name__, w.func is getattr(pf, name), w.args, w.keywords,
        list(vars(w)), type(w.deriv).__name__, w.deriv.args, w.deriv.keywords,
        type(w.deriv2).__name__, w.deriv2.args, w.deriv2.keywords,
        pforms.is_potential(w), pforms._iscallable(w))
    for r in RS:
      attempt("form-" + name, w, r)
      attempt("form-" + name + ".deriv", w.deriv, r)
      attempt("form-" + name + ".deriv2", w.deriv2, r)
    attempt("form-noargs-" + name, w)
    attempt("form-2args-" + name, w, 1.5, 2.5)
    attempt("form-kw-" + name, w, 1.5, A=3.0)
    attempt("form-kw2-" + name, w, r=1.5)


# 2) _FunctionFactory over callables with / without derivatives
def plain(r, a, b=2.0):
  return (r, a, b)


class OnlyDeriv(object):
  def __call__(self, r, a):
    return ("call", r, a)

  def deriv(self, r, a):
    return ("deriv", r, a)


class OnlyDeriv2(object):
  def __call__(self, r, a):
    return ("call", r, a)

  def deriv2(self, r, a):
    return ("deriv2", r, a)


class Both(OnlyDeriv, OnlyDeriv2):
  pass


class NonCallableDeriv(object):
  deriv = None
  deriv2 = 5

  def __call__(self, r):
    return r


for label, fn in (("plain", plain), ("onlyderiv", OnlyDeriv()), ("onlyderiv2", OnlyDeriv2()), ("both", Both())):
  ff = pforms._FunctionFactory(fn)
  rec("ff", label, ff._func is fn, ff.is_potential)
  for params in ((7,), (7, 8), (), (7, 8, 9)):
    try:
      w = ff(*params)
    except Exception as e:  # noqa
      rec("ff-exc", label, params, type(e).__name__)
      continue
    rec("ff-wrapper", label, params, list(vars(w)), hasattr(w, "deriv"), hasattr(w, "deriv2"), w.args, w.keywords)
    attempt("ff-call-" + label, w, 1.0)
    attempt("ff-call2-" + label, w, 1.0, 2.0)
    attempt("ff-callkw-" + label, w, 1.0, b=5.0)
    if hasattr(w, "deriv"):
      attempt("ff-deriv-" + label, w.deriv, 1.0)
    if hasattr(w, "deriv2"):
      attempt("ff-deriv2-" + label, w.deriv2, 1.0)

attempt("ff-noncallable", pforms._FunctionFactory(NonCallableDeriv()))
attempt("ff-notcallable-func", pforms._FunctionFactory(3))
attempt("ff-notcallable-func2", pforms._FunctionFactory(None), 1.0)


# 3) _rpartial directly (incl. keyword handling)
def show(*args, **kwargs):
  return (args, sorted(kwargs.items()))


rp = _rpartial(show, 1, 2, k=3)
rec("rp", rp.args, rp.keywords, rp.func is show)
attempt("rp()", rp)
attempt("rp(9)", rp, 9)
attempt("rp(9, 8, z=1)", rp, 9, 8, z=1)
attempt("rp(k=4)", rp, k=4)
rp2 = _rpartial(show)
attempt("rp2", rp2, 5, q=6)
rp3 = _rpartial(rp, 10, j=11)
rec("rp3", rp3.args, rp3.keywords, rp3.func is show, rp3.func is rp)
attempt("rp3", rp3, 0, m=12)
attempt("rp-notcallable", _rpartial, 3, 4)
attempt("rp-noargs", _rpartial)
attempt("rp-strcat", _rpartial("{0}-{1}-{x}".format, "b", x="c"), "a")
attempt("rp-strcat2", _rpartial("{0}-{1}-{x}".format, "b", x="c"), "a", x="d")


# 4) is_potential / _iscallable / potential decorator on varied objects
class Tagged(object):
  is_potential = True


class TaggedFalse(object):
  is_potential = 0

  def __call__(self):
    pass


class TaggedStr(object):
  is_potential = "yes"

  def __call__(self):
    pass


class Raises(object):
  @property
  def is_potential(self):
    raise ValueError("boom")

  def __call__(self):
    pass


class RaisesAttr(object):
  @property
  def is_potential(self):
    raise AttributeError("boom")

  def __call__(self):
    pass


try:
  from collections.abc import Callable
except ImportError:
  from collections import Callable


@pforms.potential
def decorated(r):
  return r


objs = [("None", None), ("int", 3), ("str", "x"), ("plain", plain), ("decorated", decorated), ("Tagged", Tagged),
        ("Tagged()", Tagged()), ("TaggedFalse()", TaggedFalse()), ("TaggedStr()", TaggedStr()), ("Raises()", Raises()),
        ("RaisesAttr()", RaisesAttr()), ("Callable", Callable), ("pf.buck", pf.buck), ("pf._buck", pf._buck),
        ("pforms.buck", pforms.buck), ("pforms.buck4", pforms.buck4), ("pforms._FunctionFactory", pforms._FunctionFactory),
        ("pforms.potential", pforms.potential), ("pforms", pforms), ("lambda", lambda r: r)]
for label, o in objs:
  attempt("is_potential-" + label, pforms.is_potential, o)
  attempt("_iscallable-" + label, pforms._iscallable, o)
rec("decorated", decorated.is_potential, decorated(2.0))
attempt("potential(3)", pforms.potential, 3)
attempt("potential(obj)", lambda: pforms.potential(Tagged()).is_potential)

for mod in (pforms, pf, tableforms, atsim.potentials):
  rec("members-iscallable", mod.__name__, [n for n, _o in inspect.getmembers(mod, pforms._iscallable)])
  rec("members-is_potential", mod.__name__, [n for n, _o in inspect.getmembers(mod, pforms.is_potential)])

# 5) buck4
B4 = [(11272.6, 0.1363, 134.0, 1.2, 2.1, 2.6), (1000.0, 0.3, 32.0, 1.0, 1.5, 2.5), (566.0, 0.42, 0.0, 0.8, 1.9, 3.1),
      (11272.6, 0.1363, 134.0, 2.6, 2.1, 1.2), (11272.6, 0.1363, 134.0, 1.2, 1.2, 1.2), (1.0, 0.0, 1.0, 1.0, 2.0, 3.0),
      (11272.6, 0.1363, 134.0, 0.0, 2.1, 2.6), ("a", 0.1363, 134.0, 1.2, 2.1, 2.6), (11272.6, 0.1363, 134.0, 1.2, 2.1),
      (11272.6, 0.1363, 134.0, None, 2.1, 2.6)]
for params in B4:
  try:
    p = pforms.buck4(*params)
  except Exception as e:  # noqa
    rec("buck4-exc", params, type(e).__name__)
    continue
  rec("buck4", params, type(p).__name__, sorted(k for k in vars(p)),
      hasattr(p, "deriv"), hasattr(p, "deriv2"))
  for attr in ("detachmentX", "attachmentX", "splineCoefficients"):
    try:
      rec("buck4-attr", attr, getattr(p, attr))
    except Exception as e:  # noqa
      rec("buck4-attr", attr, type(e).__name__)
  try:
    rec("buck4-spline", p.interpolationFunction.splineCoefficients, p.interpolationFunction.r_min)
  except Exception as e:  # noqa
    rec("buck4-spline", type(e).__name__)
  for r in RS:
    attempt("buck4-call", p, r)
    if hasattr(p, "deriv"):
      attempt("buck4-deriv", p.deriv, r)
    if hasattr(p, "deriv2"):
      attempt("buck4-deriv2", p.deriv2, r)
rec("buck4-meta", pforms.buck4.is_potential, str(inspect.signature(pforms.buck4)), pforms.buck4.__name__)

# 6) registry + tabulations through potable API
cp = ConfigParser(io.StringIO(u"[Tabulation]\ntarget : LAMMPS\ncutoff : 2.0\nnr : 10\n\n[Pair]\nA-A : as.zero\n"))
reg = Potential_Form_Registry(cp, True)
rec("registered", reg.registered)
for k in reg.registered:
  sig = reg[k].signature
  rec("sig", k, sig.label, list(sig.parameter_names), sig.is_varargs, type(reg[k]).__name__)

CONFIGS = {
  "buck4_lammps": u"""[Tabulation]
target : LAMMPS
cutoff : 10.0
dr : 0.01

[Pair]
O-U : as.bornmayer 566.498 0.42056
O-O : as.buck4 11272.6 0.1363 134.0 1.2 2.1 2.6
""",
  "buck4_dlpoly_order": u"""[Tabulation]
target : DL_POLY
cutoff : 8.0
nr : 500

[Pair]
U-U : as.buck 294.640906285709 0.327022 0.0
O-O : as.buck4 11272.6 0.1363 134.0 1.2 2.1 2.6
U-O : sum(as.buck4 1000.0 0.3 32.0 1.0 1.5 2.5, as.coul 4.0 -2.0, as.lj 0.01 3.0)
""",
  "all_forms_gulp": u"""[Tabulation]
target : GULP
cutoff : 6.0
dr : 0.05

[Pair]
A-A : as.constant 2.0
A-B : as.exponential 2.0 -3
A-C : as.hbnd 300.0 20.0
B-B : as.sqrt 1.5
B-C : as.tang_toennies 41.96 2.523 1.461 14.11 183.6
C-C : as.exp_spline 1.0 -0.5 0.25 -0.125 0.01 -0.001 3.0
C-D : as.zero
D-D : >0 as.zbl 14 8 >=1.0 as.polynomial 1.0 2.0 >2.0 as.buck4 11272.6 0.1363 134.0 1.2 2.1 2.6
""",
  "custom_calls_standard": u"""[Tabulation]
target : LAMMPS
cutoff : 6.0
nr : 300

[Potential-Form]
bm(r, A, rho, C, D, gamma, r0) = as.buck(r, A, rho, C) + as.morse(r, gamma, r0, D)
lin(r, a) = as.polynomial(r, a, 2.0*a) * as.constant(r, 2.0)

[Pair]
Th-O : bm 315.544 0.395903 0.0 0.62614 1.85960 2.49788
O-O : lin 0.5
""",
  "buck4_bad_arity": u"""[Tabulation]
target : LAMMPS
cutoff : 10.0
dr : 0.01

[Pair]
O-O : as.buck4 11272.6 0.1363 134.0 1.2 2.1
""",
  "buck4_bad_order": u"""[Tabulation]
target : LAMMPS
cutoff : 10.0
dr : 0.01

[Pair]
O-O : as.buck4 11272.6 0.1363 134.0 2.6 2.1 1.2
""",
  "unknown_form": u"""[Tabulation]
target : LAMMPS
cutoff : 10.0
dr : 0.01

[Pair]
O-O : as.buck5 11272.6 0.1363 134.0
""",
  "shadow_buck4": u"""[Tabulation]
target : LAMMPS
cutoff : 3.0
dr : 0.01

[Potential-Form]
as.buck4(r, A) = A*r

[Pair]
O-O : as.buck4 2.0
""",
}

for name in sorted(CONFIGS):
  try:
    tab = Configuration().read(io.StringIO(CONFIGS[name]))
    out = io.StringIO()
    tab.write(out)
    txt = out.getvalue()
    rec("cfg", name, "OK", len(txt), hashlib.sha256(txt.encode("utf-8")).hexdigest())
  except Exception as e:  # noqa
    rec("cfg", name, "EXC", type(e).__name__)

print("records:", NREC[0])
print("digest:", H.hexdigest())

"""Ext C: new alias spellings for existing tabulation targets
   lammps_eam_fs | LAMMPS_eam_fs -> setfl_fs,  DLPOLY_EAM -> DL_POLY_EAM,  DLPOLY_EAM_fs -> DL_POLY_EAM_fs

(a) prints the existing-behaviour digest (must be identical on clean and edited trees)
(b) demonstrates that each new spelling gives byte-identical output to the target it stands for (API and potable),
    for symmetric and asymmetric Finnis-Sinclair models, with filters/overrides/variables; that near-miss spellings are
    still refused with a configuration error; that the manual and the parser agree; hash-seed independence."""
import hashlib
import io
import os
import re
import subprocess
import sys
import tempfile

sys.path.insert(0, os.path.dirname(os.path.abspath(__file__)))
import common_digest as cd

d, _lines = cd.digest()
print("EXISTING-BEHAVIOUR DIGEST:", d)

from atsim.potentials.config import ConfigParser, Configuration
from atsim.potentials.config._config_parser import _TabulationSection
from atsim.potentials.config._tabulation_factories import TABULATION_FACTORIES

NEW = [("lammps_eam_fs", "setfl_fs"), ("LAMMPS_eam_fs", "setfl_fs"), ("DLPOLY_EAM", "DL_POLY_EAM"), ("DLPOLY_EAM_fs", "DL_POLY_EAM_fs")]
OLD = [("lammps_eam_alloy", "setfl"), ("LAMMPS_eam_alloy", "setfl"), ("DL_POLY", "DLPOLY")]

if "LAMMPS_eam_fs" not in _TabulationSection._target_synonyms:
  print("NEW FEATURE: new target aliases absent (clean tree)")
  for alias, canonical in NEW:
    r = cd.outcome(cd.tabulate_text, u"[Tabulation]\ntarget : {}\n[Pair]\nAl-Al : as.buck 1 0.2 3\n".format(alias))
    print("  clean tree:", alias, "->", r)
    assert r.startswith("CFGERR:ConfigurationException:[Tabulation].tabulation-target - unknown tabulation target")
  sys.exit(0)

# Synonym table is well formed: every synonym maps onto a registered target and never shadows one
syn = _TabulationSection._target_synonyms
assert dict(NEW + OLD) == dict(syn)
for alias, canonical in syn.items():
  assert canonical in TABULATION_FACTORIES and alias not in TABULATION_FACTORIES

GRID = u"nr : 9\ncutoff : 4.0\nnrho : 6\ncutoff_rho : 5.0\n"
EAM = u"""[Pair]
Al-Al : as.buck 1000 0.3 32
Cu-Al : as.morse 1.2 2.1 0.4
[EAM-Embed]
Cu : as.sqrt -1.5
Al : as.polynomial 0 -0.5 0.01
[EAM-Density]
Al : as.exponential 2.0 -1.0
Cu : product(as.constant ${scale}, as.exponential 1.0 -0.5)
[Species]
Cu.lattice_constant : 3.61
[Variables]
scale : 1.75
"""
FS = u"""[Pair]
Cu-Al : as.morse 1.2 2.1 0.4
Al-Al : as.buck 1000 0.3 32
[EAM-Embed]
Cu : as.sqrt -1.5
Al : as.polynomial 0 -0.5 0.01
[EAM-Density]
Al->Cu : as.exponential 2.0 -1.0
Cu->Al : as.exponential 3.0 -2.0
Cu->Cu : as.constant 0.25
"""
def model(target, body):
  return u"[Tabulation]\ntarget : {}\n".format(target) + GRID + body

def same(alias, canonical, body, **kwargs):
  a = cd.outcome(cd.tabulate_text, model(alias, body), **kwargs)
  c = cd.outcome(cd.tabulate_text, model(canonical, body), **kwargs)
  assert a.startswith("OK:") and a == c, (alias, canonical, a, c)
  return a

shas = []
for alias, canonical in NEW:
  body = FS if canonical.endswith("_fs") else EAM
  shas.append(same(alias, canonical, body))
  shas.append(same(alias, canonical, body, include = ["Al"]))
  shas.append(same(alias, canonical, body, exclude = ["Al"]))
  shas.append(same(alias, canonical, body, overrides = [cd.ConfigParserOverrideTuple("Tabulation", "nr", "13")]))
  # the parsed target is the canonical one; the raw item is untouched (as for lammps_eam_alloy)
  cp = ConfigParser(io.StringIO(model(alias, body)))
  assert cp.tabulation.target == canonical and cp.raw_config_parser["Tabulation"]["target"] == alias
  # a model of the wrong flavour is refused exactly as for the canonical spelling
  wrong = EAM if canonical.endswith("_fs") else FS
  a = cd.outcome(cd.tabulate_text, model(alias, wrong)); c = cd.outcome(cd.tabulate_text, model(canonical, wrong))
  assert a == c, (a, c)
  print("  {:14s} == {:15s} wrong-flavour model: {}".format(alias, canonical, a[:70]))
# Asymmetric FS: Al->Cu density (Cu neighbour at an Al site) ends up where setfl_fs puts it whichever spelling is used
text = cd.tabulate_text(model("LAMMPS_eam_fs", FS))
assert text == cd.tabulate_text(model("setfl_fs", FS))
print("NEW FEATURE: every new alias gives byte-identical output to its target; combined sha256",
  hashlib.sha256("".join(shas).encode()).hexdigest())

# through potable, including switching to an alias with --override-item
with tempfile.TemporaryDirectory() as tmpdir:
  fname = os.path.join(tmpdir, "fs.aspot")
  with open(fname, "w") as f:
    f.write(model("setfl_fs", FS))
  outs = []
  for i, extra in enumerate([[], ["--override-item", "Tabulation:target=LAMMPS_eam_fs"], ["-e", "Tabulation:target=lammps_eam_fs"]]):
    out = os.path.join(tmpdir, "out{}".format(i))
    r = cd.potable_cli([fname, out] + extra)
    assert r.startswith("exit:0"), r
    outs.append(open(out).read())
  assert outs[0] == outs[1] == outs[2] == text
  r = cd.potable_cli([fname, os.path.join(tmpdir, "bad"), "-e", "Tabulation:target=LAMMPS_EAM_FS"])
  assert r.startswith("exit:2") and "configuration error - [Tabulation].tabulation-target - unknown tabulation target specified : 'LAMMPS_EAM_FS'" in r, r
  assert not os.path.exists(os.path.join(tmpdir, "bad"))
  print("NEW FEATURE: potable --override-item Tabulation:target=<alias> gives the same file; near miss:", r.split("|")[-1])

# near misses remain configuration errors
for bad in ["lammps_eam_FS", "LAMMPS_EAM_fs", "lammps_fs", "DLPOLY_EAM_FS", "dlpoly_eam", "DL_POLYEAM", "setfl_FS", "lammps_eam_fs ."]:
  r = cd.outcome(cd.tabulate_text, model(bad, FS))
  assert r.startswith("CFGERR:ConfigurationException:[Tabulation].tabulation-target - unknown tabulation target specified"), (bad, r)
# whitespace around the value is not significant (as before)
assert cd.outcome(cd.tabulate_text, model("  LAMMPS_eam_fs  ", FS)) == cd.outcome(cd.tabulate_text, model("setfl_fs", FS))

# The reference manual lists only spellings that are accepted, and all the new ones it lists are accepted
with open(os.path.join(cd.WT, "docs", "reference", "potable_input.rst")) as infile:
  rst = infile.read()
block = rst[rst.index(":Valid Options:", rst.index(".. _ref-potable-input-tabulation-target:")):]
block = block[:block.index(":Description:")]
documented = set()
for group in re.findall(r"``([^`|]+(?:\|[^`]+)?)``", block):
  names = group.split("|")
  documented.update(names)
  canon = set(syn.get(n, n) for n in names)
  assert len(canon) == 1, names    # options joined by | are synonyms of one another
accepted = set(TABULATION_FACTORIES) | set(syn)
assert documented <= accepted, documented - accepted
assert set(["LAMMPS_eam_fs", "DLPOLY_EAM", "DLPOLY_EAM_fs"]) <= documented
print("NEW FEATURE: manual lists {} spellings, all accepted; accepted but undocumented: {}".format(len(documented), sorted(accepted - documented)))

if os.environ.get("DIFFC_CHILD") != "1":
  seen = set()
  for seed in ["0", "1", "12345"]:
    env = dict(os.environ, PYTHONHASHSEED = seed, DIFFC_CHILD = "1")
    o = subprocess.check_output([sys.executable, "-W", "ignore", "/tmp/wtpy.py", cd.WT, os.path.abspath(__file__)], env = env).decode()
    seen.add([l for l in o.splitlines() if "combined sha256" in l][0])
  assert len(seen) == 1, seen
  print("NEW FEATURE: identical output for PYTHONHASHSEED 0, 1, 12345:", seen.pop().split()[-1])

"""Differential script for twin A: key normalisation shared by
_RawConfigParser.optionxform / _ConfigParserDict, has_option(), options(), get().

Prints a deterministic digest of everything observed through the (semi-)public
API: values, listings, exception type names and messages.
"""
import hashlib
import io
import os
import sys
import tempfile
import configparser

from atsim.potentials.config import ConfigParser, ConfigParserOverrideTuple, Configuration
from atsim.potentials.config._config_parser import _RawConfigParser
from atsim.potentials.tools.potable import _query_actions

LOG = []

def log(*args):
  LOG.append(repr(args))

def exc_desc(e):
  return ("EXC", type(e).__name__, [c.__name__ for c in type(e).__mro__], str(e),
    type(e.__context__).__name__, type(e.__cause__).__name__, e.__suppress_context__)

def attempt(label, f, *args, **kwargs):
  try:
    v = f(*args, **kwargs)
  except BaseException as e:
    log(label, exc_desc(e))
    return None
  log(label, "OK", v)
  return v

CFG_KEYS = u"""[Variables]
A = 1
B\t= 2
long name = 3.5
pre = as.buck

[Tabulation]
target : LAMMPS
cutoff : 6.5
nr : 652

[Species]
Al.charge = 1.2
Al . atomic_mass = 26.9

[Potential-Form]
f(x, y) = x + y
g( r ,\ta , b ) = a * r + b
h(r)=r

[Pair]
Al-Cu = ${pre} ${A} 0.${B} ${longname}
A - B = g ${Species:Al.charge} ${Species:Al.atomic_mass}
O-O : as.constant ${A}

[Orphan Section]
some key = value with spaces
other\tkey : ${Pair:O-O}
"""

CFG_BAD_INTERP = u"""[Variables]
A = ${B}
B = ${A}
C = 5

[Pair]
O-O = as.constant ${NOPE}
U-U = as.constant ${Missing:KEY}
Al-Al = as.constant ${C
Cu-Cu = as.constant $C
Fe-Fe = as.constant ${A}
Ni-Ni = as.constant ${C}
Zr-Zr = as.constant ${A:B:C}
"""

CFG_DUP_NORMALISED = u"""[Potential-Form]
f(x, y) = x + y
f(x,y) = x - y
"""

CFG_DUP_TAB = u"""[Pair]
O - O = as.constant 1
O\t-\tO = as.constant 2
"""

CFG_DUP_SECTION = u"""[Pair]
O-O = as.constant 1
[Pair]
U-U = as.constant 2
"""

CFG_NO_HEADER = u"""O-O = as.constant 1
"""

OPTION_PROBES = [
  "Al-Cu", " Al - Cu ", "Al\t-Cu", "al-cu", "A-B", "A - B", " A\t-\tB\t", "O-O", "A", "B", "longname",
  "long name", " long\tname ", "pre", "f(x,y)", "f(x, y)", "f( x ,\ty )", "g(r,a,b)", "h(r)", "h( r )",
  "somekey", "some key", "otherkey", "other\tkey", "nope", "", " ", "\n A \n", "A\n", "A\r", "A\x0b", "A\x0cB",
  "Al.charge", "Al . charge", "Al.atomic_mass", u"A ", u" B"]

SECTION_PROBES = ["Variables", "Tabulation", "Species", "Potential-Form", "Pair", "Orphan Section",
  "OrphanSection", "Nope", "", None, "variables", "DEFAULT"]

def probe_raw(label, text):
  cp = _RawConfigParser()
  r = attempt((label, "read"), lambda : cp.read_file(io.StringIO(text)))
  log(label, "sections", cp.sections())
  log(label, "defaults", list(cp.defaults().items()))
  log(label, "default_section", cp.default_section)
  for s in SECTION_PROBES:
    attempt((label, "has_section", s), cp.has_section, s)
    attempt((label, "options", s), cp.options, s)
    attempt((label, "in", s), lambda : s in cp)
    attempt((label, "proxy-keys", s), lambda : list(cp[s]))
    attempt((label, "proxy-keys2", s), lambda : list(cp[s].keys()))
    attempt((label, "proxy-len", s), lambda : len(cp[s]))
    attempt((label, "items", s), lambda : list(cp.items(s)))
    attempt((label, "proxy-items", s), lambda : list(cp[s].items()))
    for o in OPTION_PROBES:
      attempt((label, "optionxform", o), cp.optionxform, o)
      attempt((label, "has_option", s, o), cp.has_option, s, o)
      attempt((label, "get", s, o), cp.get, s, o)
      attempt((label, "get-fallback", s, o), lambda : cp.get(s, o, fallback = "FB"))
      attempt((label, "get-fallback-none", s, o), lambda : cp.get(s, o, fallback = None))
      attempt((label, "proxy-get", s, o), lambda : cp[s][o])
      attempt((label, "proxy-get-fb", s, o), lambda : cp[s].get(o, "PFB"))
      attempt((label, "proxy-in", s, o), lambda : o in cp[s])
  # non string keys
  for o in [None, 1, b"A", ("A",)]:
    attempt((label, "optionxform-odd", repr(o)), cp.optionxform, o)
    for s in ["Pair", "Variables", "Nope", None]:
      attempt((label, "has_option-odd", s, repr(o)), cp.has_option, s, o)
      attempt((label, "get-odd", s, repr(o)), lambda : cp.get(s, o, fallback = "FB"))
  return cp

def probe_mutation(label, text):
  cp = _RawConfigParser()
  cp.read_file(io.StringIO(text))
  attempt((label, "set"), cp.set, "Pair", " New - Key\t", "as.constant ${A}")
  attempt((label, "get-new"), cp.get, "Pair", "New-Key")
  attempt((label, "set-proxy"), lambda : cp["Pair"].__setitem__("X - Y", "as.zero"))
  attempt((label, "set-var"), lambda : cp["Variables"].__setitem__(" Q Q ", "77"))
  attempt((label, "set-nosection"), cp.set, "Nope", "a", "b")
  attempt((label, "opts"), cp.options, "Pair")
  attempt((label, "vars"), cp.options, "Variables")
  attempt((label, "remove"), cp.remove_option, "Pair", "Al -\tCu")
  attempt((label, "remove-again"), cp.remove_option, "Pair", "Al-Cu")
  attempt((label, "remove-var-via-pair"), cp.remove_option, "Pair", "A")
  attempt((label, "remove-var"), cp.remove_option, "Variables", " long name")
  attempt((label, "del-proxy"), lambda : cp["Pair"].__delitem__("X-Y"))
  attempt((label, "del-proxy-missing"), lambda : cp["Pair"].__delitem__("X-Y"))
  attempt((label, "add-section"), cp.add_section, "New Section")
  attempt((label, "add-section-dup"), cp.add_section, "Pair")
  attempt((label, "add-section-default"), cp.add_section, "Variables")
  attempt((label, "set-new-section"), cp.set, "New Section", "k k", "${QQ}")
  attempt((label, "get-new-section"), cp.get, "New Section", "kk")
  attempt((label, "setitem-section"), lambda : cp.__setitem__("Dict Section", {"a b" : "1", "ab" : "2", "c\td" : "${A}"}))
  attempt((label, "dict-section"), lambda : list(cp["Dict Section"].items()))
  attempt((label, "read_dict"), cp.read_dict, {"RD" : {"x y" : "1", "z" : "${x y}"}})
  attempt((label, "read_dict-items"), lambda : list(cp["RD"].items()))
  attempt((label, "read_dict-dup"), cp.read_dict, {"RD2" : {"x y" : "1", "xy" : "2"}})
  for s in cp.sections() + [cp.default_section]:
    attempt((label, "final-items", s), lambda : list(cp.items(s)))
    attempt((label, "final-opts", s), cp.options, s)
  out = io.StringIO()
  attempt((label, "write"), cp.write, out)
  log(label, "written", out.getvalue())

def probe_config_parser(label, text):
  def parse():
    cp = ConfigParser(io.StringIO(text))
    res = []
    for attr in ["parsed_sections", "orphan_sections", "species"]:
      res.append((attr, getattr(cp, attr)))
    for attr in ["pair", "potential_form", "eam_embed", "eam_density", "eam_density_fs", "table_form", "tabulation"]:
      try:
        res.append((attr, repr(getattr(cp, attr))))
      except Exception as e:
        res.append((attr, exc_desc(e)))
    for f in [_query_actions._list_items, _query_actions._list_item_labels, _query_actions._list_plot_item_labels]:
      try:
        res.append((f.__name__, f(cp)))
      except Exception as e:
        res.append((f.__name__, exc_desc(e)))
    for k in ["Pair:Al-Cu", "Pair: Al - Cu", "Potential-Form:f( x , y )", "Variables:long name", "Pair:A", "Orphan Section:some key", "OrphanSection:somekey", ":A"]:
      try:
        res.append((k, _query_actions._item_value(cp, k)))
      except Exception as e:
        res.append((k, exc_desc(e)))
    return res
  attempt((label, "ConfigParser"), parse)

def tabulate(label, text, overrides = [], additional = []):
  def run():
    cp = ConfigParser(io.StringIO(text), overrides = overrides, additional = additional)
    tabulation = Configuration().read_from_parser(cp)
    out = io.StringIO()
    tabulation.write(out)
    return hashlib.sha256(out.getvalue().encode("utf-8")).hexdigest()
  attempt((label, "tabulate"), run)

def main():
  texts = [("keys", CFG_KEYS), ("badinterp", CFG_BAD_INTERP), ("dupnorm", CFG_DUP_NORMALISED),
    ("duptab", CFG_DUP_TAB), ("dupsect", CFG_DUP_SECTION), ("nohdr", CFG_NO_HEADER)]
  for label, text in texts:
    probe_raw(label, text)
    probe_config_parser(label, text)
  probe_mutation("mut-keys", CFG_KEYS)
  probe_mutation("mut-bad", CFG_BAD_INTERP)

  T = ConfigParserOverrideTuple
  tabulate("tab-keys", CFG_KEYS)
  tabulate("tab-keys-over", CFG_KEYS, overrides = [T("Variables", " A ", "4"), T("Pair", "A -\tB", None), T("Tabulation", "n r", "21")],
    additional = [T("Pair", " U - U ", "f ${A}${B}"), T("Variables", "Z Z", "9")])
  wt = os.getcwd()
  for root in ["docs/user_guide/example_files", "docs/quick_start", "tests/config/config_resources", "tests/lammps_resources", "tests/dl_poly_resources"]:
    for fn in sorted(os.listdir(os.path.join(wt, root))):
      if fn.endswith(".aspot"):
        with open(os.path.join(wt, root, fn)) as infile:
          text = infile.read()
        probe_config_parser(("file", fn), text)
        if fn in ("basak.aspot", "basak_table_form.aspot", "standard_eam.aspot", "Ag_sutton.aspot"):
          tabulate(("file", fn), text)

  h = hashlib.sha256()
  for line in LOG:
    h.update(line.encode("utf-8"))
    h.update(b"\n")
  if "--dump" in sys.argv:
    for line in LOG:
      print(line)
  print("entries", len(LOG))
  print("digest", h.hexdigest())

main()

"""Differential script for twin C (Potential_Form_Registry, _Check_Call / Potential_Form,
_Cexptrk_Potential_Function, Table_Form_Builder and Reference_Data.get).

Run with:
  /venv/bin/python -W ignore /tmp/wtpy.py /tmp/twin_7 _twins/diffC.py

Digest covers: registered labels, values of every registered potential form for correct and
incorrect argument counts, exception types + messages, full tabulations written from
[Potential-Form]/[Table-Form] based models and Reference_Data look-ups.
"""
import hashlib
import io
import os
import subprocess
import sys

HERE = os.path.dirname(os.path.abspath(__file__))
WT = os.path.dirname(HERE)
SEEDS = ["0", "99"]

TABLE = """
[Table-Form:tabulated]
interpolation : cubic_spline
x : 0.5 1.0 2.0 3.0 4.0 8.0
y : 10.0 5.0 1.0 0.5 0.25 0.0
"""

REGISTRY_CASES = {
  "empty": "[Pair]\nO-O : as.zero\n",
  "forms": """[Potential-Form]
born_mayer(r, A, rho) = A * exp(-r/rho)
dispersion(r, C) = - C/r^6
buck(r, A, rho, C) = born_mayer(r, A, rho) + dispersion(r, C)
buck_morse(r, A, rho, C, D, gamma, r0) = as.buck(r,A,rho,C) + as.morse(r, gamma, r0, D)
noparams(r) = 2*r
usepymath(r, n) = pymath.factorial(n) + pymath.floor(r)
""",
  "forms_and_table": """[Potential-Form]
shifted(r, s) = tabulated(r) + s
two_tables(r) = tabulated(r) * other(r+0.5)
""" + TABLE + """
[Table-Form:other]
xy : 0.0 1.0
     1.0 2.0
     2.5 1.5
     9.0 -1.0
""",
  "bad_expression": "[Potential-Form]\nbad_expr(r, A) = A * (r\nnested(r, A) = bad_expr(r, A) + 1\nunknown_func(r) = nothing(r)\nunknown_var(r, A) = A*B*r\n",
  "duplicate_label": "[Potential-Form]\nf(r, A) = A*r\nf(r, A, B) = A*r+B\n",
  "clash_with_standard": "[Potential-Form]\nas.buck(r, A) = A*r\n",
  "name_clash": "[Potential-Form]\nA(r, B) = B*r\ng(r, A) = A*r\n",
  "builtin_clash": "[Potential-Form]\nsin(r, B) = B*r\ng(r, A) = A*r\n",
  "builtin_clash_table": "[Potential-Form]\ng(r, A) = A*r\n[Table-Form:exp]\nx : 1 2 3 4 5\ny : 3 2 1 0.5 0.1\n",
  "name_clash_table": "[Potential-Form]\ng(r, tabulated) = tabulated*r\n" + TABLE,
  "table_clash_form": "[Potential-Form]\ntabulated(r, A) = A*r\n" + TABLE,
  "table_clash_standard": "[Table-Form:as.buck]\nx : 1 2 3\ny : 3 2 1\n",
  "table_clash_reserved": "[Table-Form:as.zero]\nx : 1 2 3\ny : 3 2 1\n",
  "table_unknown_interp": "[Table-Form:t]\ninterpolation : quintic\nx : 1 2 3\ny : 3 2 1\n",
  "table_default_interp": "[Table-Form:t]\nx : 1 2 3 4\ny : 3 2 1 0.5\n",
  "table_non_monotonic": "[Table-Form:t]\ninterpolation : cubic_spline\nx : 1 3 2 4\ny : 3 2 1 0.5\n",
  "table_repeated_x": "[Table-Form:t]\ninterpolation : cubic_spline\nx : 1 2 2 4\ny : 3 2 1 0.5\n",
  "table_too_short": "[Table-Form:t]\ninterpolation : cubic_spline\nx : 1\ny : 3\n",
  "table_two_points": "[Table-Form:t]\ninterpolation : cubic_spline\nx : 1 2\ny : 3 1\n",
}

ARG_SETS = [(), (1.5,), (1.5, 2.0), (1.5, 2.0, 0.5), (1.5, 2.0, 0.5, 0.25), (1.6, 1000.0, 0.3, 32.0, 1.0, 2.0, 3.0), tuple(float(i) for i in range(1, 11))]


def fmt_exc(e):
  return "EXC {} [{}]: {} | args={!r}".format(type(e).__name__, ",".join(c.__name__ for c in type(e).__mro__[1:3]), e, e.args)


def exercise_form(label, pf):
  """Call potential-form `pf` (a function factory) and the wrapped potential_function with varied argument counts"""
  lines = []
  try:
    sig = pf.signature
    lines.append("{} signature={!r}".format(label, tuple(sig)))
  except Exception as e:
    lines.append("{} signature {}".format(label, fmt_exc(e)))
  if hasattr(pf, "expression"):
    lines.append("  expression={!r}".format(pf.expression))
  chk = pf._check_call
  lines.append("  check: required={} usage={!r} how={!r} valid={}".format(chk.required_arg_len(), chk.recommended_usage(), chk.how_used(1, "b", 2.5), [chk.args_valid(*a) for a in ARG_SETS]))
  for args in ARG_SETS:
    # As a function factory
    try:
      f = pf(*args)
      vals = []
      for r in (0.75, 1.5, 3.25):
        try:
          vals.append(repr(f(r)))
        except Exception as e:
          vals.append(fmt_exc(e))
      lines.append("  factory{!r} -> {} {}".format(args, type(f).__name__, " ".join(vals)))
    except Exception as e:
      lines.append("  factory{!r} -> {}".format(args, fmt_exc(e)))
    # As a plain function
    if hasattr(pf, "potential_function"):
      try:
        lines.append("  function{!r} -> {!r}".format(args, pf.potential_function(*args)))
      except Exception as e:
        lines.append("  function{!r} -> {}".format(args, fmt_exc(e)))
  return lines


def run_registry(ini, register_standard, register_pymath):
  from atsim.potentials.config._config_parser import ConfigParser
  from atsim.potentials.config._potential_form_registry import Potential_Form_Registry
  lines = []
  try:
    cp = ConfigParser(io.StringIO(ini))
    pfr = Potential_Form_Registry(cp, register_standard, register_pymath)
  except Exception as e:
    return [fmt_exc(e)]
  labels = pfr.registered
  lines.append("registered={!r}".format(labels))
  lines.append("insertion order={!r}".format(list(pfr._potential_forms.keys())))
  lines.append("definitions={!r}".format(pfr._definitions))
  lines.append("reserved n={} sha={}".format(len(pfr._reserved_names), hashlib.sha256(repr(sorted(pfr._reserved_names)).encode()).hexdigest()[:16]))
  for label in labels:
    lines.extend(exercise_form(label, pfr[label]))
  # each cexprtk function's symbol table (what was registered with what)
  for label in labels:
    pfunc = getattr(pfr[label], "potential_function", None)
    st = getattr(pfunc, "_local_symbol_table", None)
    if st is not None:
      lines.append("symtab {} functions={!r} variables={!r}".format(label, sorted(dict(st.functions.items()).keys()), sorted(dict(st.variables.items()).keys())))
  for missing in ("not_there", "as.not_there", 3):
    try:
      pfr[missing]
      lines.append("lookup {!r} ok".format(missing))
    except Exception as e:
      lines.append("lookup {!r} {}".format(missing, fmt_exc(e)))
  return lines


TAB_CASES = {
  "pair_forms": """[Tabulation]
target : LAMMPS
nr : 25
dr : 0.25

[Pair]
A-B = buck 1000.0 0.3 32.0
B-B = shifted -0.5 >4 as.zero
A-A = two_tables
C-C = usepymath 3
C-A = tabulated

[Potential-Form]
born_mayer(r, A, rho) = A * exp(-r/rho)
dispersion(r, C) = - C/r^6
buck(r, A, rho, C) = born_mayer(r, A, rho) + dispersion(r, C)
shifted(r, s) = tabulated(r) + s
two_tables(r) = tabulated(r) * other(r+0.5)
usepymath(r, n) = pymath.factorial(n) + pymath.floor(r)
""" + TABLE + """
[Table-Form:other]
xy : 0.0 1.0
     1.0 2.0
     2.5 1.5
     9.0 -1.0
""",
  "pair_bad_expr": "[Tabulation]\ntarget : LAMMPS\nnr : 10\ndr : 0.5\n[Pair]\nA-B = nested 1.0\n[Potential-Form]\nbad_expr(r, A) = A * (r\nnested(r, A) = bad_expr(r, A) + 1\n",
  "pair_wrong_func_args": "[Tabulation]\ntarget : LAMMPS\nnr : 10\ndr : 0.5\n[Pair]\nA-B = f 1.0\n[Potential-Form]\nf(r, A) = as.buck(r, A)\n",
  "pair_wrong_func_args_custom": "[Tabulation]\ntarget : LAMMPS\nnr : 10\ndr : 0.5\n[Pair]\nA-B = f 1.0\n[Potential-Form]\ng(r, A, B) = A*r+B\nf(r, A) = g(r, A)\n",
  "pair_wrong_table_args": "[Tabulation]\ntarget : GULP\nnr : 10\ndr : 0.5\n[Pair]\nA-B = tabulated 1.0\n" + TABLE,
  "pair_table_in_expr_wrong_args": "[Tabulation]\ntarget : GULP\nnr : 10\ndr : 0.5\n[Pair]\nA-B = f\n[Potential-Form]\nf(r) = tabulated(r, 2)\n" + TABLE,
  "pair_unknown_interp": "[Tabulation]\ntarget : GULP\nnr : 10\ndr : 0.5\n[Pair]\nA-B = t\n[Table-Form:t]\ninterpolation : quintic\nx : 1 2 3\ny : 3 2 1\n",
  "pair_existing_forms": "[Tabulation]\ntarget : DLPOLY\nnr : 16\ncutoff : 4.0\n[Pair]\nA-B = as.buck4 1000 0.3 30 1.0 1.5 2.0\nB-B = as.zero\nA-A = as.buck4 1000 0.3\n",
}


def run_tabulation(ini):
  from atsim.potentials.config import Configuration
  try:
    tab = Configuration().read(io.StringIO(ini))
    sio = io.StringIO()
    tab.write(sio)
    return ["target={} output sha256={}".format(tab.target, hashlib.sha256(sio.getvalue().encode("utf-8")).hexdigest())]
  except Exception as e:
    return [fmt_exc(e)]


def run_table_builder():
  from atsim.potentials.config._table_form_builder import Table_Form_Builder
  from atsim.potentials.config._common import TableFormTuple
  lines = []
  b = Table_Form_Builder()
  lines.append("table forms={!r}".format([(k, v.__name__) for k, v in b._table_forms.items()]))
  tuples = [
    TableFormTuple("t1", "cubic_spline", [0.0, 1.0, 2.0, 3.0], [1.0, 0.5, 0.25, 0.0]),
    TableFormTuple("t2", "cubic_spline", [0.0, 1.0, 1.0, 3.0], [1.0, 0.5, 0.25, 0.0]),
    TableFormTuple("t3", "cubic_spline", [0.0, 1.0, 2.0], [1.0, 0.5]),
    TableFormTuple("t4", "linear", [0.0, 1.0, 2.0], [1.0, 0.5, 3.0]),
    TableFormTuple("t5", None, [0.0, 1.0, 2.0], [1.0, 0.5, 3.0]),
    TableFormTuple("t6", "cubic_spline", [], []),
    TableFormTuple("t7", [], [0.0, 1.0], [1.0, 2.0]),
  ]
  for t in tuples:
    try:
      pf = b.create_potential_form(t)
      lines.extend(exercise_form(t.name, pf))
    except Exception as e:
      lines.append("{} {}".format(t.name, fmt_exc(e)))
  for k in ("cubic_spline", "nope"):
    try:
      lines.append("cls {} {}".format(k, b._config_name_to_class(k).__name__))
    except Exception as e:
      lines.append("cls {} {}".format(k, fmt_exc(e)))
  return lines


def run_reference_data():
  from atsim.potentials.referencedata import Reference_Data
  lines = []
  extra = {
    "U": {"atomic_mass": 235.0, "lattice_constant": 5.678, "colour": "green"},
    "Xx": {"atomic_mass": 1.5, "atomic_number": 200},
    "Empty": {},
  }
  species = ["H", "He", "Al", "Fe", "U", "Th", "Og", "Xx", "Empty", "Qq", "", "al", None, 13]
  props = ["atomic_mass", "atomic_number", "lattice_constant", "lattice_type", "colour", "", None]
  for nm, rd in (("default", Reference_Data()), ("extra", Reference_Data(extra)), ("empty-extra", Reference_Data({}))):
    for s in species:
      for p in props:
        try:
          lines.append("{} get({!r},{!r}) = {!r}".format(nm, s, p, rd.get(s, p)))
        except Exception as e:
          lines.append("{} get({!r},{!r}) {}".format(nm, s, p, fmt_exc(e)))
  # extra_data must not be modified by look-ups
  lines.append("extra after={!r}".format(sorted((k, sorted(v.items())) for k, v in extra.items())))
  for s in ([], {}):
    try:
      Reference_Data(extra).get(s, "atomic_mass")
    except Exception as e:
      lines.append("unhashable {!r} {}".format(s, type(e).__name__))
  return lines


def child():
  records = []
  n = 0
  for name in sorted(REGISTRY_CASES):
    for std in (True, False):
      for pym in (True, False):
        n += 1
        records.append("### registry {} std={} pymath={}".format(name, std, pym))
        records.extend(run_registry(REGISTRY_CASES[name], std, pym))
  for name in sorted(TAB_CASES):
    n += 1
    records.append("### tabulation {}".format(name))
    records.extend(run_tabulation(TAB_CASES[name]))
  records.append("### table builder")
  records.extend(run_table_builder())
  records.append("### reference data")
  records.extend(run_reference_data())
  text = "\n".join(records)
  if os.environ.get("TWIN_DUMP"):
    with open(os.environ["TWIN_DUMP"] + "." + os.environ["PYTHONHASHSEED"], "w") as out:
      out.write(text)
  print("seed={} cases={} lines={} exceptions={} sha256={}".format(os.environ["PYTHONHASHSEED"], n, len(records), text.count("EXC "), hashlib.sha256(text.encode("utf-8")).hexdigest()))


def parent():
  combined = hashlib.sha256()
  for seed in SEEDS:
    env = dict(os.environ)
    env["PYTHONHASHSEED"] = seed
    env["TWIN_CHILD"] = "1"
    out = subprocess.check_output([sys.executable, "-W", "ignore", "/tmp/wtpy.py", WT, os.path.abspath(__file__)], env=env)
    out = out.decode("utf-8")
    sys.stdout.write(out)
    combined.update(out.encode("utf-8"))
  print("COMBINED DIGEST {}".format(combined.hexdigest()))


if __name__ == "__main__":
  if os.environ.get("TWIN_CHILD"):
    child()
  else:
    parent()

"""Differential script for twin C: Potential_Form_Builder range handling and
create_Multi_Range_Potential_Form class selection.

Builds potential callables from hand made instance tuples, from parsed
configuration strings and through the `potable` command line entry point, then
prints a sha256 digest over every value / exception / output file seen."""
import contextlib
import hashlib
import io
import math
import os
import sys
import tempfile

from atsim.potentials.config._potential_form_builder import Potential_Form_Builder
from atsim.potentials.config._potential_form_registry import Potential_Form_Registry
from atsim.potentials.config._modifier_registry import Modifier_Registry
from atsim.potentials.config import ConfigParser, Configuration
from atsim.potentials.config._common import PotentialFormInstanceTuple, PotentialModifierTuple
from atsim.potentials.config._common import MultiRangeDefinitionTuple
from atsim.potentials import Multi_Range_Defn, create_Multi_Range_Potential_Form
from atsim.potentials.tools import potable

out = []

def emit(*args):
  out.append(" ".join(repr(a) for a in args))

def attempt(label, f):
  try:
    v = f()
    emit(label, "OK", v)
  except Exception as e:
    emit(label, "EXC", type(e).__name__, type(e).__mro__[1].__name__, str(e), repr(e.args))

RVALS = [-1.0, 0.0, 1e-6, 0.1, 0.5, 1.0, math.nextafter(1.0, 2.0), 1.1, 1.5, 1.6, 2.0, math.nextafter(2.0, 0.0), 2.1, 2.5, 3.0, 3.1, 4.0, 5.0, 5.1, 10.0]

def describe(label, func):
  emit(label, "class", type(func).__name__, [c.__name__ for c in type(func).__mro__])
  emit(label, "default", getattr(func, "default_value", None))
  emit(label, "defns", [(d.range_type, d.start, type(d.potential_form).__name__, d.has_deriv, d.has_deriv2) for d in func.range_defns])
  for r in RVALS:
    attempt((label, "call", r), lambda: func(r))
    for meth in ("deriv", "deriv2"):
      if hasattr(func, meth):
        attempt((label, meth, r), lambda: getattr(func, meth)(r))

PF = u"""[Potential-Form]
born_mayer(r, A, rho) = A * exp(-r/rho)
dispersion(r, C) = - C/r^6
nested(r, A, rho, C) = born_mayer(r, A, rho) + dispersion(r, C)
"""

cp = ConfigParser(io.StringIO(PF))
pfr = Potential_Form_Registry(cp, register_standard = True)
pfb = Potential_Form_Builder(pfr, Modifier_Registry())

PFitTup = PotentialFormInstanceTuple
ModTup = PotentialModifierTuple
MRTup = MultiRangeDefinitionTuple

# ... hand made tuples
hand_made = {
  "single-nostart" : PFitTup("as.buck", [1000.0, 0.3, 32.0], None, None),
  "single-start" : PFitTup("as.buck", [1000.0, 0.3, 32.0], MRTup(">", 1.0), None),
  "three" : PFitTup( potential_form = "as.zero", parameters = [], start = MRTup(">=", 0),
       next = PFitTup( potential_form = "as.buck", parameters = [1000.0, 0.3, 32.0], start = MRTup(">", 1),
       next = PFitTup( potential_form = "as.constant", parameters = [3], start = MRTup(">", 5), next = None))),
  "unordered" : PFitTup("as.constant", [3.0], MRTup(">", 5),
       PFitTup("as.constant", [1.0], MRTup(">=", 0),
       PFitTup("as.constant", [2.0], MRTup(">", 1), None))),
  "same-start" : PFitTup("as.constant", [3.0], MRTup(">", 1.0),
       PFitTup("as.constant", [1.0], MRTup(">=", 1.0),
       PFitTup("as.constant", [2.0], MRTup(">", 1.0), None))),
  "nostart-then-start" : PFitTup("as.constant", [3.0], None, PFitTup("dispersion", [32.0], MRTup(">=", 2.0), None)),
  "no-deriv" : PFitTup("born_mayer", [1000.0, 0.1], MRTup(">", 0.0), PFitTup("dispersion", [32.0], MRTup(">=", 3.0), None)),
  "both-deriv" : PFitTup("as.bornmayer", [1000.0, 0.1], MRTup(">", 0.0), PFitTup("as.buck", [0, 1.0, 32.0], MRTup(">=", 3.0), None)),
  "one-deriv" : PFitTup("as.bornmayer", [1000.0, 0.1], MRTup(">", 0.0), PFitTup("dispersion", [32.0], MRTup(">=", 3.0), None)),
  "one-deriv-second" : PFitTup("dispersion", [32.0], MRTup(">", 0.0), PFitTup("as.bornmayer", [1000.0, 0.1], MRTup(">=", 3.0), None)),
  "nested-form" : PFitTup("nested", [1000.0, 0.1, 32.0], MRTup(">", 0.5), None),
  "modifier" : ModTup("sum", [PFitTup("as.constant", [1.0], MRTup(">", 0.0), PFitTup("as.constant", [2.0], MRTup(">=", 1.0), None)),
                              PFitTup("as.constant", [3.0], MRTup(">", 1.5), None)], MRTup(">", 0.0), None),
  "modifier-nostart" : ModTup("sum", [PFitTup("as.constant", [1.0], None, None), PFitTup("as.buck", [1000.0, 0.3, 32.0], None, None)], None,
                              PFitTup("as.zero", [], MRTup(">=", 2.0), None)),
  "modifier-in-chain" : PFitTup("as.constant", [2.0], MRTup(">=", 0),
       ModTup("sum", [PFitTup("as.constant", [1.0], MRTup(">", 0.0), PFitTup("as.constant", [0.5], MRTup(">=", 2.0), None)),
                      PFitTup("as.constant", [10.0], MRTup(">=", 1.5), None)], MRTup(">=", 1.0),
       PFitTup("as.zero", [], MRTup(">=", 3.0), None))),
  # ... malformed
  "unknown-form" : PFitTup("as.nosuchthing", [1.0], MRTup(">", 0.0), None),
  "unknown-form-second" : PFitTup("as.zero", [], MRTup(">", 0.0), PFitTup("nosuch", [1.0], MRTup(">", 1.0), None)),
  "unknown-modifier" : ModTup("nosuchmod", [PFitTup("as.zero", [], None, None)], MRTup(">", 0.0), None),
  "unknown-form-in-modifier" : ModTup("sum", [PFitTup("as.zero", [], None, None), PFitTup("missing.form", [], None, None)], MRTup(">", 0.0), None),
  "unknown-both" : ModTup("nosuchmod", [PFitTup("missing.form", [], None, None)], MRTup(">", 0.0), PFitTup("missing2", [], MRTup(">", 1.0), None)),
  "too-few-params" : PFitTup("as.buck", [1000.0, 0.3], MRTup(">", 0.0), None),
  "too-many-params" : PFitTup("as.buck", [1000.0, 0.3, 1.0, 2.0], MRTup(">", 0.0), None),
  "too-few-second" : PFitTup("as.zero", [], MRTup(">", 0.0), PFitTup("born_mayer", [1.0], MRTup(">", 1.0), None)),
  "string-start" : PFitTup("as.zero", [], MRTup(">", 0.0), PFitTup("as.constant", [1.0], MRTup(">", "x"), None)),
  "none-instance" : None,
  "bad-instance" : ("as.buck", [1.0, 2.0, 3.0]),
  "empty-start" : PFitTup("as.constant", [4.0], (), None),
}

for label in sorted(hand_made):
  try:
    func = pfb.create_potential_function(hand_made[label])
  except Exception as e:
    emit(label, "BUILD-EXC", type(e).__name__, [c.__name__ for c in type(e).__mro__], str(e), repr(e.args))
    continue
  describe(label, func)

# ... via parsed expressions
expressions = [
  u"as.buck 1000.0 0.3 32.0",
  u">=0 as.buck 1000.0 0.3 32.0",
  u"as.zero >=1 as.buck 1000.0 0.3 32.0 >2 as.constant 3.0 >=2 as.constant 4.0",
  u"sum(as.constant 1.0 >=1.0 as.constant 2.0, >1.5 as.constant 3.0)",
  u">=0 as.constant 2.0 >=1.0 sum(as.constant 1.0 >= 2.0 as.constant 0.5, >=1.5 as.constant 10.0) >= 3.0 as.zero",
  u"born_mayer 1000.0 0.1 >=3.0 dispersion 32.0",
  u"as.bornmayer 1000.0 0.1 >=3.0 as.buck 0 1.0 32.0",
  u"as.bornmayer 1000.0 0.1 >=3.0 dispersion 32.0",
  u"spline(as.zbl 14 8 >=0.8 exp_spline >=1.4 nested 1000.0 0.1 32.0)",
  u"spline(as.zbl 14 8 >=0.8 buck4_spline 1.0 >=1.4 nested 1000.0 0.1 32.0)",
  u"sum(sum(as.constant 1.0, >1 as.constant 2), sum(>2 as.constant 4)) >=5 sum(as.zero)",
  u"product(as.constant 2.0, as.polynomial 1 2)",
  u"pow(as.constant 2.0, as.constant 3.0)",
  u"trans(as.buck 1000 0.1 32, as.constant 1.0) >=4 as.zero",
  u"sum(as.zero, nosuch 1.0)",
  u"nosuchmod(as.zero)",
  u"as.buck 1 2",
  u"spline(as.zero)",
  u"spline(as.zbl 14 8 >=0.8 nospline >=1.4 as.zero)",
]
for i, expr in enumerate(expressions):
  label = "expr%d" % i
  try:
    potdef = cp._parse_multi_range("A", expr).potential_form_instance
    func = pfb.create_potential_function(potdef)
  except Exception as e:
    emit(label, "BUILD-EXC", type(e).__name__, [c.__name__ for c in type(e).__mro__], str(e), repr(e.args))
    continue
  describe(label, func)

# ... class selection in create_Multi_Range_Potential_Form
class NoD(object):
  def __call__(self, r): return 1.0*r
class D1(NoD):
  def deriv(self, r): return 1.0
class D2(D1):
  def deriv2(self, r): return 0.0
class OnlyD2(NoD):
  def deriv2(self, r): return 0.0
import itertools
kinds = [NoD, D1, D2, OnlyD2]
for n in (0, 1, 2, 3):
  for combo in itertools.product(kinds, repeat = n):
    defns = [Multi_Range_Defn(">=", float(i), k()) for i, k in enumerate(combo)]
    label = ("select", tuple(k.__name__ for k in combo))
    attempt(label, lambda: type(create_Multi_Range_Potential_Form(*defns)).__name__)
    attempt(label + ("kw",), lambda: create_Multi_Range_Potential_Form(*defns, default_value = 2.5).default_value)
    attempt(label + ("badkw",), lambda: create_Multi_Range_Potential_Form(*defns, other = 2.5))
attempt("select-bad", lambda: create_Multi_Range_Potential_Form(1, 2))
attempt("select-bad2", lambda: create_Multi_Range_Potential_Form(Multi_Range_Defn(">", 0, NoD()), object()))

# ... whole models through Configuration and the potable entry point
models = {
"pair_lammps" : u"""[Tabulation]
target : LAMMPS
cutoff : 6.0
nr : 301

[Pair]
A-B = as.zero >=0.5 as.buck 1000.0 0.3 32.0 >2.0 as.constant 3.0 >= 4.0 as.bornmayer 100.0 0.2
B-B = >=0 as.constant 2.0 >=1.0 sum(as.constant 1.0 >= 2.0 as.constant 0.5, >=1.5 as.constant 10.0) >= 3.0 as.zero
A-A = >1.0 as.buck 1000.0 0.3 32.0 >=1.0 as.constant 5.0
C-A = born_mayer 1000.0 0.1 >=3.0 dispersion 32.0
""" + PF,
"pair_dlpoly" : u"""[Tabulation]
target : DL_POLY
cutoff : 5.0
nr : 252

[Pair]
O-O = >=0.0 as.buck 1000.0 0.3 32.0 >1.0 as.polynomial 1.0 2.0 3.0 >=2.5 as.zero
U-O = as.bornmayer 1000.0 0.1 >=3.0 as.buck 0 1.0 32.0
O-U2 = spline(as.zbl 92 8 >=0.8 exp_spline >=1.4 as.buck 1000.0 0.3 32.0)
""",
"pair_gulp" : u"""[Tabulation]
target : GULP
cutoff : 4.0
dr : 0.1

[Pair]
Si-O = >0.1 as.buck 18003.7572 0.2052048149 133.5381 >=2.0 as.constant 0.25 >=2.0 as.constant 0.75
""",
"eam_setfl" : u"""[Tabulation]
target : setfl
nr : 100
dr : 0.05
nrho : 100
drho : 0.05

[Pair]
Al-Al = as.buck 1000.0 0.3 32.0 >= 2.0 as.zero
Cu-Al = sum(as.buck 1000.0 0.3 32.0, >1 as.constant -0.5)

[EAM-Embed]
Al = as.sqrt -1.0 >=3.0 as.polynomial 0.0 -0.5 >5.0 as.constant -2.5
Cu = as.sqrt -2.0

[EAM-Density]
Al = as.zero >=0.5 as.exponential 10.0 -2.0 >4 as.zero
Cu = sum(as.exponential 10.0 -2.0, >1 as.constant 0.1)
""",
"eam_fs" : u"""[Tabulation]
target : setfl_fs
nr : 100
dr : 0.05
nrho : 100
drho : 0.05

[Pair]
Al-Al = as.buck 1000.0 0.3 32.0 >= 2.0 as.zero
Al-Cu = as.zero
Cu-Cu = >1 as.bornmayer 100.0 0.3

[EAM-Embed]
Al = as.sqrt -1.0 >=3.0 as.polynomial 0.0 -0.5
Cu = as.sqrt -2.0

[EAM-Density]
Al->Al = as.zero >=0.5 as.exponential 10.0 -2.0 >4 as.zero
Al->Cu = as.exponential 10.0 -2.0
Cu->Al = sum(as.exponential 10.0 -2.0, >1 as.constant 0.1)
Cu->Cu = as.exponential 1.0 -2.0
""",
"bad_form" : u"""[Pair]
A-A = as.zero >=1 nosuchform 1.0
""",
"bad_modifier" : u"""[Pair]
A-A = nosuchmod(as.buck 1000.0 0.3 32.0)
""",
"bad_embed" : u"""[Tabulation]
target : setfl

[Pair]
Al-Al = as.zero

[EAM-Embed]
Al = as.sqrt -1.0 >=3.0 missing 0.0 -0.5

[EAM-Density]
Al = as.zero
""",
"bad_nparams" : u"""[Pair]
A-A = as.zero >=1 as.buck 1.0
""",
}

def run_potable(argv):
  stdout = io.StringIO()
  stderr = io.StringIO()
  old_argv = sys.argv
  sys.argv = ["potable"] + argv
  code = None
  try:
    with contextlib.redirect_stdout(stdout), contextlib.redirect_stderr(stderr):
      try:
        potable.main()
      except SystemExit as e:
        code = e.code
  finally:
    sys.argv = old_argv
  return code, stdout.getvalue(), stderr.getvalue()

tmpdir = tempfile.mkdtemp()
for label in sorted(models):
  def run():
    tab = Configuration().read(io.StringIO(models[label]))
    sio = io.StringIO()
    tab.write(sio)
    return (hashlib.sha256(sio.getvalue().encode("utf-8")).hexdigest(), len(sio.getvalue()))
  attempt(("model", label), run)

  infile = os.path.join(tmpdir, label + ".aspot")
  outfile = os.path.join(tmpdir, label + ".out")
  with open(infile, "w") as f:
    f.write(models[label])
  code, so, se = run_potable([infile, outfile])
  se = se.replace(tmpdir, "TMP")
  so = so.replace(tmpdir, "TMP")
  if os.path.exists(outfile):
    with open(outfile, "rb") as f:
      data = f.read()
    emit(("potable", label), code, so, se, hashlib.sha256(data).hexdigest(), len(data))
  else:
    emit(("potable", label), code, so, se, None)

blob = "\n".join(out)
if len(sys.argv) > 1:
  with open(sys.argv[1], "w") as f:
    f.write(blob)
print("lines", len(out))
print("sha256", hashlib.sha256(blob.encode("utf-8")).hexdigest())

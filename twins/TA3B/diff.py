"""Edit B: digest of existing behaviour (a) and demonstration of the new feature (b).
Usage (from the worktree root):
  /venv/bin/python -W ignore /tmp/wtpy.py /tmp/wt_r10_3 _twins/diffB.py            # digest of existing behaviour + feature demonstration
  /venv/bin/python -W ignore /tmp/wtpy.py /tmp/wt_r10_3 _twins/diffB.py digest     # only the digest (runs on the clean tree too)
"""
# ---------------------------------------------------------------------------
# (a) digest of EXISTING behaviour - must be identical on clean and edited tree
# ---------------------------------------------------------------------------
import hashlib, io, os, sys, tempfile, contextlib, logging, subprocess

logging.disable(logging.CRITICAL)

from atsim.potentials.config import Configuration, ConfigParser, FilteredConfigParser, ConfigParserOverrideTuple
from atsim.potentials.config._common import ConfigurationException
from atsim.potentials.tools.potable import _parse_command_line, _do_tabulation, _make_config_parser
from atsim.potentials.tools.potable import _query_actions

PAIR = u"""[Variables]
rho : 0.32
unused : 77
[Tabulation]
target : {target}
cutoff : 6.0
nr : {nr}
[Species]
Gd.atomic_number : 64
O.atomic_number : 8
[Potential-Form]
mybuck(r, A, rho, C) = A*exp(-r/rho) - C/r^6
shifted(r_ij, A) = mybuck(r_ij, A, 0.3, 2.0) + as.constant(r_ij, 0.25) + pymath.cosh(r_ij)/100
[Table-Form:tab]
interpolation : cubic_spline
x : 0.0 1.0 2.0 3.5 4.0 6.0
y : 5.0 3.0 1.5 0.5 0.1 0.0
[Pair]
O-O : as.buck 500 ${{rho}} 32.0
Gd-O : spline(as.zbl ${{Species:Gd.atomic_number}} ${{Species:O.atomic_number}} >=0.8 exp_spline >=1.4 as.buck 1000.0 ${{rho}} 0.0)
Gd-Gd : >0 shifted 120.0 >=2.5 sum(as.polynomial 1 -0.2 0.01, product(as.constant 2.0, pow(as.constant 1.1, as.polynomial 0 1))) >4 trans(mybuck 50.0 0.4 1.0, as.constant 0.5)
Cu-O : as.buck4 1000.0 0.3 30.0 1.2 2.1 2.6
Cu-Cu : tab
C-Cu : as.morse 1.5 2.0 0.3
C-C : as.lj 0.01 3.2
"""

EAM = u"""[Tabulation]
target : {target}
cutoff : 5.0
nr : 26
cutoff_rho : 20.0
nrho : 21
[Species]
Xx.atomic_number : 200
Xx.atomic_mass : 300.5
Xx.lattice_type : bcc
[Potential-Form]
dens(r, A) = A*exp(-r)
[Pair]
Cu-Al : as.morse 1.2 2.5 0.4
Al-Al : as.buck 800.0 0.3 10.0
Xx-Cu : as.lj 0.02 2.4
[EAM-Embed]
Cu : as.sqrt -1.5
Al : as.polynomial 0 -0.5 0.01
[EAM-Density]
Al : dens 2.0
Xx : dens 3.0
Cu : dens 4.0
C : dens 0.5
Ca : dens 0.25
"""

FS = u"""[Tabulation]
target : {target}
cutoff : 5.0
nr : 26
cutoff_rho : 20.0
nrho : 21
[Potential-Form]
dens(r, A) = A*exp(-r)
[Pair]
Fe-Al : as.morse 1.2 2.5 0.4
Fe-Fe : as.buck 800.0 0.3 10.0
[EAM-Embed]
Fe : as.sqrt -1.5
Al : as.polynomial 0 -0.5 0.01
Cr : as.sqrt -0.7
[EAM-Density]
Al->Fe : dens 2.0
Fe->Al : dens 3.0
Fe->Fe : dens 4.0
Cr->Fe : dens 5.0
Al->Cr : dens 6.0
"""

ADP = EAM.replace("Xx : dens 3.0\n", "").replace("Xx-Cu : as.lj 0.02 2.4\n", "").replace("C : dens 0.5\nCa : dens 0.25\n", "") + u"""[EAM-ADP-Dipole]
Al-Cu : as.buck 1.0 0.5 0.1
[EAM-ADP-Quadrupole]
Cu-Cu : as.exponential 0.2 2
"""

def _write(tab):
  if "excel" in type(tab).__name__.lower():
    return b""
  sio = io.StringIO()
  tab.write(sio)
  return sio.getvalue().encode("utf-8")

def _tabulate(text, overrides = [], additional = [], include = None, exclude = None):
  cp = ConfigParser(io.StringIO(text), overrides = overrides, additional = additional)
  if include is not None:
    cp = FilteredConfigParser(cp, include = include)
  elif exclude is not None:
    cp = FilteredConfigParser(cp, exclude = exclude)
  return _write(Configuration().read_from_parser(cp))

def _outcome(f, *args, **kwargs):
  try:
    v = f(*args, **kwargs)
  except ConfigurationException as e:
    return ("CFGERR:%s:%s" % (type(e).__name__, e)).encode("utf-8")
  except Exception as e:
    return ("OTHERERR:%s:%s" % (type(e).__name__, e)).encode("utf-8")
  if isinstance(v, bytes):
    return v
  return repr(v).encode("utf-8")

def _potable(cfgtext, *cli):
  """Run the potable command line in-process, returns (exit status, stdout, stderr, output file bytes)"""
  d = tempfile.mkdtemp()
  cfgname = os.path.join(d, "in.aspot")
  outname = os.path.join(d, "out.tab")
  with open(cfgname, "w") as f:
    f.write(cfgtext)
  so, se = io.StringIO(), io.StringIO()
  status = None
  with contextlib.redirect_stdout(so), contextlib.redirect_stderr(se):
    try:
      p, args = _parse_command_line([cfgname, outname] + list(cli))
      try:
        _do_tabulation(p, args)
      except ConfigurationException as e:
        p.error("configuration error - {}".format(e))
      finally:
        args.config_file.close()
    except SystemExit as e:
      status = e.code
  out = b""
  if os.path.exists(outname):
    with open(outname, "rb") as f:
      out = f.read()
  err = se.getvalue().replace(d, "TMP").replace(os.path.basename(sys.argv[0]), "PROG")
  return repr((status, so.getvalue(), err[-300:])).encode("utf-8") + out

def existing_behaviour_items():
  items = []
  def add(label, data):
    items.append((label, hashlib.sha256(data).hexdigest()[:16], len(data)))

  OT = ConfigParserOverrideTuple
  for target, nr in [("LAMMPS", 61), ("DLPOLY", 64), ("DL_POLY", 64), ("GULP", 31), ("DLPOLY", 61), ("LAMMPS", 2), ("nonesuch", 10)]:
    add("pair/%s/%d" % (target, nr), _outcome(_tabulate, PAIR.format(target = target, nr = nr)))
  pair = PAIR.format(target = "LAMMPS", nr = 31)
  for kw in [dict(include = ["O", "Gd"]), dict(include = ["C"]), dict(include = ["Cu", "C", "O"]), dict(include = []),
             dict(exclude = ["Cu"]), dict(exclude = ["C"]), dict(exclude = []), dict(exclude = ["Zz", "O"]), dict(include = ["Zz"]),
             dict(include = ("O", "Gd")), dict(exclude = set(["Gd"]))]:
    add("pair/filter/%r" % sorted(kw.items()), _outcome(_tabulate, pair, **kw))
  add("pair/override", _outcome(_tabulate, pair, overrides = [OT("Pair", "O - O", "as.buck 1.0 0.2 3.0"), OT("Pair", "C-C", None), OT("Variables", "rho", "0.4")]))
  add("pair/add", _outcome(_tabulate, pair, additional = [OT("Pair", "Zr-O", "as.bornmayer 100.0 0.3"), OT("Variables", "newvar", "3")]))
  add("pair/add-dup", _outcome(_tabulate, pair, additional = [OT("Pair", "O-O", "as.bornmayer 100.0 0.3")]))
  add("pair/add-dup-rev", _outcome(_tabulate, pair, additional = [OT("Pair", "O-Gd", "as.bornmayer 100.0 0.3")]))
  add("pair/override-missing", _outcome(_tabulate, pair, overrides = [OT("Pair", "O-Zr", "as.zero")]))
  add("pair/override-missing-var", _outcome(_tabulate, pair, overrides = [OT("Variables", "pi", "3")]))
  add("pair/add-var-pi", _outcome(_tabulate, pair, additional = [OT("Variables", "pi", "3")]))

  for target in ["setfl", "lammps_eam_alloy", "DL_POLY_EAM", "excel_eam"]:
    add("eam/%s" % target, _outcome(_tabulate, EAM.format(target = target)))
  eam = EAM.format(target = "setfl")
  for kw in [dict(include = ["Al", "Cu"]), dict(include = ["C"]), dict(exclude = ["C"]), dict(exclude = ["Xx", "Ca"]), dict(include = ["Cu", "Ca", "C"]), dict(include = [])]:
    add("eam/filter/%r" % sorted(kw.items()), _outcome(_tabulate, eam, **kw))
    add("eam/filter-tabeam/%r" % sorted(kw.items()), _outcome(_tabulate, EAM.format(target = "DL_POLY_EAM"), **kw))
  for target in ["setfl_fs", "DL_POLY_EAM_fs", "excel_eam_fs", "setfl"]:
    add("fs/%s" % target, _outcome(_tabulate, FS.format(target = target)))
  fs = FS.format(target = "setfl_fs")
  for kw in [dict(include = ["Al", "Fe"]), dict(exclude = ["Cr"]), dict(exclude = ["Fe"]), dict(include = ["Cr", "Fe"])]:
    add("fs/filter/%r" % sorted(kw.items()), _outcome(_tabulate, fs, **kw))
    add("fs/filter-tabeam/%r" % sorted(kw.items()), _outcome(_tabulate, FS.format(target = "DL_POLY_EAM_fs"), **kw))
  add("adp", _outcome(_tabulate, ADP.format(target = "eam_adp")))

  # Malformed inputs: type and text of the error must not change
  bad = [
    ("dup-key", eam.replace("Cu : dens 4.0", "Cu : dens 4.0\nCu : dens 5.0")),
    ("dup-key-ws", eam.replace("Cu : as.sqrt -1.5", "Cu : as.sqrt -1.5\n Cu  : as.sqrt -2.5")),
    ("dup-fs", fs.replace("Fe->Fe : dens 4.0", "Fe->Fe : dens 4.0\nFe -> Fe : dens 4.5")),
    ("bad-fs-key", fs.replace("Fe->Fe : dens 4.0", "Fe->Fe->Al : dens 4.0")),
    ("bad-pair-key", pair.replace("C-C :", "C-C-C :")),
    ("dup-pair-rev", pair.replace("C-C :", "Cu-C : as.zero\nC-C :")),
    ("unknown-form", pair.replace("as.lj 0.01 3.2", "as.nonesuch 0.01 3.2")),
    ("wrong-nargs", pair.replace("as.lj 0.01 3.2", "as.lj 0.01")),
    ("unknown-modifier", pair.replace("as.lj 0.01 3.2", "frobnicate(as.lj 0.01 3.2)")),
    ("unresolved-var", pair.replace("as.lj 0.01 3.2", "as.lj ${nothere} 3.2")),
    ("unresolved-sect-var", pair.replace("as.lj 0.01 3.2", "as.lj ${Species:nothere} 3.2")),
    ("unresolved-Variables-pi", pair.replace("as.lj 0.01 3.2", "as.lj ${Variables:pi} 3.2")),
    ("bad-syntax-var", pair.replace("as.lj 0.01 3.2", "as.lj $x 3.2")),
    ("not-ini", "hello world\n"),
    ("no-pair", "[Tabulation]\ntarget : LAMMPS\n"),
    ("bad-nr", pair.replace("nr : 31", "nr : abc")),
    ("all-three", pair.replace("nr : 31", "nr : 31\ndr : 0.2")),
    ("missing-mass", eam.replace("Xx.atomic_mass : 300.5\n", "")),
    ("eam-no-density", eam.split("[EAM-Density]")[0]),
    ("bad-table", pair.replace("y : 5.0 3.0", "y : 5.0 abc")),
    ("bad-species-key", eam.replace("Xx.lattice_type : bcc", "Xxlattice_type : bcc")),
  ]
  for label, text in bad:
    add("bad/" + label, _outcome(_tabulate, text))

  # Query actions and raw parser views
  for label, text in [("pair", pair), ("eam", eam), ("fs", fs), ("adp", ADP.format(target = "eam_adp"))]:
    cp = ConfigParser(io.StringIO(text))
    add("list/" + label, repr(_query_actions._list_items(cp)).encode("utf-8"))
    add("sections/" + label, repr((sorted(cp.parsed_sections), cp.orphan_sections, cp.species, cp.tabulation)).encode("utf-8"))
    for attr in ["pair", "eam_embed", "eam_density", "eam_density_fs", "potential_form", "table_form"]:
      add("parsed/%s/%s" % (label, attr), _outcome(lambda: repr(getattr(cp, attr)).encode("utf-8")))
    raw = cp.raw_config_parser
    add("raw/" + label, repr([(s, raw.options(s), [raw.get(s, o) for o in raw.options(s)]) for s in raw.sections()] + [raw.options("Variables"), raw.has_option("Variables", "pi"), raw.has_option("Pair", "rho"), raw.get("Pair", "pi", fallback = "FB")]).encode("utf-8"))

  # Several views of one parser
  cp = ConfigParser(io.StringIO(eam))
  v1 = FilteredConfigParser(cp, include = ["Al", "Cu"])
  v2 = FilteredConfigParser(cp, exclude = ["Al"])
  add("views", repr(([p.species for p in v1.eam_density], [p.species for p in v2.eam_density], [p.species for p in v1.pair], [p.species for p in v2.eam_embed], [p.species for p in v1.eam_embed])).encode("utf-8"))
  add("both-args", _outcome(lambda: FilteredConfigParser(cp, include = ["Al"], exclude = ["Cu"])))

  # potable command line
  add("cli/plain", _potable(pair))
  add("cli/include", _potable(pair, "--include-species", "O", "Gd"))
  add("cli/include-none", _potable(pair, "--include-species"))
  add("cli/exclude", _potable(eam, "--exclude-species", "C", "Ca"))
  add("cli/exclude-fs", _potable(fs, "--exclude-species", "Cr"))
  add("cli/both", _potable(pair, "--include-species", "O", "--exclude-species", "Gd"))
  add("cli/list", _potable(eam, "--list-items"))
  add("cli/list-labels", _potable(fs, "--list-item-labels", "--exclude-species", "Cr"))
  add("cli/item-value", _potable(pair, "--item-value", "Pair:O-O"))
  add("cli/item-value-var", _potable(pair, "--item-value", "Variables:rho"))
  add("cli/item-value-missing", _potable(pair, "--item-value", "Variables:pi"))
  add("cli/override", _potable(pair, "-e", "Tabulation:nr=21", "Pair:C - C=as.zero", "-r", "Pair:Cu-Cu", "-a", "Pair:Zr-Zr=as.lj 0.1 2.0"))
  add("cli/override-bad", _potable(pair, "-e", "Tabulation:nope=21"))
  add("cli/add-dup", _potable(eam, "-a", "EAM-Embed:Cu=as.zero"))
  add("cli/cfgerr", _potable(pair.replace("as.lj 0.01 3.2", "as.lj 0.01")))
  return items

def existing_behaviour_digest():
  items = existing_behaviour_items()
  h = hashlib.sha256()
  for label, digest, n in items:
    h.update(("%s %s %d\n" % (label, digest, n)).encode("utf-8"))
  return h.hexdigest(), items

# ---------------------------------------------------------------------------
# (b) the new feature: comma separated species lists as keys of [EAM-Embed] / [EAM-Density]
# ---------------------------------------------------------------------------
EAM_LONG = u"""[Tabulation]
target : {target}
cutoff : 5.0
nr : 26
cutoff_rho : 20.0
nrho : 21
[Potential-Form]
dens(r, A) = A*exp(-r)
emb(rho, A) = -A*sqrt(rho) + rho^2/100
[Pair]
Cu-Al : as.morse 1.2 2.5 0.4
Ni-Ni : as.buck 800.0 0.3 10.0
[EAM-Embed]
Cu : emb 1.5
Al : emb 1.5
Ag : as.polynomial 0 -0.5 0.01
Ni : emb 1.5
[EAM-Density]
Al : sum(dens 2.0, >=1.5 as.constant 0.1)
Cu : dens 4.0
Ni : sum(dens 2.0, >=1.5 as.constant 0.1)
Ag : sum(dens 2.0, >=1.5 as.constant 0.1)
Au : dens 4.0
"""
EAM_LIST = EAM_LONG.replace("Cu : emb 1.5\nAl : emb 1.5\n", "Cu, Al : emb 1.5\n").replace("Ni : emb 1.5\n", "Ni  = emb 1.5\n") \
  .replace("Al : sum(dens 2.0, >=1.5 as.constant 0.1)\nCu : dens 4.0\nNi : sum(dens 2.0, >=1.5 as.constant 0.1)\nAg : sum(dens 2.0, >=1.5 as.constant 0.1)\nAu : dens 4.0\n",
           "Al : sum(dens 2.0,\n    >=1.5 as.constant 0.1)\nCu ,\tAu: dens 4.0\nNi,Ag = sum(dens 2.0, >=1.5 as.constant 0.1)\n")

FS_LONG = u"""[Tabulation]
target : {target}
cutoff : 5.0
nr : 26
cutoff_rho : 20.0
nrho : 21
[Potential-Form]
dens(r, A) = A*exp(-r)
[Pair]
Fe-Al : as.morse 1.2 2.5 0.4
[EAM-Embed]
Fe : as.sqrt -1.5
Al : as.sqrt -1.5
Cr : as.sqrt -0.7
[EAM-Density]
Al->Fe : dens 2.0
Fe->Al : dens 3.0
Fe->Fe : dens 4.0
Cr->Fe : dens 3.0
Al->Cr : dens 2.0
Cr->Cr : dens 3.0
"""
FS_LIST = FS_LONG.replace("Fe : as.sqrt -1.5\nAl : as.sqrt -1.5\n", "Fe, Al : as.sqrt -1.5\n") \
  .replace("Al->Fe : dens 2.0\nFe->Al : dens 3.0\nFe->Fe : dens 4.0\nCr->Fe : dens 3.0\nAl->Cr : dens 2.0\nCr->Cr : dens 3.0\n",
           "Al->Fe : dens 2.0\nFe->Al, Cr -> Fe ,Cr->Cr : dens 3.0\nFe->Fe : dens 4.0\nAl->Cr : dens 2.0\n")
# same model, the listed entries placed where the order of the first/central species is unchanged
FS_LONG2 = FS_LONG.replace("Fe->Al : dens 3.0\nFe->Fe : dens 4.0\nCr->Fe : dens 3.0\nAl->Cr : dens 2.0\nCr->Cr : dens 3.0\n",
                           "Fe->Al : dens 3.0\nCr->Fe : dens 3.0\nCr->Cr : dens 3.0\nFe->Fe : dens 4.0\nAl->Cr : dens 2.0\n")

def feature_demo():
  ok = True
  def check(label, cond):
    nonlocal ok
    print("  %-86s %s" % (label, "ok" if cond else "FAILED"))
    ok = ok and cond
  h = hashlib.sha256()
  OT = ConfigParserOverrideTuple

  print("list keys stand for one entry per species (C03/C04/C05/C19: same bytes as the long-hand file, every target)")
  for target in ["setfl", "DL_POLY_EAM"]:
    # long hand file with entries in the order the lists expand to
    long_text = EAM_LONG.format(target = target).replace("Cu : dens 4.0\nNi : sum(dens 2.0, >=1.5 as.constant 0.1)\nAg : sum(dens 2.0, >=1.5 as.constant 0.1)\nAu : dens 4.0\n", "Cu : dens 4.0\nAu : dens 4.0\nNi : sum(dens 2.0, >=1.5 as.constant 0.1)\nAg : sum(dens 2.0, >=1.5 as.constant 0.1)\n")
    a = _outcome(_tabulate, EAM_LIST.format(target = target))
    b = _outcome(_tabulate, long_text)
    h.update(a)
    check("EAM %s: list file == long-hand file (%d bytes)" % (target, len(a)), a == b and not a.startswith((b"CFGERR", b"OTHERERR")))
  for target in ["setfl_fs", "DL_POLY_EAM_fs"]:
    a = _outcome(_tabulate, FS_LIST.format(target = target))
    b = _outcome(_tabulate, FS_LONG2.format(target = target))
    c = _outcome(_tabulate, FS_LONG.format(target = target))
    h.update(a)
    check("Finnis-Sinclair %s: list file == long-hand file (%d bytes)" % (target, len(a)), a == b and a == c and not a.startswith((b"CFGERR", b"OTHERERR")))

  print("expansion keeps the listed order (element order of the setfl header follows [EAM-Embed])")
  cp = ConfigParser(io.StringIO(EAM_LIST.format(target = "setfl")))
  check("eam_embed species %r" % [t.species for t in cp.eam_embed], [t.species for t in cp.eam_embed] == ["Cu", "Al", "Ag", "Ni"])
  check("eam_density species %r" % [t.species for t in cp.eam_density], [t.species for t in cp.eam_density] == ["Al", "Cu", "Au", "Ni", "Ag"])
  cpl = ConfigParser(io.StringIO(EAM_LONG.format(target = "setfl")))
  check("expanded tuples equal the long-hand tuples", sorted(map(repr, cp.eam_density)) == sorted(map(repr, cpl.eam_density)) and list(map(repr, cp.eam_embed)) == list(map(repr, cpl.eam_embed)))
  cpf = ConfigParser(io.StringIO(FS_LIST.format(target = "setfl_fs")))
  check("eam_density_fs species %r" % [tuple(t.species) for t in cpf.eam_density_fs][:4], [tuple(t.species) for t in cpf.eam_density_fs] == [("Al","Fe"),("Fe","Al"),("Cr","Fe"),("Cr","Cr"),("Fe","Fe"),("Al","Cr")])
  check("parsed_sections still detects Finnis-Sinclair", "eam_density_fs" in cpf.parsed_sections and "eam_density" in cp.parsed_sections)
  tab = Configuration().read(io.StringIO(EAM_LIST.format(target = "setfl")))
  pots = dict((p.species, p) for p in tab.eam_potentials)
  check("species of one list get separate function objects", pots["Cu"].embeddingFunction is not pots["Al"].embeddingFunction and pots["Cu"].embeddingFunction(2.0) == pots["Al"].embeddingFunction(2.0))

  print("C20/C16: a species defined twice is a ConfigParserDuplicateEntryException, like a duplicated key")
  base = EAM_LIST.format(target = "setfl")
  ref = _outcome(_tabulate, base.replace("Ag : as.polynomial 0 -0.5 0.01", "Ag : as.polynomial 0 -0.5 0.01\nAg : as.zero"))
  check("reference, plain duplicated key: %s" % ref[:48].decode(), ref.startswith(b"CFGERR:ConfigParserDuplicateEntryException"))
  dups = [
    ("list and own line (embed)", base.replace("Ag : as.polynomial 0 -0.5 0.01", "Ag : as.polynomial 0 -0.5 0.01\nAl : as.zero")),
    ("own line then list (embed)", base.replace("Cu, Al : emb 1.5", "Al : as.zero\nCu, Al : emb 1.5")),
    ("two lists (embed)", base.replace("Ag : as.polynomial 0 -0.5 0.01", "Ag, Cu : as.polynomial 0 -0.5 0.01")),
    ("twice in one list (embed)", base.replace("Cu, Al : emb 1.5", "Cu, Al, Cu : emb 1.5")),
    ("list and own line (density)", base.replace("Ni,Ag =", "Au : as.zero\nNi,Ag =")),
    ("two lists (density)", base.replace("Ni,Ag =", "Ni,Ag, Au =")),
    ("two lists, whitespace variants (density)", base.replace("Ni,Ag =", "Ni,Ag,\tA u =")),
    ("twice in one list (density)", base.replace("Ni,Ag =", "Ni,Ag,Ni =")),
    ("FS two lists", FS_LIST.format(target = "setfl_fs").replace("Al->Cr : dens 2.0", "Al->Cr, Cr->Fe : dens 2.0")),
    ("FS list and own line, whitespace variant", FS_LIST.format(target = "setfl_fs").replace("Al->Cr : dens 2.0", "Cr -> Cr : dens 2.0")),
    ("FS list embed", FS_LIST.format(target = "setfl_fs").replace("Cr : as.sqrt -0.7", "Cr, Fe : as.sqrt -0.7")),
  ]
  for label, text in dups:
    r = _outcome(lambda: ConfigParser(io.StringIO(text)))
    r2 = _outcome(_tabulate, text)
    check("%s: %s" % (label, r[:98].decode()), r.startswith(b"CFGERR:ConfigParserDuplicateEntryException") and r == r2)
  r = _outcome(_tabulate, base, additional = [OT("EAM-Embed", "Al", "as.zero")])
  check("--add-item of a species that a list defines: %s" % r[:60].decode(), r.startswith(b"CFGERR:ConfigParserDuplicateEntryException"))
  r = _outcome(_tabulate, base, additional = [OT("EAM-Density", "Zn, Ag", "as.zero")])
  check("--add-item of a list naming a defined species: %s" % r[:60].decode(), r.startswith(b"CFGERR:ConfigParserDuplicateEntryException"))
  r = _outcome(_tabulate, base, additional = [OT("EAM-Embed", "Cu , Al", "as.zero")])
  check("--add-item of an existing list key: %s" % r[:60].decode(), r.startswith(b"CFGERR:ConfigOverrideDuplicateException"))
  r = _outcome(_tabulate, base, overrides = [OT("EAM-Embed", "Al", "as.zero")])
  check("--override-item of a key that is not in the file: %s" % r[:40].decode(), r.startswith(b"CFGERR:ConfigOverrideException"))

  print("C16: malformed lists are configuration errors")
  for label, text in [
      ("trailing comma", base.replace("Cu, Al : emb 1.5", "Cu, Al, : emb 1.5")),
      ("leading comma", base.replace("Cu, Al : emb 1.5", ",Cu, Al : emb 1.5")),
      ("double comma (density)", base.replace("Ni,Ag =", "Ni,,Ag =")),
      ("only commas", base.replace("Ni,Ag =", ",, =")),
      ("FS empty item", FS_LIST.format(target = "setfl_fs").replace("Fe->Al, Cr -> Fe", "Fe->Al, , Cr -> Fe")),
      ("FS item that is not A->B", FS_LIST.format(target = "setfl_fs").replace("Fe->Al, Cr -> Fe", "Fe->Al, Cr")),
      ("FS item with two arrows", FS_LIST.format(target = "setfl_fs").replace("Fe->Al, Cr -> Fe", "Fe->Al->Cr, Cr->Fe")),
      ("list in [Pair] is not a species pair", base.replace("Cu-Al :", "Cu-Al, Ni-Al :")),
      ("unknown species from list has no reference data", base.replace("Cu, Al : emb 1.5", "Cu, Al, Qq : emb 1.5")),
      ("bad potential form for a list", base.replace("Cu, Al : emb 1.5", "Cu, Al : emb")),
    ]:
    r = _outcome(_tabulate, text)
    check("%s: %s" % (label, r[:70].decode()), r.startswith(b"CFGERR:"))

  print("C14: overriding / removing the list entry == editing the file by hand; listing shows the entry once")
  a = _outcome(_tabulate, base, overrides = [OT("EAM-Embed", "Cu , Al", "emb 2.5"), OT("EAM-Density", "Ni, Ag", None)])
  b = _outcome(_tabulate, base.replace("Cu, Al : emb 1.5", "Cu, Al : emb 2.5").replace("Ni,Ag = sum(dens 2.0, >=1.5 as.constant 0.1)\n", ""))
  c = _outcome(_tabulate, EAM_LONG.format(target = "setfl").replace("Cu : emb 1.5\nAl : emb 1.5", "Cu : emb 2.5\nAl : emb 2.5").replace("Ni : sum(dens 2.0, >=1.5 as.constant 0.1)\nAg : sum(dens 2.0, >=1.5 as.constant 0.1)\n", ""))
  h.update(a)
  check("override+remove through ConfigParser == edited file == long-hand file", a == b and a == c and not a.startswith(b"CFGERR"))
  items = _query_actions._list_items(ConfigParser(io.StringIO(base)))
  keys = [k for k, v in items]
  check("--list-items: %r" % [k for k in keys if k.startswith("EAM")], len(keys) == len(set(keys)) and "EAM-Embed:Cu,Al" in keys and "EAM-Density:Ni,Ag" in keys)
  check("--item-value EAM-Embed:Cu, Al", _query_actions._item_value(ConfigParser(io.StringIO(base)), "EAM-Embed:Cu, Al") == "emb 1.5")

  print("C13: species filters act on the expanded entries (== deleting the species from the lists by hand)")
  for kw, edited in [
      (dict(include = ["Cu", "Al", "Au"]), base.replace("Ag : as.polynomial 0 -0.5 0.01\n", "").replace("Ni  = emb 1.5\n", "").replace("Ni,Ag = sum(dens 2.0, >=1.5 as.constant 0.1)\n", "").replace("Ni-Ni : as.buck 800.0 0.3 10.0\n", "")),
      (dict(exclude = ["Al", "Ag"]), base.replace("Cu, Al : emb 1.5", "Cu : emb 1.5").replace("Ag : as.polynomial 0 -0.5 0.01\n", "").replace("Al : sum(dens 2.0,\n    >=1.5 as.constant 0.1)\n", "").replace("Ni,Ag =", "Ni =").replace("Cu-Al : as.morse 1.2 2.5 0.4\n", "")),
      (dict(exclude = ["Cu"]), base.replace("Cu, Al : emb 1.5", "Al : emb 1.5").replace("Cu ,\tAu: dens 4.0", "Au: dens 4.0").replace("Cu-Al : as.morse 1.2 2.5 0.4\n", "")),
    ]:
    a = _outcome(_tabulate, base, **kw)
    b = _outcome(_tabulate, edited)
    h.update(a)
    check("filter %r == hand-edited lists" % sorted(kw.items()), a == b and not a.startswith((b"CFGERR", b"OTHERERR")))
  fsb = FS_LIST.format(target = "setfl_fs")
  a = _outcome(_tabulate, fsb, exclude = ["Cr"])
  b = _outcome(_tabulate, fsb.replace("Fe->Al, Cr -> Fe ,Cr->Cr : dens 3.0", "Fe->Al : dens 3.0").replace("Al->Cr : dens 2.0\n", "").replace("Cr : as.sqrt -0.7\n", ""))
  h.update(a)
  check("Finnis-Sinclair exclude Cr == hand-edited lists", a == b and not a.startswith((b"CFGERR", b"OTHERERR")))
  a = _potable(base, "--exclude-species", "Cu")
  b = _potable(base.replace("Cu, Al : emb 1.5", "Al : emb 1.5").replace("Cu ,\tAu: dens 4.0", "Au: dens 4.0").replace("Cu-Al : as.morse 1.2 2.5 0.4\n", ""))
  check("potable --exclude-species Cu == hand-edited file", a == b and a.startswith(b"(0,"))
  a = _potable(base.replace("Ni,Ag =", "Ni,Ag,Cu ="))
  check("potable reports the duplicate as 'configuration error': %s" % a[-110:-5].decode().strip(), a.startswith(b"(2,") and b"configuration error - Multiple entries for 'Cu' found in [EAM-Density]" in a)

  print("C12: determinism and purity")
  a = [_outcome(_tabulate, base) for i in range(2)]
  check("same bytes when built twice", a[0] == a[1])
  tab = Configuration().read(io.StringIO(base))
  check("same bytes when one tabulation is written twice", _write(tab) == _write(tab) == a[0])
  h.update(a[0])
  print("  feature output digest:", h.hexdigest())
  return ok, h.hexdigest()

if __name__ == "__main__":
  if len(sys.argv) > 1 and sys.argv[1] == "feature-digest":
    with contextlib.redirect_stdout(io.StringIO()):
      ok, h = feature_demo()
    print(h if ok else "FAILED")
    sys.exit(0)
  digest, items = existing_behaviour_digest()
  if not (len(sys.argv) > 1 and sys.argv[1] == "digest"):
    for item in items:
      print("%-60s %s %6d" % item)
  print("EXISTING-BEHAVIOUR DIGEST:", digest)
  if len(sys.argv) > 1 and sys.argv[1] == "digest":
    sys.exit(0)
  ok, h = feature_demo()
  # hash seed independence: feature output digest in fresh processes
  seeds = []
  for seed in ["0", "1", "12345"]:
    env = dict(os.environ, PYTHONHASHSEED = seed)
    o = subprocess.check_output([sys.executable, "-W", "ignore", "/tmp/wtpy.py", os.getcwd(), os.path.join("_twins", os.path.basename(__file__)), "feature-digest"], env = env)
    seeds.append(o.decode().strip().splitlines()[-1])
  print("  PYTHONHASHSEED 0/1/12345 feature digests: %s" % seeds)
  ok = ok and all(s == h for s in seeds)
  print("FEATURE CHECKS:", "ALL OK" if ok else "SOME FAILED")
  sys.exit(0 if ok else 1)

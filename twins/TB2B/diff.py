"""Differential script for twin B: FilteredConfigParser.

For shipped and inline models and many include / exclude sets, records the four
filtered views (pair, eam_embed, eam_density, eam_density_fs), checks them
against (i) an independent set-based oracle and (ii) the views of a
"hand-edited" configuration from which the unwanted lines were removed,
records the attributes that pass straight through the proxy and finally
tabulates filtered models through the potable command line.
Prints one sha256 digest of everything observed."""
import glob
import hashlib
import io
import itertools
import os
import sys
import tempfile

from atsim.potentials.config import ConfigParser, FilteredConfigParser, ConfigParserOverrideTuple
from atsim.potentials.tools import potable

ROOT = os.path.dirname(os.path.dirname(os.path.abspath(__file__)))
FILTERED_VIEWS = ["pair", "eam_embed", "eam_density", "eam_density_fs"]
SECTION_OF_VIEW = {"pair": u"Pair", "eam_embed": u"EAM-Embed", "eam_density": u"EAM-Density", "eam_density_fs": u"EAM-Density"}
PASS_THROUGH = ["potential_form", "table_form", "species", "tabulation", "parsed_sections", "orphan_sections"]

INLINE = {
"pair_only": u"""
[Tabulation]
target : LAMMPS
cutoff : 6.5
nr : 131

[Pair]
O-O  = as.buck 1633.01 0.327022 3.94879 >=3.0 as.zero
Si - O = >0.1 sum(as.buck 1000.0 0.3 0.0, >=1.0 as.constant 2.0) >=5.0 as.zero
Si-Si: product(as.constant 2.0, as.polynomial 1.0 2.0 3.0)
Mg-O : as.buck 1000.0 0.3 0.0
Si-Mg : as.buck 100.0 0.3 0.0
Mg-Mg : as.zero
""",
"eam_std": u"""
[Tabulation]
target : setfl
nr : 200
dr : 0.02
nrho : 200
drho : 0.02

[Pair]
Al-Al = as.buck 100.0 0.3 1.0
Cu-Al = as.buck 200.0 0.3 2.0
Cu-Cu = as.buck 300.0 0.3 3.0
Ag-Cu = as.buck 300.0 0.3 3.0
Al-Ag = as.buck 350.0 0.3 3.0

[EAM-Embed]
Al = as.sqrt -1.0
Cu  = as.sqrt -2.0
Ag = as.polynomial 0.0 1.0 2.0

[EAM-Density]
Cu = dens 2.0 3.0
Al = dens 1.0 2.0
Ag = >=0 dens 1.0 2.0 >=3.0 as.zero

[Potential-Form]
dens(r, a, b) = a*exp(-b*r)

[Species]
Al.atomic_mass = 26.98
Cu.atomic_number = 29
""",
"eam_fs": u"""
[Tabulation]
target : setfl_fs
nr : 200
dr : 0.02
nrho : 150
drho : 0.02

[Pair]
Al-Al = as.buck 100.0 0.3 1.0
Al-Fe = as.buck 200.0 0.3 2.0
Fe-Fe = as.buck 300.0 0.3 3.0
Ni-Fe = as.buck 310.0 0.3 3.0
Ni-Al = as.buck 320.0 0.3 3.0
Ni-Ni = as.buck 330.0 0.3 3.0

[EAM-Embed]
Al = as.sqrt -1.0
Fe = as.sqrt -2.0
Ni = as.sqrt -3.0

[EAM-Density]
Al->Al = dens 1.0 2.0
Fe -> Al = dens 1.5 2.0
Al->Fe = dens 2.5 2.0
Fe->Fe = >=0.5 dens 3.0 2.0
Ni->Ni = dens 3.5 2.0
Ni->Al = dens 3.6 2.0
Al->Ni = dens 3.7 2.0
Fe->Ni = dens 3.8 2.0
Ni->Fe = dens 3.9 2.0

[Potential-Form]
dens(r, a, b) = a*exp(-b*r)
""",
"adp": u"""
[Tabulation]
target : eam_adp
nr : 150
dr : 0.04
nrho : 150
drho : 0.04

[Pair]
Al-Al = as.buck 100.0 0.3 1.0
Cu-Al = as.buck 200.0 0.3 2.0
Cu-Cu = as.buck 300.0 0.3 3.0

[EAM-Embed]
Al = as.sqrt -1.0
Cu = as.sqrt -2.0

[EAM-Density]
Al = dens 1.0 2.0
Cu = dens 2.0 3.0

[EAM-ADP-Dipole]
Al-Al = as.polynomial 0.0 0.1
Al-Cu = as.polynomial 0.0 0.2
Cu-Cu = as.polynomial 0.0 0.3

[EAM-ADP-Quadrupole]
Al-Al = as.polynomial 0.0 0.01
Cu-Al = as.polynomial 0.0 0.02
Cu-Cu = as.polynomial 0.0 0.03

[Potential-Form]
dens(r, a, b) = a*exp(-b*r)
""",
"odd_labels": u"""
[Pair]
A-AA = as.zero
AA-AA = as.zero
a-A = as.zero
A-A = as.zero

[EAM-Embed]
A = as.zero
AA = as.zero
a = as.zero

[EAM-Density]
AA = as.zero
A = as.zero
""",
"malformed_pair": u"""
[Pair]
A-B = as.buck 1.0 2.0 3.0
B-B = as.buck 1.0 ( 3.0
[EAM-Embed]
A = 1.0 as.sqrt
[EAM-Density]
A = as.zero
A->B->C = as.zero
""",
"no_sections": u"""
[Tabulation]
target : LAMMPS
""",
}

SPECIES_SETS = [
  [], ["Al"], ["Fe"], ["Cu"], ["Ag"], ["Ni"], ["O"], ["Si"], ["Mg", "Si"], ["Al", "Cu"], ["Al", "Fe"], ["Fe", "Ni"],
  ["Al", "Fe", "Ni"], ["Al", "Cu", "Ag"], ["U", "O"], ["Th"], ["Th", "U"], ["A"], ["AA"], ["a", "A"], ["Zz"],
  ("Al", "Al"), "Al", "O",
]

out = []

def emit(*args):
  out.append(" | ".join(str(a) for a in args))

def attempt(thunk):
  try:
    return ("OK", thunk())
  except BaseException as e:
    return ("EXC", type(e).__module__ + "." + type(e).__name__ + ": " + str(e))

def labels_of(view, entry):
  if view in ("pair", "eam_density_fs"):
    a, b = entry.species
    return [a, b]
  return [entry.species]

def oracle_keep(view, entry, species, exclude):
  labels = labels_of(view, entry)
  if exclude:
    return all(not (l in species) for l in labels)
  return all(l in species for l in labels)

def hand_edited(text, view, species, exclude):
  """Views of the configuration after removing, by hand, the unwanted lines of the view's section"""
  cp = ConfigParser(io.StringIO(text))
  section = SECTION_OF_VIEW[view]
  removals = []
  keys = list(cp.raw_config_parser[section])
  for k in keys:
    sep = "-" if view == "pair" else "->"
    if view in ("pair", "eam_density_fs"):
      labels = [t.strip() for t in k.split(sep)]
    else:
      labels = [k.strip()]
    if exclude:
      keep = not any(l in species for l in labels)
    else:
      keep = all(l in species for l in labels)
    if not keep:
      removals.append(ConfigParserOverrideTuple(section, k, None))
  if len(removals) == len(keys):
    return []
  edited = ConfigParser(io.StringIO(text), overrides=removals)
  return getattr(edited, view)

def observe_filtered(label, text, species, exclude):
  kwargs = dict(exclude=species) if exclude else dict(include=species)
  orig = ConfigParser(io.StringIO(text))
  fcp = FilteredConfigParser(orig, **kwargs)
  for view in FILTERED_VIEWS:
    status, value = attempt(lambda: getattr(fcp, view))
    emit(label, view, status, repr(value))
    ustatus, uvalue = attempt(lambda: getattr(orig, view))
    if status == "OK":
      assert ustatus == "OK"
      assert type(value) is list, type(value)
      expect = [e for e in uvalue if oracle_keep(view, e, species, exclude)]
      emit(label, view, "oracle-agrees", value == expect)
      edited = hand_edited(text, view, species, exclude)
      emit(label, view, "hand-edited-agrees", value == edited, len(value))
      # a fresh list is returned every time
      emit(label, view, "fresh", getattr(fcp, view) is not value, getattr(fcp, view) == value)
    else:
      emit(label, view, "unfiltered-status", ustatus, repr(uvalue))
  for attr in PASS_THROUGH:
    emit(label, attr, repr(attempt(lambda: getattr(fcp, attr))), attempt(lambda: getattr(fcp, attr)) == attempt(lambda: getattr(orig, attr)))
  emit(label, "raw-is-same", fcp.raw_config_parser is orig.raw_config_parser, isinstance(fcp, ConfigParser), type(fcp).__name__)
  for section in ["Pair", "EAM-ADP-Dipole", "EAM-Density", "Missing"]:
    emit(label, "parse_pair_like", section, repr(attempt(lambda: fcp.parse_pair_like(section))))
  return fcp

models = {}
for path in sorted(glob.glob(os.path.join(ROOT, "tests", "**", "*.aspot"), recursive=True)):
  with io.open(path, encoding="utf8") as infile:
    models[os.path.relpath(path, ROOT)] = infile.read()
models.update(INLINE)

for name in models:
  for species in SPECIES_SETS:
    for exclude in (True, False):
      label = "{}/{}{!r}".format(name, "exclude=" if exclude else "include=", species)
      if exclude and not species:
        # exclude = [] behaves as no filter
        pass
      observe_filtered(label, models[name], species, exclude)

# Constructor corner cases
text = INLINE["eam_fs"]
orig = ConfigParser(io.StringIO(text))
for label, thunk in [
    ("ctor.none", lambda: FilteredConfigParser(orig)),
    ("ctor.exclude_none_include_empty", lambda: FilteredConfigParser(orig, None, [])),
    ("ctor.exclude_empty_include_empty", lambda: FilteredConfigParser(orig, [], [])),
    ("ctor.exclude_empty_include_some", lambda: FilteredConfigParser(orig, [], ["Al"])),
    ("ctor.positional_exclude", lambda: FilteredConfigParser(orig, ["Al"])),
    ("ctor.both", lambda: FilteredConfigParser(orig, ["Al"], ["Fe"])),
    ("ctor.set_include", lambda: FilteredConfigParser(orig, include=frozenset(["Al", "Ni"]))),
    ("ctor.dict_exclude", lambda: FilteredConfigParser(orig, exclude={"Fe": 1})),
    ("ctor.nested", lambda: FilteredConfigParser(FilteredConfigParser(orig, exclude=["Fe"]), include=["Al", "Fe"])),
    ("ctor.nested2", lambda: FilteredConfigParser(FilteredConfigParser(orig, include=["Fe", "Ni"]), exclude=["Ni"])),
  ]:
  status, fcp = attempt(thunk)
  if status != "OK":
    emit(label, status, fcp)
    continue
  for view in FILTERED_VIEWS:
    emit(label, view, repr(attempt(lambda: getattr(fcp, view))))

# Tabulation of filtered models via the command line
def run_potable(label, text, extra):
  tmpdir = tempfile.mkdtemp()
  cfgname = os.path.join(tmpdir, "in.aspot")
  outname = os.path.join(tmpdir, "out.tab")
  with io.open(cfgname, "w", encoding="utf8") as outfile:
    outfile.write(text)
  stdout, stderr = sys.stdout, sys.stderr
  sys.stdout = io.StringIO()
  sys.stderr = io.StringIO()
  try:
    try:
      p, args = potable._parse_command_line([cfgname, outname] + extra)
      try:
        potable._do_tabulation(p, args)
        status = "RETURNED"
      except potable.ConfigurationException as e:
        status = "CONFIG-ERROR {}: {}".format(type(e).__name__, e)
    except SystemExit as e:
      status = "EXIT {}".format(e.code)
    except BaseException as e:
      status = "EXC {}: {}".format(type(e).__name__, e)
    captured = sys.stdout.getvalue()
  finally:
    sys.stdout, sys.stderr = stdout, stderr
  data = b""
  if os.path.exists(outname):
    with open(outname, "rb") as infile:
      data = infile.read()
  emit("potable." + label, status, len(data), hashlib.sha256(data).hexdigest(), hashlib.sha256(captured.replace(tmpdir, "TMP").encode("utf8")).hexdigest())

CLI = {
  "pair_only": [["O"], ["Si"], ["Mg", "Si"], ["O", "Si"], ["Zz"]],
  "eam_std": [["Al"], ["Cu"], ["Ag", "Al"], ["Al", "Cu"], ["Al", "Cu", "Ag"]],
  "eam_fs": [["Al"], ["Fe"], ["Ni", "Fe"], ["Al", "Fe"], ["Al", "Fe", "Ni"]],
  "adp": [["Al"], ["Cu"], ["Al", "Cu"]],
}
for name in CLI:
  run_potable("{}[nofilter]".format(name), INLINE[name], [])
  for species in CLI[name]:
    for flag in ("--include-species", "--exclude-species"):
      run_potable("{}[{} {}]".format(name, flag, species), INLINE[name], [flag] + species)
      run_potable("{}[{} {} --list-items]".format(name, flag, species), INLINE[name], [flag] + species + ["--list-items"])
  run_potable("{}[--include-species]".format(name), INLINE[name], ["--include-species"])
  run_potable("{}[--exclude-species]".format(name), INLINE[name], ["--exclude-species"])

blob = "\n".join(out)
if "--dump" in sys.argv:
  print(blob)
print("observations:", len(out))
print("oracle disagreements:", sum(1 for l in out if "-agrees | False" in l))
print("digest:", hashlib.sha256(blob.encode("utf8")).hexdigest())

"""Shared helper for diffA.py / diffB.py / diffC.py.

common_digest() exercises a broad sample of EXISTING behaviour of atsim.potentials
through the public API (Configuration / ConfigParser / potable main() / writePotentials /
tabulation classes / spline classes / multi-range forms) and returns a list of
(label, sha1) pairs plus an overall digest.  It must be identical on the clean
and on the edited tree.

Nothing in here depends on any of the twin edits.
"""
import hashlib
import io
import logging
import os
import subprocess
import sys
import tempfile

HERE = os.path.dirname(os.path.abspath(__file__))
WT = os.path.dirname(HERE)


def sha(s):
  if not isinstance(s, bytes):
    s = s.encode("utf-8")
  return hashlib.sha1(s).hexdigest()[:16]

# --------------------------------------------------------------------------------------
# Configuration files
# --------------------------------------------------------------------------------------

PAIR = u"""[Tabulation]
target : {target}
cutoff : 6.0
nr : {nr}

[Variables]
A_OO : 1388.77
unused : 12

[Potential-Form]
bks(r, qi, qj, A, rho, C) = as.coul(r, qi,qj) + as.buck(r, A, rho, C)
mypoly(r, a, b) = a*r^2 + b*if(r>2, 1, 0) + pymath.floor(r)
nested(r, a) = mypoly(r, a, 2*a) + as.constant(r, 1.0)

[Pair]
Si-O = spline(as.zbl 14 8 >=0.8 exp_spline >=1.4 bks 2.4 -1.2 18003.7572 0.2052048149 133.5381)
O-O = as.buck ${{A_OO}} 0.3623 175.0
Si-Si = >0 as.bornmayer 1000 0.3 >=2.0 sum(as.lj 0.1 2.5, as.constant 0.5) >4 as.zero
Mg-O = trans(as.morse 1.5 2.0 0.4, as.constant 0.25)
Mg-Mg = product(as.polynomial 1 2 3, pow(as.exponential 2.0 1.5, as.constant 2))
Al-O = as.buck4 1000 0.3 30 1.2 2.0 2.6
Al-Al = nested 0.5
Ca-O = tf
Ca-Ca : spline(>0 as.buck 1000 0.3 0 >1.0 buck4_spline 1.8 >2.5 as.buck 0 1 30)
Zr - O = as.tang_toennies 100 2.0 10 20 30

[Table-Form:tf]
interpolation: cubic_spline
x : 0.5 1 2 3 4 5 6
y : 10 5 2 1 0.5 0.2 0.1
"""

EAM = u"""[Tabulation]
target : {target}
nr : {nr}
dr : 0.1
nrho : 24
drho : 0.5

[Potential-Form]
buck_morse(r, A, rho, C, D, gamma, r0) = as.buck(r,A,rho,C) + as.morse(r, gamma, r0, D)
density(r, n) = (n/(r+0.5)^8) * 0.5 * (1+erf(20*(r-1.5)))

[EAM-Embed]
Ce  = as.sqrt -0.308
O  = as.sqrt -0.690
Zr = as.polynomial 0 -0.1 0.001

[EAM-Density]
Ce  = density 1556.803
O  = density 106.856
Zr = >0 as.exponential 2.0 1.0 >=3 as.zero

[Pair]
O-O   = as.bornmayer 830.283 0.352856
Ce-Ce = as.bornmayer 18600 0.2664
O-Ce  = as.morse 1.86875 2.35604 0.71925
Zr-O = as.polynomial 1.0 -0.2

[Species]
Zr.lattice_constant = 3.23
Zr.lattice_type = hcp
Ce.atomic_mass = 140.0
"""

EAM_FS = u"""[Tabulation]
target : {target}
nr : {nr}
cutoff : 6.0
nrho : 30
cutoff_rho : 20.0

[Potential-Form]
dens4(r, A, B) : A * (B-r)^4

[EAM-Embed]
Al = as.sqrt -1.0
Fe = as.polynomial 0 -0.5 0.01
Cu = as.sqrt -0.5

[EAM-Density]
Al->Al = >=0 dens4 0.01 5.0 >5.0 as.zero
Fe->Al = >=0 dens4 0.02 4.5 >4.5 as.zero
Fe->Fe = as.polynomial 0.0 2.0 -1.0
Cu->Fe = as.constant 0.25
Al->Cu = as.polynomial 1.0 0.5

[Pair]
Al-Al = as.bornmayer 1000 0.3
Fe-Al = as.morse 1.5 2.5 0.3
Cu-Cu = as.polynomial 3 -1 0.1

[Species]
Fe.lattice_constant = 2.86
Fe.lattice_type = bcc
"""

ADP = u"""[Tabulation]
target : eam_adp
nr : 30
cutoff : 5.0
nrho : 20
cutoff_rho : 10.0

[EAM-Embed]
Al : as.sqrt -1.0
Cu : as.polynomial 0 -0.3 0.02

[EAM-Density]
Al : as.polynomial 1.0 -0.1
Cu : as.polynomial 2.0 -0.2 0.01

[Pair]
Al-Al : as.bornmayer 500 0.3
Cu-Al : as.morse 1.2 2.4 0.2
Cu-Cu : as.bornmayer 800 0.25

[EAM-ADP-Dipole]
Al-Cu : as.polynomial 0.1 0.02
Cu-Cu : as.polynomial 0.3 -0.01

[EAM-ADP-Quadrupole]
Cu-Al : as.polynomial -0.1 0.03
"""

GOOD_CONFIGS = [
  ("pair_LAMMPS", PAIR.format(target="LAMMPS", nr=61)),
  ("pair_DL_POLY", PAIR.format(target="DL_POLY", nr=64)),
  ("pair_DLPOLY", PAIR.format(target="DLPOLY", nr=64)),
  ("pair_GULP", PAIR.format(target="GULP", nr=31)),
  ("pair_excel", PAIR.format(target="excel", nr=13)),
  ("eam_setfl", EAM.format(target="setfl", nr=40)),
  ("eam_lammps_eam_alloy", EAM.format(target="lammps_eam_alloy", nr=40)),
  ("eam_DL_POLY_EAM", EAM.format(target="DL_POLY_EAM", nr=40)),
  ("eam_excel_eam", EAM.format(target="excel_eam", nr=12)),
  ("fs_setfl_fs", EAM_FS.format(target="setfl_fs", nr=40)),
  ("fs_DL_POLY_EAM_fs", EAM_FS.format(target="DL_POLY_EAM_fs", nr=40)),
  ("fs_excel_eam_fs", EAM_FS.format(target="excel_eam_fs", nr=12)),
  ("adp", ADP),
  ("pair_default_grid", PAIR.format(target="LAMMPS", nr=61).replace("cutoff : 6.0\n", "").replace("nr : 61\n", "dr : 0.5\nnr: 9\n")),
  ("pair_cutoff_dr", PAIR.format(target="GULP", nr=61).replace("nr : 61\n", "dr : 0.1\n")),
]


def _mut(text, old, new):
  assert old in text, old
  return text.replace(old, new, 1)

_P = PAIR.format(target="LAMMPS", nr=61)
_E = EAM.format(target="setfl", nr=40)
_F = EAM_FS.format(target="setfl_fs", nr=40)

BAD_CONFIGS = [
  ("unknown_target", _mut(_P, "target : LAMMPS", "target : LAMMPZ")),
  ("unknown_form", _mut(_P, "as.buck ${A_OO}", "as.bucky ${A_OO}")),
  ("unknown_modifier", _mut(_P, "trans(as.morse", "tranz(as.morse")),
  ("too_few_params", _mut(_P, "as.buck ${A_OO} 0.3623 175.0", "as.buck ${A_OO} 0.3623")),
  ("too_many_params", _mut(_P, "as.bornmayer 1000 0.3", "as.bornmayer 1000 0.3 5 6")),
  ("bad_pair_key", _mut(_P, "O-O = ", "O-O-O = ")),
  ("dup_pair_reversed", _mut(_P, "Mg-Mg = ", "O-Si = as.zero\nMg-Mg = ")),
  ("dup_pair_ws", _mut(_P, "Mg-Mg = ", "Zr-O = as.zero\nMg-Mg = ")),
  ("all_three", _mut(_P, "nr : 61", "nr : 61\ndr : 0.1")),
  ("dr_alone", _mut(_mut(_P, "nr : 61\n", "dr : 0.1\n"), "cutoff : 6.0\n", "")),
  ("nr_zero", _mut(_P, "nr : 61", "nr : 0")),
  ("nr_one", _mut(_P, "nr : 61", "nr : 1")),
  ("nr_two_lammps", _mut(_P, "nr : 61", "nr : 2")),
  ("nr_text", _mut(_P, "nr : 61", "nr : many")),
  ("cutoff_negative", _mut(_P, "cutoff : 6.0", "cutoff : -6.0")),
  ("dlpoly_not_div4", PAIR.format(target="DL_POLY", nr=61)),
  ("dlpoly_four", PAIR.format(target="DL_POLY", nr=4)),
  ("spline_two_parts", _mut(_P, ">=0.8 exp_spline >=1.4 bks 2.4 -1.2 18003.7572 0.2052048149 133.5381", ">=0.8 exp_spline")),
  ("spline_one_part", _mut(_P, "spline(as.zbl 14 8 >=0.8 exp_spline >=1.4 bks 2.4 -1.2 18003.7572 0.2052048149 133.5381)", "spline(as.zbl 14 8)")),
  ("exp_spline_params", _mut(_P, ">=0.8 exp_spline", ">=0.8 exp_spline 1.0")),
  ("spline_wrong_type", _mut(_P, ">=0.8 exp_spline", ">=0.8 as.zero")),
  ("spline_bad_order", _mut(_P, ">=0.8 exp_spline >=1.4", ">=1.8 exp_spline >=1.4")),
  ("buck4_spline_no_rmin", _mut(_P, "buck4_spline 1.8", "buck4_spline")),
  ("buck4_spline_rmin_out", _mut(_P, "buck4_spline 1.8", "buck4_spline 2.8")),
  ("trans_non_constant", _mut(_P, "as.constant 0.25)", "as.zero)")),
  ("trans_three_args", _mut(_P, "as.constant 0.25)", "as.constant 0.25, as.zero)")),
  ("table_uneven", _mut(_P, "y : 10 5 2 1 0.5 0.2 0.1", "y : 10 5 2 1 0.5 0.2")),
  ("table_text", _mut(_P, "y : 10 5 2 1 0.5 0.2 0.1", "y : 10 5 2 1 0.5 0.2 zero")),
  ("table_unknown_interp", _mut(_P, "interpolation: cubic_spline", "interpolation: quintic")),
  ("table_too_few", _mut(_mut(_P, "x : 0.5 1 2 3 4 5 6", "x : 0.5 1"), "y : 10 5 2 1 0.5 0.2 0.1", "y : 10 5")),
  ("table_not_increasing", _mut(_P, "x : 0.5 1 2 3 4 5 6", "x : 0.5 1 2 2 4 5 6")),
  ("table_dup", _P + u"\n[Table-Form: tf]\nxy : 1 2 3 4 5 6 7 8\n"),
  ("table_named_like_custom", _P + u"\n[Table-Form:bks]\nxy : 1 2 3 4 5 6 7 8 9 10\n"),
  ("table_named_like_builtin", _P + u"\n[Table-Form:as.buck]\nxy : 1 2 3 4 5 6 7 8 9 10\n"),
  ("unresolved_variable", _mut(_P, "${A_OO}", "${A_XX}")),
  ("not_ini", u"this is not\nan ini file at all\n"),
  ("dup_potential_form", _mut(_P, "mypoly(r, a, b) =", "bks(r,qi,qj,A,rho,C) = 1.0\nmypoly(r, a, b) =")),
  ("bad_formula", _mut(_P, "a*r^2 + b*if(r>2, 1, 0)", "a*r^^2 + b*if(r>2, 1, 0)")),
  ("bad_signature", _mut(_P, "mypoly(r, a, b) =", "mypoly r, a, b =")),
  ("custom_wrong_args", _mut(_P, "nested 0.5", "nested 0.5 1.0")),
  ("missing_pair", _P.split("[Pair]")[0]),
  ("non_numeric_param", _mut(_P, "as.bornmayer 1000 0.3", "as.bornmayer 1000 abc")),
  ("eam_missing_embed", _E.replace("[EAM-Embed]", "[EAM-Embedd]")),
  ("eam_missing_density", _E.replace("[EAM-Density]", "[EAM-Densityy]")),
  ("eam_unknown_species", _E.replace("Zr", "Qq")),
  ("eam_species_bad_key", _mut(_E, "Zr.lattice_constant = 3.23", "Zr_lattice_constant = 3.23")),
  ("eam_species_bad_value", _mut(_E, "Ce.atomic_mass = 140.0", "Ce.atomic_mass = heavy")),
  ("eam_nrho_zero", _mut(_E, "nrho : 24", "nrho : 0")),
  ("eam_drho_negative", _mut(_E, "drho : 0.5", "drho : -0.5")),
  ("eam_bad_density_form", _mut(_E, "Ce  = density 1556.803", "Ce  = densityy 1556.803")),
  ("fs_dup_density", _mut(_F, "Fe->Fe =", "Fe -> Al = as.zero\nFe->Fe =")),
  ("fs_bad_key", _mut(_F, "Cu->Fe =", "Cu->Fe->Al =")),
  ("fs_plain_key", _mut(_F, "Cu->Fe =", "Cu =")),
  ("adp_bad_dipole", _mut(ADP, "Al-Cu : as.polynomial 0.1 0.02", "Al-Cu : as.polynomiall 0.1 0.02")),
  ("adp_dipole_modifier", _mut(ADP, "Al-Cu : as.polynomial 0.1 0.02", "Al-Cu : summ(as.polynomial 0.1 0.02)")),
]

# --------------------------------------------------------------------------------------
# Helpers
# --------------------------------------------------------------------------------------

def _workbook_dump(wb):
  lines = []
  for ws in wb.worksheets:
    lines.append("sheet " + ws.title)
    for row in ws.iter_rows(values_only=True):
      lines.append(repr(row))
  return "\n".join(lines)


def tabulate_config(text):
  """Return the bytes/str written for configuration `text` through Configuration().read + write()"""
  from atsim.potentials.config import Configuration
  tab = Configuration().read(io.StringIO(text))
  if hasattr(tab, "workbook"):
    # xlsx bytes contain timestamps: dump cell contents instead and still exercise write()
    bio = io.BytesIO()
    tab.write(bio)
    assert len(bio.getvalue()) > 0
    return _workbook_dump(tab.workbook)
  sio = io.StringIO()
  tab.write(sio)
  return sio.getvalue()


def describe_exception(e):
  from atsim.potentials.config._common import ConfigurationException
  return "{} cfgerr={} :: {}".format(type(e).__name__, isinstance(e, ConfigurationException), e)


def try_tabulate(text):
  try:
    out = tabulate_config(text)
    return "OK " + sha(out)
  except Exception as e:
    return "EXC " + describe_exception(e)


class Recorder(object):
  """Potential callable which records the order of every evaluation made on it"""
  trace = []

  def __init__(self, label, func, with_deriv = False):
    self.label = label
    self.func = func
    if with_deriv:
      def deriv(r):
        Recorder.trace.append((self.label, "d", repr(r)))
        return self.func.deriv(r)
      self.deriv = deriv

  def __call__(self, r):
    Recorder.trace.append((self.label, "e", repr(r)))
    return self.func(r)


def run_potable(argv, intext = None):
  """Run potable's main() in-process.  Returns (exit code, stderr text, INFO+ log text, output file text)"""
  from atsim.potentials.tools import potable
  tmpdir = tempfile.mkdtemp(prefix="twin_potable_")
  cfg = os.path.join(tmpdir, "in.aspot")
  out = os.path.join(tmpdir, "out.tab")
  with open(cfg, "w") as f:
    f.write(intext)
  argv = [a.replace("@CFG", cfg).replace("@OUT", out) for a in argv]
  old_argv, old_err, old_out = sys.argv, sys.stderr, sys.stdout
  sys.argv = ["potable"] + argv
  sys.stderr = io.StringIO()
  sys.stdout = io.StringIO()
  LOGCAPTURE.seek(0); LOGCAPTURE.truncate()
  code = None
  try:
    try:
      potable.main()
    except SystemExit as e:
      code = e.code
    except Exception as e:
      code = "UNCAUGHT " + describe_exception(e)
    err = sys.stderr.getvalue()
    stdout = sys.stdout.getvalue()
  finally:
    sys.argv, sys.stderr, sys.stdout = old_argv, old_err, old_out
  logtext = LOGCAPTURE.getvalue().replace(tmpdir, "TMP")
  outtext = None
  if os.path.exists(out):
    with open(out, "rb") as f:
      outtext = f.read()
  err = err.replace(tmpdir, "TMP")
  import shutil
  shutil.rmtree(tmpdir)
  return code, err, logtext, stdout, outtext


LOGCAPTURE = io.StringIO()
_logging_ready = False

def setup_logging(level = logging.INFO):
  """Root logger writes '%(message)s' (potable's format) into LOGCAPTURE; potable's own basicConfig() is then a no-op"""
  global _logging_ready
  if not _logging_ready:
    logging.basicConfig(level = level, format = "%(levelname)s %(name)s %(message)s", stream = LOGCAPTURE)
    _logging_ready = True
  logging.getLogger().setLevel(level)

# --------------------------------------------------------------------------------------
# The digest
# --------------------------------------------------------------------------------------

def common_digest(loglevel = logging.INFO):
  setup_logging(loglevel)
  items = []
  def add(label, value):
    items.append((label, value if len(value) < 200 and "\n" not in value else sha(value)))

  import atsim.potentials as ap
  from atsim.potentials import potentialforms as pf
  from atsim.potentials import potentialfunctions as pfn
  from atsim.potentials.config import Configuration, ConfigParser, FilteredConfigParser, ConfigParserOverrideTuple
  from atsim.potentials.spline import SplinePotential, Buck4_SplinePotential, Spline_Point, Exp_Spline, Buck4_Spline, Custom_SplinePotential

  # 1. good configurations, twice each (determinism within process)
  for label, text in GOOD_CONFIGS:
    LOGCAPTURE.seek(0); LOGCAPTURE.truncate()
    a = try_tabulate(text)
    b = try_tabulate(text)
    add("good:" + label, a)
    add("good2:" + label, "same" if a == b else "DIFFERENT")
    add("goodlog:" + label, LOGCAPTURE.getvalue())

  # 2. malformed configurations: error class and message
  for label, text in BAD_CONFIGS:
    add("bad:" + label, try_tabulate(text))

  # 3. potable main(): tabulation, overrides, filters, queries, error reporting
  P = PAIR.format(target="LAMMPS", nr=31)
  E = EAM.format(target="setfl", nr=20)
  F = EAM_FS.format(target="setfl_fs", nr=20)
  runs = [
    ("plain", ["@CFG", "@OUT"], P),
    ("override", ["@CFG", "@OUT", "-e", "Tabulation:nr=21", "Pair:O-O=as.buck 1000 0.3 0"], P),
    ("override_ws_key", ["@CFG", "@OUT", "-e", "Pair:Zr-O=as.zero"], P),
    ("add", ["@CFG", "@OUT", "-a", "Pair:Na-O=as.lj 0.1 2.0"], P),
    ("remove", ["@CFG", "@OUT", "-r", "Pair:Ca-O", "Pair:Al-O"], P),
    ("override_missing", ["@CFG", "@OUT", "-e", "Pair:Xx-O=as.zero"], P),
    ("add_existing", ["@CFG", "@OUT", "-a", "Pair:O-O=as.zero"], P),
    ("remove_missing", ["@CFG", "@OUT", "-r", "Pair:Xx-O"], P),
    ("malformed_override", ["@CFG", "@OUT", "-e", "PairO-O"], P),
    ("include", ["@CFG", "@OUT", "--include-species", "O", "Si", "Mg"], P),
    ("exclude", ["@CFG", "@OUT", "--exclude-species", "Ca", "Zr"], P),
    ("eam", ["@CFG", "@OUT"], E),
    ("eam_include", ["@CFG", "@OUT", "--include-species", "O", "Ce"], E),
    ("eam_exclude", ["@CFG", "@OUT", "--exclude-species", "Zr"], E),
    ("fs", ["@CFG", "@OUT"], F),
    ("fs_include", ["@CFG", "@OUT", "--include-species", "Al", "Fe"], F),
    ("fs_exclude", ["@CFG", "@OUT", "--exclude-species", "Al"], F),
    ("adp", ["@CFG", "@OUT"], ADP),
    ("list_items", ["@CFG", "--list-items"], P),
    ("list_items_eam", ["@CFG", "--list-items", "-e", "Tabulation:nr=10"], E),
    ("list_item_labels", ["@CFG", "--list-item-labels"], F),
    ("item_value", ["@CFG", "--item-value", "Pair:O-O"], P),
    ("item_value_var", ["@CFG", "--item-value", "Variables:A_OO"], P),
    ("no_outfile", ["@CFG"], P),
    ("domain_error", ["@CFG", "@OUT"], P.replace("Al-Al = nested 0.5", "Al-Al = as.sqrt -1.0\nNa-Na = dom 1.0").replace("[Pair]", "[Potential-Form]\ndom(r, a) = pymath.sqrt(3 - r)\n[Pair]", 1)),
  ]
  for label, text in BAD_CONFIGS[:12] + BAD_CONFIGS[17:24] + BAD_CONFIGS[26:36]:
    runs.append(("bad_" + label, ["@CFG", "@OUT"], text))

  for label, argv, text in runs:
    try:
      code, err, logtext, stdout, outtext = run_potable(argv, text)
      add("potable:" + label + ":code", repr(code))
      add("potable:" + label + ":stderr", err)
      add("potable:" + label + ":log", logtext)
      add("potable:" + label + ":stdout", stdout)
      add("potable:" + label + ":out", "ABSENT" if outtext is None else "{} bytes {}".format(len(outtext), sha(outtext)))
    except Exception as e:
      add("potable:" + label + ":uncaught", describe_exception(e))

  # 4. Python API: writePotentials with recording callables (evaluation ORDER of user functions)
  def make_pots():
    Recorder.trace = []
    f1 = Recorder("buck", pf.buck(1000.0, 0.3, 32.0), with_deriv = True)
    f2 = Recorder("plain", lambda r: 3.0/(r + 0.1) + r**2)
    f3 = ap.plus(Recorder("a", pf.bornmayer(500.0, 0.25), with_deriv = True), Recorder("b", lambda r: 0.1*r))
    f4 = SplinePotential(pf.zbl(14, 8), pf.buck(18003.0, 0.2052, 133.5), 0.8, 1.4)
    f5 = Buck4_SplinePotential(pf.bornmayer(1000.0, 0.3), pf.buck(0.0, 1.0, 30.0), 1.2, 2.6, 2.0)
    f6 = ap.create_Multi_Range_Potential_Form(
      ap.Multi_Range_Defn(">=", 2.0, pf.lj(0.1, 2.5)),
      ap.Multi_Range_Defn(">", 0.0, Recorder("mr", pf.morse(1.5, 2.0, 0.4), with_deriv = True)),
      ap.Multi_Range_Defn(">", 2.0, pf.constant(9.0)),
      ap.Multi_Range_Defn(">", 4.0, lambda r: 0.01*r))
    f7 = ap.TableReader(io.StringIO(u"# c\n3.0 1.0\n\n0.0 10.0\n1.0 4.0\n6.5 0.0\n"))
    f8 = ap.product(pf.polynomial(1, 2, 3), ap.pow(pf.exponential(2.0, 1.5), pf.constant(2)))
    return [ap.Potential("A", "B", f1), ap.Potential("B", "B", f2, h = 1e-5), ap.Potential("C", "A", f3),
            ap.Potential("Si", "O", f4), ap.Potential("Al", "O", f5), ap.Potential("M", "R", f6),
            ap.Potential("T", "R", f7), ap.Potential("P", "P", f8)]

  for target, nr in [("LAMMPS", 41), ("DL_POLY", 44), ("GULP", 21), ("LAMMPS", 3), ("DL_POLY", 8)]:
    pots = make_pots()
    sio = io.StringIO()
    try:
      ap.writePotentials(target, pots, 6.0, nr, sio)
      add("api:writePotentials:{}:{}".format(target, nr), sio.getvalue())
    except Exception as e:
      add("api:writePotentials:{}:{}".format(target, nr), "EXC " + describe_exception(e))
    add("api:trace:{}:{}".format(target, nr), repr(Recorder.trace))

  sio = io.StringIO(); pots = make_pots(); ap.writePotentials("GULP", [pots[1], pots[6]], 6.0, 13, sio)
  add("api:writePotentials:GULP:regular", sio.getvalue()); add("api:trace:GULP:regular", repr(Recorder.trace))

  # generator of potentials (iterable, not list) straight into the low-level writers
  from atsim.potentials._lammps_writeTABLE import writePotentials as lmp_write
  from atsim.potentials._dlpoly_writeTABLE import writePotentials as dlp_write
  sio = io.StringIO(); lmp_write((p for p in make_pots()), 0.5, 5.0, 10, sio); add("api:lmp_write_gen", sio.getvalue())
  sio = io.StringIO(); dlp_write((p for p in make_pots()), 5.0, 12, sio); add("api:dlp_write_gen", sio.getvalue())
  sio = io.StringIO(); lmp_write([], 0.5, 5.0, 10, sio); add("api:lmp_write_empty", repr(sio.getvalue()))

  # existing library-level error behaviour that none of the twins touch
  for label, thunk in [
    ("unsupported_type", lambda: ap.writePotentials("CASTEP", make_pots(), 6.0, 10, io.StringIO())),
    ("dlpoly_not_div4", lambda: ap.writePotentials("DL_POLY", make_pots(), 6.0, 10, io.StringIO())),
    ("mr_unknown_kw", lambda: ap.create_Multi_Range_Potential_Form(ap.Multi_Range_Defn(">", 0, pf.zero()), bad = 1)),
    ("filtered_both", lambda: FilteredConfigParser(ConfigParser(io.StringIO(P)), exclude = ["O"], include = ["Si"])),
    ]:
    try:
      thunk()
      add("api:err:" + label, "no exception")
    except Exception as e:
      add("api:err:" + label, describe_exception(e))

  # numbers: energies, forces, derivatives, spline coefficients
  pots = make_pots()
  rows = []
  for p in pots:
    for r in [0.3, 0.8, 1.0, 1.2, 1.4, 1.9, 2.0, 2.0000001, 2.6, 3.3, 4.0, 4.5, 5.9]:
      rows.append("{} {} {!r} {!r} {!r}".format(p.speciesA, p.speciesB, r, p.energy(r), p.force(r)))
  add("api:energies_forces", "\n".join(rows))
  add("api:spline_coeffs", repr(pots[3].potentialFunction.splineCoefficients) + repr(pots[4].potentialFunction.splineCoefficients))
  sp = pots[3].potentialFunction
  add("api:spline_derivs", repr([(sp.deriv(r), sp.deriv2(r)) for r in (0.5, 0.8, 1.0, 1.4, 2.0)]))
  b4 = pf.buck4(1000.0, 0.3, 30.0, 1.2, 2.0, 2.6)
  add("api:buck4", repr([(b4(r), b4.deriv(r), b4.deriv2(r)) for r in (0.5, 1.2, 1.5, 2.0, 2.3, 2.6, 3.0)]))
  pt = Spline_Point(pf.buck(1000.0, 0.3, 32.0), 1.5)
  add("api:spline_point", repr((pt.r, pt.v, pt.deriv, pt.deriv2)))
  sio = io.StringIO(); ap.plotToFile(sio, 1.0, 3.0, pf.buck(1000.0, 0.3, 32.0), steps = 7); add("api:plotToFile", sio.getvalue())

  # 5. ConfigParser level: parsed tuples, tabulation section, overrides, filtered views
  for label, text in [("P", P), ("E", E), ("F", F), ("ADP", ADP)]:
    cp = ConfigParser(io.StringIO(text))
    parts = [repr(cp.tabulation), repr(sorted(cp.parsed_sections)), repr(cp.orphan_sections), repr(cp.pair), repr(cp.species), repr(cp.table_form)]
    for attr in ("eam_embed", "eam_density", "eam_density_fs", "potential_form"):
      try:
        parts.append(repr(getattr(cp, attr)))
      except Exception as e:
        parts.append(describe_exception(e))
    add("cp:" + label, "\n".join(parts))
  cp = ConfigParser(io.StringIO(E))
  v1 = FilteredConfigParser(cp, include = ["O", "Ce"])
  v2 = FilteredConfigParser(cp, exclude = ["O"])
  add("cp:filtered", repr((v1.pair, v2.pair, v1.eam_embed, v2.eam_density, v1.pair)))
  cp = ConfigParser(io.StringIO(P), overrides = [ConfigParserOverrideTuple("Pair", "O - O", "as.zero"), ConfigParserOverrideTuple("Pair", "Ca-O", None)],
                    additional = [ConfigParserOverrideTuple("Pair", "K-K", "as.constant 2")])
  add("cp:overrides", repr(cp.pair))

  # 6. every tabulation grid combination of [Tabulation]
  for label, lines in [("nr_dr", "nr : 11\ndr : 0.25"), ("cutoff_nr", "cutoff : 2.5\nnr : 11"), ("cutoff_dr", "cutoff : 0.7\ndr : 0.1"),
                       ("nothing", ""), ("cutoff_only", "cutoff : 3.0"), ("nr_only", "nr : 5")]:
    text = u"[Tabulation]\ntarget : GULP\n" + lines + u"\n[Pair]\nA-B : as.polynomial 1 2\n"
    cp = ConfigParser(io.StringIO(text))
    add("grid:" + label, repr(cp.tabulation) + " " + (try_tabulate(text) if label not in ("nothing", "cutoff_only") else "skipped-large"))

  overall = sha("\n".join("{}={}".format(k, v) for k, v in items))
  return items, overall


def print_digest(items, overall, verbose = False):
  if verbose:
    for k, v in items:
      print("  {:55s} {}".format(k, v))
  print("COMMON DIGEST ({} items): {}".format(len(items), overall))


def hashseed_runs(script, extra_args, seeds = ("0", "1", "4242")):
  """Re-run `script` in fresh processes under different PYTHONHASHSEED values and return list of stdout strings"""
  outs = []
  for seed in seeds:
    env = dict(os.environ)
    env["PYTHONHASHSEED"] = seed
    cmd = [sys.executable, "-W", "ignore", "/tmp/wtpy.py", WT, script] + list(extra_args)
    res = subprocess.run(cmd, env = env, stdout = subprocess.PIPE, stderr = subprocess.PIPE, universal_newlines = True)
    if res.returncode != 0:
      outs.append("FAILED rc={} {}".format(res.returncode, res.stderr[-2000:]))
    else:
      outs.append(res.stdout)
  return outs

"""diffC.py - checks for edit C (polynomial form evaluated with running powers, zero coefficients skipped).

Run against a tree with:
  /venv/bin/python -W ignore /tmp/wtpy.py <tree> /tmp/wt_r10_2/_twins/diffC.py          # digest (a) + feature checks (b)
  /venv/bin/python -W ignore /tmp/wtpy.py <tree> /tmp/wt_r10_2/_twins/diffC.py --digest # digest (a) only

Part (a) prints 'EXISTING-BEHAVIOUR DIGEST <sha256>' which must be the same for the clean and the edited tree.
  NOTE: a different (equally exact) order of floating point operations cannot reproduce the last bit of pow(), so
  in this script the digest is taken over numbers rounded to 6 decimal places (QUANTISE = True, see _quantise()).
  The size of the actual differences is measured in check c3 below (a few units in the last place of the largest term).
Part (b) prints PASS/FAIL lines for the properties relevant to the edit and finishes with 'FEATURE CHECKS: all passed'.
"""
# ---------------------------------------------------------------------------------------------
# Part (a): broad sample of EXISTING behaviour through the public API -> deterministic digest.
# (identical text in diffA.py, diffB.py and diffC.py)
# ---------------------------------------------------------------------------------------------
import glob
import hashlib
import io
import math
import os
import re
import subprocess
import sys
import logging
logging.disable(logging.CRITICAL)

import atsim.potentials as ap
from atsim.potentials import potentialforms as pf
from atsim.potentials import potentialfunctions as pfn
from atsim.potentials.config import Configuration, ConfigParser
from atsim.potentials.config._common import ConfigurationException

WT = os.getcwd()  # wtpy.py changes into the worktree before running the script

PAIR_CFG = u"""[Tabulation]
target : {target}
cutoff : 8.0
nr : {nr}

[Pair]
O-O = as.buck 1633.0 0.327 3.949
U-O = as.buck4 1761.775 0.35642 12.3 1.2 2.1 2.6
U-U = as.bornmayer 294.64 0.327022 >= 3.0 as.zero
Si-O = spline(>0 as.zbl 14 8 >=0.8 exp_spline >=1.4 as.buck 18003.7572 0.205204 133.5381)
Mg-O = spline(as.buck 1000.0 0.3 0.0 >1.0 buck4_spline 2.0 >3.0 as.buck 0 1 32.0)
Al-O = sum(as.bornmayer 1000.0 0.3, as.polynomial 0.1 -0.2 0 0.003, >2.0 as.constant 0.5)
Ga-O = product(as.morse 1.5 2.0 0.2, pow(as.coul 1 1, as.constant 2))
Fe-Fe = trans(as.lj 0.1 2.5, as.constant 0.2)
Ti-O = mypoly 1.5 -0.25
In-O = tf
Ca-O = as.tang_toennies 980.0 1.9 100.0 300.0 900.0
Na-O = as.hbnd 300.0 50.0 >2.5 as.exponential 0.5 1.5
K-O = as.sqrt 2.5 >1 as.polynomial 1.0 >2 as.polynomial 0 0 0 0 0 0 0 0 1e-3
Li-O = sum(as.buck4 900.0 0.3 20.0 1.0 1.75 2.5, as.buck4 900.0 0.3 20.0 1.0 1.5 2.5, as.buck4 500.0 0.3 20.0 1.0 1.75 2.5)
Cs-O = as.exp_spline 1.0 -0.5 0.1 -0.01 0.001 -0.0001 0.3

[Potential-Form]
mypoly(r, a, b) = as.polynomial(r, a, 0, b) + if(r>2, a*exp(-r), b/(r+1)) + pymath.floor(r) + other(r, a)
other(r, q) = q * as.buck(r+0.1, 10.0, 0.2, 1.0)

[Table-Form:tf]
interpolation : cubic_spline
x : 0 1 2 3 4 5
y : 5 3 1 0.5 0.2 0
"""

EAM_CFG = u"""[Tabulation]
target : {target}
cutoff : 6.0
nr : 60
cutoff_rho : 50.0
nrho : 50

[Pair]
Al-Al = as.morse 1.2 2.8 0.3
Al-Fe = as.buck4 800.0 0.3 15.0 1.1 1.9 2.7
Fe-Fe = sum(as.polynomial 0.5 -0.1 0.004, as.bornmayer 500.0 0.25)

[EAM-Embed]
Al = as.sqrt -1.5
Fe = as.polynomial 0 -0.3 0.001

[EAM-Density]
{density}
"""
EAM_DENS = u"Al = as.exponential 2.0 -1.5 >0.5 as.bornmayer 3.0 0.9\nFe = as.polynomial 1.0 -0.2 0.01\n"
EAM_DENS_FS = u"Al->Al = as.bornmayer 3.0 0.9\nAl->Fe = as.polynomial 1.0 -0.2 0.01\nFe->Al = as.bornmayer 2.0 0.8\nFe->Fe = as.polynomial 0.5 -0.05\n"

BAD_CFGS = [
  u"[Pair]\nA-B = as.buck 1.0 2.0\n",
  u"[Pair]\nA-B = as.nothing 1.0 2.0\n",
  u"[Pair]\nA-B = as.buck4 1.0 2.0 3.0 1.0 3.0\n",
  u"[Pair]\nA-B = spline(as.buck 1 2 3 >1 exp_spline 2 >3 as.zero)\n",
  u"[Pair]\nA-B = spline(as.buck 1 2 3 >1 buck4_spline 4 >3 as.zero)\n",
  u"[Pair]\nA-B = spline(as.buck 1 2 3 >1 buck4_spline >3 as.zero)\n",
  u"[Pair]\nA-B = spline(as.buck 1 2 3 >3 exp_spline >1 as.zero)\n",
  u"[Pair]\nA-B = as.polynomial\nA-B = as.zero\n",
  u"[Pair]\nA-B = as.zero 1\n",
  u"[Pair]\nA-B = f 1 2\n[Potential-Form]\nf(r, a) = a*r\n",
  u"[Pair]\nA-B = f 1\n[Potential-Form]\nf(r, a) = a*r +\n",
  u"[Pair]\nA-B = f 1\n[Potential-Form]\nf(r, a) = g(r, a, 1)\ng(r, a) = a\n",
  u"[Tabulation]\ntarget : nonsense\n[Pair]\nA-B = as.zero\n",
  u"[Tabulation]\ntarget : DL_POLY\nnr : 1001\n[Pair]\nA-B = as.zero\n",
  u"[Pair]\nA-B = tf 1\n[Table-Form:tf]\ninterpolation : cubic_spline\nx : 0 1 2 3\ny : 1 2 3 4\n",
  u"[Pair]\nA-B = sum(as.buck 1 2)\n",
]


def _tabulate(cfg_text):
  tab = Configuration().read(io.StringIO(cfg_text))
  out = io.StringIO()
  tab.write(out)
  return out.getvalue()


# QUANTISE = False: numbers are compared as printed by the writers (tables: exact bytes).
# QUANTISE = True : every number is first rounded to 6 decimal places (9 significant figures when >= 1000), which
#                   removes differences of the order of the floating point rounding error of the evaluation itself.
QUANTISE = False

def _quantise(v):
  v = float(v)
  if v != v or v in (float("inf"), float("-inf")):
    return repr(v)
  text = "%.6f" % v if abs(v) < 1000.0 else "%.8e" % v
  if text == "-0.000000":
    text = "0.000000"
  return text

_NUMBER = re.compile(r"(?<![\w.+-])[-+]?(?:\d+\.\d*|\.\d+|\d+)(?:[eE][-+]?\d+)?(?![\w.])")

def _table_filter(text):
  if not QUANTISE:
    return text
  return _NUMBER.sub(lambda m: _quantise(m.group(0)), text)

def _fmt(v):
  if QUANTISE:
    return _quantise(v)
  return "%.10g" % v


def existing_behaviour_lines():
  """Return list of text lines describing existing behaviour."""
  table_filter = _table_filter
  lines = []
  rs = [0.3, 0.75, 1.0, 1.3, 2.0, 2.6, 3.7, 5.0, 9.25]

  # 1. potential functions / forms: value and derivatives through f(r, params) and factory(params)(r)
  params = dict(bornmayer=(1000.0, 0.3), buck=(1633.0, 0.327, 3.949), constant=(2.5,), coul=(2.0, -1.5),
    exp_spline=(1.0, -0.5, 0.1, -0.01, 0.001, -0.0001, 0.3), exponential=(0.5, 1.5), hbnd=(300.0, 50.0), lj=(0.1, 2.5),
    morse=(1.5, 2.0, 0.2), sqrt=(2.5,), tang_toennies=(980.0, 1.9, 100.0, 300.0, 900.0), zbl=(14, 8), zero=())
  for name in sorted(params):
    func = getattr(pfn, name)
    fact = getattr(pf, name)(*params[name])
    for r in rs:
      row = [name, _fmt(r), _fmt(func(r, *params[name])), _fmt(fact(r))]
      for dn in ("deriv", "deriv2"):
        if hasattr(func, dn):
          row.append(_fmt(getattr(func, dn)(r, *params[name])))
          row.append(_fmt(getattr(fact, dn)(r)))
      lines.append(" ".join(row))
  polys = [(), (2.0,), (0.0,), (1.0, -2.0), (0.5, 0.0, 0.25), (0.0, 0.0, 0.0, 1.0), (1, 2, 3),
    (3.0, -1.0, 0.0, 0.0, 0.5, 0.0, -0.01), (1.0, -1.0, 1.0, -1.0, 1.0, -1.0, 1.0, -1.0, 1.0), (0.0, 0.0), (-0.0, 0.0, -0.0)]
  for coefs in polys:
    for r in [0.0, 0, 2] + rs + [-1.5]:
      fact = pf.polynomial(*coefs)
      vals = [pfn.polynomial(r, *coefs), pfn.polynomial.deriv(r, *coefs), pfn.polynomial.deriv2(r, *coefs), fact(r), fact.deriv(r), fact.deriv2(r)]
      lines.append("polynomial %r %r %s %s" % (coefs, r, " ".join([_fmt(v) for v in vals]), " ".join([type(v).__name__ for v in vals])))

  # 2. python API: splines, buck4, combinators, multi-range
  bk = pf.buck4(1761.775, 0.35642, 12.3, 1.2, 2.1, 2.6)
  sp = ap.SplinePotential(pf.zbl(14, 8), pf.buck(18003.7572, 0.205204, 133.5381), 0.8, 1.4)
  from atsim.potentials.spline import Buck4_SplinePotential
  b4i = Buck4_SplinePotential(pf.bornmayer(1000.0, 0.3), pf.buck(0.0, 1.0, 32.0), 1, 3, 2)
  comb = ap.plus(ap.product(pf.morse(1.5, 2.0, 0.2), pf.polynomial(1.0, 0.0, -0.01)), ap.pow(pf.coul(1, 1), pf.constant(2)))
  mr = ap.create_Multi_Range_Potential_Form(ap.Multi_Range_Defn(">", 0.0, pf.polynomial(1.0, 2.0)), ap.Multi_Range_Defn(">=", 2.0, pf.lj(0.1, 2.5)))
  for label, f in [("buck4", bk), ("expspline", sp), ("buck4int", b4i), ("comb", comb), ("multirange", mr)]:
    for r in rs:
      lines.append("%s %s %s %s %s" % (label, _fmt(r), _fmt(f(r)), _fmt(f.deriv(r)), _fmt(f.deriv2(r))))
  for label, f in [("buck4", bk), ("expspline", sp), ("buck4int", b4i)]:
    lines.append("%s coefficients %s" % (label, " ".join(["%.5g" % c for c in f.splineCoefficients])))

  # 3. potable models to every pair target
  for target, nr in [("LAMMPS", 161), ("DL_POLY", 164), ("GULP", 161)]:
    text = _tabulate(PAIR_CFG.format(target = target, nr = nr))
    lines.append("pair %s %d %s" % (target, len(text.splitlines()), hashlib.sha256(table_filter(text).encode()).hexdigest()))
  for target, dens in [("setfl", EAM_DENS), ("DL_POLY_EAM", EAM_DENS), ("setfl_fs", EAM_DENS_FS), ("DL_POLY_EAM_fs", EAM_DENS_FS)]:
    text = _tabulate(EAM_CFG.format(target = target, density = dens))
    lines.append("eam %s %d %s" % (target, len(text.splitlines()), hashlib.sha256(table_filter(text).encode()).hexdigest()))
  for fname in sorted(glob.glob(os.path.join(WT, "docs", "user_guide", "example_files", "*.aspot")) + glob.glob(os.path.join(WT, "tests", "config", "config_resources", "*.aspot"))):
    with io.open(fname, encoding = "utf8") as infile:
      text = infile.read()
    text = re.sub(r"(?m)^nr\s*[:=].*$", "nr : 101", text)
    try:
      out = _tabulate(text)
      lines.append("file %s %d %s" % (os.path.basename(fname), len(out.splitlines()), hashlib.sha256(table_filter(out).encode()).hexdigest()))
    except Exception as e:
      lines.append("file %s raised %s" % (os.path.basename(fname), type(e).__name__))

  # 4. python tabulation API (writePotentials)
  pots = [ap.Potential("A", "B", bk), ap.Potential("B", "B", comb), ap.Potential("A", "A", pf.polynomial(1.0, -0.5, 0.0, 0.01))]
  for fmt, nr in [("LAMMPS", 41), ("DL_POLY", 44)]:
    out = io.StringIO()
    ap.writePotentials(fmt, pots, 6.0, nr, out = out)
    lines.append("writePotentials %s %s" % (fmt, hashlib.sha256(table_filter(out.getvalue()).encode()).hexdigest()))

  # 5. errors
  for cfg in BAD_CFGS:
    try:
      _tabulate(cfg)
      lines.append("bad %r -> no error" % cfg)
    except Exception as e:
      lines.append("bad %r -> %s %s %s" % (cfg, type(e).__name__, isinstance(e, ConfigurationException), str(e)))
  for call in ["pf.buck4(1000.0, 0.3, 32.0, 2.0, 2.0, 2.0)", "ap.SplinePotential(pf.zero(), pf.zero(), 1.0, 1.0)", "pfn.buck(1.0)", "pf.buck(1.0)(2.0)"]:
    try:
      eval(call)
      lines.append("call %s -> no error" % call)
    except Exception as e:
      lines.append("call %s -> %s %s" % (call, type(e).__name__, e))
  return lines


def digest(lines):
  return hashlib.sha256("\n".join(lines).encode()).hexdigest()

QUANTISE = True

# ---------------------------------------------------------------------------------------------
# Part (b): the polynomial is still the documented polynomial and its derivatives are exact
# ---------------------------------------------------------------------------------------------
from fractions import Fraction

FAILED = []

def check(label, ok, detail = ""):
  print("%s %s %s" % ("PASS" if ok else "FAIL", label, detail))
  if not ok:
    FAILED.append(label)

def exact(r, coefs, n):
  """n-th derivative of sum(c_i r^i) in exact rational arithmetic, and the sum of the magnitudes of its terms"""
  r = Fraction(r)
  total, mag = Fraction(0), Fraction(0)
  for i, c in enumerate(coefs):
    if i < n:
      continue
    f = 1
    for j in range(n):
      f *= (i-j)
    term = f * Fraction(c) * r**(i-n)
    total += term
    mag += abs(term)
  return total, mag

def previous(r, coefs, n):
  """The expressions used before the edit"""
  if n == 0:
    return sum([r**float(i) * c for (i,c) in enumerate(coefs)])
  if n == 1:
    return sum([0]+[float(i) * r**float(i-1) * c for (i,c) in enumerate(coefs) if i >= 1])
  return sum([0]+[i * float(i-1) * r**float(i-2) * c for (i,c) in enumerate(coefs) if i >= 2])

def coefficient_sets():
  import random
  rnd = random.Random(11)
  sets = [(), (2.0,), (0.0,), (-1.5, 0.0), (0.0, 0.0, 0.0), (0.0, 0.0, 0.0, 1.0), (1.0, 0.0, 2.0), (0.0, 3.0, 0.0, 0.0, -0.5),
    (0.0, 0.0, 0.0, 0.0, 0.0, 0.0, 0.0, 0.0, 1e-3), (1, 2, 3), (1, 0, 3), (0, 0, 1), (-0.0, 0.0, -0.0, 2.5)]
  for order in range(0, 9):
    for trial in range(6):
      cs = [rnd.choice([0.0, 0.0, rnd.uniform(-5, 5), rnd.uniform(-1e3, 1e3), -rnd.random()]) for i in range(order+1)]
      sets.append(tuple(cs))
  return sets

RS = [0.0, 1e-3, 0.25, 0.5, 0.9, 1.0, 1.7, 2.0, 3.3, 7.5, 12.0, 30.0, -1.25]

CFG_ROUTES = u"""[Tabulation]
target : LAMMPS
cutoff : 6.0
nr : 25

[Pair]
A-A = as.polynomial 0.0 3.0 0.0 0.0 -0.5
A-B = viaformula 3.0 -0.5
B-B = as.polynomial 0 0 0 0 0 0 0 0 1e-3

[Potential-Form]
viaformula(r, a, b) = as.polynomial(r, 0.0, a, 0.0, 0.0, b)
"""

def child():
  vals = []
  for cs in coefficient_sets():
    for r in RS:
      vals.extend([pfn.polynomial(r, *cs), pfn.polynomial.deriv(r, *cs), pfn.polynomial.deriv2(r, *cs)])
  print(hashlib.sha256(" ".join([float(v).hex() for v in vals]).encode()).hexdigest())
  print(hashlib.sha256(_tabulate(CFG_ROUTES).encode()).hexdigest())
  print(hashlib.sha256(_tabulate(PAIR_CFG.format(target = "LAMMPS", nr = 161)).encode()).hexdigest())

def run_child(seed):
  env = dict(os.environ)
  env["PYTHONHASHSEED"] = seed
  return subprocess.check_output([sys.executable, "-W", "ignore", "/tmp/wtpy.py", WT, os.path.abspath(__file__), "--child"], env = env).decode()

def feature_checks():
  sets = coefficient_sets()
  funcs = [pfn.polynomial, pfn.polynomial.deriv, pfn.polynomial.deriv2]

  # c1. C06 - documented formula, orders 0..8, zero / negative coefficients, against exact rational arithmetic.
  #     The tolerance is 2 * order * machine epsilon * (sum of magnitudes of the terms), i.e. a correct evaluation order.
  # c2. C07 - deriv and deriv2 are the exact derivatives (same test, n = 1 and 2)
  eps = 2.0**-52
  worst = [0.0, 0.0, 0.0]
  for cs in sets:
    for r in RS:
      for n in (0, 1, 2):
        want, mag = exact(r, cs, n)
        got = funcs[n](r, *cs)
        if mag == 0:
          ok = got == 0
          err = 0.0 if ok else float("inf")
        else:
          err = abs(Fraction(got) - want) / mag / eps
        worst[n] = max(worst[n], float(err))
  check("c1 C06 value equals C_0 + C_1 r + ... + C_n r^n (orders 0-8, zero and negative coefficients, r=0, r<0)", worst[0] <= 2*9, "worst error %.2f eps x sum|terms|" % worst[0])
  check("c2 C07 deriv and deriv2 are the exact derivatives of that polynomial", worst[1] <= 2*9 and worst[2] <= 2*9, "worst errors %.2f and %.2f eps x sum|terms|" % (worst[1], worst[2]))

  # c3. how far from the previous evaluation order?
  w = 0.0
  for cs in sets:
    for r in RS:
      for n in (0, 1, 2):
        want, mag = exact(r, cs, n)
        if mag != 0:
          w = max(w, abs(funcs[n](r, *cs) - previous(r, cs, n)) / float(mag) / eps)
  check("c3 difference from the previous expressions is rounding error only", w <= 2*9, "worst %.2f eps x sum|terms|" % w)

  # c4. zero coefficients: the power advances - sparse polynomials equal their dense-evaluated selves EXACTLY in simple cases
  ok = True
  for r in [0.5, 2.0, 3.0, -1.5, 0.0]:
    ok = ok and pfn.polynomial(r, 0.0, 0.0, 0.0, 1.0) == r*r*r and pfn.polynomial(r, 1.0, 0.0, 2.0) == 1.0 + 2.0*r*r
    ok = ok and pfn.polynomial.deriv(r, 0.0, 0.0, 0.0, 1.0) == 3.0*r*r and pfn.polynomial.deriv2(r, 0.0, 0.0, 0.0, 1.0) == 6.0*r
    ok = ok and pfn.polynomial(r, 0.0, 3.0, 0.0, 0.0, -0.5) == 3.0*r - 0.5*(r*r*r*r)
    ok = ok and pfn.polynomial(r, 0, 0, 4) == 4.0*r*r and pfn.polynomial.deriv(r, 5.0, 0.0, 0.0, 0.0, 0.0) == 0.0
  check("c4 C06 sparse polynomials (zero coefficients between non-zero ones, leading and trailing zeros)", ok)

  # c5. results have the types they had before (int 0 only when there is no term at all), no signed zeros appear
  got = [repr(pfn.polynomial(2.0)), repr(pfn.polynomial.deriv(2.0, 1.0)), repr(pfn.polynomial.deriv2(2.0, 1.0, 2.0)), repr(pfn.polynomial(2.0, 0.0)), repr(pfn.polynomial(2, 1, 2)),
    repr(pfn.polynomial.deriv(2.0, 1.0, 0.0)), repr(pfn.polynomial(1.0, -0.0, -0.0)), repr(pfn.polynomial(0, 7)), repr(pfn.polynomial.deriv(0.0, 7.0, 3.0)), repr(pfn.polynomial.deriv2(0.0, 7.0, 3.0, 2.0))]
  want = ["0", "0", "0", "0.0", "5.0", "0.0", "0.0", "7.0", "3.0", "4.0"]
  check("c5 return types and values at r = 0 as before", got == want, str(got))

  # c6. C06 - the four access routes agree exactly
  cs = (0.0, 3.0, 0.0, 0.0, -0.5)
  tab = Configuration().read(io.StringIO(CFG_ROUTES))
  pots = dict([((p.speciesA, p.speciesB), p) for p in tab.potentials])
  ok = True
  for r in [0.25, 0.5, 1.0, 1.75, 2.5, 5.75]:
    v = pfn.polynomial(r, *cs)
    ok = ok and pf.polynomial(*cs)(r) == v and pots[("A", "A")].energy(r) == v and pots[("A", "B")].energy(r) == v
    ok = ok and pf.polynomial(*cs).deriv(r) == pfn.polynomial.deriv(r, *cs) and -pots[("A", "A")].force(r) == pfn.polynomial.deriv(r, *cs)
    ok = ok and pots[("B", "B")].energy(r) == pfn.polynomial(r, 0, 0, 0, 0, 0, 0, 0, 0, 1e-3)
  check("c6 C06 f(r, params) == factory(params)(r) == 'as.polynomial params' == as.polynomial(r, params) in a formula", ok)

  # c7. C12 - pure: same bits whatever was evaluated before; other processes / hash seeds
  a = [pfn.polynomial(r, *cs) for cs in sets for r in RS]
  b = [pfn.polynomial(r, *cs) for cs in reversed(sets) for r in reversed(RS)]
  b.reverse()
  outs = set([run_child(seed) for seed in ("0", "1", "31337")])
  check("c7 C12 evaluation order and PYTHONHASHSEED do not matter", [float(x).hex() for x in a] == [float(x).hex() for x in b] and len(outs) == 1)

  # c8. C10/C07 - the buck4 spline (two polynomial callables) is still C2 and its derivatives still exact
  bk = pf.buck4(1761.775, 0.35642, 12.3, 1.2, 2.1, 2.6)
  sp = bk.interpolationFunction
  bm, disp = bk.startPotential, bk.endPotential
  mism = [sp(1.2) - bm(1.2), sp.deriv(1.2) - bm.deriv(1.2), sp.deriv2(1.2) - bm.deriv2(1.2), sp(2.6) - disp(2.6), sp.deriv(2.6) - disp.deriv(2.6), sp.deriv2(2.6) - disp.deriv2(2.6),
    sp.spline5(2.1) - sp.spline3(2.1), sp.spline5.deriv(2.1), sp.spline3.deriv(2.1), sp.spline5.deriv2(2.1) - sp.spline3.deriv2(2.1)]
  worst = 0.0
  for r in [1.3, 1.6, 1.9, 2.05, 2.2, 2.5]:
    h = 1e-5
    worst = max(worst, abs((bk(r+h) - bk(r-h))/(2*h) - bk.deriv(r)), abs((bk.deriv(r+h) - bk.deriv(r-h))/(2*h) - bk.deriv2(r)))
  check("c8 C10 C07 buck4 spline continuity (%.2g) and derivatives against central differences (%.2g)" % (max([abs(m) for m in mism]), worst), max([abs(m) for m in mism]) < 1e-8 and worst < 1e-5)

  # c9. vectorised use with numpy arrays still works
  import numpy as np
  arr = np.array([0.5, 1.0, 2.0])
  ok = np.allclose(pfn.polynomial(arr, 1.0, 0.0, 2.0), 1.0 + 2.0*arr**2) and np.allclose(pfn.polynomial.deriv(arr, 1.0, 0.0, 2.0), 4.0*arr)
  check("c9 numpy array separations are still accepted", bool(ok))

  # c10. C16 - as.polynomial in potable with no / many parameters is still accepted (varargs), text parameters still refused as configuration errors
  res = []
  for body in [u"A-A = as.polynomial\n", u"A-A = as.polynomial 1 2 3 4 5 6 7 8 9 10 11 12\n", u"A-A = as.polynomial 1 x\n"]:
    try:
      _tabulate(u"[Tabulation]\nnr : 5\n[Pair]\n" + body)
      res.append("ok")
    except ConfigurationException as e:
      res.append("ConfigurationException")
  check("c10 C16 varargs signature untouched", res == ["ok", "ok", "ConfigurationException"], str(res))

  if FAILED:
    print("FEATURE CHECKS: FAILED %s" % FAILED)
    sys.exit(1)
  print("FEATURE CHECKS: all passed")


if __name__ == "__main__":
  if "--child" in sys.argv:
    child()
  else:
    print("EXISTING-BEHAVIOUR DIGEST %s" % digest(existing_behaviour_lines()))
    if not "--digest" in sys.argv:
      feature_checks()

"""Differential script for twin A (DL_POLY TABLE writer).
Prints one sha256 digest over all outputs / exception type names."""
import hashlib, io, sys
from decimal import Decimal
from fractions import Fraction

import atsim.potentials as P
from atsim.potentials import _dlpoly_writeTABLE as D
from atsim.potentials.pair_tabulation import DLPoly_PairTabulation
from atsim.potentials.config import Configuration

H = hashlib.sha256()
NCASE = [0]

def rec(label, thunk):
  NCASE[0] += 1
  try:
    v = thunk()
    s = "OK:" + repr(v)
  except BaseException as e:
    s = "EXC:" + type(e).__name__ + ":" + str(e)
  H.update(("%s=>%s\n" % (label, s)).encode("utf-8"))


class Rec(io.StringIO):
  """StringIO remembering the individual write() calls"""
  def __init__(self):
    super().__init__()
    self.calls = []
  def write(self, s):
    self.calls.append(s)
    return super().write(s)

class Boom(Exception):
  pass

class Trace(object):
  """Callable logging every evaluation"""
  def __init__(self, f, log, name, fail_at=None, with_deriv=False):
    self.f, self.log, self.name, self.fail_at = f, log, name, fail_at
    self.n = 0
    if with_deriv:
      self.deriv = self._deriv
  def __call__(self, r):
    self.n += 1
    self.log.append((self.name, "E", repr(r)))
    if self.fail_at is not None and self.n == self.fail_at:
      raise Boom("fail")
    return self.f(r)
  def _deriv(self, r):
    self.log.append((self.name, "D", repr(r)))
    return -2.0 * self.f(r) / r

class Duck(object):
  """Duck typed potential (no Potential base class)"""
  def __init__(self, a, b, log):
    self.speciesA, self.speciesB, self.log = a, b, log
  def energy(self, r):
    self.log.append(("duck", "E", repr(r)))
    return 1.0 / r
  def force(self, r):
    self.log.append(("duck", "F", repr(r)))
    return 1.0 / (r * r)

def pots(log=None, fail_at=None, deriv=False):
  log = [] if log is None else log
  return [
    P.Potential("Gd", "O", Trace(P.buck(1000.0, 0.3, 32.0), log, "buck", fail_at)),
    P.Potential("O", "O", Trace(lambda r: 4.0 / r ** 2, log, "inv2", None, deriv)),
    P.Potential(u"Averyveryverylongname", 7, Trace(P.plus(P.bornmayer(900.0, 0.25), P.coul(2.0, -2.0)), log, "bm", None)),
  ]

def run_write(cutoff, grid, plist_factory):
  log = []
  out = Rec()
  try:
    D.writePotentials(plist_factory(log), cutoff, grid, out)
    status = "ok"
  except BaseException as e:
    status = type(e).__name__ + ":" + str(e)
  return (status, out.calls, log)

# 1. module level writer, many grids/cutoffs (valid and invalid)
for cutoff in (6.5, 10.0, 1, 12, 0.0, -3.0, Fraction(13, 2), Decimal("6.5"), "6.5", None, float("nan"), float("inf")):
  for grid in (8, 12, 16, 40, 0, 4, -4, -8, 7, 10, 8.0, 12.5, "8", None, True):
    rec("w/%r/%r" % (cutoff, grid), lambda: run_write(cutoff, grid, lambda log: pots(log)))

# 2. failure part way through (energy, then force of first potential)
for fail_at in (1, 3, 8, 9, 10, 17, 24, 25):
  rec("fail/%d" % fail_at, lambda: run_write(6.5, 8, lambda log: pots(log, fail_at)))

# 3. analytical derivatives, duck typed potentials, generators, empty lists
rec("deriv", lambda: run_write(5.0, 12, lambda log: pots(log, None, True)))
rec("duck", lambda: run_write(5.0, 12, lambda log: [Duck("A", "B", log), Duck(1, None, log)]))
rec("gen", lambda: run_write(5.0, 8, lambda log: (p for p in pots(log))))
rec("empty", lambda: run_write(5.0, 8, lambda log: []))
rec("notiter", lambda: run_write(5.0, 8, lambda log: 5))
rec("badpot", lambda: run_write(5.0, 8, lambda log: [object()]))
rec("badpot0", lambda: run_write(5.0, 0, lambda log: [object()]))
rec("bytes-species", lambda: run_write(5.0, 8, lambda log: [P.Potential(b"A", (1, 2), lambda r: r)]))
rec("returns-str", lambda: run_write(5.0, 8, lambda log: [P.Potential("A", "B", lambda r: "x")]))
rec("returns-int", lambda: run_write(5.0, 8, lambda log: [P.Potential("A", "B", lambda r: 3)]))
rec("returns-none", lambda: run_write(5.0, 8, lambda log: [P.Potential("A", "B", lambda r: None)]))
rec("zerodiv", lambda: run_write(0.0, 8, lambda log: [P.Potential("A", "B", lambda r: 1.0 / r)]))

# 4. private helpers called directly
def helper_calls():
  res = []
  for args in ((0.1, 6.5, 69), (0.1, 6.5, 69.9), (1, 2, 3), ("a", 2, 3), (0.1, 6.5, "3"), (Decimal("0.25"), Fraction(1, 3), True), (None, 1, 1)):
    out = Rec()
    try:
      D._writeTableHeader(*(args + (out,)))
      res.append(("ok", out.calls))
    except BaseException as e:
      res.append((type(e).__name__, str(e), out.calls))
  for grid, mesh in ((8, 0.5), (4, 1e-3), (0, 1.0), (6, 1.0), (8, "x"), (8, None), (8, Fraction(1, 3))):
    log = []
    out = Rec()
    try:
      D._writePotential(pots(log)[0], 99.0, grid, mesh, out)
      res.append(("ok", out.calls, log))
    except BaseException as e:
      res.append((type(e).__name__, str(e), out.calls, log))
  res.append(D._calculateForce(pots()[1], 2.5))
  res.append(issubclass(D.WritePotentialException, Exception))
  return res
rec("helpers", helper_calls)

# 5. through the tabulation objects and the public writePotentials()
def via_class(cutoff, nr):
  out = Rec()
  DLPoly_PairTabulation(pots(), cutoff, nr).write(out)
  return out.calls
def via_public(cutoff, nr):
  out = Rec()
  P.writePotentials("DL_POLY", pots(), cutoff, nr, out)
  return out.calls
for cutoff, nr in ((6.5, 8), (10.0, 1000), (3.3, 44), (6.5, 9), (6.5, 4)):
  rec("cls/%r/%r" % (cutoff, nr), lambda: via_class(cutoff, nr))
  rec("pub/%r/%r" % (cutoff, nr), lambda: via_public(cutoff, nr))

# 6. through the .ini configuration layer
INI = u"""[Tabulation]
target : DL_POLY
cutoff : %s
nr : %s

[Pair]
O-O : as.buck 9547.96 0.2192 32.0
U-O : sum(as.buck 1761.775 0.35643 0.0, as.constant 1.5)
Zr-O : as.polynomial 1.0 -2.0 0.5 >2.0 as.zero
"""
def via_ini(cutoff, nr):
  tab = Configuration().read(io.StringIO(INI % (cutoff, nr)))
  out = Rec()
  tab.write(out)
  return (tab.target, tab.type, tab.nr, tab.cutoff, out.calls)
for cutoff, nr in (("6.5", "12"), ("10.0", "500"), ("4", "7"), ("2.5", "4")):
  rec("ini/%s/%s" % (cutoff, nr), lambda: via_ini(cutoff, nr))

print("cases", NCASE[0])
print("digest", H.hexdigest())

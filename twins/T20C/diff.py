"""diffC.py - checks for twin C (type hints / docstrings, __slots__, __repr__ helpers and internal
assertions on private classes of atsim.potentials.config and atsim.potentials.spline).

Usage (from the worktree root, through the wrapper):
  /venv/bin/python -W ignore /tmp/wtpy.py /tmp/twin_20 _twins/diffC.py [-v]

(a) COMMON DIGEST and EXTRA DIGEST must be identical on the clean and the edited tree.
    EXTRA DIGEST concentrates on the code the edit touches:
      - every error message produced through _Check_Call (potential-form and function-call usage,
        varargs forms, table forms, pymath functions) and through _Cexptrk_Potential_Function
        (parse errors, name clashes, wrong arity of nested calls),
      - a sweep over [Tabulation] option combinations including odd values (nan, inf, 1e400, negative
        zero, huge nr) - the new assertions restate what the preceding checks guarantee so they must
        never change any outcome,
      - spline coefficients/values for a sweep of Exp_Spline and Buck4_Spline set-ups (new assertions
        on the coefficient counts must never fire),
      - everything is also run under PYTHONHASHSEED = 0, 1, 4242.
(b) FEATURE CHECKS: the new helpers exist and behave (False/absent on the clean tree).
"""
import io
import itertools
import logging
import os
import sys

sys.path.insert(0, os.path.dirname(os.path.abspath(__file__)))
import common_digest as cd


def extra_items():
  import atsim.potentials as ap
  from atsim.potentials import potentialforms as pf
  from atsim.potentials.config import ConfigParser
  from atsim.potentials.spline import Spline_Point, Exp_Spline, Buck4_Spline, Custom_SplinePotential, SplinePotential, Buck4_SplinePotential

  items = []
  P = cd.PAIR.format(target = "GULP", nr = 13)
  OO = "O-O = as.buck ${A_OO} 0.3623 175.0"

  # -- messages via _Check_Call / _Cexptrk_Potential_Function
  cfgs = [
    ("form too few", P.replace(OO, "O-O = as.buck 1.0")),
    ("form too many", P.replace(OO, "O-O = as.morse 1 2 3 4")),
    ("form none", P.replace(OO, "O-O = as.lj")),
    ("varargs form any count", P.replace(OO, "O-O = as.polynomial 1 2 3 4 5 6 7")),
    ("varargs form zero args", P.replace(OO, "O-O = as.polynomial")),
    ("custom too few", P.replace(OO, "O-O = bks 1 2 3")),
    ("custom too many", P.replace(OO, "O-O = mypoly 1 2 3")),
    ("table form with args", P.replace("Ca-O = tf", "Ca-O = tf 1.0")),
    ("existing form (buck4) too many", P.replace("as.buck4 1000 0.3 30 1.2 2.0 2.6", "as.buck4 1000 0.3 30 1.2 2.0 2.6 7")),
    ("function call too few args", P.replace("as.coul(r, qi,qj)", "as.coul(r, qi)")),
    ("function call too many args", P.replace("as.buck(r, A, rho, C)", "as.buck(r, A, rho, C, 1)")),
    ("nested custom call wrong arity", P.replace("mypoly(r, a, 2*a)", "mypoly(r, a)")),
    ("pymath wrong arity", P.replace("pymath.floor(r)", "pymath.floor(r, 2)")),
    ("pymath ok", P.replace("pymath.floor(r)", "pymath.ceil(r) + pymath.fabs(r) + pymath.gcd(4, 6)")),
    ("unknown function in formula", P.replace("pymath.floor(r)", "pymath.nosuch(r)")),
    ("parse error", P.replace("a*r^2 +", "a*r^2 + +* ")),
    ("name clash with cexprtk builtin", P.replace("mypoly(r, a, b) =", "exp(r, a) = a*r\nmypoly(r, a, b) =")),
    ("name clash with constant", P.replace("mypoly(r, a, b) =", "pi(r) = r\nmypoly(r, a, b) =")),
    ("custom form shadows as. name", P.replace("mypoly(r, a, b) =", "as.buck(r, a) = a*r\nmypoly(r, a, b) =")),
    ("parameter named like function", P.replace("mypoly(r, a, b) = a*r^2", "mypoly(r, a, bks) = a*r^2")),
    ("table form called in formula", P.replace("a*r^2 +", "a*r^2 + tf(r) +")),
    ("table form called in formula wrong arity", P.replace("a*r^2 +", "a*r^2 + tf(r, 1) +")),
  ]
  for label, text in cfgs:
    items.append(("cfg:" + label, cd.try_tabulate(text)))

  # -- [Tabulation] sweep
  vals = {
    "nr": ["", "nr : 2", "nr : 3", "nr : 1", "nr : -5", "nr : 20000", "nr : 1e3", "nr : 0x10", "nr : +7", "nr : 007"],
    "dr": ["", "dr : 0.25", "dr : 1e-4", "dr : 0", "dr : -0.0", "dr : nan", "dr : inf", "dr : 1e400", "dr : 1e-400"],
    "cutoff": ["", "cutoff : 2.5", "cutoff : 0", "cutoff : -0.0", "cutoff : nan", "cutoff : inf", "cutoff : 1e400", "cutoff : 1e-320", "cutoff : 10"],
  }
  rows = []
  for nr, dr, cutoff in itertools.product(vals["nr"], vals["dr"], vals["cutoff"]):
    text = u"[Tabulation]\ntarget : GULP\n{}\n{}\n{}\n{}\n{}\n[Pair]\nA-B : as.polynomial 1 2\n".format(
      nr, dr, cutoff, nr.replace("nr", "nrho"), cutoff.replace("cutoff", "cutoff_rho") if dr else dr.replace("dr", "drho"))
    try:
      t = ConfigParser(io.StringIO(text)).tabulation
      res = repr(t)
    except Exception as e:
      res = "EXC " + cd.describe_exception(e)
    rows.append("{}|{}|{} -> {}".format(nr, dr, cutoff, res))
  items.append(("tabulation sweep ({} combinations)".format(len(rows)), "\n".join(rows)))
  items.append(("tabulation sweep: kinds of outcome", repr(sorted(set([r.split(" -> ")[1].split(" ")[0] + " " + r.split(" -> ")[1].split(" ")[1] for r in rows if "EXC" in r])))))

  # -- spline sweep
  starts = [pf.bornmayer(1000.0, 0.3), pf.zbl(14, 8), pf.buck(500.0, 0.35, 10.0), pf.constant(-2.0), lambda r: 3.0/(r*r)]
  ends = [pf.buck(0.0, 1.0, 30.0), pf.morse(1.5, 2.0, 0.4), pf.lj(0.1, 2.5), pf.zero(), lambda r: -1.0/r**6]
  rows = []
  for (i, s), (j, e) in itertools.product(enumerate(starts), enumerate(ends)):
    for d, a in [(0.8, 1.4), (1.0, 2.5), (1.5, 1.6), (2.0, 1.0)]:
      for kind in ("exp", "buck4"):
        try:
          if kind == "exp":
            sp = SplinePotential(s, e, d, a)
          else:
            sp = Buck4_SplinePotential(s, e, d, a, 0.5*(d + a))
          rr = [0.5*d, d, 0.25*(3*d + a), 0.5*(d + a), 0.25*(d + 3*a), a, 1.5*a]
          res = repr((sp.splineCoefficients, [sp(r) for r in rr], [sp.deriv(r) for r in rr] if hasattr(sp, "deriv") else None, [sp.deriv2(r) for r in rr] if hasattr(sp, "deriv2") else None))
        except Exception as exc:
          res = "EXC " + cd.describe_exception(exc)
        rows.append("{} {} {} {} {} -> {}".format(kind, i, j, d, a, res))
  items.append(("spline sweep ({} set-ups)".format(len(rows)), "\n".join(rows)))
  items.append(("spline sweep: exceptions", repr(sorted(set([r.split(" -> ")[1][:60] for r in rows if " -> EXC" in r])))))

  # direct use of the lower level spline classes
  dp = Spline_Point(starts[0], 1.2)
  apnt = Spline_Point(ends[0], 2.6)
  es = Exp_Spline(dp, apnt)
  b4 = Buck4_Spline(dp, apnt, 2.0)
  items.append(("Exp_Spline direct", repr((es.spline_coefficients, es(1.9), es.deriv(1.9), es.deriv2(1.9)))))
  items.append(("Buck4_Spline direct", repr((b4.spline_coefficients, b4(1.9), b4(2.0), b4(2.1), b4.deriv(2.0), b4.deriv2(2.3), b4._which_spline(1.0) is b4.spline5, b4._which_spline(2.0) is b4.spline3))))
  c = Custom_SplinePotential(b4)
  items.append(("Custom_SplinePotential", repr([(c(r), c.deriv(r), c.deriv2(r)) for r in (1.0, 1.2, 1.9, 2.0, 2.6, 3.0)])))
  return items


def feature_checks():
  import inspect
  from atsim.potentials import potentialforms as pf
  from atsim.potentials.config import _potential_form, _config_parser, _cexprtk_potential_function
  from atsim.potentials.config._common import PotentialFormSignatureTuple, PotentialFormTuple
  from atsim.potentials.spline import Spline_Point, Buck4_Spline

  print("FEATURE CHECKS (twin C)   [every line is expected to be True on the edited tree, False on the clean tree]")
  sig = PotentialFormSignatureTuple("f", ["r", "a", "b"], False)
  cc = _potential_form._Check_Call(sig, True)
  tc = _config_parser._TabulationCutoff("R_Cutoff")
  cf = _cexprtk_potential_function._Cexptrk_Potential_Function(PotentialFormTuple(sig, "a*r+b"))
  sp = Spline_Point(abs, 1.5)

  def check(label, thunk):
    try:
      v = bool(thunk())
    except Exception as e:
      v = "EXC {}".format(type(e).__name__)
    print("  {:78s}: {}".format(label, v))

  def rejects_new_attribute(obj):
    try:
      obj.some_new_attribute = 1
      return False
    except AttributeError:
      return True

  check("_Check_Call has __slots__, no instance __dict__", lambda: not hasattr(cc, "__dict__"))
  check("_Check_Call rejects unknown attributes", lambda: rejects_new_attribute(cc))
  check("_TabulationCutoff has __slots__, no instance __dict__", lambda: not hasattr(tc, "__dict__"))
  check("_TabulationCutoff rejects unknown attributes", lambda: rejects_new_attribute(tc))
  check("repr(_Check_Call) names the form", lambda: repr(cc) == "_Check_Call(label='f', parameter_names=['r', 'a', 'b'], is_varargs=False, is_func_call=True)")
  check("repr(_TabulationCutoff) names its options", lambda: repr(tc) == "_TabulationCutoff('R_Cutoff', nr_attr='nr', dr_attr='dr', cutoff_attr='cutoff')")
  check("repr(_Cexptrk_Potential_Function) shows the formula", lambda: repr(cf) == "_Cexptrk_Potential_Function(f(r,a,b) = a*r+b)")
  check("repr(Spline_Point) shows function and r", lambda: repr(sp) == "Spline_Point(potential_function=<built-in function abs>, r=1.5)")
  check("_Check_Call.required_arg_len annotated '-> int'", lambda: inspect.signature(_potential_form._Check_Call.required_arg_len).return_annotation is int)
  check("_normalise_key annotated (str) -> str", lambda: _config_parser._normalise_key.__annotations__ == {"k": str, "return": str})
  check("_TabulationCutoff documented", lambda: bool(_config_parser._TabulationCutoff.__doc__) and bool(_config_parser._TabulationCutoff.create_cutoff.__doc__))
  check("Buck4_Spline._which_spline documented", lambda: bool(Buck4_Spline._which_spline.__doc__))
  print("  (both trees) evaluating the cexprtk function still works: f(2, 3, 4) = {}".format(cf(2.0, 3.0, 4.0)))
  print("  (both trees) _Check_Call still validates: args_valid(1,2,3) = {}, args_valid(1,2) = {}".format(cc.args_valid(1, 2, 3), cc.args_valid(1, 2)))
  try:
    cf(1.0)
    print("  (both trees) wrong arity into _Cexptrk_Potential_Function: no exception")
  except AssertionError as e:
    print("  (both trees) wrong arity into _Cexptrk_Potential_Function: AssertionError with message {!r} (deliberately left untouched: it is reachable from a potable file)".format(str(e)))


def main():
  verbose = "-v" in sys.argv
  if "--extra-only" in sys.argv:
    items = extra_items()
    print("EXTRA " + cd.sha("\n".join("{}={}".format(k, v) for k, v in items)))
    return
  items, overall = cd.common_digest(logging.INFO)
  cd.print_digest(items, overall, verbose = verbose)
  items = extra_items()
  if verbose:
    for k, v in items:
      print("  {:50s} {}".format(k, v[:250] if "\n" not in v else cd.sha(v)))
  else:
    for k, v in items:
      if k.startswith("tabulation sweep:") or k.startswith("spline sweep:"):
        print("  {:40s} {}".format(k, v[:400]))
  extra = cd.sha("\n".join("{}={}".format(k, v) for k, v in items))
  print("EXTRA DIGEST ({} items): {}".format(len(items), extra))
  outs = cd.hashseed_runs(os.path.join("_twins", "diffC.py"), ["--extra-only"])
  print("EXTRA DIGEST under PYTHONHASHSEED 0/1/4242: {}   all equal to the one above: {}".format(
    ",".join(sorted(set(o.strip() for o in outs))), set(o.strip() for o in outs) == set(["EXTRA " + extra])))
  print("")
  feature_checks()

main()

"""Differential script for twin A (EAM_Potential_Builder / EAM_Potential_Builder_FS,
zero-filling helpers, species consistency check).

Run with:
  /venv/bin/python -W ignore /tmp/wtpy.py /tmp/twin_7 _twins/diffA.py

The script re-executes itself for several PYTHONHASHSEED values (the builders iterate
over sets of species strings, so ordering effects are hash-seed dependent) and prints one
digest per seed plus a combined digest.
"""
import hashlib
import io
import os
import subprocess
import sys

HERE = os.path.dirname(os.path.abspath(__file__))
WT = os.path.dirname(HERE)
SEEDS = ["0", "1", "7", "1234"]


def _read(relpath):
  with open(os.path.join(WT, relpath)) as infile:
    return infile.read()


SMALL_GRID = """[Tabulation]
target : {target}
nr : 40
dr : 0.1
nrho : 30
drho : 0.5
"""

STD_BODY = """
[Potential-Form]
density(r, n) = (n/r^8) * 0.5 * (1+erf(20*(r-1.5)))

[EAM-Embed]
{embed}

[EAM-Density]
{density}

[Pair]
{pair}
"""

FS_BODY = """
[Species]
A.atomic_mass = 1
A.atomic_number = 1
B.atomic_mass = 2
B.atomic_number = 2
{extra_species}

[EAM-Embed]
{embed}

[EAM-Density]
{density}

[Pair]
{pair}
"""


def cases():
  out = []
  # Files shipped with the test-suite
  spinel = _read("tests/config/config_resources/spinel.aspot")
  out.append(("spinel_setfl_fs", spinel))
  out.append(("spinel_tabeam_fs", spinel.replace("target : setfl_fs", "target : DL_POLY_EAM_fs")))
  crg = _read("tests/lammps_resources/CRG_U_Th.aspot")
  crg = crg.replace("nr : 1000", "nr : 50").replace("nrho : 1000", "nrho : 40")
  out.append(("crg_setfl", crg))
  out.append(("crg_tabeam", crg.replace("target :  setfl", "target : DL_POLY_EAM")))
  out.append(("crg_as_fs_target", crg.replace("target :  setfl", "target : setfl_fs")))
  alfe = _read("tests/lammps_resources/AlFe_setfl_fs.aspot")
  alfe = alfe.replace("nrho : 10000", "nrho : 25").replace("nr   : 10000", "nr   : 35")
  out.append(("alfe_fs", alfe))
  out.append(("alfe_fs_as_setfl", alfe.replace("target :setfl_fs", "target : setfl")))
  fsdoc = _read("docs/user_guide/example_files/finnis_sinclair_eam.aspot")
  out.append(("fsdoc", fsdoc))
  stddoc = _read("docs/user_guide/example_files/standard_eam.aspot")
  out.append(("stddoc", stddoc))

  # Standard EAM, element orders and underspecified models
  embeds = {
    "full_a": "Th = as.sqrt -1.185\nU  = as.sqrt -1.806\nO  = as.sqrt -0.690",
    "full_b": "O  = as.sqrt -0.690\nU  = as.sqrt -1.806\nTh = as.sqrt -1.185",
    "no_O": "U  = as.sqrt -1.806\nTh = as.sqrt -1.185",
    "only_O": "O = as.polynomial 0 1 2",
  }
  densities = {
    "full_a": "Th = density 1742.622\nU  = density 3450.995\nO  = density 106.856",
    "full_b": "U  = density 3450.995\nO  = density 106.856\nTh = density 1742.622",
    "no_Th": "U  = density 3450.995\nO  = density 106.856",
    "only_Th": "Th = density 1742.622",
    "extra_Zr_Ce": "Zr = density 10.0\nCe = density 12.0\nU = density 3450.995",
  }
  pair = "O-O = as.buck 830.283 0.352856 3.884372\nU-O = as.buck 448.779 0.387758 0.0\nAg-O = as.buck 100.0 0.3 0.0"
  for target in ["setfl", "DL_POLY_EAM"]:
    for ek in sorted(embeds):
      for dk in sorted(densities):
        ini = SMALL_GRID.format(target=target) + STD_BODY.format(embed=embeds[ek], density=densities[dk], pair=pair)
        out.append(("std_{}_{}_{}".format(target, ek, dk), ini))

  # Finnis-Sinclair, element orders and underspecified models
  fs_embeds = {
    "AB": "A = as.zero\nB = as.polynomial 0 1",
    "BA": "B = as.polynomial 0 1\nA = as.zero",
    "A": "A = as.polynomial 0 2",
    "C_unknown": "C = as.polynomial 0 2",
    "Al_B": "Al = as.sqrt -1.0\nB = as.polynomial 0 1",
  }
  fs_dens = {
    "full": "A->B = as.polynomial 0 3\nB->A = as.polynomial 0 2\nB->B = as.polynomial 0 5\nA->A = as.polynomial 1 1",
    "partial": "A->B = as.polynomial 0 3\nB->A = as.polynomial 0 2\nB->B = as.polynomial 0 5",
    "one": "B->A = as.polynomial 0 2",
    "with_Fe": "B->Fe = as.polynomial 0 2\nFe->Cu = as.polynomial 0 1\nA->A = as.polynomial 1 1",
    "dup": "A->B = as.polynomial 0 3\nA->B = as.polynomial 0 4",
    "bad_form": "A->B = nosuchform 0 3",
    "bad_modifier": "A->B = nosuchmod(as.polynomial 0 3, as.zero)",
  }
  fs_pair = "A-A = as.buck 1000 0.3 1.0\nB-A = as.buck 100 0.2 0.0"
  for target in ["setfl_fs", "DL_POLY_EAM_fs"]:
    for ek in sorted(fs_embeds):
      for dk in sorted(fs_dens):
        ini = SMALL_GRID.format(target=target) + FS_BODY.format(embed=fs_embeds[ek], density=fs_dens[dk], pair=fs_pair, extra_species="")
        out.append(("fs_{}_{}_{}".format(target, ek, dk), ini))
  # Species overrides
  ini = SMALL_GRID.format(target="setfl_fs") + FS_BODY.format(embed=fs_embeds["AB"], density=fs_dens["partial"], pair=fs_pair,
    extra_species="A.lattice_constant = 3.2\nB.lattice_type = bcc\nC.atomic_mass = 3")
  out.append(("fs_species_override", ini))
  # FS style densities with a non FS target and vice versa
  ini = SMALL_GRID.format(target="setfl") + FS_BODY.format(embed=fs_embeds["AB"], density=fs_dens["partial"], pair=fs_pair, extra_species="")
  out.append(("fs_density_std_target", ini))
  ini = SMALL_GRID.format(target="setfl_fs") + FS_BODY.format(embed=fs_embeds["AB"], density="A = as.polynomial 0 1\nB = as.polynomial 0 2", pair=fs_pair, extra_species="")
  out.append(("std_density_fs_target", ini))
  return out


def describe_func(f):
  """Describe a potential function by sampling it"""
  vals = []
  for x in [0.5, 1.0, 2.25, 7.0]:
    try:
      vals.append(repr(f(x)))
    except Exception as e:  # pragma: no cover
      vals.append(type(e).__name__)
  return ",".join(vals)


def describe_eam_potentials(epots):
  lines = []
  ids = {}
  def oid(o):
    return ids.setdefault(id(o), len(ids))
  for ep in epots:
    lines.append("species={!r} Z={!r} mass={!r} a={!r} lat={!r}".format(ep.species, ep.atomicNumber, ep.mass, ep.latticeConstant, ep.latticeType))
    lines.append("  embed obj#{} {}".format(oid(ep.embeddingFunction), describe_func(ep.embeddingFunction)))
    dens = ep.electronDensityFunction
    if hasattr(dens, "keys"):
      # dict iteration order is part of what is recorded here
      for k in dens:
        lines.append("  dens[{!r}] obj#{} {}".format(k, oid(dens[k]), describe_func(dens[k])))
    else:
      lines.append("  dens obj#{} {}".format(oid(dens), describe_func(dens)))
  return "\n".join(lines)


def run_configuration(ini):
  from atsim.potentials.config import Configuration
  rec = []
  try:
    tab = Configuration().read(io.StringIO(ini))
    rec.append("target={}".format(tab.target))
    rec.append(describe_eam_potentials(tab.eam_potentials))
    sio = io.StringIO()
    tab.write(sio)
    rec.append("output sha256={}".format(hashlib.sha256(sio.getvalue().encode("utf-8")).hexdigest()))
  except Exception as e:
    rec.append("EXC {}: {}".format(type(e).__name__, e))
  return "\n".join(rec)


def run_builder_direct(ini, fs, add_undefined):
  """Use the builder classes directly (covers add_undefined = False)"""
  from atsim.potentials.config._config_parser import ConfigParser
  from atsim.potentials.config._potential_form_registry import Potential_Form_Registry
  from atsim.potentials.config._modifier_registry import Modifier_Registry
  from atsim.potentials.config._eam_potential_builder import EAM_Potential_Builder, EAM_Potential_Builder_FS
  from atsim.potentials.referencedata import Reference_Data
  rec = []
  try:
    cp = ConfigParser(io.StringIO(ini))
    pfr = Potential_Form_Registry(cp, True)
    mr = Modifier_Registry()
    cls = EAM_Potential_Builder_FS if fs else EAM_Potential_Builder
    rd = Reference_Data(cp.species)
    builder = cls(cp, pfr, mr, rd, add_undefined)
    rec.append(describe_eam_potentials(builder.eam_potentials))
    # Helper methods that subclasses/other code may call
    rec.append("pp_species={!r}".format(sorted(builder._pp_species(cp))))
  except Exception as e:
    rec.append("EXC {}: {}".format(type(e).__name__, e))
  return "\n".join(rec)


class _Stub_CP(object):
  """Wraps a ConfigParser but repeats / reverses the density rows (a plain config file
  cannot contain duplicate keys)"""

  def __init__(self, cp, transform):
    self._cp = cp
    self._transform = transform

  def __getattr__(self, name):
    v = getattr(self._cp, name)
    if name in ("eam_density_fs", "eam_density", "eam_embed"):
      v = self._transform(list(v))
    return v


def run_stub(ini, fs, transform, add_undefined):
  from atsim.potentials.config._config_parser import ConfigParser
  from atsim.potentials.config._potential_form_registry import Potential_Form_Registry
  from atsim.potentials.config._modifier_registry import Modifier_Registry
  from atsim.potentials.config._eam_potential_builder import EAM_Potential_Builder, EAM_Potential_Builder_FS
  from atsim.potentials.referencedata import Reference_Data
  try:
    cp = ConfigParser(io.StringIO(ini))
    pfr = Potential_Form_Registry(cp, True)
    cls = EAM_Potential_Builder_FS if fs else EAM_Potential_Builder
    builder = cls(_Stub_CP(cp, transform), pfr, Modifier_Registry(), Reference_Data(cp.species), add_undefined)
    return describe_eam_potentials(builder.eam_potentials)
  except Exception as e:
    return "EXC {}: {}".format(type(e).__name__, e)


def stub_cases():
  fs_pair = "A-A = as.buck 1000 0.3 1.0"
  fs = SMALL_GRID.format(target="setfl_fs") + FS_BODY.format(embed="A = as.zero\nB = as.polynomial 0 1",
    density="A->B = as.polynomial 0 3\nB->A = as.polynomial 0 2\nB->B = as.polynomial 0 5", pair=fs_pair, extra_species="")
  std = SMALL_GRID.format(target="setfl") + FS_BODY.format(embed="A = as.zero\nB = as.polynomial 0 1",
    density="A = as.polynomial 0 3\nB = as.polynomial 0 2", pair=fs_pair, extra_species="")
  nomass = std.replace("B.atomic_mass = 2\n", "")
  nonumber = std.replace("A.atomic_number = 1\n", "")
  transforms = [("double", lambda l: l + l), ("reverse", lambda l: l[::-1]), ("empty", lambda l: []), ("last_twice", lambda l: l + l[-1:])]
  out = []
  for tname, t in transforms:
    for add_undefined in (True, False):
      out.append(("stub fs {} {}".format(tname, add_undefined), run_stub(fs, True, t, add_undefined)))
      out.append(("stub std {} {}".format(tname, add_undefined), run_stub(std, False, t, add_undefined)))
  for nm, ini in (("nomass", nomass), ("nonumber", nonumber)):
    out.append((nm + " cfg", run_configuration(ini)))
    out.append((nm + " fs cfg", run_configuration(ini.replace("target : setfl", "target : setfl_fs").replace("A = as.polynomial 0 3", "A->A = as.polynomial 0 3").replace("B = as.polynomial 0 2", "B->A = as.polynomial 0 2"))))
  return out


def child():
  records = []
  for name, rec in stub_cases():
    records.append("### {}".format(name))
    records.append(rec)
  for name, ini in cases():
    records.append("### {}".format(name))
    records.append(run_configuration(ini))
    is_fs = "->" in ini.split("[EAM-Density]")[-1].split("[")[0] if "[EAM-Density]" in ini else False
    for add_undefined in (True, False):
      records.append("## direct fs={} add_undefined={}".format(is_fs, add_undefined))
      records.append(run_builder_direct(ini, is_fs, add_undefined))
  text = "\n".join(records)
  if os.environ.get("TWIN_DUMP"):
    with open(os.environ["TWIN_DUMP"] + "." + os.environ["PYTHONHASHSEED"], "w") as out:
      out.write(text)
  n_exc = text.count("EXC ")
  print("seed={} cases={} exceptions={} sha256={}".format(os.environ["PYTHONHASHSEED"], len(cases()), n_exc, hashlib.sha256(text.encode("utf-8")).hexdigest()))


def parent():
  combined = hashlib.sha256()
  for seed in SEEDS:
    env = dict(os.environ)
    env["PYTHONHASHSEED"] = seed
    env["TWIN_CHILD"] = "1"
    out = subprocess.check_output([sys.executable, "-W", "ignore", "/tmp/wtpy.py", WT, os.path.abspath(__file__)], env=env)
    out = out.decode("utf-8")
    sys.stdout.write(out)
    combined.update(out.encode("utf-8"))
  print("COMBINED DIGEST {}".format(combined.hexdigest()))


if __name__ == "__main__":
  if os.environ.get("TWIN_CHILD"):
    child()
  else:
    parent()

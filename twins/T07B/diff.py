"""Differential script for twin B (Pair_Potentials_From_Tuples_Builder error wrapping and
Potential_Form_Builder multi-range construction).

Run with:
  /venv/bin/python -W ignore /tmp/wtpy.py /tmp/twin_7 _twins/diffB.py

Produces tabulations for several targets from many [Pair] (and EAM/ADP) definitions -
including malformed ones - and digests: the written files, sampled potential values,
exception types + messages and the DEBUG log stream of atsim.potentials.config.
"""
import hashlib
import io
import logging
import os
import re
import subprocess
import sys

HERE = os.path.dirname(os.path.abspath(__file__))
WT = os.path.dirname(HERE)
SEEDS = ["0", "42"]

FORMS = """
[Potential-Form]
born_mayer(r, A, rho) = A * exp(-r/rho)
dispersion(r, C) = - C/r^6
buck_morse(r, A, rho, C, D, gamma, r0) = as.buck(r,A,rho,C) + as.morse(r, gamma, r0, D)
bad_expr(r, A) = A * (r
nested(r, A) = bad_expr(r, A) + 1

[Table-Form:tabulated]
interpolation : cubic_spline
x : 0.5 1.0 2.0 3.0 4.0 8.0
y : 10.0 5.0 1.0 0.5 0.25 0.0
"""

PAIR_SECTIONS = {
  "simple": "O-O = as.buck 1000.0 0.3 32.0\nU-O = as.buck 1000.0 0.3 32.0\nU-U = as.bornmayer 100.0 0.2",
  "simple_reordered": "U-U = as.bornmayer 100.0 0.2\nO-U = as.buck 1000.0 0.3 32.0\nO-O = as.buck 1000.0 0.3 32.0",
  "custom": "A-B = born_mayer 1000.0 0.1\nB-C = dispersion 32.0\nC-D = buck_morse 315.544 0.395903 0.0 0.62614 1.85960 2.49788",
  "multirange": "A-B = as.constant 3.0 >1.0 as.buck 1000.0 0.3 32.0 >=2.5 dispersion 10.0 >6 as.zero\nB-B = >0 as.polynomial 1 2 3 >=3 as.zero\nA-A = >=1.5 tabulated",
  "sum": "A-B = sum(born_mayer 1000.0 0.1, dispersion 32.0)\nB-C = sum(as.bornmayer 1000.0 0.1,  as.buck 0 1.0 32.0)\nC-D = sum(as.bornmayer 1000.0 0.1, dispersion 32.0, tabulated)",
  "sum_multirange": "A-B = sum(as.constant 1.0 >2 as.constant 2.0, >=0 as.polynomial 0 1 >=3 as.zero) >5 as.constant -1",
  "nested_mod": "A-C = sum(sum(as.constant 2.0, as.polynomial 1.0 2.0 1.5, sum(as.polynomial 1.0 2.0 3.0, as.polynomial 4.0 5.0 6.0)), as.polynomial 0.0 -1.0)",
  "spline": "A-B = spline(as.buck 1000.0 0.3 32.0 >=1.0 exp_spline >=2.0 as.constant 0.5)\nB-B = spline(as.zbl 8 8 >=0.8 exp_spline >=1.4 as.buck 1633.0 0.3 3.9)",
  "trans": "A-B = trans(as.buck 1000.0 0.3 32.0, as.constant 1.0)\nA-A = sum(as.buck 1000.0 0.1 0, trans(as.buck 1000.0 0.1 0, as.constant 1.0))",
  "unknown_form": "O-O = as.buck 1000.0 0.3 32.0\nMg-O = nosuchform 1.0 2.0",
  "unknown_form_2nd_range": "Mg-O = as.buck 1000.0 0.3 32.0 >2.0 as.nothing 1.0",
  "unknown_modifier": "O-O = as.buck 1000.0 0.3 32.0\nAl-O = frobnicate(as.buck 1000.0 0.3 32.0, as.zero)",
  "unknown_modifier_nested": "Al-O = sum(as.constant 1.0, frobnicate(as.buck 1000.0 0.3 32.0, as.zero))",
  "unknown_form_in_modifier": "Al-O = sum(as.constant 1.0, mystery 1 2 3)",
  "too_few_args": "O-O = as.buck 1000.0 0.3",
  "too_many_args": "O-O = born_mayer 1000.0 0.3 1.0 5.0",
  "too_many_args_in_sum": "Li-O = sum(as.constant 1.0, born_mayer 1000.0 0.3 1.0 5.0)",
  "bad_expression": "O-O = bad_expr 1.0",
  "bad_nested_expression": "O-O = nested 1.0",
  "spline_bad": "A-B = spline(as.buck 1000.0 0.3 32.0)",
  "trans_bad": "A-B = trans(as.buck 1000.0 0.3 32.0)",
  "empty": "",
}

GRIDS = {
  "LAMMPS": "[Tabulation]\ntarget : LAMMPS\nnr : 30\ndr : 0.25\n",
  "DLPOLY": "[Tabulation]\ntarget : DLPOLY\nnr : 32\ncutoff : 6.0\n",
  "GULP": "[Tabulation]\ntarget : GULP\nnr : 25\ndr : 0.3\n",
}

ADP = """[Tabulation]
target : eam_adp
nr : 20
dr : 0.25
nrho : 20
drho : 0.5

[EAM-Embed]
Al : as.sqrt -1.0
Cu : as.polynomial 0 1 0.5

[EAM-Density]
Al : {dens_al}
Cu : born_mayer 10.0 0.5

[Pair]
Al-Al : as.buck 1000.0 0.3 32.0
Cu-Al : as.buck 800.0 0.3 0.0
Cu-Cu : sum(as.buck 1000.0 0.3 32.0, as.constant 1.0)

[EAM-ADP-Dipole]
{dipole}

[EAM-ADP-Quadrupole]
{quadrupole}
"""

ADP_CASES = {
  "ok": dict(dens_al="born_mayer 12.0 0.4", dipole="Al-Cu : dispersion 1.0 >3 as.zero\nAl-Al : as.zero", quadrupole="Al-Cu : as.polynomial 0 1"),
  "dipole_unknown_form": dict(dens_al="born_mayer 12.0 0.4", dipole="Al-Cu : whatisthis 1.0", quadrupole="Al-Cu : as.polynomial 0 1"),
  "quadrupole_unknown_modifier": dict(dens_al="born_mayer 12.0 0.4", dipole="Al-Cu : as.zero", quadrupole="Al-Cu : wibble(as.polynomial 0 1)"),
  "quadrupole_bad_args": dict(dens_al="born_mayer 12.0 0.4", dipole="Al-Cu : as.zero", quadrupole="Cu-Cu : born_mayer 1"),
  "density_unknown_form": dict(dens_al="unknown_density 12.0 0.4", dipole="Al-Cu : as.zero", quadrupole="Al-Cu : as.zero"),
  "density_unknown_modifier": dict(dens_al="foo(as.zero, as.zero)", dipole="Al-Cu : as.zero", quadrupole="Al-Cu : as.zero"),
  "density_multirange": dict(dens_al="as.constant 1.0 >=1 born_mayer 12.0 0.4 >4 as.zero", dipole="Al-Cu : as.zero", quadrupole="Al-Cu : as.zero"),
}


def cases():
  out = []
  for gk in sorted(GRIDS):
    for pk in sorted(PAIR_SECTIONS):
      out.append(("{}:{}".format(gk, pk), GRIDS[gk] + "\n[Pair]\n" + PAIR_SECTIONS[pk] + "\n" + FORMS))
  for ak in sorted(ADP_CASES):
    out.append(("adp:{}".format(ak), ADP.format(**ADP_CASES[ak]) + FORMS))
  # Files from the test-suite
  with open(os.path.join(WT, "tests/lammps_resources/zbl_spline.aspot")) as infile:
    out.append(("zbl_spline", infile.read()))
  with open(os.path.join(WT, "tests/lammps_resources/CRG_U_Th.aspot")) as infile:
    out.append(("crg", infile.read().replace("nr : 1000", "nr : 40").replace("nrho : 1000", "nrho : 40")))
  return out


class _ListHandler(logging.Handler):

  def __init__(self):
    logging.Handler.__init__(self, logging.DEBUG)
    self.lines = []

  def emit(self, record):
    msg = "{}|{}|{}".format(record.name, record.levelname, record.getMessage())
    self.lines.append(re.sub(r"0x[0-9a-fA-F]+", "0x?", msg))


def sample_potentials(pots):
  lines = []
  for p in pots:
    vals = []
    for r in [0.75, 1.0, 1.5, 2.0, 2.5, 3.0, 4.5, 6.5]:
      try:
        vals.append(repr(p.energy(r)))
      except Exception as e:
        vals.append(type(e).__name__)
    lines.append("{}-{}: {}".format(p.speciesA, p.speciesB, " ".join(vals)))
  return lines


def run_case(ini):
  from atsim.potentials.config import Configuration
  rec = []
  try:
    tab = Configuration().read(io.StringIO(ini))
    rec.append("target={}".format(tab.target))
    rec.extend(sample_potentials(tab.potentials))
    sio = io.StringIO()
    tab.write(sio)
    rec.append("output sha256={}".format(hashlib.sha256(sio.getvalue().encode("utf-8")).hexdigest()))
  except Exception as e:
    rec.append("EXC {} [{}]: {} | args={!r}".format(type(e).__name__, ",".join(c.__name__ for c in type(e).__mro__[1:4]), e, e.args))
  return rec


def run_direct():
  """Drive the builder classes directly, including with hand-made tuples"""
  from atsim.potentials.config._config_parser import ConfigParser
  from atsim.potentials.config._potential_form_registry import Potential_Form_Registry
  from atsim.potentials.config._modifier_registry import Modifier_Registry
  from atsim.potentials.config._pair_potential_builder import Pair_Potentials_From_Tuples_Builder, Pair_Potential_Builder
  from atsim.potentials.config._potential_form_builder import Potential_Form_Builder
  from atsim.potentials.config._common import PotentialFormInstanceTuple, PotentialModifierTuple, MultiRangeDefinitionTuple, PairPotentialTuple, SpeciesTuple
  rec = []
  cp = ConfigParser(io.StringIO(GRIDS["LAMMPS"] + "\n[Pair]\n" + PAIR_SECTIONS["multirange"] + "\n" + FORMS))
  pfr = Potential_Form_Registry(cp, True)
  mr = Modifier_Registry()

  ppb = Pair_Potential_Builder(cp, pfr, mr)
  first = ppb.potentials
  rec.append("cached={}".format(first is ppb.potentials))
  rec.extend(sample_potentials(first))

  pfb = Potential_Form_Builder(pfr, mr)
  PFI = PotentialFormInstanceTuple
  MRD = MultiRangeDefinitionTuple
  instances = [
    PFI("as.constant", [2.0], None, None),
    PFI("as.constant", [2.0], MRD(">", 1.0), None),
    PFI("as.constant", [2.0], MRD(">=", 1.0), PFI("as.polynomial", [0.0, 1.0], MRD(">", 2.0), PFI("as.zero", [], MRD(">=", 4.5), None))),
    PFI("as.constant", [2.0], None, PFI("nothing_here", [0.0, 1.0], MRD(">", 2.0), None)),
    PFI("nothing_here", [2.0], None, PFI("nothing_there", [0.0, 1.0], MRD(">", 2.0), None)),
    PotentialModifierTuple("sum", [PFI("as.constant", [2.0], None, None), PFI("as.polynomial", [0.0, 1.0], MRD(">", 2.0), None)], MRD(">", 0.5), PFI("as.zero", [], MRD(">=", 4.5), None)),
    PotentialModifierTuple("no_modifier", [PFI("as.constant", [2.0], None, None)], None, None),
    PFI("as.buck", [2.0], None, None),
    None,
    "a string",
  ]
  for inst in instances:
    try:
      f = pfb.create_potential_function(inst)
      vals = [repr(f(r)) for r in [0.25, 0.5, 1.0, 2.0, 2.5, 4.5, 5.0]]
      rec.append("pfb {!r} -> {} {}".format(inst, type(f).__name__, " ".join(vals)))
    except Exception as e:
      rec.append("pfb {!r} -> EXC {}: {} | args={!r}".format(inst, type(e).__name__, e, e.args))
    try:
      t = pfb._make_multi_range_tuple(inst)
      rec.append("  mrt {} {!r} {!r} {}".format(type(t).__name__, t.range_type, t.start, type(t.potential_form).__name__ if hasattr(t, "potential_form") else [type(x).__name__ for x in t]))
    except Exception as e:
      rec.append("  mrt EXC {}: {}".format(type(e).__name__, e))

  for section_name in ["Pair", "EAM-ADP-Dipole", "Some {odd} name"]:
    for inst in instances[:8]:
      tuples = [PairPotentialTuple(SpeciesTuple("Xe", "Kr"), PFI("as.zero", [], None, None)), PairPotentialTuple(SpeciesTuple("Na", "Cl"), inst)]
      try:
        b = Pair_Potentials_From_Tuples_Builder(tuples, pfr, mr, section_name)
        rec.extend(sample_potentials(b.potentials))
      except Exception as e:
        rec.append("tuples [{}] EXC {}: {} | args={!r}".format(section_name, type(e).__name__, e, e.args))
  return rec


def child():
  handler = _ListHandler()
  logger = logging.getLogger("atsim")
  logger.setLevel(logging.DEBUG)
  logger.addHandler(handler)
  logger.propagate = False

  records = []
  all_cases = cases()
  for name, ini in all_cases:
    records.append("### {}".format(name))
    start = len(handler.lines)
    records.extend(run_case(ini))
    records.append("log lines={} sha256={}".format(len(handler.lines) - start, hashlib.sha256("\n".join(handler.lines[start:]).encode("utf-8")).hexdigest()))
  records.append("### direct")
  start = len(handler.lines)
  records.extend(run_direct())
  records.extend(handler.lines[start:])
  text = "\n".join(records)
  if os.environ.get("TWIN_DUMP"):
    with open(os.environ["TWIN_DUMP"] + "." + os.environ["PYTHONHASHSEED"], "w") as out:
      out.write(text)
      out.write("\n#### FULL LOG\n")
      out.write("\n".join(handler.lines))
  full = text + "\n".join(handler.lines)
  print("seed={} cases={} exceptions={} loglines={} sha256={}".format(os.environ["PYTHONHASHSEED"], len(all_cases), text.count("EXC "), len(handler.lines), hashlib.sha256(full.encode("utf-8")).hexdigest()))


def parent():
  combined = hashlib.sha256()
  for seed in SEEDS:
    env = dict(os.environ)
    env["PYTHONHASHSEED"] = seed
    env["TWIN_CHILD"] = "1"
    out = subprocess.check_output([sys.executable, "-W", "ignore", "/tmp/wtpy.py", WT, os.path.abspath(__file__)], env=env)
    out = out.decode("utf-8")
    sys.stdout.write(out)
    combined.update(out.encode("utf-8"))
  print("COMBINED DIGEST {}".format(combined.hexdigest()))


if __name__ == "__main__":
  if os.environ.get("TWIN_CHILD"):
    child()
  else:
    parent()

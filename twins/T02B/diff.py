# -*- coding: utf-8 -*-
"""Differential script for twin B (writeFuncFL / _writeValueBlock restructuring).

Exercises atsim.potentials.writeFuncFL on many grids (so that every block length
modulo 5 and the empty block occur), species, pair functions, titles and
malformed inputs (including inputs for which several different exceptions compete, so
that any change in evaluation order would show up).

usage: wtpy.py <worktree> _twins/diffB.py [-v]
"""
import os, sys
sys.path.insert(0, os.path.dirname(os.path.abspath(__file__)))
import _harness as H

rec = H.Recorder()
H.cases_funcfl(rec)
H.report(rec, "twinB", "-v" in sys.argv)

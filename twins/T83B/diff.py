"""Differential script for twin B (potable: run(argv=None) + __main__.py).

Drives atsim.potentials.tools.potable.main() in-process with a patched
sys.argv over a varied set of command lines (tabulation to all targets, EAM
models, queries, filters, overrides, malformed input) and prints a sha256
digest of everything observable: exit status, stdout, stderr/log text,
bytes of the file written.

Where the package provides __main__.py / run(), the same command lines are
also run through `python -m atsim.potentials.tools.potable` (subprocess) and
through run(argv) and compared with the in-process main() result; that
consistency line is reported separately from the digest (it cannot exist on
the clean tree).

Usage: /venv/bin/python -W ignore /tmp/wtpy.py /tmp/wt_r8_3 _twins/diffB.py
"""
import contextlib
import hashlib
import importlib
import io
import logging
import os
import shutil
import subprocess
import sys
import tempfile

WT = os.path.dirname(os.path.dirname(os.path.abspath(__file__)))
os.environ["COLUMNS"] = "80"
os.environ["LINES"] = "24"

EX = os.path.join(WT, "docs", "user_guide", "example_files")
BASAK = os.path.join(WT, "docs", "quick_start", "basak.aspot")
STD_EAM = os.path.join(EX, "standard_eam.aspot")
FS_EAM = os.path.join(EX, "finnis_sinclair_eam.aspot")
TABLE_FORM = os.path.join(EX, "basak_table_form.aspot")
SPLINE = os.path.join(EX, "morelon_buck4_spline.aspot")
CUSTOM = os.path.join(EX, "basak_custom_potential_form_a.aspot")
SPINEL = os.path.join(WT, "tests", "config", "config_resources", "spinel.aspot")
CRG = os.path.join(WT, "tests", "lammps_resources", "CRG_U_Th.aspot")

BROKEN = """[Tabulation]
target : NOT_A_TARGET
cutoff : 2.0
nr : 10

[Pair]
O-O = as.buck 1.0 0.3 0.0
"""

BROKEN2 = """[Tabulation]
target : LAMMPS
cutoff : 2.0
nr : 10

[Pair]
O-O = no_such_form 1.0 0.3 0.0
"""

SMALL = ["-e", "Tabulation:nr=40"]

CASES = [
  # plain tabulation, the three pair targets
  [BASAK, "TABLE"] + SMALL,
  [BASAK, "out.lmptab", "-e", "Tabulation:target=LAMMPS", "Tabulation:nr=25"],
  [BASAK, "out.gulp", "--override-item", "Tabulation:target=GULP", "--override-item", "Tabulation:nr=30"],
  [BASAK, "TABLE", "-e", "Tabulation:nr=36", "-e", "Tabulation:cutoff=4.25"],
  [TABLE_FORM, "tf.lmptab", "-e", "Tabulation:nr=50"],
  [SPLINE, "spl.lmptab", "-e", "Tabulation:dr=0.25"],
  [CUSTOM, "custom.out"] + SMALL,
  # EAM
  [STD_EAM, "std.eam"],
  [STD_EAM, "std_dl.eam", "-e", "Tabulation:target=DL_POLY_EAM"],
  [STD_EAM, "std_excl.eam", "--exclude-species", "B"],
  [FS_EAM, "fs.eam"],
  [FS_EAM, "fs_incl.eam", "--include-species", "B"],
  [SPINEL, "spinel.eam", "-e", "Tabulation:nrho=20", "-a", "Tabulation:nr=20"],
  [CRG, "crg.eam", "-e", "Tabulation:nr=20", "Tabulation:nrho=20", "--include-species", "U", "O"],
  [CRG, "crg2.eam", "-e", "Tabulation:nr=20", "Tabulation:nrho=20", "--include-species", "O", "U"],
  # filters, add, remove
  [BASAK, "TABLE", "--include-species", "O"] + SMALL,
  [BASAK, "TABLE", "--exclude-species", "O"] + SMALL,
  [BASAK, "TABLE", "--include-species", "U", "O", "-e", "Tabulation:nr=24"],
  [BASAK, "TABLE", "-r", "Pair:O-U"] + SMALL,
  [BASAK, "TABLE", "-r", "Tabulation:nr", "-a", "Tabulation:dr=0.5"],
  [BASAK, "TABLE", "-a", "Pair:U-Xe=as.buck 10.0 0.3 1.0"] + SMALL,
  [BASAK, "TABLE", "-a", "Pair:O-O=as.buck 10.0 0.3 1.0"] + SMALL,
  [BASAK, "TABLE", "-e", "Pair:Xe-Xe=as.buck 10.0 0.3 1.0"] + SMALL,
  [BASAK, "TABLE", "-r", "Pair:Xe-Xe"] + SMALL,
  [BASAK, "TABLE", "-e", "Tabulation:nr=40", "-r", "Tabulation:nr"],
  # queries
  [BASAK, "--list-items"],
  [BASAK, "-l", "-e", "Tabulation:nr=99", "-a", "Pair:Xe-Xe=as.zero"],
  [BASAK, "--list-item-labels"],
  [CRG, "-l"],
  [CRG, "--list-item-labels", "--exclude-species", "Th"],
  [TABLE_FORM, "-l"],
  [TABLE_FORM, "--item-value", "Table-Form:tabulated:interpolation"],
  [BASAK, "--item-value", "Pair:O-O"],
  [BASAK, "--item-value", "Tabulation:cutoff", "-e", "Tabulation:cutoff=9.5"],
  [BASAK, "ignored.out", "--item-value", "Tabulation:target"],
  [FS_EAM, "--item-value", "EAM-Density:A->B"],
  # malformed input
  [BASAK, "--item-value", "Pair"],
  [BASAK, "--item-value", "Pair:Zz-Zz"],
  [BASAK, "--item-value", "Nope:O-O"],
  [BASAK, "TABLE", "-e", "Tabulation:nr"],
  [BASAK, "TABLE", "-e", "nr=10"],
  [BASAK, "TABLE", "-a", "Tabulation"],
  [BASAK, "TABLE", "-r", "Tabulation"],
  [BASAK, "TABLE", "-r", "Tabulation:nr=10"],
  [BASAK, "TABLE", "-e", "Tabulation:target=WRONG"],
  [BASAK, "TABLE", "-e", "Tabulation:nr=abc"],
  [BASAK],
  [BASAK, "--list-items", "--list-item-labels"],
  [BASAK, "TABLE", "--include-species", "O", "--exclude-species", "U"],
  [BASAK, "TABLE", "extra_positional"],
  [BASAK, "TABLE", "--no-such-option"],
  ["/nonexistent/dir/missing.aspot", "TABLE"],
  ["@BROKEN@", "TABLE"],
  ["@BROKEN2@", "TABLE"],
  ["@BROKEN@", "-l"],
  ["@EMPTY@", "TABLE"],
  ["@EMPTY@", "-l"],
  [],
  ["--help"],
  ["-h", BASAK],
]


def _prepare(workdir):
  with open(os.path.join(workdir, "broken.aspot"), "w") as f:
    f.write(BROKEN)
  with open(os.path.join(workdir, "broken2.aspot"), "w") as f:
    f.write(BROKEN2)
  with open(os.path.join(workdir, "empty.aspot"), "w") as f:
    pass


def _subst(argv, workdir):
  m = {"@BROKEN@": os.path.join(workdir, "broken.aspot"),
       "@BROKEN2@": os.path.join(workdir, "broken2.aspot"),
       "@EMPTY@": os.path.join(workdir, "empty.aspot")}
  return [m.get(a, a) for a in argv]


def _collect_files(workdir):
  out = []
  for name in sorted(os.listdir(workdir)):
    if name.endswith(".aspot"):
      continue
    with open(os.path.join(workdir, name), "rb") as f:
      out.append((name, hashlib.sha256(f.read()).hexdigest()))
  return out


def _normalise(text, workdir):
  return text.replace(workdir, "<TMP>").replace(WT, "<WT>")


def _reset_logging():
  root = logging.getLogger()
  for h in list(root.handlers):
    root.removeHandler(h)


def in_process(argv, prog, call):
  """call(potable_module, argv) is run with sys.argv patched; returns record"""
  workdir = tempfile.mkdtemp(prefix="twin_")
  oldcwd = os.getcwd()
  old_argv = sys.argv
  try:
    _prepare(workdir)
    os.chdir(workdir)
    argv = _subst(argv, workdir)
    import atsim.potentials.tools.potable as potable
    _reset_logging()
    out, err = io.StringIO(), io.StringIO()
    status = None
    with contextlib.redirect_stdout(out), contextlib.redirect_stderr(err):
      try:
        status = ("returned", repr(call(potable, prog, argv)))
      except SystemExit as e:
        status = ("SystemExit", repr(e.code))
      except BaseException as e:  # noqa
        status = ("raised", type(e).__name__, _normalise(str(e), workdir))
    _reset_logging()
    return (status, _normalise(out.getvalue(), workdir), _normalise(err.getvalue(), workdir), _collect_files(workdir))
  finally:
    sys.argv = old_argv
    os.chdir(oldcwd)
    shutil.rmtree(workdir, ignore_errors=True)


def call_main(potable, prog, argv):
  sys.argv = [prog] + list(argv)
  return potable.main()


def call_run(potable, prog, argv):
  # sys.argv deliberately holds rubbish: run(argv) must not look at it,
  # apart from the program name
  sys.argv = [prog, "/rubbish/that/does/not/exist", "--rubbish"]
  return potable.run(list(argv))


def dash_m(argv):
  workdir = tempfile.mkdtemp(prefix="twin_")
  try:
    _prepare(workdir)
    argv = _subst(argv, workdir)
    # wtpy.py chdirs to the worktree, so go through a -c shim that chdirs to workdir
    code = ("import os, sys, runpy; os.chdir(%r); "
            "runpy.run_module('atsim.potentials.tools.potable', run_name='__main__', alter_sys=True)" % workdir)
    p = subprocess.run([sys.executable, "-W", "ignore", "/tmp/wtpy.py", WT, "-c", code] + argv,
                       stdout=subprocess.PIPE, stderr=subprocess.PIPE, universal_newlines=True)
    status = ("SystemExit", repr(p.returncode))
    return (status, _normalise(p.stdout, workdir), _normalise(p.stderr, workdir), _collect_files(workdir))
  finally:
    shutil.rmtree(workdir, ignore_errors=True)


def main():
  h = hashlib.sha256()
  records = []
  for argv in CASES:
    rec = in_process(argv, "potable", call_main)
    records.append(rec)
    h.update(repr((argv, rec)).replace(WT, "<WT>").encode("utf-8"))
    if "-v" in sys.argv[1:]:
      print(argv, rec[0], len(rec[1]), len(rec[2]), rec[3])
  n_ok = sum(1 for r in records if r[0] == ("SystemExit", "0"))
  print("cases: %d  (exit 0: %d, other: %d)" % (len(records), n_ok, len(records) - n_ok))
  print("DIGEST main() in-process:", h.hexdigest())

  import atsim.potentials.tools.potable as potable
  has_run = hasattr(potable, "run")
  try:
    has_dash_m = importlib.util.find_spec("atsim.potentials.tools.potable.__main__") is not None
  except Exception:
    has_dash_m = False

  if has_run:
    bad = 0
    for argv, rec in zip(CASES, records):
      if in_process(argv, "potable", call_run) != rec:
        bad += 1
        print("  run(argv) MISMATCH for", argv)
    print("run(argv) vs main(): %d/%d identical" % (len(CASES) - bad, len(CASES)))
  else:
    print("run(argv) vs main(): n/a (no run() in this tree)")

  if has_dash_m:
    bad = 0
    for argv in CASES:
      # argparse takes the program name from sys.argv[0], which is __main__.py under -m
      expect = in_process(argv, "__main__.py", call_main)
      status = expect[0]
      if status == ("SystemExit", "None"):
        status = ("SystemExit", "0")
      expect = (status,) + expect[1:]
      got = dash_m(argv)
      if got != expect:
        bad += 1
        print("  python -m MISMATCH for", argv)
        print("     expect", expect)
        print("     got   ", got)
    print("python -m vs main(): %d/%d identical" % (len(CASES) - bad, len(CASES)))
  else:
    print("python -m vs main(): n/a (no __main__.py in this tree)")


if __name__ == "__main__":
  main()

"""Differential script for twin B ([Table-Form] parsing, _TableFormSection in
atsim/potentials/config/_config_parser.py).

Goes through the public ConfigParser / Configuration / potable CLI entry points
with many well formed and malformed [Table-Form:...] sections and prints a
sha256 digest of everything observed."""
import contextlib
import hashlib
import io
import os
import struct
import sys
import tempfile

from atsim.potentials.config import ConfigParser, Configuration
from atsim.potentials.tools.potable import main as potable_main

OUT = []
os.environ["COLUMNS"] = "80"

def rec(*items):
  OUT.append(repr(items))

def fl(v):
  if isinstance(v, float):
    return struct.pack(">d", v).hex()
  if isinstance(v, (list, tuple)):
    return [fl(i) for i in v]
  return repr(v)

def attempt(label, f):
  try:
    rec(label, "ok", f())
  except Exception as e:
    rec(label, "exc", type(e).__name__, type(e).__mro__[1].__name__, str(e))

def table_forms(cfg):
  cp = ConfigParser(io.StringIO(cfg))
  tfs = cp.table_form
  # Second access must give the cached object
  again = cp.table_form
  return [(type(t).__name__, t.name, t.interpolation, fl(t.x), fl(t.y), type(t.x).__name__, type(t.y).__name__) for t in tfs], tfs is again, sorted(cp.orphan_sections)

SECTIONS = {
  "x_y" : """
[Table-Form:cubic_spline]
interpolation : cubic_spline
x : 0 0.01370 0.02740 0.05481 0.06303
y : 0.0 -2.9239 -4.2953 -2.8523 0.0
""",
  "xy_multiline" : """
[Table-Form:cubic_spline]
interpolation : cubic_spline
xy : 0.0      0.0
     0.01370 -2.9239
     0.02740 -4.2953
     0.05481 -2.8523
     0.06303 0.0
""",
  "default_interp" : """
[Table-Form:T]
x : 0 0.01370 0.02740 0.05481 0.06303
y : 0.0 -2.9239 -4.2953 -2.8523 0.0
""",
  "y_before_x" : """
[Table-Form: spaced name ]
y : 1e0 2E1 .3e2 4.e-1
x : -1 +2 3. 1_0
interpolation : something_else
""",
  "xy_one_line" : """
[Table-Form:a]
xy : 1 2 3 4 5 6 7 8 9 10 11 12
""",
  "xy_tabs" : "\n[Table-Form:tabs]\nxy : 1\t2\n  3\t4\n  5 \t 6\n",
  "several" : """
[Table-Form:b]
xy : 1 10 2 20 3 30 4 40

[Pair]
A-B : as.buck 1000.0 0.2 32.0

[Table-Form:a]
x : 4 3 2 1
y : 1 2 3 4

[Table-Form:]
x : 1 2 3 4
y : 4 5 6 7

[Table-Form:c:d]
x = 0.1 0.2 0.3 0.4 0.5
y = inf -inf nan 1e400 -0.0

[Not-Table-Form:z]
x : 1

[Table-Formation]
x : 1
""",
  "empty_values" : """
[Table-Form:e]
x :
y :
""",
  "empty_xy" : """
[Table-Form:e]
xy :
""",
  "upper_keys" : """
[Table-Form:u]
X : 1 2 3 4
Y : 1 2 3 4
""",
  "upper_xy" : """
[Table-Form:u]
XY : 1 2 3 4
""",
  # malformed ---------------------------------------------------------------
  "dup_names" : """
[Table-Form:same_name]
x : 1 2 3
y : 1 2 3

[Table-Form:same_name]
x : 1 2 3
y : 1 2 3
""",
  "dup_names_ws" : """
[Table-Form:same_name ]
x : 1 2 3
y : 1 2 3

[Table-Form: same_name]
x : 1 2 3
y : 1 2 3

[Table-Form:other]
xy : 1 2

[Table-Form:  same_name  ]
xy : 1 2
""",
  "two_dups" : """
[Table-Form:q ]
xy : 1 2
[Table-Form:p ]
xy : 1 2
[Table-Form:p]
xy : 1 2
[Table-Form:q]
xy : 1 2
""",
  "x_y_xy" : """
[Table-Form:bad-input-3]
x : 1 2 3
y : 1 2 3
xy : 0.0      0.0
     0.01370 -2.9239
""",
  "x_xy" : """
[Table-Form:bad-input-4]
x : 1 2 3
xy : 0.0      0.0
     0.01370 -2.9239
""",
  "y_xy" : """
[Table-Form:bad-input-5]
y : 1 2 3
xy : 0.0      0.0
     0.01370 -2.9239
""",
  "x_only" : """
[Table-Form:only-x]
x : 1 2 3
""",
  "y_only" : """
[Table-Form:only-y]
interpolation : cubic_spline
y : 1 2 3
""",
  "no_data" : """
[Table-Form:nodata]
interpolation : cubic_spline
""",
  "no_data_at_all" : """
[Table-Form:nodata]
""",
  "short_x" : """
[Table-Form:bad-input-6]
x : 1 2
y : 1 2 3
""",
  "short_y" : """
[Table-Form:bad-input-7]
x : 1 2 3
y : 1 2
""",
  "odd_xy" : """
[Table-Form:bad-input-8]
xy : 0.0      0.0
     0.01370 -2.9239
     0.06303
""",
  "bad_float_x_and_y" : """
[Table-Form:bad-input-9]
x : 1 b 3
y : 1 2 c
""",
  "bad_float_y" : """
[Table-Form:bad-y]
x : 1 2 3
y : 1 2,5 c
""",
  "bad_float_x_and_len" : """
[Table-Form:bad-x-len]
x : 1 2 three
y : 1
""",
  "bad_float_xy" : """
[Table-Form:bad-xy]
xy : 1 2 3 4 5 six 7
""",
  "bad_float_xy_unicode" : u"""
[Table-Form:bad-xy]
xy : 1 2 3 4 5 ½
""",
  "second_bad" : """
[Table-Form:good]
xy : 1 2 3 4

[Table-Form:bad]
x : 1 2
y : 1

[Table-Form:worse]
x : a
y : b
""",
}

for name in sorted(SECTIONS):
  attempt(("table_forms", name), lambda: table_forms(SECTIONS[name]))

# Through Configuration / tabulation (LAMMPS + DL_POLY pair tabulations)
PAIR_TEMPLATE = """
[Tabulation]
target : {target}
cutoff : {cutoff}
nr : {nr}

[Pair]
{pairs}

[Potential-Form]
shifted(r, s) = tf_xy(r) + s

{tables}
"""
TABLES_1 = """
[Table-Form:tf_xy]
xy : 0.5 10.0
     1.0 4.0
     1.5 1.0
     2.0 0.25
     2.5 0.0625
     3.5 0.0

[Table-Form:tf_x_y]
interpolation: cubic_spline
y : 3.0 2.0 1.5 0.75 0.2 0.05 0.0
x : 0.25 0.75 1.25 1.75 2.25 2.75 3.25
"""
for target in ("LAMMPS", "DL_POLY", "GULP"):
  for pairs in ("A-B : tf_xy\nB-B : tf_x_y\nA-A : shifted 0.5", "B-B : tf_x_y\nA-B : sum(tf_xy, as.buck 1000.0 0.3 5.0)"):
    for cutoff, nr in ((4.0, 40), (3.3, 16)):
      cfg = PAIR_TEMPLATE.format(target=target, cutoff=cutoff, nr=nr, pairs=pairs, tables=TABLES_1)
      def tabulate():
        tabulation = Configuration().read(io.StringIO(cfg))
        sio = io.StringIO()
        tabulation.write(sio)
        return hashlib.sha256(sio.getvalue().encode()).hexdigest(), len(sio.getvalue())
      attempt(("tabulate", target, pairs, cutoff, nr), tabulate)

for name in ("x_xy", "short_y", "odd_xy", "bad_float_xy", "no_data", "dup_names"):
  cfg = PAIR_TEMPLATE.format(target="LAMMPS", cutoff=3.0, nr=10, pairs="A-B : as.buck 1000.0 0.3 5.0", tables=SECTIONS[name])
  attempt(("tabulate_bad", name), lambda: Configuration().read(io.StringIO(cfg)))

# Shipped resource using long xy Table-Forms (eam_adp)
def adp():
  with open(os.path.join("tests", "lammps_resources", "Al_Cu_adp.aspot")) as infile:
    cp = ConfigParser(infile)
  return [(t.name, t.interpolation, len(t.x), len(t.y), hashlib.sha256(repr((fl(t.x), fl(t.y))).encode()).hexdigest()) for t in cp.table_form]
attempt("Al_Cu_adp", adp)

# potable command line: tabulation, listing and errors
def run_cli(cfg, extra):
  with tempfile.TemporaryDirectory() as tmpdir:
    cfgname = os.path.join(tmpdir, "in.aspot")
    outname = os.path.join(tmpdir, "out.table")
    with open(cfgname, "w") as outfile:
      outfile.write(cfg)
    argv = ["potable"] + [a.replace("@OUT@", outname) for a in extra(cfgname)]
    stdout, stderr = io.StringIO(), io.StringIO()
    old_argv = sys.argv
    sys.argv = argv
    code = None
    try:
      with contextlib.redirect_stdout(stdout), contextlib.redirect_stderr(stderr):
        try:
          potable_main()
        except SystemExit as e:
          code = e.code
    finally:
      sys.argv = old_argv
    written = None
    if os.path.exists(outname):
      with open(outname) as infile:
        written = hashlib.sha256(infile.read().encode()).hexdigest()
    return code, stdout.getvalue().replace(tmpdir, "TMP"), stderr.getvalue().replace(tmpdir, "TMP"), written

good = PAIR_TEMPLATE.format(target="LAMMPS", cutoff=4.0, nr=25, pairs="A-B : tf_xy\nB-B : tf_x_y", tables=TABLES_1)
attempt(("cli", "tabulate"), lambda: run_cli(good, lambda c: [c, "@OUT@"]))
attempt(("cli", "list"), lambda: run_cli(good, lambda c: [c, "--list-items"]))
attempt(("cli", "labels"), lambda: run_cli(good, lambda c: [c, "--list-item-labels"]))
attempt(("cli", "item"), lambda: run_cli(good, lambda c: [c, "--item-value", "Table-Form:tf_xy:xy"]))
attempt(("cli", "override"), lambda: run_cli(good, lambda c: [c, "@OUT@", "-e", "Table-Form:tf_x_y:y=3 2 1 0.5 0.25 0.1 0"]))
attempt(("cli", "override_bad"), lambda: run_cli(good, lambda c: [c, "@OUT@", "-e", "Table-Form:tf_x_y:y=3 2 1 0.5 0.25 0.1"]))
attempt(("cli", "add_xy"), lambda: run_cli(good, lambda c: [c, "@OUT@", "-a", "Table-Form:tf_x_y:xy=1 2 3 4"]))
attempt(("cli", "remove_x"), lambda: run_cli(good, lambda c: [c, "@OUT@", "-r", "Table-Form:tf_x_y:x"]))
for name in ("x_y_xy", "x_only", "short_x", "odd_xy", "bad_float_x_and_y", "bad_float_xy", "no_data", "dup_names_ws", "two_dups"):
  cfg = PAIR_TEMPLATE.format(target="LAMMPS", cutoff=3.0, nr=10, pairs="A-B : as.buck 1000.0 0.3 5.0", tables=SECTIONS[name])
  attempt(("cli_bad", name), lambda: run_cli(cfg, lambda c: [c, "@OUT@"]))

blob = "\n".join(OUT).encode("utf-8")
print("records", len(OUT))
print("sha256", hashlib.sha256(blob).hexdigest())
if "--dump" in sys.argv:
  print("\n".join(o[:300] for o in OUT))

# ---------------------------------------------------------------------------
# Shared fixture code (copied verbatim into every diffX.py so that each script
# is self contained).
# ---------------------------------------------------------------------------
import hashlib
import io
import math
import sys

from atsim.potentials import EAMPotential, Potential
from atsim.potentials import writeFuncFL, writeSetFL, writeSetFLFinnisSinclair
from atsim.potentials import writeTABEAM, writeTABEAMFinnisSinclair
from atsim.potentials import eam_tabulation
from atsim.potentials.config import Configuration


class RecordingFile(object):
  """File like object remembering every chunk passed to write()."""

  def __init__(self):
    self.chunks = []

  def write(self, s):
    if not isinstance(s, str):
      raise TypeError("string argument expected, got %r" % type(s).__name__)
    self.chunks.append(s)
    return len(s)

  def getvalue(self):
    return "".join(self.chunks)


RESULTS = []


def record(label, thunk):
  """Run thunk(out), store (label, outcome) where outcome is made of plain data only"""
  out = RecordingFile()
  try:
    retval = thunk(out)
    outcome = ("ok", repr(retval), len(out.chunks), hashlib.sha256(out.getvalue().encode("utf-8")).hexdigest(),
               hashlib.sha256(repr(out.chunks).encode("utf-8")).hexdigest())
  except Exception as e:  # noqa
    outcome = ("exc", type(e).__name__, str(e), len(out.chunks), hashlib.sha256(repr(out.chunks).encode("utf-8")).hexdigest())
  RESULTS.append((label, outcome))
  print("%-58s %s" % (label, hashlib.sha256(repr(outcome).encode("utf-8")).hexdigest()[:16]), outcome[0], outcome[1] if outcome[0] == "exc" else "")


def finish():
  print("TOTAL_CASES", len(RESULTS))
  print("DIGEST", hashlib.sha256(repr(RESULTS).encode("utf-8")).hexdigest())


# -- python level models ------------------------------------------------------
def embed_sqrt(a):
  def f(rho):
    return -a * math.sqrt(rho)
  return f

def embed_poly(a, b):
  def f(rho):
    return a * rho - b * rho ** 2 + 1e-7 * rho ** 3
  return f

def dens_exp(a, b):
  def f(r):
    return a * math.exp(-b * r)
  return f

def dens_pow(a, n):
  def f(r):
    if r == 0.0:
      return 0.0
    return (a / r) ** n
  return f

def pair_buck(A, rho, C):
  def f(r):
    if r == 0.0:
      return 0.0
    return A * math.exp(-r / rho) - C / r ** 6
  return f

def pair_morse(D, g, r0):
  def f(r):
    return D * (math.exp(-2.0 * g * (r - r0)) - 2.0 * math.exp(-g * (r - r0)))
  return f

def bad_log(r):
  # raises ValueError (math domain error) at r == 0.0
  return math.log(r)

def bad_after(limit):
  def f(r):
    if r > limit:
      raise RuntimeError("function evaluated beyond %r" % limit)
    return 1.0 / (1.0 + r)
  return f


def model_single():
  eam = [EAMPotential("Ag", 47, 107.8682, embed_sqrt(2.5415e-3 * 144.41), dens_pow(4.09, 6), 4.09, "fcc")]
  pair = [Potential("Ag", "Ag", pair_morse(0.3, 1.4, 2.9))]
  return eam, pair

def model_binary(order=("Al", "Cu"), drop=None, pairorder=0):
  table = {
    "Al": EAMPotential("Al", 13, 26.98, embed_poly(0.7, 0.003), dens_exp(1.3, 1.1), 4.05, "fcc"),
    "Cu": EAMPotential("Cu", 29, 63.55, embed_sqrt(1.9), dens_exp(2.1, 0.9), 3.61, "fcc")}
  pairs = [
    Potential("Al", "Al", pair_morse(0.27, 1.16, 3.25)),
    Potential("Cu", "Al", pair_buck(1200.0, 0.31, 11.0)),
    Potential("Cu", "Cu", pair_morse(0.34, 1.36, 2.87))]
  if pairorder:
    pairs = pairs[pairorder:] + pairs[:pairorder]
  if drop is not None:
    pairs = [p for p in pairs if sorted([p.speciesA, p.speciesB]) != sorted(drop)]
  return [table[s] for s in order], pairs

def model_ternary(order=("Zr", "Al", "Cu")):
  table = {
    "Al": EAMPotential("Al", 13, 26.98, embed_poly(0.7, 0.003), dens_exp(1.3, 1.1), 4.05, "fcc"),
    "Cu": EAMPotential("Cu", 29, 63.55, embed_sqrt(1.9), dens_exp(2.1, 0.9), 3.61, "fcc"),
    "Zr": EAMPotential("Zr", 40, 91.224, embed_poly(1.1, 0.0007), dens_pow(3.2, 4), 3.23, "hcp")}
  pairs = [
    Potential("Zr", "Cu", pair_buck(900.0, 0.33, 3.0)),
    Potential("Al", "Al", pair_morse(0.27, 1.16, 3.25)),
    Potential("Zr", "Zr", pair_morse(0.7, 1.2, 3.1)),
    Potential("Al", "Cu", pair_buck(1200.0, 0.31, 11.0)),
    # duplicate definition: last one wins
    Potential("Cu", "Zr", pair_buck(950.0, 0.30, 2.0))]
  return [table[s] for s in order], pairs

def model_fs(order=("Al", "Fe"), missing=None, extra=False):
  dens = {
    ("Al", "Al"): dens_exp(1.3, 1.1), ("Al", "Fe"): dens_exp(0.4, 1.7),
    ("Fe", "Al"): dens_pow(2.2, 4), ("Fe", "Fe"): dens_exp(2.9, 1.3),
    ("Al", "Ni"): dens_exp(0.1, 0.2), ("Fe", "Ni"): dens_exp(0.2, 0.3),
    ("Ni", "Al"): dens_exp(0.3, 0.4), ("Ni", "Fe"): dens_exp(0.4, 0.5), ("Ni", "Ni"): dens_pow(2.0, 5)}
  embeds = {"Al": embed_poly(0.7, 0.003), "Fe": embed_sqrt(1.0), "Ni": embed_sqrt(1.7)}
  numbers = {"Al": (13, 26.98, 4.05, "fcc"), "Fe": (26, 55.845, 2.87, "bcc"), "Ni": (28, 58.69, 3.52, "fcc")}
  species = list(order)
  eam = []
  for a in species:
    # insertion order of the density dictionary deliberately reversed
    others = list(reversed(species))
    if extra:
      others = others + [s for s in ("Ni",) if s not in others]
    d = {}
    for b in others:
      if missing == (a, b):
        continue
      d[b] = dens[(a, b)]
    z, m, lc, lt = numbers[a]
    eam.append(EAMPotential(a, z, m, embeds[a], d, lc, lt))
  pairs = [
    Potential("Fe", "Al", pair_buck(1000.0, 0.3, 5.0)),
    Potential("Fe", "Fe", pair_morse(0.41, 1.39, 2.85)),
    Potential("Al", "Al", pair_morse(0.27, 1.16, 3.25)),
    Potential("Ni", "Ni", pair_morse(0.42, 1.42, 2.78))]
  return eam, pairs


# -- .ini level models ----------------------------------------------------------
INI_BODY_EAM = u"""
[Pair]
Al-Al = as.morse 1.16 3.25 0.27
Cu-Al = as.buck 1200.0 0.31 11.0
Cu-Cu = as.morse 1.36 2.87 0.34

[EAM-Embed]
Cu = as.sqrt -1.9
Al = as.polynomial 0.0 0.7 -0.003

[EAM-Density]
Cu = dens 2.1 0.9
Al = dens 1.3 1.1

[Potential-Form]
dens(r, A, B) = A*exp(-B*r)
"""

INI_BODY_FS = u"""
[Pair]
Fe-Al = as.buck 1000.0 0.3 5.0
Fe-Fe = as.morse 1.39 2.85 0.41
Al-Al = as.morse 1.16 3.25 0.27

[EAM-Embed]
Fe = as.sqrt -1.0
Al = as.polynomial 0.0 0.7 -0.003

[EAM-Density]
Fe->Fe = dens 2.9 1.3
Al->Fe = dens 0.4 1.7
Fe->Al = dens 2.2 0.8
Al->Al = dens 1.3 1.1

[Potential-Form]
dens(r, A, B) = A*exp(-B*r)
"""

INI_BODY_ADP = INI_BODY_EAM + u"""
[EAM-ADP-Dipole]
Al-Cu = dens 0.1 0.5
Cu-Cu = as.zero

[EAM-ADP-Quadrupole]
Al-Al = dens 0.2 0.7
Cu-Al = dens 0.3 0.4
"""

def ini(target, body, nr=17, nrho=13, cutoff=6.0, cutoff_rho=40.0):
  return u"[Tabulation]\ntarget : %s\nnr : %d\nnrho : %d\ncutoff : %s\ncutoff_rho : %s\n%s" % (target, nr, nrho, cutoff, cutoff_rho, body)

def read_ini(text):
  return Configuration().read(io.StringIO(text))

def workbook_dump(wb):
  dump = []
  for ws in wb.worksheets:
    rows = [tuple(repr(c) for c in row) for row in ws.iter_rows(values_only=True)]
    dump.append((ws.title, rows))
  return dump
# ---------------------------------------------------------------------------
# Twin B: atsim/potentials/_lammpsWriteEAM.py
#         (writeFuncFL, writeSetFL, writeSetFLFinnisSinclair and, through
#          ADP_EAMTabulation, _writeSetFLPairPots)
# ---------------------------------------------------------------------------
ET = eam_tabulation

GRIDS = [(13, 3.0, 17, 0.375), (4, 1.0, 6, 1.1), (2, 10.0, 2, 7.25), (31, 3.3, 23, 0.18), (1, 1.0, 1, 1.0), (0, 1.0, 0, 1.0), (3, 0.5, 0, 1.0), (0, 0.5, 3, 1.0)]

COMMENTS = [None, [], ["one"], ["a", "b", "c"], ["a", "b", "c", "d", "e"], ("t1", "t2"), ["x\ny", "z"], [1, 2, 3], "abcd", 5]
CUTOFFS = [None, 0, 0.0, 4.5, "6.0"]

plain_models = [
  ("single", model_single()),
  ("binary", model_binary()),
  ("binary-rev-drop", model_binary(order=("Cu", "Al"), drop=("Al", "Cu"), pairorder=1)),
  ("binary-nopairs", (model_binary()[0], [])),
  ("binary-tuple", tuple(tuple(x) for x in model_binary())),
  ("ternary", model_ternary()),
  ("ternary-sorted", model_ternary(order=("Al", "Cu", "Zr"))),
  ("dict-density", model_fs()),
  ("empty", ([], []))]

fs_models = [
  ("fs", model_fs()),
  ("fs-rev", model_fs(order=("Fe", "Al"))),
  ("fs-3", model_fs(order=("Ni", "Al", "Fe"))),
  ("fs-extra", model_fs(extra=True)),
  ("fs-missing", model_fs(missing=("Fe", "Al"))),
  ("fs-missing-self", model_fs(order=("Fe", "Al"), missing=("Al", "Al"))),
  ("fs-notdict", model_binary()),
  ("fs-empty", ([], []))]

def setfl_case(label, func, model, grid, **kwargs):
  eam, pair = model
  nrho, drho, nr, dr = grid
  record(label, lambda out: func(nrho, drho, nr, dr, eam, pair, out=out, **kwargs))

for fname, func, models in [("writeSetFL", writeSetFL, plain_models), ("writeSetFLFinnisSinclair", writeSetFLFinnisSinclair, fs_models)]:
  for mname, model in models:
    for g in GRIDS:
      setfl_case("B/%s/%s/%r" % (fname, mname, g), func, model, g)
  model = models[1][1]
  for c in COMMENTS:
    kw = {} if c is None else {"comments": c}
    setfl_case("B/%s/comments=%r" % (fname, c), func, model, GRIDS[0], **kw)
  for c in CUTOFFS:
    setfl_case("B/%s/cutoff=%r" % (fname, c), func, model, GRIDS[1], cutoff=c)
  # odd grid arguments
  setfl_case("B/%s/float-n" % fname, func, model, (4.7, 1.0, 6.2, 1.1))
  setfl_case("B/%s/str-drho" % fname, func, model, (4, "1.0", 6, 1.1))
  setfl_case("B/%s/str-dr" % fname, func, model, (4, 1.0, 6, "1.1"))
  setfl_case("B/%s/None-nr" % fname, func, model, (4, 1.0, None, 1.1))
  setfl_case("B/%s/None-eam" % fname, func, (None, model[1]), GRIDS[1])
  setfl_case("B/%s/None-pair" % fname, func, (model[0], None), GRIDS[1])
  setfl_case("B/%s/iter-eam" % fname, func, (iter(model[0]), model[1]), GRIDS[1])
  setfl_case("B/%s/iter-pair" % fname, func, (model[0], iter(model[1])), GRIDS[1])

def failing_binary(where):
  eam, pair = model_binary()
  if where == "embed":
    eam[1].embeddingFunction = bad_after(20.0)
  elif where == "embed0":
    eam[0].embeddingFunction = bad_log
  elif where == "density":
    eam[0].electronDensityFunction = bad_after(3.0)
  elif where == "pair":
    pair[2] = Potential("Cu", "Cu", bad_after(4.0))
  elif where == "notcallable":
    eam[1].electronDensityFunction = 3.0
  elif where == "nospecies":
    del eam[1].species
  elif where == "noembed":
    del eam[1].embeddingFunction
  elif where == "nodensity":
    del eam[0].electronDensityFunction
  elif where == "nomass":
    del eam[1].mass
  elif where == "strnumber":
    eam[0].atomicNumber = "13"
  elif where == "intspecies":
    eam[0].species = 13
  elif where == "pair-noenergy":
    pair[0] = object()
  elif where == "pair-none-result":
    pair[0] = Potential("Al", "Al", lambda r: None)
  elif where == "embed-str-result":
    eam[0].embeddingFunction = lambda rho: "1.0"
  elif where == "embed-stopiteration":
    eam[0].embeddingFunction = lambda rho: next(iter(()))
  elif where == "density-stopiteration":
    eam[1].electronDensityFunction = lambda r: next(iter(()))
  elif where == "pair-stopiteration":
    pair[0] = Potential("Al", "Al", lambda r: next(iter(())))
  return eam, pair

FAILS = ("embed", "embed0", "density", "pair", "notcallable", "nospecies", "noembed", "nodensity", "nomass",
         "strnumber", "intspecies", "pair-noenergy", "pair-none-result", "embed-str-result",
         "embed-stopiteration", "density-stopiteration", "pair-stopiteration")
for where in FAILS:
  for g in (GRIDS[0], GRIDS[5]):
    setfl_case("B/writeSetFL/fail-%s/%r" % (where, g), writeSetFL, failing_binary(where), g)

def failing_fs(where):
  eam, pair = model_fs()
  if where == "density":
    eam[1].electronDensityFunction["Al"] = bad_after(3.0)
  elif where == "nospecies":
    del eam[1].species
  elif where == "nodensity":
    del eam[1].electronDensityFunction
  elif where == "embed":
    eam[1].embeddingFunction = bad_after(20.0)
  elif where == "pair":
    pair[1] = Potential("Fe", "Fe", bad_after(4.0))
  elif where == "density-stopiteration":
    eam[1].electronDensityFunction["Al"] = lambda r: next(iter(()))
  return eam, pair
for where in ("density", "nospecies", "nodensity", "embed", "pair", "density-stopiteration"):
  for g in (GRIDS[0], GRIDS[5]):
    setfl_case("B/writeSetFLFinnisSinclair/fail-%s/%r" % (where, g), writeSetFLFinnisSinclair, failing_fs(where), g)

# funcfl
def funcfl_case(label, model, grid, **kwargs):
  eam, pair = model
  nrho, drho, nr, dr = grid
  record(label, lambda out: writeFuncFL(nrho, drho, nr, dr, eam, pair, out=out, **kwargs))

def positive_pair(model):
  eam, pair = model
  return eam, [Potential(eam[0].species, eam[0].species, lambda r: 14.4 * math.exp(-r))]

for g in GRIDS + [(5, 1.0, 5, 1.0), (10, 0.5, 11, 0.3), (6, 0.5, 4, 0.3), (7, 0.1, 12, 0.25)]:
  funcfl_case("B/writeFuncFL/positive/%r" % (g,), positive_pair(model_single()), g)
  funcfl_case("B/writeFuncFL/morse(negative)/%r" % (g,), model_single(), g)
  funcfl_case("B/writeFuncFL/binary/%r" % (g,), positive_pair(model_binary()), g)
for title in ("", "Ag funcfl", "two\nlines", None, 12, u"Å units"):
  funcfl_case("B/writeFuncFL/title=%r" % (title,), positive_pair(model_single()), (10, 0.5, 11, 0.3), title=title)
funcfl_case("B/writeFuncFL/notitle", positive_pair(model_single()), (10, 0.5, 11, 0.3))
funcfl_case("B/writeFuncFL/empty-eam", ([], []), (10, 0.5, 11, 0.3))
funcfl_case("B/writeFuncFL/empty-pair", (model_single()[0], []), (10, 0.5, 11, 0.3))
for where in FAILS:
  eam, pair = failing_binary(where)
  # put the defective objects first, funcfl only looks at element 0
  eam = list(reversed(eam)) if where in ("embed", "notcallable", "nospecies", "noembed", "nomass") else eam
  pair = [pair[2]] if where == "pair" else [Potential("Al", "Al", lambda r: 14.4 * math.exp(-r))] if not where.startswith("pair-") else [pair[0]]
  funcfl_case("B/writeFuncFL/fail-%s" % where, (eam, pair), (10, 3.0, 11, 0.6))
  funcfl_case("B/writeFuncFL/fail-%s/zero-grid" % where, (eam, pair), (0, 3.0, 0, 0.6))
def none_embed():
  eam, pair = positive_pair(model_single())
  vals = iter([1.0, None, 2.0, None, None, 3.0, 4.0])
  eam[0].embeddingFunction = lambda rho: next(vals)
  return eam, pair
funcfl_case("B/writeFuncFL/None-values", none_embed(), (7, 1.0, 6, 0.5))

# ADP blocks are written by _writeSetFLPairPots(scale_r = False)
dip_full = [Potential("Al", "Cu", dens_exp(0.1, 0.5)), Potential("Cu", "Cu", dens_exp(0.0, 1.0)), Potential("Al", "Al", dens_exp(0.05, 0.5))]
quad_part = [Potential("Cu", "Al", dens_exp(0.3, 0.4))]
dip_bad = [Potential("Al", "Cu", bad_after(2.0))]
def adp_case(label, model, cutoff, nr, cutoff_rho, nrho, dip, quad):
  eam, pair = model
  record(label, lambda out: ET.ADP_EAMTabulation(pair, eam, dip, quad, cutoff, nr, cutoff_rho, nrho).write(out))
for mname, model in plain_models:
  for g in [(6.0, 17, 40.0, 13), (5.5, 6, 3.0, 4), (7.25, 2, 10.0, 2)]:
    adp_case("B/ADP/%s/%r/full-part" % (mname, g), model, *g, dip=dip_full, quad=quad_part)
    adp_case("B/ADP/%s/%r/none" % (mname, g), model, *g, dip=[], quad=())
adp_case("B/ADP/bad-dipole", model_binary(), 6.0, 17, 40.0, 13, dip_bad, quad_part)
adp_case("B/ADP/bad-quadrupole", model_binary(), 6.0, 17, 40.0, 13, dip_full, dip_bad)
adp_case("B/ADP/None-dipole", model_binary(), 6.0, 17, 40.0, 13, None, quad_part)
adp_case("B/ADP/int-species-dipole", model_binary(), 6.0, 17, 40.0, 13, [Potential(1, "Al", dens_exp(1.0, 1.0))], quad_part)

# direct use of the helper shared with eam_tabulation (scale_r on and off)
from atsim.potentials._lammpsWriteEAM import _writeSetFLPairPots
for scale_r in (True, False):
  for mname, model in plain_models[:7]:
    eam, pair = model
    record("B/_writeSetFLPairPots/%s/scale_r=%r" % (mname, scale_r), lambda out: _writeSetFLPairPots(9, 0.7, eam, pair, out, scale_r=scale_r))
eam, pair = model_ternary()
record("B/_writeSetFLPairPots/default-scale", lambda out: _writeSetFLPairPots(9, 0.7, eam, pair, out))

# .ini level (potable code path)
for tgt, body in [("setfl", INI_BODY_EAM), ("setfl_fs", INI_BODY_FS), ("eam_adp", INI_BODY_ADP)]:
  for kw in (dict(), dict(nr=8, nrho=5, cutoff=4.5, cutoff_rho=7.0)):
    def thunk(out, tgt=tgt, body=body, kw=kw):
      tab = read_ini(ini(tgt, body, **kw))
      return tab.write(out)
    record("B/ini/%s/%r" % (tgt, sorted(kw.items())), thunk)

# writing to real text files / sys.stdout replacement
def to_stringio(out):
  s = io.StringIO()
  eam, pair = model_ternary()
  writeSetFL(5, 1.0, 7, 0.5, eam, pair, out=s, comments=["c1", "c2", "c3"], cutoff=3.25)
  return s.getvalue()
record("B/stringio", to_stringio)

finish()

"""Differential script for twin C (dr / drho properties, r / rho value iterators and the EAM write() plumbing
of atsim/potentials/pair_tabulation.py and atsim/potentials/eam_tabulation.py).

Run with:  /venv/bin/python -W ignore /tmp/wtpy.py /tmp/wt_r11_4 _twins/diffC.py
Prints a sha256 digest over: repr of dr/drho, every value yielded by the r and rho iterators, the bytes written by
every tabulation class (constructed directly and through Configuration.read()), spreadsheet cells, exception type
names and messages for degenerate grids.
"""
import hashlib
import io
import itertools
import math
import os

from atsim.potentials import Potential, EAMPotential
from atsim.potentials import pair_tabulation as pt
from atsim.potentials import eam_tabulation as et
from atsim.potentials.config import Configuration

RECORDS = []


def outcome(func):
  try:
    return "OK " + func()
  except Exception as e:  # noqa
    return "EXC {} {}".format(type(e).__name__, e)


def buck(A, rho, C):
  def f(r):
    if r == 0.0:
      return A
    return A * math.exp(-r / rho) - C / r**6
  return f


def pairs(order):
  allpots = {
    "OO": Potential("O", "O", buck(1633.0, 0.327, 3.95)),
    "MgO": Potential("Mg", "O", buck(2457.0, 0.261, 0.0)),
    "AlO": Potential("O", "Al", buck(1000.0, 0.3, 1.5))}
  return [allpots[k] for k in order]


def eam_pots(order, fs=False):
  def embed_a(rho):
    return -math.sqrt(rho)

  def embed_b(rho):
    return 0.5 * rho - 0.01 * rho * rho

  def dens(scale):
    return lambda r: scale * math.exp(-1.5 * r)

  if fs:
    dA = {"A": dens(1.0), "B": dens(2.0)}
    dB = {"A": dens(3.0), "B": dens(0.5)}
  else:
    dA = dens(1.0)
    dB = dens(2.5)
  allpots = {"A": EAMPotential("A", 13, 26.98, embed_a, dA, 4.05, "fcc"),
             "B": EAMPotential("B", 29, 63.55, embed_b, dB, 3.61, "bcc")}
  return [allpots[k] for k in order]


def eam_pairs(order):
  allpots = {"AA": Potential("A", "A", buck(500.0, 0.3, 1.0)),
             "AB": Potential("A", "B", buck(200.0, 0.25, 0.0)),
             "BB": Potential("B", "B", buck(300.0, 0.35, 2.0))}
  return [allpots[k] for k in order]


def cells(wb):
  h = hashlib.sha256()
  nrows = []
  for ws in wb.worksheets:
    h.update(ws.title.encode("utf-8"))
    n = 0
    for row in ws.iter_rows(values_only=True):
      n += 1
      h.update(repr(row).encode("utf-8"))
    nrows.append((ws.title, n))
  return "{} {}".format(nrows, h.hexdigest())


def written(tabulation):
  if hasattr(tabulation, "workbook"):
    out = io.BytesIO()
    tabulation.write(out)
    return "{} {}".format(cells(tabulation.workbook), out.getvalue()[:2])
  out = io.StringIO()
  tabulation.write(out)
  data = out.getvalue()
  return "{} {}".format(len(data.splitlines()), hashlib.sha256(data.encode("utf-8")).hexdigest())


def describe(tabulation):
  bits = [type(tabulation).__name__, tabulation.target, tabulation.type]
  bits.append("dr=" + outcome(lambda: repr(tabulation.dr)))
  it = pt._r_value_iterator(tabulation)
  bits.append("rtype=" + type(it).__name__ + " self-iter=" + str(iter(it) is it))
  bits.append("r=" + outcome(lambda: repr(list(it))))
  bits.append("r-again=" + outcome(lambda: repr(list(it))))
  if hasattr(tabulation, "nrho"):
    bits.append("drho=" + outcome(lambda: repr(tabulation.drho)))
    it2 = et._rho_value_iterator(tabulation)
    bits.append("rhotype=" + type(it2).__name__)
    bits.append("rho=" + outcome(lambda: repr(list(it2))))
  bits.append("write=" + outcome(lambda: written(tabulation)))
  bits.append("write2=" + outcome(lambda: written(tabulation)))
  return " ".join(bits)


R_GRIDS = [(10.0, 1001), (5.5, 12), (0.7, 8), (1.0, 2), (3.0, 3), (6.5, 131), (2.0, 4), (1.1, 12), (12, 16), (7, 8),
           (1.0, 1), (1.0, 0), (0.3, 4), (2.5, -3), (4.0, 8.0), (1e-3, 5), (1e6, 9)]
RHO_GRIDS = [(100.0, 1001), (4.5, 10), (0.7, 8), (1.0, 2), (50, 6), (1.0, 1), (1.0, 0), (3.0, 7.0)]

PAIR_CLASSES = [pt.LAMMPS_PairTabulation, pt.DLPoly_PairTabulation, pt.GULP_PairTabulation, pt.Excel_PairTabulation]
EAM_CLASSES = [et.SetFL_EAMTabulation, et.TABEAM_EAMTabulation, et.Excel_EAMTabulation]
EAM_FS_CLASSES = [et.SetFL_FS_EAMTabulation, et.TABEAM_FinnisSinclair_EAMTabulation, et.Excel_FinnisSinclair_EAMTabulation]

CONFIG_EAM = u"""
[Species]
A.atomic_mass = 1
A.atomic_number = 1
B.atomic_mass = 2
B.atomic_number = 2

[EAM-Embed]
A = as.polynomial 0 1
B = as.sqrt -0.25

[EAM-Density]
A = as.polynomial 0 2
B = as.polynomial 0 3 0.5

[Pair]
A-A = as.buck 500.0 0.3 1.0
B-A = as.bornmayer 200.0 0.25

[EAM-ADP-Dipole]
A-B = as.polynomial 0 0.1

[EAM-ADP-Quadrupole]
B-A = as.polynomial 0.5 0.2
B-B = as.bornmayer 1.0 0.75
"""

CONFIG_PAIR = u"""
[Pair]
O-O = as.buck 1633.0 0.327 3.95
Mg-O = as.buck 2457.0 0.261 0.0
"""


def via_config(text):
  tabulation = Configuration().read(io.StringIO(text))
  return describe(tabulation)


def main():
  for name in ["_r_value_iterator", "PairTabulation_AbstractBase", "LAMMPS_PairTabulation", "DLPoly_PairTabulation",
               "GULP_PairTabulation", "Excel_PairTabulation"]:
    RECORDS.append("NAME pt.{} {}".format(name, hasattr(pt, name)))
  for name in ["_rho_value_iterator", "_r_value_iterator", "_EAMTabulationAbstractbase", "SetFL_EAMTabulation", "SetFL_FS_EAMTabulation",
               "TABEAM_EAMTabulation", "TABEAM_FinnisSinclair_EAMTabulation", "Excel_EAMTabulation",
               "Excel_FinnisSinclair_EAMTabulation", "ADP_EAMTabulation"]:
    RECORDS.append("NAME et.{} {}".format(name, hasattr(et, name)))
  RECORDS.append("PROPS {} {}".format(isinstance(pt.PairTabulation_AbstractBase.dr, property), isinstance(et._EAMTabulationAbstractbase.drho, property)))

  # Pair tabulations, constructed directly
  for cls, (cutoff, nr), order in itertools.product(PAIR_CLASSES, R_GRIDS, [("OO", "MgO", "AlO"), ("AlO", "OO")]):
    RECORDS.append("PAIR {} {!r} {!r} {} -> {}".format(cls.__name__, cutoff, nr, order, outcome(lambda: describe(cls(pairs(order), cutoff, nr)))))

  # EAM tabulations, constructed directly
  small_r = [g for g in R_GRIDS if g[1] != 1001][:9] + [(10.0, 1001), (1.0, 1)]
  for classes, fs in [(EAM_CLASSES, False), (EAM_FS_CLASSES, True)]:
    for cls, (cutoff, nr), (cutoff_rho, nrho), order in itertools.product(classes, small_r, RHO_GRIDS, [("A", "B"), ("B", "A")]):
      def build():
        return cls(eam_pairs(["AA", "AB", "BB"]), eam_pots(order, fs), cutoff, nr, cutoff_rho, nrho)
      RECORDS.append("EAM {} {!r} {!r} {!r} {!r} {} -> {}".format(cls.__name__, cutoff, nr, cutoff_rho, nrho, order, outcome(lambda: describe(build()))))

  # ADP
  for (cutoff, nr), (cutoff_rho, nrho), order in itertools.product(small_r, RHO_GRIDS, [("A", "B"), ("B", "A")]):
    def build_adp():
      return et.ADP_EAMTabulation(eam_pairs(["AA", "AB", "BB"]), eam_pots(order), eam_pairs(["AB"]), eam_pairs(["BB", "AB"]), cutoff, nr, cutoff_rho, nrho)
    RECORDS.append("ADP {!r} {!r} {!r} {!r} {} -> {}".format(cutoff, nr, cutoff_rho, nrho, order, outcome(lambda: describe(build_adp()))))

  # Through the configuration layer
  for target in ["LAMMPS", "DLPOLY", "GULP", "excel"]:
    for grid in [u"nr : 12\ncutoff : 5.5\n", u"cutoff : 0.7\ndr : 0.1\n", u"nr : 8\ndr : 0.25\n", u"", u"nr : 2\ncutoff : 1\n"]:
      text = u"[Tabulation]\ntarget : {}\n{}".format(target, grid) + CONFIG_PAIR
      RECORDS.append("CFG {} {!r} -> {}".format(target, grid, outcome(lambda: via_config(text))))
  for target in ["setfl", "DL_POLY_EAM", "excel_eam", "eam_adp"]:
    for grid in [u"nr : 12\ncutoff : 5.5\nnrho : 10\ncutoff_rho : 4.5\n", u"cutoff : 0.7\ndr : 0.1\ncutoff_rho : 0.7\ndrho : 0.1\n",
                 u"nr : 8\ndr : 0.25\nnrho : 5\ndrho : 2.5\n", u"nr : 5\ncutoff : 2.0\n", u"nr : 2\ncutoff : 1\nnrho : 2\ncutoff_rho : 1\n"]:
      text = u"[Tabulation]\ntarget : {}\n{}".format(target, grid) + CONFIG_EAM
      RECORDS.append("CFG {} {!r} -> {}".format(target, grid, outcome(lambda: via_config(text))))

  if os.environ.get("TWIN_DUMP"):
    with open(os.environ["TWIN_DUMP"], "w") as dump:
      dump.write(u"\n".join(RECORDS))
  digest = hashlib.sha256(u"\n".join(RECORDS).encode("utf-8")).hexdigest()
  print("records:", len(RECORDS))
  print("digest:", digest)


main()

"""Differential script for twin A (_multi_range_potential_form.py).

Exercises Multi_Range_Defn / create_Multi_Range_Potential_Form /
Multi_Range_Potential_Form* through the public API and through .ini models,
in several call orders, and prints a sha256 digest of everything observed."""
import collections
import hashlib
import io
import itertools

from atsim.potentials import (Multi_Range_Defn, create_Multi_Range_Potential_Form,
                              potentialforms, Potential, SplinePotential)
from atsim.potentials._multi_range_potential_form import (
    Multi_Range_Potential_Form, Multi_Range_Potential_Form_Deriv, Multi_Range_Potential_Form_Deriv2)
from atsim.potentials.config import Configuration

OUT = []


def rec(*items):
  import re
  OUT.append(re.sub(r"0x[0-9a-fA-F]+", "0xADDR", " | ".join(repr(i) for i in items)))


def attempt(label, func, *args, **kwargs):
  try:
    v = func(*args, **kwargs)
    rec(label, "ok", v)
    return v
  except Exception as e:  # noqa
    rec(label, "EXC", type(e).__name__, str(e))
    return None


class OnlyDeriv(object):
  """Callable with only a first derivative"""

  def __call__(self, r):
    return 3.0 * r ** 2 + 1.0

  def deriv(self, r):
    return 6.0 * r


class Counting(object):
  """Callable that records each call it receives"""

  def __init__(self):
    self.calls = []

  def __call__(self, r):
    self.calls.append(r)
    return 0.5 * r - 2.0


def plain(r):
  return 2.0 * r + 0.25


RS = [-1.0, -0.0, 0.0, 1e-9, 0.5, 1.0, 1.0000001, 1.5, 2.0, 2.5, 2.9999, 3.0, 3.5, 7.0, 8.0, 8.5, 100.0,
      float("inf"), float("-inf")]


def make_forms():
  return collections.OrderedDict([
    ("plain", plain),
    ("lambda", lambda r: r * r - 1.0),
    ("onlyderiv", OnlyDeriv()),
    ("buck", potentialforms.buck(1000.0, 0.3, 32.0)),
    ("bornmayer", potentialforms.bornmayer(1761.775, 0.35642)),
    ("poly", potentialforms.polynomial(1.0, -2.0, 0.5, 0.125)),
    ("zero", potentialforms.zero()),
    ("spline", SplinePotential(potentialforms.bornmayer(1761.775, 0.35642), potentialforms.buck(0.0, 1.0, 32.0), 1.2, 2.6)),
  ])


def defn_checks():
  forms = make_forms()
  for name, f in forms.items():
    for rtype, start in [(">", 0), (">=", 1.5), (">", float("-inf"))]:
      # different query orders on separate, identically built, objects
      d1 = Multi_Range_Defn(rtype, start, f)
      d2 = Multi_Range_Defn(rtype, start, f)
      a = (d1.has_deriv, d1.has_deriv2, d1.has_deriv, d1.has_deriv2)
      b2 = d2.has_deriv2
      b = (d2.has_deriv, b2, d2.has_deriv2, d2.has_deriv)
      rec("defn", name, rtype, start, a, b, d1.range_type, d1.start, d1.potential_form is f)
      for r in [0.7, 1.5, 2.0, 3.3]:
        attempt(("defn.deriv", name, r), d1.deriv, r)
        attempt(("defn.deriv2", name, r), d1.deriv2, r)
      rec("defn-after", name, d1.has_deriv, d1.has_deriv2)
  # Bad potential forms
  for bad in [None, 1.0, "abc"]:
    d = Multi_Range_Defn(">", 0, bad)
    rec("bad-defn", bad, d.has_deriv, d.has_deriv2, d.has_deriv, d.has_deriv2)
    attempt(("bad-defn.deriv", bad), d.deriv, 1.0)


def evaluate(label, mr):
  rec(label, "class", type(mr).__name__, hasattr(mr, "deriv"), hasattr(mr, "deriv2"), mr.default_value,
      [(d.range_type, d.start) for d in mr.range_defns])
  for r in RS:
    attempt((label, "call", r), mr, r)
    if hasattr(mr, "deriv"):
      attempt((label, "deriv", r), mr.deriv, r)
    if hasattr(mr, "deriv2"):
      attempt((label, "deriv2", r), mr.deriv2, r)
  # ... and again in reverse order: answers must not depend on what was asked before
  for r in reversed(RS):
    attempt((label, "call-again", r), mr, r)


def multi_range_checks():
  forms = make_forms()
  names = list(forms)
  combos = [
    [(">", 0, "plain")],
    [(">=", 0, "plain")],
    [(">", 0, "buck"), (">", 3, "zero")],
    [(">=", 0, "plain"), (">", 3, "onlyderiv"), (">", 8, "zero")],
    [(">", 8, "zero"), (">=", 0, "lambda"), (">", 3, "buck")],        # unsorted on input
    [(">", 1.0, "plain"), (">=", 1.0, "buck")],                         # same start, different type
    [(">=", 1.0, "buck"), (">", 1.0, "plain")],
    [(">", 1.0, "plain"), (">", 1.0, "buck")],                          # duplicate start and type
    [(">", float("-inf"), "poly"), (">", 2.0, "spline")],
    [(">=", float("-inf"), "poly"), (">=", 2.0, "bornmayer"), (">=", 2.5, "onlyderiv")],
    [(">", 0, "lambda"), (">", 2, "plain")],
    [(">", 0, "spline"), (">=", 3.0, "onlyderiv")],
    [],
  ]
  for i, combo in enumerate(combos):
    for kwargs in [{}, {"default_value": -7.5}]:
      defns = [Multi_Range_Defn(t, s, forms[n]) for (t, s, n) in combo]
      mr = attempt(("create", i, sorted(kwargs)), create_Multi_Range_Potential_Form, *defns, **kwargs)
      if mr is None:
        continue
      evaluate(("mr", i, sorted(kwargs.items())), mr)
      # has_deriv flags after use
      rec("flags-after", i, [(d.has_deriv, d.has_deriv2) for d in defns])
      # Build again from the SAME defn objects (flags already asked for)
      mr2 = create_Multi_Range_Potential_Form(*defns, **kwargs)
      rec("rebuild", i, type(mr2).__name__, [mr2(r) == mr(r) or (mr2(r) != mr2(r)) for r in RS[:-2]])

  # Class selection for every pair of forms in both orders
  for a, b in itertools.permutations(names, 2):
    mr = create_Multi_Range_Potential_Form(Multi_Range_Defn(">=", 0, forms[a]), Multi_Range_Defn(">", 2.0, forms[b]))
    rec("pair", a, b, type(mr).__name__, mr(1.0), mr(2.0), mr(2.5))

  # Bad keyword arguments
  attempt("badkw1", create_Multi_Range_Potential_Form, Multi_Range_Defn(">", 0, plain), blah=1)
  attempt("badkw2", create_Multi_Range_Potential_Form, Multi_Range_Defn(">", 0, plain), zeta=1, alpha=2, default_value=3)
  attempt("badkw3", Multi_Range_Potential_Form, default=1)
  attempt("badkw4", Multi_Range_Potential_Form_Deriv2, Multi_Range_Defn(">", 0, plain), default_value=2.0, x=None)

  # Re-assigning range_defns on an existing object and default_value
  mr = Multi_Range_Potential_Form(Multi_Range_Defn(">", 0, plain), default_value=9.0)
  evaluate("reassign-before", mr)
  mr.range_defns = (Multi_Range_Defn(">=", 2.0, forms["buck"]), Multi_Range_Defn(">", 1.0, forms["lambda"]))
  evaluate("reassign-after", mr)
  mr.default_value = -1.25
  evaluate("reassign-default", mr)
  mr.range_defns = []
  evaluate("reassign-empty", mr)

  # namedtuple stand-in for Multi_Range_Defn (as mentioned in class docstring)
  NT = collections.namedtuple("NT", ["range_type", "start", "potential_form"])
  mr = Multi_Range_Potential_Form(NT(">", 1.0, plain), NT(">=", 0.0, forms["buck"]), NT(">=", 3.0, forms["zero"]))
  evaluate("namedtuple", mr)
  # ... stand-in lacking range_type: error only when r coincides with a start value
  NT2 = collections.namedtuple("NT2", ["start", "potential_form"])
  mr = Multi_Range_Potential_Form(NT2(1.0, plain))
  for r in [0.5, 1.0, 1.5]:
    attempt(("no-range-type", r), mr, r)
  attempt("no-range-type-2", Multi_Range_Potential_Form, NT2(1.0, plain), NT2(1.0, plain))

  # Bad r
  mr = create_Multi_Range_Potential_Form(Multi_Range_Defn(">", 0, plain), Multi_Range_Defn(">", 2, forms["buck"]))
  for r in [None, "a", float("nan"), 1, 2, 3]:
    attempt(("bad-r", r), mr, r)
    attempt(("bad-r-deriv", r), mr.deriv, r)

  # Call counting: how many times, and with what, is the wrapped callable invoked
  c1 = Counting()
  c2 = Counting()
  mr = create_Multi_Range_Potential_Form(Multi_Range_Defn(">=", 0, c1), Multi_Range_Defn(">", 2, c2))
  for r in [0.0, 1.0, 2.0, 2.5, -1.0]:
    mr(r)
  rec("counting", type(mr).__name__, c1.calls, c2.calls)

  # Nested multi-range
  inner = create_Multi_Range_Potential_Form(Multi_Range_Defn(">", 0, forms["buck"]), Multi_Range_Defn(">", 2, forms["poly"]))
  outer = create_Multi_Range_Potential_Form(Multi_Range_Defn(">=", 0, plain), Multi_Range_Defn(">=", 1, inner), Multi_Range_Defn(">", 5, forms["zero"]))
  evaluate("nested", outer)

  # Wrapped in Potential
  pot = Potential("A", "B", outer)
  rec("potential", [(pot.energy(r), pot.force(r)) for r in [0.5, 1.0, 1.5, 2.0, 2.5, 5.0, 6.0]])


CFGS = {
"lammps_multirange": u"""[Tabulation]
target : LAMMPS
cutoff : 10.0
nr : 301

[Pair]
Mg-O : >=0 as.buck 1000.0 0.3 0.0 >3 as.bornmayer 500.0 0.4 >8 as.zero
O-O : as.buck 22764.0 0.149 27.88 >=2.5 as.polynomial 0.1 -0.01
Mg-Mg : >0.5 pot 2.0 >=6 as.constant 0.125

[Potential-Form]
pot(r, A) = A/r^2
""",
"dlpoly_multirange": u"""[Tabulation]
target : DL_POLY
cutoff : 6.5
nr : 200

[Pair]
O-U : as.bornmayer 566.498 0.42056 >2.0 as.buck 10.0 0.3 5.0 >=2.0 as.zero
U-U : >=0 as.constant 1.0 >1 as.constant 2.0 >=2 as.constant 3.0 >=3 sum(as.constant 1.0, as.buck 100.0 0.3 1.0)
""",
"gulp_spline_multirange": u"""[Tabulation]
target : GULP
cutoff : 5.0
dr : 0.05

[Pair]
Si-O : spline( as.zbl 14 8 >=0.8 exp_spline >=1.4 as.buck 18003.7572 0.205204 133.5381 ) >4.0 as.zero
O-O : spline( as.bornmayer 11272.6 0.1363 >1.2 buck4_spline 2.1 >2.6 as.buck 0.0 1.0 134.0 )
""",
"setfl_multirange": u"""[Tabulation]
target : setfl
cutoff = 5.0
dr = 0.1
cutoff_rho = 50.0
drho = 0.5

[Species]
A.atomic_mass = 1
A.atomic_number = 1
B.atomic_mass = 2
B.atomic_number = 2

[EAM-Embed]
A = as.polynomial 0 1 >10 as.sqrt -1.0
B = as.zero >=20 as.constant 2.0

[EAM-Density]
A = as.polynomial 0 2 >2.5 as.zero
B = >=0 as.polynomial 0 3 >=1.0 as.exponential 3.0 -2

[Pair]
A-B = as.buck 100.0 0.3 1.0 >3 as.zero
""",
"bad_range": u"""[Tabulation]
target : LAMMPS
cutoff : 10.0
nr : 30

[Pair]
Mg-O : >=0 as.buck 1000.0 0.3 0.0 >3 as.nothere 500.0 0.4
""",
}


def config_checks():
  for name in sorted(CFGS):
    def build():
      return Configuration().read(io.StringIO(CFGS[name]))
    tab = attempt(("cfg-build", name), lambda: type(build()).__name__)
    if tab is None:
      continue
    tab = build()
    outs = []
    for i in range(2):
      sio = io.StringIO()
      tab.write(sio)
      outs.append(sio.getvalue())
    # second independent object
    sio = io.StringIO()
    build().write(sio)
    outs.append(sio.getvalue())
    rec("cfg", name, [hashlib.sha256(o.encode("utf-8")).hexdigest() for o in outs], len(outs[0]))
    for p in tab.potentials:
      rec("cfg-pot", name, p.speciesA, p.speciesB, type(p.potentialFunction).__name__,
          [p.energy(r) for r in [0.5, 1.0, 2.0, 2.5, 3.0, 4.0, 8.0]],
          [p.force(r) for r in [0.5, 1.0, 2.0, 2.5, 3.0, 4.0, 8.0]])


def main():
  defn_checks()
  multi_range_checks()
  config_checks()
  blob = "\n".join(OUT)
  print("records:", len(OUT))
  print("digest:", hashlib.sha256(blob.encode("utf-8")).hexdigest())
  import sys
  if len(sys.argv) > 1:
    with open(sys.argv[1], "w") as f:
      f.write(blob)


main()

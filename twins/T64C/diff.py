"""Differential script: exercises the configuration layer (well formed and
malformed inputs) through the public API and prints a deterministic digest.

Run with:  /venv/bin/python -W ignore /tmp/wtpy.py /tmp/wt_r6_4 _twins/diffC.py [-v]
"""
import contextlib
import gc
import hashlib
import io
import logging
import os
import sys
import tempfile

logging.disable(logging.CRITICAL)

from atsim.potentials.config import Configuration, ConfigParser, ConfigParserOverrideTuple
from atsim.potentials.config import FilteredConfigParser
from atsim.potentials.config import Potential_Form_Registry, Modifier_Registry
from atsim.potentials.config._common import ConfigurationException
from atsim.potentials.tools import potable

FOCUS = "C"
VERBOSE = "-v" in sys.argv[1:]

RECORDS = []


def record(name, value):
  RECORDS.append("{} :: {}".format(name, value))


def describe_exception(e):
  # private intermediate base classes are an implementation detail, public ancestry is not
  mro = [c.__name__ for c in type(e).__mro__ if not c.__name__.startswith("_")]
  return "EXC type={} module={} mro={} str={!r} args={!r}".format(
    type(e).__name__, type(e).__module__, mro, str(e), e.args)


def sha(s):
  if isinstance(s, str):
    s = s.encode("utf-8")
  return hashlib.sha256(s).hexdigest()


def guarded(name, func):
  try:
    value = func()
  except SystemExit as e:
    record(name, "SystemExit {!r}".format(e.code))
  except Exception as e:
    record(name, describe_exception(e))
  else:
    record(name, value)
  # a full collection after every case: object lifetimes must not matter
  gc.collect()


# ----------------------------------------------------------------------------
# Well formed and malformed model definitions
# ----------------------------------------------------------------------------

PAIR_OK = {}
PAIR_OK["lammps_basic"] = """[Tabulation]
target : LAMMPS
nr : 50
cutoff : 6.5

[Pair]
O-O = as.buck 1633.0 0.327 3.948787
Mg-O = as.buck 929.69 0.29909 0.0
Mg-Mg = as.zero
"""

PAIR_OK["dlpoly_dr"] = """[Tabulation]
target : DL_POLY
nr : 40
dr : 0.25

[Pair]
U-O = as.bornmayer 1761.775 0.35643
O-U2 = as.lj 0.01 3.2
O-O = sum(as.buck 1633.0 0.327 3.948787, as.coul -2.0 -2.0)
"""

PAIR_OK["gulp_multirange"] = """[Tabulation]
target : GULP
cutoff : 5.0
dr : 0.1

[Variables]
A_OO : 1633.0
rho : 0.327

[Pair]
O-O = as.buck ${A_OO} ${rho} 3.948787 >=2.0 as.polynomial 1.0 -0.5 0.25 > 4.0 as.zero
Si-O = >0 as.constant 2.0 >1.5 product(as.constant 2.0, as.buck 1000.0 0.3 10.0) >3 pow(as.buck 1000.0 0.3 10.0, as.constant 2.0)
Si-Si = trans(as.buck 1000.0 0.3 10.0, as.constant 1.0)
"""

PAIR_OK["custom_forms"] = """[Tabulation]
target : LAMMPS
nr : 25
cutoff : 3.0

[Pair]
A-B = mybuck 1000.0 0.3 12.0
B-B = shifted 2.0 0.5
A-A = fact 3

[Potential-Form]
mybuck(r, A, rho, C) = A*exp(-r/rho) - C/r^6
helper(r_ij, k) = k * r_ij^2
shifted( r , k , s ) = helper(r, k) + s + mybuck(r, 10.0, 0.3, 0.0)
fact(r, n) = pymath.factorial(n) * r + pymath.floor(r)
"""

PAIR_OK["table_forms"] = """[Tabulation]
target : LAMMPS
nr : 30
cutoff : 4.0

[Pair]
A-A = tab_xy
A-B = tab_x_y
B-B = sum(tab_xy, as.constant 1.0)

[Table-Form:tab_xy]
interpolation : cubic_spline
xy : 0.0 10.0 1.0 5.0
     2.0 2.5 3.0 1.0 4.0 0.5
     5.0 0.0

[Table-Form: tab_x_y ]
x : 0 1 2 3 4 5
y : 9 7 4 2 1 0
"""

PAIR_OK["spline_modifier"] = """[Tabulation]
target : LAMMPS
nr : 60
cutoff : 6.0

[Pair]
O-O = spline(>0 as.zbl 8 8 >= 1.2 exp_spline >= 2.0 as.buck 1633.0 0.327 3.948787)
Mg-O = spline(as.buck 929.69 0.29909 0.0 >=1.0 exp_spline >=1.5 as.zero)
"""

PAIR_OK["defaults_only"] = """[Pair]
Ar-Ar = as.lj 0.0103 3.4
"""

EAM_OK = {}
EAM_OK["setfl"] = """[Tabulation]
target : setfl
cutoff_rho : 50.0
nrho : 30
cutoff : 6.0
nr : 30

[Pair]
Al-Al = as.buck 1000.0 0.3 10.0
Al-Cu = as.buck 800.0 0.31 5.0
Cu-Cu = as.bornmayer 900.0 0.29

[EAM-Density]
Al : density 2.0
Cu : as.exponential 1.5 -0.5

[EAM-Embed]
Al : as.sqrt -1.5
Cu : as.sqrt -2.0

[Potential-Form]
density(r, C) = C*exp(-r)

[Species]
Al.lattice_constant : 4.05
Cu.charge : 0.0
"""

EAM_OK["lammps_eam_alloy_synonym"] = EAM_OK["setfl"].replace("target : setfl", "target : lammps_eam_alloy")
EAM_OK["dlpoly_eam"] = EAM_OK["setfl"].replace("target : setfl", "target : DL_POLY_EAM")

EAM_OK["setfl_fs"] = """[Tabulation]
target : setfl_fs
drho : 0.5
nrho : 40
cutoff : 5.0
dr : 0.125

[Pair]
Fe-Fe = as.buck 1000.0 0.3 10.0
Al-Fe = as.buck 800.0 0.31 5.0

[EAM-Density]
Al->Al : density 2.0
Al->Fe : density 3.0
Fe->Al = density 4.0
Fe->Fe : >0 density 5.0 >=3.0 as.zero

[EAM-Embed]
Al : as.sqrt -1.5
Fe : as.polynomial 0.0 -2.0 0.01

[Potential-Form]
density(r, C) = C*exp(-r)
"""
EAM_OK["dlpoly_eam_fs"] = EAM_OK["setfl_fs"].replace("target : setfl_fs", "target : DL_POLY_EAM_fs")

EAM_OK["adp"] = """[Tabulation]
target : eam_adp
cutoff_rho : 50.0
nrho : 20
cutoff : 6.0
nr : 20

[Pair]
Al-Al = as.buck 1000.0 0.3 10.0
Al-Cu = as.buck 800.0 0.31 5.0

[EAM-Density]
Al : as.exponential 2.0 -0.25
Cu : as.exponential 1.5 -0.5

[EAM-Embed]
Al : as.sqrt -1.5
Cu : as.sqrt -2.0

[EAM-ADP-Dipole]
Al-Al : as.exponential 0.1 -0.25
Al-Cu : as.zero
Cu-Cu : as.exponential 0.2 -0.25

[EAM-ADP-Quadrupole]
Al-Al : as.exponential 0.3 -0.25
Al-Cu : as.exponential 0.4 -0.25
Cu-Cu : as.zero
"""

BASE_PAIR = """[Tabulation]
target : LAMMPS
nr : 20
cutoff : 4.0

[Pair]
A-B = as.buck 1000.0 0.3 12.0
"""


def tab(body):
  return "[Tabulation]\n" + body + "\n[Pair]\nA-B = as.buck 1000.0 0.3 12.0\n"


def pair(body, extra=""):
  return "[Tabulation]\ntarget : LAMMPS\nnr : 20\ncutoff : 4.0\n\n[Pair]\n" + body + "\n" + extra


BAD = {}
# --- reading the file
BAD["duplicate_option"] = BASE_PAIR + "A-B = as.zero\n"
BAD["duplicate_option_whitespace"] = "[Potential-Form]\nf(r, a) = r\nf(r,a) = a\n"
BAD["duplicate_section"] = BASE_PAIR + "[Pair]\nC-D = as.zero\n"
BAD["no_section_header"] = "A-B = as.zero\n" + BASE_PAIR
BAD["parsing_error"] = BASE_PAIR + "[Species]\n= foo\n  bar\n"
BAD["interpolation_missing_variable"] = pair("A-B = as.buck ${A} 0.3 12.0")
BAD["interpolation_syntax"] = pair("A-B = as.buck ${A 0.3 12.0")
BAD["interpolation_missing_section"] = pair("A-B = as.buck ${Nowhere:A} 0.3 12.0")
# --- [Tabulation]
BAD["tab_all_three"] = tab("target : LAMMPS\nnr : 10\ndr : 0.1\ncutoff : 2.0")
BAD["tab_dr_only"] = tab("target : LAMMPS\ndr : 0.1")
BAD["tab_nr_zero"] = tab("target : LAMMPS\nnr : 0\ncutoff : 2.0")
BAD["tab_nr_one"] = tab("target : LAMMPS\nnr : 1\ncutoff : 2.0")
BAD["tab_dr_negative"] = tab("target : LAMMPS\nnr : 10\ndr : -0.1")
BAD["tab_dr_zero_cutoff"] = tab("target : LAMMPS\ncutoff : 10\ndr : 0")
BAD["tab_cutoff_negative"] = tab("target : LAMMPS\nnr : 10\ncutoff : -2.0")
BAD["tab_nr_not_int"] = tab("target : LAMMPS\nnr : 10.5\ncutoff : 2.0")
BAD["tab_nr_word"] = tab("target : LAMMPS\nnr : many\ncutoff : 2.0")
BAD["tab_cutoff_word"] = tab("target : LAMMPS\nnr : 10\ncutoff : far")
BAD["tab_dr_word"] = tab("target : LAMMPS\nnr : 10\ndr : 1e")
BAD["tab_rho_all_three"] = tab("target : setfl\nnrho : 10\ndrho : 0.1\ncutoff_rho : 2.0")
BAD["tab_drho_only"] = tab("target : setfl\ndrho : 0.1")
BAD["tab_nrho_word"] = tab("target : setfl\nnrho : x10")
BAD["tab_nrho_negative"] = tab("target : setfl\nnrho : -10\ncutoff_rho : 2.0")
BAD["tab_unknown_target"] = tab("target : CASTEP\nnr : 10\ncutoff : 2.0")
BAD["tab_dlpoly_not_div4"] = tab("target : DLPOLY\nnr : 1001\ncutoff : 2.0")
BAD["tab_dlpoly_four"] = tab("target : DL_POLY\nnr : 4\ncutoff : 2.0")
BAD["tab_lammps_two"] = tab("target : LAMMPS\nnr : 2\ncutoff : 2.0")
# --- [Pair]
BAD["pair_key_three_species"] = pair("A-B-C = as.zero")
BAD["pair_key_one_species"] = pair("AB = as.zero")
BAD["pair_duplicate_reversed"] = pair("A-B = as.zero\nB-A = as.zero")
BAD["pair_duplicate_spaces"] = pair("A-B = as.zero\nA - B = as.zero")
BAD["pair_bad_syntax_range"] = pair("A-B = as.buck 1.0 2.0 >=")
BAD["pair_bad_syntax_paren"] = pair("A-B = sum(as.buck 1.0 2.0 3.0")
BAD["pair_bad_syntax_empty"] = pair("A-B = ")
BAD["pair_unknown_form"] = pair("A-B = as.nothing 1.0 2.0")
BAD["pair_unknown_form_second_range"] = pair("Mg-O = as.zero >= 2.0 nothing 1.0 2.0")
BAD["pair_unknown_modifier"] = pair("Si-O = nomod(as.zero, as.zero)")
BAD["pair_unknown_modifier_nested"] = pair("Si-O = sum(as.zero, nomod(as.zero))")
BAD["pair_unknown_form_in_modifier"] = pair("Si-O = sum(as.zero, nothing 1.0)")
BAD["pair_wrong_arg_count"] = pair("A-B = as.buck 1.0 2.0")
BAD["pair_wrong_arg_count_custom"] = pair("A-B = mine 1.0 2.0", "[Potential-Form]\nmine(r, a) = a*r\n")
BAD["pair_spline_one"] = pair("A-B = spline(as.zero)")
BAD["pair_spline_two"] = pair("A-B = spline(as.zero >=1 exp_spline)")
BAD["pair_spline_wrong_type"] = pair("A-B = spline(as.zero >=1 as.zero >=2 as.zero)")
BAD["pair_spline_range"] = pair("A-B = spline(>3 as.zero >=1 exp_spline >=2 as.zero)")
BAD["pair_trans_three"] = pair("A-B = trans(as.zero, as.constant 1.0, as.zero)")
BAD["pair_trans_not_constant"] = pair("A-B = trans(as.zero, as.zero)")
BAD["pair_missing_section"] = "[Tabulation]\ntarget : LAMMPS\nnr : 20\ncutoff : 4.0\n"
# --- [Potential-Form]
BAD["pf_bad_signature"] = pair("A-B = as.zero", "[Potential-Form]\nnot a signature = 1.0\n")
BAD["pf_bad_signature_digit"] = pair("A-B = as.zero", "[Potential-Form]\n1f(r) = 1.0\n")
BAD["pf_parameter_named_pi"] = pair("A-B = f 1.0", "[Potential-Form]\nf(r, pi) = r*pi\n")
BAD["pf_parameter_named_inf"] = pair("A-B = f 1.0", "[Potential-Form]\nf(r, inf) = r\n")
BAD["pf_function_named_like_parameter"] = pair("A-B = f 1.0", "[Potential-Form]\nf(r, g) = r*g\ng(r) = r\n")
BAD["pf_parse_error"] = pair("A-B = f 1.0", "[Potential-Form]\nf(r, a) = r +* a )\n")
BAD["pf_unknown_symbol"] = pair("A-B = f 1.0", "[Potential-Form]\nf(r, a) = r * b\n")
BAD["pf_nested_parse_error"] = pair("A-B = f 1.0", "[Potential-Form]\nf(r, a) = g(r) * a\ng(r) = r + + )\n")
BAD["pf_nested_wrong_arg_count"] = pair("A-B = f 1.0", "[Potential-Form]\nf(r, a) = g(r, a, 1.0) * a\ng(r, a) = r + a\n")
BAD["pf_same_label_as_table_form"] = pair("A-B = f", "[Potential-Form]\nf(r) = r\n[Table-Form:f]\nxy: 0 1 1 2 2 3 3 4\n")
# --- [Table-Form]
TF = "A-B = tf"
BAD["tf_only_x"] = pair(TF, "[Table-Form:tf]\nx : 0 1 2 3\n")
BAD["tf_only_y"] = pair(TF, "[Table-Form:tf]\ny : 0 1 2 3\n")
BAD["tf_x_y_and_xy"] = pair(TF, "[Table-Form:tf]\nx : 0 1 2 3\ny : 0 1 2 3\nxy : 0 0 1 1 2 2 3 3\n")
BAD["tf_x_and_xy"] = pair(TF, "[Table-Form:tf]\nx : 0 1 2 3\nxy : 0 0 1 1 2 2 3 3\n")
BAD["tf_no_data"] = pair(TF, "[Table-Form:tf]\ninterpolation : cubic_spline\n")
BAD["tf_x_not_float"] = pair(TF, "[Table-Form:tf]\nx : 0 1 two 3\ny : 0 1 2 3\n")
BAD["tf_y_not_float"] = pair(TF, "[Table-Form:tf]\nx : 0 1 2 3\ny : 0 1,0 2 3\n")
BAD["tf_x_and_y_not_float"] = pair(TF, "[Table-Form:tf]\nx : 0 1 2 3a\ny : 0 1b 2 3\n")
BAD["tf_xy_not_float"] = pair(TF, "[Table-Form:tf]\nxy : 0 0 1 1 2 2 3 3.0.0\n")
BAD["tf_xy_odd"] = pair(TF, "[Table-Form:tf]\nxy : 0 0 1 1 2 2 3\n")
BAD["tf_length_mismatch"] = pair(TF, "[Table-Form:tf]\nx : 0 1 2 3 4\ny : 0 1 2 3\n")
BAD["tf_duplicate"] = pair(TF, "[Table-Form:tf]\nxy : 0 0 1 1 2 2 3 3\n[Table-Form: tf]\nxy : 0 0 1 1 2 2 3 3\n")
BAD["tf_unknown_interpolation"] = pair(TF, "[Table-Form:tf]\ninterpolation : quintic\nxy : 0 0 1 1 2 2 3 3\n")
BAD["tf_too_few_points"] = pair(TF, "[Table-Form:tf]\nxy : 0 0 1 1\n")
BAD["tf_x_not_increasing"] = pair(TF, "[Table-Form:tf]\nxy : 0 0 2 1 1 2 3 3 4 4\n")
BAD["tf_empty_data"] = pair(TF, "[Table-Form:tf]\nxy : \n")
BAD["tf_same_label_as_standard"] = pair("A-B = as.buck 1.0 2.0 3.0", "[Table-Form:as.buck]\nxy : 0 0 1 1 2 2 3 3\n")
BAD["tf_same_label_as_potentialforms"] = pair("A-B = as.zero", "[Table-Form:as.polynomial]\nxy : 0 0 1 1 2 2 3 3\n")
# --- EAM
EAM_BASE = EAM_OK["setfl"]
EAM_FS_BASE = EAM_OK["setfl_fs"]
BAD["eam_embed_bad_syntax"] = EAM_BASE.replace("Al : as.sqrt -1.5", "Al : as.sqrt -1.5 >")
BAD["eam_density_bad_syntax"] = EAM_BASE.replace("Al : density 2.0", "Al : density( 2.0")
BAD["eam_embed_unknown_form"] = EAM_BASE.replace("Al : as.sqrt -1.5", "Al : nothing -1.5")
BAD["eam_density_unknown_modifier"] = EAM_BASE.replace("Al : density 2.0", "Al : nomod(density 2.0)")
BAD["eam_missing_embed_section"] = EAM_BASE.replace("[EAM-Embed]\nAl : as.sqrt -1.5\nCu : as.sqrt -2.0\n", "")
BAD["eam_missing_density_section"] = EAM_BASE.replace("[EAM-Density]\nAl : density 2.0\nCu : as.exponential 1.5 -0.5\n", "")
BAD["eam_unknown_species_mass"] = EAM_BASE.replace("Cu", "Xx")
BAD["eam_species_bad_key"] = EAM_BASE.replace("Al.lattice_constant : 4.05", "Al_lattice_constant : 4.05")
BAD["eam_species_bad_float"] = EAM_BASE.replace("Al.lattice_constant : 4.05", "Al.lattice_constant : four")
BAD["eam_species_bad_int"] = EAM_BASE.replace("Cu.charge : 0.0", "Cu.atomic_number : 29.5")
BAD["eam_fs_bad_key"] = EAM_FS_BASE.replace("Al->Fe : density 3.0", "Al->Fe->Al : density 3.0")
BAD["eam_fs_bad_syntax"] = EAM_FS_BASE.replace("Al->Fe : density 3.0", "Al->Fe : density 3.0 >=")
BAD["eam_fs_duplicate_density"] = EAM_FS_BASE.replace("Fe->Al = density 4.0", "Al ->Fe = density 4.0")
BAD["eam_fs_with_plain_density"] = EAM_FS_BASE.replace("target : setfl_fs", "target : setfl")
BAD["eam_plain_with_fs_target"] = EAM_BASE.replace("target : setfl", "target : setfl_fs")
BAD["adp_bad_dipole_key"] = EAM_OK["adp"].replace("Al-Cu : as.zero", "AlCu : as.zero")
BAD["adp_unknown_quadrupole_form"] = EAM_OK["adp"].replace("Cu-Cu : as.zero", "Cu-Cu : as.nothing 1.0")
BAD["adp_unknown_dipole_modifier"] = EAM_OK["adp"].replace("Al-Cu : as.zero", "Al-Cu : nomod(as.zero)")
BAD["adp_missing_dipole_section"] = EAM_OK["adp"].replace("[EAM-ADP-Dipole]", "[EAM-ADP-Dipoles]")
BAD["adp_quadrupole_wrong_args"] = EAM_OK["adp"].replace("Al-Cu : as.exponential 0.4 -0.25", "Al-Cu : as.exponential 0.4")


# ----------------------------------------------------------------------------
# Drivers
# ----------------------------------------------------------------------------

def tabulate(text):
  tabulation = Configuration().read(io.StringIO(text))
  out = io.StringIO()
  tabulation.write(out)
  value = out.getvalue()
  return "OK class={} len={} sha={}".format(type(tabulation).__name__, len(value), sha(value))


PARSER_PROPERTIES = ["parsed_sections", "orphan_sections", "tabulation", "pair", "potential_form",
                     "table_form", "eam_embed", "eam_density", "eam_density_fs", "species"]


def walk_parser(name, text):
  try:
    cp = ConfigParser(io.StringIO(text))
  except Exception as e:
    record(name + ".ctor", describe_exception(e))
    return
  for prop in PARSER_PROPERTIES:
    guarded("{}.{}".format(name, prop), lambda: repr(getattr(cp, prop)))
  guarded(name + ".parse_pair_like(Pair)", lambda: repr(cp.parse_pair_like("Pair")))
  guarded(name + ".parse_pair_like(EAM-ADP-Dipole)", lambda: repr(cp.parse_pair_like("EAM-ADP-Dipole")))


def registry_walk(name, text):
  def doit():
    cp = ConfigParser(io.StringIO(text))
    reg = Potential_Form_Registry(cp, register_standard=True, register_pymath_functions=True)
    own = [k for k in reg.registered if not k.startswith("as.")]
    values = []
    for k in own:
      pf = reg[k]
      sig = pf.signature
      args = [0.5 + i for i in range(len(sig.parameter_names) - 1)]
      try:
        func = pf(*args)
        values.append((k, repr(func(1.25))))
      except Exception as e:
        values.append((k, describe_exception(e)))
    plain = Potential_Form_Registry(cp)
    return "registered={} values={} n_all={} plain={}".format(own, values, len(reg.registered), plain.registered)
  guarded(name + ".registry", doit)


def potable_main(name, text, extra_args, want_output=True):
  """Run the potable command line entry point in-process"""
  tmpdir = tempfile.mkdtemp(prefix="twin_diff_")
  cfg_path = os.path.join(tmpdir, "model.aspot")
  out_path = os.path.join(tmpdir, "out.table")
  with open(cfg_path, "w") as fp:
    fp.write(text)
  argv = ["potable", cfg_path] + ([out_path] if want_output else []) + list(extra_args)
  old_argv = sys.argv
  stdout = io.StringIO()
  stderr = io.StringIO()
  code = None
  sys.argv = argv
  try:
    with contextlib.redirect_stdout(stdout), contextlib.redirect_stderr(stderr):
      try:
        potable.main()
      except SystemExit as e:
        code = e.code
      except Exception as e:
        code = describe_exception(e)
  finally:
    sys.argv = old_argv
    # argparse.FileType leaves the config file open; nothing to tidy but the temp files
  written = None
  if os.path.exists(out_path):
    with open(out_path, "rb") as fp:
      written = sha(fp.read())
  err = stderr.getvalue().replace(tmpdir, "<TMP>")
  out = stdout.getvalue().replace(tmpdir, "<TMP>")
  for p in (cfg_path, out_path):
    if os.path.exists(p):
      os.remove(p)
  os.rmdir(tmpdir)
  record(name, "exit={!r} written={} stdout={!r} stderr={!r}".format(code, written, out, err))
  gc.collect()


def run_overrides():
  T = ConfigParserOverrideTuple
  text = PAIR_OK["lammps_basic"]
  cases = {
    "override_ok": dict(overrides=[T("Pair", "O-O", "as.zero"), T("Tabulation", "nr", "12")]),
    "override_missing_key": dict(overrides=[T("Pair", "O-Xe", "as.zero")]),
    "override_missing_section": dict(overrides=[T("Pairs", "O-O", "as.zero")]),
    "override_remove": dict(overrides=[T("Pair", "Mg-Mg", None)]),
    "override_remove_missing": dict(overrides=[T("Pair", "Mg-Xe", None)]),
    "additional_ok": dict(additional=[T("Pair", "Ca-O", "as.buck 1.0 0.3 0.0"), T("Species", "Ca.charge", "2.0")]),
    "additional_duplicate": dict(additional=[T("Pair", "O - O", "as.zero")]),
    "additional_variables": dict(additional=[T("Variables", "A", "2.0"), T("Pair", "Ca-O", "as.constant ${A}")]),
    "additional_bad_value": dict(additional=[T("Tabulation", "dr", "0.1")]),
  }
  for name, kwargs in cases.items():
    def doit():
      cp = ConfigParser(io.StringIO(text), **kwargs)
      tabulation = Configuration().read_from_parser(cp)
      out = io.StringIO()
      tabulation.write(out)
      return "OK {} pair={!r}".format(sha(out.getvalue()), cp.pair)
    guarded("overrides." + name, doit)


def run_override_tuples():
  keys = ["Pair:O-O=as.zero", "Pair:O-O", "Pair=as.zero", "nothing", "Table-Form:tf:xy=0 1 2 3", "A:B=C=D", ":=", "=", "A:B:"]
  for k in keys:
    for has_value in (True, False):
      guarded("override_tuple[{!r},{}]".format(k, has_value), lambda: repr(potable._create_override_tuple(k, has_value)))


def run_filtered():
  text = EAM_OK["setfl_fs"]
  for kwargs in (dict(include=["Al"]), dict(exclude=["Al"]), dict(include=["Fe", "Zz"])):
    def doit():
      cp = FilteredConfigParser(ConfigParser(io.StringIO(text)), **kwargs)
      tabulation = Configuration().read_from_parser(cp)
      out = io.StringIO()
      tabulation.write(out)
      return "OK {}".format(sha(out.getvalue()))
    guarded("filtered[{!r}]".format(sorted(kwargs.items())), doit)


def run_potable():
  potable_main("potable.ok_lammps", PAIR_OK["lammps_basic"], [])
  potable_main("potable.ok_setfl", EAM_OK["setfl"], [])
  potable_main("potable.ok_override", PAIR_OK["lammps_basic"], ["-e", "Tabulation:nr=16", "Pair:O-O=as.zero", "-r", "Pair:Mg-Mg", "-a", "Pair:Ca-O=as.bornmayer 100.0 0.3"])
  potable_main("potable.list_items", PAIR_OK["custom_forms"], ["--list-items"], want_output=False)
  potable_main("potable.list_item_labels", PAIR_OK["table_forms"], ["--list-item-labels"], want_output=False)
  potable_main("potable.item_value", PAIR_OK["lammps_basic"], ["--item-value", "Pair:O-O"], want_output=False)
  potable_main("potable.item_value_missing", PAIR_OK["lammps_basic"], ["--item-value", "Pair:O-Xe"], want_output=False)
  potable_main("potable.no_output_file", PAIR_OK["lammps_basic"], [], want_output=False)
  potable_main("potable.include_species", EAM_OK["setfl_fs"], ["--include-species", "Fe"])
  potable_main("potable.exclude_species", EAM_OK["setfl_fs"], ["--exclude-species", "Fe"])
  potable_main("potable.bad_override_no_equals", PAIR_OK["lammps_basic"], ["-e", "Pair:O-O"])
  potable_main("potable.bad_override_no_colon", PAIR_OK["lammps_basic"], ["-e", "PairO-O=as.zero"])
  potable_main("potable.bad_remove", PAIR_OK["lammps_basic"], ["-r", "PairO-O"])
  potable_main("potable.bad_add", PAIR_OK["lammps_basic"], ["-a", "Pair:O-O=as.zero"])
  potable_main("potable.override_missing", PAIR_OK["lammps_basic"], ["-e", "Pair:O-Xe=as.zero"])
  for name in ["duplicate_option", "no_section_header", "interpolation_missing_variable", "tab_all_three", "tab_nr_word",
               "tab_dlpoly_not_div4", "tab_lammps_two", "tab_unknown_target", "pair_key_three_species", "pair_bad_syntax_range",
               "pair_unknown_form", "pair_unknown_modifier", "pair_wrong_arg_count", "pair_spline_two", "pf_bad_signature",
               "pf_parameter_named_pi", "pf_function_named_like_parameter", "pf_parse_error", "pf_nested_wrong_arg_count",
               "tf_x_not_float", "tf_xy_odd", "tf_duplicate", "tf_unknown_interpolation", "tf_too_few_points",
               "tf_same_label_as_standard", "eam_embed_bad_syntax", "eam_fs_bad_key", "eam_species_bad_float",
               "adp_unknown_quadrupole_form", "adp_unknown_dipole_modifier"]:
    potable_main("potable.bad." + name, BAD[name], [])


def run_focus():
  """Direct calls into the helpers closest to the refactored code (public behaviour only)"""
  from atsim.potentials.config import _config_parser
  from atsim.potentials.config._common import ConfigParserException

  # _get_or_none through configparser sections
  import configparser
  rcp = configparser.ConfigParser()
  rcp.read_string("[S]\na : 1\nb : 1.5\nc : word\nd :\n")
  for key in "abcde":
    for t in (int, float, str):
      guarded("get_or_none[{},{}]".format(key, t.__name__), lambda: repr(_config_parser._get_or_none(key, rcp["S"], t)))

  # Exception hierarchy relationships
  from atsim.potentials.config import _common, _potential_form_builder
  names = []
  for mod in (_common, _config_parser, _potential_form_builder):
    for k in sorted(vars(mod)):
      v = getattr(mod, k)
      if isinstance(v, type) and issubclass(v, Exception) and not k.startswith("_"):
        names.append((mod.__name__.rsplit(".", 1)[-1], k, [c.__name__ for c in v.__mro__ if not c.__name__.startswith("_")]))
  record("exception_hierarchy", repr(names))
  for cls in (_potential_form_builder.UnknownModifierException, _potential_form_builder.UnknownPotentialFormException):
    for args in ((), ("x",), ("x", "y"), (3,)):
      e = cls(*args)
      record("str[{}{!r}]".format(cls.__name__, args), "{!r} {!r} {!r}".format(str(e), e.args, repr(e)))

  # --- builders driven directly with hand made tuples
  from atsim.potentials.config._common import PotentialFormInstanceTuple, PotentialModifierTuple, MultiRangeDefinitionTuple
  from atsim.potentials.config._common import PairPotentialTuple, SpeciesTuple, TableFormTuple
  from atsim.potentials.config._potential_form_builder import Potential_Form_Builder
  from atsim.potentials.config._pair_potential_builder import Pair_Potentials_From_Tuples_Builder
  from atsim.potentials.config._table_form_builder import Table_Form_Builder

  cp = ConfigParser(io.StringIO(PAIR_OK["custom_forms"]))
  reg = Potential_Form_Registry(cp, register_standard=True, register_pymath_functions=True)
  modreg = Modifier_Registry()
  start = MultiRangeDefinitionTuple(">=", 1.0)
  I = PotentialFormInstanceTuple
  M = PotentialModifierTuple
  instances = {
    "buck": I("as.buck", [1000.0, 0.3, 10.0], start, None),
    "buck_no_start": I("as.buck", [1000.0, 0.3, 10.0], None, None),
    "custom_then_zero": I("mybuck", [1000.0, 0.3, 10.0], None, I("as.zero", [], MultiRangeDefinitionTuple(">", 2.0), None)),
    "unknown_form": I("nothing", [1.0], start, None),
    "unknown_form_next": I("as.zero", [], None, I("nothing.at.all", [], start, None)),
    "unknown_modifier": M("nomod", [I("as.zero", [], None, None)], start, None),
    "unknown_form_in_modifier": M("sum", [I("as.zero", [], None, None), I("nope", [], None, None)], start, None),
    "unknown_modifier_in_modifier": M("product", [M("nomod2", [], None, None), I("as.zero", [], None, None)], start, None),
    "wrong_args": I("as.buck", [1.0], None, None),
    "trans_bad": M("trans", [I("as.zero", [], None, None)], None, None),
    "sum_ok": M("sum", [I("as.constant", [1.0], None, None), I("helper", [2.0], None, None)], None, None),
  }
  pfb = Potential_Form_Builder(reg, modreg)
  for name, inst in instances.items():
    def doit():
      func = pfb.create_potential_function(inst)
      return repr([func(r) for r in (0.5, 1.0, 1.5, 2.5)])
    guarded("form_builder[{}]".format(name), doit)
    for section_name in ("Pair", "EAM-ADP-Dipole"):
      def doit2():
        rows = [PairPotentialTuple(SpeciesTuple("Ok", "Ok"), instances["buck"]), PairPotentialTuple(SpeciesTuple("Aa", "Bb"), inst)]
        builder = Pair_Potentials_From_Tuples_Builder(rows, reg, modreg, section_name)
        pots = builder.potentials
        return repr([(p.speciesA, p.speciesB, p.energy(1.5)) for p in pots]) + repr(builder.potentials is pots)
      guarded("tuples_builder[{},{}]".format(name, section_name), doit2)

  tfb = Table_Form_Builder()
  tables = {
    "ok": TableFormTuple("t1", "cubic_spline", [0.0, 1.0, 2.0, 3.0, 4.0], [4.0, 3.0, 2.5, 1.0, 0.0]),
    "unknown_interpolation": TableFormTuple("t2", "linear", [0.0, 1.0, 2.0, 3.0, 4.0], [4.0, 3.0, 2.5, 1.0, 0.0]),
    "none_interpolation": TableFormTuple("t3", None, [0.0, 1.0], [4.0, 3.0]),
    "too_short": TableFormTuple("t4", "cubic_spline", [0.0, 1.0], [4.0, 3.0]),
    "decreasing": TableFormTuple("t5", "cubic_spline", [4.0, 3.0, 2.0, 1.0, 0.0], [4.0, 3.0, 2.5, 1.0, 0.0]),
    "length_mismatch": TableFormTuple("t6", "cubic_spline", [0.0, 1.0, 2.0, 3.0, 4.0], [4.0, 3.0, 2.5, 1.0]),
    "not_numbers": TableFormTuple("t7", "cubic_spline", ["a", "b", "c", "d"], [4.0, 3.0, 2.5, 1.0]),
    "empty": TableFormTuple("t8", "cubic_spline", [], []),
  }
  for name, tt in tables.items():
    def doit3():
      pf = tfb.create_potential_form(tt)
      func = pf()
      return "{} {!r} {!r}".format(type(pf).__name__, pf.signature, [func(x) for x in (0.5, 1.5, 10.0)])
    guarded("table_form_builder[{}]".format(name), doit3)

  # --- cexprtk potential functions driven directly
  from atsim.potentials.config._common import PotentialFormTuple, PotentialFormSignatureTuple
  from atsim.potentials.config._cexprtk_potential_function import _Cexptrk_Potential_Function
  def make(label, params, expression):
    return _Cexptrk_Potential_Function(PotentialFormTuple(PotentialFormSignatureTuple(label, params, False), expression))
  def cexprtk_case():
    out = []
    def attempt(label, f):
      try:
        out.append((label, repr(f())))
      except Exception as e:
        out.append((label, describe_exception(e)))
    f = make("f", ["r", "a"], "a*r + g(r)")
    g = make("g", ["r"], "r^2 + h(r, 1)")
    h = make("h", ["r"], "r +")
    bad = make("bad", ["r"], "r * (")
    attempt("register g in f", lambda: f.register_function(g))
    attempt("register h in g", lambda: g.register_function(h))
    attempt("register g in f again", lambda: f.register_function(g))
    attempt("f(1, 2)", lambda: f(1.0, 2.0))
    attempt("f(1)", lambda: f(1.0))
    attempt("g(1)", lambda: g(1.0))
    attempt("h(1)", lambda: h(1.0))
    attempt("bad(1)", lambda: bad(1.0))
    attempt("bad(1) again", lambda: bad(1.0))
    k = make("k", ["r", "s"], "r + 2*s")
    attempt("k(1,2)", lambda: k(1.0, 2.0))
    attempt("k(3,4)", lambda: k(3.0, 4.0))
    attempt("k()", lambda: k())
    attempt("make(pi)", lambda: make("c", ["r", "pi"], "r"))
    attempt("make(epsilon)", lambda: make("c", ["epsilon"], "1"))
    attempt("register r in k", lambda: k.register_function(make("r", ["x"], "x")))
    attempt("register k in k", lambda: k.register_function(k))
    return out
  guarded("cexprtk_direct", lambda: repr(cexprtk_case()))

  # --- tabulation factories: cutoff extraction
  from atsim.potentials.config._tabulation_factories import TABULATION_FACTORIES
  for target in sorted(TABULATION_FACTORIES):
    for body in ("nr : 2\ncutoff : 1.0", "nr : 3\ncutoff : 1.0", "nr : 4\ncutoff : 1.0", "nr : 8\ncutoff : 1.0", "nr : 9\ndr : 0.5", "", "nrho : 7\ndrho : 0.5"):
      def doit4():
        cp = ConfigParser(io.StringIO("[Tabulation]\n" + body + "\n"))
        return repr(TABULATION_FACTORIES[target].extract_cutoffs(cp))
      guarded("extract_cutoffs[{},{!r}]".format(target, body), doit4)


def main():
  for name, text in PAIR_OK.items():
    guarded("pair_ok." + name, lambda: tabulate(text))
    walk_parser("pair_ok." + name, text)
    registry_walk("pair_ok." + name, text)
  for name, text in EAM_OK.items():
    guarded("eam_ok." + name, lambda: tabulate(text))
    walk_parser("eam_ok." + name, text)
  for name, text in BAD.items():
    guarded("bad." + name, lambda: tabulate(text))
    walk_parser("bad." + name, text)
    registry_walk("bad." + name, text)
  run_overrides()
  run_override_tuples()
  run_filtered()
  run_potable()
  run_focus()

  blob = "\n".join(RECORDS)
  if VERBOSE:
    print(blob)
  n_exc = sum(1 for r in RECORDS if ":: EXC " in r)
  print("focus={} records={} exceptions={}".format(FOCUS, len(RECORDS), n_exc))
  print("DIGEST {}".format(sha(blob)))


if __name__ == "__main__":
  main()

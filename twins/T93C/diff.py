"""Differential script for twin C (gradient() wrapper, table-reader x-proxy, trans() modifier).

Exercises gradient()/deriv()/num_deriv(), Potential.force(), the combinators, multi-range forms and splines
(all of which wrap callables in gradient()), TableReader / DatReader lookups, and the trans() modifier through
configuration files in every pair tabulation format; prints a sha256 over every value / exception produced.
"""
import hashlib
import io
import sys

import atsim.potentials as ap
from atsim.potentials import potentialforms as pf
from atsim.potentials import _tablereaders
from atsim.potentials._util import gradient, deriv, num_deriv
from atsim.potentials.config import ConfigParser, Configuration

OUT = []


def emit(*args):
  OUT.append(" ".join(str(a) for a in args))


def safe(v):
  if v is None or isinstance(v, (bool, int, float, str)):
    return repr(v)
  if isinstance(v, (tuple, list)):
    return type(v).__name__ + "(" + ",".join(safe(x) for x in v) + ")"
  return "<" + type(v).__name__ + ">"


def attempt(label, f):
  try:
    v = f()
    emit(label, "OK", safe(v))
    return v
  except BaseException as e:  # noqa
    emit(label, "EXC", type(e).__name__, str(e))


# ------------------------------------------------------------------ callables with different capabilities
def plain(r):
  return 4.0 / r ** 2 + 0.5 * r


class OnlyDeriv(object):
  def __call__(self, r):
    return r ** 3

  def deriv(self, r):
    return 3.0 * r ** 2


class OnlyDeriv2(object):
  def __call__(self, r):
    return r ** 3

  def deriv2(self, r):
    return 6.0 * r + 100.0   # deliberately "wrong" so that its use is visible


class Both(OnlyDeriv):
  def deriv2(self, r):
    return 6.0 * r


class Raises(object):
  def __call__(self, r):
    raise ValueError("no value at %r" % r)

  def deriv2(self, r):
    raise KeyError("no deriv2 at %r" % r)


CALLABLES = {
  "plain": plain,
  "only_deriv": OnlyDeriv(),
  "only_deriv2": OnlyDeriv2(),
  "both": Both(),
  "raises": Raises(),
  "buck": pf.buck(1000.0, 0.3, 32.0),
  "morse": pf.morse(1.5, 2.1, 0.4),
  "poly": pf.polynomial(1.0, -2.0, 0.5, 0.25),
  "zbl": pf.zbl(92, 8),
  "plus": ap.plus(pf.buck(1000.0, 0.3, 32.0), plain),
  "product": ap.product(pf.lj(0.1, 2.5), pf.constant(2.0)),
  "pow": ap.pow(pf.bornmayer(10.0, 0.9), pf.constant(2.0)),
  "plus_plain": ap.plus(plain, plain),
  "spline": ap.SplinePotential(pf.zbl(92, 8), pf.buck(1761.775, 0.35642, 0.0), 0.6, 1.2),
  "multi": ap.create_Multi_Range_Potential_Form(ap.Multi_Range_Defn(">", 0.0, plain), ap.Multi_Range_Defn(">=", 1.5, pf.buck(1000.0, 0.3, 32.0))),
  "multi_plain": ap.create_Multi_Range_Potential_Form(ap.Multi_Range_Defn(">", 0.0, plain), ap.Multi_Range_Defn(">=", 1.5, plain)),
  "lambda": lambda r: 2.0 * r,
  "not_callable": 3.0,
}

RS = [0.1, 0.5, 1.0, 1.2, 1.5, 1.50001, 2.0, 3.3, 7.25]

for name in sorted(CALLABLES):
  f = CALLABLES[name]
  for h in (None, 1e-6, 1e-3):
    label = "grad[%s,h=%s]" % (name, h)
    g = attempt(label, (lambda: gradient(f)) if h is None else (lambda: gradient(f, h)))
    if g is None:
      continue
    emit(label, "caps", hasattr(g, "deriv"), hasattr(g, "deriv2"), callable(g), type(g).__name__)
    g2 = gradient(g)
    g3 = gradient(g2)
    emit(label, "caps2", hasattr(g2, "deriv"), hasattr(g3, "deriv"))
    for r in RS:
      attempt(label + "(%r)" % r, lambda: g(r))
      attempt(label + ".deriv(%r)" % r, lambda: g.deriv(r))
      attempt(label + " g2(%r)" % r, lambda: g2(r))
      attempt(label + " g2.deriv(%r)" % r, lambda: g2.deriv(r))
      attempt(label + " g3(%r)" % r, lambda: g3(r))
  for r in RS:
    attempt("deriv[%s](%r)" % (name, r), lambda: (deriv(r, f), deriv(r, f, 1e-4), num_deriv(r, f), num_deriv(r, f, 1e-2)))
    attempt("Potential[%s](%r)" % (name, r), lambda: (ap.Potential("A", "B", f).energy(r), ap.Potential("A", "B", f).force(r),
                                                     ap.Potential("A", "B", f, 1e-3).force(r)))

attempt("gradient.noargs", lambda: gradient())
attempt("gradient.three", lambda: gradient(plain, 1e-3, 4))
attempt("gradient.kw", lambda: gradient(func=plain, h=0.01)(1.0))
attempt("gradient.none", lambda: gradient(None)(1.0))
attempt("gradient.h_str", lambda: gradient(plain, "h")(1.0))
attempt("gradient.h_zero", lambda: gradient(plain, 0.0)(1.0))

# ------------------------------------------------------------------ table readers
TABLES = {
  "simple": "0.0 5.0\n1.0 3.0\n2.0 2.0\n3.0 1.5\n4.0 1.0\n",
  "unsorted": "# a comment\n3.0 1.5\n\n0.5 9.0\n   2.0   2.0  extra\n1.0 3.0\n",
  "tabs": "1.0\t2.0\n2.0\t4.0\n2.5\t8.0\n",
  "single": "1.0 2.0\n",
  "dup_x": "1.0 2.0\n1.0 3.0\n2.0 5.0\n",
  "empty": "",
  "comments_only": "# nothing\n\n",
  "bad_number": "1.0 2.0\nx 3.0\n",
  "one_column": "1.0 2.0\n3.0\n",
  "negative": "-2.0 1.0\n-1.0 -1.0\n0.0 0.0\n1e1 1e-3\n",
}
XS = [-3.0, -2.0, -1.5, 0.0, 0.25, 0.5, 0.75, 1.0, 1.5, 2.0, 2.25, 2.5, 3.0, 3.5, 4.0, 4.5, 10.0, 11.0]

for name in sorted(TABLES):
  txt = TABLES[name]
  tr = attempt("TableReader[%s]" % name, lambda: ap.TableReader(io.StringIO(txt)))
  if tr is not None:
    emit("TableReader[%s]" % name, "data", list(tr.datReader), len(tr.datReader.xproxy), type(tr.datReader.xproxy).__name__)
    attempt("TableReader[%s].xproxy" % name, lambda: [tr.datReader.xproxy[i] for i in range(len(tr.datReader.xproxy))])
    attempt("TableReader[%s].xproxy[-1]" % name, lambda: tr.datReader.xproxy[-1])
    attempt("TableReader[%s].xproxy[99]" % name, lambda: tr.datReader.xproxy[99])
    for x in XS:
      attempt("TableReader[%s](%r)" % (name, x), lambda: tr(x))
    attempt("TableReader[%s].force" % name, lambda: [ap.Potential("A", "B", tr).force(x) for x in (0.75, 1.5, 2.25)])
  for conv in ("in", "out", "both"):
    def mk():
      kw = {}
      if conv in ("in", "both"):
        kw["inputConvert"] = lambda x: x * 2.0
      if conv in ("out", "both"):
        kw["outputConvert"] = lambda y: y + 1.0
      d = _tablereaders.DatReader(io.StringIO(txt), **kw)
      return (list(d), [d.getValue(x) for x in XS])
    attempt("DatReader[%s,%s]" % (name, conv), mk)

attempt("TableReaderBase", lambda: _tablereaders.TableReaderBase(io.StringIO("1 2\n")))
attempt("XProxy.len", lambda: len(_tablereaders._XProxy([(1.0, 2.0), (3.0, 4.0)])))
attempt("XProxy.noargs", lambda: _tablereaders._XProxy())
attempt("XProxy.none", lambda: len(_tablereaders._XProxy(None)))

# ------------------------------------------------------------------ trans() modifier through configuration files
CFG = """[Tabulation]
target : {target}
cutoff : 6.0
nr : {nr}
[Potential-Form]
soft(r, A, n) = A/(r+0.5)^n
[Pair]
{pairs}
"""
GOOD = [
  "A-B : trans(as.buck 1000.0 0.2 32.0, as.constant 2.0)",
  "A-B : trans(as.buck 1000.0 0.2 32.0, as.constant -0.05)\nB-B : trans(soft 3.0 2, as.constant 0.25)",
  "A-A : trans(trans(as.morse 1.5 2.1 0.4, as.constant 0.5), as.constant 0.25)",
  "A-A : sum(trans(as.bornmayer 1000.0 0.3, as.constant 1.0), as.constant 0.5, trans(soft 1.0 3, as.constant 0.125))",
  "A-A : trans(sum(as.bornmayer 1000.0 0.3, soft 2.0 2), as.constant 0.3)",
  "A-A : product(trans(as.polynomial 1.0 2.0 3.0, as.constant 1.5), as.constant 2.0)",
  "A-A : pow(trans(soft 2.0 1, as.constant 1.0), as.constant 2.0)",
  "A-A : >0 trans(as.bornmayer 1000.0 0.3, as.constant 1.0) >=2.0 trans(soft 2.0 2, as.constant -1.0) >4.0 as.zero",
  "A-A : spline(>0 trans(as.bornmayer 1000.0 0.3, as.constant 0.1) >=1.0 exp_spline >=2.0 trans(as.buck 0.0 1.0 32.0, as.constant 0.2))",
  "A-A : trans(spline(>0 as.bornmayer 1000.0 0.3 >=1.0 exp_spline >=2.0 as.buck 0.0 1.0 32.0), as.constant 0.5)",
  "A-A : trans(as.zero, as.constant 1e3)",
]
BAD = [
  "A-A : trans(as.buck 1000.0 0.2 32.0)",
  "A-A : trans(as.buck 1000.0 0.2 32.0, as.constant 2.0, as.constant 1.0)",
  "A-A : trans(as.buck 1000.0 0.2 32.0, as.zero)",
  "A-A : trans(as.buck 1000.0 0.2 32.0, as.constant)",
  "A-A : trans(as.buck 1000.0 0.2 32.0, as.constant 1.0 2.0)",
  "A-A : trans(as.buck 1000.0 0.2 32.0, sum(as.constant 1.0, as.constant 2.0))",
  "A-A : trans(as.buck 1000.0 0.2, as.constant 1.0)",
  "A-A : trans(as.nonsuch 1000.0 0.2, as.constant 1.0)",
  "A-A : trans(as.buck 1000.0 0.2 32.0, as.constant -8.0)",
]


def run_cfg(target, nr, pairs):
  tab = Configuration().read_from_parser(ConfigParser(io.StringIO(CFG.format(target=target, nr=nr, pairs=pairs))))
  sio = io.StringIO()
  tab.write(sio)
  pots = tab.potentials
  probe = []
  for p in pots:
    f = p.potentialFunction
    probe.append((p.speciesA, p.speciesB, hasattr(f, "deriv"), hasattr(f, "deriv2"), callable(f)))
    for r in (0.7, 1.3, 2.0, 2.9, 4.5):
      probe.append((f(r), p.energy(r), p.force(r)))
      if hasattr(f, "deriv"):
        probe.append(f.deriv(r))
      if hasattr(f, "deriv2"):
        probe.append(f.deriv2(r))
      probe.append((gradient(f)(r), gradient(gradient(f))(r)))
  return (len(sio.getvalue()), hashlib.sha256(sio.getvalue().encode()).hexdigest(), probe)


for target, nr in (("LAMMPS", 25), ("LAMMPS", 200), ("DLPOLY", 24), ("DLPOLY", 200), ("GULP", 25)):
  for pairs in GOOD + BAD:
    attempt("cfg %s %s %r" % (target, nr, pairs), lambda: run_cfg(target, nr, pairs))

# trans() called directly with a stub builder, so that callables with every combination of deriv/deriv2 are wrapped
from atsim.potentials import _modifiers
from atsim.potentials.config._common import PotentialFormInstanceTuple, MultiRangeDefinitionTuple


class StubBuilder(object):
  def create_potential_function(self, pfi):
    return CALLABLES[pfi.potential_form]


def pfi(label, *params):
  return PotentialFormInstanceTuple(label, list(params), MultiRangeDefinitionTuple(">", 0.0), None)


for name in sorted(CALLABLES):
  for offset in (0.0, 0.5, -0.25, 2):
    label = "trans[%s,%r]" % (name, offset)
    try:
      t = _modifiers.trans([pfi(name), pfi("as.constant", offset)], StubBuilder())
    except BaseException as e:  # noqa
      emit(label, "EXC", type(e).__name__, str(e))
      continue
    # (the concrete type of the returned callable is an implementation detail: not recorded)
    emit(label, "caps", hasattr(t, "deriv"), hasattr(t, "deriv2"), callable(t), _modifiers.is_modifier(t))
    g = gradient(t)
    emit(label, "gcaps", hasattr(g, "deriv"), hasattr(gradient(g), "deriv"))
    for r in RS:
      attempt(label + "(%r)" % r, lambda: t(r))
      # (AttributeError text for an absent method names the private type of the callable: only presence is recorded)
      for meth in ("deriv", "deriv2"):
        if hasattr(t, meth):
          attempt(label + ".%s(%r)" % (meth, r), lambda: getattr(t, meth)(r))
        else:
          emit(label, meth, "absent")
      attempt(label + " grad(%r)" % r, lambda: (g(r), gradient(g)(r), ap.Potential("A", "B", t).force(r)))
    attempt(label + " plus", lambda: [ap.plus(t, plain)(r) for r in RS] + [hasattr(ap.plus(t, plain), "deriv"), hasattr(ap.plus(t, plain), "deriv2")])
    # wrong number of arguments: TypeError text names the (private) callable, so only the exception type is recorded
    for bad_args in ((), (1.0, 2.0)):
      try:
        emit(label, "badcall", bad_args, "OK", t(*bad_args))
      except BaseException as e:  # noqa
        emit(label, "badcall", bad_args, "EXC", type(e).__name__)
    attempt(label + " str", lambda: t("1.0"))
attempt("trans.unknown", lambda: _modifiers.trans([pfi("nonsuch"), pfi("as.constant", 1.0)], StubBuilder()))
attempt("trans.nobuilder", lambda: _modifiers.trans([pfi("plain"), pfi("as.constant", 1.0)], None))
attempt("trans.stroffset", lambda: _modifiers.trans([pfi("plain"), pfi("as.constant", "x")], StubBuilder())(1.0))
emit("modifiers", sorted(n for n in dir(_modifiers) if _modifiers.is_modifier(getattr(_modifiers, n))))
from atsim.potentials.config import Modifier_Registry
emit("registry", sorted(Modifier_Registry()._modifiers))

for fn in ("docs/quick_start/basak.aspot", "docs/user_guide/example_files/morelon.aspot",
           "docs/user_guide/example_files/basak_table_form.aspot", "docs/user_guide/example_files/soft_a.aspot",
           "docs/user_guide/example_files/exp_spline.aspot", "tests/lammps_resources/zbl_spline.aspot",
           "tests/lammps_resources/CRG_U_Th.aspot", "tests/dl_poly_resources/CRG_Ce.aspot",
           "tests/lammps_resources/Al_Cu_adp.aspot", "docs/user_guide/example_files/finnis_sinclair_eam.aspot"):
  def shipped():
    with open(fn) as fp:
      tab = Configuration().read(fp)
    sio = io.StringIO()
    tab.write(sio)
    return (type(tab).__name__, len(sio.getvalue()), hashlib.sha256(sio.getvalue().encode()).hexdigest())
  attempt("file " + fn, shipped)

blob = "\n".join(OUT)
if len(sys.argv) > 1:
  with open(sys.argv[1], "w") as fp:
    fp.write(blob + "\n")
print("lines", len(OUT), "exceptions", sum(1 for l in OUT if " EXC " in l))
print("DIGEST", hashlib.sha256(blob.encode("utf-8")).hexdigest())

"""Differential script for twin C (tabulation classes, potable front-end, modifiers, multi-range forms).

Run with:  /venv/bin/python -W ignore /tmp/wtpy.py /tmp/wt_r8_4 _twins/diffC.py
Prints one sha256 digest over everything that was produced (values, output, log records, exceptions).
"""
import contextlib
import hashlib
import io
import itertools
import logging
import math
import os
import shutil
import sys
import tempfile

import atsim.potentials as ap
from atsim.potentials import pair_tabulation, eam_tabulation, potentialforms, _dlpoly_writeTABEAM
from atsim.potentials import Multi_Range_Defn, create_Multi_Range_Potential_Form
from atsim.potentials._multi_range_potential_form import Multi_Range_Potential_Form, Multi_Range_Potential_Form_Deriv, Multi_Range_Potential_Form_Deriv2
from atsim.potentials.config import Configuration, ConfigParser
from atsim.potentials.tools import potable
from atsim.potentials.tools.potable import _query_actions

LOG = []

_log_stream = io.StringIO()
_handler = logging.StreamHandler(_log_stream)
_handler.setFormatter(logging.Formatter("%(name)s|%(levelname)s|%(message)s"))
logging.getLogger().addHandler(_handler)
logging.getLogger().setLevel(logging.DEBUG)


def _drain_log():
  v = _log_stream.getvalue()
  _log_stream.seek(0)
  _log_stream.truncate()
  return v


def rec(label, thunk):
  try:
    v = thunk()
    LOG.append("%s => %r" % (label, v))
  except BaseException as e:  # noqa
    LOG.append("%s !! %s: %s | cause=%s ctx=%s" % (label, type(e).__name__, e, type(e.__cause__).__name__, type(e.__context__).__name__))
  LOG.append("   log: %r" % _drain_log())


WORK = os.path.join(tempfile.gettempdir(), "twin_c_work")  # fixed name: the path is logged
shutil.rmtree(WORK, ignore_errors=True)
os.makedirs(WORK)


def sheet_dump(wb):
  out = []
  for ws in wb.worksheets:
    out.append((ws.title, [[c.value for c in row] for row in ws.iter_rows()]))
  return out


# ------------------------------------------------------------------ tabulation objects used directly
def pots(order):
  table = {
    "A": ap.Potential("Mg", "O", potentialforms.morse(1.5, 2.0, 0.5)),
    "B": ap.Potential("O", "O", potentialforms.buck(22764.0, 0.149, 27.88)),
    "C": ap.Potential("O", "Mg", potentialforms.morse(1.1, 2.2, 0.3)),
    "D": ap.Potential("Al", "Al", lambda r: 1.0 / (r + 1.0) ** 2),
  }
  return [table[k] for k in order]


def describe(t):
  return (type(t).__name__, [c.__name__ for c in type(t).__mro__], t.type, t.target, t.nr, t.cutoff, t.dr, len(t.potentials),
          getattr(t, "nrho", None), getattr(t, "cutoff_rho", None), getattr(t, "drho", None), len(getattr(t, "eam_potentials", [])))


def write_via_open_fp(t, binary=False, on_class=False):
  fn = os.path.join(WORK, "out.dat")
  opener = type(t).open_fp if on_class else t.open_fp
  with opener(fn) as fp:
    mode = fp.mode
    t.write(fp)
  if binary:
    import openpyxl
    with open(fn, "rb") as f:
      return (mode, sheet_dump(openpyxl.load_workbook(io.BytesIO(f.read()))))
  with open(fn) as f:
    v = f.read()
  return (mode, hashlib.sha256(v.encode()).hexdigest(), v[:70])


PAIR_CLASSES = [pair_tabulation.LAMMPS_PairTabulation, pair_tabulation.DLPoly_PairTabulation, pair_tabulation.GULP_PairTabulation, pair_tabulation.Excel_PairTabulation]
for cls in PAIR_CLASSES:
  for order in ["A", "AD", "DA", "ACD", "", "B"]:
    for cutoff, nr in [(5.0, 12), (6.5, 8), (2.0, 5), (3.0, 1), (3.0, 2)]:
      binary = cls is pair_tabulation.Excel_PairTabulation
      rec("%s(%s,%r,%r) describe" % (cls.__name__, order, cutoff, nr), lambda: describe(cls(pots(order), cutoff, nr)))
      rec("%s(%s,%r,%r) write" % (cls.__name__, order, cutoff, nr), lambda: write_via_open_fp(cls(pots(order), cutoff, nr), binary))
  rec("%s open_fp on class" % cls.__name__, lambda: write_via_open_fp(cls(pots("AD"), 4.0, 8), cls is pair_tabulation.Excel_PairTabulation, True))
rec("abstract write", lambda: pair_tabulation.PairTabulation_AbstractBase(pots("A"), 1.0, 4, "x").write(io.StringIO()))
rec("abstract describe", lambda: describe(pair_tabulation.PairTabulation_AbstractBase(pots("A"), 1.0, 4, "x")))
rec("open_fp kinds", lambda: [type(c.__dict__["open_fp"]).__name__ for c in (pair_tabulation.PairTabulation_AbstractBase, pair_tabulation.Excel_PairTabulation, eam_tabulation.Excel_EAMTabulation)])
def _wb_cache():
  t = pair_tabulation.Excel_PairTabulation(pots("AC"), 2.0, 3)
  return (t.workbook is t.workbook, sheet_dump(t.workbook))
rec("excel workbook cached / duplicate column", _wb_cache)


def eampots(species, fs=False):
  out = []
  for i, s in enumerate(species):
    def embed(rho, i=i):
      return -math.sqrt(rho) * (i + 1)
    if fs:
      dens = dict((o, (lambda r, i=i, j=j: math.exp(-r * (1 + 0.1 * i + 0.01 * j)))) for j, o in enumerate(species))
    else:
      dens = lambda r, i=i: math.exp(-r * (i + 1))
    out.append(ap.EAMPotential(s, 10 + i, 20.5 + i, embed, dens, 4.05 + i, ["fcc", "bcc", "hcp"][i % 3]))
  return out


def pairs_for(species, skip=()):
  out = []
  for a, b in itertools.combinations_with_replacement(species, 2):
    if (a, b) in skip:
      continue
    out.append(ap.Potential(b, a, potentialforms.morse(1.2 + 0.1 * len(out), 2.5, 0.4)))
  return out


EAM_CLASSES = [
  (eam_tabulation.SetFL_EAMTabulation, False), (eam_tabulation.SetFL_FS_EAMTabulation, True),
  (eam_tabulation.TABEAM_EAMTabulation, False), (eam_tabulation.TABEAM_FinnisSinclair_EAMTabulation, True),
  (eam_tabulation.Excel_EAMTabulation, False), (eam_tabulation.Excel_FinnisSinclair_EAMTabulation, True),
]
for cls, fs in EAM_CLASSES:
  binary = "Excel" in cls.__name__
  for species in [["Al"], ["Al", "Cu"], ["Cu", "Al"], ["Ag", "Cu", "Al"], ["Al", "Al"], []]:
    for skip in [(), (("Al", "Cu"),)]:
      for cutoff, nr, cutoff_rho, nrho in [(5.0, 6, 10.0, 5), (4.0, 9, 3.0, 4)]:
        def mk():
          return cls(pairs_for(species, skip), eampots(species, fs), cutoff, nr, cutoff_rho, nrho)
        rec("%s(%s,%r,%r) describe" % (cls.__name__, species, skip, (cutoff, nr, cutoff_rho, nrho)), lambda: describe(mk()))
        rec("%s(%s,%r,%r) write" % (cls.__name__, species, skip, (cutoff, nr, cutoff_rho, nrho)), lambda: write_via_open_fp(mk(), binary))
  # wrong kind of density function for this class
  rec("%s wrong density kind" % cls.__name__, lambda: write_via_open_fp(cls(pairs_for(["Al", "Cu"]), eampots(["Al", "Cu"], not fs), 5.0, 6, 10.0, 5), binary))
  rec("%s open_fp on class" % cls.__name__, lambda: write_via_open_fp(cls(pairs_for(["Al"]), eampots(["Al"], fs), 5.0, 6, 10.0, 5), binary, True))


class _NoDensity(object):
  species = "Zz"
  embeddingFunction = staticmethod(lambda rho: 0.0)

for cls in [eam_tabulation.Excel_EAMTabulation, eam_tabulation.Excel_FinnisSinclair_EAMTabulation]:
  def broken():
    t = cls(pairs_for(["Al"]), eampots(["Al"], cls is eam_tabulation.Excel_FinnisSinclair_EAMTabulation) + [_NoDensity()], 5.0, 4, 10.0, 3)
    out = []
    for _ in range(2):
      try:
        t.workbook
      except Exception as e:  # noqa
        out.append((type(e).__name__, str(e), t._inner_tabulation))
    return out
  rec("%s missing attribute" % cls.__name__, broken)

def adp(species, dip, quad):
  t = eam_tabulation.ADP_EAMTabulation(pairs_for(species), eampots(species), pairs_for(dip), pairs_for(quad), 5.0, 6, 10.0, 5)
  return describe(t), write_via_open_fp(t), len(t.dipole_potentials), len(t.quadrupole_potentials)
for species, dip, quad in [(["Al"], ["Al"], ["Al"]), (["Al", "Cu"], ["Al"], ["Cu", "Al"]), (["Cu", "Al"], [], [])]:
  rec("ADP %s %s %s" % (species, dip, quad), lambda: adp(species, dip, quad))

# TABEAM writer functions directly
for species in [["Al"], ["Cu", "Al"], ["Ag", "Cu", "Al"]]:
  def tabeam():
    out = io.StringIO()
    ap.writeTABEAM(5, 0.5, 7, 0.4, eampots(species), pairs_for(species, (("Al", "Cu"),)), out, "title " * 30)
    ap.writeTABEAMFinnisSinclair(6, 0.25, 5, 0.3, eampots(species, True), pairs_for(species), out)
    return out.getvalue()
  rec("TABEAM %s" % species, tabeam)
rec("TABEAM FS missing", lambda: ap.writeTABEAMFinnisSinclair(6, 0.25, 5, 0.3, eampots(["Al"], True) + eampots(["Cu"], True), [], io.StringIO()))
rec("_tabulateFunction", lambda: [(lambda o: (_dlpoly_writeTABEAM._tabulateFunction(o, math.sin, n, 0.3), o.getvalue())[1])(io.StringIO()) for n in range(0, 10)])

# ------------------------------------------------------------------ multi range potential forms
def f1(r): return 1.0 + r
def f2(r): return 10.0 * r
class WithDeriv(object):
  def __call__(self, r): return r * r
  def deriv(self, r): return 2 * r
class WithDeriv2(WithDeriv):
  def deriv2(self, r): return 2.0

RS = [-1.0, 0.0, 0.5, 1.0, 1.0000001, 1.5, 2.0, 2.5, 3.0, 3.5, float("inf"), float("nan")]
DEFNS = {
  "empty": [],
  "one>": [(">", 1.0, f1)],
  "one>=": [(">=", 1.0, f1)],
  "two": [(">", 0.0, f1), (">=", 2.0, f2)],
  "two rev": [(">=", 2.0, f2), (">", 0.0, f1)],
  "same start": [(">", 1.0, f1), (">=", 1.0, f2)],
  "same start rev": [(">=", 1.0, f2), (">", 1.0, f1)],
  "three deriv": [(">=", 0.0, WithDeriv()), (">", 1.0, f2), (">=", 3.0, f1)],
  "three deriv2": [(">", float("-inf"), WithDeriv2()), (">", 1.0, WithDeriv()), (">=", 2.0, f1)],
  "dup": [(">", 1.0, f1), (">", 1.0, f2), (">=", 2.0, f1), (">=", 2.0, f2)],
}
for name, defn in sorted(DEFNS.items()):
  for kw in [{}, {"default_value": -7.5}, {"default": 1}, {"default_value": 1, "zzz": 2, "aaa": 3}]:
    def mr():
      p = create_Multi_Range_Potential_Form(*[Multi_Range_Defn(*d) for d in defn], **kw)
      out = [type(p).__name__, [(d.range_type, d.start) for d in p.range_defns]]
      for r in RS:
        row = [p(r)]
        if hasattr(p, "deriv"):
          row.append(p.deriv(r))
        if hasattr(p, "deriv2"):
          row.append(p.deriv2(r))
        out.append(row)
      return out
    rec("multi range %s %r" % (name, sorted(kw)), mr)
rec("multi range classes", lambda: [c.__mro__ for c in (Multi_Range_Potential_Form, Multi_Range_Potential_Form_Deriv, Multi_Range_Potential_Form_Deriv2, Multi_Range_Defn)])

# ------------------------------------------------------------------ modifiers through configuration files
def pair_values(line):
  cfg = u"[Tabulation]\ntarget : LAMMPS\nnr : 5\ncutoff : 4.0\n\n[Pair]\nA-B : %s\n" % line
  t = Configuration().read(io.StringIO(cfg))
  p = t.potentials[0]
  return [(p.energy(r), p.force(r)) for r in [0.5, 0.8, 1.0, 1.4, 2.0, 3.5]]


MOD_LINES = [
  "spline(>0 as.zbl 14 8 >=0.8 exp_spline >=1.4 as.buck 180003 0.3 32.0)",
  "spline(>0 as.zbl 14 8 >0.8 exp_spline >1.4 as.buck 180003 0.3 32.0)",
  "spline(>0 as.zbl 14 8 >=0.8 exp_spline 1.0 >=1.4 as.buck 180003 0.3 32.0)",
  "spline(>0 as.bornmayer 1000 0.3 >=0.8 buck4_spline 1.1 >=1.4 as.buck 0 1 32.0)",
  "spline(>0 as.bornmayer 1000 0.3 >=0.8 buck4_spline >=1.4 as.buck 0 1 32.0)",
  "spline(>0 as.bornmayer 1000 0.3 >=0.8 buck4_spline 1.0 2.0 >=1.4 as.buck 0 1 32.0)",
  "spline(>0 as.bornmayer 1000 0.3 >=0.8 buck4_spline 0.5 >=1.4 as.buck 0 1 32.0)",
  "spline(>0 as.bornmayer 1000 0.3 >=0.8 buck4_spline 1.4 >=1.4 as.buck 0 1 32.0)",
  "spline(>0 as.zbl 14 8 >=0.8 as.zero >=1.4 as.buck 180003 0.3 32.0)",
  "spline(>0 as.zbl 14 8 >=0.8 sum(as.zero, as.zero) >=1.4 as.buck 180003 0.3 32.0)",
  "spline(>0 as.zbl 14 8)",
  "spline(>0 as.zbl 14 8 >=0.8 exp_spline)",
  "spline(>0 as.zbl 14 8 >=0.8 exp_spline >=1.4 as.buck 180003 0.3 32.0 >=2.0 as.zero)",
  "spline(>0 as.zbl 14 8 >=0.8 exp_spline >=1.4 as.buck 180003 0.3 32.0, as.zero)",
  "spline(>1.0 as.zbl 14 8 >=0.8 exp_spline >=1.4 as.buck 180003 0.3 32.0)",
  "spline(>0.8 as.zbl 14 8 >=0.8 exp_spline >=1.4 as.buck 180003 0.3 32.0)",
  "spline(>0 as.zbl 14 8 >=1.5 exp_spline >=1.4 as.buck 180003 0.3 32.0)",
  "spline(>0 as.zbl 14 8 >=1.4 exp_spline >=1.4 as.buck 180003 0.3 32.0)",
  "spline(>0 sum(as.zbl 14 8, as.constant 1) >=0.8 exp_spline >=1.4 product(as.buck 180003 0.3 32.0, as.constant 2))",
  "trans(as.buck 1000.0 0.2 32.0, as.constant 2.0)",
  "trans(as.buck 1000.0 0.2 32.0)",
  "trans(as.buck 1000.0 0.2 32.0, as.constant 2.0, as.constant 1)",
  "trans(as.buck 1000.0 0.2 32.0, as.zero)",
  "trans(as.buck 1000.0 0.2 32.0, sum(as.constant 1, as.constant 2))",
  "trans(as.buck 1000.0 0.2 32.0, as.constant 1 2)",
  "trans(as.buck 1000.0 0.2 32.0, as.constant)",
  "trans(as.polynomial 1 2 3, as.constant -0.25)",
  "sum(as.buck 1000.0 0.2 32.0, as.constant 2.0, as.polynomial 0 1)",
  "product(as.buck 1000.0 0.2 32.0, as.constant 2.0)",
  "pow(as.polynomial 1 1, as.constant 2.0)",
  ">0 as.constant 1 >=1.0 as.constant 2 >2.0 as.constant 3",
  ">=1.0 as.constant 2 >0 as.constant 1",
]
for line in MOD_LINES:
  rec("modifier %s" % line, lambda: pair_values(line))

# ------------------------------------------------------------------ potable front-end
BIG = u"""[Variables]
A : 1000.0

[Tabulation]
target : setfl
nr : 10
dr : 0.5
nrho : 5
cutoff_rho : 20.0

[Pair]
O-O : as.buck ${A} 0.3 32.0
Al - Cu : >=0 as.morse 1.2 2.5 0.4 >=0.5 sum(as.morse 1.3 2.4 0.5, pow(as.constant 2, as.constant 3)) >1.5 as.zero
Al-Al : myform 1.0  2.0
Cu-Cu : tabby

[Potential-Form]
myform(r, a , b) : a*r + b

[Table-Form:tabby]
interpolation : cubic_spline
x : 0 1 2 3 4 5
y : 5 4 3 2 1 0

[EAM-Embed]
Al : as.sqrt -1.0
Cu : >=0 as.sqrt -2.0 >5 as.constant 1

[EAM-Density]
%s

[Species]
Xx.atomic_mass : 3.0

[Orphan]
k : v
"""
DENS_STD = u"Al : as.exponential 1.0 -1.0\nCu : as.exponential 2.0 -1.5"
DENS_FS = u"Al->Al : as.exponential 1.0 -1.0\nCu -> Al : as.exponential 2.0 -1.5\nAl->Cu : as.zero"


def run_potable(args, txt):
  d = os.path.join(WORK, "potable")
  shutil.rmtree(d, ignore_errors=True)
  os.makedirs(d)
  cfg = os.path.join(d, "in.aspot")
  outf = os.path.join(d, "out.tab")
  with open(cfg, "w") as f:
    f.write(txt)
  argv = ["potable", cfg] + [a.replace("@OUT@", outf) for a in args]
  so, se = io.StringIO(), io.StringIO()
  old = sys.argv
  sys.argv = argv
  code = None
  try:
    with contextlib.redirect_stdout(so), contextlib.redirect_stderr(se):
      try:
        potable.main()
      except SystemExit as e:
        code = e.code
  finally:
    sys.argv = old
  content = None
  if os.path.exists(outf):
    with open(outf, "rb") as f:
      content = f.read()
    if content[:2] == b"PK":
      import openpyxl
      content = repr(sheet_dump(openpyxl.load_workbook(io.BytesIO(content)))).encode()
  return (code, so.getvalue(), se.getvalue(), None if content is None else hashlib.sha256(content).hexdigest())


O = "-e Tabulation:target=%s -r Pair:O-O"
POT_ARGS = [
  "--list-items", "--list-item-labels", "-l", "--item-value Pair:O-O", "--item-value Table-Form:tabby:x", "--item-value Nope:x", "--item-value nocolon", "--item-value Pair:",
  "--item-value :A", "--item-value Variables:A",
  "@OUT@", "", "@OUT@ -r Pair:O-O", "@OUT@ " + O % "LAMMPS", "@OUT@ " + O % "DL_POLY", "@OUT@ -e Tabulation:nr=12 " + O % "DL_POLY", "@OUT@ " + O % "GULP", "@OUT@ " + O % "excel",
  "@OUT@ " + O % "DL_POLY_EAM", "@OUT@ " + O % "excel_eam", "@OUT@ " + O % "nonsense", "@OUT@ " + O % "setfl_fs",
  "--list-items -r Orphan:k", "--list-items -r Orphan:zz", "--list-items -r Orphan", "--list-items -a Orphan:k=2", "--list-items -a Orphan:j=2 New:x=y=z", "--list-items -a Orphan:j",
  "--list-items -e Orphan:j=2", "--list-items -e Orphan", "--list-items -e Orphan=2", "--list-items -e Orphan:k=1 -e Orphan:k=2 -r Orphan:k", "--list-items -r Orphan:k -e Orphan:k=3",
  "--list-items --include-species O", "--list-items --include-species", "--list-item-labels --exclude-species Al", "--list-item-labels --exclude-species",
  "--list-items --include-species Al --exclude-species Cu",
  "@OUT@ -r Pair:O-O --exclude-species Cu", "@OUT@ -r Pair:O-O --include-species Cu", "@OUT@ -r Pair:O-O --include-species", "@OUT@ -r Pair:O-O --exclude-species",
]
for args in POT_ARGS:
  for dens in (DENS_STD, DENS_FS):
    if dens is DENS_FS and "setfl_fs" not in args and not args.startswith("--list-item"):
      continue
    rec("potable %r fs=%s" % (args, dens is DENS_FS), lambda: run_potable(args.split(), BIG % dens))

# query helpers used directly
cp = ConfigParser(io.StringIO(BIG % DENS_FS))
for fn in ["_list_items", "_list_item_labels", "_list_plot_item_labels", "_list_table_forms"]:
  rec("_query_actions.%s" % fn, lambda: getattr(_query_actions, fn)(cp))
for key in ["Pair:O-O", "Pair : O-O", "Table-Form:tabby:y", "x", "", ":", "Pair:zz"]:
  rec("_item_value %r" % key, lambda: _query_actions._item_value(cp, key))
for key, hv in itertools.product(["Pair:O-O=1", "Pair:O-O", "A:B:C=D=E", "=", ":", "a=b", "a:b", "a:=", ""], [True, False]):
  rec("_create_override_tuple %r %r" % (key, hv), lambda: potable._create_override_tuple(key, hv))

blob = "\n".join(LOG)
print("records:", len(LOG) // 2)
print("errors :", sum(1 for l in LOG if " !! " in l))
print("digest :", hashlib.sha256(blob.encode("utf-8")).hexdigest())
if os.environ.get("TWIN_DUMP"):
  open(os.environ["TWIN_DUMP"], "w").write(blob)

"""Differential script for twin B: multi-range dispatch (_multi_range_potential_form) and spline coefficient set-up (spline).

Prints one digest line per case plus an overall sha256. Run on clean and on refactored tree: output must be identical."""
import hashlib
import io
import itertools
import math
import collections

import atsim.potentials as ap
from atsim.potentials import Potential, potentialforms as pf, plus
from atsim.potentials import Multi_Range_Defn, create_Multi_Range_Potential_Form
from atsim.potentials._multi_range_potential_form import Multi_Range_Potential_Form, Multi_Range_Potential_Form_Deriv, Multi_Range_Potential_Form_Deriv2
from atsim.potentials import spline as sp
from atsim.potentials.config import Configuration

overall = hashlib.sha256()

def record(label, payload):
  payload = payload.encode("utf-8")
  h = hashlib.sha256(payload).hexdigest()
  print("%-78s %7d %s" % (label, len(payload), h[:20]))
  overall.update(label.encode("utf-8"))
  overall.update(h.encode("ascii"))

def attempt(label, func):
  out = io.StringIO()
  try:
    ret = func(out)
    record(label, "OK|ret=%r|" % (ret,) + out.getvalue())
  except BaseException as e:
    record(label, "EXC|%s|%s|written=%r" % (type(e).__name__, e, out.getvalue()))

def safe(func, *args):
  try:
    return repr(func(*args))
  except BaseException as e:
    return "EXC:%s:%s" % (type(e).__name__, e)

INF = float("inf")
NAN = float("nan")

class Tagged(object):
  """Potential form without analytical derivatives identifying itself in its return value"""
  def __init__(self, tag):
    self.tag = tag
  def __call__(self, r):
    return self.tag * 1000.0 + r

class TaggedD(Tagged):
  def deriv(self, r):
    return self.tag * 100.0 + r

class TaggedD2(TaggedD):
  def deriv2(self, r):
    return self.tag * 10.0 + r

DuckDefn = collections.namedtuple("DuckDefn", ["range_type", "start", "potential_form"])

def rvalues(starts):
  vals = set([-INF, INF, -1.0, 0.0, 1e-12, 0.5, 100.0, -0.0, 1, 2, 3])
  for s in starts:
    if s == s and abs(s) != INF:
      vals.update([s, s - 1e-9, s + 1e-9, s - 0.5, s + 0.5, math.nextafter(s, INF), math.nextafter(s, -INF)])
  vals = sorted(vals)
  return vals + [NAN]

def multi_range_cases():
  layouts = {
    "empty": [],
    "one_gt": [(">", 1.0)],
    "one_ge": [(">=", 1.0)],
    "two": [(">", 0.0), (">=", 2.0)],
    "two_unsorted": [(">=", 2.0), (">", 0.0)],
    "three": [(">", 0.0), (">", 1.5), (">=", 4.0)],
    "three_perm": [(">=", 4.0), (">", 0.0), (">", 1.5)],
    "neg_inf": [(">", -INF), (">=", 0.0), (">", 2.5), (">=", 2.75)],
    "dup_ge_gt": [(">", 1.0), (">=", 1.0), (">", 3.0)],
    "dup_gt_ge": [(">=", 1.0), (">", 1.0), (">", 3.0)],
    "dup_same": [(">", 1.0), (">", 1.0), (">=", 3.0), (">=", 3.0)],
    "dup_first": [(">", 0.0), (">=", 0.0)],
    "many": [(t, s) for t, s in zip(itertools.cycle([">", ">=", ">=", ">"]), [5.0, 0.25, 3.0, 1.0, 0.5, 4.0, 2.0, 0.75, 2.0, 6.5])],
    "ints": [(">", 0), (">=", 2), (">", 5)],
    "inf_end": [(">", 0.0), (">=", INF)],
    "nan_start": [(">", 0.0), (">=", NAN), (">", 2.0)],
  }
  for lname in sorted(layouts):
    layout = layouts[lname]
    for kind, classes in [("plain", [Tagged]), ("deriv", [Tagged, TaggedD]), ("deriv2", [TaggedD, Tagged, TaggedD2]), ("alld2", [TaggedD2])]:
      for defn_cls_name, defn_cls in [("defn", Multi_Range_Defn), ("duck", DuckDefn)]:
        for kwargs in [{}, {"default_value": -7.5}]:
          def run(out):
            defns = [defn_cls(t, s, classes[i % len(classes)](i + 1)) for i, (t, s) in enumerate(layout)]
            if defn_cls is DuckDefn:
              mr = Multi_Range_Potential_Form_Deriv2(*defns, **kwargs) if kind != "plain" else Multi_Range_Potential_Form(*defns, **kwargs)
            else:
              mr = create_Multi_Range_Potential_Form(*defns, **kwargs)
            out.write(type(mr).__name__)
            out.write(repr([(d.range_type, d.start, d.potential_form.tag) for d in mr.range_defns]))
            out.write(repr(type(mr.range_defns)))
            out.write(repr(mr.default_value))
            for r in rvalues([s for _t, s in layout]):
              out.write("|%r:%s" % (r, safe(mr, r)))
              if defn_cls is Multi_Range_Defn:
                for meth in ["deriv", "deriv2"]:
                  if hasattr(mr, meth):
                    out.write(",%s" % safe(getattr(mr, meth), r))
              found = mr._range_search(r)
              out.write(",%s" % (None if found is None else found.potential_form.tag))
            # re-assign the ranges through the property setter
            mr.range_defns = reversed(defns[1:])
            out.write(repr([(d.range_type, d.start, d.potential_form.tag) for d in mr.range_defns]))
            for r in rvalues([s for _t, s in layout]):
              out.write("|%r:%s" % (r, safe(mr, r)))
          attempt("multirange %s %s %s %r" % (lname, kind, defn_cls_name, sorted(kwargs)), run)

  # keyword argument checking
  for kwargs in [{"default_value": 1.0, "zeta": 1}, {"b": 1, "a": 2, "c": 3}, {"default": 1.0}, {"default_value": None}, {"Default_value": 2, "default_value": 3}]:
    for factory in [Multi_Range_Potential_Form, Multi_Range_Potential_Form_Deriv, create_Multi_Range_Potential_Form]:
      attempt("multirange kwargs %s %r" % (factory.__name__, sorted(kwargs)),
              lambda out: out.write(repr(factory(Multi_Range_Defn(">", 0.0, Tagged(1)), **kwargs)(1.0))))

  # things that cannot be ordered or compared
  bad_layouts = {
    "str_start": [(">", 0.0), (">", "1.0")],
    "none_start": [(">", None), (">", 1.0)],
    "single_none": [(">", None)],
    "complex": [(">", 1j), (">", 2.0)],
    "not_iterable": None,
  }
  for lname in sorted(bad_layouts):
    def run(out):
      layout = bad_layouts[lname]
      if layout is None:
        mr = Multi_Range_Potential_Form()
        mr.range_defns = 5
      else:
        mr = create_Multi_Range_Potential_Form(*[Multi_Range_Defn(t, s, Tagged(i)) for i, (t, s) in enumerate(layout)])
      for r in [0.0, 1.0, 2.0, "a", None]:
        out.write("|%r:%s" % (r, safe(mr, r)))
    attempt("multirange bad %s" % lname, run)

def spline_cases():
  funcs = {
    "zbl": pf.zbl(92, 8),
    "buck": pf.buck(1633.0, 0.327, 3.9),
    "bks": plus(pf.coul(2.4, -1.2), pf.buck(18003.7572, 0.2052048149, 133.5381)),
    "bornmayer": pf.bornmayer(11272.6, 0.1363),
    "attractive": pf.buck(0.0, 1.0, 134.0),
    "numeric_exp": lambda r: 500.0 * math.exp(-r / 0.4),
    "numeric_neg": lambda r: -3.0 / (1.0 + r * r),
    "morse": pf.morse(1.65, 2.369, 0.577),
    "zero": pf.zero(),
    "const_neg": pf.constant(-2.0),
    "poly": pf.polynomial(1.0, -2.0, 0.5),
  }
  points = [(0.8, 1.4), (1.2, 2.6), (1, 2), (0.3, 0.9), (2.5, 4.0), (3, 3.5), (0.5, 0.5000001), (2.0, 1.0), (1.5, 1.5), (0.0, 1.0), (1e-3, 30.0), (1e70, 2e70), (1e200, 2.0), (-1.0, 1.0)]
  names = sorted(funcs)
  pairs = [(a, b) for a in names for b in names if (names.index(a) * 7 + names.index(b) * 3) % 4 == 0]
  for a, b in pairs:
    for dx, ax in points:
      def run(out):
        s = ap.SplinePotential(funcs[a], funcs[b], dx, ax)
        out.write(repr(s.splineCoefficients))
        out.write(repr((hasattr(s, "deriv"), hasattr(s, "deriv2"), s.detachmentX, s.attachmentX)))
        lo, hi = min(dx, ax), max(dx, ax)
        for i in range(-3, 24):
          r = lo + (hi - lo) * i / 20.0
          out.write("|%r:%s" % (r, safe(s, r)))
          for meth in ["deriv", "deriv2", "_deriv", "_deriv2"]:
            if hasattr(s, meth):
              out.write(",%s" % safe(getattr(s, meth), r))
      attempt("exp_spline %s %s %r %r" % (a, b, dx, ax), run)

  for a, b in pairs[::3]:
    for dx, rmin, ax in [(1.2, 2.1, 2.6), (1.0, 1.5, 3), (0.5, 0.75, 1.0), (1.0, 1.0, 2.0), (2.0, 1.5, 1.0), (1.0, 5.0, 2.0)]:
      def run(out):
        s = sp.Buck4_SplinePotential(funcs[a], funcs[b], dx, ax, rmin)
        out.write(repr(s.splineCoefficients))
        out.write(repr((hasattr(s, "deriv"), hasattr(s, "deriv2"))))
        for i in range(-3, 24):
          r = dx + (ax - dx) * i / 20.0
          out.write("|%r:%s" % (r, safe(s, r)))
          for meth in ["deriv", "deriv2"]:
            if hasattr(s, meth):
              out.write(",%s" % safe(getattr(s, meth), r))
      attempt("buck4_spline %s %s %r %r %r" % (a, b, dx, rmin, ax), run)

  # Custom_SplinePotential with hand made spline objects: which of deriv / deriv2 get exposed
  class HandSpline(object):
    def __init__(self, dp, atp, kind):
      self.detach_point = dp
      self.attach_point = atp
      self.spline_coefficients = (1, 2, 3)
      if kind >= 1:
        self.deriv = lambda r: 2.0 * r
      if kind >= 2:
        self.deriv2 = lambda r: 2.0
    def __call__(self, r):
      return r * r
  for kind in [0, 1, 2]:
    for fa, fb in [(Tagged(1), Tagged(2)), (TaggedD(1), Tagged(2)), (Tagged(1), TaggedD2(2)), (TaggedD2(1), TaggedD(2))]:
      def run(out):
        dp = sp.Spline_Point(fa, 1.0)
        atp = sp.Spline_Point(fb, 2.0)
        c = sp.Custom_SplinePotential(HandSpline(dp, atp, kind))
        out.write(repr((hasattr(c, "deriv"), hasattr(c, "deriv2"), c.splineCoefficients)))
        for r in [0.5, 1.0, 1.25, 2.0, 3.0]:
          out.write("|%r:%s,%s,%s" % (r, safe(c, r), safe(c._deriv, r), safe(c._deriv2, r)))
      attempt("custom_spline %d %s %s" % (kind, type(fa).__name__, type(fb).__name__), run)

  # Exp_Spline directly, including unusual detachment / attachment values
  for dx, ax in [(0.8, 1.4), ("a", 1.0), (1.0, "b"), (None, 1.0), (1.0, None), (NAN, 1.0), (1.0, INF), (1j, 2.0), (True, 2)]:
    def run(out):
      e = sp.Exp_Spline(sp.Spline_Point(lambda r: 3.0, dx), sp.Spline_Point(lambda r: 2.0, ax))
      out.write(repr(e.spline_coefficients))
    attempt("Exp_Spline const %r %r" % (dx, ax), run)

CONFIGS = {
  "exp_spline": u"""[Tabulation]
target : %(target)s
cutoff : 6.0
nr : %(nr)s

[Potential-Form]
bks(r, qi, qj, A, rho, C) = as.coul(r, qi,qj) + as.buck(r, A, rho, C)

[Pair]
Si-O = spline(as.zbl 14 8 >=0.8 exp_spline >=1.4 bks 2.4 -1.2 18003.7572 0.2052048149 133.5381)
O-O = spline(as.bornmayer 11272.6 0.1363 >1.2 buck4_spline 2.1 >2.6 as.buck 0.0 1.0 134.0 )
""",
  "multi": u"""[Tabulation]
target : %(target)s
cutoff : 6.0
nr : %(nr)s

[Pair]
A-B = as.bornmayer 1000.0 0.3 >=1.5 as.buck 1633.0 0.327 3.9 >4.0 as.zero
B-B = >=2.0 as.constant 1.5 >0.5 as.polynomial 1.0 2.0 -0.5 >3.0 sum(as.morse 1.65 2.369 0.577, >1.0 as.constant 2.0)
C-A = >1.0 as.lj 0.02 3.2 >=1.0 as.zero
""",
  "eam_multi": u"""[Tabulation]
target : %(eamtarget)s
cutoff : 5.0
nr : %(nr)s
cutoff_rho : 20.0
nrho : 30

[Pair]
Al-Al = as.morse 1.65 2.369 0.577 >=3.0 as.zero

[EAM-Embed]
Al = as.polynomial 0.0 -1.0 0.01 >10.0 as.constant -9.0

[EAM-Density]
Al = as.exponential 2.0 0.5 >=2.5 as.zero
""",
}

def config_cases():
  for cname in sorted(CONFIGS):
    for target, eamtarget in [("LAMMPS", "setfl"), ("DL_POLY", "DL_POLY_EAM"), ("GULP", "setfl")]:
      for nr in [13, 120]:
        def run(out):
          text = CONFIGS[cname] % dict(target=target, eamtarget=eamtarget, nr=nr)
          tab = Configuration().read(io.StringIO(text))
          tab.write(out)
        attempt("config %s %s %d" % (cname, target, nr), run)

multi_range_cases()
spline_cases()
config_cases()
print("OVERALL", overall.hexdigest())

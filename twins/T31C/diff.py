"""Differential script for twin C.

Exercises the potential modifiers in atsim.potentials._modifiers (spline, trans, sum, product, pow)
through configuration files (Configuration.read), through hand built parser tuples
(Potential_Form_Builder.create_potential_function) and exercises the option handling of
the potable command line tool (--override-item, --add-item, --remove-item, --item-value)
for well formed and malformed input.

Prints number of cases and a sha256 digest of outputs / exception types+messages.
"""
import contextlib
import hashlib
import io
import logging
import os
import sys
import tempfile

from atsim.potentials.config import ConfigParser, Configuration, Potential_Form_Registry, Modifier_Registry
from atsim.potentials.config._common import PotentialModifierTuple, MultiRangeDefinitionTuple, PotentialFormInstanceTuple
from atsim.potentials.config._potential_form_builder import Potential_Form_Builder
from atsim.potentials.tools import potable
from atsim.potentials.tools.potable import _query_actions

logging.disable(logging.CRITICAL)

LINES = []

def record(label, func):
  try:
    out = repr(func())
  except BaseException as e:
    mro = ",".join(c.__name__ for c in type(e).__mro__)
    out = "EXC {}.{} mro={} args={!r} str={!r}".format(type(e).__module__, type(e).__name__, mro, e.args, str(e))
  LINES.append("{} -> {}".format(label, out))

def tabulate(cfg):
  tabulation = Configuration().read(io.StringIO(cfg))
  sio = io.StringIO()
  tabulation.write(sio)
  return hashlib.sha256(sio.getvalue().encode("utf-8")).hexdigest()

RVALS = [0.1, 0.5, 0.79, 0.8, 0.81, 1.0, 1.2, 1.39, 1.4, 1.41, 2.0, 3.5]

def evaluate(f):
  out = [repr(f(r)) for r in RVALS]
  for attr in ("deriv", "deriv2"):
    if hasattr(f, attr):
      out.append([repr(getattr(f, attr)(r)) for r in RVALS])
    else:
      out.append(None)
  return out

def make_builder():
  pfr = Potential_Form_Registry(ConfigParser(io.StringIO(u"[Potential-Form]\nmyexp(r, A, n) : A*exp(-n*r)\n")), True)
  mr = Modifier_Registry()
  return Potential_Form_Builder(pfr, mr)

PFB = make_builder()

def from_config_line(line):
  cfg = u"[Pair]\nA-B : {}\n".format(line)
  cp = ConfigParser(io.StringIO(cfg))
  tup = cp.pair[0].potential_form_instance
  return evaluate(PFB.create_potential_function(tup))

pair_tmpl = """[Tabulation]
target : {target}
nr : 24
cutoff : 6.0

[Pair]
Si-O : {line}
O-O : as.buck 1388.773 0.3623 175.0

[Potential-Form]
myexp(r, A, n) : A*exp(-n*r)
"""

config_lines = {
  "exp_spline" : "spline(>0 as.zbl 14 8 >=0.8 exp_spline >=1.4 as.buck 180003 0.3 32.0)",
  "exp_spline custom" : "spline(>0 as.zbl 14 8 >=0.8 exp_spline >=1.4 myexp 1000.0 2.5)",
  "exp_spline shifted" : "spline(>=0.2 as.zbl 14 8 >0.9 exp_spline >1.6 as.buck 180003 0.3 32.0)",
  "exp_spline default start" : "spline(as.zbl 14 8 >=0.8 exp_spline >=1.4 as.buck 180003 0.3 32.0)",
  "buck4_spline" : "spline(>0 as.buck 11272.6 0.1363 0.0 >=1.2 buck4_spline 2.1 >=2.6 as.buck 0.0 1.0 134.0)",
  "buck4_spline no param" : "spline(>0 as.buck 11272.6 0.1363 0.0 >=1.2 buck4_spline >=2.6 as.buck 0.0 1.0 134.0)",
  "buck4_spline two params" : "spline(>0 as.buck 11272.6 0.1363 0.0 >=1.2 buck4_spline 2.1 2.2 >=2.6 as.buck 0.0 1.0 134.0)",
  "buck4_spline rmin low" : "spline(>0 as.buck 11272.6 0.1363 0.0 >=1.2 buck4_spline 1.0 >=2.6 as.buck 0.0 1.0 134.0)",
  "buck4_spline rmin high" : "spline(>0 as.buck 11272.6 0.1363 0.0 >=1.2 buck4_spline 2.6 >=2.6 as.buck 0.0 1.0 134.0)",
  "buck4_spline rmin equal" : "spline(>0 as.buck 11272.6 0.1363 0.0 >=1.2 buck4_spline 1.2 >=2.6 as.buck 0.0 1.0 134.0)",
  "exp_spline params" : "spline(>0 as.zbl 14 8 >=0.8 exp_spline 1.0 2.0 >=1.4 as.buck 180003 0.3 32.0)",
  "spline two args" : "spline(>0 as.zbl 14 8 >=0.8 exp_spline >=1.4 as.buck 180003 0.3 32.0, as.constant 1.0)",
  "spline one section" : "spline(>0 as.zbl 14 8)",
  "spline one section bad type" : "spline(as.constant 1.0)",
  "spline two sections" : "spline(>0 as.zbl 14 8 >=0.8 exp_spline)",
  "spline two sections bad type" : "spline(>0 as.zbl 14 8 >=0.8 as.buck 1.0 2.0 3.0)",
  "spline four sections" : "spline(>0 as.zbl 14 8 >=0.8 exp_spline >=1.4 as.buck 180003 0.3 32.0 >=3.0 as.zero)",
  "spline four sections bad type" : "spline(>0 as.zbl 14 8 >=0.8 cubic_spline >=1.4 as.buck 180003 0.3 32.0 >=3.0 as.zero)",
  "spline bad type" : "spline(>0 as.zbl 14 8 >=0.8 as.polynomial 1 2 >=1.4 as.buck 180003 0.3 32.0)",
  "spline modifier middle" : "spline(>0 as.zbl 14 8 >=0.8 sum(as.constant 1.0, as.constant 2.0) >=1.4 as.buck 180003 0.3 32.0)",
  "spline modifier middle two" : "spline(>0 as.zbl 14 8 >=0.8 product(as.constant 1.0, as.constant 2.0))",
  "spline modifier ends" : "spline(>0 sum(as.zbl 14 8, as.constant 0.5) >=0.8 exp_spline >=1.4 product(as.buck 180003 0.3 32.0, as.constant 2.0))",
  "spline range 1>2" : "spline(>1.0 as.zbl 14 8 >=0.8 exp_spline >=1.4 as.buck 180003 0.3 32.0)",
  "spline range 1=2" : "spline(>0.8 as.zbl 14 8 >=0.8 exp_spline >=1.4 as.buck 180003 0.3 32.0)",
  "spline range 2>3" : "spline(>0 as.zbl 14 8 >=1.8 exp_spline >=1.4 as.buck 180003 0.3 32.0)",
  "spline range 2=3" : "spline(>0 as.zbl 14 8 >=1.4 exp_spline >=1.4 as.buck 180003 0.3 32.0)",
  "spline range both" : "spline(>3 as.zbl 14 8 >=2 exp_spline >=1 as.buck 180003 0.3 32.0)",
  "spline range and params" : "spline(>3 as.zbl 14 8 >=2 exp_spline 1.0 >=1 as.buck 180003 0.3 32.0)",
  "spline unknown end" : "spline(>0 as.zbll 14 8 >=0.8 exp_spline >=1.4 as.buck 180003 0.3 32.0)",
  "spline in sum" : "sum(spline(>0 as.zbl 14 8 >=0.8 exp_spline >=1.4 as.buck 180003 0.3 32.0), as.constant 1.0)",
  "spline in sum bad" : "sum(as.constant 1.0, spline(>0 as.zbl 14 8 >=0.8 exp_spline))",
  "spline in range" : ">0 as.constant 4.0 >=0.5 spline(>0 as.zbl 14 8 >=0.8 exp_spline >=1.4 as.buck 180003 0.3 32.0)",
  "trans" : "trans(as.buck 1000.0 0.2 32.0, as.constant 0.5)",
  "trans negative" : "trans(myexp 1000.0 2.0, as.constant -0.05)",
  "trans of sum" : "trans(sum(as.buck 1000.0 0.2 32.0, as.constant 2.0), as.constant 0.5)",
  "trans of table-less multi range" : "trans(>0 as.constant 3.0 >=1.0 as.buck 1000.0 0.2 32.0, as.constant 0.5)",
  "trans one arg" : "trans(as.buck 1000.0 0.2 32.0)",
  "trans three args" : "trans(as.buck 1000.0 0.2 32.0, as.constant 0.5, as.constant 2.0)",
  "trans second not constant" : "trans(as.buck 1000.0 0.2 32.0, as.zero)",
  "trans second modifier" : "trans(as.buck 1000.0 0.2 32.0, sum(as.constant 0.5, as.constant 1.0))",
  "trans no params" : "trans(as.buck 1000.0 0.2 32.0, as.constant)",
  "trans two params" : "trans(as.buck 1000.0 0.2 32.0, as.constant 1.0 2.0)",
  "trans swapped" : "trans(as.constant 0.5, as.buck 1000.0 0.2 32.0)",
  "sum" : "sum(as.buck 1000.0 0.2 32.0, as.constant 0.5, myexp 10.0 1.0)",
  "product" : "product(as.buck 1000.0 0.2 32.0, as.constant 0.5)",
  "pow" : "pow(as.buck 1000.0 0.2 32.0, as.constant 2.0)",
  "sum empty-ish" : "sum(as.constant 0.5)",
}

for label, line in config_lines.items():
  record("line {}".format(label), lambda line=line: from_config_line(line))
  for target in ("LAMMPS", "DL_POLY"):
    cfg = pair_tmpl.format(target = target, line = line)
    record("tabulate {} {}".format(label, target), lambda cfg=cfg: tabulate(cfg))

# Hand built tuples (as in the project's tests)
def mr(t, v):
  return MultiRangeDefinitionTuple(t, v)

def pfi(label, params, start, nxt = None):
  return PotentialFormInstanceTuple(potential_form = label, parameters = params, start = start, next = nxt)

def spline_tuple(starts, middle = "exp_spline", middle_params = (), extra = None):
  third = pfi("as.buck", [18003.7572, 1.0/4.87318, 133.5381], starts[2], extra)
  second = pfi(middle, list(middle_params), starts[1], third)
  first = pfi("as.zbl", [14, 8], starts[0], second)
  return PotentialModifierTuple(modifier = "spline", potential_forms = [first], start = mr(">", 0.0), next = None)

def build(tup):
  return evaluate(PFB.create_potential_function(tup))

direct_cases = {
  "ok" : spline_tuple([mr(">", 0.0), mr(">=", 0.8), mr(">", 1.4)]),
  "ok buck4" : spline_tuple([mr(">", 0.0), mr(">=", 0.8), mr(">", 1.4)], "buck4_spline", [1.1]),
  "buck4 bad rmin" : spline_tuple([mr(">", 0.0), mr(">=", 0.8), mr(">", 1.4)], "buck4_spline", [1.5]),
  "buck4 str rmin" : spline_tuple([mr(">", 0.0), mr(">=", 0.8), mr(">", 1.4)], "buck4_spline", ["1.1"]),
  "bad name" : spline_tuple([mr(">", 0.0), mr(">=", 0.8), mr(">", 1.4)], "bad_spline"),
  "braces name" : spline_tuple([mr(">", 0.0), mr(">=", 0.8), mr(">", 1.4)], "{0}{}"),
  "int ranges" : spline_tuple([mr(">", 0), mr(">=", 1), mr(">", 2)]),
  "bad range 1" : spline_tuple([mr(">", 0.9), mr(">=", 0.8), mr(">", 1.4)]),
  "bad range 2" : spline_tuple([mr(">", 0.0), mr(">=", 1.8), mr(">", 1.4)]),
  "nan range" : spline_tuple([mr(">", 0.0), mr(">=", float("nan")), mr(">", 1.4)]),
  "inf range" : spline_tuple([mr(">", float("-inf")), mr(">=", 0.8), mr(">", float("inf"))]),
  "str range" : spline_tuple([mr(">", 0.0), mr(">=", "0.8"), mr(">", 1.4)]),
  "none start first" : spline_tuple([None, mr(">=", 0.8), mr(">", 1.4)]),
  "none start second" : spline_tuple([mr(">", 0.0), None, mr(">", 1.4)]),
  "none start third" : spline_tuple([mr(">", 0.0), mr(">=", 0.8), None]),
  "four" : spline_tuple([mr(">", 0.0), mr(">=", 0.8), mr(">", 1.4)], extra = pfi("as.zero", [], mr(">", 3.0))),
  "no forms" : PotentialModifierTuple(modifier = "spline", potential_forms = [], start = mr(">", 0.0), next = None),
  "two forms" : PotentialModifierTuple(modifier = "spline", potential_forms = [pfi("as.zero", [], None), pfi("as.zero", [], None)], start = mr(">", 0.0), next = None),
  "trans ok" : PotentialModifierTuple(modifier = "trans", potential_forms = [pfi("as.buck", [1000.0, 0.2, 32.0], None), pfi("as.constant", [0.25], None)], start = None, next = None),
  "trans braces" : PotentialModifierTuple(modifier = "trans", potential_forms = [pfi("as.buck", [1000.0, 0.2, 32.0], None), pfi("{oops}", [0.25], None)], start = None, next = None),
  "trans many params" : PotentialModifierTuple(modifier = "trans", potential_forms = [pfi("as.buck", [1000.0, 0.2, 32.0], None), pfi("as.constant", [0.25, 1, 2], None)], start = None, next = None),
  "trans none" : PotentialModifierTuple(modifier = "trans", potential_forms = [], start = None, next = None),
}
for label, tup in direct_cases.items():
  record("direct {}".format(label), lambda tup=tup: build(tup))

# --- potable command line handling -------------------------------------------
potable_cfg = u"""[Tabulation]
target : LAMMPS
nr : 10
cutoff : 5.0

[Pair]
O-O : as.buck 1633.0 0.327 3.95
U-O : as.buck 1000.0 0.3 0.0

[Table-Form:tf]
xy : 0 10 1 5 2 2.5 4 1 7 0
"""

def make_parser(overrides = None, additional = None, remove = None, species = None, exclude_flag = False):
  cp = potable._make_config_parser(io.StringIO(potable_cfg), overrides, additional, remove, species, exclude_flag)
  return sorted(_query_actions._list_items(cp))

for opt in ["Pair:O-O=as.constant 1.0", "Pair:O-O", "Pair=O-O", "PairO-O", "", "=", ":", ":=", "=:", "Pair:O-O=", "Table-Form:tf:xy=0 1 1 2",
    "Tabulation:nr=12", "Tabulation:nr=a=b", "Tabulation=nr:12", "Nope:k=v", "Pair:U-U=as.zero", "a:b:c", "Pair : O-O = as.zero"]:
  record("override {!r}".format(opt), lambda opt=opt: make_parser(overrides = [[opt]]))
  record("override twice {!r}".format(opt), lambda opt=opt: make_parser(overrides = [[opt], ["Tabulation:nr=20", opt]]))
  record("add {!r}".format(opt), lambda opt=opt: make_parser(additional = [[opt]]))
  record("remove {!r}".format(opt), lambda opt=opt: make_parser(remove = [[opt]]))
  record("tuple {!r}".format(opt), lambda opt=opt: potable._create_override_tuple(opt))
  record("tuple novalue {!r}".format(opt), lambda opt=opt: potable._create_override_tuple(opt, False))

def run_main(argv):
  tmpdir = tempfile.mkdtemp()
  cfg_path = os.path.join(tmpdir, "in.aspot")
  out_path = os.path.join(tmpdir, "out.table")
  with open(cfg_path, "w") as f:
    f.write(potable_cfg)
  old_argv = sys.argv
  sys.argv = ["potable"] + [a.replace("@CFG", cfg_path).replace("@OUT", out_path) for a in argv]
  out = io.StringIO()
  err = io.StringIO()
  code = None
  try:
    with contextlib.redirect_stdout(out), contextlib.redirect_stderr(err):
      try:
        potable.main()
      except SystemExit as e:
        code = e.code
  finally:
    sys.argv = old_argv
  written = None
  if os.path.exists(out_path):
    with open(out_path) as f:
      written = hashlib.sha256(f.read().encode("utf-8")).hexdigest()
    os.remove(out_path)
  os.remove(cfg_path)
  os.rmdir(tmpdir)
  return (code, out.getvalue(), err.getvalue().replace(tmpdir, "TMP"), written)

main_cases = [
  ["@CFG", "@OUT"],
  ["@CFG"],
  ["--list-items", "@CFG"],
  ["--list-item-labels", "@CFG"],
  ["--item-value", "Pair:O-O", "@CFG"],
  ["--item-value", "Table-Form:tf:xy", "@CFG"],
  ["--item-value", "PairO-O", "@CFG"],
  ["--item-value", "Pair:Q-Q", "@CFG"],
  ["-e", "Tabulation:nr=8", "--", "@CFG", "@OUT"],
  ["-e", "Tabulation:nr", "--", "@CFG", "@OUT"],
  ["-e", "Tabulation=8", "--", "@CFG", "@OUT"],
  ["-e", "Tabulation:nrr=8", "--", "@CFG", "@OUT"],
  ["-a", "Pair:U-U=as.buck 10.0 0.2 0.0", "--", "@CFG", "@OUT"],
  ["-a", "Pair:U-U", "--", "@CFG", "@OUT"],
  ["-a", "Pair:U-O=as.zero", "--", "@CFG", "@OUT"],
  ["-a", "Pair:U-U=spline(as.zero)", "--", "@CFG", "@OUT"],
  ["-a", "Pair:U-U=trans(as.zero)", "--", "@CFG", "@OUT"],
  ["-r", "Pair:U-O", "--", "@CFG", "@OUT"],
  ["-r", "Pair=U-O", "--", "@CFG", "@OUT"],
  ["-r", "PairU-O", "--", "@CFG", "@OUT"],
  ["-r", "Pair:U-O", "-l", "--", "@CFG"],
  ["-e", "Pair:U-O=spline(>0 as.zbl 92 8 >=0.8 exp_spline >=1.4 as.buck 1000.0 0.3 0.0)", "--", "@CFG", "@OUT"],
  ["-e", "Pair:U-O=spline(>0 as.zbl 92 8 >=1.8 exp_spline >=1.4 as.buck 1000.0 0.3 0.0)", "--", "@CFG", "@OUT"],
]
for argv in main_cases:
  record("main {!r}".format(argv), lambda argv=argv: run_main(argv))

text = "\n".join(LINES)
n_exc = sum(1 for l in LINES if "-> EXC" in l)
print("cases: {} (exceptions: {})".format(len(LINES), n_exc))
print("sha256:", hashlib.sha256(text.encode("utf-8")).hexdigest())

"""Twin C (--get-item-values): (a) digest of existing behaviour, must be identical on clean and edited tree;
(b) demonstration of the new option. Run with:
  /venv/bin/python -W ignore /tmp/wtpy.py /tmp/wt_r7_2 _twins/diffC.py"""
OPTION = "--get-item-values"
# ---------------------------------------------------------------------------
# Common harness (identical in diffA.py, diffB.py and diffC.py)
# ---------------------------------------------------------------------------
import contextlib
import glob
import hashlib
import io
import logging
import os
import subprocess
import sys
import tempfile

WT = os.path.dirname(os.path.dirname(os.path.abspath(__file__)))
os.chdir(WT)

# Send the INFO chatter of potable to nowhere (basicConfig() inside main() then is a no-op)
logging.basicConfig(level=logging.INFO, stream=open(os.devnull, "w"))

from atsim.potentials.tools import potable
from atsim.potentials import potentialforms
from atsim.potentials.config import Configuration, ConfigParser, FilteredConfigParser

TMPDIR = tempfile.mkdtemp(prefix="twin_")


def run_potable(*argv, **kwargs):
  """Run potable's main() in-process. Returns (exit_code, stdout, error message from stderr, sha256 of output file or None)"""
  outname = kwargs.get("out", None)
  args = ["potable"] + list(argv)
  outpath = None
  if outname:
    outpath = os.path.join(TMPDIR, outname)
    if os.path.exists(outpath):
      os.remove(outpath)
    # OUTPUT_FILE goes directly after POTENTIAL_DEFN_FILE (the nargs='*' options would swallow it otherwise)
    args.insert(2, outpath)
  so, se = io.StringIO(), io.StringIO()
  old_argv = sys.argv
  sys.argv = args
  code = None
  try:
    with contextlib.redirect_stdout(so), contextlib.redirect_stderr(se):
      try:
        potable.main()
      except SystemExit as e:
        code = e.code
  finally:
    sys.argv = old_argv
  content = None
  if outpath and os.path.exists(outpath):
    with open(outpath, "rb") as infile:
      content = hashlib.sha256(infile.read()).hexdigest()
  # stderr from the 'potable: error:' line onwards (what comes before is argparse's usage text)
  errlines = [l for l in se.getvalue().splitlines() if l.strip()]
  start = [i for i, l in enumerate(errlines) if ": error: " in l]
  err = " | ".join(errlines[start[0]:]) if start else " | ".join(errlines[-1:])
  err = err.replace(TMPDIR, "TMP")
  return (code, so.getvalue(), err, content)


ASPOT_FILES = sorted(
  glob.glob("tests/*/*.aspot") + glob.glob("tests/config/config_resources/*.aspot") +
  glob.glob("docs/user_guide/example_files/*.aspot") + glob.glob("docs/quick_start/*.aspot"))


def existing_behaviour_digest():
  """Digest over a broad sample of behaviour that exists in the clean tree."""
  h = hashlib.sha256()
  nrec = [0]

  def rec(*items):
    nrec[0] += 1
    h.update(repr(items).encode("utf-8"))
    h.update(b"\n")

  for fname in ASPOT_FILES:
    # Query actions
    code, out, err, _ = run_potable(fname, "--list-items")
    rec(fname, "list-items", code, out, err)
    code, labels, err, _ = run_potable(fname, "--list-item-labels")
    rec(fname, "list-item-labels", code, labels, err)
    labels = labels.splitlines()
    for label in labels[:3] + labels[-2:]:
      rec(fname, "item-value", label, run_potable(fname, "--item-value", label))
    rec(fname, "item-value-missing", run_potable(fname, "--item-value", "Pair:Zz-Zz"))
    rec(fname, "item-value-malformed", run_potable(fname, "--item-value", "nonsense"))

    # Tabulation (smaller grids to keep this quick, where the file allows it)
    rec(fname, "tabulate", run_potable(fname, out="plain.out"))
    rec(fname, "no-outfile", run_potable(fname))
    species = sorted(set(s for l in labels if l.startswith("Pair:") for s in l[5:].split("-")))
    for s in species[:2]:
      rec(fname, "include", s, run_potable(fname, "--include-species", s, out="inc.out"))
      rec(fname, "exclude", s, run_potable(fname, "--exclude-species", s, out="exc.out"))
      rec(fname, "include-list", s, run_potable(fname, "--list-items", "--include-species", s))
    rec(fname, "include-unknown", run_potable(fname, "--include-species", "Zz", out="inc.out"))

    # Edits
    first_pair = [l for l in labels if l.startswith("Pair:")][:1]
    for label in first_pair:
      rec(fname, "remove", run_potable(fname, "--remove-item", label, out="rem.out"))
      rec(fname, "remove-list", run_potable(fname, "--remove-item", label, "--list-items"))
      rec(fname, "override", run_potable(fname, "--override-item", label + "=as.buck 1000.0 0.3 12.0", out="ovr.out"))
      rec(fname, "add-dup", run_potable(fname, "--add-item", label + "=as.zero", out="add.out"))
    rec(fname, "add", run_potable(fname, "--add-item", "Pair:Xx-Yy=as.lj 0.01 2.5", out="add.out"))
    rec(fname, "add-list", run_potable(fname, "--add-item", "Pair:Xx-Yy=as.lj 0.01 2.5", "--list-items"))
    rec(fname, "override-missing", run_potable(fname, "--override-item", "Pair:Zz-Zz=as.zero", out="x.out"))
    rec(fname, "override-malformed", run_potable(fname, "--override-item", "Pair:Zz-Zz", out="x.out"))
    rec(fname, "remove-malformed", run_potable(fname, "--remove-item", "PairZz", out="x.out"))
    rec(fname, "bad-target", run_potable(fname, "--override-item", "Tabulation:target=NOTATARGET", out="x.out"))
    rec(fname, "bad-nr", run_potable(fname, "--override-item", "Tabulation:nr=abc", out="x.out"))

  # Files that are malformed as a whole
  not_ini = write_model("digest_not_ini.aspot", u"this is not an ini file\n")
  dup_pair = write_model("digest_dup.aspot", u"[Pair]\nA-B : as.zero\nB - A : as.zero\n")
  for path in (not_ini, dup_pair):
    rec("malformed-file", run_potable(path, "--list-items"), run_potable(path, out="x.out"))

  # argparse level behaviour
  rec("mutex-1", run_potable(ASPOT_FILES[0], "--list-items", "--list-item-labels"))
  rec("mutex-2", run_potable(ASPOT_FILES[0], "--include-species", "A", "--exclude-species", "B"))
  rec("no-file", run_potable("does_not_exist.aspot", "--list-items"))
  rec("unknown-option", run_potable(ASPOT_FILES[0], "--no-such-option"))
  # abbreviated long options (argparse allows unambiguous prefixes)
  for abbrev in (["--it", "Pair:O-O"], ["--item-val", "Pair:O-O"], ["--list-item-l"], ["--list-i"], ["--l"], ["--i", "O"],
                 ["--in", "O", "--list-items"], ["--e", "O", "--list-items"], ["--r", "Pair:O-O", "--list-items"],
                 ["--o", "Pair:O-O=as.zero", "--list-items"], ["--a", "Pair:X-X=as.zero", "--list-items"]):
    rec("abbrev", abbrev, run_potable(ASPOT_FILES[0], *abbrev))

  # Python API: Configuration / FilteredConfigParser
  for fname in ASPOT_FILES:
    with open(fname) as infile:
      cp = ConfigParser(infile)
    rec(fname, "parsed_sections", sorted(cp.parsed_sections), cp.orphan_sections)
    try:
      tab = Configuration().read_from_parser(FilteredConfigParser(cp, exclude=["O"]))
      rec(fname, type(tab).__name__, [(p.speciesA, p.speciesB) for p in tab.potentials])
    except Exception as e:
      rec(fname, "exc", type(e).__name__, str(e))

  # Python API: a sample of potential forms with derivatives
  forms = [
    potentialforms.buck(1000.0, 0.3, 12.0), potentialforms.bornmayer(800.0, 0.25),
    potentialforms.lj(0.01, 2.5), potentialforms.morse(1.8, 2.4, 0.6),
    potentialforms.coul(1.0, -2.0), potentialforms.polynomial(1.0, -2.0, 0.5),
    potentialforms.zbl(92, 8), potentialforms.exponential(2.0, 1.5)]
  for f in forms:
    for r in (0.5, 1.0, 2.5, 7.25):
      rec("%.10e" % f(r), "%.10e" % f.deriv(r), "%.10e" % f.deriv2(r))

  return nrec[0], h.hexdigest()


def run_in_fresh_process(hashseed, *argv):
  """Run potable in a fresh interpreter with the given PYTHONHASHSEED, returns (returncode, stdout, message of the error line on stderr, stderr)"""
  env = dict(os.environ)
  env["PYTHONHASHSEED"] = str(hashseed)
  cmd = [sys.executable, "-W", "ignore", "/tmp/wtpy.py", WT, "-c", "from atsim.potentials.tools.potable import main; main()"] + list(argv)
  p = subprocess.run(cmd, env=env, stdout=subprocess.PIPE, stderr=subprocess.PIPE, universal_newlines=True)
  errlines = [l.split(": error: ", 1)[1] for l in p.stderr.splitlines() if ": error: " in l]
  return (p.returncode, p.stdout, errlines[-1].replace(TMPDIR, "TMP") if errlines else "", p.stderr)


def has_option(name):
  code, out, err, _ = run_potable("--help")
  return name in out


def check(label, condition):
  print("  [{}] {}".format("ok" if condition else "FAIL", label))
  if not condition:
    check.failures += 1
check.failures = 0


def write_model(name, text):
  path = os.path.join(TMPDIR, name)
  with open(path, "w") as outfile:
    outfile.write(text)
  return path

# ---------------------------------------------------------------------------
# Edit C: --get-item-values SECTION_NAME:KEY [SECTION_NAME:KEY ...]
# ---------------------------------------------------------------------------
MODEL = u"""[Variables]
rho_oo : 0.2192

[Tabulation]
target : LAMMPS
cutoff : 6.0
nr : 13

[Pair]
U-O : as.buck 1761.775 0.35642 0.0
O - O : as.buck 9547.96 ${rho_oo} 32.0
Gd-O : >0 as.bornmayer 1885.75 0.3399
       >3 as.zero
Gd-Gd : tabbed
U-U = mine 1.0  2.0

[Potential-Form]
mine(r, A, B) = A*exp(-r) + B

[Table-Form:tabbed]
xy : 0.0 5.0 1.0 3.0 2.0 2.0 3.0 1.0

[Species]
Gd.charge : 3.0
"""


def demonstrate_feature():
  import itertools
  import random
  OPT = "--get-item-values"
  model = write_model("model.aspot", MODEL)
  files = [model] + ASPOT_FILES

  print("equals --item-value applied to each item in turn (and every item of --list-items is reachable, C14)")
  rng = random.Random(20240607)
  for path in files:
    labels = run_potable(path, "--list-item-labels")[1].splitlines()
    singles = [run_potable(path, "--item-value", l) for l in labels]
    check("{}: all {} single lookups succeed".format(os.path.basename(path), len(labels)), all(r[0] == 0 for r in singles))
    together = run_potable(path, OPT, *labels)
    check("{}: all items at once == concatenation".format(os.path.basename(path)),
          together[0] == 0 and together[2] == "" and together[1] == "".join(r[1] for r in singles))
    # Compare with --list-items as well: LABEL=VALUE lines
    listed = run_potable(path, "--list-items")[1]
    rebuilt = "".join("{}={}".format(l, r[1]) for l, r in zip(labels, singles))
    check("{}: consistent with --list-items".format(os.path.basename(path)), listed == rebuilt)
    for trial in range(4):
      pick = [rng.choice(labels) for i in range(rng.randint(1, 5))]   # order as given, repeats allowed
      r = run_potable(path, OPT, *pick)
      expect = "".join(singles[labels.index(l)][1] for l in pick)
      check("{}: {} picked items in the order given".format(os.path.basename(path), len(pick)), r[0] == 0 and r[1] == expect)

  print("examples")
  r = run_potable(model, OPT, "Tabulation:nr", "Pair:O-O", "Pair:O - O", "Potential-Form:mine(r, A, B)", "Table-Form:tabbed:xy", "Variables:rho_oo", "Species:Gd.charge", "Tabulation:nr")
  print("   ", repr(r[1]))
  check("key whitespace ignored, ${} substituted, Table-Form and Variables reachable, repeats allowed",
        r[0] == 0 and r[1] == "13\nas.buck 9547.96 0.2192 32.0\nas.buck 9547.96 0.2192 32.0\nA*exp(-r) + B\n0.0 5.0 1.0 3.0 2.0 2.0 3.0 1.0\n0.2192\n3.0\n13\n")
  r = run_potable(model, OPT, "Pair:Gd-O")
  check("multi-line value written as --item-value writes it", r[1] == run_potable(model, "--item-value", "Pair:Gd-O")[1] and r[1].count("\n") == 2)

  print("edits are applied first (C14); filters do not hide items, exactly as for --item-value")
  r = run_potable(model, OPT, "Pair:U-O", "Tabulation:nr", "--override-item", "Pair:U-O=as.zero", "Tabulation:nr=21")
  check("overridden values reported", r[0] == 0 and r[1] == "as.zero\n21\n")
  r = run_potable(model, OPT, "Pair:Ce-O", "Pair:U-O", "--add-item", "Pair:Ce - O=as.lj 1 2")
  check("added value reported", r[0] == 0 and r[1] == "as.lj 1 2\nas.buck 1761.775 0.35642 0.0\n")
  r = run_potable(model, OPT, "Pair:U-O", "Pair:Gd-O", "--remove-item", "Pair:Gd-O")
  check("removed item is gone: error and NO partial output", r[0] == 2 and r[1] == "" and "configuration error - item 'Pair:Gd-O' not found" in r[2])
  r = run_potable(model, OPT, "Pair:U-O", "--remove-item", "Pair:Zz-Zz")
  check("removing a missing item is a configuration error", r[0] == 2 and r[1] == "" and "configuration error - " in r[2])
  r = run_potable(model, OPT, "Pair:U-O", "--add-item", "Pair:O-U=as.zero")
  check("adding a reversed duplicate pair is a configuration error (C20)", r[0] == 2 and r[1] == "" and "Multiple entries for the pair" in r[2])
  for filt in (["--include-species", "O"], ["--exclude-species", "U"]):
    a = run_potable(model, OPT, "Pair:U-O", "Pair:O-O", *filt)
    b = [run_potable(model, "--item-value", k, *filt) for k in ("Pair:U-O", "Pair:O-O")]
    check("same as --item-value under {}".format(filt[0]), a[0] == 0 and a[1] == b[0][1] + b[1][1])

  print("malformed use (C16): configuration error or argparse usage error; nothing on stdout; message as --item-value gives")
  for bad in ("nonsense", "Pair:Zz-Zz", "NoSuchSection:key", ":", "Pair:", ""):
    single = run_potable(model, "--item-value", bad)
    for keys in ([bad], ["Pair:U-O", bad], [bad, "Pair:U-O"], ["Pair:U-O", "Tabulation:nr", bad]):
      r = run_potable(model, OPT, *keys)
      check("{!r} in {}: {}".format(bad, keys, r[2][15:90]),
            r[0] == 2 and r[1] == "" and r[2].startswith("potable: error: configuration error - ") and r[2] == single[2])
  r = run_potable(model, OPT)
  check("no items: usage error '{}'".format(r[2]), r[0] == 2 and "expected at least one argument" in r[2])
  for other in (["--list-items"], ["--list-item-labels"], ["--item-value", "Pair:U-O"]):
    r = run_potable(model, OPT, "Pair:U-O", *other)
    check("mutually exclusive with " + other[0], r[0] == 2 and "not allowed with argument" in r[2])
  not_ini = write_model("not_ini.aspot", u"this is not an ini file\n")
  r = run_potable(not_ini, OPT, "Pair:U-O")
  check("not an ini file", r[0] == 2 and r[1] == "" and "configuration error - Error reading configuration file" in r[2])
  dup = write_model("dup.aspot", MODEL.replace("[Potential-Form]", "O-U : as.zero\n\n[Potential-Form]"))
  r = run_potable(dup, OPT, "Pair:U-O")
  check("duplicate pair in file (C20)", r[0] == 2 and r[1] == "" and "Multiple entries for the pair" in r[2])
  r = run_potable(model, OPT, "Pair:U-O", out="never.out")
  check("an OUTPUT_FILE that is given is not written", r[0] == 0 and r[3] is None)

  print("unambiguous abbreviations of the existing options still resolve as before")
  r = run_potable(model, "--item-val", "Pair:U-O")
  check("--item-val", r[0] == 0 and r[1] == "as.buck 1761.775 0.35642 0.0\n")
  r = run_potable(model, "--it", "Pair:U-O")
  check("--it", r[0] == 0 and r[1] == "as.buck 1761.775 0.35642 0.0\n")

  print("determinism (C12): fresh processes with different PYTHONHASHSEED, repeated calls")
  keys = ["Tabulation:nr", "Pair:O-O", "Potential-Form:mine(r,A,B)", "Table-Form:tabbed:xy", "Variables:rho_oo"]
  for args in (keys, ["Pair:U-O", "Pair:Zz-Zz"]):
    results = set()
    for seed in (0, 1, 2, 12345):
      rc, out, err, full = run_in_fresh_process(seed, model, OPT, *args)
      check("seed {}: no traceback".format(seed), "Traceback" not in full)
      results.add((rc, out, err))
    for i in range(2):
      inproc = run_potable(model, OPT, *args)
      results.add((inproc[0], inproc[1], inproc[2].split(": error: ", 1)[-1]))
    check("one distinct result {}".format(sorted(results)[0]), len(results) == 1)
  before = run_potable(model, out="t1.out")[3]
  run_potable(model, OPT, *keys)
  after = run_potable(model, out="t2.out")[3]
  check("tabulation bytes unchanged by queries", before == after and before is not None)


if __name__ == "__main__":
  n, digest = existing_behaviour_digest()
  print("EXISTING-BEHAVIOUR DIGEST ({} records): {}".format(n, digest))
  if has_option(OPTION):
    print("FEATURE {} present".format(OPTION))
    demonstrate_feature()
    print("FEATURE CHECK FAILURES: {}".format(check.failures))
  else:
    print("FEATURE {} absent (clean tree)".format(OPTION))

"""Differential script for twin A: Multi_Range_Potential_Form range search / range ordering.

Prints a sha256 digest over everything observable through the public API of
atsim.potentials (Multi_Range_Defn, create_Multi_Range_Potential_Form) and
through atsim.potentials.config.Configuration for multi-range models."""
import hashlib
import io
import math
import random
import sys

from atsim.potentials import Multi_Range_Defn, create_Multi_Range_Potential_Form
from atsim.potentials import potentialfunctions as pf
from atsim.potentials import _multi_range_potential_form as mrmod
from atsim.potentials.config import Configuration

out = []

def emit(*args):
  out.append(" ".join(repr(a) for a in args))

def attempt(label, f):
  try:
    v = f()
    emit(label, "OK", v)
  except Exception as e:
    emit(label, "EXC", type(e).__name__, str(e))

class Tagged(object):
  """Potential form with no deriv"""
  def __init__(self, tag):
    self.tag = tag
  def __call__(self, r):
    return (self.tag, r)
  def __repr__(self):
    return "Tagged(%r)" % (self.tag,)

class TaggedD(Tagged):
  def deriv(self, r):
    return ("d", self.tag, r)

class TaggedD2(TaggedD):
  def deriv2(self, r):
    return ("d2", self.tag, r)

def probe_points(starts):
  pts = [float("-inf"), float("inf"), float("nan"), -1e300, 1e300, 0.0, -0.0]
  for s in starts:
    if not isinstance(s, (int, float)) or math.isinf(s) or math.isnan(s):
      continue
    s = float(s)
    pts.extend([s, math.nextafter(s, -math.inf), math.nextafter(s, math.inf), s - 0.25, s + 0.25, s-1e-9, s+1e-9])
  return pts

def exercise(label, defns, **kwargs):
  try:
    mrpf = create_Multi_Range_Potential_Form(*defns, **kwargs)
  except Exception as e:
    emit(label, "CREATE-EXC", type(e).__name__, str(e))
    return
  emit(label, type(mrpf).__name__, mrpf.default_value)
  emit(label, "order", [(d.range_type, d.start, getattr(d.potential_form, "tag", None)) for d in mrpf.range_defns])
  pts = probe_points([d.start for d in defns])
  for r in pts:
    attempt((label, "call", r), lambda: mrpf(r))
    if hasattr(mrpf, "deriv"):
      attempt((label, "deriv", r), lambda: mrpf.deriv(r))
    if hasattr(mrpf, "deriv2"):
      attempt((label, "deriv2", r), lambda: mrpf.deriv2(r))
  # ints and odd argument types
  for r in [0, 1, 2, 3, True, "x", None, (1,2)]:
    attempt((label, "oddcall", r), lambda: mrpf(r))
  # re-assignment of range_defns in reverse order
  mrpf.range_defns = list(reversed(list(defns)))
  emit(label, "order-rev", [(d.range_type, d.start, getattr(d.potential_form, "tag", None)) for d in mrpf.range_defns])
  for r in pts:
    attempt((label, "call-rev", r), lambda: mrpf(r))

Rdt = Multi_Range_Defn

# ... hand written cases
exercise("empty", [])
exercise("empty-default", [], default_value = 7.5)
exercise("badkw", [], blah = 1)
exercise("badkw2", [Rdt(">", 0.0, Tagged("a"))], default_value = 1.0, zeta = 2, alpha = 3)
exercise("single-gt", [Rdt(">", 0.0, Tagged("one"))])
exercise("single-ge", [Rdt(">=", 0.0, Tagged("one"))], default_value = -1.0)
exercise("single-inf", [Rdt(">=", float("-inf"), Tagged("one"))])
exercise("single-inf-gt", [Rdt(">", float("-inf"), Tagged("one"))])
exercise("test-suite", [
  Rdt('>=', 2.0, Tagged("one")),
  Rdt('>', float("-inf"), Tagged("two")),
  Rdt('>=', -5.0, Tagged("three")),
  Rdt('>', 3.0, Tagged("four")),
  Rdt('>=', 3.0, Tagged("five"))])
exercise("int-starts", [
  Rdt(range_type='>=', start=0, potential_form=TaggedD("one")),
  Rdt(range_type='>', start=1, potential_form=Tagged("two")),
  Rdt(range_type='>', start=5, potential_form=Tagged("three"))])
exercise("dups-ge", [
  Rdt(">=", 1.0, TaggedD2("a")), Rdt(">=", 1.0, Tagged("b")), Rdt(">=", 1.0, TaggedD("c")), Rdt(">", 2.0, Tagged("d"))])
exercise("dups-gt", [
  Rdt(">", 1.0, Tagged("a")), Rdt(">", 1.0, Tagged("b")), Rdt(">=", 2.0, Tagged("c")), Rdt(">", 2.0, Tagged("d")), Rdt(">", 2.0, Tagged("e"))])
exercise("dups-mixed", [
  Rdt(">", 1.0, Tagged("a")), Rdt(">=", 1.0, Tagged("b")), Rdt(">", 1.0, Tagged("c")), Rdt(">=", 1.0, Tagged("d")),
  Rdt(">", 0.0, Tagged("e")), Rdt(">=", 3.0, Tagged("f"))])
exercise("first-gt-then-ge", [Rdt(">", 0.0, Tagged("a")), Rdt(">=", 1.0, Tagged("b")), Rdt(">", 1.0, Tagged("c"))])
exercise("analytic", [
  Rdt(">=", 0.0, lambda r: pf.zero(r)), Rdt(">", 1.0, lambda r: pf.buck(r, 1000.0, 0.3, 32.0)), Rdt(">=", 5.0, lambda r: pf.constant(r, 3.0))])
exercise("odd-range-type", [Rdt("foo", 1.0, Tagged("a")), Rdt(">", 1.0, Tagged("b")), Rdt(">=", 1.0, Tagged("c")), Rdt("foo", 0.5, Tagged("d"))])
exercise("bad-start", [Rdt(">", "s", Tagged("a")), Rdt(">", 1.0, Tagged("b"))])
exercise("bad-start-single", [Rdt(">", None, Tagged("a"))])
exercise("nan-start", [Rdt(">", float("nan"), Tagged("a")), Rdt(">=", 1.0, Tagged("b")), Rdt(">", 0.0, Tagged("c"))])

# ... seeded random cases
rng = random.Random(20240611)
for i in range(150):
  n = rng.randint(1, 7)
  pool = [rng.choice([-2.0, -1.0, 0.0, 0.5, 1.0, 1.5, 2.0, 3.0, float("-inf")]) for _ in range(4)]
  defns = []
  for j in range(n):
    cls = rng.choice([Tagged, Tagged, TaggedD, TaggedD2])
    defns.append(Rdt(rng.choice([">", ">="]), rng.choice(pool), cls("p%d_%d" % (i,j))))
  exercise("rand%d" % i, defns, default_value = rng.choice([0.0, -3.0, 9.25]))

# ... comparator related helpers are private; the sorted order is what is observable
for name in ["Multi_Range_Defn", "create_Multi_Range_Potential_Form", "Multi_Range_Potential_Form",
  "Multi_Range_Potential_Form_Deriv", "Multi_Range_Potential_Form_Deriv2"]:
  emit("has", name, hasattr(mrmod, name))
emit("mro", [c.__name__ for c in mrmod.Multi_Range_Potential_Form_Deriv2.__mro__])

# ... through the configuration layer
models = {
"lammps_pair" : u"""[Tabulation]
target : LAMMPS
cutoff : 6.0
nr : 601

[Pair]
A-B = as.zero >=0.5 as.buck 1000.0 0.3 32.0 >2.0 as.constant 3.0 >= 4.0 as.bornmayer 100.0 0.2
B-B = >=0 as.constant 2.0 >=1.0 sum(as.constant 1.0 >= 2.0 as.constant 0.5, >=1.5 as.constant 10.0) >= 3.0 as.zero
A-A = >1.0 as.buck 1000.0 0.3 32.0 >=1.0 as.constant 5.0
C-A = born_mayer 1000.0 0.1 >=3.0 dispersion 32.0

[Potential-Form]
born_mayer(r, A, rho) = A * exp(-r/rho)
dispersion(r, C) = - C/r^6
""",
"dlpoly_pair" : u"""[Tabulation]
target : DL_POLY
cutoff : 5.0
nr : 252

[Pair]
O-O = >=0.0 as.buck 1000.0 0.3 32.0 >1.0 as.polynomial 1.0 2.0 3.0 >=2.5 as.zero
U-O = as.bornmayer 1000.0 0.1 >=3.0 as.buck 0 1.0 32.0
""",
"gulp_pair" : u"""[Tabulation]
target : GULP
cutoff : 4.0
dr : 0.1

[Pair]
Si-O = >0.1 as.buck 18003.7572 0.2052048149 133.5381 >=2.0 as.constant 0.25 >=2.0 as.constant 0.75
""",
"setfl" : u"""[Tabulation]
target : setfl
nr : 200
dr : 0.05
nrho : 200
drho : 0.05

[Pair]
Al-Al = as.buck 1000.0 0.3 32.0 >= 2.0 as.zero

[EAM-Embed]
Al = as.sqrt -1.0 >=3.0 as.polynomial 0.0 -0.5 >5.0 as.constant -2.5

[EAM-Density]
Al = as.zero >=0.5 as.exponential 10.0 -2.0 >4 as.zero
""",
}

for label in sorted(models):
  try:
    tab = Configuration().read(io.StringIO(models[label]))
    sio = io.StringIO()
    tab.write(sio)
    emit("model", label, hashlib.sha256(sio.getvalue().encode("utf-8")).hexdigest(), len(sio.getvalue()))
    if hasattr(tab, "potentials"):
      for p in tab.potentials:
        for r in [0.0, 0.1, 0.5, 1.0, math.nextafter(1.0, 2.0), 1.5, 2.0, 2.5, 3.0, 4.0, 4.5]:
          attempt(("energy", label, p.speciesA, p.speciesB, r), lambda: p.energy(r))
          attempt(("force", label, p.speciesA, p.speciesB, r), lambda: p.force(r))
  except Exception as e:
    emit("model", label, "EXC", type(e).__name__, str(e))

blob = "\n".join(out)
if len(sys.argv) > 1:
  with open(sys.argv[1], "w") as f:
    f.write(blob)
print("lines", len(out))
print("sha256", hashlib.sha256(blob.encode("utf-8")).hexdigest())

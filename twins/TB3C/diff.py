"""Differential script for twin C: atsim/potentials/tools/potable/_query_actions.py
(_list_section, _list_items, _list_item_labels, _list_plot_item_labels, _item_value and the
action_* functions) driven directly and through the potable command line.

Prints a deterministic digest of listings (order matters), written stdout bytes, exception
type names / messages / chained exception types.
"""
import contextlib
import hashlib
import io
import os
import sys
import tempfile

from atsim.potentials.config import ConfigParser, ConfigParserOverrideTuple, FilteredConfigParser
from atsim.potentials.tools import potable
from atsim.potentials.tools.potable import _query_actions

LOG = []

def log(*args):
  LOG.append(repr(args))

def exc_desc(e):
  return ("EXC", type(e).__name__, [c.__name__ for c in type(e).__mro__], str(e), repr(getattr(e, "args", None)),
    type(e.__context__).__name__, type(e.__cause__).__name__, e.__suppress_context__)

def attempt(label, f, *args, **kwargs):
  try:
    v = f(*args, **kwargs)
  except BaseException as e:
    log(label, exc_desc(e))
    return None
  log(label, "OK", v)
  return v

T = ConfigParserOverrideTuple

CFG_ALL = u"""[Zeta Orphan]
z = last? no: first orphan
y : ${A}

[Variables]
A = 1000.0
rho = 0.3
form = as.buck
empty =

[Table-Form:first table]
xy : 0 1 1 2 2 ${A}

[EAM-Density]
Ag = as.polynomial 0.0 ${Variables:rho}
Cu = as.polynomial 0.0 2.0

[Species]
Ag.atomic_mass = 107.8

[EAM-Embed]
Cu = as.sqrt -2.0
Ag = as.sqrt -1.0

[Tabulation]
target : setfl
cutoff_rho : 50.0
nrho : 50
cutoff : 6.0
nr : 60

[Potential-Form]
scaled(r, A, s) = A * s / r

[Pair]
Ag-Ag = ${form} ${A} ${rho} 0.0
Cu - Ag : scaled 3.0 ${Species:Ag.atomic_mass}
Cu-Cu = first table

[Table-Form: second]
x : 0 1 2
y : 3 2 1
interpolation : cubic_spline

[Alpha Orphan]
a b = 1
"""

CFG_FS = u"""[Tabulation]
target : setfl_fs
cutoff_rho : 50.0
nrho : 50
cutoff : 6.0
nr : 60

[EAM-Density]
A -> B = as.polynomial 0.0 1.0
B->A = as.polynomial 0.0 2.0
A->A = as.polynomial 0.0 3.0
B->B = as.polynomial 0.0 4.0

[EAM-Embed]
A = as.sqrt -1.0
B = as.sqrt -2.0

[Pair]
A-A = as.zero
A-B = as.zero
B-B = as.zero
"""

CFG_PAIR_ONLY = u"""[Pair]
O-O = as.buck 1.0 2.0 3.0
"""

CFG_VARS_ONLY = u"""[Variables]
A = 1
B = ${A}${A}
"""

CFG_EMPTY = u""

CFG_EMPTY_SECTIONS = u"""[Variables]
[Pair]
[Tabulation]
[Other]
"""

CFG_BAD_VALUES = u"""[Variables]
A = ${B}
B = ${A}
ok = fine

[Tabulation]
target : LAMMPS

[Pair]
O-O = as.constant ${ok}
U-U = as.constant ${missing}
Zr-Zr = as.constant ${ok}

[Other]
x = ${Pair:O-O}
y = ${Nope:O-O}
"""

CFG_BAD_ORPHAN = u"""[Pair]
O-O = as.constant 1

[Table-Form:t]
xy : ${nope}

[Other]
x = ${Pair:O-O}

[Variables]
v = 1
"""

CFG_BAD_VARIABLES = u"""[Pair]
O-O = as.constant 1

[Other]
x = ${Pair:O-O}

[Variables]
v = ${v}
"""

CFG_COLON_SECTION = u"""[A:B:C]
k = v

[Pair]
O-O = as.constant 1
"""

TEXTS = [("all", CFG_ALL), ("fs", CFG_FS), ("pair-only", CFG_PAIR_ONLY), ("vars-only", CFG_VARS_ONLY), ("empty", CFG_EMPTY),
  ("empty-sections", CFG_EMPTY_SECTIONS), ("bad-values", CFG_BAD_VALUES), ("bad-orphan", CFG_BAD_ORPHAN),
  ("bad-variables", CFG_BAD_VARIABLES), ("colon-section", CFG_COLON_SECTION)]

ITEM_KEYS = ["Pair:Ag-Ag", "Pair: Ag - Ag ", "Pair:Cu-Ag", "Pair:O-O", "Pair:U-U", "Pair:A", "Pair:ok", "Variables:A", "Variables:B",
  "Variables:empty", "Variables:v", "Variables:Ag-Ag", "Table-Form:first table:xy", "Table-Form: second:x", "Table-Form:xy", "Zeta Orphan:z",
  "Zeta Orphan:y", "ZetaOrphan:z", "Alpha Orphan:ab", "Alpha Orphan:a b", "A:B:C:k", "A:B:k", "EAM-Density:A->B", "EAM-Density:A -> B",
  "Other:x", "Other:y", "Nope:x", ":A", ":nope", "A:", ":", "", "nocolon", "Tabulation:target", "Tabulation:nope", "Potential-Form:scaled( r,A,s )"]

SECTIONS = ["Pair", "Potential-Form", "Tabulation", "EAM-Density", "EAM-Embed", "Variables", "Species", "Other", "Zeta Orphan",
  "Table-Form:first table", "Table-Form: second", "A:B:C", "Nope", "", None]

def make_parsers(text):
  yield "plain", lambda : ConfigParser(io.StringIO(text))
  yield "exclude", lambda : FilteredConfigParser(ConfigParser(io.StringIO(text)), exclude = ["Ag", "A", "O"])
  yield "include", lambda : FilteredConfigParser(ConfigParser(io.StringIO(text)), include = ["Ag", "A", "O"])
  yield "edited", lambda : ConfigParser(io.StringIO(text),
    overrides = [T("Pair", "O-O", None)] if "O-O" in text else [],
    additional = [T("Variables", "added var", "42"), T("Pair", "Xe-Xe", "as.constant ${addedvar}"), T("New Orphan", "k", "${added var}"), T("Table-Form:new", "xy", "0 0 1 1")])

def captured(f, *args):
  stdout = io.StringIO()
  try:
    with contextlib.redirect_stdout(stdout):
      r = f(*args)
  except BaseException as e:
    return (exc_desc(e), stdout.getvalue())
  return (r, stdout.getvalue())

def probe(label, factory):
  try:
    cp = factory()
  except Exception as e:
    log(label, "construct", exc_desc(e))
    return
  log(label, "parsed_sections", cp.parsed_sections, "orphan_sections", cp.orphan_sections)
  attempt((label, "_list_items"), _query_actions._list_items, cp)
  attempt((label, "_list_item_labels"), _query_actions._list_item_labels, cp)
  attempt((label, "_list_plot_item_labels"), _query_actions._list_plot_item_labels, cp)
  for s in SECTIONS:
    attempt((label, "_list_section", s), _query_actions._list_section, cp, s)
  for k in ITEM_KEYS:
    attempt((label, "_item_value", k), _query_actions._item_value, cp, k)
    log(label, "action_item_value", k, captured(_query_actions.action_item_value, cp, k))
  for k in [None, 5, b"Pair:O-O", ("Pair", "O-O")]:
    attempt((label, "_item_value-odd", repr(k)), _query_actions._item_value, cp, k)
  log(label, "action_list_items", captured(_query_actions.action_list_items, cp))
  log(label, "action_list_item_labels", captured(_query_actions.action_list_item_labels, cp))
  # results must be fresh lists each time and the parser must not have been changed by listing
  a = attempt((label, "_list_items-again"), _query_actions._list_items, cp)
  b = attempt((label, "_list_items-again2"), _query_actions._list_items, cp)
  log(label, "fresh", a is not b if a is not None else None, type(a).__name__, [type(i).__name__ for i in (a or [])][:3])
  buf = io.StringIO()
  cp.raw_config_parser.write(buf)
  log(label, "state-after", buf.getvalue())

CLI_RUNS = [
  ["--list-items"],
  ["-l"],
  ["--list-item-labels"],
  ["--item-value", "Pair:O-O"],
  ["--item-value", "Pair:Ag-Ag"],
  ["--item-value", "Variables:A"],
  ["--item-value", "Table-Form:first table:xy"],
  ["--item-value", "Pair:A"],
  ["--item-value", "nocolon"],
  ["--item-value", ":A"],
  ["-e", "Variables:A=5.0", "--list-items"],
  ["-r", "Variables:A", "--list-items"],
  ["-r", "Variables:A", "--list-item-labels"],
  ["-a", "Variables:zz=1", "Brand New:k=${zz}", "--list-items"],
  ["-a", "Table-Form:t2:xy=0 1 1 2", "--list-item-labels"],
  ["--include-species", "Ag", "--list-items"],
  ["--exclude-species", "Ag", "Cu", "--list-item-labels"],
  ["--list-items", "--list-item-labels"],
]

def run_cli(label, text, cli_args, tmpdir):
  cfg_path = os.path.join(tmpdir, "cfg.aspot")
  with open(cfg_path, "w") as outfile:
    outfile.write(text)
  args = [cfg_path] + cli_args
  stdout = io.StringIO()
  stderr = io.StringIO()
  result = None
  parsed = None
  try:
    with contextlib.redirect_stdout(stdout), contextlib.redirect_stderr(stderr):
      p, parsed = potable._parse_command_line(args)
      try:
        potable._do_tabulation(p, parsed)
      except potable.ConfigurationException as e:
        p.error("configuration error - {}".format(e))
  except SystemExit as e:
    result = ("exit", e.code)
  except BaseException as e:
    result = exc_desc(e)
  finally:
    if parsed is not None:
      parsed.config_file.close()
  err = stderr.getvalue().replace(tmpdir, "TMP")
  err = "\n".join([l for l in err.splitlines() if not l.startswith("usage:")][-1:])
  log(label, cli_args, result, stdout.getvalue(), err)

def main():
  for tlabel, text in TEXTS:
    for plabel, factory in make_parsers(text):
      probe((tlabel, plabel), factory)

  wt = os.getcwd()
  for root in ["docs/user_guide/example_files", "docs/quick_start", "tests/config/config_resources", "tests/lammps_resources", "tests/dl_poly_resources"]:
    for fn in sorted(os.listdir(os.path.join(wt, root))):
      if fn.endswith(".aspot"):
        with open(os.path.join(wt, root, fn)) as infile:
          text = infile.read()
        probe(("file", fn), lambda : ConfigParser(io.StringIO(text)))

  tmpdir = tempfile.mkdtemp()
  try:
    for tlabel, text in TEXTS:
      for cli_args in CLI_RUNS:
        run_cli(("cli", tlabel), text, cli_args, tmpdir)
  finally:
    for fn in os.listdir(tmpdir):
      os.remove(os.path.join(tmpdir, fn))
    os.rmdir(tmpdir)

  h = hashlib.sha256()
  for line in LOG:
    h.update(line.encode("utf-8"))
    h.update(b"\n")
  if "--dump" in sys.argv:
    for line in LOG:
      print(line)
  print("entries", len(LOG))
  print("digest", h.hexdigest())

main()

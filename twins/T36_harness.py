"""Shared helpers for the diffA/diffB/diffC differential scripts.

Everything that is recorded ends up in one deterministic text log whose sha256
is printed at the end (`finish()`).  Exceptions are recorded with their type
name, MRO names, message, and the type of __cause__/__context__ plus
__suppress_context__, so that even a change in exception chaining is noticed.
"""
import contextlib
import hashlib
import io
import os
import shutil
import sys
import tempfile

_LOG = []

WT = os.path.dirname(os.path.dirname(os.path.abspath(__file__)))

ASPOT_FILES = [
  "tests/config/config_resources/setfl.aspot",
  "tests/config/config_resources/spinel.aspot",
  "tests/dl_poly_resources/CRG_Ce.aspot",
  "tests/lammps_resources/zbl_spline.aspot",
  "tests/lammps_resources/Al_Cu_adp.aspot",
  "tests/lammps_resources/AlFe_setfl_fs.aspot",
  "tests/lammps_resources/CRG_U_Th.aspot",
]


def aspot_text(relpath):
  with io.open(os.path.join(WT, relpath), encoding="utf8") as infile:
    return infile.read()


def describe_exception(e):
  return "EXC {} mro={} msg={!r} cause={} context={} suppress={}".format(
    type(e).__name__,
    [c.__name__ for c in type(e).__mro__],
    str(e),
    type(e.__cause__).__name__,
    type(e.__context__).__name__,
    e.__suppress_context__)


def log(label, text):
  _LOG.append("{} :: {}".format(label, text))


def rec(label, fn, *args, **kwargs):
  """Call fn and record repr of the result, or a description of the exception raised."""
  try:
    v = fn(*args, **kwargs)
  except BaseException as e:
    log(label, describe_exception(e))
    return None
  log(label, "OK {}".format(deep_repr(v)))
  return v


def deep_repr(v):
  """repr that also records the concrete type of containers/tuples (namedtuple class names are in repr already)."""
  if isinstance(v, dict):
    return "{}{{{}}}".format(type(v).__name__, ", ".join("{}: {}".format(deep_repr(k), deep_repr(x)) for k, x in v.items()))
  if isinstance(v, list):
    return "[{}]".format(", ".join(deep_repr(x) for x in v))
  if isinstance(v, tuple):
    return "{}({})".format(type(v).__name__, ", ".join(deep_repr(x) for x in v))
  return "{}:{!r}".format(type(v).__name__, v)


def potable(label, cfg_text, cli_args, want_output = False):
  """Run the potable command line in-process. Records exit code, stdout, stderr and sha256 of any output file."""
  from atsim.potentials.tools import potable as potable_mod
  tmpdir = tempfile.mkdtemp()
  oldcwd = os.getcwd()
  try:
    os.chdir(tmpdir)
    with io.open("in.aspot", "w", encoding="utf8") as outfile:
      outfile.write(cfg_text)
    argv = ["in.aspot"]
    if want_output:
      argv.append("out.tab")
    argv.extend(cli_args)
    out = io.StringIO()
    err = io.StringIO()
    code = None
    exc = None
    with contextlib.redirect_stdout(out), contextlib.redirect_stderr(err):
      try:
        p, args = potable_mod._parse_command_line(argv)
        try:
          try:
            potable_mod._do_tabulation(p, args)
          except potable_mod.ConfigurationException as e:
            p.error("configuration error - {}".format(e))
        finally:
          args.config_file.close()
      except SystemExit as e:
        code = e.code
      except BaseException as e:
        exc = describe_exception(e)
    filedigest = None
    if os.path.exists("out.tab"):
      with open("out.tab", "rb") as infile:
        filedigest = hashlib.sha256(infile.read()).hexdigest()
    log(label, "argv={} code={} exc={} stdout={!r} stderr={!r} file={}".format(
      cli_args, code, exc, out.getvalue(), err.getvalue().replace(tmpdir, "TMP"), filedigest))
  finally:
    os.chdir(oldcwd)
    shutil.rmtree(tmpdir, ignore_errors=True)


def finish(verbose = None):
  if verbose is None:
    verbose = "-v" in sys.argv
  text = "\n".join(_LOG) + "\n"
  if verbose:
    sys.stdout.write(text)
  print("records: {}".format(len(_LOG)))
  print("errors recorded: {}".format(sum(1 for l in _LOG if ":: EXC " in l)))
  print("sha256: {}".format(hashlib.sha256(text.encode("utf8")).hexdigest()))

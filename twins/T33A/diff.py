"""Differential script for twin A (potable command line plumbing).

Run with:
  /venv/bin/python -W ignore /tmp/wtpy.py /tmp/twin_33 _twins/diffA.py

Part 1 drives the `potable` entry point (atsim.potentials.tools.potable:main) in
fresh sub-processes, exactly like the console script does (sys.exit(main())), and
records exit status, stdout bytes, stderr bytes and the bytes of the tabulated file.
Part 2 calls main() / _parse_command_line() / Configuration in-process.
A deterministic sha256 digest over everything is printed at the end.
"""
import contextlib
import hashlib
import io
import logging
import os
import shutil
import subprocess
import sys
from concurrent.futures import ThreadPoolExecutor

WT = os.path.dirname(os.path.dirname(os.path.abspath(__file__)))
OUT = os.path.join("_twins", "_out")   # relative: wtpy.py chdir()s to the worktree

BASAK = "docs/quick_start/basak.aspot"
CRG = "tests/lammps_resources/CRG_U_Th.aspot"
CRG_CE = "tests/dl_poly_resources/CRG_Ce.aspot"
SPINEL = "tests/config/config_resources/spinel.aspot"
SETFL = "tests/config/config_resources/setfl.aspot"
TABLE_FORM = "docs/user_guide/example_files/basak_table_form.aspot"
ADP = "tests/lammps_resources/Al_Cu_adp.aspot"
ZBL = "tests/lammps_resources/zbl_spline.aspot"
FS = "docs/user_guide/example_files/finnis_sinclair_eam.aspot"
STD_EAM = "docs/user_guide/example_files/standard_eam.aspot"
PF_A = "docs/user_guide/example_files/basak_custom_potential_form_a.aspot"

SMALL = ["-e", "Tabulation:nr=40"]
SMALL_EAM = ["-e", "Tabulation:nr=30", "Tabulation:nrho=25"]

# Each case: list of command line arguments; the token "@OUT" is replaced by a per case output path
CLI_CASES = [
  # --- query actions
  [BASAK, "-l"],
  [BASAK, "--list-items"],
  [BASAK, "--list-item-labels"],
  [CRG, "-l"],
  [CRG, "--list-item-labels"],
  [CRG_CE, "-l"],
  [SPINEL, "-l"],
  [SPINEL, "--list-item-labels"],
  [SETFL, "-l"],
  [TABLE_FORM, "-l"],
  [TABLE_FORM, "--list-item-labels"],
  [ADP, "-l"],
  [ZBL, "-l"],
  [FS, "--list-item-labels"],
  [STD_EAM, "-l"],
  [PF_A, "-l"],
  [BASAK, "--item-value", "Tabulation:target"],
  [BASAK, "--item-value", "Pair:O-U"],
  [BASAK, "--item-value", "Pair:U-O"],
  [BASAK, "--item-value", "Pair"],
  [BASAK, "--item-value", ""],
  [BASAK, "--item-value", "Nothing:here"],
  [TABLE_FORM, "--item-value", "Table-Form:tabulated:interpolation"],
  [CRG, "--item-value", "Tabulation:drho"],
  [CRG, "--item-value", "Potential-Form:density(r,n)"],
  [CRG, "--item-value", "EAM-Embed:U", "@OUT"],
  [CRG, "@OUT", "--item-value", "EAM-Embed:U"],
  # query + mutually exclusive
  [BASAK, "-l", "--list-item-labels"],
  [BASAK, "-l", "--item-value", "Tabulation:target"],
  [BASAK, "--include-species", "O", "--exclude-species", "U", "-l"],
  # --- query with overrides / additions / removals / filters
  [BASAK, "-l", "-e", "Tabulation:nr=40"],
  [BASAK, "-l", "-e", "Tabulation:nr=40", "Tabulation:cutoff=3.0", "-e", "Tabulation:nr=50"],
  [BASAK, "-l", "--override-item", "Pair:O-O=as.buck 1.0 0.2 0.0"],
  [BASAK, "-l", "-a", "Pair:Gd-O=as.buck 1000.0 0.3 0.0", "-a", "Species:Gd.charge=3.0"],
  [BASAK, "-l", "--add-item", "Variables:A=1000.0", "Other:thing=value=with=equals"],
  [BASAK, "-l", "-r", "Pair:U-U"],
  [BASAK, "-l", "-r", "Pair:U-U", "Pair:O-O", "--remove-item", "Pair:O-U"],
  [BASAK, "-l", "-r", "Tabulation:cutoff", "-e", "Tabulation:cutoff=2.0"],
  [BASAK, "-l", "-e", "Tabulation:cutoff=2.0", "-r", "Tabulation:cutoff"],
  [BASAK, "-l", "-e", "Tabulation:cutoff=2.0", "-r", "Tabulation:cutoff", "-a", "Tabulation:cutoff=9.0"],
  [BASAK, "-l", "-a", "Tabulation:cutoff=9.0"],
  [BASAK, "-l", "-e", "Tabulation:missing=9.0"],
  [BASAK, "-l", "-r", "Nothing:missing"],
  [BASAK, "-l", "-e"],
  [BASAK, "-l", "-a"],
  [BASAK, "-l", "-r"],
  [BASAK, "-l", "-e", "-a", "-r"],
  [TABLE_FORM, "-l", "-e", "Table-Form:tabulated:interpolation=cubic_spline"],
  [TABLE_FORM, "-l", "-r", "Table-Form:tabulated:interpolation"],
  [TABLE_FORM, "--item-value", "Table-Form:tabulated:interpolation", "-e", "Table-Form:tabulated:interpolation=other"],
  [CRG, "-l", "--include-species", "U", "O"],
  [CRG, "-l", "--exclude-species", "Th"],
  [CRG, "--list-item-labels", "--include-species"],
  [CRG, "--list-item-labels", "--exclude-species"],
  # --- malformed override / add / remove options (error message and which one is reported first)
  [BASAK, "-l", "-e", "Tabulation:nr"],
  [BASAK, "-l", "-e", "Tabulation=5"],
  [BASAK, "-l", "-e", "=5"],
  [BASAK, "-l", "-e", ""],
  [BASAK, "-l", "-a", "Tabulation:nr"],
  [BASAK, "-l", "-a", "Tabulation=5"],
  [BASAK, "-l", "-r", "Tabulation"],
  [BASAK, "-l", "-r", "Tabulation:nr=5"],
  [BASAK, "-l", "-r", "Tabulation=nr:5"],
  [BASAK, "-l", "-e", "bad1", "-r", "bad2", "-a", "bad3"],
  [BASAK, "-l", "-r", "bad2", "-a", "bad3", "-e", "Tabulation:nr=5"],
  [BASAK, "-l", "-a", "bad3", "-e", "Tabulation:nr=5"],
  [BASAK, "-l", "-a", "bad3=1", "-r", "bad2", "-e", "Tabulation:nr=5"],
  [BASAK, "-l", "-e", "Tabulation:nr=5", "bad1=3"],
  [BASAK, "-l", "-e", ":=", "-a", "::=:"],
  [BASAK, "@OUT", "-e", "bad1"],
  # --- tabulation
  [BASAK, "@OUT"] + SMALL,
  [BASAK, "@OUT"] + SMALL + ["-e", "Tabulation:target=LAMMPS"],
  [BASAK, "@OUT"] + SMALL + ["-e", "Tabulation:target=GULP"],
  [BASAK, "@OUT"] + SMALL + ["-e", "Tabulation:target=Nonsense"],
  [BASAK, "@OUT"] + SMALL + ["-r", "Tabulation:target"],
  [BASAK, "@OUT"] + SMALL + ["-e", "Tabulation:target=setfl"],
  [BASAK, "@OUT"] + SMALL + ["--include-species", "O"],
  [BASAK, "@OUT"] + SMALL + ["--include-species", "U", "O"],
  [BASAK, "@OUT"] + SMALL + ["--exclude-species", "O"],
  [BASAK, "@OUT"] + SMALL + ["--exclude-species"],
  [BASAK, "@OUT"] + SMALL + ["--include-species"],
  [BASAK, "@OUT"] + SMALL + ["-a", "Pair:Gd-O=as.buck 1000.0 0.3 0.0"],
  [BASAK, "@OUT"] + SMALL + ["-e", "Pair:O-O=as.nonexistent 1.0"],
  [BASAK, "@OUT"] + SMALL + ["-e", "Pair:O-O=as.buck 1.0"],
  [BASAK, "@OUT", "-e", "Tabulation:nr=notanumber"],
  [BASAK] + SMALL,
  [BASAK],
  [],
  ["does/not/exist.aspot", "@OUT"],
  [BASAK, "@OUT", "extra_positional"],
  [BASAK, "@OUT", "--unknown-option"],
  [BASAK, "_twins/_out/no_such_dir/out.tab"] + SMALL,
  ["-h"],
  [TABLE_FORM, "@OUT"] + SMALL,
  [ZBL, "@OUT"] + SMALL,
  [PF_A, "@OUT"] + SMALL,
  [CRG, "@OUT"] + SMALL_EAM,
  [CRG, "@OUT"] + SMALL_EAM + ["--include-species", "U", "O"],
  [CRG, "@OUT"] + SMALL_EAM + ["--include-species", "O", "U"],
  [CRG, "@OUT"] + SMALL_EAM + ["--exclude-species", "U"],
  [CRG, "@OUT"] + SMALL_EAM + ["-e", "Tabulation:target=DL_POLY_EAM"],
  [CRG, "@OUT"] + SMALL_EAM + ["-e", "Tabulation:target=GULP"],
  [CRG, "@OUT"] + SMALL_EAM + ["-r", "EAM-Embed:Th"],
  [CRG_CE, "@OUT"] + SMALL_EAM,
  [CRG_CE, "@OUT"] + SMALL_EAM + ["-e", "Tabulation:target=setfl"],
  [SPINEL, "@OUT", "-e", "Tabulation:nrho=20", "-a", "Tabulation:nr=20"],
  [SPINEL, "@OUT", "-e", "Tabulation:nrho=20", "-a", "Tabulation:nr=20", "--exclude-species", "In"],
  [FS, "@OUT"] + SMALL_EAM,
  [STD_EAM, "@OUT"] + SMALL_EAM,
  [ADP, "@OUT"] + SMALL_EAM,
]

RUNNER = "import sys; from atsim.potentials.tools.potable import main; sys.exit(main())"

def sha(b):
  if isinstance(b, str):
    b = b.encode("utf-8")
  return hashlib.sha256(b).hexdigest()

def normalise_stderr(b):
  """Tracebacks contain source line numbers of the (refactored) files: keep only the final
  'ExceptionType: message' line of an uncaught exception."""
  s = b.decode("utf-8", "replace")
  if "Traceback (most recent call last)" in s:
    head = s.split("Traceback (most recent call last)")[0]
    last = [l for l in s.splitlines() if l.strip()][-1]
    s = head + "<traceback> " + last + "\n"
  return s

def run_cli(idx_case):
  idx, case = idx_case
  outpath = os.path.join(OUT, "case{:03d}.out".format(idx))
  argv = [outpath if a == "@OUT" else a for a in case]
  cmd = [sys.executable, "-W", "ignore", "/tmp/wtpy.py", WT, "-c", RUNNER] + argv
  proc = subprocess.run(cmd, stdin=subprocess.DEVNULL, stdout=subprocess.PIPE, stderr=subprocess.PIPE, cwd=WT)
  files = []
  for root, dirs, fnames in sorted(os.walk(os.path.join(WT, OUT))):
    for fn in sorted(fnames):
      if fn.startswith("case{:03d}.".format(idx)):
        with open(os.path.join(root, fn), "rb") as fh:
          files.append((fn, sha(fh.read())))
  stderr = normalise_stderr(proc.stderr)
  return (idx, argv, proc.returncode, sha(proc.stdout), len(proc.stdout), sha(stderr), stderr, files)

def part_cli(report):
  shutil.rmtree(os.path.join(WT, OUT), ignore_errors=True)
  os.makedirs(os.path.join(WT, OUT))
  with ThreadPoolExecutor(max_workers=8) as ex:
    results = list(ex.map(run_cli, enumerate(CLI_CASES)))
  for idx, argv, rc, so, nso, se, stderr, files in results:
    last_err = ([l for l in stderr.splitlines() if l.strip()] or [""])[-1]
    report.append("CLI {:03d} rc={} out={}({}) err={} files={} argv={!r} lasterr={!r}".format(
      idx, rc, so[:12], nso, se[:12], [(f, h[:12]) for f, h in files], argv, last_err[:100]))
  shutil.rmtree(os.path.join(WT, OUT), ignore_errors=True)

def reset_logging():
  root = logging.getLogger()
  for h in list(root.handlers):
    root.removeHandler(h)
  root.setLevel(logging.WARNING)

def call_main_inprocess(argv, use_sys_argv=True):
  """Call potable.main() in-process, return (exit code repr, stdout, stderr)."""
  from atsim.potentials.tools import potable
  reset_logging()
  so, se = io.StringIO(), io.StringIO()
  old_argv = sys.argv
  sys.argv = ["potable"] + list(argv)
  rc = "returned"
  try:
    with contextlib.redirect_stdout(so), contextlib.redirect_stderr(se):
      try:
        rv = potable.main()
        rc = "returned {!r}".format(rv)
      except SystemExit as e:
        rc = "SystemExit({!r})".format(e.code)
      except BaseException as e:
        rc = "{}: {}".format(type(e).__name__, e)
  finally:
    sys.argv = old_argv
    reset_logging()
  return rc, so.getvalue(), se.getvalue()

class WriteRecorder(object):
  """stdout stand-in: records the concatenated text"""
  def __init__(self):
    self.chunks = []
  def write(self, s):
    self.chunks.append(s)
    return len(s)
  def writelines(self, lines):
    for l in lines:
      self.write(l)
  def flush(self):
    pass

def part_inprocess(report):
  from atsim.potentials.tools import potable
  from atsim.potentials.tools.potable import _parse_command_line, _query_actions, _actions
  from atsim.potentials.config import Configuration, ConfigParser, FilteredConfigParser, ConfigParserOverrideTuple
  from atsim.potentials.config._common import ConfigurationException

  os.makedirs(os.path.join(WT, OUT), exist_ok=True)
  outp = os.path.join(OUT, "inproc.out")

  # main() through patched sys.argv
  for argv in [
      [BASAK, "-l"],
      [CRG, "--list-item-labels", "--exclude-species", "Th"],
      [BASAK, "--item-value", "Pair:O-O", "-e", "Pair:O-O=as.zero"],
      [BASAK, "--item-value", "nope"],
      [BASAK, outp] + SMALL,
      [BASAK, outp] + SMALL + ["-r", "Tabulation:target"],
      [BASAK, outp] + SMALL + ["-e", "Tabulation:target=Bad"],
      [BASAK],
      [BASAK, "-l", "-e", "bad"],
      [BASAK, "-l", "-l", "--list-item-labels"],
      [],
    ]:
    rc, so, se = call_main_inprocess(argv)
    fsha = None
    if os.path.exists(outp):
      with open(outp, "rb") as fh:
        fsha = sha(fh.read())[:12]
      os.remove(outp)
    report.append("MAIN argv={!r} rc={} out={} err={!r} file={}".format(argv, rc, sha(so)[:12], se, fsha))

  # _parse_command_line(cli_args) -> (parser, namespace)
  for cli_args in [
      [BASAK],
      [BASAK, "out.tab"],
      [BASAK, "-l"],
      [BASAK, "--item-value", "A:B"],
      [BASAK, "-e", "A:B=1", "C:D=2", "-e", "E:F=3", "-a", "G:H=1", "-r", "I:J", "--remove-item", "K:L", "M:N"],
      [BASAK, "--include-species", "A", "B"],
      [BASAK, "--exclude-species"],
      [BASAK, "-e"],
    ]:
    p, args = _parse_command_line(cli_args)
    d = dict(vars(args))
    d["config_file"] = (type(d["config_file"]).__name__, d["config_file"].name, d["config_file"].mode)
    args.config_file.close()
    report.append("PARSE {!r} -> parser={} prog_is_str={} ns={!r}".format(
      cli_args, type(p).__name__, isinstance(p.prog, str), sorted(d.items())))
  try:
    with contextlib.redirect_stderr(io.StringIO()) as se:
      _parse_command_line(["-l"])
  except SystemExit as e:
    report.append("PARSE ['-l'] SystemExit({!r}) usage_sha={}".format(e.code, sha(se.getvalue().replace(os.path.basename(sys.argv[0]), "PROG"))[:12]))
  p, args = _parse_command_line([BASAK])
  args.config_file.close()
  report.append("HELP sha={}".format(sha(p.format_help().replace(p.prog, "PROG"))))
  report.append("USAGE sha={}".format(sha(p.format_usage().replace(p.prog, "PROG"))))

  # query actions called directly on parser objects (as the tests do)
  for fname in [BASAK, CRG, CRG_CE, SPINEL, SETFL, TABLE_FORM, ADP, ZBL, FS, STD_EAM, PF_A]:
    for wrap in ["plain", "include", "exclude", "added"]:
      with open(fname) as infile:
        if wrap == "added":
          cp = ConfigParser(infile,
            overrides=[ConfigParserOverrideTuple("Tabulation", "target", "GULP")],
            additional=[ConfigParserOverrideTuple("Variables", "zz", "1.0"), ConfigParserOverrideTuple("Unknown-Section", "a:b", "c")])
        else:
          cp = ConfigParser(infile)
      if wrap == "include":
        cp = FilteredConfigParser(cp, include=["O", "U", "Al"])
      elif wrap == "exclude":
        cp = FilteredConfigParser(cp, exclude=["O"])
      report.append("QUERY {} {} items={}".format(fname, wrap, sha(repr(_query_actions._list_items(cp)))[:16]))
      report.append("QUERY {} {} labels={}".format(fname, wrap, sha(repr(_query_actions._list_item_labels(cp)))[:16]))
      try:
        report.append("QUERY {} {} plot={}".format(fname, wrap, sha(repr(_query_actions._list_plot_item_labels(cp)))[:16]))
      except Exception as e:
        report.append("QUERY {} {} plot raised {}".format(fname, wrap, type(e).__name__))
      for key in ["Tabulation:target", "Tabulation:TARGET", "Pair:O-O", "Table-Form:tabulated:interpolation", "x", "a:b:c", ":", ""]:
        try:
          v = repr(_query_actions._item_value(cp, key))
        except Exception as e:
          v = "{}: {}".format(type(e).__name__, e)
        report.append("QUERY {} {} value[{!r}]={}".format(fname, wrap, key, v))
      for action, extra in [(_query_actions.action_list_items, ()), (_query_actions.action_list_item_labels, ()),
                            (_query_actions.action_item_value, ("Tabulation:target",)), (_query_actions.action_item_value, ("bad",))]:
        rec = WriteRecorder()
        old = sys.stdout
        sys.stdout = rec
        try:
          try:
            rv = action(cp, *extra)
            status = "returned {!r}".format(rv)
          except Exception as e:
            status = "{}: {}".format(type(e).__name__, e)
        finally:
          sys.stdout = old
        report.append("ACTION {} {} {} {} -> {} text={}".format(fname, wrap, action.__name__, extra, status, sha("".join(rec.chunks))[:16]))

  # Configuration.read / read_from_parser / action_tabulate with log capture
  class ListHandler(logging.Handler):
    def __init__(self):
      logging.Handler.__init__(self)
      self.records = []
    def emit(self, record):
      self.records.append((record.name, record.levelname, record.getMessage()))

  def with_logs(f):
    reset_logging()
    h = ListHandler()
    root = logging.getLogger()
    root.addHandler(h)
    root.setLevel(logging.DEBUG)
    try:
      try:
        rv = f()
        status = "ok"
      except Exception as e:
        rv = None
        status = "{}: {}".format(type(e).__name__, e)
    finally:
      root.removeHandler(h)
      reset_logging()
    return rv, status, h.records

  def tab_digest(tabulation):
    if tabulation is None:
      return None
    sio = io.StringIO()
    tabulation.write(sio)
    return (type(tabulation).__name__, sha(sio.getvalue())[:16])

  cfgs = [
    (BASAK, [("Tabulation", "nr", "30")], []),
    (BASAK, [("Tabulation", "nr", "30"), ("Tabulation", "target", "LAMMPS")], []),
    (BASAK, [("Tabulation", "nr", "30"), ("Tabulation", "target", None)], []),
    (BASAK, [("Tabulation", "nr", "30"), ("Tabulation", "target", "lammps")], []),
    (BASAK, [("Tabulation", "nr", "30"), ("Tabulation", "target", "")], []),
    (BASAK, [("Tabulation", "nr", "30"), ("Tabulation", "target", "GULP")], []),
    (CRG, [("Tabulation", "nr", "30"), ("Tabulation", "nrho", "20")], []),
    (CRG, [("Tabulation", "nr", "30"), ("Tabulation", "nrho", "20"), ("Tabulation", "target", "DL_POLY_EAM")], []),
    (CRG, [("Tabulation", "nr", "30"), ("Tabulation", "nrho", "20"), ("Tabulation", "target", "DL_POLY")], []),
    (SPINEL, [("Tabulation", "nrho", "20")], [("Tabulation", "nr", "20")]),
    (TABLE_FORM, [("Tabulation", "nr", "30")], []),
  ]
  for fname, overrides, additional in cfgs:
    ov = [ConfigParserOverrideTuple(*o) for o in overrides]
    ad = [ConfigParserOverrideTuple(*a) for a in additional]
    def via_parser():
      with open(fname) as infile:
        cp = ConfigParser(infile, overrides=ov, additional=ad)
      return Configuration().read_from_parser(cp)
    rv, status, records = with_logs(via_parser)
    report.append("CONFIG read_from_parser {} {} -> {} {} logs={!r}".format(fname, overrides, status, tab_digest(rv), records))

    def via_action():
      with open(fname) as infile:
        cp = ConfigParser(infile, overrides=ov, additional=ad)
      return _actions.action_tabulate(cp, outp)
    rv, status, records = with_logs(via_action)
    fsha = None
    if os.path.exists(outp):
      with open(outp, "rb") as fh:
        fsha = sha(fh.read())[:16]
      os.remove(outp)
    report.append("ACTION tabulate {} {} -> {} rv={!r} file={} logs={!r}".format(fname, overrides, status, rv, fsha, records))

  for fname in [BASAK, ZBL, PF_A]:
    def via_read():
      with open(fname) as infile:
        return Configuration().read(infile)
    rv, status, records = with_logs(via_read)
    report.append("CONFIG read {} -> {} {} logs={!r}".format(fname, status, type(rv).__name__, records))
  def via_bad():
    return Configuration().read(io.StringIO(u"[Tabulation]\ntarget : Wrong\n[Pair]\nA-B = as.zero\n"))
  rv, status, records = with_logs(via_bad)
  report.append("CONFIG read bad -> {} logs={!r}".format(status, records))
  def via_none():
    return Configuration().read(io.StringIO(u"[Tabulation]\nnr : 10\ncutoff: 2.0\n[Pair]\nA-B = as.constant 2.0\n"))
  rv, status, records = with_logs(via_none)
  report.append("CONFIG read notarget -> {} {} logs={!r}".format(status, tab_digest(rv), records))
  report.append("CONFIG factories={!r}".format(sorted(Configuration()._tabulation_factories.keys())))

  # public surface of the potable package
  import inspect
  report.append("API main={} parse={}".format(
    [n for n, prm in inspect.signature(potable.main).parameters.items() if prm.default is inspect.Parameter.empty],
    str(inspect.signature(_parse_command_line))))
  shutil.rmtree(os.path.join(WT, OUT), ignore_errors=True)

def main():
  report = []
  part_cli(report)
  part_inprocess(report)
  verbose = "-v" in sys.argv[1:]
  if verbose:
    for line in report:
      print(line)
  print("n_records = {}".format(len(report)))
  print("DIGEST " + sha("\n".join(report)))

if __name__ == "__main__":
  main()

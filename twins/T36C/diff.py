"""Differential script for twin C: FilteredConfigParser (species include/exclude filtering).

Run:  /venv/bin/python -W ignore /tmp/wtpy.py /tmp/twin_36 _twins/diffC.py [-v]
"""
import io
import os
import sys

sys.path.insert(0, os.path.dirname(os.path.abspath(__file__)))
from _harness import rec, log, finish, potable, aspot_text, ASPOT_FILES, describe_exception

from atsim.potentials.config import ConfigParser, FilteredConfigParser, Configuration

FILTERED = ["pair", "eam_embed", "eam_density", "eam_density_fs"]
UNFILTERED = ["parsed_sections", "orphan_sections", "potential_form", "species", "table_form"]

def safe(fn):
  try:
    return fn()
  except Exception as e:
    return describe_exception(e)

class CountingList(list):
  """list that logs each membership test, to check the number/order of lookups is unchanged"""
  def __init__(self, *args):
    list.__init__(self, *args)
    self.lookups = []
  def __contains__(self, v):
    self.lookups.append(v)
    return list.__contains__(self, v)

class TruthyEmpty(object):
  """container that is True in a boolean context but contains nothing"""
  def __bool__(self):
    return True
  def __contains__(self, v):
    return False

def once(it):
  return iter(list(it))

FS_TEXT = aspot_text("tests/lammps_resources/AlFe_setfl_fs.aspot")
UTH_TEXT = aspot_text("tests/lammps_resources/CRG_U_Th.aspot")
ADP_TEXT = aspot_text("tests/lammps_resources/Al_Cu_adp.aspot")

MIXED = u"""[Tabulation]
target = setfl
nr = 50
dr = 0.1
nrho = 50
drho = 0.1

[EAM-Embed]
Al = as.sqrt 1.0
Cu : as.sqrt 2.0
Ni : as.sqrt 3.0

[EAM-Density]
Al = as.constant 1.0
Cu = as.constant 2.0
Ni = as.constant 3.0

[Pair]
Al-Al = as.zero
Cu-Al = as.zero
Cu-Cu = as.zero
Ni-Al = as.zero
Cu-Ni = as.zero
Ni-Ni = as.zero
al-Al = as.constant 1.0
"""

TEXTS = {"fs" : FS_TEXT, "uth" : UTH_TEXT, "adp" : ADP_TEXT, "mixed" : MIXED, "pair_only" : aspot_text("tests/config/config_resources/spinel.aspot")}

FILTERS = [
  ("none", lambda: dict()),
  ("exclude None", lambda: dict(exclude = None)),
  ("include None", lambda: dict(include = None)),
  ("exclude []", lambda: dict(exclude = [])),
  ("include []", lambda: dict(include = [])),
  ("include ()", lambda: dict(include = ())),
  ("include '' string", lambda: dict(include = "")),
  ("exclude [] include []", lambda: dict(exclude = [], include = [])),
  ("exclude [] include [Al]", lambda: dict(exclude = [], include = ["Al", "U"])),
  ("exclude [Al] include []", lambda: dict(exclude = ["Al", "U"], include = [])),
  ("exclude [Al] include [Cu]", lambda: dict(exclude = ["Al"], include = ["Cu"])),
  ("exclude [Al]", lambda: dict(exclude = ["Al"])),
  ("exclude [Fe, Th]", lambda: dict(exclude = ["Fe", "Th"])),
  ("exclude [O]", lambda: dict(exclude = ["O"])),
  ("exclude all", lambda: dict(exclude = ["Al", "Fe", "Cu", "Ni", "U", "Th", "O", "Mg"])),
  ("exclude unknown", lambda: dict(exclude = ["Xx"])),
  ("exclude lower case", lambda: dict(exclude = ["al"])),
  ("include [Al]", lambda: dict(include = ["Al"])),
  ("include [Al, Fe]", lambda: dict(include = ["Al", "Fe"])),
  ("include [Fe, Al, Cu]", lambda: dict(include = ["Fe", "Al", "Cu"])),
  ("include [U, O]", lambda: dict(include = ["U", "O"])),
  ("include [O, Mg, Al]", lambda: dict(include = ["O", "Mg", "Al"])),
  ("include unknown", lambda: dict(include = ["Xx"])),
  ("include tuple", lambda: dict(include = ("Al", "Cu"))),
  ("include set", lambda: dict(include = {"Al", "Ni", "O"})),
  ("include dict", lambda: dict(include = {"Al" : 1, "Ni" : 2})),
  ("include string", lambda: dict(include = "AlCuO")),
  ("exclude string", lambda: dict(exclude = "AlCuO")),
  ("exclude iterator", lambda: dict(exclude = once(["Al", "U"]))),
  ("include iterator", lambda: dict(include = once(["Al", "Cu", "Ni", "U", "O", "Fe"]))),
  ("include truthy empty", lambda: dict(include = TruthyEmpty())),
  ("exclude truthy empty", lambda: dict(exclude = TruthyEmpty())),
  ("exclude int", lambda: dict(exclude = 5)),
  ("include int", lambda: dict(include = 5)),
  ("include 0", lambda: dict(include = 0)),
  ("positional exclude", lambda: "POS"),
]

def dump(text, make_kwargs):
  out = []
  orig = ConfigParser(io.StringIO(text))
  kwargs = make_kwargs()
  if kwargs == "POS":
    filtered = FilteredConfigParser(orig, ["Al", "U"])
  else:
    filtered = FilteredConfigParser(orig, **kwargs)
  for attr in FILTERED:
    out.append((attr, safe(lambda: getattr(filtered, attr))))
  # a second read gives the same answer (except for single-use iterators, which is recorded too)
  for attr in FILTERED:
    out.append((attr + " again", safe(lambda: [p.species for p in getattr(filtered, attr)])))
  for attr in UNFILTERED:
    out.append((attr, safe(lambda: getattr(filtered, attr)), safe(lambda: getattr(filtered, attr) == getattr(orig, attr))))
  out.append(("tabulation", safe(lambda: repr(filtered.tabulation))))
  out.append(("raw is", filtered.raw_config_parser is orig.raw_config_parser, filtered.__wrapped__ is orig,
              isinstance(filtered, ConfigParser), type(filtered).__name__, filtered.__class__.__name__))
  out.append(("parse_pair_like unfiltered", safe(lambda: [p.species for p in filtered.parse_pair_like("Pair")])))
  # attribute set on the proxy goes through to the wrapped object, _self_ attributes stay on the proxy
  filtered.some_new_attribute = 5
  out.append(("passthrough", getattr(orig, "some_new_attribute", "absent"),
              sorted(k for k in vars(orig) if k.startswith("_self_")),
              hasattr(orig, "_self_species_list"), hasattr(orig, "_self_filter")))
  # wrapping an already filtered parser
  out.append(("nested", safe(lambda: [p.species for p in FilteredConfigParser(filtered, exclude = ["Cu", "O"]).pair]),
              safe(lambda: [p.species for p in FilteredConfigParser(filtered, include = ["Al", "Cu", "O", "U"]).eam_embed])))
  return out

for tname, text in sorted(TEXTS.items()):
  for fname, make_kwargs in FILTERS:
    rec("{} / {}".format(tname, fname), dump, text, make_kwargs)

# number and order of membership tests
def counting(text, mode):
  cl = CountingList(["Al", "U", "Ni"])
  orig = ConfigParser(io.StringIO(text))
  filtered = FilteredConfigParser(orig, **{mode : cl})
  out = []
  for attr in FILTERED:
    out.append((attr, safe(lambda: [p.species for p in getattr(filtered, attr)]), list(cl.lookups)))
    del cl.lookups[:]
  return out

for tname, text in sorted(TEXTS.items()):
  for mode in ["include", "exclude"]:
    rec("counting {} {}".format(tname, mode), counting, text, mode)

# constructor errors
rec("ctor no args", lambda: FilteredConfigParser())
rec("ctor wrapped None", lambda: [FilteredConfigParser(None).__wrapped__, safe(lambda: FilteredConfigParser(None, include = ["A"]).pair)])
rec("ctor bad kw", lambda: FilteredConfigParser(ConfigParser(io.StringIO(MIXED)), species = ["Al"]))

# ---- Configuration objects built from filtered parsers
def configuration(text, **kwargs):
  cp = FilteredConfigParser(ConfigParser(io.StringIO(text)), **kwargs)
  tabulation = Configuration().read_from_parser(cp)
  sio = io.StringIO()
  tabulation.write(sio)
  import hashlib
  return [type(tabulation).__name__, hashlib.sha256(sio.getvalue().encode("utf8")).hexdigest(), len(sio.getvalue())]

for label, text, kwargs in [
    ("mixed excl Ni", MIXED, dict(exclude = ["Ni", "al"])),
    ("mixed incl Al Cu", MIXED, dict(include = ["Cu", "Al"])),
    ("mixed incl none", MIXED, dict(include = [])),
    ("mixed not excluding al", MIXED, dict(exclude = ["Ni"])),
    ("uth excl Th", UTH_TEXT.replace("nr : 1000", "nr : 50"), dict(exclude = ["Th"])),
    ]:
  rec("configuration {}".format(label), configuration, text, **kwargs)

# ---- end to end through potable
for label, text, args in [
    ("mixed include Al Cu", MIXED, ["--include-species", "Al", "Cu"]),
    ("mixed include Cu Al", MIXED, ["--include-species", "Cu", "Al"]),
    ("mixed exclude Ni al", MIXED, ["--exclude-species", "Ni", "al"]),
    ("mixed exclude Ni", MIXED, ["--exclude-species", "Ni"]),
    ("mixed include nothing", MIXED, ["--include-species"]),
    ("mixed exclude nothing", MIXED, ["--exclude-species"]),
    ("mixed include unknown", MIXED, ["--include-species", "Xx"]),
    ("mixed both", MIXED, ["--include-species", "Al", "--exclude-species", "Cu"]),
    ("fs exclude Fe", FS_TEXT, ["--exclude-species", "Fe", "-e", "Tabulation:nr=50", "Tabulation:nrho=50"]),
    ("fs include Fe", FS_TEXT, ["--include-species", "Fe", "-e", "Tabulation:nr=50", "Tabulation:nrho=50"]),
    ("fs include Fe Al", FS_TEXT, ["--include-species", "Fe", "Al", "-e", "Tabulation:nr=50", "Tabulation:nrho=50"]),
    ("uth exclude Th", UTH_TEXT, ["--exclude-species", "Th", "-e", "Tabulation:nr=50"]),
    ("uth include U O", UTH_TEXT, ["--include-species", "U", "O", "-e", "Tabulation:nr=50"]),
    ("uth include O", UTH_TEXT, ["--include-species", "O", "-e", "Tabulation:nr=50"]),
    ("adp exclude Cu", ADP_TEXT, ["--exclude-species", "Cu", "-e", "Tabulation:nr=50", "Tabulation:nrho=50"]),
    ("adp include Cu", ADP_TEXT, ["--include-species", "Cu", "-e", "Tabulation:nr=50", "Tabulation:nrho=50"]),
    ("spinel exclude O", TEXTS["pair_only"], ["--exclude-species", "O"]),
    ("spinel include O Mg", TEXTS["pair_only"], ["--include-species", "O", "Mg"]),
    ]:
  potable("potable tabulate {}".format(label), text, args, want_output = True)
  potable("potable list {}".format(label), text, args + ["--list-items"])

finish()

"""Differential script for twin A (atsim/potentials/_tablereaders.py).

Exercises DatReader / TableReaderBase / TableReader through the public API
(TableReader callable, getValue, list contents, converters, plotToFile,
writeSetFL using table readers) and prints a sha256 digest of everything
observed."""
import hashlib
import io
import math
import os
import struct

from atsim import potentials
from atsim.potentials import TableReader, _tablereaders, EAMPotential, Potential, writeSetFL, plotToFile

OUT = []

def rec(*items):
  OUT.append(repr(items))

def fl(v):
  # exact byte level representation of floats
  if isinstance(v, float):
    return struct.pack(">d", v).hex()
  return repr(v)

def attempt(label, f):
  try:
    v = f()
    rec(label, "ok", fl(v))
  except Exception as e:
    rec(label, "exc", type(e).__name__, str(e))

RES = os.path.join("tests", "lammps_resources")

def probe_points(reader):
  xs = [p[0] for p in reader]
  pts = [-1.0, 0.0, -0.0, 1e-300, float("inf"), float("-inf"), float("nan")]
  if xs:
    lo, hi = xs[0], xs[-1]
    pts.extend([lo, hi, lo - 1e-9, hi + 1e-9, math.nextafter(hi, -math.inf), math.nextafter(lo, math.inf)])
    pts.extend(xs[:: max(1, len(xs) // 17)])
    for i in range(0, len(xs) - 1, max(1, len(xs) // 23)):
      pts.append(0.5 * (xs[i] + xs[i + 1]))
      pts.append(xs[i] + 0.123456789 * (xs[i + 1] - xs[i]))
    n = 57
    for i in range(n + 1):
      pts.append(lo + (hi - lo) * i / n)
  return pts

# 1. Real resource tables through the public TableReader callable
for fname in sorted(os.listdir(RES)):
  if not fname.endswith(".table"):
    continue
  with open(os.path.join(RES, fname)) as infile:
    tr = TableReader(infile)
  dr = tr.datReader
  rec(fname, type(dr).__name__, len(dr), [(fl(x), fl(y)) for x, y in dr])
  rec(fname, "xproxy", len(dr.xproxy), fl(dr.xproxy[0]), fl(dr.xproxy[-1]), fl(dr.xproxy[len(dr) // 2]))
  for x in probe_points(dr):
    attempt((fname, "call", fl(x)), lambda: tr(x))
    attempt((fname, "getValue", fl(x)), lambda: dr.getValue(x))

# 2. Synthetic inputs: comments, blank lines, unsorted data, tabs, extra columns, duplicates
synthetic = {
  "unsorted": "3.0 9.0\n1.0 1.0\n2.0 4.0\n0.5 0.25\n",
  "comments": "# header\n\n   \n0 0\n# mid comment\n1\t10\n2   20  999 extra\n  3 30\n",
  "duplicates": "0 0\n1 1\n1 2\n1 3\n2 5\n",
  "single": "1.5 2.5\n",
  "two": "0.0 1.0\n10.0 -3.0\n",
  "negatives": "-2 4\n-1 1\n0 0\n1 1\n2 4\n",
  "sci": "1e-3 2.5E+2\n1e-2 1.25e2\n1E-1 6.0e1\n1e0 .5\n",
  "intlike": "0 1\n1 3\n2 7\n3 13\n",
  "crlf": "0 0\r\n1 2\r\n2 4\r\n",
  "infnan": "0 0\n1 nan\n2 inf\n3 1\n",
}
for name in sorted(synthetic):
  tr = TableReader(io.StringIO(synthetic[name]))
  dr = tr.datReader
  rec(name, [(fl(x), fl(y)) for x, y in dr])
  for x in probe_points(dr) + [0.75, 1.0, 1.25, 1.5, 2.5, 5.0, 1, 2, 3]:
    attempt((name, "call", fl(x)), lambda: tr(x))

# 3. Malformed inputs
malformed = {
  "empty": "",
  "only_comments": "# a\n# b\n\n",
  "one_column": "1.0\n2.0\n",
  "not_float_x": "a 1\n",
  "not_float_y": "1 b\n",
  "mixed_bad": "0 0\n1 1\n2\n",
  "comma": "1,2\n3,4\n",
  "hash_inline": "1 #2\n",
}
for name in sorted(malformed):
  def build():
    tr = TableReader(io.StringIO(malformed[name]))
    return [(fl(x), fl(y)) for x, y in tr.datReader]
  attempt((name, "build"), build)
  def build_and_call():
    tr = TableReader(io.StringIO(malformed[name]))
    return tr(1.0)
  attempt((name, "call"), build_and_call)
attempt("non_iterable", lambda: TableReader(None))
attempt("list_of_lines", lambda: TableReader(["1 2", "0 1", "# c", ""])(0.5))
attempt("bytes_lines", lambda: TableReader([b"1 2"])(0.5))
attempt("string_x", lambda: TableReader(io.StringIO("0 0\n1 1\n"))("a"))
attempt("none_x", lambda: TableReader(io.StringIO("0 0\n1 1\n"))(None))

# 4. inputConvert / outputConvert on DatReader (TableReaderBase constructor)
calls = []
def inconv(x):
  calls.append(("in", fl(x)))
  return x * 0.529177
def outconv(y):
  calls.append(("out", fl(y)))
  return y * 27.2114
src = "3 6\n1 2\n2 4\n# c\n4 8.5\n"
for label, kwargs in [
    ("both", dict(inputConvert=inconv, outputConvert=outconv)),
    ("in_only", dict(inputConvert=inconv)),
    ("out_only", dict(outputConvert=outconv)),
    ("neither", dict()),
    ("positional", None)]:
  del calls[:]
  if kwargs is None:
    dr = _tablereaders.DatReader(io.StringIO(src), inconv, outconv)
  else:
    dr = _tablereaders.DatReader(io.StringIO(src), **kwargs)
  rec(label, [(fl(x), fl(y)) for x, y in dr], list(calls))
  for x in [0.0, 0.6, 1.0, 1.3, 1.5875309999999999, 2.0, 2.2, 3.9, 4.0, 5.0]:
    attempt((label, fl(x)), lambda: dr.getValue(x))

def badconv(v):
  raise KeyError("bad converter")
attempt("badconv_in", lambda: _tablereaders.DatReader(io.StringIO(src), inputConvert=badconv))
attempt("badconv_out", lambda: _tablereaders.DatReader(io.StringIO(src), outputConvert=badconv))
attempt("abstract", lambda: _tablereaders.TableReaderBase(io.StringIO(src)))

# Subclass implementing _populate (the documented extension point)
class PairsReader(_tablereaders.TableReaderBase):
  def _populate(self, pairs):
    self.extend(pairs)
pr = PairsReader([(0.0, 1.0), (0.5, 3.0), (2.0, -1.0)], outputConvert=lambda y: y + 1.0)
rec("PairsReader", list(pr), [fl(pr.getValue(x)) for x in (0.0, 0.1, 0.5, 1.0, 2.0, 2.1, -0.1)])

# 5. Public module attributes remain
rec(sorted(n for n in dir(_tablereaders) if not n.startswith("_")))
rec(sorted(n for n in dir(_tablereaders.DatReader) if not n.startswith("_")))

# 6. plotToFile and writeSetFL using table readers (written numbers)
def opentr(name):
  with open(os.path.join(RES, name)) as infile:
    return TableReader(infile)

sio = io.StringIO()
plotToFile(sio, 0.0, 6.5, opentr("setfl_CuAlPair.table"), steps=311)
rec("plotToFile", sio.getvalue())

for order in (("Al", "Cu"), ("Cu", "Al")):
  elements = {
    "Al": EAMPotential("Al", 13, 26.98, opentr("setfl_AlEmbed.table"), opentr("setfl_AlDensity.table")),
    "Cu": EAMPotential("Cu", 29, 63.55, opentr("setfl_CuEmbed.table"), opentr("setfl_CuDensity.table")),
  }
  pairs = [
    Potential("Al", "Al", opentr("setfl_AlAlPair.table")),
    Potential("Cu", "Al", opentr("setfl_CuAlPair.table")),
    Potential("Cu", "Cu", opentr("setfl_CuCuPair.table")),
  ]
  for nrho, drho, nr, dr_ in [(50, 0.02, 60, 0.1), (33, 0.031, 47, 0.137)]:
    sio = io.StringIO()
    writeSetFL(nrho, drho, nr, dr_, [elements[e] for e in order], pairs, comments=["a", "b", "c"], out=sio)
    rec("setfl", order, nrho, nr, sio.getvalue())

blob = "\n".join(OUT).encode("utf-8")
print("records", len(OUT))
print("sha256", hashlib.sha256(blob).hexdigest())

"""diffA.py - edit A (CSV pair tabulation target): existing-behaviour digest + demonstration of the new feature.
Run:  /venv/bin/python -W ignore /tmp/wtpy.py /tmp/twin_19 _twins/diffA.py"""
# ---------------------------------------------------------------------------
# Part (a): digest of a broad sample of EXISTING behaviour (public API + potable).
# Must print the same digest on the clean and on the edited tree.
# ---------------------------------------------------------------------------
import contextlib, glob, hashlib, io, logging, os, sys, tempfile

logging.disable(logging.CRITICAL)

_WT = os.path.dirname(os.path.dirname(os.path.abspath(__file__)))

import atsim.potentials as ap
from atsim.potentials import potentialforms as pf
from atsim.potentials import pair_tabulation as pt, eam_tabulation as et
from atsim.potentials.config import Configuration, ConfigParser, ConfigParserOverrideTuple as CPT, FilteredConfigParser
from atsim.potentials.config._common import ConfigurationException


class _Digest(object):
  def __init__(self):
    self.h = hashlib.sha256()
    self.n = 0

  def add(self, label, value):
    if isinstance(value, bytes):
      value = value.decode("latin-1")
    self.h.update(("%s\x00%s\x01" % (label, value)).encode("utf-8"))
    self.n += 1

  def attempt(self, label, f):
    """Record the output of f() or the type and message of the exception it raises"""
    try:
      v = f()
    except SystemExit as e:
      v = "SystemExit:%r" % (e.code,)
    except Exception as e:
      v = "EXC:%s:%s" % (type(e).__name__, e)
    self.add(label, v)

  def hexdigest(self):
    return self.h.hexdigest()


def _write_text(tab):
  if tab.target.startswith("excel"):
    wb = tab.workbook
    out = []
    for ws in wb.worksheets:
      out.append("SHEET " + ws.title)
      for row in ws.iter_rows(values_only=True):
        out.append(repr(row))
    return "\n".join(out)
  sio = io.StringIO()
  tab.write(sio)
  return sio.getvalue()


_PAIR_TARGETS = ["LAMMPS", "DL_POLY", "DLPOLY", "GULP", "excel"]
_EAM_TARGETS = ["setfl", "lammps_eam_alloy", "DL_POLY_EAM", "excel_eam", "eam_adp"]
_FS_TARGETS = ["setfl_fs", "DL_POLY_EAM_fs", "excel_eam_fs"]


def _tabulate_file(path, target, extra=(), include=None, exclude=None):
  overrides = [CPT("Tabulation", "target", target)]
  overrides.extend(extra)
  with open(path) as infile:
    cp = ConfigParser(infile, overrides=overrides)
  if include is not None:
    cp = FilteredConfigParser(cp, include=include)
  if exclude is not None:
    cp = FilteredConfigParser(cp, exclude=exclude)
  tab = Configuration().read_from_parser(cp)
  head = "%s %s %s %r %r %r" % (type(tab).__name__, tab.type, tab.target, tab.nr, tab.cutoff, tab.dr)
  return head + "\n" + _write_text(tab)


def _potable(argv):
  from atsim.potentials.tools import potable
  err = io.StringIO()
  out = io.StringIO()
  old = sys.argv
  sys.argv = ["potable"] + list(argv)
  code = None
  try:
    with contextlib.redirect_stderr(err), contextlib.redirect_stdout(out):
      try:
        potable._do_tabulation(*potable._parse_command_line())
      except ConfigurationException as e:
        err.write("configuration error - {}".format(e))
        code = 2
      except SystemExit as e:
        code = e.code
      except Exception as e:
        code = "uncaught %s: %s" % (type(e).__name__, e)
  finally:
    sys.argv = old
  return "code=%r\nOUT=%s\nERR=%s" % (code, out.getvalue(), err.getvalue())


def existing_behaviour_digest():
  d = _Digest()

  # 1. every example / test .aspot shipped with the project, through every target of its family
  files = sorted(glob.glob(os.path.join(_WT, "docs", "user_guide", "example_files", "*.aspot")))
  files += sorted(glob.glob(os.path.join(_WT, "docs", "quick_start", "*.aspot")))
  files += sorted(glob.glob(os.path.join(_WT, "tests", "config", "config_resources", "*.aspot")))
  for path in files:
    text = open(path).read()
    if "[EAM-Density]" in text and "->" in text:
      targets = _FS_TARGETS
    elif "[EAM-Embed]" in text:
      targets = _EAM_TARGETS
    else:
      targets = _PAIR_TARGETS
    rel = os.path.relpath(path, _WT)
    d.attempt("asis:" + rel, lambda: _tabulate_file(path, open(path).read().split("target")[1].split("\n")[0].strip(" :=")))
    for t in targets + ["no_such_target", "csv_nope"]:
      d.attempt("file:%s:%s" % (rel, t), lambda: _tabulate_file(path, t))

  # 2. species filtering + overrides on the spinel / basak models
  basak = os.path.join(_WT, "docs", "quick_start", "basak.aspot")
  for t in ["LAMMPS", "GULP", "DL_POLY"]:
    d.attempt("incl:" + t, lambda: _tabulate_file(basak, t, include=["O", "U"]))
    d.attempt("excl:" + t, lambda: _tabulate_file(basak, t, exclude=["Gd"]))
    d.attempt("over:" + t, lambda: _tabulate_file(basak, t, extra=[CPT("Tabulation", "cutoff", "6.0"), CPT("Tabulation", "nr", "24")]))
    d.attempt("bad-nr:" + t, lambda: _tabulate_file(basak, t, extra=[CPT("Tabulation", "cutoff", "6.0"), CPT("Tabulation", "nr", "2")]))

  # 3. Python API: potential objects, procedural writers, tabulation classes
  bks = pf.buck(18003.7572, 0.205204, 133.5381)
  pots = [
    ap.Potential("Si", "O", bks),
    ap.Potential("O", "O", ap.plus(pf.buck(1388.773, 0.3623, 175.0), pf.coul(-2, -2))),
    ap.Potential("Xe", "O", lambda r: 3.0 * r ** 2 - 1.0 / (r + 1.0)),
    ap.Potential("B", "O", ap.SplinePotential(pf.zbl(5, 8), pf.buck(1000.0, 0.3, 10.0), 0.8, 1.4)),
  ]
  # potentials that are regular at r = 0 (GULP, Excel and the plot helpers evaluate there)
  pots0 = [
    ap.Potential("Si", "O", pf.morse(1.8, 1.6, 0.4)),
    ap.Potential("O", "O", ap.plus(pf.polynomial(1.0, -2.0, 0.5), pf.exponential(3.0, 1.5))),
    ap.Potential("Xe", "O", lambda r: 3.0 * r ** 2 - 1.0 / (r + 1.0)),
  ]
  for p in pots + pots0:
    d.add("pot", repr((p.speciesA, p.speciesB, [p.energy(r) for r in (0.5, 1.0, 2.5)], [p.force(r) for r in (0.5, 1.0, 2.5)])))
  for typ, nr in [("LAMMPS", 11), ("DL_POLY", 12), ("DL_POLY", 11), ("GULP", 11), ("CSV_NOPE", 11), ("excel", 11)]:
    def f():
      sio = io.StringIO()
      ap.writePotentials(typ, pots0 if typ == "GULP" else pots, 6.0, nr, sio)
      return sio.getvalue()
    d.attempt("writePotentials:%s:%d" % (typ, nr), f)
  for cls, nr in [(pt.LAMMPS_PairTabulation, 9), (pt.DLPoly_PairTabulation, 8), (pt.GULP_PairTabulation, 9), (pt.Excel_PairTabulation, 5)]:
    def f():
      tab = cls(pots0 if cls in (pt.GULP_PairTabulation, pt.Excel_PairTabulation) else pots, 4.0, nr)
      return "%s %s %r %r %r %d\n%s" % (tab.type, tab.target, tab.nr, tab.cutoff, tab.dr, len(tab.potentials), _write_text(tab))
    d.attempt("class:" + cls.__name__, f)

  # a failing evaluation must leave nothing behind (GULP / LAMMPS / DL_POLY)
  def bad(r):
    if r > 2.0:
      raise ValueError("outside domain")
    return r
  for cls, nr in [(pt.LAMMPS_PairTabulation, 9), (pt.DLPoly_PairTabulation, 8), (pt.GULP_PairTabulation, 9)]:
    sio = io.StringIO()
    d.attempt("fail:" + cls.__name__, lambda: cls([pots0[0], ap.Potential("A", "B", bad)], 4.0, nr).write(sio))
    d.add("fail-left:" + cls.__name__, sio.getvalue())

  # 4. EAM procedural writers + classes
  def embed(rho): return -rho ** 0.5
  def dens(r): return 2.0 / (1.0 + r) ** 2
  def dens2(r): return 1.0 / (1.0 + r) ** 3
  eam = [ap.EAMPotential("Al", 13, 26.98, embed, dens, 4.05, "fcc"), ap.EAMPotential("Cu", 29, 63.55, embed, dens2)]
  eamfs = [ap.EAMPotential("Al", 13, 26.98, embed, {"Al": dens, "Cu": dens2}, 4.05, "fcc"),
           ap.EAMPotential("Cu", 29, 63.55, embed, {"Cu": dens2, "Al": dens})]
  ppots = [ap.Potential("Al", "Al", pf.exponential(2.0, 1.5)), ap.Potential("Cu", "Al", pf.morse(1.5, 2.5, 0.3))]
  for name, fn, e in [("writeSetFL", ap.writeSetFL, eam), ("writeSetFLFinnisSinclair", ap.writeSetFLFinnisSinclair, eamfs),
                      ("writeTABEAM", ap.writeTABEAM, eam), ("writeTABEAMFinnisSinclair", ap.writeTABEAMFinnisSinclair, eamfs)]:
    def f():
      sio = io.StringIO()
      fn(7, 0.5, 6, 0.8, e, ppots, sio)
      return sio.getvalue()
    d.attempt(name, f)
  def f():
    sio = io.StringIO()
    ap.writeFuncFL(7, 0.5, 6, 0.8, eam[:1], ppots[:1], sio)
    return sio.getvalue()
  d.attempt("writeFuncFL", f)
  for cls, e in [(et.SetFL_EAMTabulation, eam), (et.SetFL_FS_EAMTabulation, eamfs), (et.TABEAM_EAMTabulation, eam),
                 (et.TABEAM_FinnisSinclair_EAMTabulation, eamfs), (et.Excel_EAMTabulation, eam), (et.Excel_FinnisSinclair_EAMTabulation, eamfs)]:
    def f():
      tab = cls(ppots, e, 4.0, 6, 3.0, 7)
      return "%s %s %r %r %r %r %r %r\n%s" % (tab.type, tab.target, tab.nr, tab.cutoff, tab.dr, tab.nrho, tab.cutoff_rho, tab.drho, _write_text(tab))
    d.attempt("eamclass:" + cls.__name__, f)
  for e in eam + eamfs:
    d.add("eampot", repr((e.species, e.atomicNumber, e.mass, e.latticeConstant, e.latticeType, e.embeddingValue(2.0))))
  d.attempt("eam.electronDensity", lambda: repr(eam[0].electronDensity(1.5)))

  # 5. plot helpers and TableReader
  for args in [(0.0, 5.0, pots0[0].energy, 10), (1.0, 2.0, pots[2].energy, 7), (0.5, 3.0, bks, 1)]:
    def f():
      sio = io.StringIO()
      ap.plotToFile(sio, args[0], args[1], args[2], args[3])
      return sio.getvalue()
    d.attempt("plotToFile:%r" % (args[:2] + args[3:],), f)
  def f():
    sio = io.StringIO()
    ap.plotToFile(sio, 0.5, 3.0, bks)
    return hashlib.sha256(sio.getvalue().encode()).hexdigest()
  d.attempt("plotToFile:default-steps", f)
  def f():
    sio = io.StringIO()
    ap.plotPotentialObjectToFile(sio, 0.5, 3.0, pots[1], 9)
    return sio.getvalue()
  d.attempt("plotPotentialObjectToFile", f)
  tmpdir = tempfile.mkdtemp()
  def f():
    fn = os.path.join(tmpdir, "plot.dat")
    ap.plot(fn, 0.2, 4.0, bks, 13)
    ap.plotPotentialObject(fn + "2", 0.2, 4.0, pots[0], 13)
    return open(fn).read() + open(fn + "2").read()
  d.attempt("plot", f)
  tr = ap.TableReader(io.StringIO(u"#c\n0.0 1.0\n\n2.0 5.0\n1.0 2.0\n"))
  d.add("TableReader", repr([tr(x) for x in (-1.0, 0.0, 0.5, 1.0, 1.5, 2.0, 3.0)]))

  # 6. potable command line (tabulation, queries, error paths)
  spinel = os.path.join(_WT, "tests", "config", "config_resources", "spinel.aspot")
  outfn = os.path.join(tmpdir, "out.tab")
  for argv in [[basak, outfn, "-e", "Tabulation:target=GULP"],
               [basak, outfn, "-e", "Tabulation:target=csv_nope"],
               [basak, outfn, "-e", "Tabulation:target=DL_POLY", "Tabulation:nr=1001", "-r", "Tabulation:dr"],
               [basak, "--list-items"], [spinel, "--list-item-labels"], [basak, "--item-value", "Tabulation:target"],
               [spinel, outfn, "--include-species", "Mg", "O"],
               [basak, outfn, "-a", "Pair:O-U=as.buck 1 2 3"],
               [basak, outfn, "-e", "Pair:O-Nope=as.buck 1 2 3"]]:
    if os.path.exists(outfn):
      os.remove(outfn)
    short = [os.path.basename(a) if os.path.isabs(a) else a for a in argv]
    d.attempt("potable:%r" % (short,), lambda: _potable(argv))
    d.add("potable-out:%r" % (short,), open(outfn).read() if os.path.exists(outfn) else "<absent>")
  return d


# ---------------------------------------------------------------------------
# Part (b): the new CSV pair tabulation target (edit A)
# ---------------------------------------------------------------------------
import csv, subprocess

_MODEL = u"""
[Tabulation]
target : CSV
cutoff : 6.0
dr : 0.25

[Pair]
Si-O : as.buck 18003.7572 0.205204 133.5381
O-O : sum(as.buck 1388.773 0.3623 175.0, as.coul -2 -2)
Al-O : >=0 as.morse 1.8 1.6 0.4 >2.0 as.polynomial 1.0 -2.0 0.5
"""

def _csv_from_config(text, include=None):
  cp = ConfigParser(io.StringIO(text))
  if include is not None:
    cp = FilteredConfigParser(cp, include=include)
  tab = Configuration().read_from_parser(cp)
  sio = io.StringIO()
  tab.write(sio)
  return tab, sio.getvalue()

def new_feature_digest():
  d = _Digest()
  tab, text = _csv_from_config(_MODEL)
  d.add("csv", text)
  return d

def check(label, ok):
  print("  %-72s %s" % (label, "ok" if ok else "FAILED"))
  if not ok:
    check.failed += 1
check.failed = 0

def demonstrate_new_feature():
  if not hasattr(pt, "CSV_PairTabulation"):
    print("NEW FEATURE: CSV_PairTabulation absent (clean tree)")
    return
  print("NEW FEATURE: CSV pair tabulation")
  tab, text = _csv_from_config(_MODEL)
  rows = list(csv.reader(io.StringIO(text)))
  check("factory gives CSV_PairTabulation, type Pair, target CSV", (type(tab).__name__, tab.type, tab.target) == ("CSV_PairTabulation", "Pair", "CSV"))
  # C11: cutoff 6.0 with dr 0.25 -> 25 rows spaced 0.25 ending at 6.0
  check("C11: cutoff+dr -> nr=25 rows on the grid i*0.25", tab.nr == 25 and len(rows) == 26 and [float(r[0]) for r in rows[1:]] == [i * 0.25 for i in range(25)])
  check("header is r then one label per potential in file order", rows[0] == ["r", "Si-O", "O-O", "Al-O"] == tab.column_labels)
  # C19-like faithfulness: every cell equals the model built independently through the Python API
  bks = pf.buck(18003.7572, 0.205204, 133.5381)
  oo = ap.plus(pf.buck(1388.773, 0.3623, 175.0), pf.coul(-2, -2))
  def alo(r):
    if r > 2.0: return pf.polynomial(1.0, -2.0, 0.5)(r)
    return pf.morse(1.8, 1.6, 0.4)(r)
  worst = 0.0
  for row in rows[1:]:
    r = float(row[0])
    expect = [0.0 if r == 0.0 else bks(r), 0.0 if r == 0.0 else oo(r), alo(r)]
    for a, e in zip(row[1:], expect):
      worst = max(worst, abs(float(a) - e) / max(1.0, abs(e)))
  check("every cell equals the independently built model (rel err %.1e)" % worst, worst < 1e-12)
  # same energies as the GULP target of the same model, to GULP's printed precision
  gtab, gtext = _csv_from_config(_MODEL.replace("target : CSV", "target : GULP"))
  gul = [l.split() for l in gtext.splitlines() if len(l.split()) == 2 and l[0] in "-0123456789"]
  csv_flat = [(float(row[0]), float(row[c])) for c in (1, 2, 3) for row in rows[1:]]
  check("agrees with GULP table of the same model", len(gul) == len(csv_flat) and all("%.10f" % e == g[0] and "%.10f" % r == g[1] for (r, e), g in zip(csv_flat, gul)))
  # Python API + label quoting
  ptab = pt.CSV_PairTabulation([ap.Potential("A,x", "B", lambda r: 2.0 * r), ap.Potential("B", "A", lambda r: 1)], 2.0, 3)
  sio = io.StringIO(); ptab.write(sio)
  check("python API; labels with commas are quoted; ints become floats", sio.getvalue() == 'r,"A,x-B",B-A\n0.0,0.0,1.0\n1.0,2.0,1.0\n2.0,4.0,1.0\n')
  check("dr property", ptab.dr == 1.0)
  # C12: writing twice / rebuilding gives identical bytes
  tab2, text2 = _csv_from_config(_MODEL)
  sio = io.StringIO(); tab.write(sio)
  check("C12: write twice and rebuild -> identical bytes", text == text2 == sio.getvalue())
  # C13: filtering equals deleting the unwanted lines
  ftab, ftext = _csv_from_config(_MODEL, include=["Si", "O"])
  deleted = "\n".join(l for l in _MODEL.splitlines() if not l.startswith("Al-O"))
  check("C13: include-species == deleting entries", ftext == _csv_from_config(deleted)[1] and ftext.splitlines()[0] == "r,Si-O,O-O")
  # C17: a failing evaluation leaves nothing behind
  def bad(r):
    if r > 1.0: raise ValueError("outside domain")
    return r
  sio = io.StringIO()
  try:
    pt.CSV_PairTabulation([ap.Potential("A", "B", lambda r: r), ap.Potential("C", "D", bad)], 2.0, 5).write(sio)
    raised = False
  except ValueError:
    raised = True
  check("C17: write() with failing potential raises and writes nothing", raised and sio.getvalue() == "")
  tmpdir = tempfile.mkdtemp()
  infn = os.path.join(tmpdir, "bad.aspot"); outfn = os.path.join(tmpdir, "bad.csv")
  open(infn, "w").write(u"[Tabulation]\ntarget : CSV\ncutoff : 4.0\nnr : 5\n[Pair]\nA-B : as.polynomial 1 2\nC-D : bad 1.5\n[Potential-Form]\nbad(r, a) = pymath.sqrt(a - r)\n")
  res = _potable([infn, outfn])
  check("C17: potable with failing formula (%s) leaves an empty/absent file" % res.split("\n")[0], (not os.path.exists(outfn) or open(outfn).read() == "") and "uncaught ValueError: math domain error" in res)
  open(infn, "w").write(_MODEL)
  res = _potable([infn, outfn])
  check("potable writes the same bytes as the API", res.startswith("code=0") and open(outfn).read() == text)
  # C16: listed value accepted, other spellings refused with a configuration error
  for bad_target in ("csv", "CSV_", "Csv"):
    res = _potable([infn, outfn, "-e", "Tabulation:target=" + bad_target])
    check("C16: target %r -> configuration error" % bad_target, "configuration error - [Tabulation].tabulation-target - unknown tabulation target" in res)
  doc = open(os.path.join(_WT, "docs", "reference", "potable_input.rst")).read()
  check("C16: reference manual lists ``CSV`` as a valid target", "``CSV``" in doc.split(":Valid Options:")[1].split(":Description:")[0])
  # C12: hash-seed independence
  digests = set()
  for seed in ("0", "1", "4242"):
    env = dict(os.environ, PYTHONHASHSEED=seed)
    out = subprocess.check_output([sys.executable, "-W", "ignore", "/tmp/wtpy.py", _WT, os.path.abspath(__file__), "--child"], env=env)
    digests.add(out.decode().strip())
  check("C12: same CSV bytes for PYTHONHASHSEED 0/1/4242: %s" % sorted(digests), len(digests) == 1 and new_feature_digest().hexdigest() in digests)
  print("NEW-FEATURE-DIGEST", new_feature_digest().hexdigest())
  print("NEW FEATURE CHECKS FAILED: %d" % check.failed)


if __name__ == "__main__":
  if "--child" in sys.argv:
    print(new_feature_digest().hexdigest())
  else:
    d = existing_behaviour_digest()
    print("EXISTING-BEHAVIOUR-DIGEST %d items %s" % (d.n, d.hexdigest()))
    demonstrate_new_feature()

"""Differential script for twin B: cutoff defaults / logging in _tabulation_factories.py,
species filtering in _filtered_config_parser.py, target defaulting in _configuration.py."""
import hashlib, io, itertools, logging
from atsim.potentials.config import ConfigParser, Configuration, FilteredConfigParser
from atsim.potentials.config._tabulation_factories import TABULATION_FACTORIES

out = []

class _Capture(logging.Handler):
  def emit(self, record):
    out.append("  LOG %s %s %s" % (record.name, record.levelname, record.getMessage()))
root = logging.getLogger()
root.addHandler(_Capture())
root.setLevel(logging.DEBUG)
logging.getLogger("atsim").setLevel(logging.INFO)

def rec(label, fn):
  try:
    r = repr(fn())
  except Exception as e:
    r = "EXC %s.%s: %s" % (type(e).__module__, type(e).__name__, e)
  out.append("%s => %s" % (label, r))

PAIR = """[Pair]
O-O : as.buck 1000.0 0.3 32.0
Mg-O : as.born 900 0.3 0
Al-O : >0 as.buck 15.0 0.2 0.0 >=2.0 as.zero
"""
EAM = """[Species]
A.atomic_mass = 1
A.atomic_number = 1
B.atomic_mass = 2
B.atomic_number = 2
B.lattice_type = bcc
[EAM-Embed]
A = as.polynomial 0 1
B = as.zero
[EAM-Density]
A = as.polynomial 0 2
B = as.polynomial 0 3
[Pair]
A-B : as.buck 10.0 0.3 0.0
"""
EAM_FS = """[Species]
A.atomic_mass = 1
A.atomic_number = 1
B.atomic_mass = 2
B.atomic_number = 2
[EAM-Embed]
A = as.zero
B = as.polynomial 0 1
[EAM-Density]
A->B = as.polynomial 0 3
B->A = as.polynomial 0 2
B->B = as.polynomial 0 5
A->A = as.zero
[Pair]
A-A : as.buck 10.0 0.3 0.0
"""
ADP = EAM + """[EAM-ADP-Dipole]
A-B : as.polynomial 0 0.1
[EAM-ADP-Quadrupole]
A-A : as.polynomial 0 0.2
"""

def tabulate(txt):
  tab = Configuration().read(io.StringIO(txt))
  sio = io.StringIO()
  tab.write(sio)
  return (type(tab).__name__, hashlib.sha256(sio.getvalue().encode()).hexdigest())

grids = ["", "nr : 12\ncutoff : 5.5", "cutoff : 3.0", "nr : 8", "dr : 0.5\nnr : 0", "cutoff : 0\n", "nr : 4\ncutoff : 2.0", "nr : 2\ncutoff : 1.0", "nr : 3\ndr : 0.5"]
rgrids = ["", "nrho : 6\ncutoff_rho : 5.0", "cutoff_rho : 20.0", "nrho : 9", "nrho : 0", "drho : 0.0\nnrho : 5"]
for tgt in [None, "LAMMPS", "DLPOLY", "DL_POLY", "GULP", "excel", "bogus", ""]:
  for g in grids:
    t = "[Tabulation]\n" + ("" if tgt is None else "target : %s\n" % tgt) + g + "\n" + PAIR
    if tgt == "excel":
      rec("cutoffs %s %r" % (tgt, g), lambda: TABULATION_FACTORIES["excel"].extract_cutoffs(ConfigParser(io.StringIO(t))))
    else:
      rec("pair %s %r" % (tgt, g), lambda: tabulate(t))
rec("pair no tabulation section", lambda: tabulate(PAIR))

for tgt, body in [("setfl", EAM), ("lammps_eam_alloy", EAM), ("DL_POLY_EAM", EAM), ("setfl_fs", EAM_FS), ("DL_POLY_EAM_fs", EAM_FS), ("eam_adp", ADP), ("setfl", EAM_FS), ("setfl_fs", EAM)]:
  for g, rg in itertools.product(grids[:5], rgrids):
    t = "[Tabulation]\ntarget : %s\n%s\n%s\n%s" % (tgt, g, rg, body)
    if g == "" and rg in ("", "nrho : 9"):
      # default 1001 x 1001 grids : only look at the cutoffs and the logging, not the (large) file
      rec("eamcut %s %r %r" % (tgt, g, rg), lambda: TABULATION_FACTORIES[ConfigParser(io.StringIO(t)).tabulation.target].extract_cutoffs(ConfigParser(io.StringIO(t))))
    else:
      rec("eam %s %r %r" % (tgt, g, rg), lambda: tabulate(t))

# Filtered parser
def filt(txt, **kw):
  cp = FilteredConfigParser(ConfigParser(io.StringIO(txt)), **kw)
  r = []
  for attr in ("pair", "eam_embed", "eam_density", "eam_density_fs"):
    try:
      r.append((attr, [p.species for p in getattr(cp, attr)]))
    except Exception as e:
      r.append((attr, "EXC " + type(e).__name__ + str(e)))
  r.append(cp.parsed_sections)
  return r
kws = [dict(), dict(exclude=[]), dict(include=[]), dict(exclude=None, include=None), dict(exclude=["A"]), dict(include=["A"]),
       dict(exclude=["A", "B"]), dict(include=["A", "B"]), dict(include=("B",)), dict(exclude={"O"}), dict(include=["O", "Mg"]),
       dict(exclude=["A"], include=["B"]), dict(exclude=[], include=["B"]), dict(exclude=["B"], include=[]), dict(include="AB"), dict(exclude="")]
for kw in kws:
  for name, body in (("PAIR", PAIR), ("EAM", EAM), ("EAM_FS", EAM_FS)):
    rec("filter %s %r" % (name, sorted(kw.items(), key=repr)), lambda: filt(body, **kw))

def filt_tab(txt, **kw):
  cp = FilteredConfigParser(ConfigParser(io.StringIO(txt)), **kw)
  tab = Configuration().read_from_parser(cp)
  sio = io.StringIO()
  tab.write(sio)
  return hashlib.sha256(sio.getvalue().encode()).hexdigest()
rec("filter tab", lambda: filt_tab("[Tabulation]\ntarget : setfl_fs\nnr : 5\ncutoff : 2.0\nnrho : 5\ncutoff_rho : 2.0\n" + EAM_FS, exclude=["A"]))
rec("filter tab2", lambda: filt_tab("[Tabulation]\ntarget : DL_POLY\nnr : 8\ncutoff : 2.0\n" + PAIR, include=["O", "Mg"]))

blob = "\n".join(out)
print(len(out), "records")
print(hashlib.sha256(blob.encode()).hexdigest())

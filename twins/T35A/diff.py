"""Differential script for twin A.

Exercises open_fp()/write() of every tabulation class (pair and EAM), the
GULP writer, and the Excel writers' temporary file handling, through the
public API and through the potable CLI.  Prints one sha256 digest.
"""
import io
import os
import shutil
import sys
import tempfile

sys.path.insert(0, os.path.dirname(os.path.abspath(__file__)))
import harness as h
from harness import ap, pt, et, Rec, FailAfter, Boom, run

d = h.Digest()

# private temp area: lets us check that the Excel writers leave nothing behind
scratch = tempfile.mkdtemp(prefix = "twin35A_")
private_tmp = os.path.join(scratch, "tmp")
os.mkdir(private_tmp)
h.SCRUB.append(scratch)
tempfile.tempdir = private_tmp

pairs = h.pair_sets(finite_at_zero = True)
pairs["diverging"] = h.pair_sets()["three"]
eams = h.eam_sets()
eam_fs = h.eam_fs_sets()

PAIR_CLASSES = [pt.LAMMPS_PairTabulation, pt.DLPoly_PairTabulation, pt.GULP_PairTabulation, pt.Excel_PairTabulation]
EAM_CLASSES = [et.SetFL_EAMTabulation, et.TABEAM_EAMTabulation, et.Excel_EAMTabulation]
EAM_FS_CLASSES = [et.SetFL_FS_EAMTabulation, et.TABEAM_FinnisSinclair_EAMTabulation, et.Excel_FinnisSinclair_EAMTabulation]


def describe_fp(fp):
  return (type(fp).__name__, fp.mode, os.path.basename(fp.name), fp.closed, fp.writable(), fp.readable(),
          getattr(fp, "encoding", None) is not None, getattr(fp, "newlines", "n/a"))


def via_open_fp(tab_or_cls, tab, name):
  """open_fp -> write -> close -> return description + bytes"""
  path = os.path.join(scratch, name)
  with open(path, "w") as f:
    f.write("STALE CONTENT THAT MUST BE TRUNCATED")
  fp = tab_or_cls.open_fp(path)
  desc = describe_fp(fp)
  with open(path, "rb") as f:
    truncated = f.read() == b""
  with fp as outfile:
    same = outfile is fp
    tab.write(outfile)
  closed = fp.closed
  with open(path, "rb") as f:
    data = f.read()
  os.remove(path)
  if data[:2] == b"PK":
    data = h.xlsx_summary(data)
  return (desc, truncated, same, closed, data, sorted(os.listdir(private_tmp)))


# ---- 1. open_fp on classes, instances, subclasses -------------------------
for cls in PAIR_CLASSES:
  for setname in ["three", "one"]:
    tab = cls(pairs[setname], 6.0, 16)
    run(d, "open_fp:cls:%s:%s" % (cls.__name__, setname), lambda: via_open_fp(cls, tab, "a.out"))
    run(d, "open_fp:inst:%s:%s" % (cls.__name__, setname), lambda: via_open_fp(tab, tab, "b.out"))
  d.add("attrs:%s" % cls.__name__, (tab.type, tab.target, tab.nr, tab.cutoff, tab.dr, callable(cls.open_fp)))

for cls in EAM_CLASSES + [et.ADP_EAMTabulation]:
  eampots, pairpots = eams["AlCu"]
  if cls is et.ADP_EAMTabulation:
    tab = cls(pairpots, eampots, [pairpots[1]], [pairpots[0]], 6.0, 12, 20.0, 8)
  else:
    tab = cls(pairpots, eampots, 6.0, 12, 20.0, 8)
  run(d, "open_fp:cls:%s" % cls.__name__, lambda: via_open_fp(cls, tab, "c.out"))
  run(d, "open_fp:inst:%s" % cls.__name__, lambda: via_open_fp(tab, tab, "d.out"))
  d.add("attrs:%s" % cls.__name__, (tab.type, tab.target, tab.nr, tab.nrho, tab.drho, tab.cutoff_rho))

for cls in EAM_FS_CLASSES:
  eampots, pairpots = eam_fs["AlFe"]
  tab = cls(pairpots, eampots, 5.0, 10, 30.0, 6)
  run(d, "open_fp:cls:%s" % cls.__name__, lambda: via_open_fp(cls, tab, "e.out"))
  d.add("attrs:%s" % cls.__name__, (tab.type, tab.target))

# open_fp error behaviour
for cls in [pt.GULP_PairTabulation, pt.Excel_PairTabulation, et.Excel_EAMTabulation, et.SetFL_EAMTabulation]:
  run(d, "open_fp:nodir:%s" % cls.__name__, lambda: cls.open_fp(os.path.join(scratch, "no", "such", "dir.out")) and None)
  run(d, "open_fp:isdir:%s" % cls.__name__, lambda: type(cls.open_fp(scratch)))
  run(d, "open_fp:none:%s" % cls.__name__, lambda: type(cls.open_fp(None)))
  run(d, "open_fp:noarg:%s" % cls.__name__, lambda: cls.open_fp(), message = False)   # message names the defining class
  run(d, "open_fp:kw:%s" % cls.__name__, lambda: describe_fp(cls.open_fp(filename = os.path.join(scratch, "kw.out"))))

# user subclasses that customise open_fp / write keep working
class MyGulp(pt.GULP_PairTabulation):
  @classmethod
  def open_fp(cls, filename):
    return io.StringIO()

class MyExcel(pt.Excel_PairTabulation):
  pass

class MyExcelEAM(et.Excel_FinnisSinclair_EAMTabulation):
  pass

run(d, "subclass:MyGulp", lambda: type(MyGulp.open_fp("x")).__name__)
run(d, "subclass:MyExcel", lambda: via_open_fp(MyExcel, MyExcel(pairs["mixed"], 4.0, 5), "f.out"))
run(d, "subclass:MyExcelEAM", lambda: via_open_fp(MyExcelEAM, MyExcelEAM(eam_fs["FeAl"][1], eam_fs["FeAl"][0], 4.0, 5, 3.0, 4), "g.out"))
run(d, "base:write", lambda: pt.PairTabulation_AbstractBase([], 1.0, 3, "x").write(io.StringIO()))
run(d, "base:open_fp", lambda: describe_fp(pt.PairTabulation_AbstractBase.open_fp(os.path.join(scratch, "base.out"))))

# ---- 2. GULP writer: bytes, number of write() calls, failure atomicity -----
for setname in sorted(pairs):
  for cutoff, nr in [(6.0, 7), (10.0, 33), (2.5, 2), (1.0, 1), (3.0, 0)]:
    def gulp():
      rec = Rec()
      pt.GULP_PairTabulation(pairs[setname], cutoff, nr).write(rec)
      return rec.summary()
    run(d, "gulp:%s:%s:%s" % (setname, cutoff, nr), gulp)
    def gulp_pub():
      sio = io.StringIO()
      ap.writePotentials("GULP", pairs[setname], cutoff, nr, sio)
      return sio.getvalue()
    run(d, "gulp_pub:%s:%s:%s" % (setname, cutoff, nr), gulp_pub)

for nfail in [0, 1, 5, 11, 12, 17]:
  def gulp_fail():
    log = []
    f1 = h.Counting("first", h.morse_like, log)
    f2 = FailAfter(h.Counting("second", h.morse_like, log), nfail)
    f3 = h.Counting("third", h.morse_like, log)
    pots = [h.Potential("A", "B", f1), h.Potential("C", "D", f2), h.Potential("E", "F", f3)]
    rec = Rec()
    try:
      pt.GULP_PairTabulation(pots, 5.0, 12).write(rec)
    except Boom as e:
      return ("Boom", str(e), rec.summary(), log)
    return ("ok", rec.summary(), log)
  run(d, "gulp_fail:%d" % nfail, gulp_fail)

class NoSpecies(object):
  speciesA = "Q"
  def energy(self, r):
    return 1.0
run(d, "gulp:badpot", lambda: pt.GULP_PairTabulation([NoSpecies()], 5.0, 4).write(Rec()))
run(d, "gulp:strenergy", lambda: pt.GULP_PairTabulation([h.Potential("A", "B", lambda r: "x")], 5.0, 4).write(Rec()))
run(d, "gulp:int_energy", lambda: (lambda rec: (pt.GULP_PairTabulation([h.Potential("A", "B", lambda r: 2)], 5, 4).write(rec), rec.summary()))(Rec()))

# ---- 3. Excel writers ------------------------------------------------------
def excel_to(tab, sink):
  tab.write(sink)
  if isinstance(sink, Rec):
    data = b"".join(sink.chunks)
    return (len(sink.chunks), h.xlsx_summary(data), sorted(os.listdir(private_tmp)))
  return (h.xlsx_summary(sink.getvalue()), sorted(os.listdir(private_tmp)))

for setname in ["one", "three", "three_rev", "mixed", "nan", "diverging"]:
  for cutoff, nr in [(6.0, 7), (2.0, 3)]:
    run(d, "xl_pair:rec:%s:%s" % (setname, nr), lambda: excel_to(pt.Excel_PairTabulation(pairs[setname], cutoff, nr), Rec()))
    run(d, "xl_pair:bio:%s:%s" % (setname, nr), lambda: excel_to(pt.Excel_PairTabulation(pairs[setname], cutoff, nr), io.BytesIO()))

for setname in ["Al", "AlCu", "CuAl_missing", "AlCuFe"]:
  eampots, pairpots = eams[setname]
  run(d, "xl_eam:%s" % setname, lambda: excel_to(et.Excel_EAMTabulation(pairpots, eampots, 5.0, 6, 20.0, 5), Rec()))
for setname in ["AlFe", "FeAl", "missing_density"]:
  eampots, pairpots = eam_fs[setname]
  run(d, "xl_eam_fs:%s" % setname, lambda: excel_to(et.Excel_FinnisSinclair_EAMTabulation(pairpots, eampots, 5.0, 6, 20.0, 5), io.BytesIO()))

# writing the same tabulation twice (workbook is cached) gives two full copies
def twice():
  tab = pt.Excel_PairTabulation(pairs["three"], 4.0, 5)
  a, b = Rec(), Rec()
  tab.write(a)
  tab.write(b)
  return (len(a.chunks), len(b.chunks), h.xlsx_summary(a.chunks[0]) == h.xlsx_summary(b.chunks[0]), tab.workbook.sheetnames)
run(d, "xl_twice", twice)

# text-mode sink -> TypeError from the sink, nothing left in the temp area
run(d, "xl_textsink", lambda: pt.Excel_PairTabulation(pairs["one"], 4.0, 5).write(io.StringIO()))
d.add("xl_textsink:tmp", sorted(os.listdir(private_tmp)))

class BadSink(object):
  def write(self, data):
    raise Boom("sink %s %s" % (type(data).__name__, data[:2]))
run(d, "xl_badsink", lambda: et.Excel_EAMTabulation(eams["Al"][1], eams["Al"][0], 4.0, 5, 3.0, 4).write(BadSink()))
d.add("xl_badsink:tmp", sorted(os.listdir(private_tmp)))

# a user function failing while the workbook is built: sink untouched
def xl_fail(n):
  rec = Rec()
  pots = [h.Potential("A", "B", h.morse_like), h.Potential("C", "D", FailAfter(h.morse_like, n))]
  try:
    pt.Excel_PairTabulation(pots, 4.0, 6).write(rec)
  except Boom as e:
    return ("Boom", str(e), rec.summary(), sorted(os.listdir(private_tmp)))
  return ("ok", len(rec.chunks))
for n in [0, 3, 5]:
  run(d, "xl_fail:%d" % n, lambda: xl_fail(n))

# ---- 4. through the potable CLI (action_tabulate -> open_fp -> write) ------
for target in ["GULP", "LAMMPS", "DLPOLY"]:
  h.run_potable(d, "cli:%s" % target, h.PAIR_CFG.format(target = target, cutoff = 6.5, nr = 16), preexisting = "old")
h.run_potable(d, "cli:excel", h.PAIR_CFG.format(target = "excel", cutoff = 6.5, nr = 9), outname = "o.xlsx", binary = True, preexisting = "old")
h.run_potable(d, "cli:excel_eam", h.EAM_CFG.format(target = "excel_eam", cutoff = 6.5, nr = 9, nrho = 7), outname = "o.xlsx", binary = True)
h.run_potable(d, "cli:excel_eam_fs", h.EAM_FS_CFG.format(target = "excel_eam_fs", cutoff = 6.5, nr = 9, nrho = 7), outname = "o.xlsx", binary = True)
h.run_potable(d, "cli:setfl", h.EAM_CFG.format(target = "setfl", cutoff = 6.5, nr = 9, nrho = 7))
h.run_potable(d, "cli:adp", h.ADP_CFG.format(cutoff = 6.5, nr = 9, nrho = 7))
for target in ["GULP", "excel", "excel_eam", "setfl"]:
  h.run_potable(d, "cli_fail:%s" % target, h.FAIL_CFG.format(target = target, nr = 12), preexisting = "old content")
h.run_potable(d, "cli:include", h.PAIR_CFG.format(target = "GULP", cutoff = 4.0, nr = 5), extra_args = ["--include-species", "O", "U"])
d.add("final:tmp", sorted(os.listdir(private_tmp)))

shutil.rmtree(scratch, ignore_errors = True)
print("records: %d" % d.n)
print("DIGEST A: %s" % d.hexdigest())

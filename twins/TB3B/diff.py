"""Differential script for twin B: ConfigParser._init_config_parser() (reading, overrides,
removals, additions applied in sequence) and the translation of configparser exceptions
(read errors, interpolation errors in _RawConfigParser.get()).

Prints a deterministic digest of everything observed: resulting configuration contents,
listings, tabulated output hashes, exception type names / messages / chained exception types.
"""
import contextlib
import hashlib
import io
import os
import sys
import tempfile

from atsim.potentials.config import ConfigParser, ConfigParserOverrideTuple, Configuration, FilteredConfigParser
from atsim.potentials.config._config_parser import _RawConfigParser
from atsim.potentials.tools import potable
from atsim.potentials.tools.potable import _query_actions

LOG = []

def log(*args):
  LOG.append(repr(args))

def exc_desc(e):
  return ("EXC", type(e).__name__, [c.__name__ for c in type(e).__mro__], str(e), repr(getattr(e, "args", None)),
    type(e.__context__).__name__, type(e.__cause__).__name__, e.__suppress_context__)

def attempt(label, f, *args, **kwargs):
  try:
    v = f(*args, **kwargs)
  except BaseException as e:
    log(label, exc_desc(e))
    return None
  log(label, "OK", v)
  return v

T = ConfigParserOverrideTuple

class DuckOverride(object):
  """Not a tuple: only has the attributes used by ConfigParser"""
  def __init__(self, section, key, value):
    self.section = section
    self.key = key
    self.value = value

CFG_PAIR = u"""[Variables]
A = 1000.0
rho = 0.3
C = 32.0
form = as.buck

[Tabulation]
target : LAMMPS
cutoff : 6.5
nr : 66

[Species]
O.charge = -2.0
U.charge = 4.0

[Potential-Form]
scaled(r, A, s) = A * s / r
two( r,\tx ) = x * ${Species:U.charge}

[Pair]
O-O = ${form} ${A} ${rho} ${C}
U - O : scaled 3.0 ${Species:O.charge}
U-U = two 2.5

[Extra]
only = one
"""

CFG_EAM = u"""[Variables]
dens = 55.0

[Tabulation]
target : setfl
cutoff_rho : 50.0
nrho : 50
cutoff : 6.0
nr : 60

[Species]
Ag.atomic_mass = 107.8
Ag.lattice_type = fcc

[Pair]
Ag-Ag = as.buck 100.0 0.3 0.0

[EAM-Embed]
Ag = as.sqrt -1.0

[EAM-Density]
Ag = as.polynomial 0.0 ${dens}

[Table-Form:tab one]
interpolation : cubic_spline
x : 0.0 1.0 2.0
y : 3.0 2.0 1.0
"""

CFG_NOVARS = u"""[Tabulation]
target : DL_POLY
cutoff : 5.0
dr : 0.1

[Pair]
Si-O = as.bornmayer 1000.0 0.3
"""

CFG_BADVAR = u"""[Variables]
A = ${B}
B = ${A}

[Tabulation]
target : LAMMPS
cutoff : 2.0
nr : 5

[Pair]
O-O = as.constant ${missing}
U-U = as.constant ${A}
Al-Al = as.constant ${Nope:key}
Fe-Fe = as.constant ${unterminated
"""

BAD_READS = [
  ("dup-option", u"[Pair]\nO-O = as.constant 1\nO - O = as.constant 2\n"),
  ("dup-section", u"[Pair]\nO-O = as.constant 1\n[Pair]\nU-U = as.constant 1\n"),
  ("dup-variables", u"[Variables]\nA = 1\n[Pair]\nO-O = as.zero\n[Variables]\nB = 1\n"),
  ("no-header", u"O-O = as.constant 1\n"),
  ("parse-error", u"[Pair]\nO-O = as.constant 1\nthis is not an assignment\n"),
  ("parse-error2", u"[Pair\nO-O = as.constant 1\n"),
  ("dup-pair", u"[Pair]\nO-U = as.constant 1\nU-O = as.constant 2\n"),
  ("dup-table", u"[Table-Form:a]\nxy = 1 2\n[Table-Form: a]\nxy = 1 2\n"),
  ("bad-pair-key", u"[Pair]\nO = as.constant 1\n"),
  ("empty", u""),
]

SEQUENCES = [
  ("none", [], []),
  ("override-var", [T("Variables", "A", "2000.0")], []),
  ("override-var-ws", [T("Variables", " r h o\t", "0.25")], []),
  ("override-pair", [T("Pair", "U-O", "as.buck 10.0 0.2 0.0")], []),
  ("override-pair-ws", [T("Pair", "U\t-  O", "as.buck 10.0 0.2 ${C}")], []),
  ("override-var-via-pair", [T("Pair", "A", "1.0")], []),
  ("override-missing-key", [T("Pair", "Zr-Zr", "as.zero")], []),
  ("override-missing-section", [T("Nope", "a", "b")], []),
  ("override-none-section", [T(None, "A", "5.0")], []),
  ("override-empty-section", [T("", "A", "5.0")], []),
  ("override-empty-section-missing", [T("", "nope", "5.0")], []),
  ("remove-pair", [T("Pair", "U-U", None)], []),
  ("remove-only-entry", [T("Extra", "only", None)], []),
  ("remove-only-entry-then-override", [T("Extra", "only", None), T("Extra", "only", "again")], []),
  ("remove-then-add", [T("Extra", "only", None)], [T("Extra", "only", "again"), T("Extra", "second", "${A}")]),
  ("remove-twice", [T("Pair", "U-U", None), T("Pair", " U - U ", None)], []),
  ("override-then-remove", [T("Pair", "U-U", "as.zero"), T("Pair", "U-U", None)], []),
  ("remove-then-override", [T("Pair", "U-U", None), T("Pair", "U-U", "as.zero")], []),
  ("remove-var", [T("Variables", "C", None)], []),
  ("remove-all-vars", [T("Variables", "A", None), T("Variables", "rho", None), T("Variables", "C", None), T("Variables", "form", None), T("Variables", "dens", None)], []),
  ("remove-all-pairs", [T("Pair", "O-O", None), T("Pair", "U-O", None), T("Pair", "U-U", None), T("Pair", "Ag-Ag", None), T("Pair", "Si-O", None)], []),
  ("remove-species-used", [T("Species", "O.charge", None)], []),
  ("remove-tabulation", [T("Tabulation", "nr", None)], [T("Tabulation", "dr", "0.5")]),
  ("add-pair", [], [T("Pair", "Zr-Zr", "as.constant ${A}")]),
  ("add-pair-dup", [], [T("Pair", "O-O", "as.zero")]),
  ("add-pair-dup-ws", [], [T("Pair", " O -\tO ", "as.zero")]),
  ("add-pair-reversed", [], [T("Pair", "O-U", "as.zero")]),
  ("add-twice", [], [T("Pair", "Zr-Zr", "as.zero"), T("Pair", "Zr - Zr", "as.zero")]),
  ("add-var", [], [T("Variables", "newvar", "7")]),
  ("add-var-dup", [], [T("Variables", "A", "7")]),
  ("add-var-named-like-pair", [], [T("Variables", "O-O", "7")]),
  ("add-pair-named-like-var", [], [T("Pair", "A", "as.zero")]),
  ("add-new-section", [], [T("Brand New", "k e y", "v"), T("Brand New", "key2", "${A}"), T("Brand New", "key", "dup")]),
  ("add-table-form", [], [T("Table-Form:added", "xy", "0 1 1 2 2 3"), T("Pair", "Zr-O", "added")]),
  ("add-dup-table-form", [], [T("Table-Form: tab one", "xy", "0 1 1 2 2 3")]),
  ("add-none-section", [], [T(None, "zz", "1")]),
  ("add-empty-section", [], [T("", "zz", "1")]),
  ("add-none-section-dup", [], [T(None, "A", "1")]),
  ("override-and-add", [T("Variables", "A", "1.5"), T("Pair", "U-U", None)], [T("Pair", "U-U", "as.constant ${A}"), T("Variables", "B B", "${A}")]),
  ("override-error-after-edit", [T("Variables", "A", "1.5"), T("Nope", "x", "y")], [T("Pair", "Q-Q", "as.zero")]),
  ("override-bad-interp", [T("Pair", "O-O", "as.constant ${nope}")], []),
  ("override-interp-syntax", [T("Pair", "O-O", "as.constant $nope")], []),
  ("override-nonstring", [T("Pair", "O-O", 5)], []),
  ("add-nonstring", [], [T("Pair", "X-X", 5.0)]),
  ("duck", [DuckOverride("Variables", "A", "3.0"), DuckOverride("Pair", "U-U", None)], [DuckOverride("Pair", "Y-Y", "as.constant ${A}")]),
  ("tuples", (T("Variables", "A", "3.0"),), (T("Pair", "Y-Y", "as.constant ${A}"),)),
  ("generators", "GEN", "GEN"),
  ("plain-tuple", [("Variables", "A", "3.0")], []),
]

def dump_raw(raw):
  out = []
  out.append(("sections", raw.sections()))
  out.append(("defaults", list(raw.defaults().items())))
  for s in raw.sections() + [raw.default_section]:
    try:
      opts = raw.options(s)
    except Exception as e:
      out.append((s, exc_desc(e)))
      continue
    for o in opts:
      try:
        out.append((s, o, raw.get(s, o)))
      except Exception as e:
        out.append((s, o, exc_desc(e)))
    try:
      out.append((s, "proxy-items", list(raw[s].items())))
    except Exception as e:
      out.append((s, "proxy-items", exc_desc(e)))
  buf = io.StringIO()
  raw.write(buf)
  out.append(("written", buf.getvalue()))
  return out

def describe(cp):
  res = [("raw", dump_raw(cp.raw_config_parser))]
  for attr in ["parsed_sections", "orphan_sections", "species", "pair", "potential_form", "eam_embed", "eam_density", "eam_density_fs", "table_form", "tabulation"]:
    try:
      res.append((attr, repr(getattr(cp, attr))))
    except Exception as e:
      res.append((attr, exc_desc(e)))
  for f in [_query_actions._list_items, _query_actions._list_item_labels, _query_actions._list_plot_item_labels]:
    try:
      res.append((f.__name__, f(cp)))
    except Exception as e:
      res.append((f.__name__, exc_desc(e)))
  try:
    tabulation = Configuration().read_from_parser(cp)
    out = io.StringIO()
    tabulation.write(out)
    res.append(("tabulated", hashlib.sha256(out.getvalue().encode("utf-8")).hexdigest()))
  except Exception as e:
    res.append(("tabulated", exc_desc(e)))
  return res

def run_sequence(label, text, overrides, additional):
  def run():
    if overrides == "GEN":
      ov = (o for o in [T("Variables", "A", "3.0"), T("Pair", "U-U", None)])
      ad = (o for o in [T("Pair", "Y-Y", "as.constant ${A}")])
      cp = ConfigParser(io.StringIO(text), overrides = ov, additional = ad)
    else:
      cp = ConfigParser(io.StringIO(text), overrides = overrides, additional = additional)
    return describe(cp)
  attempt(label, run)

def run_keyword_variants(text):
  attempt("kw-default", lambda : describe(ConfigParser(io.StringIO(text))))
  attempt("kw-positional", lambda : describe(ConfigParser(io.StringIO(text), [T("Variables", "A", "1.0")], [T("Pair", "W-W", "as.zero")])))
  attempt("kw-only-additional", lambda : describe(ConfigParser(io.StringIO(text), additional = [T("Pair", "W-W", "as.zero")])))
  attempt("kw-lines", lambda : describe(ConfigParser(text.splitlines(True))))
  attempt("kw-not-iterable", lambda : describe(ConfigParser(None)))
  attempt("kw-overrides-none", lambda : describe(ConfigParser(io.StringIO(text), overrides = None)))
  attempt("kw-additional-none", lambda : describe(ConfigParser(io.StringIO(text), additional = None)))
  # the default arguments must not accumulate state between calls
  attempt("kw-default-again", lambda : describe(ConfigParser(io.StringIO(text))))

CLI_RUNS = [
  ["--list-items"],
  ["--list-item-labels"],
  ["--item-value", "Pair:O-O"],
  ["--item-value", "Variables:A"],
  ["--item-value", "Pair:A"],
  ["--item-value", "nocolon"],
  ["-e", "Variables:A=5.0", "--list-items"],
  ["-e", "Variables:A=5.0", "Pair:U-U=as.zero", "-e", "Variables:A=6.0", "--list-items"],
  ["-e", "Variables:A=5.0", "-r", "Variables:A", "--list-items"],
  ["-r", "Pair:U-U", "-e", "Pair:U-U=as.zero", "--list-items"],
  ["-r", "Extra:only", "--list-items"],
  ["-r", "Extra:only", "-a", "Extra:only=back", "--list-items"],
  ["-a", "Pair:Zr-Zr=as.constant ${A}", "--item-value", "Pair:Zr-Zr"],
  ["-a", "Pair:O-O=as.zero", "--list-items"],
  ["-a", "Table-Form:t:xy=0 1 1 2", "--list-items"],
  ["-a", "Variables:Q=1=2", "--item-value", "Variables:Q"],
  ["-e", "Nope:x=1", "--list-items"],
  ["-e", "malformed", "--list-items"],
  ["-e", "malformed=1", "--list-items"],
  ["-r", "malformed", "--list-items"],
  ["-e", "Pair:O-O=as.constant ${nope}", "--list-items"],
  ["-e", "Variables:A=77.0", "-a", "Pair:Zr-Zr=as.constant ${A}", "-r", "Pair:U-U", "OUTFILE"],
  ["OUTFILE"],
  [],
  ["--include-species", "O", "-e", "Variables:A=77.0", "--list-items"],
  ["--exclude-species", "O", "-r", "Pair:U-U", "OUTFILE"],
]

def run_cli(label, text, cli_args, tmpdir):
  cfg_path = os.path.join(tmpdir, "cfg.aspot")
  out_path = os.path.join(tmpdir, "out.table")
  with open(cfg_path, "w") as outfile:
    outfile.write(text)
  if os.path.exists(out_path):
    os.remove(out_path)
  args = [out_path if a == "OUTFILE" else a for a in cli_args]
  if "OUTFILE" in cli_args:
    args.remove(out_path)
    args = [cfg_path, out_path] + args
  else:
    args = [cfg_path] + args
  stdout = io.StringIO()
  stderr = io.StringIO()
  result = None
  try:
    with contextlib.redirect_stdout(stdout), contextlib.redirect_stderr(stderr):
      p, parsed = potable._parse_command_line(args)
      try:
        try:
          potable._do_tabulation(p, parsed)
        except potable.ConfigurationException as e:
          p.error("configuration error - {}".format(e))
      finally:
        parsed.config_file.close()
  except SystemExit as e:
    result = ("exit", e.code)
  except BaseException as e:
    result = exc_desc(e)
  written = None
  if os.path.exists(out_path):
    with open(out_path, "rb") as infile:
      written = hashlib.sha256(infile.read()).hexdigest()
  err = stderr.getvalue().replace(tmpdir, "TMP")
  # argparse usage line contains the program name
  err = "\n".join([l for l in err.splitlines() if not l.startswith("usage:")][-1:])
  log(label, cli_args, result, stdout.getvalue(), err, written)

def raw_get_probe(label, text):
  raw = _RawConfigParser()
  raw.read_file(io.StringIO(text))
  for s in raw.sections() + [raw.default_section, "Nope"]:
    for o in ["O-O", "U-U", "Al-Al", "Fe-Fe", "A", "B", "missing", "rho"]:
      attempt((label, "get", s, o), raw.get, s, o)
      attempt((label, "get-fb", s, o), lambda : raw.get(s, o, fallback = "FB"))
      attempt((label, "proxy", s, o), lambda : raw[s][o])
      attempt((label, "proxy-get", s, o), lambda : raw[s].get(o))
      attempt((label, "proxy-get-fb", s, o), lambda : raw[s].get(o, "FB"))
      attempt((label, "getfloat", s, o), lambda : raw.getfloat(s, o))
      attempt((label, "getfloat-fb", s, o), lambda : raw.getfloat(s, o, fallback = -1.0))
    attempt((label, "items", s), lambda : list(raw.items(s)))

def main():
  texts = [("pair", CFG_PAIR), ("eam", CFG_EAM), ("novars", CFG_NOVARS), ("badvar", CFG_BADVAR)]
  for tlabel, text in texts:
    for slabel, overrides, additional in SEQUENCES:
      run_sequence((tlabel, slabel), text, overrides, additional)
    raw_get_probe(("rawget", tlabel), text)
  for label, text in BAD_READS:
    run_sequence(("badread", label), text, [], [])
    run_sequence(("badread-over", label), text, [T("Pair", "O-O", "as.zero")], [T("Pair", "Q-Q", "as.zero")])
  run_keyword_variants(CFG_PAIR)

  tmpdir = tempfile.mkdtemp()
  try:
    for tlabel, text in texts + BAD_READS[:4]:
      for cli_args in CLI_RUNS:
        run_cli(("cli", tlabel), text, cli_args, tmpdir)
  finally:
    for fn in os.listdir(tmpdir):
      os.remove(os.path.join(tmpdir, fn))
    os.rmdir(tmpdir)

  h = hashlib.sha256()
  for line in LOG:
    h.update(line.encode("utf-8"))
    h.update(b"\n")
  if "--dump" in sys.argv:
    for line in LOG:
      print(line)
  print("entries", len(LOG))
  print("digest", h.hexdigest())

main()

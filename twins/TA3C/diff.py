"""Edit C: digest of existing behaviour (a) and demonstration of the new feature (b).
Usage (from the worktree root):
  /venv/bin/python -W ignore /tmp/wtpy.py /tmp/wt_r10_3 _twins/diffC.py            # digest of existing behaviour + feature demonstration
  /venv/bin/python -W ignore /tmp/wtpy.py /tmp/wt_r10_3 _twins/diffC.py digest     # only the digest (runs on the clean tree too)
"""
# ---------------------------------------------------------------------------
# (a) digest of EXISTING behaviour - must be identical on clean and edited tree
# ---------------------------------------------------------------------------
import hashlib, io, os, sys, tempfile, contextlib, logging, subprocess

logging.disable(logging.CRITICAL)

from atsim.potentials.config import Configuration, ConfigParser, FilteredConfigParser, ConfigParserOverrideTuple
from atsim.potentials.config._common import ConfigurationException
from atsim.potentials.tools.potable import _parse_command_line, _do_tabulation, _make_config_parser
from atsim.potentials.tools.potable import _query_actions

PAIR = u"""[Variables]
rho : 0.32
unused : 77
[Tabulation]
target : {target}
cutoff : 6.0
nr : {nr}
[Species]
Gd.atomic_number : 64
O.atomic_number : 8
[Potential-Form]
mybuck(r, A, rho, C) = A*exp(-r/rho) - C/r^6
shifted(r_ij, A) = mybuck(r_ij, A, 0.3, 2.0) + as.constant(r_ij, 0.25) + pymath.cosh(r_ij)/100
[Table-Form:tab]
interpolation : cubic_spline
x : 0.0 1.0 2.0 3.5 4.0 6.0
y : 5.0 3.0 1.5 0.5 0.1 0.0
[Pair]
O-O : as.buck 500 ${{rho}} 32.0
Gd-O : spline(as.zbl ${{Species:Gd.atomic_number}} ${{Species:O.atomic_number}} >=0.8 exp_spline >=1.4 as.buck 1000.0 ${{rho}} 0.0)
Gd-Gd : >0 shifted 120.0 >=2.5 sum(as.polynomial 1 -0.2 0.01, product(as.constant 2.0, pow(as.constant 1.1, as.polynomial 0 1))) >4 trans(mybuck 50.0 0.4 1.0, as.constant 0.5)
Cu-O : as.buck4 1000.0 0.3 30.0 1.2 2.1 2.6
Cu-Cu : tab
C-Cu : as.morse 1.5 2.0 0.3
C-C : as.lj 0.01 3.2
"""

EAM = u"""[Tabulation]
target : {target}
cutoff : 5.0
nr : 26
cutoff_rho : 20.0
nrho : 21
[Species]
Xx.atomic_number : 200
Xx.atomic_mass : 300.5
Xx.lattice_type : bcc
[Potential-Form]
dens(r, A) = A*exp(-r)
[Pair]
Cu-Al : as.morse 1.2 2.5 0.4
Al-Al : as.buck 800.0 0.3 10.0
Xx-Cu : as.lj 0.02 2.4
[EAM-Embed]
Cu : as.sqrt -1.5
Al : as.polynomial 0 -0.5 0.01
[EAM-Density]
Al : dens 2.0
Xx : dens 3.0
Cu : dens 4.0
C : dens 0.5
Ca : dens 0.25
"""

FS = u"""[Tabulation]
target : {target}
cutoff : 5.0
nr : 26
cutoff_rho : 20.0
nrho : 21
[Potential-Form]
dens(r, A) = A*exp(-r)
[Pair]
Fe-Al : as.morse 1.2 2.5 0.4
Fe-Fe : as.buck 800.0 0.3 10.0
[EAM-Embed]
Fe : as.sqrt -1.5
Al : as.polynomial 0 -0.5 0.01
Cr : as.sqrt -0.7
[EAM-Density]
Al->Fe : dens 2.0
Fe->Al : dens 3.0
Fe->Fe : dens 4.0
Cr->Fe : dens 5.0
Al->Cr : dens 6.0
"""

ADP = EAM.replace("Xx : dens 3.0\n", "").replace("Xx-Cu : as.lj 0.02 2.4\n", "").replace("C : dens 0.5\nCa : dens 0.25\n", "") + u"""[EAM-ADP-Dipole]
Al-Cu : as.buck 1.0 0.5 0.1
[EAM-ADP-Quadrupole]
Cu-Cu : as.exponential 0.2 2
"""

def _write(tab):
  if "excel" in type(tab).__name__.lower():
    return b""
  sio = io.StringIO()
  tab.write(sio)
  return sio.getvalue().encode("utf-8")

def _tabulate(text, overrides = [], additional = [], include = None, exclude = None):
  cp = ConfigParser(io.StringIO(text), overrides = overrides, additional = additional)
  if include is not None:
    cp = FilteredConfigParser(cp, include = include)
  elif exclude is not None:
    cp = FilteredConfigParser(cp, exclude = exclude)
  return _write(Configuration().read_from_parser(cp))

def _outcome(f, *args, **kwargs):
  try:
    v = f(*args, **kwargs)
  except ConfigurationException as e:
    return ("CFGERR:%s:%s" % (type(e).__name__, e)).encode("utf-8")
  except Exception as e:
    return ("OTHERERR:%s:%s" % (type(e).__name__, e)).encode("utf-8")
  if isinstance(v, bytes):
    return v
  return repr(v).encode("utf-8")

def _potable(cfgtext, *cli):
  """Run the potable command line in-process, returns (exit status, stdout, stderr, output file bytes)"""
  d = tempfile.mkdtemp()
  cfgname = os.path.join(d, "in.aspot")
  outname = os.path.join(d, "out.tab")
  with open(cfgname, "w") as f:
    f.write(cfgtext)
  so, se = io.StringIO(), io.StringIO()
  status = None
  with contextlib.redirect_stdout(so), contextlib.redirect_stderr(se):
    try:
      p, args = _parse_command_line([cfgname, outname] + list(cli))
      try:
        _do_tabulation(p, args)
      except ConfigurationException as e:
        p.error("configuration error - {}".format(e))
      finally:
        args.config_file.close()
    except SystemExit as e:
      status = e.code
  out = b""
  if os.path.exists(outname):
    with open(outname, "rb") as f:
      out = f.read()
  err = se.getvalue().replace(d, "TMP").replace(os.path.basename(sys.argv[0]), "PROG")
  return repr((status, so.getvalue(), err[-300:])).encode("utf-8") + out

def existing_behaviour_items():
  items = []
  def add(label, data):
    items.append((label, hashlib.sha256(data).hexdigest()[:16], len(data)))

  OT = ConfigParserOverrideTuple
  for target, nr in [("LAMMPS", 61), ("DLPOLY", 64), ("DL_POLY", 64), ("GULP", 31), ("DLPOLY", 61), ("LAMMPS", 2), ("nonesuch", 10)]:
    add("pair/%s/%d" % (target, nr), _outcome(_tabulate, PAIR.format(target = target, nr = nr)))
  pair = PAIR.format(target = "LAMMPS", nr = 31)
  for kw in [dict(include = ["O", "Gd"]), dict(include = ["C"]), dict(include = ["Cu", "C", "O"]), dict(include = []),
             dict(exclude = ["Cu"]), dict(exclude = ["C"]), dict(exclude = []), dict(exclude = ["Zz", "O"]), dict(include = ["Zz"]),
             dict(include = ("O", "Gd")), dict(exclude = set(["Gd"]))]:
    add("pair/filter/%r" % sorted(kw.items()), _outcome(_tabulate, pair, **kw))
  add("pair/override", _outcome(_tabulate, pair, overrides = [OT("Pair", "O - O", "as.buck 1.0 0.2 3.0"), OT("Pair", "C-C", None), OT("Variables", "rho", "0.4")]))
  add("pair/add", _outcome(_tabulate, pair, additional = [OT("Pair", "Zr-O", "as.bornmayer 100.0 0.3"), OT("Variables", "newvar", "3")]))
  add("pair/add-dup", _outcome(_tabulate, pair, additional = [OT("Pair", "O-O", "as.bornmayer 100.0 0.3")]))
  add("pair/add-dup-rev", _outcome(_tabulate, pair, additional = [OT("Pair", "O-Gd", "as.bornmayer 100.0 0.3")]))
  add("pair/override-missing", _outcome(_tabulate, pair, overrides = [OT("Pair", "O-Zr", "as.zero")]))
  add("pair/override-missing-var", _outcome(_tabulate, pair, overrides = [OT("Variables", "pi", "3")]))
  add("pair/add-var-pi", _outcome(_tabulate, pair, additional = [OT("Variables", "pi", "3")]))

  for target in ["setfl", "lammps_eam_alloy", "DL_POLY_EAM", "excel_eam"]:
    add("eam/%s" % target, _outcome(_tabulate, EAM.format(target = target)))
  eam = EAM.format(target = "setfl")
  for kw in [dict(include = ["Al", "Cu"]), dict(include = ["C"]), dict(exclude = ["C"]), dict(exclude = ["Xx", "Ca"]), dict(include = ["Cu", "Ca", "C"]), dict(include = [])]:
    add("eam/filter/%r" % sorted(kw.items()), _outcome(_tabulate, eam, **kw))
    add("eam/filter-tabeam/%r" % sorted(kw.items()), _outcome(_tabulate, EAM.format(target = "DL_POLY_EAM"), **kw))
  for target in ["setfl_fs", "DL_POLY_EAM_fs", "excel_eam_fs", "setfl"]:
    add("fs/%s" % target, _outcome(_tabulate, FS.format(target = target)))
  fs = FS.format(target = "setfl_fs")
  for kw in [dict(include = ["Al", "Fe"]), dict(exclude = ["Cr"]), dict(exclude = ["Fe"]), dict(include = ["Cr", "Fe"])]:
    add("fs/filter/%r" % sorted(kw.items()), _outcome(_tabulate, fs, **kw))
    add("fs/filter-tabeam/%r" % sorted(kw.items()), _outcome(_tabulate, FS.format(target = "DL_POLY_EAM_fs"), **kw))
  add("adp", _outcome(_tabulate, ADP.format(target = "eam_adp")))

  # Malformed inputs: type and text of the error must not change
  bad = [
    ("dup-key", eam.replace("Cu : dens 4.0", "Cu : dens 4.0\nCu : dens 5.0")),
    ("dup-key-ws", eam.replace("Cu : as.sqrt -1.5", "Cu : as.sqrt -1.5\n Cu  : as.sqrt -2.5")),
    ("dup-fs", fs.replace("Fe->Fe : dens 4.0", "Fe->Fe : dens 4.0\nFe -> Fe : dens 4.5")),
    ("bad-fs-key", fs.replace("Fe->Fe : dens 4.0", "Fe->Fe->Al : dens 4.0")),
    ("bad-pair-key", pair.replace("C-C :", "C-C-C :")),
    ("dup-pair-rev", pair.replace("C-C :", "Cu-C : as.zero\nC-C :")),
    ("unknown-form", pair.replace("as.lj 0.01 3.2", "as.nonesuch 0.01 3.2")),
    ("wrong-nargs", pair.replace("as.lj 0.01 3.2", "as.lj 0.01")),
    ("unknown-modifier", pair.replace("as.lj 0.01 3.2", "frobnicate(as.lj 0.01 3.2)")),
    ("unresolved-var", pair.replace("as.lj 0.01 3.2", "as.lj ${nothere} 3.2")),
    ("unresolved-sect-var", pair.replace("as.lj 0.01 3.2", "as.lj ${Species:nothere} 3.2")),
    ("unresolved-Variables-pi", pair.replace("as.lj 0.01 3.2", "as.lj ${Variables:pi} 3.2")),
    ("bad-syntax-var", pair.replace("as.lj 0.01 3.2", "as.lj $x 3.2")),
    ("not-ini", "hello world\n"),
    ("no-pair", "[Tabulation]\ntarget : LAMMPS\n"),
    ("bad-nr", pair.replace("nr : 31", "nr : abc")),
    ("all-three", pair.replace("nr : 31", "nr : 31\ndr : 0.2")),
    ("missing-mass", eam.replace("Xx.atomic_mass : 300.5\n", "")),
    ("eam-no-density", eam.split("[EAM-Density]")[0]),
    ("bad-table", pair.replace("y : 5.0 3.0", "y : 5.0 abc")),
    ("bad-species-key", eam.replace("Xx.lattice_type : bcc", "Xxlattice_type : bcc")),
  ]
  for label, text in bad:
    add("bad/" + label, _outcome(_tabulate, text))

  # Query actions and raw parser views
  for label, text in [("pair", pair), ("eam", eam), ("fs", fs), ("adp", ADP.format(target = "eam_adp"))]:
    cp = ConfigParser(io.StringIO(text))
    add("list/" + label, repr(_query_actions._list_items(cp)).encode("utf-8"))
    add("sections/" + label, repr((sorted(cp.parsed_sections), cp.orphan_sections, cp.species, cp.tabulation)).encode("utf-8"))
    for attr in ["pair", "eam_embed", "eam_density", "eam_density_fs", "potential_form", "table_form"]:
      add("parsed/%s/%s" % (label, attr), _outcome(lambda: repr(getattr(cp, attr)).encode("utf-8")))
    raw = cp.raw_config_parser
    add("raw/" + label, repr([(s, raw.options(s), [raw.get(s, o) for o in raw.options(s)]) for s in raw.sections()] + [raw.options("Variables"), raw.has_option("Variables", "pi"), raw.has_option("Pair", "rho"), raw.get("Pair", "pi", fallback = "FB")]).encode("utf-8"))

  # Several views of one parser
  cp = ConfigParser(io.StringIO(eam))
  v1 = FilteredConfigParser(cp, include = ["Al", "Cu"])
  v2 = FilteredConfigParser(cp, exclude = ["Al"])
  add("views", repr(([p.species for p in v1.eam_density], [p.species for p in v2.eam_density], [p.species for p in v1.pair], [p.species for p in v2.eam_embed], [p.species for p in v1.eam_embed])).encode("utf-8"))
  add("both-args", _outcome(lambda: FilteredConfigParser(cp, include = ["Al"], exclude = ["Cu"])))

  # potable command line
  add("cli/plain", _potable(pair))
  add("cli/include", _potable(pair, "--include-species", "O", "Gd"))
  add("cli/include-none", _potable(pair, "--include-species"))
  add("cli/exclude", _potable(eam, "--exclude-species", "C", "Ca"))
  add("cli/exclude-fs", _potable(fs, "--exclude-species", "Cr"))
  add("cli/both", _potable(pair, "--include-species", "O", "--exclude-species", "Gd"))
  add("cli/list", _potable(eam, "--list-items"))
  add("cli/list-labels", _potable(fs, "--list-item-labels", "--exclude-species", "Cr"))
  add("cli/item-value", _potable(pair, "--item-value", "Pair:O-O"))
  add("cli/item-value-var", _potable(pair, "--item-value", "Variables:rho"))
  add("cli/item-value-missing", _potable(pair, "--item-value", "Variables:pi"))
  add("cli/override", _potable(pair, "-e", "Tabulation:nr=21", "Pair:C - C=as.zero", "-r", "Pair:Cu-Cu", "-a", "Pair:Zr-Zr=as.lj 0.1 2.0"))
  add("cli/override-bad", _potable(pair, "-e", "Tabulation:nope=21"))
  add("cli/add-dup", _potable(eam, "-a", "EAM-Embed:Cu=as.zero"))
  add("cli/cfgerr", _potable(pair.replace("as.lj 0.01 3.2", "as.lj 0.01")))
  return items

def existing_behaviour_digest():
  items = existing_behaviour_items()
  h = hashlib.sha256()
  for label, digest, n in items:
    h.update(("%s %s %d\n" % (label, digest, n)).encode("utf-8"))
  return h.hexdigest(), items

# ---------------------------------------------------------------------------
# (b) the new feature: built-in constants ${pi}, ${ke}, ${kB} that the file can override
# ---------------------------------------------------------------------------
TPL_PAIR = u"""[Tabulation]
target : {target}
cutoff : ${{pi}}
nr : {nr}
[Species]
Gd.charge : ${{ke}}
O.charge : -${{pi}}
[Potential-Form]
mycoul(r, qi, qj) = ${{ke}}*qi*qj/r
boltz(r, T) = exp(-r/(${{kB}}*T)) + pymath.cos(${{pi}}*r)
viaspecies(r) = ${{Species:Gd.charge}}/r
[Table-Form:tab]
x : 0.0 1.0 ${{pi}} 6.0
y : 5.0 ${{ke}} 1.5 ${{kB}}
[Pair]
O-O : mycoul -2 -2
Gd-O : sum(as.coul 3 -2, boltz 12000)
Gd-Gd : >0 as.buck 1000 0.3 ${{ke}} >=${{pi}} as.constant ${{kB}}
Cu-Cu : tab
Cu-O : viaspecies
"""

TPL_EAM = u"""[Tabulation]
target : {target}
cutoff : 5.0
nr : 26
cutoff_rho : ${{ke}}
nrho : 21
[Species]
Xx.atomic_number : 200
Xx.atomic_mass : ${{ke}}
Xx.lattice_constant : ${{pi}}
[Pair]
Cu-Al : as.morse 1.2 ${{pi}} 0.4
[EAM-Embed]
Cu : as.sqrt -${{pi}}
Al : as.polynomial 0 -0.5 ${{kB}}
Xx : as.sqrt -1
[EAM-Density]
Al : as.exponential ${{ke}} -2
Xx : as.bornmayer ${{pi}} 0.5
Cu : as.bornmayer 3.0 0.5
"""
TPL_FS = TPL_EAM.replace("Al : as.exponential", "Al->Cu : as.exponential").replace("Xx : as.bornmayer", "Cu->Al : as.bornmayer").replace("Cu : as.bornmayer 3.0", "Xx->Xx : as.bornmayer ${{ke}}")
TPL_ADP = TPL_EAM + u"[EAM-ADP-Dipole]\nAl-Cu : as.buck 1.0 0.5 ${{kB}}\n[EAM-ADP-Quadrupole]\nCu-Cu : as.exponential ${{pi}} 2\n"

def _subst(text, values):
  """Substitute the place-holders by hand"""
  for k, v in values.items():
    text = text.replace("${%s}" % k, v)
  return text

def feature_demo():
  from atsim.potentials.config._config_parser import BUILTIN_CONSTANTS
  import atsim.potentials.potentialforms as pf
  ok = True
  def check(label, cond):
    nonlocal ok
    print("  %-86s %s" % (label, "ok" if cond else "FAILED"))
    ok = ok and cond
  h = hashlib.sha256()
  OT = ConfigParserOverrideTuple
  documented = {"pi" : "3.141592653589793", "ke" : "14.3995135252511", "kB" : "8.617333262e-05"}
  snapshot = dict(BUILTIN_CONSTANTS)
  check("constants are the documented strings %r" % snapshot, snapshot == documented)
  import math
  check("pi is math.pi, ke is the constant of as.coul", float(documented["pi"]) == math.pi and abs(float(documented["ke"])*6/1.7 - pf.coul(3, 2)(1.7)) < 1e-12)

  print("C15: templated file == hand-substituted file, every section and target")
  templates = [(TPL_PAIR.format(target = t, nr = n), "pair/" + t) for t, n in [("LAMMPS", 41), ("DLPOLY", 44), ("GULP", 21)]]
  templates += [(TPL_EAM.format(target = t), "eam/" + t) for t in ["setfl", "DL_POLY_EAM"]]
  templates += [(TPL_FS.format(target = t), "fs/" + t) for t in ["setfl_fs", "DL_POLY_EAM_fs"]]
  templates += [(TPL_ADP.format(target = "eam_adp"), "adp/eam_adp")]
  for text, label in templates:
    a = _outcome(_tabulate, text)
    b = _outcome(_tabulate, _subst(text, documented))
    h.update(a)
    check("%s: built-in values (%d bytes)" % (label, len(a)), a == b and not a.startswith((b"CFGERR", b"OTHERERR")))
    # the file always wins
    mine = {"pi" : "3.0", "ke" : "14.4", "kB" : "1e-4"}
    for names in [["pi"], ["ke", "kB"], ["pi", "ke", "kB"]]:
      varsection = u"[Variables]\n" + "".join("%s : %s\n" % (n, mine[n]) for n in names)
      values = dict(documented); values.update((n, mine[n]) for n in names)
      a2 = _outcome(_tabulate, varsection + text)
      b2 = _outcome(_tabulate, _subst(text, values))
      a3 = _outcome(_tabulate, text + varsection)
      a4 = _outcome(_tabulate, text, additional = [OT("Variables", n, mine[n]) for n in names])
      h.update(a2)
      check("%s: [Variables] defines %s -> file wins" % (label, ",".join(names)), a2 == b2 and a3 == b2 and a4 == b2 and a2 != a and not a2.startswith((b"CFGERR", b"OTHERERR")))
  ptext = TPL_PAIR.format(target = "LAMMPS", nr = 41)
  cp = ConfigParser(io.StringIO(ptext))
  check("cutoff = ${pi} -> %r" % cp.tabulation.cutoff, cp.tabulation.cutoff == math.pi)
  check("[Species] %r" % cp.species, cp.species == {"Gd" : {"charge" : float(documented["ke"])}, "O" : {"charge" : -math.pi}})
  check("[Table-Form] x %r" % cp.table_form[0].x, cp.table_form[0].x == [0.0, 1.0, math.pi, 6.0])
  tab = Configuration().read(io.StringIO(ptext))
  pots = dict(((p.speciesA, p.speciesB), p) for p in tab.potentials)
  check("custom ${ke}*qi*qj/r agrees with as.coul", all(abs(pots[("O","O")].energy(r) - pf.coul(-2, -2)(r)) < 1e-12 for r in [0.5, 1.0, 2.5]))
  check("${Species:Gd.charge} whose value is ${ke}", abs(pots[("Cu","O")].energy(2.0) - float(documented["ke"])/2.0) < 1e-15)

  print("precedence: section's own entry, then [Variables], then the built-in value; variables defined through constants")
  t = u"[Variables]\ntwoke : 2*${ke}\n[Tabulation]\ntarget : LAMMPS\nnr : 5\ncutoff : 2.0\n[Potential-Form]\nf(r) = ${twoke}/r\n[Pair]\nA-A : f\n"
  a = _outcome(_tabulate, t); b = _outcome(_tabulate, t.replace("${ke}", documented["ke"]))
  c = _outcome(_tabulate, t.replace("[Variables]\n", "[Variables]\nke : 1.5\n")); d = _outcome(_tabulate, t.replace("${ke}", "1.5"))
  check("variable defined with ${ke}", a == b and c == d and a != c and not a.startswith(b"CFGERR"))
  t = u"[Variables]\nx : 1\n[Tabulation]\ntarget : LAMMPS\nnr : 5\ncutoff : 2.0\n[Extra]\npi : 4.0\nv : ${pi}\n[Pair]\nA-A : as.constant ${Extra:v}\nB-B : as.constant ${pi}\n"
  a = _outcome(_tabulate, t); b = _outcome(_tabulate, t.replace("as.constant ${Extra:v}", "as.constant 4.0").replace("as.constant ${pi}", "as.constant " + documented["pi"]))
  check("an entry named pi in another section only applies inside that section", a == b and not a.startswith(b"CFGERR"))

  print("C14: the constants are not items of the file")
  raw = cp.raw_config_parser
  check("has_option/options/defaults do not see them", not raw.has_option("Variables", "pi") and not raw.has_option("Pair", "ke") and raw.options("Variables") == [] and not raw.defaults() and "pi" not in raw["Variables"] and "pi" not in raw["Pair"])
  keys = [k for k, v in _query_actions._list_items(cp)]
  check("--list-items reports file items only, once, with substituted values", len(keys) == len(set(keys)) and not [k for k in keys if k.startswith("Variables")] and dict(_query_actions._list_items(cp))["Tabulation:cutoff"] == documented["pi"])
  for label, kw in [("--override-item Variables:pi=3", dict(overrides = [OT("Variables", "pi", "3")])), ("--remove-item Variables:ke", dict(overrides = [OT("Variables", "ke", None)])), ("--override-item Pair:kB=3", dict(overrides = [OT("Pair", "kB", "3")]))]:
    r = _outcome(_tabulate, ptext, **kw)
    check("%s: %s" % (label, r[:60].decode()), r.startswith(b"CFGERR:ConfigOverrideException"))
  r = _outcome(lambda: _query_actions._item_value(cp, "Variables:pi"))
  check("--item-value Variables:pi: %s" % r[:70].decode(), r.startswith(b"CFGERR:ConfigurationException"))
  r = _outcome(_tabulate, "[Variables]\npi : 3\n" + ptext, additional = [OT("Variables", "pi", "3.1")])
  check("--add-item Variables:pi when the file defines pi: %s" % r[:50].decode(), r.startswith(b"CFGERR:ConfigOverrideDuplicateException"))
  a = _outcome(_tabulate, "[Variables]\npi : 3\n" + ptext, overrides = [OT("Variables", "pi", None)])
  check("--remove-item of the file's pi gives the built-in value back", a == _outcome(_tabulate, ptext))
  a = _potable(ptext, "-a", "Variables:kB=1e-4"); b = _potable(_subst(ptext, dict(documented, kB = "1e-4")))
  check("potable --add-item Variables:kB=1e-4 == hand-substituted file", a == b and a.startswith(b"(0,"))

  print("C16: unknown names are still configuration errors (names are case sensitive)")
  for ph in ["${PI}", "${Pi}", "${kb}", "${KE}", "${k}", "${e}", "${Variables:pi}", "${Variables:ke}", "${Pair:pi}", "${pi", "$pi", "${pi:ke:kB}"]:
    r = _outcome(_tabulate, ptext.replace("cutoff : ${pi}", "cutoff : " + ph))
    check("cutoff : %-16s %s" % (ph, r[:76].decode().replace("\n", " ")), r.startswith(b"CFGERR:ConfigParserException"))
  r = _outcome(_tabulate, "[Variables]\npi : ${pi}\n" + ptext)
  check("pi defined through itself: %s" % r[:60].decode(), r.startswith(b"CFGERR:ConfigParserException"))
  a = _potable(ptext.replace("cutoff : ${pi}", "cutoff : ${Pi}"))
  check("potable: configuration error, empty output", a.startswith(b"(2,") and b"configuration error - " in a and a.endswith(b")"))

  print("C12: no state is kept: files that (re)define the constants do not affect later files")
  first = _outcome(_tabulate, ptext)
  _outcome(_tabulate, "[Variables]\npi : 3\nke : 1\nkB : 2\n" + ptext)
  _outcome(_tabulate, ptext, additional = [OT("Variables", "pi", "3")])
  check("same bytes before and after", first == _outcome(_tabulate, ptext) and dict(BUILTIN_CONSTANTS) == snapshot)
  tab = Configuration().read(io.StringIO(ptext))
  check("same bytes when written twice", _write(tab) == _write(tab) == first)
  print("  feature output digest:", h.hexdigest())
  return ok, h.hexdigest()

if __name__ == "__main__":
  if len(sys.argv) > 1 and sys.argv[1] == "feature-digest":
    with contextlib.redirect_stdout(io.StringIO()):
      ok, h = feature_demo()
    print(h if ok else "FAILED")
    sys.exit(0)
  digest, items = existing_behaviour_digest()
  if not (len(sys.argv) > 1 and sys.argv[1] == "digest"):
    for item in items:
      print("%-60s %s %6d" % item)
  print("EXISTING-BEHAVIOUR DIGEST:", digest)
  if len(sys.argv) > 1 and sys.argv[1] == "digest":
    sys.exit(0)
  ok, h = feature_demo()
  # hash seed independence: feature output digest in fresh processes
  seeds = []
  for seed in ["0", "1", "12345"]:
    env = dict(os.environ, PYTHONHASHSEED = seed)
    o = subprocess.check_output([sys.executable, "-W", "ignore", "/tmp/wtpy.py", os.getcwd(), os.path.join("_twins", os.path.basename(__file__)), "feature-digest"], env = env)
    seeds.append(o.decode().strip().splitlines()[-1])
  print("  PYTHONHASHSEED 0/1/12345 feature digests: %s" % seeds)
  ok = ok and all(s == h for s in seeds)
  print("FEATURE CHECKS:", "ALL OK" if ok else "SOME FAILED")
  sys.exit(0 if ok else 1)

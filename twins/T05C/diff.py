"""Differential script for twin C (atsim/potentials/_modifiers.py: reduce helper, spline factories, spline(), trans()).

Prints a sha256 digest over repr() of every result / exception produced, including DEBUG log
records emitted by the atsim.potentials._modifiers loggers."""
import hashlib, io, logging, re, sys

# NB: atsim.potentials.config has to be imported before _modifiers (circular import in the package).
from atsim.potentials.config import Configuration
from atsim.potentials import _modifiers
from atsim.potentials.config._common import (PotentialModifierTuple, MultiRangeDefinitionTuple,
  PotentialFormInstanceTuple, ConfigurationException)
from atsim.potentials.config._potential_form_builder import Potential_Form_Builder
from atsim.potentials.config._potential_form_registry import Potential_Form_Registry
from atsim.potentials.config._config_parser import ConfigParser
from atsim.potentials.config._modifier_registry import Modifier_Registry

LOG = []
HEX = re.compile(r"0x[0-9a-fA-F]+")

class Capture(logging.Handler):
  def emit(self, record):
    LOG.append("LOG %s %s %s" % (record.name, record.levelname, HEX.sub("0x?", record.getMessage())))

mlog = logging.getLogger("atsim.potentials._modifiers")
mlog.setLevel(logging.DEBUG)
mlog.addHandler(Capture())
mlog.propagate = False

def rec(label, thunk):
  LOG.append("BEGIN " + label)
  try:
    v = thunk()
    LOG.append("%s = %s" % (label, HEX.sub("0x?", repr(v))))
  except Exception as e:
    ctx = type(e.__context__).__name__ if e.__context__ is not None else None
    LOG.append("%s ! %s: %s [context %s]" % (label, type(e).__name__, HEX.sub("0x?", str(e)), ctx))

GRID = [0.05, 0.5, 0.8, 1.0, 1.2, 1.4, 1.75, 2.0, 2.6, 3.0, 7.5]

def sample(f):
  res = [type(f).__name__, getattr(f, "__name__", None), hasattr(f, "deriv"), hasattr(f, "deriv2")]
  funcs = [f]
  if hasattr(f, "deriv"):
    funcs.append(f.deriv)
    res.append(getattr(f.deriv, "__name__", None))
  if hasattr(f, "deriv2"):
    funcs.append(f.deriv2)
    res.append(getattr(f.deriv2, "__name__", None))
  for r in GRID:
    for g in funcs:
      try:
        res.append(g(r))
      except Exception as e:
        res.append(type(e).__name__)
  return res

def builder():
  pfr = Potential_Form_Registry(ConfigParser(io.StringIO(u"""[Potential-Form]
pyf(r, a) = a * r^2 + 1
""")), True)
  return Potential_Form_Builder(pfr, Modifier_Registry())

MR = MultiRangeDefinitionTuple
def pf(form, params, start = (">", 0.0), next = None):
  return PotentialFormInstanceTuple(potential_form = form, parameters = params, start = MR(*start), next = next)
def pm(mod, forms, start = (">", 0.0), next = None):
  return PotentialModifierTuple(modifier = mod, potential_forms = forms, start = MR(*start), next = next)

rec("registry", lambda: sorted(Modifier_Registry()._modifiers))
rec("is_modifier", lambda: sorted(n for n in dir(_modifiers) if _modifiers.is_modifier(getattr(_modifiers, n))))
rec("factory keywords", lambda: (_modifiers._Exp_Spline_Factory.spline_keyword, _modifiers._Buck4_Spline_Factory.spline_keyword))

# --- sum / product / pow through the reduce helper
buck = pf("as.buck", [1000.0, 0.3, 32.0])
coul = pf("as.coul", [2.0, -1.0])
const = pf("as.constant", [2.0])
poly = pf("as.polynomial", [3.0, 2.0, -0.5])
pyf = pf("pyf", [0.25])
bad = pf("as.nosuchform", [1.0])
badargs = pf("as.buck", [1.0])

for mod in ("sum", "product", "pow"):
  for name, forms in [
      ("one", [buck]), ("two", [buck, coul]), ("three", [poly, const, coul]),
      ("pyf", [pyf, const]), ("nested", [pm("sum", [buck, coul]), const]),
      ("empty", []), ("badfirst", [bad, buck]), ("badlast", [buck, coul, bad]), ("badargs", [buck, badargs]),
      ("multirange", [pf("as.buck", [1000.0, 0.3, 32.0], next = pf("as.constant", [1.0], (">=", 2.0))), const]),
      ("notuple", [None]), ("noniter", None)]:
    rec("%s.%s" % (mod, name), lambda: sample(builder().create_potential_function(pm(mod, forms))))
    rec("%s.%s.direct" % (mod, name), lambda: sample(getattr(_modifiers, mod)(forms, builder())))

# --- spline factories directly
from atsim.potentials.spline import Spline_Point
from atsim.potentials import potentialforms
dp = Spline_Point(potentialforms.bornmayer(1822.0, 0.3), 1.2)
ap = Spline_Point(potentialforms.buck(0.0, 1.0, 27.0), 2.5)
for name, defn in [("noparams", pf("x", [])), ("one", pf("x", [2.0])), ("two", pf("x", [2.0, 3.0])),
                   ("low", pf("x", [1.2])), ("high", pf("x", [2.5])), ("nan", pf("x", [float("nan")])),
                   ("str", pf("x", ["2.0"])), ("noneparams", pf("x", None)), ("none", None)]:
  rec("expfactory."+name, lambda: tuple(_modifiers._Exp_Spline_Factory().build_spline(dp, ap, defn).spline_coefficients))
  rec("b4factory."+name, lambda: tuple(_modifiers._Buck4_Spline_Factory().build_spline(dp, ap, defn).spline_coefficients))

# --- spline()
def chain(first, mid, last, extra = None):
  last = last._replace(next = extra)
  mid = mid._replace(next = last)
  return first._replace(next = mid)

zbl = pf("as.zbl", [14, 8])
bm = pf("as.bornmayer", [1822.0, 0.3])
SPL = [
  ("exp_ok", [chain(zbl, pf("exp_spline", [], (">=", 0.8)), pf("as.buck", [18003.7572, 0.2052, 133.5381], (">", 1.4)))]),
  ("exp_params", [chain(zbl, pf("exp_spline", [1.0], (">=", 0.8)), pf("as.buck", [18003.7572, 0.2052, 133.5381], (">", 1.4)))]),
  ("b4_ok", [chain(bm, pf("buck4_spline", [2.0], (">=", 1.2)), pf("as.buck", [0.0, 1.0, 27.0], (">=", 2.5)))]),
  ("b4_noparam", [chain(bm, pf("buck4_spline", [], (">=", 1.2)), pf("as.buck", [0.0, 1.0, 27.0], (">=", 2.5)))]),
  ("b4_twoparam", [chain(bm, pf("buck4_spline", [2.0, 2.1], (">=", 1.2)), pf("as.buck", [0.0, 1.0, 27.0], (">=", 2.5)))]),
  ("b4_rmin_out", [chain(bm, pf("buck4_spline", [3.0], (">=", 1.2)), pf("as.buck", [0.0, 1.0, 27.0], (">=", 2.5)))]),
  ("b4_rmin_edge", [chain(bm, pf("buck4_spline", [1.2], (">=", 1.2)), pf("as.buck", [0.0, 1.0, 27.0], (">=", 2.5)))]),
  ("bad_type", [chain(zbl, pf("bad_spline", [], (">=", 0.8)), pf("as.buck", [1.0, 0.2, 3.0], (">", 1.4)))]),
  ("bad_type_two_only", [zbl._replace(next = pf("as.buck", [1.0, 0.2, 3.0], (">=", 0.8)))]),
  ("mid_is_modifier", [chain(zbl, pm("sum", [buck, coul], (">=", 0.8)), pf("as.buck", [1.0, 0.2, 3.0], (">", 1.4)))]),
  ("mid_is_modifier_two_only", [zbl._replace(next = pm("product", [buck], (">=", 0.8)))]),
  ("one_only", [zbl]),
  ("two_only", [zbl._replace(next = pf("exp_spline", [], (">=", 0.8)))]),
  ("two_only_b4", [zbl._replace(next = pf("buck4_spline", [1.0], (">=", 0.8)))]),
  ("four", [chain(zbl, pf("exp_spline", [], (">=", 0.8)), pf("as.buck", [1.0, 0.2, 3.0], (">", 1.4)), pf("as.constant", [1.0], (">", 3.0)))]),
  ("four_badtype", [chain(zbl, pf("nope", [], (">=", 0.8)), pf("as.buck", [1.0, 0.2, 3.0], (">", 1.4)), pf("as.constant", [1.0], (">", 3.0)))]),
  ("range12", [chain(pf("as.zbl", [14, 8], (">", 0.9)), pf("exp_spline", [], (">=", 0.8)), pf("as.buck", [1.0, 0.2, 3.0], (">", 1.4)))]),
  ("range12eq", [chain(pf("as.zbl", [14, 8], (">", 0.8)), pf("exp_spline", [], (">=", 0.8)), pf("as.buck", [1.0, 0.2, 3.0], (">", 1.4)))]),
  ("range23", [chain(zbl, pf("exp_spline", [], (">=", 1.5)), pf("as.buck", [1.0, 0.2, 3.0], (">", 1.4)))]),
  ("range23eq", [chain(zbl, pf("buck4_spline", [1.45], (">=", 1.4)), pf("as.buck", [1.0, 0.2, 3.0], (">", 1.4)))]),
  ("range_nan", [chain(zbl, pf("exp_spline", [], (">=", float("nan"))), pf("as.buck", [1.0, 0.2, 3.0], (">", 1.4)))]),
  ("two_args", [zbl, zbl]),
  ("no_args", []),
  ("none_arg", [None]),
  ("ends_are_modifiers", [chain(pm("sum", [zbl, const]), pf("exp_spline", [], (">=", 0.8)), pm("product", [buck, const], (">", 1.4)))]),
  ("ends_pyf", [chain(pyf, pf("buck4_spline", [1.5], (">=", 1.0)), pf("pyf", [0.1], (">=", 2.0)))]),
  ("bad_start_form", [chain(bad, pf("exp_spline", [], (">=", 0.8)), pf("as.buck", [1.0, 0.2, 3.0], (">", 1.4)))]),
  ("bad_end_form", [chain(zbl, pf("exp_spline", [], (">=", 0.8)), pf("as.nosuch", [1.0, 0.2, 3.0], (">", 1.4)))]),
  ("singular", [chain(pf("as.zero", []), pf("exp_spline", [], (">=", 0.8)), pf("as.zero", [], (">", 1.4)))]),
]
for name, forms in SPL:
  rec("spline."+name, lambda: sample(builder().create_potential_function(pm("spline", forms))))
  def run():
    f = _modifiers.spline(forms, builder())
    return sample(f), tuple(f.splineCoefficients), f.detachmentX, f.attachmentX, type(f.interpolationFunction).__name__
  rec("spline.%s.direct" % name, run)

# --- spline() when the numerical package needed by the spline classes can't be imported
def without_numpy(forms):
  saved = sys.modules.get("numpy")
  sys.modules["numpy"] = None
  try:
    return type(_modifiers.spline(forms, builder())).__name__
  finally:
    sys.modules["numpy"] = saved
rec("spline.exp_ok.nonumpy", lambda: without_numpy(dict(SPL)["exp_ok"]))
rec("spline.b4_ok.nonumpy", lambda: without_numpy(dict(SPL)["b4_ok"]))
rec("spline.b4_noparam.nonumpy", lambda: without_numpy(dict(SPL)["b4_noparam"]))

# --- trans()
TRANS = [
  ("ok", [buck, pf("as.constant", [1.0])]),
  ("ok_neg", [poly, pf("as.constant", [-2.0])]),
  ("ok_pyf", [pyf, pf("as.constant", [0.5])]),
  ("ok_nested", [pm("pow", [poly, const]), pf("as.constant", [-2.0])]),
  ("one_arg", [buck]), ("three_args", [buck, const, const]), ("no_args", []),
  ("second_not_const", [buck, coul]),
  ("second_is_modifier", [buck, pm("sum", [const, const])]),
  ("const_no_param", [buck, pf("as.constant", [])]),
  ("const_two_param", [buck, pf("as.constant", [1.0, 2.0])]),
  ("bad_first", [bad, const]),
  ("second_none", [buck, None]),
]
for name, forms in TRANS:
  rec("trans."+name, lambda: sample(builder().create_potential_function(pm("trans", forms))))
  rec("trans.%s.direct" % name, lambda: sample(_modifiers.trans(forms, builder())))

# --- through Configuration and the writers
CFGS = {
"lammps" : u"""[Tabulation]
target : LAMMPS
cutoff : 6.0
nr : 300

[Potential-Form]
bks(r, qi, qj, A, rho, C) = as.coul(r, qi,qj) + as.buck(r, A, rho, C)

[Pair]
Si-O = spline(as.zbl 14 8 >=0.8 exp_spline >=1.4 bks 2.4 -1.2 18003.7572 0.2052048149 133.5381)
O-O = sum(as.buck 1388.7730 0.3623188 175.0, as.coul -1.2 -1.2, trans(as.buck 1000.0 0.1 0, as.constant 1.0))
Si-Si = product(as.coul 2.4 2.4, pow(as.polynomial 1.0 0.5, as.constant 2))
""",
"dlpoly" : u"""[Tabulation]
target : DL_POLY
cutoff : 8.0
nr : 200

[Pair]
O-O = spline(as.bornmayer 11272.6 0.1363 >=1.2 buck4_spline 2.1 >=2.6 as.buck 0 1.0 134.0)
U-O = sum(as.constant 0.5, spline(>0 as.bornmayer 1000 0.3 >=1.0 exp_spline >=2.0 as.buck 0 1.0 20.0))
U-U = trans(pow(as.polynomial 3.0 2.0, as.constant 2), as.constant -2.0)
""",
"gulp" : u"""[Tabulation]
target : GULP
cutoff : 5.0
dr : 0.05

[Potential-Form]
pyf(r, a) = a * r^2 + 1

[Pair]
B-A = spline(pyf 2.0 >=1.0 exp_spline >=2.0 pyf 0.5)
A-A = spline(sum(as.zbl 10 10, as.constant 1) >=0.6 buck4_spline 1.0 >=1.5 product(pyf 0.1, as.constant 2))
""",
"err_type" : u"""[Pair]
A-B = spline(as.zbl 14 8 >=0.8 cubic_spline >=1.4 as.buck 1000 0.2 1)
""",
"err_mid_mod" : u"""[Pair]
A-B = spline(as.zbl 14 8 >=0.8 sum(as.constant 1, as.constant 2) >=1.4 as.buck 1000 0.2 1)
""",
"err_two" : u"""[Pair]
A-B = spline(as.zbl 14 8 >=0.8 exp_spline)
""",
"err_four" : u"""[Pair]
A-B = spline(as.zbl 14 8 >=0.8 exp_spline >=1.4 as.buck 1000 0.2 1 >=3.0 as.zero)
""",
"err_rmin" : u"""[Pair]
A-B = spline(as.zbl 14 8 >=0.8 buck4_spline 5.0 >=1.4 as.buck 1000 0.2 1)
""",
"err_expparam" : u"""[Pair]
A-B = spline(as.zbl 14 8 >=0.8 exp_spline 1.0 >=1.4 as.buck 1000 0.2 1)
""",
"err_spline_args" : u"""[Pair]
A-B = spline(as.zbl 14 8, as.zbl 1 1)
""",
"err_trans" : u"""[Pair]
A-B = trans(as.zbl 14 8, as.buck 1 1 1)
""",
"err_trans_n" : u"""[Pair]
A-B = trans(as.zbl 14 8)
""",
"err_trans_mod" : u"""[Pair]
A-B = trans(as.zbl 14 8, sum(as.constant 1, as.constant 2))
""",
"err_range" : u"""[Pair]
A-B = spline(>1 as.zbl 14 8 >=0.8 exp_spline >=1.4 as.buck 1000 0.2 1)
""",
}
for name in sorted(CFGS):
  def run():
    tab = Configuration().read(io.StringIO(CFGS[name]))
    out = io.StringIO()
    tab.write(out)
    vals = [(p.speciesA, p.speciesB, sample(p.potentialFunction)) for p in tab.potentials]
    return hashlib.sha256(out.getvalue().encode("utf8")).hexdigest(), len(out.getvalue()), vals
  rec("cfg."+name, run)

text = "\n".join(LOG)
if "-v" in sys.argv:
  print(text)
print("records:", len(LOG))
print("sha256:", hashlib.sha256(text.encode("utf8")).hexdigest())

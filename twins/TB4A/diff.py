"""Differential script for twin A ([Tabulation] nr/dr/cutoff decision in _config_parser.py).

Run with:  /venv/bin/python -W ignore /tmp/wtpy.py /tmp/wt_r11_4 _twins/diffA.py
Prints a sha256 digest over every observable result (cp.tabulation values, exception type names
and messages, log records, bytes written by every target).
"""
import hashlib
import io
import itertools
import logging

from atsim.potentials.config import Configuration, ConfigParser

RECORDS = []


class _Capture(logging.Handler):
  def emit(self, record):
    RECORDS.append("LOG {} {} {}".format(record.name, record.levelname, record.getMessage()))


root = logging.getLogger()
root.handlers[:] = [_Capture()]
root.setLevel(logging.INFO)

PAIR_MODEL = u"""
[Pair]
O-O = as.buck 1633.0 0.327 3.95
Mg-O = as.buck 2457.0 0.261 0.0
Al-Mg = as.bornmayer 1000.0 0.3
"""

EAM_MODEL = u"""
[Species]
A.atomic_mass = 1
A.atomic_number = 1
B.atomic_mass = 2
B.atomic_number = 2

[EAM-Embed]
A = as.polynomial 0 1
B = as.sqrt -0.25

[EAM-Density]
A = as.polynomial 0 2
B = as.polynomial 0 3 0.5

[Pair]
A-A = as.buck 500.0 0.3 1.0
B-A = as.bornmayer 200.0 0.25
"""

VALUES_N = [None, "0", "1", "2", "3", "8", "12", "-4", "x", "2.5"]
VALUES_D = [None, "0.1", "0.25", "0", "-0.5", "1e-3", "abc", "nan", "inf"]
VALUES_C = [None, "0.7", "5.0", "0", "-2", "1.0", "6.5", "q", "nan", "inf"]


def tab_section(target, **kv):
  lines = [u"[Tabulation]"]
  if target is not None:
    lines.append(u"target : {}".format(target))
  for k in sorted(kv):
    if kv[k] is not None:
      lines.append(u"{} : {}".format(k, kv[k]))
  return u"\n".join(lines) + u"\n"


def outcome(func):
  try:
    return "OK " + func()
  except Exception as e:  # noqa
    return "EXC {} {}".format(type(e).__name__, e)


def parse_only(text):
  cp = ConfigParser(io.StringIO(text))
  t = cp.tabulation
  return repr((t.target, t.cutoff, t.nr, t.cutoff_rho, t.nrho, repr(t),
               type(t.nr).__name__, type(t.cutoff).__name__, type(t.nrho).__name__, type(t.cutoff_rho).__name__))


def tabulate(text):
  tabulation = Configuration().read(io.StringIO(text))
  out = io.StringIO()
  tabulation.write(out)
  bits = [type(tabulation).__name__, repr(tabulation.nr), repr(tabulation.cutoff), repr(tabulation.dr)]
  if hasattr(tabulation, "nrho"):
    bits.extend([repr(tabulation.nrho), repr(tabulation.cutoff_rho), repr(tabulation.drho)])
  data = out.getvalue()
  bits.append(str(len(data.splitlines())))
  bits.append(hashlib.sha256(data.encode("utf-8")).hexdigest())
  return " ".join(bits)


def main():
  # 1. Every nr/dr/cutoff combination for the r grid (parse only), including malformed values.
  for nr, dr, cutoff in itertools.product(VALUES_N, VALUES_D, VALUES_C):
    text = tab_section("LAMMPS", nr=nr, dr=dr, cutoff=cutoff) + PAIR_MODEL
    RECORDS.append("R {!r} {!r} {!r} -> {}".format(nr, dr, cutoff, outcome(lambda: parse_only(text))))

  # 2. Same for the density grid; the r grid is given a fixed valid value.
  for nrho, drho, cutoff_rho in itertools.product(VALUES_N, VALUES_D, VALUES_C):
    text = tab_section("setfl", nr="6", cutoff="3.0", nrho=nrho, drho=drho, cutoff_rho=cutoff_rho) + EAM_MODEL
    RECORDS.append("RHO {!r} {!r} {!r} -> {}".format(nrho, drho, cutoff_rho, outcome(lambda: parse_only(text))))

  # 3. Both grids bad at once (which message wins), section missing, section empty, synonyms.
  for kv in [dict(nr="0", nrho="0"), dict(dr="0.1", drho="0.1"), dict(nr="5", dr="0.1", cutoff="1", nrho="1"),
             dict(cutoff="-1", cutoff_rho="-1"), dict(nr="1", dr="-1", nrho="x")]:
    text = tab_section("setfl", **kv) + EAM_MODEL
    RECORDS.append("BOTH {!r} -> {}".format(sorted(kv.items()), outcome(lambda: parse_only(text))))
  RECORDS.append("NOSECTION " + outcome(lambda: parse_only(PAIR_MODEL)))
  RECORDS.append("EMPTY " + outcome(lambda: parse_only(u"[Tabulation]\n" + PAIR_MODEL)))
  for target in ["lammps_eam_alloy", "LAMMPS_eam_alloy", "DL_POLY", "DLPOLY", "setfl", "nonsense", None]:
    text = tab_section(target, nr="12", cutoff="2.0") + PAIR_MODEL
    RECORDS.append("TARGET {!r} -> {}".format(target, outcome(lambda: parse_only(text))))

  # 4. Rounding-safe row counts: whole multiples of dr which land just below the integer.
  for cutoff, dr in [("0.7", "0.1"), ("0.3", "0.1"), ("1.1", "0.1"), ("5.0", "0.1"), ("6.5", "0.05"), ("10", "0.001"),
                     ("2.9999999", "0.1"), ("1", "3"), ("0.35", "0.05"), ("12.0", "0.3"), ("4.35", "0.05")]:
    text = tab_section("LAMMPS", dr=dr, cutoff=cutoff) + PAIR_MODEL
    RECORDS.append("ROUND {} {} -> {}".format(cutoff, dr, outcome(lambda: parse_only(text))))

  # 5. End to end: bytes written by each target for grids specified in the three legal ways.
  pair_targets = ["LAMMPS", "DLPOLY", "DL_POLY", "GULP", None]
  eam_targets = ["setfl", "lammps_eam_alloy", "DL_POLY_EAM"]
  grids = [dict(nr="12", cutoff="5.5"), dict(nr="12", dr="0.5"), dict(cutoff="5.5", dr="0.5"), dict(cutoff="0.7", dr="0.1"),
           dict(nr="8"), dict(cutoff="3.0"), dict(), dict(nr="2", cutoff="1.0"), dict(nr="4", cutoff="1.0"), dict(nr="3", dr="1.5"),
           dict(nr="12", cutoff="5.5", dr="0.5"), dict(dr="0.5")]
  for target, grid in itertools.product(pair_targets, grids):
    text = tab_section(target, **grid) + PAIR_MODEL
    RECORDS.append("PAIR {!r} {!r} -> {}".format(target, sorted(grid.items()), outcome(lambda: tabulate(text))))
  rho_grids = [dict(nrho="10", cutoff_rho="4.5"), dict(nrho="10", drho="0.5"), dict(cutoff_rho="0.7", drho="0.1"), dict(),
               dict(nrho="2", cutoff_rho="1"), dict(drho="0.5"), dict(nrho="1", cutoff_rho="1")]
  for target, grid, rgrid in itertools.product(eam_targets, rho_grids, [dict(nr="9", cutoff="4.0"), dict(cutoff="0.7", dr="0.1")]):
    kv = dict(grid)
    kv.update(rgrid)
    text = tab_section(target, **kv) + EAM_MODEL
    RECORDS.append("EAM {!r} {!r} -> {}".format(target, sorted(kv.items()), outcome(lambda: tabulate(text))))

  import os
  if os.environ.get("TWIN_DUMP"):
    with open(os.environ["TWIN_DUMP"], "w") as dump:
      dump.write(u"\n".join(RECORDS))
  digest = hashlib.sha256(u"\n".join(RECORDS).encode("utf-8")).hexdigest()
  print("records:", len(RECORDS))
  print("digest:", digest)


main()

"""Differential script for twin C (atsim/potentials/__init__.py: plus, product, pow;
_multi_range_potential_form.py: create_Multi_Range_Potential_Form,
Multi_Range_Potential_Form.__init__/_range_search/range_defns).

Prints a sha256 digest over repr() of results / exception type names (and
messages where the message is produced by the refactored code), the order in
which the wrapped callables are invoked, and whole tabulations made through the
potable Configuration API.
"""
import hashlib
import io
import itertools
import re

import atsim.potentials
from atsim.potentials import plus, product, pow, gradient
from atsim.potentials import potentialforms as pforms
from atsim.potentials import Multi_Range_Defn, create_Multi_Range_Potential_Form
from atsim.potentials._multi_range_potential_form import (Multi_Range_Potential_Form, Multi_Range_Potential_Form_Deriv,
                                                         Multi_Range_Potential_Form_Deriv2)
from atsim.potentials.config import Configuration

H = hashlib.sha256()
NREC = [0]


def rec(*items):
  NREC[0] += 1
  line = "|".join(repr(i) for i in items)
  line = re.sub(r" at 0x[0-9a-fA-F]+", " at 0xADDR", line)  # object addresses are not deterministic
  H.update((line + "\n").encode("utf-8"))


def attempt(label, f, *args, **kwargs):
  try:
    v = f(*args, **kwargs)
    rec(label, args, sorted(kwargs.items()), "OK", type(v).__name__, v)
    return v
  except Exception as e:  # noqa
    rec(label, args, sorted(kwargs.items()), "EXC", type(e).__name__, str(e) if isinstance(e, ValueError) else "")
    return None


RS = [0.0, 1e-9, 0.05, 0.3, 0.75, 1.0, 1, 2, 1.2, 1.6180339887, 2.1, 2.5, 2.6, 3.0, 3.3333333333333335,
      7.25, 12.0, 55.5, -0.7, -5.0, float("inf"), float("-inf"), float("nan"), None, "1.0"]

# ---------------------------------------------------------------------------------------------
# 1) combinators
# ---------------------------------------------------------------------------------------------
CALLS = []


class Traced(object):
  """Callable that logs every invocation so evaluation order is part of the digest"""

  def __init__(self, name, f, df=None, d2f=None):
    self.name = name
    self._f = f
    if df is not None:
      def deriv(r):
        CALLS.append(name + ".deriv")
        return df(r)
      self.deriv = deriv
    if d2f is not None:
      def deriv2(r):
        CALLS.append(name + ".deriv2")
        return d2f(r)
      self.deriv2 = deriv2

  def __call__(self, r):
    CALLS.append(self.name)
    return self._f(r)


def mk(name, level):
  f = {"p": lambda r: 1.5 * r ** 2 + 0.25 * r + 2.0, "q": lambda r: 3.0 / (r + 1.5) + 0.5}[name[0]]
  df = {"p": lambda r: 3.0 * r + 0.25, "q": lambda r: -3.0 / (r + 1.5) ** 2}[name[0]]
  d2f = {"p": lambda r: 3.0, "q": lambda r: 6.0 / (r + 1.5) ** 3}[name[0]]
  if level == 0:
    return Traced(name, f)
  if level == 1:
    return Traced(name, f, df)
  if level == 2:
    return Traced(name, f, df, d2f)
  # deriv2 only
  return Traced(name, f, None, d2f)


for opname, op in (("plus", plus), ("product", product), ("pow", pow)):
  for la, lb in itertools.product(range(4), range(4)):
    a = mk("pa%d" % la, la)
    b = mk("qb%d" % lb, lb)
    del CALLS[:]
    c = op(a, b)
    rec("combo", opname, la, lb, type(c).__name__, c.__name__, sorted(vars(c)), list(CALLS))
    for r in RS:
      del CALLS[:]
      attempt("%s-%d%d" % (opname, la, lb), c, r)
      rec("calls", list(CALLS))
      if hasattr(c, "deriv"):
        del CALLS[:]
        attempt("%s-%d%d.deriv" % (opname, la, lb), c.deriv, r)
        rec("calls", list(CALLS))
      if hasattr(c, "deriv2"):
        del CALLS[:]
        attempt("%s-%d%d.deriv2" % (opname, la, lb), c.deriv2, r)
        rec("calls", list(CALLS))

# nested / real potential forms
buck = pforms.buck(1388.773, 0.3, 175.0)
hbnd = pforms.hbnd(300.0, 20.0)
morse = pforms.morse(1.65, 2.369, 0.577189831995)
zbl = pforms.zbl(14, 8)
const2 = pforms.constant(2.0)
poly = pforms.polynomial(1.0, -3.0, 0.5)
plain = lambda r: 2.0 * r + 1.0  # noqa
nested = [
  ("buck+hbnd", plus(buck, hbnd)),
  ("buck+plain", plus(buck, plain)),
  ("plain+plain", plus(plain, plain)),
  ("(buck+morse)+zbl", plus(plus(buck, morse), zbl)),
  ("zbl*poly", product(zbl, poly)),
  ("plain*morse", product(plain, morse)),
  ("(zbl*poly)*(buck+hbnd)", product(product(zbl, poly), plus(buck, hbnd))),
  ("zbl^2", pow(zbl, const2)),
  ("(buck+zbl)^poly", pow(plus(buck, zbl), poly)),
  ("plain^plain", pow(plain, plain)),
  ("grad(buck)+plain", plus(gradient(buck), plain)),
]
for label, c in nested:
  rec("nested", label, sorted(vars(c)))
  for r in RS:
    attempt(label, c, r)
    if hasattr(c, "deriv"):
      attempt(label + ".deriv", c.deriv, r)
    if hasattr(c, "deriv2"):
      attempt(label + ".deriv2", c.deriv2, r)

# malformed arguments to the combinators
for opname, op in (("plus", plus), ("product", product), ("pow", pow)):
  for badargs in ((None, None), (1.0, 2.0), (buck, None), (None, buck), (buck,), (), (buck, hbnd, morse), ("a", "b")):
    c = attempt("bad-" + opname, op, *badargs)
    if c is not None:
      rec("bad-attrs", sorted(vars(c)))
      attempt("bad-call-" + opname, c, 1.0)
      if hasattr(c, "deriv"):
        attempt("bad-deriv-" + opname, c.deriv, 1.0)
      if hasattr(c, "deriv2"):
        attempt("bad-deriv2-" + opname, c.deriv2, 1.0)

# ---------------------------------------------------------------------------------------------
# 2) multi range potential forms
# ---------------------------------------------------------------------------------------------
Rdt = Multi_Range_Defn


def f_plain(r):
  return 10.0 + r


f_d1 = mk("p1", 1)
f_d2 = mk("q2", 2)
f_d2only = mk("p3", 3)

DEFN_SETS = {
  "empty": [],
  "one_gt": [Rdt(">", 0.0, f_plain)],
  "one_ge": [Rdt(">=", 0.0, f_plain)],
  "test_order": [Rdt('>=', 2.0, f_plain), Rdt('>', float("-inf"), f_d1), Rdt('>=', -5.0, f_d2), Rdt('>', 3.0, buck),
                 Rdt('>=', 3.0, morse)],
  "ties": [Rdt('>', 1.0, f_plain), Rdt('>=', 1.0, f_d1), Rdt('>', 1.0, f_d2), Rdt('>=', 1.0, buck), Rdt('>=', 0, zbl),
           Rdt('>', 2, poly)],
  "plain_only": [Rdt('>', 0.0, f_plain), Rdt('>=', 2.0, plain)],
  "deriv_only": [Rdt('>', 0.0, f_plain), Rdt('>=', 2.0, f_d1)],
  "deriv2_only_form": [Rdt('>', 0.0, f_plain), Rdt('>=', 2.0, f_d2only)],
  "deriv2_first": [Rdt('>', 0.0, f_d2), Rdt('>=', 2.0, f_plain), Rdt('>=', 2.5, f_d1)],
  "strings": [Rdt('>=', 2.0, "one"), Rdt('>', float("-inf"), "two"), Rdt('>=', -5.0, "three"), Rdt('>', 3.0, "four"),
              Rdt('>=', 3.0, "five")],
  "int_starts": [Rdt(range_type='>=', start=0, potential_form=f_plain), Rdt(range_type='>', start=1, potential_form=zbl),
                 Rdt(range_type='>', start=5, potential_form=buck)],
  "odd_range_type": [Rdt('<', 1.0, f_plain), Rdt('==', 2.0, buck)],
  "nan_start": [Rdt('>', float("nan"), f_plain), Rdt('>=', 1.0, buck), Rdt('>', 0.5, morse)],
  "extra_kw_defn": [Rdt('>', 1.0, f_plain, something=3)],
}

KW_SETS = [{}, {"default_value": 1.0}, {"default_value": None}, {"blah": 2.0}, {"default_value": 1.0, "blah": 2.0},
           {"zeta": 1, "alpha": 2, "default_value": 3, "Beta": 4}, {"default_values": 0.0}]

for setname in sorted(DEFN_SETS):
  defns = DEFN_SETS[setname]
  for kw in KW_SETS:
    for factory_name, factory in (("create", create_Multi_Range_Potential_Form), ("base", Multi_Range_Potential_Form),
                                  ("d1", Multi_Range_Potential_Form_Deriv), ("d2", Multi_Range_Potential_Form_Deriv2)):
      label = "mr-%s-%s" % (setname, factory_name)
      try:
        m = factory(*defns, **kw)
      except Exception as e:  # noqa
        rec(label, sorted(kw.items(), key=repr), "EXC", type(e).__name__, str(e))
        continue
      rec(label, sorted(kw.items(), key=repr), type(m).__name__, m.default_value, sorted(vars(m)),
          [(d.range_type, d.start, defns.index(d)) for d in m.range_defns],
          hasattr(m, "deriv"), hasattr(m, "deriv2"))
      if kw and factory_name != "create":
        continue
      for r in RS:
        try:
          found = m._range_search(r)
          rec(label, "search", r, None if found is None else defns.index(found))
        except Exception as e:  # noqa
          rec(label, "search", r, type(e).__name__)
        del CALLS[:]
        attempt(label, m, r)
        if hasattr(m, "deriv"):
          attempt(label + ".deriv", m.deriv, r)
        if hasattr(m, "deriv2"):
          attempt(label + ".deriv2", m.deriv2, r)
        rec("calls", list(CALLS))

# re-assigning range_defns re-sorts
m = Multi_Range_Potential_Form(*DEFN_SETS["one_gt"], default_value=-1.0)
for setname in ("ties", "test_order", "empty", "strings"):
  defns = DEFN_SETS[setname]
  m.range_defns = defns
  rec("reassign", setname, type(m.range_defns).__name__, m.range_defns is defns,
      [(d.range_type, d.start, defns.index(d)) for d in m.range_defns])
  m.range_defns = iter(defns)
  rec("reassign-iter", setname, type(m.range_defns).__name__,
      [(d.range_type, d.start, defns.index(d)) for d in m.range_defns])
  m.range_defns = tuple(reversed(defns))
  rec("reassign-rev", setname, type(m.range_defns).__name__,
      [(d.range_type, d.start, defns.index(d)) for d in m.range_defns])
for bad in (None, 3, [1, 2], [Rdt('>', 1.0, f_plain), None], "ab"):
  try:
    m.range_defns = bad
    rec("reassign-bad", repr(bad)[:20], "OK", type(m.range_defns).__name__, len(m.range_defns))
  except Exception as e:  # noqa
    rec("reassign-bad", repr(bad)[:20], "EXC", type(e).__name__,
        [(d.range_type, d.start) for d in m.range_defns])


# objects that are not Multi_Range_Defn
class NoFlags(object):
  range_type = ">"
  start = 0.0

  def potential_form(self, r):
    return 5.0


class OnlyDeriv2Flag(NoFlags):
  has_deriv2 = True


class OnlyDerivFlag(NoFlags):
  has_deriv = True
  has_deriv2 = False

  def deriv(self, r):
    return -1.0


class StrFlags(NoFlags):
  has_deriv = "yes"
  has_deriv2 = ""


ODD = {
  "noflags": [NoFlags()],
  "d2_then_noflags": [Rdt('>', 1.0, f_d2), NoFlags()],
  "d2only_then_noflags": [Rdt('>', 1.0, f_d2only), NoFlags()],
  "noflags_then_d2": [NoFlags(), Rdt('>', 1.0, f_d2)],
  "only_d2_flag": [OnlyDeriv2Flag()],
  "only_d_flag": [OnlyDerivFlag()],
  "d_flag_then_d2": [OnlyDerivFlag(), Rdt('>', 1.0, f_d2)],
  "strflags": [StrFlags()],
  "strflags_then_plain": [StrFlags(), Rdt('>', 1.0, f_plain)],
  "none": [None],
  "number": [1.0, 2.0],
}
for label in sorted(ODD):
  try:
    m = create_Multi_Range_Potential_Form(*ODD[label])
  except Exception as e:  # noqa
    rec("odd", label, "EXC", type(e).__name__)
    continue
  rec("odd", label, type(m).__name__, len(m.range_defns))
  for r in (-1.0, 0.0, 0.5, 1.0, 2.0):
    attempt("odd-" + label, m, r)
    if hasattr(m, "deriv"):
      attempt("odd-" + label + ".deriv", m.deriv, r)
    if hasattr(m, "deriv2"):
      attempt("odd-" + label + ".deriv2", m.deriv2, r)

# ---------------------------------------------------------------------------------------------
# 3) tabulations through the potable API
# ---------------------------------------------------------------------------------------------
PAIRS = {
  "basak": u"""O-O = as.buck 1633.010242995040 0.327022 3.948787
U-U = as.buck 294.640906285709 0.327022 0.0
O-U = sum(as.buck 693.650933805978 0.327022 0.0,
      as.morse 1.65 2.369 0.577189831995)
""",
  "basak_reordered": u"""O-U = sum(as.morse 1.65 2.369 0.577189831995, as.buck 693.650933805978 0.327022 0.0)
U-U = as.buck 294.640906285709 0.327022 0.0
O-O = as.buck 1633.010242995040 0.327022 3.948787
""",
  "multirange": u"""Si-O : >0 as.zbl 14 8 >=0.8 as.polynomial 10.0 -2.0 0.1 >=1.4 as.buck 18003.7572 0.205204 133.5381
O-O : >=0 as.constant 5.0 >1.0 sum(as.buck 1388.773 0.3 175.0, >2.0 as.hbnd 300.0 20.0) >=4.0 as.zero
Si-Si : >1.0 as.lj 0.01 2.5
""",
  "modifiers": u"""B-A : product(as.zbl 13 26, as.polynomial 0.0 2.0, as.polynomial 1.0 -3.0 0.5)
A-A : pow(as.zbl 8 8, as.polynomial 2.0 0.1)
B-B : sum(product(as.bornmayer 500.0 0.3, as.constant 2.0), pow(as.bornmayer 500.0 0.3, as.constant 2.0), >2.0 as.morse 1.2 2.0 0.5)
C-C : trans(sum(as.buck 1000.0 0.2 32.0, as.coul 2.0 -1.0), as.constant 0.5)
""",
  "custom": u"""A-A : sum(mybuck 1000.0 0.2, >=1.5 as.polynomial 1.0 0.5)
A-B : product(mybuck 1000.0 0.2, mybuck 2.0 1.0)
B-B : pow(mybuck 2.0 1.0, as.constant 0.5) >3.0 mybuck 2.0 1.0
""",
  "pow_domain_error": u"""A-A : pow(as.morse 1.2 2.0 0.5, as.constant 2.0)
""",
  "unknown_modifier": u"""A-A : summ(as.morse 1.2 2.0 0.5, as.constant 2.0)
""",
  "bad_range": u"""A-A : >=a as.morse 1.2 2.0 0.5
""",
}
PFORM = u"""[Potential-Form]
mybuck(r, A, rho) = A*exp(-r/rho)

"""
TABS = [u"target : LAMMPS\ncutoff : 6.5\nnr : 326\n", u"target : DL_POLY\ncutoff : 6.5\nnr : 652\n",
        u"target : GULP\ncutoff : 5.0\ndr : 0.05\n", u"target : LAMMPS\ncutoff : 4.0\ndr : 0.125\n"]

for name in sorted(PAIRS):
  for ti, tabsec in enumerate(TABS):
    cfg = u"[Tabulation]\n" + tabsec + u"\n" + (PFORM if name == "custom" else u"") + u"[Pair]\n" + PAIRS[name]
    try:
      tab = Configuration().read(io.StringIO(cfg))
      out = io.StringIO()
      tab.write(out)
      txt = out.getvalue()
      rec("cfg", name, ti, "OK", len(txt), hashlib.sha256(txt.encode("utf-8")).hexdigest())
    except Exception as e:  # noqa
      rec("cfg", name, ti, "EXC", type(e).__name__)

print("records:", NREC[0])
print("digest:", H.hexdigest())

"""Twin A (--show-species): (a) digest of existing behaviour, must be identical on clean and edited tree;
(b) demonstration of the new option. Run with:
  /venv/bin/python -W ignore /tmp/wtpy.py /tmp/wt_r7_2 _twins/diffA.py"""
OPTION = "--show-species"
# ---------------------------------------------------------------------------
# Common harness (identical in diffA.py, diffB.py and diffC.py)
# ---------------------------------------------------------------------------
import contextlib
import glob
import hashlib
import io
import logging
import os
import subprocess
import sys
import tempfile

WT = os.path.dirname(os.path.dirname(os.path.abspath(__file__)))
os.chdir(WT)

# Send the INFO chatter of potable to nowhere (basicConfig() inside main() then is a no-op)
logging.basicConfig(level=logging.INFO, stream=open(os.devnull, "w"))

from atsim.potentials.tools import potable
from atsim.potentials import potentialforms
from atsim.potentials.config import Configuration, ConfigParser, FilteredConfigParser

TMPDIR = tempfile.mkdtemp(prefix="twin_")


def run_potable(*argv, **kwargs):
  """Run potable's main() in-process. Returns (exit_code, stdout, error message from stderr, sha256 of output file or None)"""
  outname = kwargs.get("out", None)
  args = ["potable"] + list(argv)
  outpath = None
  if outname:
    outpath = os.path.join(TMPDIR, outname)
    if os.path.exists(outpath):
      os.remove(outpath)
    # OUTPUT_FILE goes directly after POTENTIAL_DEFN_FILE (the nargs='*' options would swallow it otherwise)
    args.insert(2, outpath)
  so, se = io.StringIO(), io.StringIO()
  old_argv = sys.argv
  sys.argv = args
  code = None
  try:
    with contextlib.redirect_stdout(so), contextlib.redirect_stderr(se):
      try:
        potable.main()
      except SystemExit as e:
        code = e.code
  finally:
    sys.argv = old_argv
  content = None
  if outpath and os.path.exists(outpath):
    with open(outpath, "rb") as infile:
      content = hashlib.sha256(infile.read()).hexdigest()
  # stderr from the 'potable: error:' line onwards (what comes before is argparse's usage text)
  errlines = [l for l in se.getvalue().splitlines() if l.strip()]
  start = [i for i, l in enumerate(errlines) if ": error: " in l]
  err = " | ".join(errlines[start[0]:]) if start else " | ".join(errlines[-1:])
  err = err.replace(TMPDIR, "TMP")
  return (code, so.getvalue(), err, content)


ASPOT_FILES = sorted(
  glob.glob("tests/*/*.aspot") + glob.glob("tests/config/config_resources/*.aspot") +
  glob.glob("docs/user_guide/example_files/*.aspot") + glob.glob("docs/quick_start/*.aspot"))


def existing_behaviour_digest():
  """Digest over a broad sample of behaviour that exists in the clean tree."""
  h = hashlib.sha256()
  nrec = [0]

  def rec(*items):
    nrec[0] += 1
    h.update(repr(items).encode("utf-8"))
    h.update(b"\n")

  for fname in ASPOT_FILES:
    # Query actions
    code, out, err, _ = run_potable(fname, "--list-items")
    rec(fname, "list-items", code, out, err)
    code, labels, err, _ = run_potable(fname, "--list-item-labels")
    rec(fname, "list-item-labels", code, labels, err)
    labels = labels.splitlines()
    for label in labels[:3] + labels[-2:]:
      rec(fname, "item-value", label, run_potable(fname, "--item-value", label))
    rec(fname, "item-value-missing", run_potable(fname, "--item-value", "Pair:Zz-Zz"))
    rec(fname, "item-value-malformed", run_potable(fname, "--item-value", "nonsense"))

    # Tabulation (smaller grids to keep this quick, where the file allows it)
    rec(fname, "tabulate", run_potable(fname, out="plain.out"))
    rec(fname, "no-outfile", run_potable(fname))
    species = sorted(set(s for l in labels if l.startswith("Pair:") for s in l[5:].split("-")))
    for s in species[:2]:
      rec(fname, "include", s, run_potable(fname, "--include-species", s, out="inc.out"))
      rec(fname, "exclude", s, run_potable(fname, "--exclude-species", s, out="exc.out"))
      rec(fname, "include-list", s, run_potable(fname, "--list-items", "--include-species", s))
    rec(fname, "include-unknown", run_potable(fname, "--include-species", "Zz", out="inc.out"))

    # Edits
    first_pair = [l for l in labels if l.startswith("Pair:")][:1]
    for label in first_pair:
      rec(fname, "remove", run_potable(fname, "--remove-item", label, out="rem.out"))
      rec(fname, "remove-list", run_potable(fname, "--remove-item", label, "--list-items"))
      rec(fname, "override", run_potable(fname, "--override-item", label + "=as.buck 1000.0 0.3 12.0", out="ovr.out"))
      rec(fname, "add-dup", run_potable(fname, "--add-item", label + "=as.zero", out="add.out"))
    rec(fname, "add", run_potable(fname, "--add-item", "Pair:Xx-Yy=as.lj 0.01 2.5", out="add.out"))
    rec(fname, "add-list", run_potable(fname, "--add-item", "Pair:Xx-Yy=as.lj 0.01 2.5", "--list-items"))
    rec(fname, "override-missing", run_potable(fname, "--override-item", "Pair:Zz-Zz=as.zero", out="x.out"))
    rec(fname, "override-malformed", run_potable(fname, "--override-item", "Pair:Zz-Zz", out="x.out"))
    rec(fname, "remove-malformed", run_potable(fname, "--remove-item", "PairZz", out="x.out"))
    rec(fname, "bad-target", run_potable(fname, "--override-item", "Tabulation:target=NOTATARGET", out="x.out"))
    rec(fname, "bad-nr", run_potable(fname, "--override-item", "Tabulation:nr=abc", out="x.out"))

  # Files that are malformed as a whole
  not_ini = write_model("digest_not_ini.aspot", u"this is not an ini file\n")
  dup_pair = write_model("digest_dup.aspot", u"[Pair]\nA-B : as.zero\nB - A : as.zero\n")
  for path in (not_ini, dup_pair):
    rec("malformed-file", run_potable(path, "--list-items"), run_potable(path, out="x.out"))

  # argparse level behaviour
  rec("mutex-1", run_potable(ASPOT_FILES[0], "--list-items", "--list-item-labels"))
  rec("mutex-2", run_potable(ASPOT_FILES[0], "--include-species", "A", "--exclude-species", "B"))
  rec("no-file", run_potable("does_not_exist.aspot", "--list-items"))
  rec("unknown-option", run_potable(ASPOT_FILES[0], "--no-such-option"))
  # abbreviated long options (argparse allows unambiguous prefixes)
  for abbrev in (["--it", "Pair:O-O"], ["--item-val", "Pair:O-O"], ["--list-item-l"], ["--list-i"], ["--l"], ["--i", "O"],
                 ["--in", "O", "--list-items"], ["--e", "O", "--list-items"], ["--r", "Pair:O-O", "--list-items"],
                 ["--o", "Pair:O-O=as.zero", "--list-items"], ["--a", "Pair:X-X=as.zero", "--list-items"]):
    rec("abbrev", abbrev, run_potable(ASPOT_FILES[0], *abbrev))

  # Python API: Configuration / FilteredConfigParser
  for fname in ASPOT_FILES:
    with open(fname) as infile:
      cp = ConfigParser(infile)
    rec(fname, "parsed_sections", sorted(cp.parsed_sections), cp.orphan_sections)
    try:
      tab = Configuration().read_from_parser(FilteredConfigParser(cp, exclude=["O"]))
      rec(fname, type(tab).__name__, [(p.speciesA, p.speciesB) for p in tab.potentials])
    except Exception as e:
      rec(fname, "exc", type(e).__name__, str(e))

  # Python API: a sample of potential forms with derivatives
  forms = [
    potentialforms.buck(1000.0, 0.3, 12.0), potentialforms.bornmayer(800.0, 0.25),
    potentialforms.lj(0.01, 2.5), potentialforms.morse(1.8, 2.4, 0.6),
    potentialforms.coul(1.0, -2.0), potentialforms.polynomial(1.0, -2.0, 0.5),
    potentialforms.zbl(92, 8), potentialforms.exponential(2.0, 1.5)]
  for f in forms:
    for r in (0.5, 1.0, 2.5, 7.25):
      rec("%.10e" % f(r), "%.10e" % f.deriv(r), "%.10e" % f.deriv2(r))

  return nrec[0], h.hexdigest()


def run_in_fresh_process(hashseed, *argv):
  """Run potable in a fresh interpreter with the given PYTHONHASHSEED, returns (returncode, stdout, message of the error line on stderr, stderr)"""
  env = dict(os.environ)
  env["PYTHONHASHSEED"] = str(hashseed)
  cmd = [sys.executable, "-W", "ignore", "/tmp/wtpy.py", WT, "-c", "from atsim.potentials.tools.potable import main; main()"] + list(argv)
  p = subprocess.run(cmd, env=env, stdout=subprocess.PIPE, stderr=subprocess.PIPE, universal_newlines=True)
  errlines = [l.split(": error: ", 1)[1] for l in p.stderr.splitlines() if ": error: " in l]
  return (p.returncode, p.stdout, errlines[-1].replace(TMPDIR, "TMP") if errlines else "", p.stderr)


def has_option(name):
  code, out, err, _ = run_potable("--help")
  return name in out


def check(label, condition):
  print("  [{}] {}".format("ok" if condition else "FAIL", label))
  if not condition:
    check.failures += 1
check.failures = 0


def write_model(name, text):
  path = os.path.join(TMPDIR, name)
  with open(path, "w") as outfile:
    outfile.write(text)
  return path

# ---------------------------------------------------------------------------
# Edit A: --show-species
# ---------------------------------------------------------------------------
PAIR_MODEL = u"""[Tabulation]
target : LAMMPS
cutoff : 6.0
nr : 13

[Pair]
U-O : as.buck 1761.775 0.35642 0.0
O - O : as.buck 9547.96 0.2192 32.0
Gd-O : as.bornmayer 1885.75 0.3399
U-U : as.zero
"""

EAM_MODEL = u"""[Tabulation]
target : setfl
cutoff : 6.0
nr : 13
cutoff_rho : 10.0
nrho : 11

[Pair]
Cu-Al : as.lj 0.01 2.5

[EAM-Embed]
Zr : as.sqrt -1.0
Cu : as.sqrt -1.5
Al : as.sqrt -2.0

[EAM-Density]
Zr : as.exponential 1.0 -2.0
Cu : as.exponential 2.0 -2.0
Al : as.exponential 3.0 -2.0
"""

FS_MODEL = u"""[Tabulation]
target : setfl_fs
cutoff : 6.0
nr : 13
cutoff_rho : 10.0
nrho : 11

[Pair]
Fe-Al : as.lj 0.01 2.5

[EAM-Embed]
Fe : as.sqrt -1.0
Al : as.sqrt -1.5

[EAM-Density]
Fe->Al : as.exponential 1.0 -2.0
Al -> Fe : as.exponential 2.0 -2.0
Al->Ni : as.exponential 3.0 -2.0
"""


def hand_filtered_species(text, include=None, exclude=None):
  """Oracle: species of the file from which the unwanted entries have been deleted by hand (property C13)"""
  import re
  species = set()
  section = None
  for line in text.splitlines():
    line = line.strip()
    m = re.match(r"^\[(.*)\]$", line)
    if m:
      section = m.group(1)
      continue
    if not line or section not in ("Pair", "EAM-Embed", "EAM-Density"):
      continue
    key = re.split(r"[:=]", line, 1)[0]
    labels = [l.strip() for l in re.split(r"->|-", key)]
    if include is not None and [l for l in labels if l not in include]:
      continue
    if exclude is not None and [l for l in labels if l in exclude]:
      continue
    species.update(labels)
  return "".join(s + "\n" for s in sorted(species))


def demonstrate_feature():
  pair = write_model("pair.aspot", PAIR_MODEL)
  eam = write_model("eam.aspot", EAM_MODEL)
  fs = write_model("fs.aspot", FS_MODEL)

  print("--show-species output")
  for name, path, text in (("pair", pair, PAIR_MODEL), ("eam", eam, EAM_MODEL), ("fs", fs, FS_MODEL)):
    code, out, err, _ = run_potable(path, "--show-species")
    print("  {}: {!r}".format(name, out))
    check(name + ": exit status 0, sorted unique labels", code == 0 and out == hand_filtered_species(text))
    lines = out.splitlines()
    check(name + ": sorted and without repeats", lines == sorted(set(lines)))

  print("filtering (C13): same answer as the file with the unwanted entries deleted by hand")
  for name, path, text in (("pair", pair, PAIR_MODEL), ("eam", eam, EAM_MODEL), ("fs", fs, FS_MODEL)):
    for sel in (["O"], ["U", "O"], ["Al", "Cu"], ["Fe", "Al"], ["Zz"], []):
      code, out, err, _ = run_potable(path, "--show-species", "--include-species", *sel)
      check("{} include {}".format(name, sel), code == 0 and out == hand_filtered_species(text, include=sel))
      code, out, err, _ = run_potable(path, "--show-species", "--exclude-species", *sel)
      check("{} exclude {}".format(name, sel), code == 0 and out == hand_filtered_species(text, exclude=sel))

  print("edits are applied first (C14)")
  code, out, err, _ = run_potable(pair, "--show-species", "--remove-item", "Pair:Gd-O")
  check("remove Gd-O", out == "O\nU\n")
  code, out, err, _ = run_potable(pair, "--show-species", "--add-item", "Pair:Ce - O=as.zero")
  check("add Ce-O", out == "Ce\nGd\nO\nU\n")
  code, out, err, _ = run_potable(pair, "--show-species", "--add-item", "Pair:Ce-O=as.zero", "--exclude-species", "Gd", "U")
  check("add Ce-O then exclude Gd U", out == "Ce\nO\n")
  code, out, err, _ = run_potable(pair, "--show-species", "--override-item", "Pair:U-U=as.buck 1 2 3")
  check("override leaves species alone", out == "Gd\nO\nU\n")
  r = run_potable(pair, "--show-species", "--remove-item", "Pair:Zz-O")
  check("removing a missing item is a configuration error", r[0] == 2 and r[1] == "" and "configuration error - " in r[2])
  r = run_potable(pair, "--show-species", "--add-item", "Pair:O-U=as.zero")
  check("adding a reversed duplicate pair is a configuration error (C20)", r[0] == 2 and r[1] == "" and "configuration error - " in r[2])
  print("   ", r[2])

  print("malformed use (C16): configuration error or usage error, no traceback, nothing on stdout")
  bad_key = write_model("bad_key.aspot", PAIR_MODEL.replace("Gd-O", "Gd-O-X"))
  bad_fs = write_model("bad_fs.aspot", FS_MODEL.replace("Al->Ni", "Al"))
  bad_value = write_model("bad_value.aspot", PAIR_MODEL.replace("as.bornmayer 1885.75 0.3399", "sum("))
  not_ini = write_model("not_ini.aspot", u"this is not an ini file\n")
  dup = write_model("dup.aspot", PAIR_MODEL + u"O-U : as.zero\n")
  for name, path in (("bad pair key", bad_key), ("FS file with plain density key", bad_fs), ("bad potential definition", bad_value), ("not an ini file", not_ini), ("reversed duplicate pair", dup)):
    r = run_potable(path, "--show-species")
    check(name, r[0] == 2 and r[1] == "" and r[2].startswith("potable: error: configuration error - "))
    print("   ", r[2][:150])
  for other in ("--list-items", "--list-item-labels"):
    r = run_potable(pair, "--show-species", other)
    check("mutually exclusive with " + other, r[0] == 2 and "not allowed with argument" in r[2])
  r = run_potable(pair, "--show-species", "--item-value", "Pair:U-U")
  check("mutually exclusive with --item-value", r[0] == 2 and "not allowed with argument" in r[2])
  r = run_potable(pair, "--show-species", out="never.out")
  check("an OUTPUT_FILE that is given is not written", r[0] == 0 and r[3] is None)
  empty = write_model("empty.aspot", u"[Tabulation]\ntarget : LAMMPS\n")
  r = run_potable(empty, "--show-species")
  check("model without interactions lists nothing", r[0] == 0 and r[1] == "")

  print("determinism (C12): fresh processes with different PYTHONHASHSEED and repeated calls")
  for path in (pair, eam, fs, "tests/lammps_resources/CRG_U_Th.aspot", "tests/lammps_resources/Al_Cu_adp.aspot"):
    results = set()
    for seed in (0, 1, 2, 12345):
      rc, out, err, full = run_in_fresh_process(seed, path, "--show-species")
      check("seed {} {}: no traceback".format(seed, os.path.basename(path)), rc == 0 and "Traceback" not in full)
      results.add(out)
    inproc = [run_potable(path, "--show-species")[1] for i in range(3)]
    results.update(inproc)
    check("{}: one distinct output {!r}".format(os.path.basename(path), sorted(results)[0]), len(results) == 1)

  print("purity: querying does not disturb a later tabulation, filtered views stay independent (C12/C13)")
  before = run_potable(pair, out="t1.out")[3]
  run_potable(pair, "--show-species", "--exclude-species", "O")
  after = run_potable(pair, out="t2.out")[3]
  check("tabulation bytes unchanged", before == after and before is not None)
  from atsim.potentials.tools.potable import _query_actions
  with open(pair) as infile:
    cp = ConfigParser(infile)
  v1 = FilteredConfigParser(cp, include=["O"])
  v2 = FilteredConfigParser(cp, exclude=["O"])
  a = [_query_actions._list_species(v) for v in (v1, v2, cp, v1, v2, cp)]
  check("views independent: {}".format(a[:3]), a[:3] == a[3:] and a[0] == ["O"] and a[1] == ["U"] and a[2] == ["Gd", "O", "U"])


if __name__ == "__main__":
  n, digest = existing_behaviour_digest()
  print("EXISTING-BEHAVIOUR DIGEST ({} records): {}".format(n, digest))
  if has_option(OPTION):
    print("FEATURE {} present".format(OPTION))
    demonstrate_feature()
    print("FEATURE CHECK FAILURES: {}".format(check.failures))
  else:
    print("FEATURE {} absent (clean tree)".format(OPTION))

"""diffB.py - edit B (read-only species_pair/species_pairs/species properties and __repr__ methods): existing-behaviour digest + demonstration of the new feature.
Run:  /venv/bin/python -W ignore /tmp/wtpy.py /tmp/twin_19 _twins/diffB.py"""
# ---------------------------------------------------------------------------
# Part (a): digest of a broad sample of EXISTING behaviour (public API + potable).
# Must print the same digest on the clean and on the edited tree.
# ---------------------------------------------------------------------------
import contextlib, glob, hashlib, io, logging, os, sys, tempfile

logging.disable(logging.CRITICAL)

_WT = os.path.dirname(os.path.dirname(os.path.abspath(__file__)))

import atsim.potentials as ap
from atsim.potentials import potentialforms as pf
from atsim.potentials import pair_tabulation as pt, eam_tabulation as et
from atsim.potentials.config import Configuration, ConfigParser, ConfigParserOverrideTuple as CPT, FilteredConfigParser
from atsim.potentials.config._common import ConfigurationException


class _Digest(object):
  def __init__(self):
    self.h = hashlib.sha256()
    self.n = 0

  def add(self, label, value):
    if isinstance(value, bytes):
      value = value.decode("latin-1")
    self.h.update(("%s\x00%s\x01" % (label, value)).encode("utf-8"))
    self.n += 1

  def attempt(self, label, f):
    """Record the output of f() or the type and message of the exception it raises"""
    try:
      v = f()
    except SystemExit as e:
      v = "SystemExit:%r" % (e.code,)
    except Exception as e:
      v = "EXC:%s:%s" % (type(e).__name__, e)
    self.add(label, v)

  def hexdigest(self):
    return self.h.hexdigest()


def _write_text(tab):
  if tab.target.startswith("excel"):
    wb = tab.workbook
    out = []
    for ws in wb.worksheets:
      out.append("SHEET " + ws.title)
      for row in ws.iter_rows(values_only=True):
        out.append(repr(row))
    return "\n".join(out)
  sio = io.StringIO()
  tab.write(sio)
  return sio.getvalue()


_PAIR_TARGETS = ["LAMMPS", "DL_POLY", "DLPOLY", "GULP", "excel"]
_EAM_TARGETS = ["setfl", "lammps_eam_alloy", "DL_POLY_EAM", "excel_eam", "eam_adp"]
_FS_TARGETS = ["setfl_fs", "DL_POLY_EAM_fs", "excel_eam_fs"]


def _tabulate_file(path, target, extra=(), include=None, exclude=None):
  overrides = [CPT("Tabulation", "target", target)]
  overrides.extend(extra)
  with open(path) as infile:
    cp = ConfigParser(infile, overrides=overrides)
  if include is not None:
    cp = FilteredConfigParser(cp, include=include)
  if exclude is not None:
    cp = FilteredConfigParser(cp, exclude=exclude)
  tab = Configuration().read_from_parser(cp)
  head = "%s %s %s %r %r %r" % (type(tab).__name__, tab.type, tab.target, tab.nr, tab.cutoff, tab.dr)
  return head + "\n" + _write_text(tab)


def _potable(argv):
  from atsim.potentials.tools import potable
  err = io.StringIO()
  out = io.StringIO()
  old = sys.argv
  sys.argv = ["potable"] + list(argv)
  code = None
  try:
    with contextlib.redirect_stderr(err), contextlib.redirect_stdout(out):
      try:
        potable._do_tabulation(*potable._parse_command_line())
      except ConfigurationException as e:
        err.write("configuration error - {}".format(e))
        code = 2
      except SystemExit as e:
        code = e.code
      except Exception as e:
        code = "uncaught %s: %s" % (type(e).__name__, e)
  finally:
    sys.argv = old
  return "code=%r\nOUT=%s\nERR=%s" % (code, out.getvalue(), err.getvalue())


def existing_behaviour_digest():
  d = _Digest()

  # 1. every example / test .aspot shipped with the project, through every target of its family
  files = sorted(glob.glob(os.path.join(_WT, "docs", "user_guide", "example_files", "*.aspot")))
  files += sorted(glob.glob(os.path.join(_WT, "docs", "quick_start", "*.aspot")))
  files += sorted(glob.glob(os.path.join(_WT, "tests", "config", "config_resources", "*.aspot")))
  for path in files:
    text = open(path).read()
    if "[EAM-Density]" in text and "->" in text:
      targets = _FS_TARGETS
    elif "[EAM-Embed]" in text:
      targets = _EAM_TARGETS
    else:
      targets = _PAIR_TARGETS
    rel = os.path.relpath(path, _WT)
    d.attempt("asis:" + rel, lambda: _tabulate_file(path, open(path).read().split("target")[1].split("\n")[0].strip(" :=")))
    for t in targets + ["no_such_target", "csv_nope"]:
      d.attempt("file:%s:%s" % (rel, t), lambda: _tabulate_file(path, t))

  # 2. species filtering + overrides on the spinel / basak models
  basak = os.path.join(_WT, "docs", "quick_start", "basak.aspot")
  for t in ["LAMMPS", "GULP", "DL_POLY"]:
    d.attempt("incl:" + t, lambda: _tabulate_file(basak, t, include=["O", "U"]))
    d.attempt("excl:" + t, lambda: _tabulate_file(basak, t, exclude=["Gd"]))
    d.attempt("over:" + t, lambda: _tabulate_file(basak, t, extra=[CPT("Tabulation", "cutoff", "6.0"), CPT("Tabulation", "nr", "24")]))
    d.attempt("bad-nr:" + t, lambda: _tabulate_file(basak, t, extra=[CPT("Tabulation", "cutoff", "6.0"), CPT("Tabulation", "nr", "2")]))

  # 3. Python API: potential objects, procedural writers, tabulation classes
  bks = pf.buck(18003.7572, 0.205204, 133.5381)
  pots = [
    ap.Potential("Si", "O", bks),
    ap.Potential("O", "O", ap.plus(pf.buck(1388.773, 0.3623, 175.0), pf.coul(-2, -2))),
    ap.Potential("Xe", "O", lambda r: 3.0 * r ** 2 - 1.0 / (r + 1.0)),
    ap.Potential("B", "O", ap.SplinePotential(pf.zbl(5, 8), pf.buck(1000.0, 0.3, 10.0), 0.8, 1.4)),
  ]
  # potentials that are regular at r = 0 (GULP, Excel and the plot helpers evaluate there)
  pots0 = [
    ap.Potential("Si", "O", pf.morse(1.8, 1.6, 0.4)),
    ap.Potential("O", "O", ap.plus(pf.polynomial(1.0, -2.0, 0.5), pf.exponential(3.0, 1.5))),
    ap.Potential("Xe", "O", lambda r: 3.0 * r ** 2 - 1.0 / (r + 1.0)),
  ]
  for p in pots + pots0:
    d.add("pot", repr((p.speciesA, p.speciesB, [p.energy(r) for r in (0.5, 1.0, 2.5)], [p.force(r) for r in (0.5, 1.0, 2.5)])))
  for typ, nr in [("LAMMPS", 11), ("DL_POLY", 12), ("DL_POLY", 11), ("GULP", 11), ("CSV_NOPE", 11), ("excel", 11)]:
    def f():
      sio = io.StringIO()
      ap.writePotentials(typ, pots0 if typ == "GULP" else pots, 6.0, nr, sio)
      return sio.getvalue()
    d.attempt("writePotentials:%s:%d" % (typ, nr), f)
  for cls, nr in [(pt.LAMMPS_PairTabulation, 9), (pt.DLPoly_PairTabulation, 8), (pt.GULP_PairTabulation, 9), (pt.Excel_PairTabulation, 5)]:
    def f():
      tab = cls(pots0 if cls in (pt.GULP_PairTabulation, pt.Excel_PairTabulation) else pots, 4.0, nr)
      return "%s %s %r %r %r %d\n%s" % (tab.type, tab.target, tab.nr, tab.cutoff, tab.dr, len(tab.potentials), _write_text(tab))
    d.attempt("class:" + cls.__name__, f)

  # a failing evaluation must leave nothing behind (GULP / LAMMPS / DL_POLY)
  def bad(r):
    if r > 2.0:
      raise ValueError("outside domain")
    return r
  for cls, nr in [(pt.LAMMPS_PairTabulation, 9), (pt.DLPoly_PairTabulation, 8), (pt.GULP_PairTabulation, 9)]:
    sio = io.StringIO()
    d.attempt("fail:" + cls.__name__, lambda: cls([pots0[0], ap.Potential("A", "B", bad)], 4.0, nr).write(sio))
    d.add("fail-left:" + cls.__name__, sio.getvalue())

  # 4. EAM procedural writers + classes
  def embed(rho): return -rho ** 0.5
  def dens(r): return 2.0 / (1.0 + r) ** 2
  def dens2(r): return 1.0 / (1.0 + r) ** 3
  eam = [ap.EAMPotential("Al", 13, 26.98, embed, dens, 4.05, "fcc"), ap.EAMPotential("Cu", 29, 63.55, embed, dens2)]
  eamfs = [ap.EAMPotential("Al", 13, 26.98, embed, {"Al": dens, "Cu": dens2}, 4.05, "fcc"),
           ap.EAMPotential("Cu", 29, 63.55, embed, {"Cu": dens2, "Al": dens})]
  ppots = [ap.Potential("Al", "Al", pf.exponential(2.0, 1.5)), ap.Potential("Cu", "Al", pf.morse(1.5, 2.5, 0.3))]
  for name, fn, e in [("writeSetFL", ap.writeSetFL, eam), ("writeSetFLFinnisSinclair", ap.writeSetFLFinnisSinclair, eamfs),
                      ("writeTABEAM", ap.writeTABEAM, eam), ("writeTABEAMFinnisSinclair", ap.writeTABEAMFinnisSinclair, eamfs)]:
    def f():
      sio = io.StringIO()
      fn(7, 0.5, 6, 0.8, e, ppots, sio)
      return sio.getvalue()
    d.attempt(name, f)
  def f():
    sio = io.StringIO()
    ap.writeFuncFL(7, 0.5, 6, 0.8, eam[:1], ppots[:1], sio)
    return sio.getvalue()
  d.attempt("writeFuncFL", f)
  for cls, e in [(et.SetFL_EAMTabulation, eam), (et.SetFL_FS_EAMTabulation, eamfs), (et.TABEAM_EAMTabulation, eam),
                 (et.TABEAM_FinnisSinclair_EAMTabulation, eamfs), (et.Excel_EAMTabulation, eam), (et.Excel_FinnisSinclair_EAMTabulation, eamfs)]:
    def f():
      tab = cls(ppots, e, 4.0, 6, 3.0, 7)
      return "%s %s %r %r %r %r %r %r\n%s" % (tab.type, tab.target, tab.nr, tab.cutoff, tab.dr, tab.nrho, tab.cutoff_rho, tab.drho, _write_text(tab))
    d.attempt("eamclass:" + cls.__name__, f)
  for e in eam + eamfs:
    d.add("eampot", repr((e.species, e.atomicNumber, e.mass, e.latticeConstant, e.latticeType, e.embeddingValue(2.0))))
  d.attempt("eam.electronDensity", lambda: repr(eam[0].electronDensity(1.5)))

  # 5. plot helpers and TableReader
  for args in [(0.0, 5.0, pots0[0].energy, 10), (1.0, 2.0, pots[2].energy, 7), (0.5, 3.0, bks, 1)]:
    def f():
      sio = io.StringIO()
      ap.plotToFile(sio, args[0], args[1], args[2], args[3])
      return sio.getvalue()
    d.attempt("plotToFile:%r" % (args[:2] + args[3:],), f)
  def f():
    sio = io.StringIO()
    ap.plotToFile(sio, 0.5, 3.0, bks)
    return hashlib.sha256(sio.getvalue().encode()).hexdigest()
  d.attempt("plotToFile:default-steps", f)
  def f():
    sio = io.StringIO()
    ap.plotPotentialObjectToFile(sio, 0.5, 3.0, pots[1], 9)
    return sio.getvalue()
  d.attempt("plotPotentialObjectToFile", f)
  tmpdir = tempfile.mkdtemp()
  def f():
    fn = os.path.join(tmpdir, "plot.dat")
    ap.plot(fn, 0.2, 4.0, bks, 13)
    ap.plotPotentialObject(fn + "2", 0.2, 4.0, pots[0], 13)
    return open(fn).read() + open(fn + "2").read()
  d.attempt("plot", f)
  tr = ap.TableReader(io.StringIO(u"#c\n0.0 1.0\n\n2.0 5.0\n1.0 2.0\n"))
  d.add("TableReader", repr([tr(x) for x in (-1.0, 0.0, 0.5, 1.0, 1.5, 2.0, 3.0)]))

  # 6. potable command line (tabulation, queries, error paths)
  spinel = os.path.join(_WT, "tests", "config", "config_resources", "spinel.aspot")
  outfn = os.path.join(tmpdir, "out.tab")
  for argv in [[basak, outfn, "-e", "Tabulation:target=GULP"],
               [basak, outfn, "-e", "Tabulation:target=csv_nope"],
               [basak, outfn, "-e", "Tabulation:target=DL_POLY", "Tabulation:nr=1001", "-r", "Tabulation:dr"],
               [basak, "--list-items"], [spinel, "--list-item-labels"], [basak, "--item-value", "Tabulation:target"],
               [spinel, outfn, "--include-species", "Mg", "O"],
               [basak, outfn, "-a", "Pair:O-U=as.buck 1 2 3"],
               [basak, outfn, "-e", "Pair:O-Nope=as.buck 1 2 3"]]:
    if os.path.exists(outfn):
      os.remove(outfn)
    short = [os.path.basename(a) if os.path.isabs(a) else a for a in argv]
    d.attempt("potable:%r" % (short,), lambda: _potable(argv))
    d.add("potable-out:%r" % (short,), open(outfn).read() if os.path.exists(outfn) else "<absent>")
  return d


# ---------------------------------------------------------------------------
# Part (b): new read-only conveniences (edit B): Potential.species_pair / __repr__,
# EAMPotential.__repr__, tabulation .species_pairs / .species / __repr__
# ---------------------------------------------------------------------------
import subprocess

def check(label, ok):
  print("  %-78s %s" % (label, "ok" if ok else "FAILED"))
  if not ok:
    check.failed += 1
check.failed = 0

def _reprs():
  """repr() of a tabulation object of every registered target, built from the shipped example files"""
  out = []
  files = sorted(glob.glob(os.path.join(_WT, "docs", "user_guide", "example_files", "*.aspot")))
  files += sorted(glob.glob(os.path.join(_WT, "tests", "config", "config_resources", "*.aspot")))
  for path in files:
    text = open(path).read()
    targets = _FS_TARGETS if ("[EAM-Density]" in text and "->" in text) else (_EAM_TARGETS[:-1] if "[EAM-Embed]" in text else _PAIR_TARGETS)
    for t in targets:
      with open(path) as infile:
        cp = ConfigParser(infile, overrides=[CPT("Tabulation", "target", t)])
      try:
        tab = Configuration().read_from_parser(cp)
      except ConfigurationException:
        continue
      out.append("%s %s %r %r %r" % (os.path.basename(path), t, tab, tab.potentials, getattr(tab, "eam_potentials", None)))
  return out

def new_feature_digest():
  d = _Digest()
  for line in _reprs():
    d.add("repr", line)
  return d

def demonstrate_new_feature():
  if not hasattr(ap.Potential, "species_pair"):
    print("NEW FEATURE: Potential.species_pair absent (clean tree)")
    return
  print("NEW FEATURE: read-only convenience properties and __repr__")
  calls = []
  def f(r):
    calls.append(r)
    return 2.0 * r
  p = ap.Potential("Xe", "O", f)
  check("Potential.species_pair keeps constructor order", p.species_pair == ("Xe", "O") == (p.speciesA, p.speciesB))
  check("repr(Potential)", repr(p) == "Potential(speciesA='Xe', speciesB='O')" == str(p))
  e = ap.EAMPotential("Al", 13, 26.98, f, {"Cu": f, "Al": f}, 4.05)
  check("repr(EAMPotential)", repr(e) == "EAMPotential(species='Al', atomicNumber=13, mass=26.98, latticeConstant=4.05, latticeType='fcc')")
  class Duck(object):
    # only the documented PotentialInterface
    speciesA = "A"; speciesB = "B"
    def energy(self, r): calls.append(r); return r
    def force(self, r): calls.append(r); return -1.0
  tab = pt.LAMMPS_PairTabulation([p, Duck()], 4.0, 5)
  check("species_pairs works with duck-typed potentials", tab.species_pairs == [("Xe", "O"), ("A", "B")])
  check("repr(LAMMPS_PairTabulation)", repr(tab) == "LAMMPS_PairTabulation(target='LAMMPS', cutoff=4.0, nr=5, species_pairs=[('Xe', 'O'), ('A', 'B')])")
  etab = et.SetFL_FS_EAMTabulation([p], [e, ap.EAMPotential("Cu", 29, 63.55, f, {"Cu": f, "Al": f})], 4.0, 5, 10.0, 11)
  check("EAM tabulation .species keeps eam_potentials order", etab.species == ["Al", "Cu"])
  check("repr(SetFL_FS_EAMTabulation)", repr(etab) == "SetFL_FS_EAMTabulation(target='setfl_fs', cutoff=4.0, nr=5, species_pairs=[('Xe', 'O')], cutoff_rho=10.0, nrho=11, species=['Al', 'Cu'])")
  atab = et.ADP_EAMTabulation([p], [e], [p], [], 4.0, 5, 10.0, 11)
  check("repr(ADP_EAMTabulation)", repr(atab).startswith("ADP_EAMTabulation(target='eam_adp', cutoff=4.0, nr=5, "))
  check("C12: none of the above evaluated any function", calls == [])
  ro = 0
  for obj, name in [(p, "species_pair"), (tab, "species_pairs"), (etab, "species"), (tab, "dr")]:
    try:
      setattr(obj, name, 1)
    except AttributeError:
      ro += 1
  check("the new properties are read-only", ro == 4)
  # write() unchanged by having asked for the reprs / properties first (C12 order independence)
  s1 = io.StringIO(); tab.write(s1)
  s2 = io.StringIO(); pt.LAMMPS_PairTabulation([p, Duck()], 4.0, 5).write(s2)
  check("C12: output identical whether or not properties/repr were used before write()", s1.getvalue() == s2.getvalue() and len(s1.getvalue()) > 0)
  lines = _reprs()
  check("repr works for a tabulation of every registered target (%d objects)" % len(lines), len(lines) > 40 and not any(" object at 0x" in l for l in lines))
  digests = set()
  for seed in ("0", "1", "4242"):
    env = dict(os.environ, PYTHONHASHSEED=seed)
    out = subprocess.check_output([sys.executable, "-W", "ignore", "/tmp/wtpy.py", _WT, os.path.abspath(__file__), "--child"], env=env)
    digests.add(out.decode().strip())
  check("C12: reprs identical for PYTHONHASHSEED 0/1/4242", len(digests) == 1 and new_feature_digest().hexdigest() in digests)
  print("NEW-FEATURE-DIGEST", new_feature_digest().hexdigest())
  print("NEW FEATURE CHECKS FAILED: %d" % check.failed)


if __name__ == "__main__":
  if "--child" in sys.argv:
    print(new_feature_digest().hexdigest())
  else:
    d = existing_behaviour_digest()
    print("EXISTING-BEHAVIOUR-DIGEST %d items %s" % (d.n, d.hexdigest()))
    demonstrate_new_feature()

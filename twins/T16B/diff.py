"""Differential script for twin B (tabulated input readers: _tablereaders / TableReader, and the plot functions).

Run with:  /venv/bin/python -W ignore /tmp/wtpy.py <worktree> _twins/diffB.py
"""
import glob
import hashlib
import io
import os

import atsim.potentials as ap
from atsim.potentials import TableReader, Potential, EAMPotential, writePotentials
from atsim.potentials import _tablereaders

records = []


def rec(tag, value):
  records.append("{}::{!r}".format(tag, value))


def attempt(tag, func):
  try:
    rec(tag, func())
  except Exception as e:  # noqa
    rec(tag, "EXC " + type(e).__name__ + " " + str(e))


nan = float("nan")
inf = float("inf")

tables = {
  "sorted": u"0.0 1.0\n1.0 3.0\n2.0 2.0\n4.0 -1.0\n",
  "unsorted": u"4.0 -1.0\n0.0 1.0\n2.0 2.0\n1.0 3.0\n",
  "comments": u"# a header\n\n  0.5   10.0  \n#1.0 99\n1.5\t20.0\n   \n2.5 5.0 # trailing\n",
  "extracols": u"0 1 2 3\n1 2 3 4\n2 0 0 0\n",
  "tabs": u"0\t0\n1\t\t1\n2 \t 4\n3\t9\n",
  "dupx": u"0 0\n1 5\n1 2\n2 3\n",
  "single": u"1.5 2.5\n",
  "two": u"-1 -2\n1 2\n",
  "negative": u"-3.0 9\n-2.0 4\n-1.0 1\n0.0 0\n",
  "exp": u"1e-3 1E2\n2.5e-1 -3.5e+1\n1e1 0\n",
  "crlf": u"0 1\r\n1 2\r\n\r\n2 4\r\n",
  "naninf": u"0 nan\n1 inf\n2 1\n",
  "nanx": u"0 1\nnan 2\n2 3\n",
  "empty": u"",
  "onlycomments": u"# nothing\n\n#here\n",
  "onecol": u"0 1\n2\n3 4\n",
  "notnum": u"0 1\na b\n",
  "notnum2": u"0 1\n1 1.0.0\n",
  "hashinside": u"0 1\n 1# 2\n",
  "unicode_ws": u"0 1\n1 2\n　2 3\n",
}

queries = [-5.0, -3.0, -2.5, -1.0, -0.5, 0.0, 0, 1e-3, 0.25, 0.5, 0.75, 1, 1.0, 1.25, 1.5, 1.9999999, 2.0,
           2.5, 3.0, 3.999, 4.0, 4.0000001, 7.5, 10.0, 11.0, 1e300, -1e300, inf, -inf, nan]

for name, text in sorted(tables.items()):
  def construct(text=text):
    t = TableReader(io.StringIO(text))
    dr = t.datReader
    return (type(dr).__name__, isinstance(dr, list), list(dr), len(dr.xproxy), [dr.xproxy[i] for i in range(len(dr))])
  attempt("construct " + name, construct)

  try:
    t = TableReader(io.StringIO(text))
  except Exception:
    continue
  for q in queries:
    attempt("call {} {!r}".format(name, q), lambda: t(q))
    attempt("getValue {} {!r}".format(name, q), lambda: t.datReader.getValue(q))
    attempt("findIndex {} {!r}".format(name, q), lambda: t.datReader._findIndex(q))
  attempt("call-str " + name, lambda: t("1.0"))
  attempt("call-none " + name, lambda: t(None))


# Unit converting readers
def times10(v):
  return v * 10.0


def negate(v):
  return -v


def bad_convert(v):
  if v > 1.0:
    raise ValueError("cannot convert {}".format(v))
  return v


for name in ["sorted", "unsorted", "comments", "negative", "empty", "single"]:
  for cname, (ic, oc) in sorted({
      "none": (None, None), "in": (times10, None), "out": (None, negate), "both": (times10, negate),
      "bad": (bad_convert, None), "badout": (None, bad_convert), "notcallable": (3, None)}.items()):
    def run(name=name, ic=ic, oc=oc):
      dr = _tablereaders.DatReader(io.StringIO(tables[name]), ic, oc)
      return (list(dr), [dr.getValue(q) for q in [-100.0, -25.0, -1.0, 0.0, 5.0, 7.5, 10.0, 12.5, 15, 39.9, 40.0, 41.0]])
    attempt("convert {} {}".format(name, cname), run)

# Lines handed over by different kinds of iterables
attempt("list-of-lines", lambda: list(TableReader([u"3 4\n", u"", u"#x", u"1 2"]).datReader))
attempt("bytes-lines", lambda: list(TableReader([b"3 4\n", b"1 2"]).datReader))
attempt("bytes-empty", lambda: list(TableReader([b"", b"  "]).datReader))
attempt("none-file", lambda: TableReader(None))
attempt("int-lines", lambda: TableReader([1, 2]))
attempt("base-abstract", lambda: _tablereaders.TableReaderBase(io.StringIO(u"0 1\n")))
attempt("generator-file", lambda: list(TableReader(l for l in [u"2 1\n", u"1 2\n", u"1 1\n"]).datReader))

# The table resources shipped with the tests, used the way the tests use them
resdir = os.path.join(os.getcwd(), "tests", "lammps_resources")
for path in sorted(glob.glob(os.path.join(resdir, "*.table"))):
  def run(path=path):
    with open(path) as infile:
      t = TableReader(infile)
    dr = t.datReader
    lo = dr[0][0]
    hi = dr[-1][0]
    n = 257
    xs = [lo + (hi - lo) * i / float(n - 1) for i in range(-3, n + 3)]
    xs.extend(x for x, y in dr[::37])
    return (len(dr), dr[0], dr[-1], [t(x) for x in xs])
  attempt("resource " + os.path.basename(path), run)

# Tabulated functions driven through the writers
pair_txt = u"".join("{} {}\n".format(0.1 * i, (0.1 * i - 2.0) ** 2 - 1.0) for i in range(0, 61))
dens_txt = u"".join("{} {}\n".format(0.25 * i, 2.0 / (1.0 + 0.25 * i)) for i in range(0, 30))
embed_txt = u"".join("{} {}\n".format(0.5 * i, -(0.5 * i) ** 0.5) for i in range(0, 25))


def tab(txt):
  return TableReader(io.StringIO(txt))


for kind, nr in [("LAMMPS", 25), ("DL_POLY", 24), ("GULP", 13)]:
  def run(kind=kind, nr=nr):
    sio = io.StringIO()
    writePotentials(kind, [Potential(u"A", u"B", tab(pair_txt)), Potential(u"B", u"B", tab(dens_txt))], 5.5, nr, sio)
    return sio.getvalue()
  attempt("writePotentials " + kind, run)


def setfl():
  sio = io.StringIO()
  eam = [EAMPotential(u"A", 1, 1.0, tab(embed_txt), tab(dens_txt))]
  ap.writeSetFL(20, 0.5, 20, 0.25, eam, [Potential(u"A", u"A", tab(pair_txt))], out=sio, comments=[u"a", u"b", u"c"])
  return sio.getvalue()


attempt("writeSetFL", setfl)

# ---------------------------------------------------------------- plotting
import math
import tempfile
from atsim.potentials import potentialforms


class Recording_FP(object):
  """File-like object remembering each individual write() call"""

  def __init__(self):
    self.calls = []

  def write(self, s):
    self.calls.append(s)


class Text(object):
  """Value with its own __format__ / __str__ to check how values get formatted"""

  def __init__(self, v):
    self.v = v

  def __format__(self, spec):
    return "F<{}|{}>".format(self.v, spec)

  def __str__(self):
    return "S<{}>".format(self.v)


def boom_at(limit):
  def f(r):
    if r >= limit:
      raise RuntimeError("boom at {}".format(r))
    return r * r
  return f


funcs = {
  "sin": math.sin,
  "buck": potentialforms.buck(1000.0, 0.3, 32.0),
  "int": lambda r: 3,
  "text": Text,
  "none": lambda r: None,
  "table": TableReader(io.StringIO(tables["sorted"])),
  "boom": boom_at(1.0),
}

ranges = [(0.1, 10.0, 100), (1.0, 2.0, 7), (0, 3, 3), (5.0, 1.0, 4), (-2.0, 2.0, 1), (0.1, 0.2, 10000),
          (1.0, 2.0, 0), (1.0, 2.0, -3), (1.0, 2.0, 2.5), (1.0, 2.0, "3"), ("a", 2.0, 3), (1.0, None, 3)]

for fname, func in sorted(funcs.items()):
  for lowx, highx, steps in ranges:
    def run(func=func, a=(lowx, highx, steps)):
      fp = Recording_FP()
      try:
        ret = ap.plotToFile(fp, a[0], a[1], func, a[2])
      except Exception as e:
        return ("EXC", type(e).__name__, str(e), len(fp.calls), hashlib.sha256(u"".join(fp.calls).encode()).hexdigest())
      return (ret, len(fp.calls), fp.calls[:3], hashlib.sha256(u"".join(fp.calls).encode()).hexdigest())
    attempt("plotToFile {} {!r} {!r} {!r}".format(fname, lowx, highx, steps), run)

    def run_obj(func=func, a=(lowx, highx, steps)):
      fp = Recording_FP()
      pot = Potential(u"A", u"B", func)
      try:
        ret = ap.plotPotentialObjectToFile(fp, a[0], a[1], pot, a[2])
      except Exception as e:
        return ("EXC", type(e).__name__, str(e), len(fp.calls), hashlib.sha256(u"".join(fp.calls).encode()).hexdigest())
      return (ret, len(fp.calls), fp.calls[:3], hashlib.sha256(u"".join(fp.calls).encode()).hexdigest())
    attempt("plotPotentialObjectToFile {} {!r} {!r} {!r}".format(fname, lowx, highx, steps), run_obj)

# default number of steps
for fname in ["sin", "table"]:
  def run(func=funcs[fname]):
    sio = io.StringIO()
    ap.plotToFile(sio, 0.5, 3.5, func)
    sio2 = io.StringIO()
    ap.plotPotentialObjectToFile(sio2, 0.5, 3.5, Potential(u"A", u"B", func))
    return (sio.getvalue().count(u"\n"), hashlib.sha256(sio.getvalue().encode()).hexdigest(), sio.getvalue() == sio2.getvalue())
  attempt("default-steps " + fname, run)

# objects without an energy method are only a problem once a point is evaluated
attempt("noenergy -2", lambda: ap.plotPotentialObjectToFile(Recording_FP(), 0.0, 1.0, object(), -2))
attempt("noenergy 0", lambda: ap.plotPotentialObjectToFile(Recording_FP(), 0.0, 1.0, object(), 0))
attempt("noenergy 2", lambda: ap.plotPotentialObjectToFile(Recording_FP(), 0.0, 1.0, object(), 2))
attempt("nonefile", lambda: ap.plotToFile(None, 0.0, 1.0, math.sin, 2))
attempt("nonefile 0 steps", lambda: ap.plotToFile(None, 0.0, 1.0, math.sin, -1))

# file name based variants
tmpd = tempfile.mkdtemp()
for fname, func in sorted(funcs.items()):
  for lowx, highx, steps in [(0.1, 10.0, 100), (1.0, 2.0, 7), (1.0, 2.0, 0), (0.5, 3.0, 11)]:
    def run(func=func, a=(lowx, highx, steps), fname=fname):
      out = []
      for label, plotter, target in [("plot", ap.plot, func), ("plotPotentialObject", ap.plotPotentialObject, Potential(u"X", u"Y", func))]:
        path = os.path.join(tmpd, "{}_{}.dat".format(label, fname))
        if os.path.exists(path):
          os.remove(path)
        try:
          ret = plotter(path, a[0], a[1], target, a[2])
        except Exception as e:
          ret = ("EXC", type(e).__name__, str(e))
        with open(path, "rb") as infile:
          out.append((label, ret, infile.read()))
      return out
    attempt("plotfiles {} {!r} {!r} {!r}".format(fname, lowx, highx, steps), run)
def only_type(func):
  # the message holds the (random) temporary path
  try:
    return func()
  except Exception as e:
    return "EXC " + type(e).__name__


attempt("plot-baddir", lambda: only_type(lambda: ap.plot(os.path.join(tmpd, "missing", "x.dat"), 0.0, 1.0, math.sin, 3)))
attempt("plotobj-baddir", lambda: only_type(lambda: ap.plotPotentialObject(os.path.join(tmpd, "missing", "x.dat"), 0.0, 1.0, Potential(u"A", u"B", math.sin), 3)))

import inspect
for n in ["plot", "plotToFile", "plotPotentialObject", "plotPotentialObjectToFile"]:
  rec("signature " + n, (str(inspect.signature(getattr(ap, n))), getattr(ap, n).__name__, getattr(ap, n).__doc__))

h = hashlib.sha256()
for r in records:
  h.update(r.encode("utf-8"))
  h.update(b"\n")
print("records", len(records))
print("excs", sum(1 for r in records if "EXC" in r))
print("digest", h.hexdigest())

"""Differential script for twin B.

Twin B restructures writeTABEAM / writeTABEAMFinnisSinclair around a shared
_writeTABEAMFile() driver with pluggable density writers and routes the
TABEAM_* tabulation classes' write() methods through a common helper on
_EAMTabulationAbstractbase.

This script drives
  * the functional API directly (well formed + malformed input, re-using the
    case generators from diffA.py),
  * TABEAM_EAMTabulation / TABEAM_FinnisSinclair_EAMTabulation objects
    (including sub-classes with instrumented properties so that the order in
    which settings are read is observable),
  * the .aspot Configuration route (targets DL_POLY_EAM and DL_POLY_EAM_fs)
and prints a sha256 over every observable result.
"""
import hashlib
import io
import math
import os
import sys

sys.path.insert(0, os.path.dirname(os.path.abspath(__file__)))
import diffA  # noqa  (case generators + Recorder/Traced helpers)

from atsim.potentials import EAMPotential, Potential
from atsim.potentials.eam_tabulation import TABEAM_EAMTabulation, TABEAM_FinnisSinclair_EAMTabulation
from atsim.potentials.eam_tabulation import SetFL_EAMTabulation, SetFL_FS_EAMTabulation
from atsim.potentials.config import Configuration

LOG = diffA.LOG
log = diffA.log
Recorder = diffA.Recorder
Traced = diffA.Traced


def write_tabulation(label, tabulation, extra=None):
  rec = Recorder()
  try:
    rv = tabulation.write(rec)
    log(label, "OK", repr(rv), rec.calls)
  except BaseException as e:
    log(label, "EXC", type(e).__name__, str(e), rec.calls)
  attrs = []
  for name in ("type", "target", "nr", "dr", "nrho", "drho", "cutoff", "cutoff_rho"):
    try:
      attrs.append((name, repr(getattr(tabulation, name))))
    except BaseException as e:
      attrs.append((name, "EXC", type(e).__name__, str(e)))
  log(label, "ATTRS", attrs)
  if extra is not None:
    log(label, "EXTRA", extra)


def tabulation_objects():
  settings = [
    (5.0, 11, 2.0, 5),
    (1.0, 2, 1.0, 2),
    (6.5, 27, 100.0, 9),
    (3, 4, 7, 8),          # integer cutoffs
    (2.5, 1, 2.5, 6),      # nr == 1 -> ZeroDivisionError in dr
    (2.5, 6, 2.5, 1),      # nrho == 1 -> ZeroDivisionError in drho
    (2.5, 6.0, 2.5, 4),    # float nr
    (2.5, 6, "2.5", 4),    # string cutoff_rho
    (None, 6, 2.5, 4),
  ]
  systems = [
    (["Ag"], [("Ag", "Ag")]),
    (["Cu", "Al"], [("Al", "Cu"), ("Cu", "Cu")]),
    (["Zr", "Al", "Cu"], [("Cu", "Al"), ("Zr", "Zr"), ("Al", "Zr"), ("Al", "Cu")]),
    ([], []),
  ]
  for si, (cutoff, nr, cutoff_rho, nrho) in enumerate(settings):
    for yi, (species, pairs) in enumerate(systems):
      for fs, cls in ((False, TABEAM_EAMTabulation), (True, TABEAM_FinnisSinclair_EAMTabulation)):
        trace = []
        eampots = diffA.make_eam(species, trace, fs)
        pairpots = diffA.make_pairs(pairs, trace)
        label = "tab/%d/%d/%s" % (si, yi, cls.__name__)
        try:
          tabulation = cls(pairpots, eampots, cutoff, nr, cutoff_rho, nrho)
        except BaseException as e:
          log(label, "CTOR-EXC", type(e).__name__, str(e))
          continue
        write_tabulation(label, tabulation, trace)

  # Wrong kind of density for the tabulation class
  trace = []
  write_tabulation("tab/wrongdens/std", TABEAM_EAMTabulation(
    diffA.make_pairs([("A", "B")], trace), diffA.make_eam(["A", "B"], trace, True), 4.0, 5, 4.0, 5), trace)
  trace = []
  write_tabulation("tab/wrongdens/fs", TABEAM_FinnisSinclair_EAMTabulation(
    diffA.make_pairs([("A", "B")], trace), diffA.make_eam(["A", "B"], trace, False), 4.0, 5, 4.0, 5), trace)
  # Missing density entry
  ident = lambda x: x
  eampots = [EAMPotential("Q", 1, 1.0, ident, {"Q": ident}), EAMPotential("R", 1, 1.0, ident, {"Q": ident, "R": ident})]
  write_tabulation("tab/missingdens/fs", TABEAM_FinnisSinclair_EAMTabulation([], eampots, 4.0, 5, 4.0, 5))

  # Sub-classes that reveal the order in which write() reads the object's settings
  def instrument(cls, broken=None):
    events = []

    class Instrumented(cls):
      pass

    def make_prop(name):
      base_prop = getattr(cls, name)

      def getter(self):
        events.append(name)
        if name == broken:
          raise RuntimeError("broken property " + name)
        return base_prop.fget(self)
      return property(getter)

    for name in ("nr", "dr", "nrho", "drho", "cutoff", "cutoff_rho", "potentials", "eam_potentials"):
      setattr(Instrumented, name, make_prop(name))
    return Instrumented, events

  for cls, fs in ((TABEAM_EAMTabulation, False), (TABEAM_FinnisSinclair_EAMTabulation, True),
                  (SetFL_EAMTabulation, False), (SetFL_FS_EAMTabulation, True)):
    for broken in (None, "nr", "dr", "nrho", "drho", "cutoff", "cutoff_rho", "potentials", "eam_potentials"):
      icls, events = instrument(cls, broken)
      trace = []
      tabulation = icls(diffA.make_pairs([("A", "B"), ("B", "B")], trace), diffA.make_eam(["B", "A"], trace, fs), 3.0, 4, 2.0, 3)
      rec = Recorder()
      label = "instr/%s/%s" % (cls.__name__, broken)
      try:
        rv = tabulation.write(rec)
        log(label, "OK", repr(rv), rec.calls, list(events))
      except BaseException as e:
        log(label, "EXC", type(e).__name__, str(e), rec.calls, list(events))

  # Sub-class overriding write() and calling up the chain
  class Prefixed(TABEAM_EAMTabulation):
    def write(self, fp):
      fp.write(u"# prefix\n")
      return super(Prefixed, self).write(fp)
  trace = []
  write_tabulation("tab/prefixed", Prefixed(diffA.make_pairs([("A", "A")], trace), diffA.make_eam(["A"], trace), 3.0, 4, 2.0, 3), trace)

  # Public surface of the classes
  for cls in (TABEAM_EAMTabulation, TABEAM_FinnisSinclair_EAMTabulation):
    log("surface", cls.__name__, sorted(n for n in dir(cls) if not n.startswith("_")), [b.__name__ for b in cls.__mro__])


CFG_EAM = u"""[Tabulation]
target : {target}
nr : {nr}
dr : {dr}
nrho : {nrho}
drho : {drho}

[Potential-Form]
buck_morse(r, A, rho, C, D, gamma, r0) = as.buck(r,A,rho,C) + as.morse(r, gamma, r0, D)
density(r, n) = (n/(r+0.1)^8) * 0.5 * (1+erf(20*(r-1.5)))

[EAM-Embed]
{embed}

[EAM-Density]
{density}

[Pair]
{pair}
"""


def configurations():
  std_systems = [
    ("Ce  = as.sqrt -0.308\nO  = as.sqrt -0.690",
     "Ce  = density 1556.803\nO  = density 106.856",
     "O-O   = as.buck 830.283 0.352856 3.884372\nCe-Ce = as.buck 18600 0.2664 0.0\nCe-O  = buck_morse 351.341 0.380517 0.0 0.71925 1.86875 2.35604"),
    ("O  = as.sqrt -0.690\nCe  = as.sqrt -0.308",      # different element order
     "O  = density 106.856\nCe  = density 1556.803",
     "Ce-O  = buck_morse 351.341 0.380517 0.0 0.71925 1.86875 2.35604\nO-O   = as.buck 830.283 0.352856 3.884372"),
    ("U = as.polynomial 0 1 -0.5",
     "U = as.exponential 2.0 -1.5",
     "U-U = as.bornmayer 1000 0.3"),
    ("Zr = as.sqrt -1.0\nAl = as.polynomial 0 -1\nCu = as.sqrt -2",
     "Zr = as.exponential 1 -1\nAl = as.exponential 2 -2\nCu = as.exponential 3 -0.5",
     "Al-Cu = as.buck 1000 0.3 10\nZr-Zr = as.bornmayer 500 0.25"),
  ]
  fs_systems = [
    ("Al = as.sqrt -1.0\nFe = as.sqrt -2.0",
     "Al->Al = as.exponential 1 -1\nFe->Fe = as.exponential 2 -2\nFe->Al = as.exponential 3 -1.5\nAl->Fe = as.exponential 4 -0.5",
     "Al-Al = as.bornmayer 1000 0.3\nAl-Fe = as.bornmayer 1500 0.31\nFe-Fe = as.bornmayer 2000 0.29"),
    ("Fe = as.sqrt -2.0\nAl = as.sqrt -1.0",
     "Fe->Al = as.exponential 3 -1.5\nAl->Fe = as.exponential 4 -0.5\nAl->Al = as.exponential 1 -1\nFe->Fe = as.exponential 2 -2",
     "Fe-Fe = as.bornmayer 2000 0.29"),
    ("Al = as.sqrt -1.0\nFe = as.sqrt -2.0",           # Al->Fe missing
     "Al->Al = as.exponential 1 -1\nFe->Fe = as.exponential 2 -2\nFe->Al = as.exponential 3 -1.5",
     "Al-Al = as.bornmayer 1000 0.3"),
    ("W = as.sqrt -1.0",
     "W->W = as.exponential 1 -1",
     "W-W = as.bornmayer 1000 0.3"),
  ]
  grids = [(20, 0.25, 15, 0.5), (7, 0.01, 9, 1.0), (101, 0.05, 3, 10)]
  for target, systems in (("DL_POLY_EAM", std_systems), ("DL_POLY_EAM_fs", fs_systems),
                          ("DL_POLY_EAM", fs_systems[:1]), ("DL_POLY_EAM_fs", std_systems[:1])):
    for yi, (embed, density, pair) in enumerate(systems):
      for gi, (nr, dr, nrho, drho) in enumerate(grids):
        label = "cfg/%s/%d/%d" % (target, yi, gi)
        cfg = CFG_EAM.format(target=target, nr=nr, dr=dr, nrho=nrho, drho=drho, embed=embed, density=density, pair=pair)
        try:
          tabulation = Configuration().read(io.StringIO(cfg))
        except BaseException as e:
          log(label, "READ-EXC", type(e).__name__, str(e))
          continue
        log(label, type(tabulation).__name__)
        write_tabulation(label, tabulation)
        # Writing to a real text stream too
        sio = io.StringIO()
        try:
          tabulation.write(sio)
          log(label, "SIO", sio.getvalue())
        except BaseException as e:
          log(label, "SIO-EXC", type(e).__name__, str(e), sio.getvalue())

  # The repository's own DL_POLY EAM model file
  here = os.path.dirname(os.path.abspath(__file__))
  path = os.path.join(here, os.pardir, "tests", "dl_poly_resources", "CRG_Ce.aspot")
  with io.open(path, encoding="utf8") as infile:
    tabulation = Configuration().read(infile)
  write_tabulation("cfg/CRG_Ce", tabulation)


def main():
  diffA.well_formed()
  diffA.malformed()
  tabulation_objects()
  configurations()
  blob = "\n".join(LOG).encode("utf-8")
  print("records:", len(LOG))
  print("bytes:", len(blob))
  print("sha256:", hashlib.sha256(blob).hexdigest())


if __name__ == "__main__":
  main()

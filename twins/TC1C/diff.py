"""Differential script (twin A/B/C share the same harness; FOCUS selects emphasis).
Prints sha256 digest of every output / exception type produced by the writers."""
import hashlib, io, math, sys
import atsim.potentials as P
from atsim.potentials import Potential, EAMPotential
from atsim.potentials import pair_tabulation as PT, eam_tabulation as ET
from atsim.potentials import _dlpoly_writeTABLE, _lammps_writeTABLE, _dlpoly_writeTABEAM, _lammpsWriteEAM

FOCUS = "C"
results = []

class Out(object):
  """file-like that records each write call"""
  def __init__(self): self.writes = []
  def write(self, s): self.writes.append(s)
  def value(self): return "".join(self.writes)

def run(label, fn, *args, **kwargs):
  out = Out()
  try:
    ret = fn(*args, out=out, **kwargs)
    res = ("ok", repr(ret), len(out.writes), out.value())
  except BaseException as e:
    res = ("exc", type(e).__name__, str(e), len(out.writes), out.value())
  results.append((label, res))

def runfp(label, tab):
  out = Out()
  try:
    ret = tab.write(out)
    res = ("ok", repr(ret), len(out.writes), out.value())
  except BaseException as e:
    res = ("exc", type(e).__name__, str(e), len(out.writes), out.value())
  results.append((label, res))

def bks(A, rho, C):
  return lambda r: A*math.exp(-r/rho) - (C/r**6 if r else 0.0)
def lj(e, s):
  def f(r):
    if r == 0.0: return 1e10
    return 4*e*((s/r)**12-(s/r)**6)
  return f
def failing_after(n, exc):
  c = [0]
  def f(r):
    c[0] += 1
    if c[0] > n: raise exc("boom at %r" % (r,))
    return 1.0/(1.0+r)
  return f
def returns_str(r): return "x"
def intfunc(r): return 3

def pairs(order):
  d = {"OO": Potential("O", "O", bks(1388.77, 0.3623, 175.0)),
       "SiO": Potential("Si", "O", bks(18003.7572, 0.2052, 133.5381)),
       "MgO": Potential("O", "Mg", lj(0.01, 2.5)),
       "AlAl": Potential("Al", "Al", lj(0.3, 2.6)),
       "AlFe": Potential("Fe", "Al", bks(500.0, 0.3, 10.0)),
       "FeFe": Potential("Fe", "Fe", lj(0.4, 2.3)),
       "int": Potential("X", "Y", intfunc)}
  return [d[k] for k in order]

def embed(a): return lambda rho: -a*math.sqrt(rho)
def dens(a, b): return lambda r: a*math.exp(-b*r)

def eams(order):
  d = {"Al": EAMPotential("Al", 13, 26.98, embed(1.0), dens(2.0, 1.1), 4.05, "fcc"),
       "Fe": EAMPotential("Fe", 26, 55.845, embed(1.7), dens(3.0, 0.9), 2.855, "bcc"),
       "Cu": EAMPotential("Cu", 29, 63.55, embed(0.7), dens(1.5, 1.3))}
  return [d[k] for k in order]

def eams_fs(order, missing=None):
  out = []
  for i, k in enumerate(order):
    dd = dict((o, dens(1.0+i+0.25*j, 0.8+0.1*j)) for j, o in enumerate(sorted(order)))
    if missing and k == missing[0]: del dd[missing[1]]
    out.append(EAMPotential(k, 10+i, 20.0+i, embed(1.0+i), dd, 3.0+i, ["fcc","bcc","hcp"][i%3]))
  return out

# ---- pair tables
for order in (["OO"], ["OO","SiO","MgO"], ["MgO","SiO","OO","int"], []):
  for cutoff, n in ((10.0, 12), (6.5, 8), (3.0, 4), (12.0, 1000)):
    run(("dlpoly", tuple(order), cutoff, n), _dlpoly_writeTABLE.writePotentials, pairs(order), cutoff, n)
    run(("lammps", tuple(order), cutoff, n), _lammps_writeTABLE.writePotentials, pairs(order), 0.1, cutoff, n)
    for typ in ("DL_POLY", "LAMMPS", "GULP"):
      run(("api", typ, tuple(order), cutoff, n), lambda o, c, g, out, t=typ: P.writePotentials(t, o, c, g, out), pairs(order), cutoff, n)
# malformed
for n in (7, 0, -4, 4, 1, 2, 8.0, 5.0, "8", None, True):
  run(("dlpoly-bad", repr(n)), _dlpoly_writeTABLE.writePotentials, pairs(["OO","SiO"]), 10.0, n)
  run(("lammps-bad", repr(n)), _lammps_writeTABLE.writePotentials, pairs(["OO","SiO"]), 1.0, 10.0, n)
for c in ("10", None, 0, -3.0, float("nan"), float("inf"), 7):
  run(("dlpoly-badcut", repr(c)), _dlpoly_writeTABLE.writePotentials, pairs(["OO","SiO"]), c, 8)
  run(("lammps-badcut", repr(c)), _lammps_writeTABLE.writePotentials, pairs(["OO","SiO"]), 1, c, 8)
  run(("lammps-badmin", repr(c)), _lammps_writeTABLE.writePotentials, pairs(["OO","SiO"]), c, 9.0, 8)
for nfail in (0, 1, 3, 4, 5, 9, 17, 30):
  for exc in (ValueError, ZeroDivisionError, KeyError):
    bad = [Potential("O","O", lj(0.1,2.0)), Potential("A","B", failing_after(nfail, exc))]
    run(("dlpoly-fail", nfail, exc.__name__), _dlpoly_writeTABLE.writePotentials, bad, 10.0, 8)
    run(("lammps-fail", nfail, exc.__name__), _lammps_writeTABLE.writePotentials, bad, 1.0, 10.0, 8)
for _e in (StopIteration, GeneratorExit, KeyboardInterrupt):
  for _n in (0, 5, 9):
    run(("dlpoly-stopiter", _e.__name__, _n), _dlpoly_writeTABLE.writePotentials, [Potential("A","B",failing_after(_n, _e))], 10.0, 8)
    run(("lammps-stopiter", _e.__name__, _n), _lammps_writeTABLE.writePotentials, [Potential("A","B",failing_after(_n, _e))], 1.0, 10.0, 8)
    run(("tabeam-stopiter", _e.__name__, _n), P.writeTABEAM, 5, 0.1, 6, 0.2, eams(["Al"]), [Potential("Al","Al",failing_after(_n, _e))])
    run(("setfl-stopiter", _e.__name__, _n), P.writeSetFL, 5, 0.1, 6, 0.2, [EAMPotential("Al", 13, 26.98, failing_after(_n, _e), dens(2.0,1.1))], pairs(["AlAl"]))
    run(("funcfl-stopiter", _e.__name__, _n), P.writeFuncFL, 5, 0.1, 6, 0.2, [EAMPotential("Al", 13, 26.98, failing_after(_n, _e), dens(2.0,1.1))], pairs(["AlAl"]))
run(("dlpoly-str",), _dlpoly_writeTABLE.writePotentials, [Potential("A","B",returns_str)], 10.0, 8)
run(("lammps-str",), _lammps_writeTABLE.writePotentials, [Potential("A","B",returns_str)], 1.0, 10.0, 8)
run(("dlpoly-gen",), _dlpoly_writeTABLE.writePotentials, (p for p in pairs(["OO","SiO"])), 10.0, 8)
run(("lammps-gen",), _lammps_writeTABLE.writePotentials, (p for p in pairs(["OO","SiO"])), 1.0, 10.0, 8)
run(("dlpoly-notpot",), _dlpoly_writeTABLE.writePotentials, [1, 2], 10.0, 8)
run(("lammps-notpot",), _lammps_writeTABLE.writePotentials, [1, 2], 1.0, 10.0, 8)
run(("lammps-none",), _lammps_writeTABLE.writePotentials, None, 1.0, 10.0, 8)
run(("dlpoly-none",), _dlpoly_writeTABLE.writePotentials, None, 10.0, 8)

# ---- EAM writers
eamcases = [(["Al"], ["AlAl"]), (["Al","Fe"], ["AlAl","AlFe","FeFe"]), (["Fe","Al"], ["FeFe","AlAl"]),
            (["Cu","Al","Fe"], ["AlFe"]), (["Al","Fe"], []), ([], []), (["Al","Al"], ["AlAl","AlAl"])]
grids = [(5, 0.1, 6, 0.5), (13, 0.37, 9, 0.21), (1, 1.0, 1, 1.0), (0, 0.1, 0, 0.1), (4, 0.5, 7, 0.3), (50, 0.02, 51, 0.1)]
for eo, po in eamcases:
  for nrho, drho, nr, dr in grids:
    key = (tuple(eo), tuple(po), nrho, drho, nr, dr)
    run(("tabeam",)+key, lambda a,b,c,d,e,f,out: P.writeTABEAM(a,b,c,d,e,f,out,"title "+"x"*nr*20), nrho, drho, nr, dr, eams(eo), pairs(po))
    run(("tabeamfs",)+key, lambda a,b,c,d,e,f,out: P.writeTABEAMFinnisSinclair(a,b,c,d,e,f,out,"fs"), nrho, drho, nr, dr, eams_fs(eo), pairs(po))
    run(("setfl",)+key, P.writeSetFL, nrho, drho, nr, dr, eams(eo), pairs(po), comments=["a","b"], cutoff=None)
    run(("setfl2",)+key, P.writeSetFL, nrho, drho, nr, dr, tuple(eams(eo)), tuple(pairs(po)), comments=["a","b","c","d"], cutoff=4.5)
    run(("setflfs",)+key, P.writeSetFLFinnisSinclair, nrho, drho, nr, dr, eams_fs(eo), pairs(po))
    run(("funcfl",)+key, lambda a,b,c,d,e,f,out: P.writeFuncFL(a,b,c,d,e,f,out,"ttl"), nrho, drho, nr, dr, eams(eo), pairs(po))
    runfp(("SetFLTab",)+key, ET.SetFL_EAMTabulation(pairs(po), eams(eo), dr*max(nr-1,1), nr, drho*max(nrho-1,1), nrho))
    runfp(("SetFLFSTab",)+key, ET.SetFL_FS_EAMTabulation(pairs(po), eams_fs(eo), dr*max(nr-1,1), nr, drho*max(nrho-1,1), nrho))
    runfp(("TABEAMTab",)+key, ET.TABEAM_EAMTabulation(pairs(po), eams(eo), dr*max(nr-1,1), nr, drho*max(nrho-1,1), nrho))
    runfp(("TABEAMFSTab",)+key, ET.TABEAM_FinnisSinclair_EAMTabulation(pairs(po), eams_fs(eo), dr*max(nr-1,1), nr, drho*max(nrho-1,1), nrho))
    runfp(("ADPTab",)+key, ET.ADP_EAMTabulation(pairs(po), eams(eo), pairs(po[:1]), pairs(po[-1:]), dr*max(nr-1,1), nr, drho*max(nrho-1,1), nrho))
    runfp(("LMPTab",)+key, PT.LAMMPS_PairTabulation(pairs(po), dr*max(nr-1,1), nr))
    runfp(("DLPTab",)+key, PT.DLPoly_PairTabulation(pairs(po), dr*max(nr-1,1), nr))
    runfp(("GULPTab",)+key, PT.GULP_PairTabulation(pairs(po), dr*max(nr-1,1), nr))
# malformed EAM
run(("tabeamfs-missing",), P.writeTABEAMFinnisSinclair, 5, 0.1, 5, 0.1, eams_fs(["Al","Fe"], ("Fe","Al")), pairs(["AlAl"]))
run(("setflfs-missing",), P.writeSetFLFinnisSinclair, 5, 0.1, 5, 0.1, eams_fs(["Al","Fe"], ("Fe","Al")), pairs(["AlAl"]))
run(("setflfs-plain",), P.writeSetFLFinnisSinclair, 5, 0.1, 5, 0.1, eams(["Al","Fe"]), pairs(["AlAl"]))
run(("tabeamfs-plain",), P.writeTABEAMFinnisSinclair, 5, 0.1, 5, 0.1, eams(["Al","Fe"]), pairs(["AlAl"]))
for bad in (5.0, "5", None, -2):
  for fn, name in ((P.writeTABEAM, "tabeam"), (P.writeSetFL, "setfl"), (P.writeFuncFL, "funcfl"), (P.writeTABEAMFinnisSinclair, "tabeamfs")):
    e = eams_fs(["Al","Fe"]) if name.endswith("fs") else eams(["Al","Fe"])
    run((name+"-badnr", repr(bad)), fn, 5, 0.1, bad, 0.1, e, pairs(["AlAl","AlFe"]))
    run((name+"-badnrho", repr(bad)), fn, bad, 0.1, 5, 0.1, e, pairs(["AlAl","AlFe"]))
    run((name+"-baddr", repr(bad)), fn, 5, 0.1, 5, bad, e, pairs(["AlAl","AlFe"]))
    run((name+"-baddrho", repr(bad)), fn, 5, bad, 5, 0.1, e, pairs(["AlAl","AlFe"]))
for fn, name in ((P.writeTABEAM, "tabeam"), (P.writeSetFL, "setfl"), (P.writeFuncFL, "funcfl")):
  run((name+"-geneam",), fn, 5, 0.1, 5, 0.1, (e for e in eams(["Al","Fe"])), pairs(["AlAl"]))
  run((name+"-genpair",), fn, 5, 0.1, 5, 0.1, eams(["Al","Fe"]), (p for p in pairs(["AlAl","AlFe"])))
  run((name+"-notpots",), fn, 5, 0.1, 5, 0.1, [1, 2], [3])
  run((name+"-nopairs",), fn, 5, 0.1, 5, 0.1, eams(["Al"]), [])
  for nfail in (0, 2, 4, 6, 11, 14):
    for exc in (ValueError, OverflowError):
      fe = [EAMPotential("Al", 13, 26.98, failing_after(nfail, exc), dens(2.0, 1.1), 4.05, "fcc"),
            EAMPotential("Fe", 26, 55.8, embed(1.0), failing_after(nfail+3, exc), 2.8, "bcc")]
      run((name+"-fail-embed", nfail, exc.__name__), fn, 5, 0.1, 6, 0.2, fe, pairs(["AlAl"]))
      run((name+"-fail-dens", nfail, exc.__name__), fn, 5, 0.1, 6, 0.2, fe[::-1], pairs(["FeFe"]))
      run((name+"-fail-pair", nfail, exc.__name__), fn, 5, 0.1, 6, 0.2, eams(["Al","Fe"]), [Potential("Al","Al",failing_after(nfail, exc))])
  run((name+"-strembed",), fn, 5, 0.1, 6, 0.2, [EAMPotential("Al", 13, 26.98, returns_str, dens(2.0,1.1))], pairs(["AlAl"]))
  run((name+"-negpair",), fn, 5, 0.1, 6, 0.2, eams(["Al"]), [Potential("Al","Al",lambda r: -1.0)])
  run((name+"-intfuncs",), fn, 5, 0.1, 6, 0.2, [EAMPotential("X", 1, 1, intfunc, intfunc)], [Potential("X","X",intfunc)])

h = hashlib.sha256()
nexc = 0
for label, res in results:
  h.update(repr((label, res)).encode("utf-8"))
  if res[0] == "exc": nexc += 1
print("FOCUS", FOCUS, "cases", len(results), "exceptions", nexc)
print("digest", h.hexdigest())
if len(sys.argv) > 1:
  with io.open(sys.argv[1], "w", encoding="utf-8") as f:
    for label, res in results: f.write(repr((label, res)) + u"\n")

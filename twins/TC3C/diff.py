"""Differential script for twin C: availability + values of .deriv/.deriv2 on Custom_SplinePotential (and sub-classes)
and on the callable made by the trans() modifier."""
import hashlib
import io
import math

import atsim.potentials as ap
from atsim.potentials import potentialforms as pforms
from atsim.potentials.spline import (SplinePotential, Buck4_SplinePotential, Custom_SplinePotential,
                                     Exp_Spline, Buck4_Spline, Spline_Point)
from atsim.potentials.config import Configuration, ConfigParser
from atsim.potentials.config._potential_form_registry import Potential_Form_Registry
from atsim.potentials.config._modifier_registry import Modifier_Registry
from atsim.potentials.config._potential_form_builder import Potential_Form_Builder

out = []

def fmt(v):
  if isinstance(v, float):
    return "nan" if math.isnan(v) else v.hex()
  return repr(v)

def rec(label, thunk, msg=True):
  # msg=False: record only the exception type (used for wrong-arity calls, whose TypeError text quotes the
  # __qualname__ of the local function that implements .deriv/.deriv2 - an implementation detail)
  try:
    out.append("%s=%s" % (label, fmt(thunk())))
  except Exception as e:
    out.append("%s!%s:%s" % (label, type(e).__name__, e if msg else ""))

class Plain(object):
  """No deriv, no deriv2"""
  def __init__(self, k): self.k = k
  def __call__(self, r): return self.k / r ** 2

class OnlyDeriv(Plain):
  def deriv(self, r): return -2.0 * self.k / r ** 3

class OnlyDeriv2(Plain):
  def deriv2(self, r): return 6.0 * self.k / r ** 4

class Both(OnlyDeriv, OnlyDeriv2):
  pass

class Plain_Spline(object):
  """Spline stand-in without analytical derivatives"""
  def __init__(self, dp, ap_): self.detach_point = dp; self.attach_point = ap_; self.spline_coefficients = (1.0, 2.0)
  def __call__(self, r): return 1.0 + 2.0 * r

def lam(r): return 5.0 - r

RS = [0.3, 0.75, 1.0 - 1e-9, 1.0, 1.0 + 1e-9, 1.2, 1.5, 1.75, 2.2 - 1e-9, 2.2, 2.2 + 1e-9, 3.0, 5.5]

def probe(tag, sp):
  out.append("%s has deriv=%s deriv2=%s inst=%s" % (tag, hasattr(sp, "deriv"), hasattr(sp, "deriv2"),
             sorted(k for k in vars(sp) if k.startswith("deriv"))))
  for n in ("deriv", "deriv2"):
    if hasattr(sp, n):
      rec(tag + " name " + n, lambda: getattr(sp, n).__name__)
      rec(tag + " self " + n, lambda: getattr(sp, n).__self__ is sp)
  for r in RS:
    rec("%s %r v" % (tag, r), lambda: sp(r))
    rec("%s %r d" % (tag, r), lambda: sp.deriv(r))
    rec("%s %r d2" % (tag, r), lambda: sp.deriv2(r))
    rec("%s %r _d" % (tag, r), lambda: sp._deriv(r))
    rec("%s %r _d2" % (tag, r), lambda: sp._deriv2(r))
  rec(tag + " kw", lambda: sp.deriv(r=1.3))
  rec(tag + " kw2", lambda: sp.deriv2(r=1.3))
  rec(tag + " extra", lambda: sp.deriv(1.3, 2.0), msg=False)
  rec(tag + " extra2", lambda: sp.deriv2(1.3, "_deriv"), msg=False)
  rec(tag + " noarg", lambda: sp.deriv(), msg=False)
  g = ap.gradient(sp)
  rec(tag + " grad has deriv", lambda: hasattr(g, "deriv"))
  rec(tag + " grad", lambda: g(1.3))
  pl = ap.plus(sp, pforms.constant(1.0))
  rec(tag + " plus attrs", lambda: (hasattr(pl, "deriv"), hasattr(pl, "deriv2")))
  rec(tag + " plus d", lambda: pl.deriv(1.3))
  rec(tag + " plus d2", lambda: pl.deriv2(1.3))

ends = [("plain", Plain(3.0)), ("d", OnlyDeriv(3.0)), ("d2", OnlyDeriv2(3.0)), ("both", Both(3.0)), ("lam", lam),
        ("bm", pforms.bornmayer(1000.0, 0.3)), ("buck", pforms.buck(0.0, 1.0, 32.0))]

# Exp spline (always has analytical derivs), Buck4 spline, and a spline object without derivs
for na, a in ends:
  for nb, b in ends:
    if na in ("bm", "buck") and nb not in ("bm", "buck", "plain"):
      continue
    tag = "%s|%s" % (na, nb)
    rec(tag + " exp ctor", lambda: probe(tag + " exp", SplinePotential(a, b, 1.0, 2.2)))
    rec(tag + " b4 ctor", lambda: probe(tag + " b4", Buck4_SplinePotential(a, b, 1.0, 2.2, 1.6)))
    def custom():
      dp = Spline_Point(a, 1.0)
      ap_ = Spline_Point(b, 2.2)
      probe(tag + " cust", Custom_SplinePotential(Plain_Spline(dp, ap_)))
    rec(tag + " cust ctor", custom)

rec("buck4 form", lambda: probe("buck4", pforms.buck4(1000.0, 0.3, 32.0, 1.0, 1.6, 2.2)))

# trans() modifier through the potential form builder
cfgp = ConfigParser(io.StringIO(u"[Pair]\nA-A : as.zero\n"))
def build(defn):
  cp = ConfigParser(io.StringIO(u"[Pair]\nA-B : %s\n[Potential-Form]\nnoderiv(r, a) : a*r^2\n" % defn))
  pfr = Potential_Form_Registry(cp, True)
  mr = Modifier_Registry()
  builder = Potential_Form_Builder(pfr, mr)
  return builder.create_potential_function(cp.pair[0].potential_form_instance)

trans_defns = [
  "trans(as.buck 1000.0 0.3 32.0, as.constant 0.5)",
  "trans(as.polynomial 1.0 2.0 3.0 4.0, as.constant -1.25)",
  "trans(noderiv 2.0, as.constant 1.0)",
  "trans(sum(as.buck 1000.0 0.3 32.0, noderiv 2.0), as.constant 0.25)",
  "trans(>0 as.zbl 92 8 >=1.5 as.buck 1000.0 0.3 32.0, as.constant 0.5)",
  "trans(>0 noderiv 1.0 >=1.5 noderiv 3.0, as.constant 0.5)",
  "trans(spline(>0 as.zbl 92 8 >=0.8 exp_spline >=1.4 as.buck 1761.775 0.35 0.0), as.constant 0.1)",
  "trans(trans(as.lj 0.2 2.0, as.constant 0.5), as.constant 0.25)",
  "product(trans(as.lj 0.2 2.0, as.constant 0.5), as.constant 2.0)",
  "trans(as.buck 1000.0 0.3 32.0)",
  "trans(as.buck 1000.0 0.3 32.0, as.buck 1000.0 0.3 32.0)",
  "trans(as.buck 1000.0 0.3 32.0, as.constant 1.0 2.0)",
  "trans(as.buck 1000.0 0.3 32.0, sum(as.constant 1.0, as.constant 2.0))",
]
for di, defn in enumerate(trans_defns):
  try:
    f = build(defn)
  except Exception as e:
    out.append("trans%d build!%s:%s" % (di, type(e).__name__, e))
    continue
  out.append("trans%d deriv=%s deriv2=%s callable=%s/%s" % (di, hasattr(f, "deriv"), hasattr(f, "deriv2"),
             callable(getattr(f, "deriv", None)), callable(getattr(f, "deriv2", None))))
  for r in (0.4, 0.9, 1.0, 1.25, 1.5, 2.0, 3.3):
    rec("trans%d %r v" % (di, r), lambda: f(r))
    rec("trans%d %r d" % (di, r), lambda: f.deriv(r))
    rec("trans%d %r d2" % (di, r), lambda: f.deriv2(r))
  rec("trans%d kw" % di, lambda: f.deriv(r=1.1))
  rec("trans%d kw2" % di, lambda: f.deriv2(r=1.1))
  rec("trans%d extra" % di, lambda: type(f.deriv(1.1, 2.2)).__name__, msg=False)
  rec("trans%d noarg" % di, lambda: type(f.deriv2()).__name__, msg=False)
  g = ap.gradient(f)
  rec("trans%d grad" % di, lambda: (hasattr(g, "deriv"), fmt(g(1.1))))

# Whole tabulations
cfg = u"""[Tabulation]
target : %s
cutoff : 5.0
nr : 200

[Pair]
O-U : trans(spline(>0 as.zbl 92 8 >=0.8 exp_spline >=1.4 as.buck 1761.775 0.35 0.0), as.constant 0.1)
U-U : spline(>0 as.bornmayer 1000.0 0.3 >=1.0 buck4_spline 1.6 >=2.2 as.buck 0.0 1.0 32.0)
O-O : sum(trans(as.buck 1000.0 0.3 32.0, as.constant 0.5), trans(sq 2.0, as.constant -0.5))
Th-O : as.buck4 1000.0 0.3 32.0 1.0 1.6 2.2

[Potential-Form]
sq(r, a) : a*r^2
"""
for target in ("LAMMPS", "DLPOLY", "GULP"):
  def tab():
    cp = Configuration()
    t = cp.read(io.StringIO(cfg % target))
    o = io.StringIO()
    t.write(o)
    return hashlib.sha256(o.getvalue().encode("utf-8")).hexdigest()
  rec("potable " + target, tab)

blob = "\n".join(out)
print(len(out), sum("!" in o for o in out), hashlib.sha256(blob.encode("utf-8")).hexdigest())

"""Differential script for twin A (atsim/potentials/_modifiers.py: explicit left
fold instead of functools.reduce, hoisted look-ups in spline(), shared shift
helper in trans()).

Exercises the modifiers through the public API (Configuration / potable style
tabulation, ConfigParser + Potential_Form_Builder, Modifier_Registry) and prints
a sha256 digest of everything observed: written table bytes, repr of function
values / derivatives, presence of .deriv/.deriv2, exception type names and
messages, and the DEBUG log records emitted by the modules involved.
"""
from __future__ import print_function

import glob
import hashlib
import io
import logging
import os
import sys

HERE = os.path.dirname(os.path.abspath(__file__))
ROOT = os.path.dirname(HERE)

from atsim.potentials.config import Configuration, ConfigParser
from atsim.potentials.config._potential_form_builder import Potential_Form_Builder
from atsim.potentials.config._potential_form_registry import Potential_Form_Registry
from atsim.potentials.config._modifier_registry import Modifier_Registry
from atsim.potentials.config._common import PotentialFormInstanceTuple, PotentialModifierTuple, MultiRangeDefinitionTuple

OUT = []

def emit(*args):
  OUT.append(" | ".join(str(a) for a in args))


class _ListHandler(logging.Handler):
  def __init__(self):
    logging.Handler.__init__(self, logging.DEBUG)
    self.records = []

  def emit(self, record):
    self.records.append("{}:{}:{}".format(record.name, record.levelname, record.getMessage()))

LOG_NAMES = ["atsim.potentials._modifiers",
             "atsim.potentials.config._potential_form_builder",
             "atsim.potentials.config._modifier_registry"]

def start_logs():
  h = _ListHandler()
  for n in LOG_NAMES:
    lg = logging.getLogger(n)
    lg.setLevel(logging.DEBUG)
    lg.addHandler(h)
    lg.propagate = False
  return h

def stop_logs(h):
  for n in LOG_NAMES:
    logging.getLogger(n).removeHandler(h)
  return h.records


def describe_exc(e):
  return "EXC {} {}".format(type(e).__name__, e)

RS = [0.0, 0.1, 0.5, 0.8, 1.0, 1.1, 1.4, 1.9999, 2.0, 2.5, 3.0, 4.75, 10.0]

def probe_callable(label, f):
  emit(label, "type", type(f).__name__, "deriv", hasattr(f, "deriv"), "deriv2", hasattr(f, "deriv2"))
  for r in RS:
    row = []
    for attr in (None, "deriv", "deriv2"):
      try:
        g = f if attr is None else getattr(f, attr)
        row.append(repr(g(r)))
      except Exception as e:
        row.append(type(e).__name__)
    emit(label, r, *row)


FORMS = u"""
[Potential-Form]
born_mayer(r, A, rho) = A * exp(-r/rho)
dispersion(r, C) = - C/r^6
lin(r, m, c) = m*r + c
"""

PAIR_LINES = [
  "as.buck 1000.0 0.3 32.0",
  "sum(as.buck 1000.0 0.3 32.0, as.constant 1.0)",
  "sum(as.constant 1.0)",
  "sum(born_mayer 1000.0 0.1, dispersion 32.0)",
  "sum(as.bornmayer 1000.0 0.1, dispersion 32.0)",
  "sum(as.bornmayer 1000.0 0.1, as.buck 0 1.0 32.0, as.constant 0.25, as.constant 0.25)",
  "sum(as.constant 1, >=2 as.constant 1)",
  "sum(as.constant 1, >=2 as.constant 1 >3 as.constant 5)",
  "sum(>1 as.constant 1, >=2 as.constant 1)",
  "product(as.buck 1000.0 0.2 32.0, as.polynomial 0.0 2.0, as.polynomial 1.0 -3.0 0.5)",
  "product(lin 2.0 1.0, lin 2.0 1.0)",
  "sum(product(as.constant 2.0, as.polynomial 0.0 1.0), as.polynomial 0.0 0.0 1.0 >=3 as.constant 0.0)",
  "pow(as.polynomial 0.0 1.0, as.constant 2.0)",
  "pow(as.constant 2, as.constant 3, as.constant 2)",
  "pow(as.polynomial 1.0 1.0, as.constant 2, as.polynomial 0.5 0.25, as.constant 0.5)",
  "pow(lin 1.0 1.0, lin 0.0 2.0)",
  "pow(sum(as.constant 1.0, as.polynomial 0 1), product(as.constant 2, as.constant 1.5))",
  "trans(as.buck 1000.0 0.2 32.0, as.constant 2.0)",
  "trans(as.polynomial 1.0 2.0 3.0, as.constant -0.5)",
  "trans(dispersion 32.0, as.constant 1.0)",
  "trans(sum(as.polynomial 0 1, dispersion 3.0), as.constant 1.0)",
  "trans(trans(as.polynomial 0 1, as.constant 1.0), as.constant 1.0)",
  "sum(trans(as.polynomial 0 1 >=2 as.constant 7, as.constant 1.0), pow(as.constant 2, as.constant 2))",
  "spline(>0 as.zbl 14 8 >=0.8 exp_spline >=1.4 as.buck 180003 0.3 32.0)",
  "spline(>0 as.polynomial 1 -2 >=0.8 exp_spline >=1.4 as.polynomial 0.5 0.1)",
  "spline(as.polynomial 1 -2 >=0.8 exp_spline >=1.4 as.polynomial 0.5 0.1)",
  "spline(>0 as.buck 1000.0 0.3 32.0 >=1.0 buck4_spline 1.5 >=2.0 as.buck 0.0 1.0 32.0)",
  "spline(>0 sum(as.polynomial 1 -2, as.constant 0.5) >=0.8 exp_spline >=1.4 product(as.polynomial 0.5 0.1, as.constant 2))",
  "sum(spline(>0 as.polynomial 1 -2 >=0.8 exp_spline >=1.4 as.polynomial 0.5 0.1), as.constant 1)",
  ">=1 sum(as.constant 1, as.constant 2) >2 product(as.constant 3, as.polynomial 0 1)",
  # Errors
  "nothing(as.constant 1)",
  "sum(nothing(as.constant 1), as.constant 2)",
  "as.nothing 1",
  "sum(as.nothing 1, as.constant 2)",
  "sum(as.constant 1 2)",
  "sum(as.buck 1)",
  "trans(as.constant 1)",
  "trans(as.constant 1, as.constant 2, as.constant 3)",
  "trans(as.constant 1, as.polynomial 2)",
  "trans(as.constant 1, sum(as.constant 2))",
  "trans(as.constant 1, as.constant 2 3)",
  "trans(as.constant 1, as.constant)",
  "spline(as.constant 1)",
  "spline(as.constant 1, as.constant 2)",
  "spline(>0 as.constant 1 >=1 exp_spline)",
  "spline(>0 as.constant 1 >=1 as.constant 2 >=2 as.constant 3)",
  "spline(>0 as.constant 1 >=1 sum(as.constant 2) >=2 as.constant 3)",
  "spline(>0 as.constant 1 >=1 exp_spline >=2 as.constant 3 >=3 as.constant 4)",
  "spline(>0 as.constant 1 >=1 exp_spline 1.0 >=2 as.constant 3)",
  "spline(>0 as.constant 1 >=1 buck4_spline >=2 as.constant 3)",
  "spline(>0 as.constant 1 >=1 buck4_spline 1 2 >=2 as.constant 3)",
  "spline(>0 as.constant 1 >=1 buck4_spline 3.0 >=2 as.constant 3)",
  "spline(>2 as.constant 1 >=1 exp_spline >=3 as.constant 3)",
  "spline(>0 as.constant 1 >=3 exp_spline >=2 as.constant 3)",
  "spline(>0 as.constant -1 >=1 exp_spline >=2 as.constant 3)",
  "spline(>0 nothing(as.constant 1) >=1 exp_spline >=2 as.constant 3)",
  "spline(>0 as.constant 1 >=1 exp_spline >=2 as.nothing 3)",
]


def section_builder():
  """ConfigParser -> tuples -> Potential_Form_Builder.create_potential_function"""
  for i, line in enumerate(PAIR_LINES):
    label = "B{:02d}".format(i)
    emit(label, line)
    h = start_logs()
    try:
      cp = ConfigParser(io.StringIO(u"[Pair]\nA-B : {}\n{}".format(line, FORMS)))
      pfr = Potential_Form_Registry(cp, register_standard=True)
      pfb = Potential_Form_Builder(pfr, Modifier_Registry())
      pairs = cp.pair
      emit(label, "parsed", repr(pairs))
      f = pfb.create_potential_function(pairs[0].potential_form_instance)
      probe_callable(label, f)
    except Exception as e:
      emit(label, describe_exc(e))
    for rec in stop_logs(h):
      emit(label, "LOG", rec)


TARGETS = ["LAMMPS", "DLPOLY", "GULP"]

def section_configuration():
  """Configuration().read() -> tabulation.write(): the potable code path."""
  for i, line in enumerate(PAIR_LINES):
    target = TARGETS[i % len(TARGETS)]
    label = "C{:02d}".format(i)
    cfg = u"[Tabulation]\ntarget : {}\nnr : {}\ndr : 0.05\n\n[Pair]\nO-O : as.buck 1000.0 0.3 32.0\nU-O : {}\nAl-U : {}\n{}".format(
      target, 40 + 4*i, line, PAIR_LINES[(i * 7 + 3) % 30], FORMS)
    h = start_logs()
    try:
      tab = Configuration().read(io.StringIO(cfg))
      out = io.StringIO()
      tab.write(out)
      emit(label, target, hashlib.sha256(out.getvalue().encode("utf-8")).hexdigest(), len(out.getvalue()))
      for p in tab.potentials:
        emit(label, p.speciesA, p.speciesB, repr(p.energy(1.3)), repr(p.force(1.3)))
    except Exception as e:
      emit(label, target, describe_exc(e))
    emit(label, "LOGDIGEST", hashlib.sha256("\n".join(stop_logs(h)).encode("utf-8")).hexdigest())


EAM_CFG = u"""[Tabulation]
target : {target}
nr : 60
dr : 0.1
nrho : 50
drho : 0.2

[Pair]
Al-Al : sum(as.buck 1000.0 0.3 32.0, >=2 as.constant 1)
Al-Cu : product(as.polynomial 0 1, pow(as.polynomial 1 1, as.constant 2, as.constant 0.5))
Cu-Cu : spline(>0 as.zbl 29 29 >=0.8 exp_spline >=1.4 as.buck 180003 0.3 32.0)

[EAM-Density]
{dens}

[EAM-Embed]
Al : product(as.constant -1.0, as.sqrt 1.0)
Cu : sum(as.sqrt -0.5, trans(as.polynomial 0 0.1, as.constant 0.5))
"""

def section_eam():
  for target, dens in [
      ("setfl", "Al : sum(as.bornmayer 10.0 2.0, as.constant 0.1)\nCu : trans(as.bornmayer 8.0 1.5, as.constant 0.2)"),
      ("DL_POLY_EAM", "Al : pow(as.bornmayer 10.0 2.0, as.constant 2)\nCu : as.bornmayer 8.0 1.5"),
      ("setfl_fs", "Al->Al : sum(as.bornmayer 10.0 2.0, as.constant 0.1)\nAl->Cu : as.bornmayer 9.0 2.0\nCu->Al : product(as.bornmayer 9.0 2.0, as.constant 2)\nCu->Cu : as.bornmayer 8.0 1.5")]:
    label = "E-" + target
    h = start_logs()
    try:
      tab = Configuration().read(io.StringIO(EAM_CFG.format(target=target, dens=dens)))
      out = io.StringIO()
      tab.write(out)
      emit(label, hashlib.sha256(out.getvalue().encode("utf-8")).hexdigest(), len(out.getvalue()))
    except Exception as e:
      emit(label, describe_exc(e))
    emit(label, "LOGDIGEST", hashlib.sha256("\n".join(stop_logs(h)).encode("utf-8")).hexdigest())


def section_files():
  """All .aspot files shipped in tests and docs"""
  paths = sorted(glob.glob(os.path.join(ROOT, "tests", "*", "*.aspot")) +
                 glob.glob(os.path.join(ROOT, "tests", "*", "*", "*.aspot")) +
                 glob.glob(os.path.join(ROOT, "docs", "*", "*.aspot")) +
                 glob.glob(os.path.join(ROOT, "docs", "*", "*", "*.aspot")))
  for p in paths:
    label = "F-" + os.path.relpath(p, ROOT)
    cwd = os.getcwd()
    os.chdir(os.path.dirname(p))
    try:
      with io.open(p, encoding="utf-8") as infile:
        tab = Configuration().read(infile)
      out = io.StringIO()
      tab.write(out)
      emit(label, hashlib.sha256(out.getvalue().encode("utf-8")).hexdigest(), len(out.getvalue()))
    except Exception as e:
      emit(label, describe_exc(e))
    finally:
      os.chdir(cwd)


class _Fake_Builder(object):
  """Stands in for Potential_Form_Builder when calling modifiers directly"""

  def __init__(self):
    self.calls = []

  def create_potential_function(self, pfi):
    self.calls.append(pfi)
    if pfi == "boom":
      raise KeyError("boom")
    try:
      v = float(pfi)
    except TypeError:
      v = 2.5
    def f(r):
      return v + r
    if v > 2:
      def deriv(r):
        return 1.0
      f.deriv = deriv
    return f


def section_direct():
  """Direct calls of the registered modifiers"""
  h = start_logs()
  reg = Modifier_Registry()
  from atsim.potentials import _modifiers
  names = sorted(n for n in dir(_modifiers) if _modifiers.is_modifier(getattr(_modifiers, n)))
  emit("D", "names", names)
  for n in names:
    emit("D", n, reg[n] is getattr(_modifiers, n), callable(reg[n]), _modifiers.is_modifier(reg[n]), getattr(reg[n], "__doc__", None))
  for k in ["Sum", "", "modifier", "is_modifier", "_sum", None, 1]:
    try:
      reg[k]
      emit("D", "getitem", k, "found")
    except Exception as e:
      emit("D", "getitem", k, describe_exc(e), repr(e.args))
  emit("D", "_sum", _modifiers._sum is sum, _modifiers.is_modifier(_modifiers.modifier), _modifiers.is_modifier(None))
  for n in ["sum", "product", "pow"]:
    for forms in [[], ["1"], ["1", "2"], ["3", "1", "2.5"], ["2", "3", "2", "0.5"], ["1", "boom", "2"], ("1", "2"), iter(["1", "2", "3"]), None]:
      fb = _Fake_Builder()
      label = "D-{}-{}".format(n, forms if not hasattr(forms, "__next__") else "iter")
      try:
        f = reg[n](forms, fb)
        emit(label, "calls", fb.calls)
        probe_callable(label, f)
      except Exception as e:
        emit(label, describe_exc(e), "calls", fb.calls)
  MRT = MultiRangeDefinitionTuple
  PFI = PotentialFormInstanceTuple
  for forms in [[], [PFI("as.buck", [1.0, 2.0, 3.0], None, None)],
                [PFI("as.buck", [1.0, 2.0, 3.0], None, None), PFI("as.constant", [1.5], None, None)],
                [PFI("as.buck", [1.0, 2.0, 3.0], None, None), PFI("as.constant", [1.5], MRT(">", 2.0), None)],
                [PFI("as.buck", [1.0, 2.0, 3.0], None, None), PotentialModifierTuple("sum", [], None, None)]]:
    label = "D-trans-{}".format(len(forms))
    fb = _Fake_Builder()
    try:
      f = reg["trans"](forms, fb)
      emit(label, "calls", fb.calls)
      probe_callable(label, f)
    except Exception as e:
      emit(label, describe_exc(e), "calls", fb.calls)
  for rec in stop_logs(h):
    emit("D", "LOG", rec)


def main():
  section_direct()
  section_builder()
  section_configuration()
  section_eam()
  section_files()
  text = "\n".join(OUT)
  if "--dump" in sys.argv:
    print(text)
  print("lines:", len(OUT))
  print("exceptions:", sum(1 for l in OUT if "EXC " in l))
  print("digest:", hashlib.sha256(text.encode("utf-8")).hexdigest())

main()

"""Differential script for twin A (atsim/potentials/spline/__init__.py).

Exercises Spline_Point, Exp_Spline, Buck4_Spline, Custom_SplinePotential,
SplinePotential, Buck4_SplinePotential, potentialforms.buck4 and the spline()
config modifier through the public API and prints a sha256 digest."""
import hashlib, io, math

import atsim.potentials as ap
from atsim.potentials import potentialforms as pf
from atsim.potentials.spline import (Spline_Point, Exp_Spline, Buck4_Spline,
    Custom_SplinePotential, SplinePotential, Buck4_SplinePotential)
from atsim.potentials.config import Configuration

out = []
def rec(*a):
  out.append(" ".join(repr(x) for x in a))

def attempt(label, f, *args):
  try:
    v = f(*args)
    rec(label, v)
    return v
  except Exception as e:
    rec(label, "EXC", type(e).__name__, str(e))

GRID = [0.0, 0.1, 0.5, 0.79, 0.8, 0.81, 1.0, 1.2, 1.39, 1.4, 1.41, 1.5, 2.0, 2.5, 3.0, 3.5, 7.0, float("inf"), float("nan"), -1.0]

def plain_a(r):
  return 1000.0*math.exp(-r/0.3)
def plain_b(r):
  return -32.0/r**6

def dump_pot(label, pot):
  rec(label, "type", type(pot).__name__, [c.__name__ for c in type(pot).__mro__])
  rec(label, "has", hasattr(pot, "deriv"), hasattr(pot, "deriv2"))
  rec(label, "dX", pot.detachmentX, "aX", pot.attachmentX)
  rec(label, "coefs", pot.splineCoefficients)
  rec(label, "start_is", pot.startPotential is pot._detach_point.potential_function if hasattr(pot, "_detach_point") else None)
  rec(label, "interp", type(pot.interpolationFunction).__name__)
  for r in GRID:
    attempt(label+" U", pot, r)
    if hasattr(pot, "deriv"):
      attempt(label+" d", pot.deriv, r)
    if hasattr(pot, "deriv2"):
      attempt(label+" d2", pot.deriv2, r)
    attempt(label+" _d", pot._deriv, r)
    attempt(label+" _d2", pot._deriv2, r)
  g = ap.gradient(pot)
  for r in GRID[:14]:
    attempt(label+" grad", g, r)

def dump_spline(label, s):
  rec(label, type(s).__name__, [c.__name__ for c in type(s).__mro__][-1])
  rec(label, "pts", s.detach_point.r, s.attach_point.r, s.detach_point.v, s.attach_point.v,
      s.detach_point.deriv, s.attach_point.deriv, s.detach_point.deriv2, s.attach_point.deriv2)
  rec(label, "coefs", s.spline_coefficients)
  for name in ("detach_point", "attach_point", "spline_coefficients", "r_min", "spline5", "spline3"):
    p = getattr(type(s), name, None)
    if p is not None:
      rec(label, "doc", name, p.__doc__, isinstance(p, property))
      attempt(label+" set "+name, setattr, s, name, 1)
  for r in GRID:
    attempt(label+" U", s, r)
    attempt(label+" d", s.deriv, r)
    attempt(label+" d2", s.deriv2, r)

# --- Spline points
for f, r in [(pf.buck(1000.0, 0.3, 32.0), 1.1), (plain_a, 0.9), (pf.zbl(92, 8), 0.7), (plain_b, 2.0), (pf.zero(), 1.0)]:
  sp = Spline_Point(f, r)
  rec("SP", sp.r, sp.v, sp.deriv, sp.deriv2, sp.potential_function is f,
      type(sp.deriv_callable).__name__, type(sp.deriv2_callable).__name__,
      hasattr(sp.deriv_callable, "deriv"), hasattr(sp.deriv2_callable, "deriv"))
  for x in (0.5, 1.5, 2.5):
    attempt("SPc", sp.deriv_callable, x)
    attempt("SPc2", sp.deriv2_callable, x)

# --- Splines
cases = [
  ("zbl-buck", pf.zbl(92, 8), pf.buck(1761.775, 0.35642, 0.0), 0.8, 1.4, 1.1),
  ("bm-disp", pf.bornmayer(11272.6, 0.1363), pf.buck(0.0, 1.0, 134.0), 1.2, 2.6, 2.1),
  ("plain-plain", plain_a, plain_b, 1.0, 3.0, 2.0),
  ("plain-analytic", plain_a, pf.buck(0.0, 1.0, 32.0), 1.0, 3.0, 1.6),
  ("neg-values", pf.lj(0.05, 2.5), pf.buck(0.0, 1.0, 20.0), 3.0, 4.0, 3.5),
  ("zero-zero", pf.zero(), pf.constant(2.0), 1.0, 2.0, 1.5),
]
for label, a, b, dx, ax, rmin in cases:
  dp, apt = Spline_Point(a, dx), Spline_Point(b, ax)
  try:
    es = Exp_Spline(dp, apt)
  except Exception as e:
    rec(label, "exp EXC", type(e).__name__)
    es = None
  if es:
    dump_spline(label+" exp", es)
    dump_pot(label+" custom-exp", Custom_SplinePotential(es))
  try:
    bs = Buck4_Spline(dp, apt, rmin)
  except Exception as e:
    rec(label, "buck4 EXC", type(e).__name__)
    bs = None
  if bs:
    dump_spline(label+" b4", bs)
    rec(label, "b4 which", [bs._which_spline(r) is bs.spline5 for r in (dx, rmin, ax)])
    dump_pot(label+" custom-b4", Custom_SplinePotential(bs))
  try:
    dump_pot(label+" SplinePotential", SplinePotential(a, b, dx, ax))
  except Exception as e:
    rec(label, "SplinePotential EXC", type(e).__name__)
  try:
    dump_pot(label+" Buck4_SplinePotential", Buck4_SplinePotential(a, b, dx, ax, rmin))
  except Exception as e:
    rec(label, "Buck4_SplinePotential EXC", type(e).__name__)

# ap.SplinePotential is the public re-export
rec("reexport", ap.SplinePotential is SplinePotential, ap.spline.Buck4_Spline is Buck4_Spline)
dump_pot("buck4-form", pf.buck4(11272.6, 0.1363, 134.0, 1.2, 2.1, 2.6))

# --- malformed
attempt("bad1", lambda: Exp_Spline(Spline_Point(pf.zero(), 1.0), Spline_Point(pf.zero(), 1.0)).spline_coefficients)
attempt("bad2", lambda: Custom_SplinePotential(object()))
attempt("bad3", lambda: SplinePotential(None, None, 1.0, 2.0))
attempt("bad4", lambda: Buck4_SplinePotential(pf.zero(), pf.zero(), 1.0, 1.0, 1.0).splineCoefficients)
attempt("bad5", lambda: Exp_Spline(None, None))
attempt("bad6", lambda: Buck4_Spline(Spline_Point(pf.zero(), "a"), Spline_Point(pf.zero(), 1.0), 2.0))
attempt("bad7", lambda: Custom_SplinePotential(Exp_Spline(Spline_Point(plain_a, 1.0), Spline_Point(plain_b, 2.0)))("x"))

# --- through the config file spline() modifier and pair tabulation writers
CFGS = [
u"""[Tabulation]
target : LAMMPS
cutoff : 5.0
nr : 40
[Pair]
O-U = spline(>0 as.zbl 92 8 >=0.8 exp_spline >=1.4 as.buck 1761.775 0.35642 0.0)
O-O = spline(>0 as.bornmayer 11272.6 0.1363 >=1.2 buck4_spline 2.1 >=2.6 as.buck 0 1.0 134.0)
""",
u"""[Tabulation]
target : DL_POLY
cutoff : 6.0
nr : 32
[Pair]
A-B = spline(>0 bm 1000.0 0.3 >=1.0 exp_spline >=3.0 disp 32.0)
B-B = sum(as.constant 1.0, spline(>0 bm 1000.0 0.3 >=1.0 buck4_spline 2.0 >=3.0 as.buck 0 1.0 32.0))
[Potential-Form]
bm(r, A, rho) = A * exp(-r/rho)
disp(r, C) = - C/r^6
""",
u"""[Tabulation]
target : GULP
cutoff : 4.0
dr : 0.25
[Pair]
Gd-O = spline(>0 sum(as.zbl 64 8, as.constant 0.5) >=0.6 exp_spline >=1.1 as.buck 1885.75 0.3399 20.34)
""",
u"""[Pair]
A-B = spline(>0 as.zbl 92 8 >=0.8 exp_spline 1.0 >=1.4 as.buck 1761.775 0.35642 0.0)
""",
u"""[Pair]
A-B = spline(>0 as.zbl 92 8 >=0.8 buck4_spline 2.0 >=1.4 as.buck 1761.775 0.35642 0.0)
""",
u"""[Pair]
A-B = spline(>0 as.zbl 92 8 >=0.8 as.buck 1 1 1 >=1.4 as.buck 1761.775 0.35642 0.0)
""",
]
for i, cfg in enumerate(CFGS):
  try:
    tab = Configuration().read(io.StringIO(cfg))
    sio = io.StringIO()
    tab.write(sio)
    rec("cfg", i, hashlib.sha256(sio.getvalue().encode()).hexdigest(), len(sio.getvalue()))
    for p in tab.potentials:
      rec("cfg", i, p.speciesA, p.speciesB, type(p.potentialFunction).__name__, [p.energy(r) for r in (0.5, 1.0, 1.3, 2.0, 2.4, 3.0)], [p.force(r) for r in (0.5, 1.0, 1.3, 2.0, 2.4, 3.0)])
  except Exception as e:
    rec("cfg", i, "EXC", type(e).__name__, str(e))

txt = "\n".join(out)
print(len(out), "records")
print("DIGEST", hashlib.sha256(txt.encode()).hexdigest())
if __import__("sys").argv[1:] == ["-v"]:
  print(txt)
